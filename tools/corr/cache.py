"""Correspondence harness for Cache.v: random get_esf / drop_cache sequences on a real StructureFunction."""
import numpy as np
from lib import common, cards
from lib.common import coq_bool, coq_list, coq_str

HEADER = ("From Coq Require Import ZArith List Bool String QArith.\nFrom Yad Require Import Cache CorrCache.\n"
          "Import ListNotations. Open Scope string_scope.\n")
VALS = [0.5, 0.75, 0.25, 0.625]


def q_lit(x):
    f = common.frac(x)
    return "(%d # %d)" % (f.numerator, f.denominator)


def kin_lit(k):
    return coq_list(["(%s, %s)" % (coq_str(n), q_lit(v)) for n, v in k.items()])


def one_case(rng):
    tmc = rng.random() < 0.4
    th = cards.theory_card(PTO=0, TMC=1 if tmc else 0, MP=0.25)
    name = rng.choice(["F2_total", "FL_light", "F3_total"])
    r = cards.make_runner(th, cards.obs_card({name: []}, prDIS="NC", xgrid=[0.0625, 0.125, 0.25, 0.5, 0.75, 1.0], degree=2))
    sf = r.observables[name]
    ops, obs, seen, keep = [], [], {}, []
    for _ in range(rng.randint(3, 9)):
        if rng.random() < 0.15:
            sf.drop_cache()
            ops.append("Drop"); obs.append("None")
            continue
        a, b = rng.choice(VALS), rng.choice(VALS)
        k = dict(x=a, Q2=b) if rng.random() < 0.5 else dict(Q2=b, x=a)
        if rng.random() < 0.3:      # the transposed point in the other key order: same tuple of values
            k = dict(Q2=a, x=b)
        raw = rng.random() < 0.5
        o = sf.get_esf(sf.obs_name, k, use_raw=raw)
        keep.append(o)
        hit = id(o) in seen
        seen[id(o)] = True
        is_tmc = type(o).__name__.startswith("ESFTMC")
        ops.append("(Get %s %s)" % (kin_lit(k), coq_bool(raw)))
        obs.append("(Some (%s, %s, %s, %s))" % (q_lit(o.x), q_lit(o.Q2), coq_bool(is_tmc), coq_bool(hit)))
    term = "{| cc_tmc := %s; cc_ops := %s; cc_obs := %s |}" % (coq_bool(tmc), coq_list(ops), coq_list(obs))
    return term, dict(tmc=tmc, observable=name, ops=ops[:6], observed=obs[:6])


def run_cache(chk, n):
    """returns (disagreements with the by-name model, disagreements with the positional model, descs)"""
    cases, descs = [], []
    for _ in range(n):
        t, d = one_case(chk.rng)
        cases.append(t); descs.append(d)
    bad_name = common.eval_cases("cache_byname", HEADER, cases, "cache_ok true", per_file=200)
    bad_pos = common.eval_cases("cache_positional", HEADER, cases, "cache_ok false", per_file=200)
    chk.corr["cache_trace"] = dict(cases=len(cases), disagreements=len(bad_name), disagreements_with_positional_key_model=len(bad_pos),
                                   distinct_nontrivial=len({tuple(d["ops"]) for d in descs}),
                                   rule="random sequences of get_esf (both dict key orders, transposed points, raw / TMC-corrected) and drop_cache on a real "
                                        "StructureFunction; compared per operation: x and Q2 of the object served, its class (TMC or plain), hit or miss; "
                                        "against the model keyed by field name (the one the theorem history_independent is about) and, for diagnosis, "
                                        "against the model keyed by position")
    chk.samples += descs[:2]
    return [descs[i] for i in bad_name], [descs[i] for i in bad_pos]
