"""Correspondence harnesses for Result.v / XS.v: ESFResult algebra, xs coefficients, EvaluatedCrossSection.get_result,
ESFResult.apply_pdf and the alpha_s dispatch of Output.apply_pdf_theory."""
import copy, math, types
import numpy as np
from lib import common, cards
from lib.common import qc, coq_Z, coq_bool, coq_list, coq_str, dyadic

HEADER = ("From Coq Require Import ZArith List Bool String QArith Qcanon.\n"
          "From Yad Require Import Base Result XS Thresholds CorrResult.\n"
          "Import ListNotations. Open Scope string_scope.\n")
KEYS = [(0, 0, 0, 0), (1, 0, 0, 0), (1, 0, 0, 1), (2, 0, 0, 0), (2, 0, 1, 0), (2, 0, 1, 1), (2, 0, 0, 2), (3, 0, 2, 0), (0, 2, 0, 0)]
XSKINDS = ["XSHERANC", "XSHERANCAVG", "XSHERACC", "XSCHORUSCC", "XSNUTEVCC", "XSNUTEVNU", "FW", "F1", "XSFPFCC"]


def key_lit(k):
    return "(%s, %s, %s, %s)" % tuple(coq_Z(i) for i in k)


def q_lit(x):
    f = common.frac(x)
    return "(%d # %d)" % (f.numerator, f.denominator)


def rand_result(rng):
    from yadism.esf.result import ESFResult
    ks = rng.sample(KEYS, rng.randint(0, 5))
    r = ESFResult(0.5, 10.0, 4)
    for k in ks:
        r.orders[k] = (np.array([[float(rng.randint(-64, 64)) / 8]]), np.array([[float(rng.randint(0, 16)) / 8]]))
    return r


def res_lit(r):
    return coq_list(["(%s, (%s, %s))" % (key_lit(k), qc(float(v[0][0])), qc(float(e[0][0]))) for k, (v, e) in r.orders.items()])


def rand_expr(rng, depth):
    """(coq term, python value)"""
    if depth == 0 or rng.random() < 0.25:
        r = rand_result(rng)
        return "(RLit %s)" % res_lit(r), r
    op = rng.choice(["add", "sub", "neg", "mul", "rmul", "mul2"])
    a_t, a_v = rand_expr(rng, depth - 1)
    if op == "add":
        b_t, b_v = rand_expr(rng, depth - 1)
        return "(RAdd %s %s)" % (a_t, b_t), a_v + b_v
    if op == "sub":
        b_t, b_v = rand_expr(rng, depth - 1)
        return "(RSub %s %s)" % (a_t, b_t), a_v - b_v
    if op == "neg":
        return "(RNeg %s)" % a_t, -a_v
    c = float(rng.randint(-16, 16)) / 4
    if op == "mul":
        return "(RMul %s %s)" % (qc(c), a_t), a_v * c
    if op == "rmul":
        return "(RMul %s %s)" % (qc(c), a_t), c * a_v
    ce = float(rng.randint(0, 8)) / 4
    return "(RMul2 %s %s %s)" % (qc(c), qc(ce), a_t), a_v * (c, ce)


def run_algebra(chk, n):
    cases, descs = [], []
    for _ in range(n):
        t, v = rand_expr(chk.rng, chk.rng.randint(1, 4))
        cases.append("(%s, %s)" % (t, res_lit(v)))
        descs.append(dict(expr=t[:200], n_keys=len(v.orders)))
    bad = common.eval_cases("ralgebra", HEADER, cases, "rcase_ok (qc 1 1000000000000)", per_file=150)
    chk.corr["esfresult_algebra"] = dict(cases=len(cases), disagreements=len(bad),
                                         distinct_nontrivial=len({d["expr"] for d in descs if d["n_keys"] > 0}),
                                         rule="random expression trees (+, -, unary -, * scalar, scalar *, * (value, error)) over ESFResults with "
                                              "overlapping order keys, evaluated by the real class and by the model; compared: keys in dict order, values, errors")
    chk.samples += descs[:1]
    return [descs[i] for i in bad]


def xs_params(rng):
    from yadism.esf import exs
    pid = rng.choice([11, -11, 12, -12])
    M2t = dyadic(rng, 0.5, 1.5, 8); M2W = dyadic(rng, 5000.0, 7000.0, 8); GF = dyadic(rng, 0.5, 2.0, 8) * 2.0 ** -16
    params = dict(projectilePID=pid, M2target=M2t, M2W=M2W, GF=GF)
    lit = ("{| p_pid := %s; p_mn := %s; p_M2W := %s; p_GF := %s; p_pi := %s; p_conv := %s |}"
           % (coq_Z(pid), qc(float(np.sqrt(M2t))), qc(M2W), qc(GF), qc(float(np.pi)), qc(float(exs.GEV_CM2_CONV))))
    return params, lit


def run_xs_coeffs(chk, n):
    from yadism.esf import exs
    cases, descs = [], []
    for _ in range(n):
        kind = chk.rng.choice(XSKINDS + ["g5", "XSBOGUS"])
        y = chk.rng.choice([1.0, dyadic(chk.rng, 0.0, 1.0, 8) or 0.5])
        x = dyadic(chk.rng, 0.0, 1.0, 10) or 0.25
        Q2 = dyadic(chk.rng, 1.0, 1000.0, 10)
        params, plit = xs_params(chk.rng)
        try:
            if kind == "g5":
                c = exs.xs_coeffs_polarized(kind)
            elif kind == "XSBOGUS":
                raise ValueError("not a kind")    # ObservableName rejects it before the coefficients are asked
            else:
                c = exs.xs_coeffs_unpolarized(kind, y, x=x, Q2=Q2, params=params)
            obs = "(Some (%s, %s, %s))" % tuple(qc(float(v)) for v in c)
        except ValueError:
            obs = "None"
        cases.append("{| x_kind := %s; x_y := %s; x_x := %s; x_Q2 := %s; x_p := %s; x_obs := %s |}"
                     % (coq_str(kind), qc(y), qc(x), qc(Q2), plit, obs))
        descs.append(dict(kind=kind, y=y, x=x, Q2=Q2, params=params, observed=obs[:120]))
    bad = common.eval_cases("xscoeffs", HEADER, cases, "xcase_ok (qc 1 100000000000)", per_file=200)
    bad2 = common.eval_cases("xsspec", HEADER, cases, "xspec_ok (qc 1 100000000000)", per_file=200)
    dist = {}
    for d in descs:
        dist[d["kind"]] = dist.get(d["kind"], 0) + 1
    chk.corr["xs_coeffs"] = dict(cases=len(cases), disagreements=len(bad), spec_disagreements=len(bad2), distribution=dist,
                                 distinct_nontrivial=len({(d["kind"], d["y"], d["x"], d["Q2"]) for d in descs if d["kind"] != "XSBOGUS"}),
                                 rule="random dyadic (x, y, Q2, M2target, M2W, GF) x every cross-section kind x projectile on the real "
                                      "xs_coeffs_unpolarized/polarized; compared with the model (xcase_ok) and directly with the documented "
                                      "specification spec_coeffs (xspec_ok), 1e-11 relative")
    chk.samples += descs[:2]
    return [descs[i] for i in sorted(set(bad) | set(bad2))]


def run_xs_result(chk, n):
    """EvaluatedCrossSection.get_result with stubbed structure functions"""
    from yadism.esf import exs
    from yadism.observable_name import ObservableName
    cases, descs = [], []
    for _ in range(n):
        kind = chk.rng.choice(XSKINDS + ["g5"])
        params, plit = xs_params(chk.rng)
        # few distinct kinematics on purpose: the same (kind, x, Q2, y) recurs with other beams / masses / couplings
        y = chk.rng.choice([0.5, 0.25, 1.0]); x = 0.25; Q2 = chk.rng.choice([4.0, 10.0])
        flavor = chk.rng.choice(["total", "light", "charm", "bottom"])
        # the observable configuration as CouplingConstants.from_dict builds it (all of its keys, not only the one read today)
        proc = chk.rng.choice(["EM", "NC", "CC"])
        configs = types.SimpleNamespace(coupling_constants=types.SimpleNamespace(obs_config={"projectilePID": params["projectilePID"], "process": proc, "polarization": 0.0,
                                                                                             "propagatorCorrection": 0.0, "nc_pos_charge": None}),
                                        M2target=params["M2target"], M2W=params["M2W"], GF=params["GF"])
        sfs = {}
        names = ("g4", "gL", "g1") if kind == "g5" else ("F2", "FL", "F3")
        for nm in names:
            sfs[nm + "_" + flavor] = rand_result(chk.rng)
        asked = []

        def get_esf(on, kin, sfs=sfs, asked=asked):
            asked.append(on.name)
            return types.SimpleNamespace(get_result=lambda: copy.deepcopy(sfs[on.name]))
        xs = exs.EvaluatedCrossSection(dict(x=x, Q2=Q2, y=y), ObservableName(kind + "_" + flavor), configs, get_esf)
        res = xs.get_result()
        if kind == "g5":
            c = exs.xs_coeffs_polarized(kind)
        else:
            c = exs.xs_coeffs_unpolarized(kind, y, x=x, Q2=Q2, params=params)
        third = names[2] + "_" + flavor in asked
        ok_asked = asked[:2] == [names[0] + "_" + flavor, names[1] + "_" + flavor] and (third == (c[2] != 0.0))
        term = ("(RAdd (RAdd (RMul %s (RLit %s)) (RMul %s (RLit %s))) (RMul %s (RLit %s)))"
                % (qc(float(c[0])), res_lit(sfs[names[0] + "_" + flavor]), qc(float(c[1])), res_lit(sfs[names[1] + "_" + flavor]),
                   qc(float(c[2])), res_lit(sfs[names[2] + "_" + flavor]) if third else "[]"))
        cases.append("(%s, %s)" % (term, res_lit(res)))
        descs.append(dict(kind=kind, flavor=flavor, process=proc, asked=list(asked), ok_asked=ok_asked, y_attr=getattr(res, "y", None) == y))
    bad = set(common.eval_cases("xsresult", HEADER, cases, "rcase_ok (qc 1 100000000000)", per_file=150))
    bad |= {i for i, d in enumerate(descs) if not d["ok_asked"] or not d["y_attr"]}
    chk.corr["xs_get_result"] = dict(cases=len(cases), disagreements=len(bad), distinct_nontrivial=len({(d["kind"], d["flavor"], d["process"]) for d in descs}),
                                     rule="real EvaluatedCrossSection.get_result with stubbed structure functions (random ESFResults; every flavour incl. heavy ones, every process): the result "
                                          "must be c1*sf1 + c2*sf2 + c3*sf3 of the SAME flavour and kinematics, keys unshifted, third SF requested iff c3 != 0")
    chk.samples += descs[:1]
    return [descs[i] for i in sorted(bad)]


class ToyPDF:
    def __init__(self, table, pids, xgrid, missing):
        self.t, self.pids, self.xg, self.missing = table, pids, xgrid, missing
        self.asked = []

    def hasFlavor(self, pid):
        return pid not in self.missing

    def xfxQ2(self, pid, x, Q2):
        self.asked.append(Q2)
        return self.t[self.pids.index(pid)][self.xg.index(x)] * x


def run_apply_pdf(chk, n):
    from yadism.esf.result import ESFResult, EXSResult
    cases, descs = [], []
    for _ in range(n):
        pids = [21, 1, -1, 2]
        xg = [0.125, 0.25, 0.5, 1.0]
        ks = chk.rng.sample(KEYS, chk.rng.randint(1, 6))
        r = ESFResult(0.25, dyadic(chk.rng, 1.0, 100.0, 6), 4)
        for k in ks:
            r.orders[k] = (np.array([[float(chk.rng.randint(-32, 32)) / 8 for _ in xg] for _ in pids]), np.zeros((4, 4)))
        table = [[float(chk.rng.randint(-16, 16)) / 4 for _ in xg] for _ in pids]
        missing = chk.rng.choice([[], [], [-1], [2, 21]])
        pdf = ToyPDF(table, pids, xg, missing)
        a_s4pi = dyadic(chk.rng, 0.0, 1.0, 8); aq = dyadic(chk.rng, 0.0, 1.0, 8) / 64
        xiR = chk.rng.choice([1.0, 0.5, 2.0, dyadic(chk.rng, 0.25, 4.0, 6)]); xiF = chk.rng.choice([1.0, 0.5, 2.0, dyadic(chk.rng, 0.25, 4.0, 6)])
        seen = []
        out = r.apply_pdf(pdf, pids, xg, lambda mu: (seen.append(mu), a_s4pi * 4 * np.pi)[1], lambda mu: aq, xiR, xiF)
        LR = float(np.log((1 / xiR) ** 2)); LF = float(np.log((1 / xiF) ** 2))
        eff = [[0.0 if p in missing else v for v in row] for p, row in zip(pids, table)]
        scales_ok = all(s == np.sqrt(r.Q2) * xiR for s in seen) and all(q == r.Q2 * xiF ** 2 for q in pdf.asked)
        a_s_used = float(a_s4pi * 4 * np.pi / (4 * np.pi))
        term = ("{| a_orders := %s; a_pdfs := %s; a_as := %s; a_aqed := %s; a_LR := %s; a_LF := %s; a_obs := %s |}"
                % (coq_list(["(%s, %s)" % (key_lit(k), coq_list([coq_list([qc(float(x)) for x in row]) for row in v])) for k, (v, _e) in r.orders.items()]),
                   coq_list([coq_list([qc(x) for x in row]) for row in eff]), qc(a_s_used), qc(aq), qc(LR), qc(LF), qc(float(out["result"]))))
        cases.append(term)
        descs.append(dict(keys=[list(k) for k in ks], xiR=xiR, xiF=xiF, missing=missing, scales_ok=scales_ok, result=float(out["result"])))
    bad = set(common.eval_cases("applypdf", HEADER, cases, "acase_ok (qc 1 10000000000)", per_file=150))
    bad |= {i for i, d in enumerate(descs) if not d["scales_ok"]}
    chk.corr["apply_pdf"] = dict(cases=len(cases), disagreements=len(bad),
                                 distinct_nontrivial=len({(tuple(map(tuple, d["keys"])), d["xiR"], d["xiF"]) for d in descs}),
                                 rule="real ESFResult.apply_pdf on random small operators / toy PDF tables (some flavours missing), constant couplings, "
                                      "random xiR, xiF; compared with the model sum (1e-10); also: alpha_s asked at sqrt(Q2)*xiR, PDFs at Q2*xiF^2")
    chk.samples += descs[:1]
    return [descs[i] for i in sorted(bad)]


def run_alphas_dispatch(chk, n):
    """which (scale^2, nf_to) Output.apply_pdf_theory asks the strong coupling for"""
    import eko.couplings
    from yadism.output import Output
    from yadism.esf.result import ESFResult
    cases, descs = [], []
    orig = eko.couplings.Couplings.a_s
    orig_init = eko.couplings.Couplings.__init__
    calls, inits = [], []

    def spy_init(self, couplings, order, method, masses, hqm_scheme, thresholds_ratios):
        inits.append(dict(alphas=float(couplings.alphas), scale=float(couplings.ref[0]) if hasattr(couplings, "ref") else None,
                          order=tuple(order), masses=[float(m) for m in masses], ratios=[float(r) for r in thresholds_ratios]))
        return orig_init(self, couplings=couplings, order=order, method=method, masses=masses, hqm_scheme=hqm_scheme, thresholds_ratios=thresholds_ratios)

    def spy(self, scale_to, nf_to=None, **kw):
        calls.append((float(scale_to), nf_to))
        return 0.01
    eko.couplings.Couplings.a_s = spy
    eko.couplings.Couplings.__init__ = spy_init
    wrong_card = []
    try:
        for _ in range(n):
            fns = chk.rng.choice(["ZM-VFNS", "ZM-VFNS", "FFNS", "FFN0", "FONLL-FFNS", "FONLL-FFN0", "VFNS"])
            nfff = chk.rng.choice([3, 4, 5])
            mc = dyadic(chk.rng, 1.0, 2.0, 4); mb = dyadic(chk.rng, 3.0, 6.0, 4); mt = dyadic(chk.rng, 100.0, 200.0, 4)
            kc, kb, kt = chk.rng.choice([1.0, 0.5, 2.0]), chk.rng.choice([1.0, 2.0, 0.75]), chk.rng.choice([1.0, 1.5])
            xiR = chk.rng.choice([1.0, 0.5, 2.0]); xiF = chk.rng.choice([1.0, 2.0])
            th = cards.theory_card(FNS=fns, NfFF=nfff, mc=mc, mb=mb, mt=mt, kcThr=kc, kbThr=kb, ktThr=kt, XIR=xiR, XIF=xiF, PTO=1)
            walls = [(mc * kc) ** 2, (mb * kb) ** 2, (mt * kt) ** 2]
            q2s = [w / xiR ** 2 for w in walls[:2]] + [float(np.nextafter(walls[0] / xiR ** 2, 0)), dyadic(chk.rng, 1.0, 500.0, 8), dyadic(chk.rng, 1.0, 50.0, 8)]
            out = Output()
            # the card stored in the output is ANOTHER card (other coupling, masses, ratios, order): the one handed over must be used
            out.theory = cards.theory_card(FNS="ZM-VFNS", NfFF=4, mc=mc * 1.25, mb=mb * 1.25, mt=mt * 1.25, kcThr=1.0, kbThr=1.0, ktThr=1.0,
                                           XIR=1.0, XIF=1.0, PTO=0, alphas=0.25)
            th["alphas"] = chk.rng.choice([0.118, 0.125, 0.1])
            out["xgrid"] = dict(grid=[0.5, 1.0], log=True); out["pids"] = [21, 1]
            out["F2_total"] = []
            for q in q2s:
                r = ESFResult(0.5, q, None); r.orders[(1, 0, 0, 0)] = (np.ones((2, 2)), np.zeros((2, 2)))
                out["F2_total"].append(r)
            pdf = ToyPDF([[1.0, 1.0], [1.0, 1.0]], [21, 1], [0.5, 1.0], [])
            del calls[:]; del inits[:]
            try:
                out.apply_pdf_theory(pdf, th)
                rejected = False
            except ValueError:
                rejected = True
            if inits:
                got = inits[-1]
                want = dict(alphas=float(th["alphas"]), order=(th["PTO"] + 1, th.get("QED", 0)), masses=[mc ** 2, mb ** 2, mt ** 2], ratios=[kc ** 2, kb ** 2, kt ** 2])
                diff = {k: (got[k], want[k]) for k in want if (list(got[k]) if isinstance(got[k], (list, tuple)) else got[k]) != (list(want[k]) if isinstance(want[k], (list, tuple)) else want[k])}
                if diff:
                    wrong_card.append(dict(index=len(cases), fns=fns, NfFF=nfff, walls=walls, xiR=xiR, Q2s=q2s, calls=[], rejected=rejected,
                                           couplings_built_from=diff, note="(got, expected from the card handed to apply_pdf_theory)"))
            exp = [float((np.sqrt(q) * xiR) ** 2) for q in q2s]
            if rejected:
                # the model must reject too (unknown scheme name, or matching scales not monotone: np.digitize raises)
                lit_calls = "[(%s, %s, 0%%Z)]" % (q_lit(exp[0]), q_lit(exp[0]))
                # a rejected card must be one the model rejects too: encode as a call the model answers None for
                term = ("{| d_fns := %s; d_nfff := %s; d_walls := (Fin %s, Fin %s, Fin %s); d_calls := %s |}"
                        % (coq_str(fns), coq_Z(nfff), q_lit(walls[0]), q_lit(walls[1]), q_lit(walls[2]), lit_calls))
                want_fail = True
            else:
                ok_len = len(calls) == len(q2s)
                term = ("{| d_fns := %s; d_nfff := %s; d_walls := (Fin %s, Fin %s, Fin %s); d_calls := %s |}"
                        % (coq_str(fns), coq_Z(nfff), q_lit(walls[0]), q_lit(walls[1]), q_lit(walls[2]),
                           coq_list(["(%s, %s, %s)" % (q_lit(e), q_lit(s), coq_Z(nf if nf is not None else -1)) for e, (s, nf) in zip(exp, calls)])
                           if ok_len else "[(0 # 1, 1 # 1, 0%Z)]"))
                want_fail = False
            cases.append((term, want_fail))
            descs.append(dict(fns=fns, NfFF=nfff, walls=walls, xiR=xiR, Q2s=q2s, calls=list(calls), rejected=rejected))
    finally:
        eko.couplings.Couplings.a_s = orig
        eko.couplings.Couplings.__init__ = orig_init
    failing = set(common.eval_cases("alphas", HEADER, [t for t, _ in cases], "dcase_ok", per_file=150))
    bad = [i for i, (_t, wf) in enumerate(cases) if (i in failing) != wf]
    dist = {}
    for d in descs:
        dist[d["fns"]] = dist.get(d["fns"], 0) + 1
    chk.corr["alphas_dispatch"] = dict(cases=len(cases), disagreements=len(bad), distribution=dist,
                                       distinct_nontrivial=len({(d["fns"], d["NfFF"], tuple(d["walls"]), d["xiR"]) for d in descs}),
                                       rule="real Output.apply_pdf_theory with eko's Couplings.a_s wrapped: every call must ask for scale^2 = (xiR Q)^2 and "
                                            "nf_to = NfFF (names containing FFNS/FFN0) or 3 + #{(m_q k_q)^2 <= scale^2} (ZM-VFNS), points exactly at and one ulp "
                                            "below a matching scale included; unknown scheme names must be rejected")
    chk.samples += descs[:1]
    chk.corr["alphas_dispatch"]["disagreements"] = len(set(bad) | {w["index"] for w in wrong_card})
    chk.corr["alphas_dispatch"]["rule"] += "; the Couplings object must be built from the card handed over (reference alpha_s, order, masses, ratios), not from the card stored in the output"
    return [descs[i] for i in bad] + wrong_card
