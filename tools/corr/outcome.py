"""Correspondence harness for Outcome.v: the outcome class of real run_yadism calls over sampled cells of the configuration
lattice, incl. TMC, malformed kinematics and cross-section kinds."""
import numpy as np
from lib import common, cards, runs
from lib.common import coq_Z, coq_str

HEADER = ("From Coq Require Import ZArith List Bool String.\nFrom Yad Require Import Base Couplings Weights Combiner Thresholds Outcome CorrOutcome.\n"
          "From YadGen Require Import Inventory.\nImport ListNotations. Open Scope string_scope.\n")
KIND_COQ = {"F2": "F2", "FL": "FL", "F3": "F3", "g1": "G1", "gL": "GL", "g4": "G4"}
FNS_COQ = {"ZM-VFNS": "ZMVFNS", "FFNS": "FFNS", "FFN0": "FFN0", "FONLL-FFNS": "FONLL_FFNS", "FONLL-FFN0": "FONLL_FFN0"}
HV = {"total": 0, "light": -1, "charm": 4, "bottom": 5, "top": 6}
KINS = {"KinOk": None, "XNonPositive": dict(x=0.0), "XAboveOne": dict(x=1.25), "Q2NonPositive": dict(Q2=0.0), "XBelowGrid": dict(x=2.0 ** -12)}


def explicit_raise(exc):
    """an explicit rejection = the exception was created by a `raise` statement in yadism's own source"""
    import traceback, linecache
    tb = traceback.extract_tb(exc.__traceback__)
    if not tb:
        return False
    last = tb[-1]
    if "yadism" not in last.filename.replace("\\", "/") or "/site-packages/" in last.filename:
        return False
    line = (last.line or linecache.getline(last.filename, last.lineno)).strip()
    return line.startswith("raise") or "raise " in line


def third_party_raise(exc):
    """the exception was created by a `raise` statement in the Python source of a dependency (not by a builtin such as list.index)"""
    import traceback, linecache
    tb = traceback.extract_tb(exc.__traceback__)
    if not tb:
        return False
    last = tb[-1]
    if "/site-packages/" not in last.filename.replace("\\", "/"):
        return False
    line = (last.line or linecache.getline(last.filename, last.lineno)).strip()
    return line.startswith("raise") and len(str(exc)) > 0


def classify(fn):
    """0 ok / 1 rejected (ValueError / NotImplementedError raised explicitly by yadism) / 2 crash / None environment"""
    try:
        out = fn()
        return 0, out, None
    except TypeError as e:
        if "incompatible constructor arguments" in str(e) or "HighScaleSplitLogs" in str(e):
            return None, None, e
        return 2, None, e
    except (ValueError, NotImplementedError) as e:
        if explicit_raise(e):
            return 1, None, e
        if third_party_raise(e):
            # an explicit, worded refusal by a dependency (e.g. LeProHQ: "High virtuality limit of x2g1_VV is not known!"): the request is
            # turned down clearly, but by a library whose domain of validity the outcome model does not describe: counted, not compared
            return None, None, e
        return 2, None, e
    except Exception as e:  # noqa
        return 2, None, e


def gen_cell(rng, quick):
    proc, proj = rng.choice([("EM", "electron"), ("NC", "electron"), ("NC", "positron"), ("CC", "neutrino"), ("CC", "antineutrino"), ("CC", "positron")])
    fns = rng.choice(list(FNS_COQ))
    kind = rng.choice(list(KIND_COQ))
    hv = rng.choice(list(HV))
    pto = rng.choice([0, 0, 1, 1, 2, 3] if not quick else [0, 0, 1, 1, 1, 3])
    if pto >= 2 and fns != "ZM-VFNS" and proc != "CC" and rng.random() < 0.8:
        pto = 1         # massive NC NNLO (LeProHQ) is slow: mostly skipped here, covered at collect level by corr/wlayer
    tmc = rng.choice([0, 0, 1, 2, 3])
    kin = rng.choice(["KinOk"] * 6 + ["XNonPositive", "XAboveOne", "Q2NonPositive", "XBelowGrid"])
    nfff = rng.choice([3, 4, 5, 6])
    q2 = rng.choice([3.0, 30.0, 40000.0])
    parts = rng.choice(["full", "massless", "massive"]) if "FONLL" in fns else "full"
    return dict(proc=proc, proj=proj, fns=fns, kind=kind, heavyness=hv, pto=pto, tmc=tmc, kin=kin, nfff=nfff, Q2=q2, parts=parts)


def cell_term(c, th):
    nf = runs.nf_spec(th, c["Q2"])
    pj = {"electron": 11, "positron": -11, "neutrino": 12, "antineutrino": -12}[c["proj"]]
    return ("{| c_kind := %s; c_heavy := %s; c_proc := %s; c_proj := %s; c_fns := %s; c_nfff := %s; c_nf := %s; c_pto := %s; c_tmc := %s; "
            "c_parts := %s; c_kin := %s |}" % (KIND_COQ[c["kind"]], coq_Z(HV[c["heavyness"]]), c["proc"], coq_Z(pj), FNS_COQ[c["fns"]], coq_Z(c["nfff"]),
                                               coq_Z(nf), coq_Z(c["pto"]), coq_Z(c["tmc"]), {"full": "PFull", "massless": "PMassless", "massive": "PMassive"}[c["parts"]], c["kin"]))


def run_outcomes(chk, n):
    cases, descs, skipped, nonfinite = [], [], 0, []
    for _ in range(n):
        c = gen_cell(chk.rng, chk.tier == "quick")
        th = cards.theory_card(FNS=c["fns"], NfFF=c["nfff"], PTO=c["pto"], PTODIS=c["pto"], TMC=c["tmc"], MP=0.5, FONLLParts=c["parts"])
        pt = dict(x=0.25, Q2=c["Q2"])
        if KINS[c["kin"]]:
            pt.update(KINS[c["kin"]])
        name = c["kind"] + "_" + c["heavyness"]
        ob = cards.obs_card({name: [pt]}, prDIS=c["proc"], ProjectileDIS=c["proj"])
        cls, out, exc = classify(lambda: runs.run(th, ob))
        if cls is None:
            skipped += 1
            continue
        if cls == 0:
            for k, (v, e) in out[name][0].orders.items():
                if not (np.all(np.isfinite(v)) and np.all(np.isfinite(e))):
                    nonfinite.append(dict(cell=c, key=list(k)))
        cases.append("(%s, %s)" % (cell_term(c, th), coq_Z(cls)))
        descs.append(dict(cell=c, observed={0: "ok", 1: "rejected", 2: "crash"}[cls], exception=(type(exc).__name__ + ": " + str(exc)[:90]) if exc else None))
    bad = common.eval_cases("outcome", HEADER, cases, "ocase_ok inventory", per_file=120)
    dist = {}
    for d in descs:
        k = "%s/%s" % (d["observed"], d["cell"]["kin"])
        dist[k] = dist.get(k, 0) + 1
    chk.corr["run_outcomes"] = dict(cases=len(cases), disagreements=len(bad), skipped_by_environment=skipped, distribution=dist, non_finite_results=len(nonfinite),
                                    distinct_nontrivial=len({repr(sorted(d["cell"].items())) for d in descs}),
                                    rule="random cells (kind x heavyness x process/projectile x scheme x NfFF x PTO x TMC x FONLL parts x Q2) with valid and malformed kinematics "
                                         "(x<=0, x>1, Q2<=0, x below the grid) on real run_yadism; compared: finite result / explicit rejection (ValueError, NotImplementedError) / "
                                         "internal error; every returned tensor checked for NaN/inf; cells needing the un-importable asy NC modules, and cells explicitly refused by a dependency (a `raise` in LeProHQ: polarised high-virtuality limit), are skipped and counted")
    chk.samples += descs[:2]
    return [descs[i] for i in bad], nonfinite
