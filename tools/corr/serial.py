"""Correspondence harness for Serial.v: real Output.dump_tar / load_tar on random small outputs; the content of the tar
(metadata.yaml + npz) and the reloaded objects are compared with the model."""
import os, tarfile, tempfile, io
import numpy as np
import yaml
from lib import common
from lib.common import coq_Z, coq_list, coq_str

HEADER = ("From Coq Require Import ZArith List Bool String QArith.\nFrom Yad Require Import Result Serial CorrSerial.\n"
          "Import ListNotations. Open Scope string_scope.\n")
KEYS = [(0, 0, 0, 0), (1, 0, 0, 0), (1, 0, 0, 1), (2, 0, 0, 0), (2, 0, 1, 0), (2, 0, 0, 1), (2, 0, 1, 1), (2, 0, 0, 2)]


def q_lit(x):
    f = common.frac(x)
    return "(%d # %d)" % (f.numerator, f.denominator)


def key_lit(k):
    return "(%s, %s, %s, %s)" % tuple(coq_Z(int(i)) for i in k)


def pay_lit(a):
    return coq_list([coq_list([coq_Z(int(v)) for v in row]) for row in np.array(a)])


def res_lit(kin, orders):
    return "{| r_kin := %s; r_orders := %s |}" % (coq_list(["(%s, %s)" % (coq_str(n), q_lit(v)) for n, v in kin]),
                                                    coq_list(["(%s, %s, %s)" % (key_lit(k), pay_lit(v), pay_lit(e)) for k, v, e in orders]))


def raw_of(r):
    d = r.get_raw()
    # YAML mappings come back with sorted keys: a dict is compared as a mapping, in the field order of get_raw()
    kin = sorted([(k, v) for k, v in d.items() if k != "orders"], key=lambda kv: ["x", "Q2", "nf", "y"].index(kv[0]))
    return kin, [(tuple(o["order"]), o["values"], o["errors"]) for o in d["orders"]]


def one_case(rng):
    from yadism.output import Output
    from yadism.esf.result import ESFResult, EXSResult
    is_xs = rng.random() < 0.3
    n = rng.choice([0, 1, 1, 2, 3])
    ks = rng.sample(KEYS, rng.randint(1, 5))          # insertion order is random: not sorted
    rs = []
    for i in range(n):
        kk = list(ks)
        if rng.random() < 0.12 and i > 0:
            kk = kk[::-1] if len(kk) > 1 and rng.random() < 0.5 else kk[:-1] + [(3, 0, 0, 0)]     # non-uniform orders
        x, Q2 = rng.choice([0.125, 0.25, 0.5]), float(rng.randint(2, 90))
        r = EXSResult(x, Q2, rng.choice([0.25, 0.5]), rng.choice([3, 4, 5])) if is_xs else ESFResult(x, Q2, rng.choice([3, 4, 5]))
        for k in kk:
            r.orders[k] = (np.array([[float(rng.randint(-9, 9)) for _ in range(2)] for _ in range(2)]),
                           np.array([[float(rng.randint(0, 3)) for _ in range(2)] for _ in range(2)]))
        rs.append(r)
    # cross sections are recognised by their kinematics (y), not by their name: F1, FW and g5 are cross sections too
    name = rng.choice(["XSHERANC_total", "F1_total", "FW_light", "g5_total", "XSCHORUSCC_charm"]) if is_xs else rng.choice(["F2_total", "FL_light", "F3_charm", "g1_total"])
    out = Output()
    out["xgrid"] = dict(grid=[0.5, 1.0], log=True); out["pids"] = [21, 1]; out["projectilePID"] = 11
    out[name] = rs
    out.theory = dict(PTO=1); out.observables = dict(prDIS="NC")
    inp = coq_list([res_lit(*raw_of(r)) for r in rs])
    with tempfile.TemporaryDirectory(dir=common.SCRATCH) as tmp:
        path = os.path.join(tmp, "o.tar")
        try:
            out.dump_tar(path)
        except (IndexError, AssertionError, KeyError) as e:
            return "{| sc_in := %s; sc_tar := None; sc_loaded := [] |}" % inp, dict(n=n, xs=is_xs, dump=type(e).__name__)
        if n == 0:
            # an observable without points has no per-observable document: it is stored like a None observable and must come back as []
            back = Output.load_tar(path)[name]
            ok = isinstance(back, list) and back == []
            return ("{| sc_in := []; sc_tar := None; sc_loaded := [] |}" if ok else "{| sc_in := []; sc_tar := None; sc_loaded := [{| r_kin := []; r_orders := [] |}] |}"), dict(n=0, xs=is_xs, dump="empty-list" if ok else "empty-list-not-restored")
        with tarfile.open(path) as tar:
            meta = yaml.safe_load(tar.extractfile("o/metadata.yaml").read())
            npz = np.load(io.BytesIO(tar.extractfile("o/%s.npz" % name).read()))
            vals, errs = npz["values"], npz["errors"]
        m = meta[name]
        names = sorted(m["kinematics"].keys(), key=["x", "Q2", "nf", "y"].index)
        dumped = ("{| d_orders := %s; d_names := %s; d_cols := %s; d_vals := %s; d_errs := %s |}"
                  % (coq_list([key_lit(k) for k in m["orders"]]), coq_list([coq_str(nm) for nm in names]),
                     coq_list([coq_list([q_lit(v) for v in m["kinematics"][nm]]) for nm in names]),
                     coq_list([coq_list([pay_lit(t) for t in pt]) for pt in vals]), coq_list([coq_list([pay_lit(t) for t in pt]) for pt in errs])))
        loaded = Output.load_tar(path)
        lo = coq_list([res_lit(*raw_of(r)) for r in loaded[name]])
    return "{| sc_in := %s; sc_tar := (Some %s); sc_loaded := %s |}" % (inp, dumped, lo), dict(n=n, xs=is_xs, dump="ok", keys=[list(k) for k in ks])


def run_serial(chk, n):
    os.makedirs(common.SCRATCH, exist_ok=True)
    cases, descs = [], []
    for _ in range(n):
        t, d = one_case(chk.rng)
        cases.append(t); descs.append(d)
    bad = common.eval_cases("serial", HEADER, cases, "scase_ok", per_file=120)
    dist = {}
    for d in descs:
        dist[d["dump"]] = dist.get(d["dump"], 0) + 1
    chk.corr["tar_documents"] = dict(cases=len(cases), disagreements=len(bad), distribution=dist,
                                     distinct_nontrivial=len({repr(d) for d in descs if d["dump"] == "ok" and d["n"] > 0}),
                                     rule="random small observables (0-3 points, SF and XS, order keys in random insertion order, sometimes non-uniform) through the real "
                                          "Output.dump_tar: the metadata.yaml + npz found in the tar must be the model's dump, and Output.load_tar's objects the model's load")
    chk.samples += descs[:2]
    return [descs[i] for i in bad]
