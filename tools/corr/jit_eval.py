"""Evaluate every njit kernel on fixed points; run once with NUMBA_DISABLE_JIT=1 (interpreter semantics) and once with the JIT
(NUMBA_BOUNDSCHECK=1) in separate processes; prints one JSON object.  usage: jit_eval.py <spec.json>"""
import importlib, json, os, sys
sys.path.insert(0, os.path.join(os.environ.get("VERIF_REPO", "/repo"), "src"))
import numpy as np

spec = json.load(open(sys.argv[1]))
out = {}
for k in spec["kernels"]:
    try:
        mod = importlib.import_module(k["module"])
        f = getattr(mod, k["name"])
        vals = []
        for z in spec["points"]:
            a = np.array(spec["args"][: k["nargs"]], dtype=float)
            try:
                v = f(z, a) if k["params"] == 2 else f(z)
                vals.append(float(np.real(v)))
            except Exception as e:  # noqa
                vals.append("EXC:" + type(e).__name__)
        out[k["module"] + "." + k["name"]] = vals
    except Exception as e:  # noqa
        out[k["module"] + "." + k["name"]] = "IMPORT:" + type(e).__name__ + ":" + str(e)[:80]
json.dump(out, sys.stdout)
