"""Evaluate every njit kernel on fixed points; run once with NUMBA_DISABLE_JIT=1 (interpreter semantics) and once with the JIT
(NUMBA_BOUNDSCHECK=1) in separate processes; prints one JSON object.  usage: jit_eval.py <spec.json>"""
import importlib, json, os, sys
sys.path.insert(0, os.path.join(os.environ.get("VERIF_REPO", "/repo"), "src"))
import numpy as np

spec = json.load(open(sys.argv[1]))
out = {}
for k in spec["kernels"]:
    try:
        mod = importlib.import_module(k["module"])
        f = getattr(mod, k["name"])
        vals = []
        for z in spec["points"]:
            a = np.array(spec["args"][: k["nargs"]], dtype=float)
            try:
                v = f(z, a) if k["params"] == 2 else f(z)
                vals.append(float(np.real(v)))
            except Exception as e:  # noqa
                vals.append("EXC:" + type(e).__name__)
        out[k["module"] + "." + k["name"]] = vals
    except Exception as e:  # noqa
        out[k["module"] + "." + k["name"]] = "IMPORT:" + type(e).__name__ + ":" + str(e)[:80]
# the special-function implementations themselves (not translated: index arithmetic, integer powers, complex results)
try:
    from yadism.coefficient_functions.special import li2
    from yadism.coefficient_functions.special.nielsen import nielsen
    for n in range(1, 5):
        for p in range(1, 5):
            if n + p > 5:
                continue
            vals = []
            for x in spec["special_points"]:
                try:
                    v = nielsen(n, p, x)
                    vals.append([float(np.real(v)), float(np.imag(v))])
                except Exception as e:  # noqa
                    vals.append("EXC:" + type(e).__name__)
            out["special.nielsen(%d,%d)" % (n, p)] = vals
    out["special.li2"] = [float(li2(x)) for x in spec["special_points"] + [1.5, 3.0, -4.0]]
except Exception as e:  # noqa
    out["special"] = "IMPORT:" + type(e).__name__ + ":" + str(e)[:80]
# the RSL objects the classes really build, called with the argument vectors the classes really pack (dtype and length included)
try:
    sys.path.insert(0, os.path.join(os.path.dirname(os.path.abspath(__file__)), ".."))
    from lib import rslsweep
    for cell in spec.get("rsl_cells", []):
        for ident, rsl, _coeff in rslsweep.rsls_of_cell(cell, pto=3):
            key0 = "rsl:%s/%s:%s:%d" % (cell["proc"], cell["kind"], ident.get("cls", "?"), ident.get("order", -1))
            if isinstance(rsl, tuple):
                out[key0 + ":build"] = ["EXC:" + type(rsl[1]).__name__]
                continue
            for part in ("reg", "sing", "loc"):
                f = getattr(rsl, part)
                if f is None:
                    continue
                vals = []
                for z in (0.3, 0.7):
                    try:
                        vals.append(float(np.real(f(z, rsl.args[part]))))
                    except Exception as e:  # noqa
                        vals.append("EXC:" + type(e).__name__)
                out[key0 + ":" + part] = vals
except Exception as e:  # noqa
    out["rsl"] = "IMPORT:" + type(e).__name__ + ":" + str(e)[:120]
# the kernel triples the target-mass-correction classes build (esf/tmc.py): kernel and argument vector as packed by the real class
try:
    from corr import tmc as H
    from yadism.esf import tmc as TM, conv
    interp = H.interpolator([0.05, 0.2, 0.5, 1.0], 1, True)
    captured = []
    real_conv = conv.convolution
    conv.convolution = lambda rsl, x, pj: (captured.append(rsl), (0.0, 0.0))[1]
    try:
        for kind in ("F2", "FL", "F3", "g1"):
            for mode in (1, 3):
                sf = H.StubSF(kind, "total", 0.88, mode, interp)
                del captured[:]
                try:
                    TM.ESFTMCmap[kind](sf, {"x": 0.3, "Q2": 5.0}).get_result()
                except Exception as e:  # noqa
                    out["rsl:tmc/%s/%d:build" % (kind, mode)] = ["EXC:" + type(e).__name__]
                    continue
                seen = set()
                for rsl in captured:
                    name = rsl.reg.__name__
                    if name in seen:
                        continue
                    seen.add(name)
                    vals = []
                    for z in (0.4, 0.8):
                        try:
                            vals.append(float(np.real(rsl.reg(z, rsl.args["reg"]))))
                        except Exception as e:  # noqa
                            vals.append("EXC:" + type(e).__name__)
                    out["rsl:tmc/%s/%d:%s" % (kind, mode, name)] = vals
    finally:
        conv.convolution = real_conv
except Exception as e:  # noqa
    out["rsl:tmc"] = "IMPORT:" + type(e).__name__ + ":" + str(e)[:120]
json.dump(out, sys.stdout)
