"""Correspondence harness for Thresholds.v: compatibility.update_fns and the runner's Atlas / nf_default."""
import copy, math
import numpy as np
from lib import common, cards
from lib.common import coq_Z, coq_bool, coq_list, coq_str, dyadic

HEADER = ("From Coq Require Import ZArith List Bool String QArith.\nFrom Yad Require Import Thresholds.\n"
          "Import ListNotations. Open Scope string_scope.\n")
FNS = ["ZM-VFNS", "FFNS", "FFN0", "FONLL-FFNS", "FONLL-FFN0"]


def q_lit(x):
    f = common.frac(x)
    return "(%d # %d)" % (f.numerator, f.denominator)


def wall_lit(x):
    return "Inf" if math.isinf(x) else "(Fin %s)" % q_lit(x)


def run_compat(chk):
    """exhaustive: every scheme name (and wrong ones) x NfFF 3..6 x given / absent kThr keys"""
    from yadism.input import compatibility
    cases, descs = [], []
    for fns in FNS + ["FFNS ", "zm-vfns", "FONLL", "VFNS"]:
        for nf in (3, 4, 5, 6):
            th = cards.theory_card(FNS=fns, NfFF=nf, kcThr=1.25, kbThr=1.5, ktThr=1.75)
            for fl in "cbt":
                th.pop("ZM" + fl, None)
            try:
                compatibility.update_fns(th)
                ob = []
                for fl, k0 in zip("cbt", (1.25, 1.5, 1.75)):
                    k = th["k%sThr" % fl]
                    act = "KKeep" if k == k0 else ("KZero" if k == 0.0 else ("KInf" if math.isinf(k) else "KBAD"))
                    ob.append("(%s, %s)" % (act, coq_bool(th["ZM" + fl])))
                obs = "(Some %s)" % coq_list(ob)
            except ValueError:
                obs = "None"
            cases.append("(%s, %s, %s)" % (coq_str(fns), coq_Z(nf), obs))
            descs.append(dict(fns=fns, nf=nf, observed=obs))
    bad = common.eval_cases("compat", HEADER, cases, "compat_ok", per_file=200)
    chk.corr["update_fns"] = dict(cases=len(cases), disagreements=len(bad), distinct_nontrivial=len(cases) - 16, exhaustive=True,
                                  rule="exhaustive: 5 scheme names + 4 invalid spellings x NfFF 3..6 on compatibility.update_fns; compared: "
                                       "kcThr/kbThr/ktThr action (kept, 0.0, inf) and ZMc/ZMb/ZMt flags, or ValueError; non-trivial = valid scheme names")
    chk.samples += descs[:2]
    return [descs[i] for i in bad]


def thr_case(rng):
    from eko.matchings import nf_default
    fns = rng.choice(FNS)
    nf = rng.choice([3, 4, 5, 6])
    style = rng.random()
    mc = dyadic(rng, 1.0, 2.0, 6); mb = dyadic(rng, 3.0, 6.0, 6); mt = dyadic(rng, 100.0, 200.0, 6)
    kc, kb, kt = (rng.choice([1.0, 0.5, 2.0, dyadic(rng, 0.5, 3.0, 5), 1.0 / 3.0, 0.7]) for _ in range(3))
    if style < 0.1:
        mb = mc; kb = kc                      # equal walls
    elif style < 0.2:
        kc = 6.0                              # charm wall above the bottom wall: bins not monotone
    th = cards.theory_card(FNS=fns, NfFF=nf, mc=mc, mb=mb, mt=mt, kcThr=kc, kbThr=kb, ktThr=kt)
    m2k2 = [float(v) for v in np.power([mc, mb, mt], 2) * np.power([kc, kb, kt], 2)]
    ob = cards.obs_card({"F2_total": [dict(x=0.5, Q2=10.0)]})
    r = cards.make_runner(copy.deepcopy(th), ob)
    atlas = r.configs.managers["threshold"]
    walls = [float(w) for w in atlas.walls]
    assert walls[0] == 0.0 and math.isinf(walls[-1]) and len(walls) == 5
    qs = []
    for w in walls[1:4]:
        if math.isinf(w) or w == 0.0:
            continue
        qs += [w, float(np.nextafter(w, 0.0)), float(np.nextafter(w, np.inf))]
    qs += [dyadic(rng, 0.5, 50000.0, 16) for _ in range(4)] + [float(np.nextafter(0.0, 1.0)), 1e300]
    obsq = []
    for q in qs:
        try:
            n = nf_default(q, atlas)
            obsq.append((q, "(Some %s)" % coq_Z(n), n))
        except ValueError:
            obsq.append((q, "None", None))
    term = ("{| tc_fns := %s; tc_nf := %s; tc_m2k2 := (%s, %s, %s); tc_walls := (%s, %s, %s); tc_q := %s |}"
            % (coq_str(fns), coq_Z(nf), q_lit(m2k2[0]), q_lit(m2k2[1]), q_lit(m2k2[2]),
               wall_lit(walls[1]), wall_lit(walls[2]), wall_lit(walls[3]),
               coq_list(["(%s, %s)" % (q_lit(q), o) for q, o, _ in obsq])))
    return term, dict(fns=fns, NfFF=nf, masses=[mc, mb, mt], ratios=[kc, kb, kt], walls=walls, nf_at=[(q, n) for q, _, n in obsq][:6])


def run_thresholds(chk, n):
    cases, descs = [], []
    for _ in range(n):
        t, d = thr_case(chk.rng)
        cases.append(t); descs.append(d)
    bad = common.eval_cases("thresholds", HEADER, cases, "thr_ok", per_file=100)
    dist = {}
    for d in descs:
        dist[d["fns"]] = dist.get(d["fns"], 0) + 1
    chk.corr["nf_default"] = dict(cases=len(cases), disagreements=len(bad), distribution=dist,
                                  distinct_nontrivial=len({(d["fns"], d["NfFF"], tuple(d["walls"])) for d in descs}),
                                  rule="random masses / threshold ratios / scheme / NfFF on a real Runner: the Atlas walls must equal the model's "
                                       "(update_fns applied to m^2 k^2), and eko's nf_default must equal the model at every wall, one ulp below and above, "
                                       "random points, the smallest positive double and 1e300; non-monotone walls must be rejected")
    chk.samples += descs[:2]
    return [descs[i] for i in bad]
