"""Validation of tools/pyinst.py (support, not proof): the translated closures of the heavy / asymptotic CC classes
evaluated numerically against the closures of real instances built by the real Combiner."""
import math
import numpy as np
from lib import common, cards, exprnum
import pyinst


def real_rsls(q2s=(4.0, 30.0, 900.0)):
    """yield (kind, class name, order, labda or L, rsl) from real FFNS / FFN0 CC runs"""
    from yadism import coefficient_functions as cf
    for kind in ("F2", "FL", "F3"):
        for fns in ("FFNS", "FFN0"):
            for q2 in q2s:
                th = cards.theory_card(FNS=fns, NfFF=3, PTO=1, PTODIS=1)
                ob = cards.obs_card({kind + "_charm": [dict(x=0.1, Q2=q2)]}, prDIS="CC", ProjectileDIS="neutrino")
                r = cards.make_runner(th, ob)
                esf = r.observables[kind + "_charm"].elements[0]
                for k in cf.Combiner(esf).collect_elems():
                    c = k.coeff
                    fam = type(c).__module__.split(".")[-2]
                    if fam not in ("heavy", "asy"):
                        continue
                    par = getattr(c, "labda", None) if fam == "heavy" else getattr(c, "L", None)
                    for o in (0, 1):
                        if k.has_order(o):
                            rsl = c[o]()
                            if rsl is not None:
                                if o == 1 and type(c).__name__ in ("AsyLLIntrinsic", "AsyNLLIntrinsicMatching"):
                                    # inherited from asy/partonic_channel.py: parameters (L, LO delta coefficient)
                                    yield "partonic_channel", "asybase", "PartonicChannel" + type(c).__name__, o, [float(c.L), float(c.lo_local())], rsl
                                else:
                                    yield kind, fam, type(c).__name__, o, [float(par)], rsl


def run_inst_translation(chk):
    ks = {(d.split(".")[-2], d.split(".")[-1], c, m): res for d, c, m, res in pyinst.inst_kernels(common.REPO)}
    meth = {0: "LO", 1: "NLO"}
    bad, n, seen = [], 0, set()
    for kind, fam, cname, o, par, rsl in real_rsls():
        key = ("asy", "partonic_channel", cname, meth[o]) if fam == "asybase" else (fam, kind.lower() + "_cc", cname, meth[o])
        if key not in ks:
            continue
        res = ks[key]
        if isinstance(res, tuple):
            bad.append(dict(kernel=key, problem="not translated: " + res[1])); continue
        seen.add(key)
        for part in ("reg", "sing", "loc"):
            f = getattr(rsl, part)
            e = res[part]
            if (f is None) != (e is None):
                bad.append(dict(kernel=key, part=part, problem="part present on one side only")); continue
            if f is None:
                continue
            for _ in range(6):
                z = chk.rng.uniform(0.02, 0.98)
                n += 1
                got = float(f(z, rsl.args[part])); exp = exprnum.ev(e, z, par)
                if abs(got - exp) > 1e-9 * max(1.0, abs(got)):
                    bad.append(dict(kernel=key, part=part, z=z, param=par, code=got, translated=exp)); break
    missing = [k for k in ks if k not in seen and not isinstance(ks[k], tuple)]
    chk.corr["instance_closures_translation"] = dict(cases=n, disagreements=len(bad), translated=len(ks), exercised=len(seen), not_exercised=[list(k) for k in missing],
                                                    rule="every closure translated by tools/pyinst.py (heavy CC NonSinglet LO/NLO, Gluon NLO; asymptotic CC AsyGluon NLO; F2, FL, F3) evaluated "
                                                         "numerically at random z against the closure of a real instance from the real Combiner (three Q2/m2), 1e-9")
    return bad
