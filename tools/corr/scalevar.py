"""Correspondence harness for ScaleVar.v: the real ScaleVariations manager (operators memo pre-filled with small
integer matrices that differ per label AND per nf), driven exactly as esf.py::compute_local drives it, on ONE
manager object for a whole sequence of nf values (so that anything remembered from an earlier nf shows)."""
import numpy as np
from lib import common
from lib.common import qc, coq_Z, coq_bool, coq_list

HEADER = ("From Coq Require Import ZArith List Bool QArith Qcanon.\n"
          "From Yad Require Import Base Result ScaleVar CorrSV.\nImport ListNotations.\n")
LABELS = ["P_qq_0", "P_qg_0", "P_gq_0", "P_gg_0", "P_qq_1", "P_qg_1", "P_nsp_1", "P_nsm_1",
          "P_qq_0^2", "P_qg_0P_gq_0", "P_qq_0P_qg_0", "P_qg_0P_gg_0"]
NG = 2


def key_lit(k):
    return "(%s, %s, %s, %s)" % tuple(coq_Z(i) for i in k)


def mat_lit(m):
    return coq_list([coq_list([qc(float(x)) for x in row]) for row in m])


def vec_lit(v):
    return coq_list([qc(float(x)) for x in v])


def drive(svm, ker_orders, nf, intrinsic):
    """the scale-variation part of compute_local, verbatim"""
    ker_orders = list(ker_orders)
    if not intrinsic:
        ker_orders.extend(svm.apply_common_scale_variations(ker_orders, nf))
        ker_orders.extend(svm.apply_diff_scale_variations(ker_orders, nf))
    else:
        ker_orders.extend(filter(lambda e: e[0][3] == 0, svm.apply_diff_scale_variations(ker_orders, nf)))
    out = {}
    for o, (partons, val, _err) in ker_orders:
        out[o] = out.get(o, 0) + partons @ val
    return out


def one_manager(rng):
    """one ScaleVariations object used for a random sequence of nf values; returns list of (term, desc)"""
    from yadism.esf import scale_variations as sv
    from eko import basis_rotation as br
    pto = rng.choice([1, 2, 2, 3])
    ren, fact = rng.random() < 0.7, rng.random() < 0.7
    svm = sv.ScaleVariations(order=pto, interpolator=None, activate_ren=ren, activate_fact=fact)
    ops = {}
    for nf in (3, 4, 5, 6):
        for lab in LABELS:
            m = np.array([[float(rng.randint(-6, 6)) for _ in range(NG)] for _ in range(NG)])
            ops[(lab, nf)] = m
            svm.operators[(lab, nf)] = m.copy()
    res = []
    for nf in [rng.choice([3, 4, 5, 6]) for _ in range(rng.randint(2, 4))]:
        intrinsic = rng.random() < 0.2
        base = []
        for o in range(pto + 1):
            if rng.random() < 0.8:
                p = np.array([float(rng.randint(-4, 4)) if rng.random() < 0.6 else 0.0 for _ in range(14)])
                v = np.array([float(rng.randint(-8, 8)) / 2 for _ in range(NG)])
                base.append(((o, 0, 0, 0), (p[:, np.newaxis], v[np.newaxis, :], np.zeros((1, NG)))))
        out = drive(svm, base, nf, intrinsic)
        projs = br.ad_projectors(nf, False)
        term = ("{| sv_pto := %s; sv_ren := %s; sv_fact := %s; sv_intr := %s; sv_nf := %s; sv_ops := %s; sv_projs := %s; "
                "sv_base := %s; sv_npid := 14; sv_ngrid := %d; sv_obs := %s |}"
                % (coq_Z(pto), coq_bool(ren), coq_bool(fact), coq_bool(intrinsic), coq_Z(nf),
                   coq_list([mat_lit(ops[(lab, nf)]) for lab in LABELS]), coq_list([mat_lit(pm) for pm in projs]),
                   coq_list(["(%s, %s, %s)" % (key_lit(k), vec_lit(p[:, 0]), vec_lit(v[0])) for k, (p, v, _e) in base]), NG,
                   coq_list(["(%s, %s)" % (key_lit(k), mat_lit(t)) for k, t in out.items()])))
        res.append((term, dict(pto=pto, ren=ren, fact=fact, nf=nf, intrinsic=intrinsic, base_orders=[k[0] for k, _ in base],
                               keys=sorted(list(k) for k in out))))
    return res


def run_scalevar(chk, n):
    from eko import beta
    cases, descs = [], []
    while len(cases) < n:
        for t, d in one_manager(chk.rng):
            cases.append(t); descs.append(d)
    bad = common.eval_cases("scalevar", HEADER, cases, "sv_ok (qc 1 10000000000)", per_file=25)
    dist = {}
    for d in descs:
        k = "pto%d/ren%d/fact%d" % (d["pto"], d["ren"], d["fact"])
        dist[k] = dist.get(k, 0) + 1
    # beta coefficients of the model against eko (exhaustive over nf)
    bcases = ["(%s, %s, %s)" % (coq_Z(nf), qc(float(beta.beta_qcd_as2(nf))), qc(float(beta.beta_qcd_as3(nf)))) for nf in (3, 4, 5, 6)]
    bbad = common.eval_cases("betas", HEADER, bcases,
                             "(fun c : Z * Qc * Qc => let '(nf, b0, b1) := c in (close (qc 1 1000000000000) (@beta0 QcFld nf) b0 && close (qc 1 1000000000000) (@beta1 QcFld nf) b1)%bool)")
    beta_ok = not bbad
    nums, exp = bbad, bcases
    chk.corr["scale_variations"] = dict(cases=len(cases), disagreements=len(bad), distribution=dist, betas_agree_with_eko=beta_ok,
                                        distinct_nontrivial=len({(d["pto"], d["ren"], d["fact"], d["nf"], d["intrinsic"], tuple(d["base_orders"])) for d in descs}),
                                        rule="real ScaleVariations objects with the operator memo pre-filled with random integer matrices (distinct per label and nf), "
                                             "eko's ad_projectors, random kernel vectors; one manager serves a sequence of nf values as in a multi-point run; driven as "
                                             "compute_local does (incl. the intrinsic branch); every produced key and tensor entry compared (1e-10)")
    chk.samples += descs[:2]
    out = [descs[i] for i in bad]
    if not beta_ok:
        out.append(dict(betas_model=nums, betas_eko=exp))
    return out
