"""JIT vs interpreter differential on every translated njit kernel (support for C18, not a proof)."""
import json, math, os, subprocess, sys
from lib import common
import pyk2coq

POINTS = [0.05, 0.2, 0.5, 0.8, 0.97]
ARGS = [4.0, 2.5, 1.0, 0.5]
# cells whose light classes pack their argument vectors in every way the code knows (sequence, dict with reg only, dict with reg and loc)
RSL_CELLS = [dict(proc="NC", kind="FL", fns="ZM-VFNS", nfff=3, heavyness="light", Q2=30.0), dict(proc="CC", kind="FL", fns="ZM-VFNS", nfff=3, heavyness="light", Q2=30.0),
             dict(proc="NC", kind="gL", fns="ZM-VFNS", nfff=3, heavyness="light", Q2=30.0), dict(proc="NC", kind="F2", fns="ZM-VFNS", nfff=3, heavyness="total", Q2=30.0),
             dict(proc="CC", kind="F3", fns="FFNS", nfff=3, heavyness="charm", Q2=30.0)]


def run_jit(chk, limit=None):
    _tr, ks = pyk2coq.all_kernels(common.REPO)
    kernels = []
    for dotted, name, res in ks:
        m = _tr.mod(dotted)
        fn = m.funcs[name]
        if res[0] != "ok":
            # a kernel the translator refuses (e.g. one that has become self-recursive) is still compared in both modes, with the longest argument vector
            if len(fn.args.args) <= 2:
                kernels.append(dict(module=dotted, name=name, params=len(fn.args.args), nargs=len(ARGS), untranslated=True))
            continue
        kernels.append(dict(module=dotted, name=name, params=len(fn.args.args), nargs=max(pyk2coq.arity(res[1]), 1)))
    if limit:
        chk.rng.shuffle(kernels)
        kernels = sorted(kernels[:limit], key=lambda k: (k["module"], k["name"]))
    os.makedirs(common.SCRATCH, exist_ok=True)
    spec = os.path.join(common.SCRATCH, "jit_spec_%d.json" % os.getpid())
    json.dump(dict(kernels=kernels, points=POINTS, args=ARGS, special_points=[-1.0, -0.6, -0.2, 0.05, 0.3, 0.5, 0.55, 0.7, 0.85, 0.99, 1.0], rsl_cells=RSL_CELLS), open(spec, "w"))
    res = {}
    for mode, env in (("py", dict(NUMBA_DISABLE_JIT="1")), ("jit", dict(NUMBA_DISABLE_JIT="0", NUMBA_BOUNDSCHECK="1"))):
        # a fresh numba cache: the on-disk cache does not notice changes in callees defined in other files
        cache_dir = os.path.join(common.SCRATCH, "numba_jit_%d" % os.getpid())
        e = dict(os.environ); e.update(env); e["NUMBA_CACHE_DIR"] = cache_dir; e["VERIF_REPO"] = common.REPO
        p = subprocess.run([sys.executable, os.path.join(common.VERIF, "tools", "corr", "jit_eval.py"), spec], capture_output=True, text=True, env=e, timeout=3000)
        if p.returncode != 0:
            raise RuntimeError("jit_eval failed in mode %s: %s" % (mode, p.stderr[-1500:]))
        res[mode] = json.loads(p.stdout)
        import shutil
        shutil.rmtree(cache_dir, ignore_errors=True)
    os.remove(spec)
    bad, worst = [], 0.0
    nspecial = 0
    for key in sorted(k_ for k_ in set(res["py"]) | set(res["jit"]) if k_.startswith(("special", "rsl"))):
        a, b = res["py"].get(key), res["jit"].get(key)
        # a kernel called with the vector its own class packs must not run off that vector, in whichever mode this shows
        if key.startswith("rsl") and any("IndexError" in str(v) for v in (a if isinstance(a, list) else [a]) + (b if isinstance(b, list) else [b])):
            bad.append(dict(kernel=key, python=a, jit=b, note="reads outside the argument vector the class packs"))
            continue
        if isinstance(a, str) or isinstance(b, str) or b is None or a is None:
            if a != b:
                bad.append(dict(kernel=key, python=a, jit=b))
            continue
        for i, (x, y) in enumerate(zip(a, b)):
            nspecial += 1
            xs = x if isinstance(x, list) else [x]
            ys = y if isinstance(y, list) else [y]
            if isinstance(x, str) or isinstance(y, str):
                if x != y:
                    bad.append(dict(kernel=key, point=i, python=x, jit=y))
                continue
            d = max(abs(u - v) / max(1.0, abs(u)) for u, v in zip(xs, ys))
            if not d <= 1e-9:
                bad.append(dict(kernel=key, point=i, python=x, jit=y, rel=d))
    for k in kernels:
        key = k["module"] + "." + k["name"]
        a, b = res["py"][key], res["jit"][key]
        if isinstance(a, str) or isinstance(b, str):
            if a != b:
                bad.append(dict(kernel=key, python=a, jit=b))
            continue
        for z, x, y in zip(POINTS, a, b):
            if isinstance(x, str) or isinstance(y, str):
                if x != y:
                    bad.append(dict(kernel=key, z=z, python=x, jit=y))
                continue
            if math.isnan(x) and math.isnan(y):
                continue
            d = abs(x - y) / max(1.0, abs(x))
            worst = max(worst, d if d == d else 1.0)
            if not d <= 1e-9:
                bad.append(dict(kernel=key, z=z, python=x, jit=y, rel=d))
    chk.corr["jit_vs_interpreter"] = dict(cases=len(kernels) * len(POINTS) + nspecial, kernels=len(kernels), special_function_evaluations=nspecial, disagreements=len(bad), worst_rel=worst,
                                          distinct_nontrivial=len(kernels),
                                          rule="every translated njit kernel evaluated at %s with args %s by the interpreter (NUMBA_DISABLE_JIT=1) and by the compiled code "
                                               "(NUMBA_BOUNDSCHECK=1) in separate processes; relative difference <= 1e-9; exceptions must coincide; in addition the RSL objects that the light FL/gL/F2 and heavy CC "
                                               "classes and the target-mass-correction classes (esf/tmc.py, modes 1 and 3, F2/FL/F3/g1) really build are called with the argument vectors the classes pack (dtype and length as packed), in both modes" % (POINTS, ARGS))
    return bad
