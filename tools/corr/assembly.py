"""Correspondence harness for the assembly step: the REAL EvaluatedStructureFunction.compute_local (esf/esf.py) driven with a stub
Combiner (kernels with random parton weights, orders, convolution points, light or heavy-quark initiated) and with
conv.convolve_vector replaced by a table look-up, on a real ScaleVariations manager whose operator memo is pre-filled.
What comes out (every order key, every tensor entry) is compared with ScaleVar.v::sv_kernel + tensor_at evaluated by Coq.

Unlike corr/scalevar.py::drive (which restates the three scale-variation lines of compute_local), nothing of compute_local is
re-implemented here: the factor in front of the convolution, the blow-up to flavour space, the accumulation over kernels, the
intrinsic branch and the initialisation of the order keys are the code's own."""
import numpy as np
from lib import common
from lib.common import qc, coq_Z, coq_bool, coq_list
from corr.scalevar import LABELS, NG, key_lit, mat_lit, vec_lit, HEADER


class _Coeff:
    def __init__(self, cp, vecs, nf=None):
        self.cp, self.vecs = cp, vecs           # vecs: order -> vector of the convolution with every basis function (times cp)
        self.nf = nf                            # the kernel's own nf: heavy-quark-initiated kernels carry ihq-1, NOT the scheme's nf

    def __getitem__(self, o):
        return lambda: ("rsl-token", self, o)

    def convolution_point(self):
        return self.cp


class _Elem:
    def __init__(self, partons, coeff, channel):
        self.partons, self.coeff, self.channel = partons, coeff, channel

    def has_order(self, o):
        return o in self.coeff.vecs


class _Comb:
    def __init__(self, nf, elems):
        self.nf, self._elems = nf, elems

    def collect_elems(self):
        return self._elems


class _Cfg:
    pass


def run_real_compute_local(svm, interp, pto, nf, elems, x, Q2=10.0):
    """-> dict order key -> (14 x NG) values of the real compute_local"""
    from yadism.esf import esf as E
    from yadism import observable_name as on
    cfg = _Cfg()
    cfg.interpolator = interp
    cfg.theory = {"pto": pto}
    cfg.managers = {"sv_manager": svm, "interpolator": interp}
    cfg.coupling_constants = _Cfg(); cfg.coupling_constants.obs_config = {"process": "NC"}
    obj = E.EvaluatedStructureFunction({"x": x, "Q2": Q2}, on.ObservableName("F2_total"), cfg)
    real_comb, real_cv = E.cf.Combiner, E.conv.convolve_vector
    E.cf.Combiner = lambda esf: _Comb(nf, elems)

    def fake_cv(rsl, interpolator, convolution_point):
        _tok, coeff, o = rsl
        if convolution_point != coeff.cp:
            raise AssertionError("convolved at %r instead of the kernel's convolution point %r" % (convolution_point, coeff.cp))
        v = np.array(coeff.vecs[o], dtype=float) / coeff.cp      # so that (convolution point) * value is the tabulated vector
        return v, np.zeros_like(v)
    E.conv.convolve_vector = fake_cv
    try:
        obj.compute_local()
    finally:
        E.cf.Combiner, E.conv.convolve_vector = real_comb, real_cv
    return {k: np.array(v[0]) for k, v in obj.res.orders.items()}


def one_manager(rng):
    from yadism.esf import scale_variations as sv
    from eko import basis_rotation as br
    from corr import interp as interp_h
    pto = rng.choice([1, 2, 2, 3])
    ren, fact = rng.random() < 0.7, rng.random() < 0.7
    ip = interp_h.make_interp([0.25, 1.0], 1, True)
    svm = sv.ScaleVariations(order=pto, interpolator=ip, activate_ren=ren, activate_fact=fact)
    ops = {}
    for nf in (3, 4, 5, 6):
        for lab in LABELS:
            m = np.array([[float(rng.randint(-6, 6)) for _ in range(NG)] for _ in range(NG)])
            ops[(lab, nf)] = m
            svm.operators[(lab, nf)] = m.copy()
    res = []
    pids = list(br.flavor_basis_pids)
    for nf in [rng.choice([3, 4, 5, 6]) for _ in range(rng.randint(2, 4))]:
        intrinsic = rng.random() < 0.35
        cp = rng.choice([0.5, 0.625, 0.75])
        x = cp if rng.random() < 0.5 else cp * 0.5           # heavy channels: the convolution point is not x
        vecs, plist = {}, None
        p = np.array([float(rng.randint(-4, 4)) if rng.random() < 0.6 else 0.0 for _ in range(14)])
        for o in range(pto + 1):
            if rng.random() < 0.8:
                vecs[o] = np.array([float(rng.randint(-8, 8)) / 2 for _ in range(NG)])
        if not vecs:
            continue
        # as in intrinsic/kernels.py the kernel's own nf may differ from the Combiner's: the scale variations must follow the latter
        own_nf = rng.choice([n for n in (3, 4, 5, 6) if n != nf]) if intrinsic else nf
        elem = _Elem({pid: w for pid, w in zip(pids, p) if w != 0.0}, _Coeff(cp, vecs, own_nf), "intrinsic" if intrinsic else "light")
        try:
            out = run_real_compute_local(svm, ip, pto, nf, [elem], x)
            err = None
        except Exception as e:  # noqa
            out, err = {}, "%s: %s" % (type(e).__name__, str(e)[:120])
        projs = br.ad_projectors(nf, False)
        base = [((o, 0, 0, 0), p, v) for o, v in sorted(vecs.items())]
        # keys the code initialises with zeros are part of its output; the model's tensor_at is 0 there as well
        term = ("{| sv_pto := %s; sv_ren := %s; sv_fact := %s; sv_intr := %s; sv_nf := %s; sv_ops := %s; sv_projs := %s; "
                "sv_base := %s; sv_npid := 14; sv_ngrid := %d; sv_obs := %s |}"
                % (coq_Z(pto), coq_bool(ren), coq_bool(fact), coq_bool(intrinsic), coq_Z(nf),
                   coq_list([mat_lit(ops[(lab, nf)]) for lab in LABELS]), coq_list([mat_lit(pm) for pm in projs]),
                   coq_list(["(%s, %s, %s)" % (key_lit(k), vec_lit(pp), vec_lit(v)) for k, pp, v in base]), NG,
                   coq_list(["(%s, %s)" % (key_lit(k), mat_lit(t)) for k, t in out.items()])))
        res.append((term, dict(pto=pto, ren=ren, fact=fact, nf=nf, intrinsic=intrinsic, cp=cp, x=x, orders=sorted(vecs), keys=sorted(list(k) for k in out), error=err)))
    return res


def run_assembly(chk, n):
    cases, descs = [], []
    while len(cases) < n:
        for t, d in one_manager(chk.rng):
            cases.append(t); descs.append(d)
    crashed = [d for d in descs if d["error"]]
    bad = common.eval_cases("assembly", HEADER, cases, "sv_ok (qc 1 10000000000)", per_file=25)
    out = [descs[i] for i in bad]
    out += [d for d in crashed if d not in out]
    dist = {}
    for d in descs:
        k = "pto%d/ren%d/fact%d/%s%s" % (d["pto"], d["ren"], d["fact"], "intrinsic" if d["intrinsic"] else "light", "/cp!=x" if d["cp"] != d["x"] else "")
        dist[k] = dist.get(k, 0) + 1
    chk.corr["compute_local"] = dict(cases=len(cases), disagreements=len(out), distribution=dist,
                                     distinct_nontrivial=len({(d["pto"], d["ren"], d["fact"], d["nf"], d["intrinsic"], tuple(d["orders"])) for d in descs}),
                                     rule="the real EvaluatedStructureFunction.compute_local with a stub Combiner (one kernel: random parton weights, orders, convolution point that "
                                          "differs from x in half of the cases, light or heavy-quark initiated) and a table look-up for conv.convolve_vector, on a real "
                                          "ScaleVariations manager (memo pre-filled, one manager across several nf): every order key and tensor entry against ScaleVar.sv_kernel (1e-10)")
    chk.samples += descs[:1]
    return out
