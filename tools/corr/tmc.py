"""Correspondence harness for TMC.v: the real ESFTMC_F2/FL/F3/g1 classes of esf/tmc.py on a stub StructureFunction.

The stub hands out marker ESFResults (one order key per (kind, x) sub-request with value 1), so that the result of
get_result() IS the formal linear combination the model predicts.  conv.convolution is replaced by an indicator of ONE
kernel at a time (the result is linear in the kernel integrals), so that every coefficient is attributed to its
(kind, kernel) pair; the real loop of _convolve_FX over the grid runs unchanged, and for every grid node it skips the
real quadrature is asked to confirm that the basis function indeed does not contribute.

The model is fed the code's own float values of x, mu, rho, xi, ln xi as exact rationals (every float is a rational)."""
import math
import numpy as np
from lib import common
from lib.common import qc, coq_list

HEADER = ("From Coq Require Import ZArith List Bool QArith Qcanon.\n"
          "From Yad Require Import Base TMC CorrTMC.\nImport ListNotations.\n")
KINDS = {"F2": "TF2", "FL": "TFL", "F3": "TF3", "g1": "TG1"}
MODES = {1: "APFEL", 2: "Approx", 3: "Exact"}
KERS = {"h2_ker": "H2ker", "g2_ker": "G2ker", "h3_ker": "H3ker", "k2_ker": "K2ker"}
GRIDS = [[0.0009765625, 0.015625, 0.125, 0.25, 0.5, 0.75, 1.0],
         [0.001, 0.01, 0.05, 0.1, 0.2, 0.3, 0.4, 0.5, 0.6, 0.7, 0.8, 0.9, 1.0],
         [1e-4, 1e-3, 1e-2, 0.1, 0.3, 0.55, 0.8, 1.0]]


class _Marker:
    def __init__(self, kind, kin):
        self.kind, self.kin = kind, dict(kin)

    def get_result(self):
        from yadism.esf.result import ESFResult
        return ESFResult(self.kin["x"], self.kin["Q2"], None,
                         orders={(self.kind, float(self.kin["x"]), float(self.kin["Q2"])): (np.ones((1, 1)), np.zeros((1, 1)))})


class _Cfg:
    pass


class StubSF:
    """what ESFTMC_* touches of a StructureFunction: obs_name, runner.configs.{M2target,TMC,interpolator}, get_esf"""
    def __init__(self, kind, heavyness, M2, tmc, interpolator):
        from yadism import observable_name as on
        self.obs_name = on.ObservableName(kind + "_" + heavyness)
        self.runner = _Cfg(); self.runner.configs = _Cfg()
        self.runner.configs.M2target, self.runner.configs.TMC, self.runner.configs.interpolator = M2, tmc, interpolator
        # what the constructor of the real EvaluatedStructureFunction reads (it validates the kinematics of every sub-request)
        self.runner.configs.coupling_constants = _Cfg(); self.runner.configs.coupling_constants.obs_config = {"process": "NC"}
        self.runner.configs.theory = {"pto": 0}
        self.requests = []

    def get_esf(self, obs_name, kinematics, *args, **kw):
        from yadism.esf import esf
        self.requests.append((obs_name.name, dict(kinematics), kw))
        esf.EvaluatedStructureFunction(kinematics, obs_name, self.runner.configs)      # raises ValueError outside the grid
        return _Marker(obs_name.kind, kinematics)


def interpolator(grid, degree=3, log=True):
    from eko import interpolation
    return interpolation.InterpolatorDispatcher(interpolation.XGrid(grid, log=log), degree, mode_N=False)


def observe(kind, heavyness, M2, tmc, x, Q2, interp):
    """-> dict(rejected=str) | dict(kin=..., terms=[(coef, term)], problems=[...])"""
    from yadism.esf import tmc as T
    from yadism.esf import conv
    real_conv = conv.convolution
    problems, runs_ = [], {}
    kin = None
    for active in [None] + list(KERS):
        seen = []

        def fake(rsl, xx, pj, _active=active, _seen=seen):
            name = rsl.reg.__name__
            _seen.append((name, float(xx), [float(a) for a in rsl.args["reg"]] if isinstance(rsl.args, dict) else list(rsl.args), pj))
            return (1.0, 0.0) if name == _active else (0.0, 0.0)
        conv.convolution = fake
        try:
            sf = StubSF(kind, heavyness, M2, tmc, interp)
            try:
                obj = T.ESFTMCmap[kind](sf, {"x": x, "Q2": Q2})
                res = obj.get_result()
            except ValueError as e:
                return dict(rejected=str(e)[:80])
        finally:
            conv.convolution = real_conv
        kin = dict(x=float(obj.x), mu=float(obj.mu), rho=float(obj.rho), xi=float(obj.xi))
        # the shifted kinematics by their defining equations (the model takes them as inputs): mu = M2/Q2, rho^2 = 1 + 4 x^2 mu, xi = 2x/(1 + rho)
        mu0 = M2 / Q2; rho0 = math.sqrt(1.0 + 4.0 * x * x * mu0); xi0 = 2.0 * x / (1.0 + rho0)
        for nm, got, exp in (("mu", kin["mu"], mu0), ("rho", kin["rho"], rho0), ("xi", kin["xi"], xi0)):
            if not (abs(got - exp) <= 1e-13 * max(abs(exp), 1e-300)):
                problems.append("%s = %r where its defining equation gives %r" % (nm, got, exp))
        if res.x != x or res.Q2 != Q2:
            problems.append("result labelled with (%r, %r) instead of the requested point" % (res.x, res.Q2))
        for (_o, kk, kw) in sf.requests:
            if kk["Q2"] != Q2:
                problems.append("sub-request at Q2=%r" % kk["Q2"])
            # the correction of F_flavour is built from structure functions of the SAME flavour (heavyness), only the kind may change
            if _o.split("_", 1)[1] != sf.obs_name.name.split("_", 1)[1]:
                problems.append("sub-request for %s inside the correction of %s: another flavour" % (_o, sf.obs_name.name))
        for (name, xx, args, pj) in seen:
            if xx != kin["xi"] or (name in ("h2_ker", "k2_ker") and (not args or args[0] != kin["xi"])):
                problems.append("kernel %s integrated from %r with args %r (xi = %r)" % (name, xx, args, kin["xi"]))
        runs_[active] = ({k: float(v[0][0, 0]) for k, v in res.orders.items()}, seen)
    base, _ = runs_[None]
    terms = []
    xi = kin["xi"]
    for (k, xx, q), c in sorted(base.items()):
        if xx == xi:
            terms.append((c, "Shifted %s" % KINDS[k]))
        elif c != 0.0:
            problems.append("sub-request %s at x=%r outside any integral" % (k, xx))
    grid = [float(v) for v in interp.xgrid.raw]
    for ker in KERS:
        got, seen = runs_[ker]
        diff = {k: got[k] - base.get(k, 0.0) for k in got if got[k] != base.get(k, 0.0)}
        if not diff:
            continue
        by_kind = {}
        for (k, xx, q), c in diff.items():
            by_kind.setdefault(k, {})[xx] = c
        for k, d in by_kind.items():
            cs = sorted(set(d.values()))
            if max(cs) - min(cs) > 1e-13 * max(abs(c) for c in cs):
                problems.append("integral of %s with %s: the coefficient depends on the grid node: %s" % (k, ker, d))
            extra = [xx for xx in d if xx not in grid]
            if extra:
                problems.append("integral of %s with %s samples %s which are not grid nodes" % (k, ker, extra))
            # nodes that were left out: the real quadrature must confirm that they do not contribute
            kerf = getattr(T, ker)
            from yadism.coefficient_functions.partonic_channel import RSL
            for xj, pj in zip(grid, interp):
                if xj not in d:
                    v = real_conv(RSL(kerf, args=[xi]), xi, pj)
                    v = v[0] if isinstance(v, tuple) else v
                    if abs(v) > 1e-12:
                        problems.append("integral of %s with %s leaves out the grid node %r whose basis function contributes %r" % (k, ker, xj, v))
            terms.append((cs[0], "Integral %s %s" % (KINDS[k], KERS[ker])))
    return dict(kin=kin, terms=terms, problems=problems)


def gen_point(rng, grid):
    """x, Q2, M2: mostly with xi inside the grid, sometimes below, sometimes unphysical"""
    u = rng.random()
    Q2 = common.dyadic(rng, 1.0, 60.0, 8)
    M2 = rng.choice([0.0, 0.879, common.dyadic(rng, 0.05, 9.0, 8), common.dyadic(rng, 0.05, 9.0, 8)])
    if u < 0.08:
        x = grid[0] * rng.choice([0.5, 0.999, 1.0, 1.0000001])     # at / below the lowest node: xi falls below unless M = 0
    elif u < 0.13:
        x = rng.choice([0.0, -0.25, 1.5, 1.0])
    elif u < 0.16:
        Q2 = rng.choice([0.0, -1.0]); x = 0.25
    else:
        x = math.exp(rng.uniform(math.log(grid[0] * 1.05), 0.0))
    return x, Q2, M2


def run_tmc(chk, n):
    cases, descs, direct = [], [], []
    interps = [interpolator(g, d, lg) for g, d, lg in ((GRIDS[0], 3, True), (GRIDS[1], 4, True), (GRIDS[2], 2, False))]
    dist = {}
    while len(cases) < n:
        gi = chk.rng.randrange(len(interps))
        interp = interps[gi]
        grid = [float(v) for v in interp.xgrid.raw]
        kind = chk.rng.choice(list(KINDS)); tmc = chk.rng.choice([1, 2, 3])
        hv = chk.rng.choice(["total", "light", "charm"])
        x, Q2, M2 = gen_point(chk.rng, grid)
        try:
            o = observe(kind, hv, M2, tmc, x, Q2, interp)
        except Exception as e:     # anything but the ValueError of the guard is a crash of the code under test
            direct.append(dict(kind=kind, tmc=tmc, x=x, Q2=Q2, M2=M2, grid=gi, crash="%s: %s" % (type(e).__name__, str(e)[:120])))
            cases.append(None); descs.append(direct[-1]); continue
        d = dict(kind=kind, heavyness=hv, tmc=tmc, x=x, Q2=Q2, M2=M2, grid=gi)
        if "rejected" not in o and not all(math.isfinite(v) for v in list(o["kin"].values()) + [c for c, _t in o["terms"]]):
            # NaN / inf in the shifted kinematics or in a coefficient: a failing input by itself (the model is over exact rationals)
            d["outcome"] = "computed"; d["problems"] = ["non-finite kinematics or coefficient: %s %s" % (o["kin"], o["terms"])]
            direct.append(d); cases.append(None); descs.append(d)
            continue
        if "rejected" in o:
            if Q2 > 0:
                mu = M2 / Q2; rho = math.sqrt(1 + 4 * x * x * mu); xi = 2 * x / (1 + rho)
            else:
                mu, rho, xi = 0.0, 1.0, x
            lnxi = math.log(xi) if xi > 0 else 0.0
            obs = "None"; d["outcome"] = "rejected"
        else:
            mu, rho, xi = o["kin"]["mu"], o["kin"]["rho"], o["kin"]["xi"]
            lnxi = float(np.log(xi))
            obs = "(Some %s)" % coq_list(["(%s, %s)" % (qc(c), t) for c, t in o["terms"]])
            d["outcome"] = "computed"; d["terms"] = [t for _c, t in o["terms"]]
            if o["problems"]:
                d["problems"] = o["problems"]; direct.append(d)
        key = "%s/%s/%s" % (kind, MODES[tmc], d["outcome"])
        dist[key] = dist.get(key, 0) + 1
        cases.append("{| tc_kind := %s; tc_mode := %s; tc_xmin := %s; tc_q2 := %s; tc_kin := {| t_x := %s; t_mu := %s; t_rho := %s; t_xi := %s; t_lnxi := %s |}; tc_obs := %s |}"
                     % (KINDS[kind], MODES[tmc], qc(grid[0]), qc(Q2), qc(x), qc(mu), qc(rho), qc(xi), qc(lnxi), obs))
        descs.append(d)
    idx = [i for i, c in enumerate(cases) if c is not None]
    bad = common.eval_cases("tmc", HEADER, [cases[i] for i in idx], "tmc_ok (qc 1 100000000000)", per_file=100)
    out = [descs[idx[i]] for i in bad] + [d for d in direct if d not in [descs[idx[i]] for i in bad]]
    chk.corr["tmc_classes"] = dict(cases=len(cases), disagreements=len(out), distribution=dist,
                                   distinct_nontrivial=len({(d["kind"], d["tmc"], d.get("outcome"), d["grid"]) for d in descs}),
                                   rule="real ESFTMC_F2/FL/F3/g1 objects on a stub StructureFunction handing out marker results; conv.convolution replaced by the "
                                        "indicator of one kernel at a time; three interpolation grids; x log-uniform above the lowest node plus points at/below it, "
                                        "unphysical x and Q2, M2 = 0 included; every coefficient of every (kind, kernel) term compared (rel 1e-11), rejection compared, "
                                        "result label, sub-request Q2, integration start and kernel argument checked, left-out grid nodes confirmed by the real quadrature")
    chk.samples += [d for d in descs if d.get("outcome") == "computed"][:2]
    return out
