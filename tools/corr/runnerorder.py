"""Correspondence harness for RunnerOrder.v: the real Runner.get_result on one observable whose elements' get_result is replaced by a
marker (so that no physics is computed) and whose drop_cache is logged: order of evaluation, cache drops, and which request
ends up in which slot of the output, for random Q2 lists with ties and cycles."""
from lib import common, cards
from lib.common import qc, coq_list

HEADER = ("From Coq Require Import ZArith List Bool QArith Qcanon.\n"
          "From Yad Require Import Base RunnerOrder CorrRunnerOrder.\nImport ListNotations.\n")


def observe(q2s, name="F2_total"):
    from yadism.esf.result import ESFResult
    pts = [dict(x=0.1 + 0.01 * i, Q2=q) for i, q in enumerate(q2s)]
    r = cards.make_runner(cards.theory_card(PTO=0), cards.obs_card({name: pts}))
    ops = []
    elems = r.observables[name].elements
    for i, e in enumerate(elems):
        e.get_result = (lambda i=i, e=e: (ops.append(("Eval", i)), ESFResult(float(i), e.Q2, None))[1])
    real_drop = r.drop_cache

    def drop():
        ops.append(("Drop",)); real_drop()
    r.drop_cache = drop
    common.silence_yadism()
    import io, contextlib
    with contextlib.redirect_stdout(io.StringIO()):
        out = r.get_result()
    slots = [int(res.x) for res in out[name]]
    return ops, slots


def run_runnerorder(chk, n):
    cases, descs = [], []
    for _ in range(n):
        k = chk.rng.choice([1, 2, 3, 4, 5, 6])
        pool = [chk.rng.choice([10.0, 20.0, 30.0, 40.0]) for _ in range(3)]
        q2s = [chk.rng.choice(pool) if chk.rng.random() < 0.6 else common.dyadic(chk.rng, 4.0, 100.0, 6) for _ in range(k)]
        ops, slots = observe(q2s)
        cases.append("{| ro_q2s := %s; ro_ops := %s; ro_slots := %s |}" % (
            coq_list([qc(q) for q in q2s]), coq_list(["Eval %d" % o[1] if o[0] == "Eval" else "Drop" for o in ops]), coq_list(["%d%%nat" % s for s in slots])))
        descs.append(dict(Q2=q2s, ops=[o[1] if o[0] == "Eval" else "drop" for o in ops], slots=slots))
    bad = common.eval_cases("runnerorder", HEADER, cases, "ro_ok", per_file=200)
    chk.corr["runner_plan"] = dict(cases=len(cases), disagreements=len(bad), distinct_nontrivial=len({tuple(d["Q2"]) for d in descs if len(d["Q2"]) >= 3}),
                                   distribution=dict(with_ties=sum(len(set(d["Q2"])) < len(d["Q2"]) for d in descs), three_or_more=sum(len(d["Q2"]) >= 3 for d in descs)),
                                   rule="real Runner.get_result with the elements' get_result replaced by markers and drop_cache logged, 1-6 points with random Q2 (ties, cycles): "
                                        "sequence of evaluations and cache drops = RunnerOrder.plan, slot k of the output holds request k")
    chk.samples += descs[:1]
    return [descs[i] for i in bad]
