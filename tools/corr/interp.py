"""Correspondence harnesses for Interp.v / CorrConv.v:
 * run_basis: eko's BasisFunction objects (the ones yadism convolves with) against the model's basis_eval and support;
 * run_convplan: the real esf/conv.py::convolution with scipy.integrate.quad replaced by a recorder: what is integrated
   from where to where with which break points, which p(x) is subtracted / multiplies the local term, and when the
   function returns without integrating."""
import math
import numpy as np
from lib import common
from lib.common import qc, coq_bool, coq_list

HEADER = ("From Coq Require Import ZArith List Bool QArith Qcanon.\n"
          "From Yad Require Import Base Interp CorrConv.\nImport ListNotations.\n")


def make_interp(grid, degree, log):
    from eko import interpolation
    return interpolation.InterpolatorDispatcher(interpolation.XGrid(grid, log=log), degree, mode_N=False)


def gen_grid(rng):
    n = rng.choice([2, 3, 4, 5, 6, 7, 9, 12, 16])
    log = rng.random() < 0.7
    lo = 10 ** rng.uniform(-5, -1)
    top = 1.0 if rng.random() < 0.85 else rng.uniform(0.6, 0.95)
    if log:
        pts = sorted({math.exp(rng.uniform(math.log(lo), math.log(top))) for _ in range(n - 2)})
    else:
        pts = sorted({rng.uniform(lo, top) for _ in range(n - 2)})
    grid = [lo]
    for p in [q for q in pts if lo < q < top] + [top]:
        # eko evaluates the polynomials from expanded monomial coefficients: nearly coincident nodes cost it digits (2.98e-8 seen at a node
        # for two nodes 0.7% apart); interpolation grids in use are well separated, so are the generated ones
        if (p / grid[-1] > 1.2) if log else (p - grid[-1] > 0.03):
            grid.append(p)
    if grid[-1] != top:
        grid[-1] = top
    if len(grid) < 2:
        grid = [lo, top]
    deg = rng.choice([d for d in (1, 2, 3, 4) if d < len(grid)])
    return grid, deg, log


def gen_x(rng, grid):
    u = rng.random()
    if u < 0.1:
        return grid[0]                                 # exactly on the lowest node
    if u < 0.3:
        return rng.choice(grid)                       # exactly on a node
    if u < 0.36:
        return grid[0] * rng.choice([0.5, 0.9])        # below the grid
    if u < 0.42:
        return min(1.0, grid[-1] * rng.choice([1.0, 1.02]))
    if u < 0.46:
        return rng.choice([1.0, 1.0 - 1e-12, 1.0 - 5e-12, 1.0 - 2e-11])
    return math.exp(rng.uniform(math.log(grid[0]), math.log(grid[-1])))


def nodes_lit(v):
    return coq_list([qc(float(a)) for a in v])


def run_basis(chk, n):
    cases, descs = [], []
    while len(cases) < n:
        grid, deg, log = gen_grid(chk.rng)
        ip = make_interp(grid, deg, log)
        nodes = [float(v) for v in ip.xgrid.grid]
        for _ in range(6):
            j = chk.rng.randrange(len(grid))
            x = gen_x(chk.rng, grid)
            if x <= 0:
                continue
            t = float(np.log(x)) if log else x
            bf = ip[j]
            val = float(bf(x))
            sup = "(Some (%s, %s))" % (qc(float(bf.areas[0].xmin)), qc(float(bf.areas[-1].xmax)))
            cases.append("{| bc_nodes := %s; bc_deg := %d%%nat; bc_j := %d%%nat; bc_t := %s; bc_val := %s; bc_support := %s |}"
                         % (nodes_lit(nodes), deg, j, qc(t), qc(val), sup))
            descs.append(dict(grid=grid, degree=deg, log=log, j=j, x=x, eko_value=val, on_node=x in grid))
    bad = common.eval_cases("basis", HEADER, cases, "basis_ok (qc 1 10000000)", per_file=150)
    chk.corr["eko_basis"] = dict(cases=len(cases), disagreements=len(bad),
                                 distribution=dict(on_node=int(sum(d["on_node"] for d in descs)), log=int(sum(d["log"] for d in descs)),
                                                   degrees={str(k): int(sum(d["degree"] == k for d in descs)) for k in (1, 2, 3, 4)}),
                                 distinct_nontrivial=len({(len(d["grid"]), d["degree"], d["log"], d["j"]) for d in descs}),
                                 rule="eko InterpolatorDispatcher (mode_N=False) on random grids (2..16 nodes, log and linear, degree 1..4, grids not reaching 1 included): "
                                      "p_j(x) at random x, on every kind of node, below and above the grid, and the support borders, against Interp.basis_eval / support (1e-7; generated nodes at least 20% (log) / 0.03 (linear) apart)")
    chk.samples += descs[:2]
    return [descs[i] for i in bad]


def observe_convolution(ip, j, x, has_reg, has_sing):
    """the real conv.convolution with the quadrature replaced by a recorder; loc = 1 so that the result is p(x)"""
    from yadism.esf import conv
    from yadism.coefficient_functions.partonic_channel import RSL
    import scipy.integrate
    rec = []

    def fake_quad(f, a, b, args=(), epsabs=None, points=None, **kw):
        rec.append(dict(a=float(a), b=float(b), points=[float(p) for p in points], args=args, f=f.__name__, epsabs=epsabs))
        return 0.0, 0.0
    reg = (lambda z, a: 1.0) if has_reg else None
    sing = (lambda z, a: 1.0) if has_sing else None
    rsl = RSL(reg, sing, lambda xx, a: 1.0, args=[])
    real = scipy.integrate.quad
    scipy.integrate.quad = fake_quad
    try:
        res, err = conv.convolution(rsl, x, ip[j])
    finally:
        scipy.integrate.quad = real
    return res, rec


def run_convplan(chk, n):
    from yadism.esf import conv
    eps = conv.eps_integration_border
    cases, descs, direct = [], [], []
    while len(cases) < n:
        grid, deg, log = gen_grid(chk.rng)
        ip = make_interp(grid, deg, log)
        nodes = [float(v) for v in ip.xgrid.grid]
        xs = [float(v) for v in (np.exp(ip.xgrid.grid) if log else ip.xgrid.grid)]
        for _ in range(6):
            j = chk.rng.randrange(len(grid))
            x = gen_x(chk.rng, grid)
            if x <= 0:
                continue
            has_reg, has_sing = chk.rng.random() < 0.6, chk.rng.random() < 0.6
            res, rec = observe_convolution(ip, j, x, has_reg, has_sing)
            d = dict(grid=grid, degree=deg, log=log, j=j, x=x, has_reg=has_reg, has_sing=has_sing, on_node=x in grid, result=float(res), quad_calls=len(rec))
            if len(rec) > 1:
                d["problem"] = "more than one quadrature"; direct.append(d)
            expected_ker = {(True, True): "quad_ker_reg_sing", (True, False): "quad_ker_reg", (False, True): "quad_ker_sing"}.get((has_reg, has_sing))
            if rec and rec[0]["f"] != expected_ker:
                d["problem"] = "integrand %s for reg=%s sing=%s" % (rec[0]["f"], has_reg, has_sing); direct.append(d)
            if rec and has_sing and float(rec[0]["args"][-2]) != float(res):
                d["problem"] = "p(x) subtracted in the singular integrand (%r) is not the p(x) multiplying the local term (%r)" % (float(rec[0]["args"][-2]), float(res)); direct.append(d)
            if rec and float(rec[0]["args"][0]) != x:
                d["problem"] = "integrand evaluated for x=%r" % rec[0]["args"][0]; direct.append(d)
            early = (not rec) and res == 0.0 and (has_reg or has_sing)
            if not (has_reg or has_sing):
                # nothing to integrate: an early return and p(x) = 0 look alike; decide by the model's own criterion
                early = x >= 1 - eps or ip[j].is_below_x(x)
            if early:
                obs = "None"
            else:
                r = rec[0] if rec else dict(a=0.0, b=0.0, points=[])
                obs = "(Some {| pl_quad := %s; pl_lo := %s; pl_hi := %s; pl_points := %s; pl_px := %s |})" % (
                    coq_bool(bool(rec)), qc(r["a"]), qc(r["b"]), nodes_lit(r["points"]), qc(float(res)))
            t = float(np.log(x)) if log else x
            cases.append("{| cc_nodes := %s; cc_xs := %s; cc_deg := %d%%nat; cc_j := %d%%nat; cc_x := %s; cc_t := %s; cc_eps := %s; "
                         "cc_has_reg := %s; cc_has_sing := %s; cc_obs := %s |}"
                         % (nodes_lit(nodes), nodes_lit(xs), deg, j, qc(x), qc(t), qc(eps), coq_bool(has_reg), coq_bool(has_sing), obs))
            d["early_return"] = bool(early)
            descs.append(d)
    bad = common.eval_cases("convplan", HEADER, cases, "plan_ok (qc 1 100000000)", per_file=150)
    out = [descs[i] for i in bad] + [d for d in direct if d not in [descs[i] for i in bad]]
    chk.corr["convolution_plan"] = dict(cases=len(cases), disagreements=len(out),
                                        distribution=dict(on_node=int(sum(d["on_node"] for d in descs)), early_return=int(sum(bool(d["early_return"]) for d in descs)),
                                                          integrated=sum(d["quad_calls"] for d in descs), lowest_node=int(sum(d["x"] == d["grid"][0] for d in descs))),
                                        distinct_nontrivial=len({(len(d["grid"]), d["degree"], d["log"], d["j"], d["has_reg"], d["has_sing"], d["early_return"]) for d in descs}),
                                        rule="real conv.convolution with scipy.integrate.quad replaced by a recorder and loc = 1: early returns, integration limits with the eps "
                                             "borders, break points, the integrand variant, and p(x) (in the singular integrand and in front of the local term) against "
                                             "CorrConv.conv_plan built on the basis model; x on every node (lowest included), below/above the grid, next to 1")
    chk.samples += descs[:2]
    return out
