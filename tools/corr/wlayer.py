"""Correspondence harnesses for the weight layer: CouplingConstants and Combiner.

Every case is (card parameters, observed behaviour of the real classes); the Coq side
(theories/CorrCombiner.v) evaluates the hand-written model on the same parameters in exact
rational arithmetic and compares."""
import math
import numpy as np
from lib import common, cards
from lib.common import qc, coq_Z, coq_bool, coq_list, coq_str, dyadic

PROJ = {"electron": 11, "positron": -11, "neutrino": 12, "antineutrino": -12}
QN = "duscbt"
PID_ORDER = [-6, -5, -4, -3, -2, -1, 21, 1, 2, 3, 4, 5, 6, 22]
KINDS = ["F2", "FL", "F3", "g1", "gL", "g4"]
KIND_COQ = {"F2": "F2", "FL": "FL", "F3": "F3", "g1": "G1", "gL": "GL", "g4": "G4"}
HEAVYNESS = ["total", "light", "charm", "bottom", "top"]
FNS = ["ZM-VFNS", "FFNS", "FFN0", "FONLL-FFNS", "FONLL-FFN0"]
HEADER = ("From Coq Require Import ZArith List Bool String QArith Qcanon.\n"
          "From Yad Require Import Base Couplings Weights Combiner CorrCombiner.\n"
          "From YadGen Require Import Inventory.\n"
          "Import ListNotations. Open Scope string_scope.\n")


def rand_ckm(rng):
    return " ".join(repr(dyadic(rng, 0.0, 1.0, 8)) for _ in range(9))


def rand_ew(rng, structured=True):
    """electroweak part of the cards"""
    th = dict(SIN2TW=dyadic(rng, 1 / 16, 15 / 16, 6) if rng.random() < 0.7 else 0.234375,
              MZ=dyadic(rng, 50.0, 130.0, 8), MW=dyadic(rng, 50.0, 130.0, 8),
              CKM=rand_ckm(rng) if rng.random() < 0.8 else cards.CKM_DEFAULT)
    ob = dict(prDIS=rng.choice(["EM", "NC", "CC"]),
              ProjectileDIS=rng.choice(list(PROJ)),
              PolarizationDIS=rng.choice([0.0, 1.0, -1.0, dyadic(rng, -1.0, 1.0, 6)]),
              PropagatorCorrection=rng.choice([0.0, dyadic(rng, -0.25, 0.25, 6)]),
              NCPositivityCharge=rng.choice([None, None, "all", "down", "up", "strange", "charm", "bottom", "top"]))
    return th, ob


def theory_coq(th):
    ck = [float(v) ** 2 for v in th["CKM"].split(" ")]
    mw2 = float(th["MW"]) ** 2
    return ("{| s2w := %s; MZ2 := %s; MW2 := %s; ckm := (%s, %s, %s, (%s, %s, %s), (%s, %s, %s)) |}"
            % ((qc(th["SIN2TW"]), qc(float(th["MZ"]) ** 2), qc(mw2)) + tuple(qc(c) for c in ck)))


def obs_coq(ob):
    pos = ob["NCPositivityCharge"]
    posc = "None" if pos in (None, "all") else "(Some %s)" % coq_Z(1 + QN.index(pos[0]))
    return ("{| proc := %s; proj := %s; pol := %s; pcorr := %s; pos := %s |}"
            % (ob["prDIS"], coq_Z(PROJ[ob["ProjectileDIS"]]), qc(ob["PolarizationDIS"]),
               qc(ob["PropagatorCorrection"]), posc))


def mask_coq(mask):
    if mask is None:
        return "(mask_light 0)"
    return ("{| m_dus := %s; m_c := %s; m_b := %s; m_t := %s; m_len := %s |}"
            % (coq_bool("dus" in mask), coq_bool("c" in mask), coq_bool("b" in mask),
               coq_bool("t" in mask), coq_Z(len(mask))))


# ------------------------------------------------------------------ couplings ----------
def couplings_case(rng):
    """one parameter set, many queries on the real CouplingConstants"""
    from yadism.coefficient_functions.coupling_constants import CouplingConstants
    th, ob = rand_ew(rng)
    full_th = cards.theory_card(**th)
    full_ob = cards.obs_card({}, **ob)
    cc = CouplingConstants.from_dict(full_th, full_ob)
    # half of the cases share a few virtualities: different electroweak parameters at the SAME Q2 in one process (memos keyed by Q2 alone)
    Q2 = rng.choice([4.0, 90.0, 8100.0]) if rng.random() < 0.5 else dyadic(rng, 0.5, 20000.0, 16)
    qs = []
    proc = ob["prDIS"]
    masks = ["dus", "dusc", "duscb", "duscbt", "c", "b", "t"]
    for pid in [1, 2, 3, 4, 5, 6, -1, -2, -5]:
        if proc == "CC":
            mk = rng.choice(masks)
            qs.append(("QWeight %s VV %s" % (coq_Z(pid), mask_coq(mk)), cc.get_weight(pid, Q2, None, cc_mask=mk)))
        else:
            for ct in ["VV", "AA", "VA", "AV"]:
                qs.append(("QWeight %s %s %s" % (coq_Z(pid), ct, mask_coq(None)), cc.get_weight(pid, Q2, ct)))
        nf = rng.choice([3, 4, 5, 6])
        for ct in ["VV", "AA"]:
            qs.append(("QFl11 %s %s %s" % (coq_Z(pid), coq_Z(nf), ct), cc.get_fl11_weight(pid, Q2, nf, ct)))
    for mode, mc in [("phph", "PhPh"), ("phZ", "PhZ"), ("ZZ", "ZZ"), ("WW", "WW")]:
        qs.append(("QProp %s" % mc, cc.propagator_factor(mode, Q2)))
        for ct in ["VV", "AA", "VA", "AV"]:
            qs.append(("QLept %s %s" % (mc, ct), cc.leptonic_coupling(mode, ct)))
            pid = rng.choice([1, 2, 3, 4, 5, 6])
            if mode != "WW":
                qs.append(("QPart %s %s %s %s" % (mc, coq_Z(pid), ct, mask_coq(None)), cc.partonic_coupling(mode, pid, ct)))
                nf = rng.choice([3, 4, 5, 6])
                qs.append(("QPartFl11 %s %s %s %s" % (mc, coq_Z(pid), coq_Z(nf), ct),
                           cc.partonic_coupling_fl11(mode, pid, nf, ct)))
    for pm in ["Zph"]:
        pid = rng.choice([1, 2, 3, 4, 5, 6]); nf = rng.choice([3, 4, 5, 6])
        for ct in ["VV", "AA"]:
            qs.append(("QPartFl11 Zph %s %s %s" % (coq_Z(pid), coq_Z(nf), ct), cc.partonic_coupling_fl11(pm, pid, nf, ct)))
    for mk in masks:
        pid = rng.choice([1, 2, 3, 4, 5, 6])
        qs.append(("QPart WW %s VV %s" % (coq_Z(pid), mask_coq(mk)), cc.partonic_coupling("WW", pid, None, cc_mask=mk)))
    term = ("{| qs_t := %s; qs_o := %s; qs_Q2 := %s; qs_q := %s |}"
            % (theory_coq(full_th), obs_coq(full_ob), qc(Q2),
               coq_list(["(%s, %s)" % (q, qc(float(v))) for q, v in qs])))
    desc = dict(theory=th, obs=ob, Q2=Q2, n_queries=len(qs), sample=[(q, float(v)) for q, v in qs[:3]])
    return term, desc, len(qs)


def run_couplings(chk, n):
    cases, descs, nq = [], [], 0
    for _ in range(n):
        t, d, k = couplings_case(chk.rng)
        cases.append(t); descs.append(d); nq += k
    bad = common.eval_cases("couplings", HEADER, cases, "qcase_ok (qc 1 100000000000)", per_file=60)
    procs = {}
    for d in descs:
        procs[d["obs"]["prDIS"]] = procs.get(d["obs"]["prDIS"], 0) + 1
    chk.corr["couplings"] = dict(cases=len(cases), queries=nq, disagreements=len(bad),
                                 distinct_nontrivial=len({repr(sorted(d["theory"].items())) + repr(sorted(d["obs"].items(), key=str)) for d in descs}),
                                 rule="random dyadic EW parameter sets x every public method of CouplingConstants "
                                      "(get_weight, get_fl11_weight, leptonic/partonic couplings, propagator factors, CKM masks); "
                                      "distinct = distinct parameter sets; tolerance 1e-11 relative",
                                 distribution=procs)
    chk.samples += descs[:2]
    return [descs[i] for i in bad]


# ------------------------------------------------------------------ Combiner -----------
def rand_config(rng, fixed=None):
    th, ob = rand_ew(rng)
    fns = rng.choice(FNS)
    nfff = rng.choice([3, 4, 5]) if rng.random() < 0.9 else 6
    pto = rng.choice([0, 1, 2, 3])
    mc = dyadic(rng, 1.0, 2.0, 4); mb = dyadic(rng, 3.0, 6.0, 4); mt = dyadic(rng, 100.0, 200.0, 4)
    th.update(FNS=fns, NfFF=nfff, PTO=pto, PTODIS=pto, mc=mc, mb=mb, mt=mt,
              kcThr=rng.choice([1.0, 0.5]), kbThr=rng.choice([1.0, 2.0]), ktThr=1.0,
              FONLLParts=rng.choice(["full", "full", "massless", "massive"]) if "FONLL" in fns else "full")
    z = rng.choice([1.0, 0.0, 1.0, 23.403, dyadic(rng, 0.0, 4.0, 4)])
    a = rng.choice([1.0, 2.0, 49.618, 4.0]) if z <= 1.0 else rng.choice([49.618, 4.0, 64.0])
    if z > a:
        z = a
    # the order of the keys must not matter (a card written with sorted keys lists A first)
    ob.update(TargetDIS=dict(Z=z, A=a) if rng.random() < 0.5 else dict(A=a, Z=z))
    kind = rng.choice(KINDS)
    heavy = rng.choice(HEAVYNESS)
    Q2 = rng.choice([dyadic(rng, 1.0, 64.0, 8), dyadic(rng, 1.0, 40000.0, 12), rng.choice([4.0, 90.0, 8100.0])])
    cfg = dict(theory=th, obs=ob, kind=kind, heavyness=heavy, Q2=Q2)
    if fixed:
        for k, v in fixed.items():
            if k in ("theory", "obs"):
                cfg[k].update(v)
            else:
                cfg[k] = v
    return cfg


def classify_exc(e):
    """map an exception to the outcome enum of the model"""
    name = type(e).__name__
    if name in ("ValueError", "NotImplementedError"):
        return "Rejected", name
    return "Crash", name


def observe_collect(cfg):
    """drive the real Combiner; returns (coq term of the case or None when skipped, description)"""
    from yadism import coefficient_functions as cf
    th = cards.theory_card(**cfg["theory"])
    name = cfg["kind"] + "_" + cfg["heavyness"]
    ob = cards.obs_card({name: [dict(x=0.5, Q2=cfg["Q2"])]}, **cfg["obs"])
    r = cards.make_runner(th, ob)
    esf = r.observables[name].elements[0]
    comb = cf.Combiner(esf)
    m2 = list(r.configs.theory["m2hq"])
    try:
        ks = comb.collect_elems()
        obs_k = []
        for k in ks:
            mod = type(k.coeff).__module__.split(".")
            fam = mod[-2]
            ihq = 0
            for attr in ("m2hq", "m1sq"):
                if hasattr(k.coeff, attr):
                    ihq = 4 + m2.index(getattr(k.coeff, attr))
            if ihq == 0 and hasattr(k.coeff, "labda"):
                ihq = 4 + int(np.argmin([abs(1.0 / (1.0 + m / cfg["Q2"]) - k.coeff.labda) for m in m2]))
            if ihq == 0 and hasattr(k.coeff, "L"):
                ihq = 4 + int(np.argmin([abs(math.log(cfg["Q2"] / m) - k.coeff.L) for m in m2]))
            ws = [float(k.partons.get(p, 0.0)) for p in PID_ORDER]
            obs_k.append((fam, type(k.coeff).__name__, ws, int(k.coeff.nf), ihq))
        if all(np.isfinite(w) for _f, _c, ws, _n, _i in obs_k for w in ws):
            observed = ("Ok", obs_k)
        else:
            observed = ("Crash", "non-finite parton weight")
    except TypeError as e:
        if "HighScaleSplitLogs" in str(e) or "adani" in str(e).lower() or "incompatible function arguments" in str(e):
            return None, dict(cfg=cfg, skipped="adani-environment")
        observed = classify_exc(e)
    except Exception as e:  # noqa
        observed = classify_exc(e)
    fam = {"total": "FamTotal", "light": "FamLight"}.get(cfg["heavyness"], "FamHeavy")
    hq = {"charm": 4, "bottom": 5, "top": 6}.get(cfg["heavyness"], 0)
    masses = comb.masses
    tgt = r.configs.theory["target"]
    c = ("{| g_kind := %s; g_family := %s; g_hq := %s; g_nf := %s; g_mc := %s; g_mb := %s; g_mt := %s; "
         "g_parts := %s; g_ffn0 := %s; g_pto := %s; g_ptoe := %s; g_Z := %s; g_A := %s |}"
         % (KIND_COQ[cfg["kind"]], fam, coq_Z(hq), coq_Z(comb.nf), coq_bool(masses[4]), coq_bool(masses[5]),
            coq_bool(masses[6]), {"full": "PFull", "massless": "PMassless", "massive": "PMassive"}[r.configs.theory["fonllparts"]],
            coq_bool("FFN0" in th["FNS"]), coq_Z(r.configs.theory["pto"]), coq_Z(r.configs.theory["pto_evol"]),
            qc(tgt["Z"]), qc(tgt["A"])))
    if observed[0] == "Ok":
        oc = "(Ok %s)" % coq_list(["(%s, %s, %s, %s, %s)" % (coq_str(f), coq_str(cl), coq_list([qc(w) for w in ws]), coq_Z(nf), coq_Z(ih))
                                   for f, cl, ws, nf, ih in observed[1]])
    else:
        oc = "(%s %s)" % (observed[0], coq_str(observed[1]))
    term = "{| cs_t := %s; cs_o := %s; cs_Q2 := %s; cs_c := %s; cs_obs := %s |}" % (
        theory_coq(th), obs_coq(ob), qc(cfg["Q2"]), c, oc)
    desc = dict(cfg=cfg, nf=comb.nf, outcome=observed[0],
                detail=observed[1] if observed[0] != "Ok" else [(f, cl, ih) for f, cl, ws, nf, ih in observed[1]])
    return term, desc


def run_combiner(chk, n, fixed=None, name="combiner", tol="(qc 1 100000000000)"):
    cases, descs, skipped = [], [], 0
    tries = 0
    while len(cases) < n and tries < 3 * n:
        tries += 1
        cfg = rand_config(chk.rng, fixed)
        t, d = observe_collect(cfg)
        if t is None:
            skipped += 1
            continue
        cases.append(t); descs.append(d)
    bad = common.eval_cases(name, HEADER, cases, "ccase_ok inventory %s" % tol, per_file=80)
    dist = {}
    for d in descs:
        key = "%s/%s/%s" % (d["cfg"]["theory"]["FNS"], d["cfg"]["obs"]["prDIS"], d["outcome"])
        dist[key] = dist.get(key, 0) + 1
    nontrivial = len({repr((d["cfg"]["theory"]["FNS"], d["cfg"]["theory"]["NfFF"], d["cfg"]["theory"]["PTO"], d["cfg"]["obs"]["prDIS"],
                            d["cfg"]["obs"]["ProjectileDIS"], d["cfg"]["kind"], d["cfg"]["heavyness"], d["nf"]))
                      for d in descs if d["outcome"] == "Ok" and d["detail"]})
    chk.corr[name] = dict(cases=len(cases), disagreements=len(bad), skipped_by_environment=skipped,
                          distinct_nontrivial=nontrivial,
                          rule="random cells of FNS x NfFF x PTO x process x projectile x kind x heavyness x Q2 x target x "
                               "polarisation x positivity charge x FONLL parts on the real Combiner(esf).collect_elems(); compared: "
                               "outcome class, kernel list in order (sub-package, class, nf, heavy quark) and all 14 parton weights "
                               "(1e-11 relative); non-trivial = distinct discrete cells with a non-empty kernel list",
                          distribution=dist)
    chk.samples += [dict(cfg=d["cfg"], outcome=d["outcome"], kernels=d["detail"]) for d in descs[:2]]
    return [descs[i] for i in bad]
