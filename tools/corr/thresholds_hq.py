"""Correspondence harness for HeavyThr.v: every class of heavy/*_nc.py and heavy/*_cc.py at dyadic points exactly on,
below and above the thresholds."""
import importlib, types
import numpy as np
from lib import common
from lib.common import coq_bool, coq_list

HEADER = ("From Coq Require Import ZArith QArith Bool List.\nFrom Yad Require Import HeavyThr CorrHeavyThr.\nImport ListNotations.\n")
NC_MODS = ["f2_nc", "fl_nc", "f3_nc", "g1_nc", "gl_nc", "g4_nc"]
CC_MODS = ["f2_cc", "fl_cc", "f3_cc"]


def q_lit(x):
    f = common.frac(x)
    return "(%d # %d)" % (f.numerator, f.denominator)


def nc_classes():
    out = []
    for m in NC_MODS:
        mod = importlib.import_module("yadism.coefficient_functions.heavy." + m)
        for name in ("GluonVV", "GluonAA", "SingletVV", "SingletAA", "NonSinglet"):
            if hasattr(mod, name):
                out.append((m, name, getattr(mod, name)))
    return out


def is_empty(rsl):
    return rsl is None or (rsl.reg is None and rsl.sing is None and rsl.loc is None)


def nc_case(rng, classes):
    m2 = rng.choice([1.0, 2.25, 4.0, 0.5])
    # x0 on the threshold: Q2 (1-x0)/x0 = 4 m2 exactly, with x0 dyadic
    x0, ratio = rng.choice([(0.5, 1.0), (0.75, 3.0), (0.875, 7.0)])       # x0/(1-x0) dyadic: all float operations below are exact
    Q2 = 4 * m2 * ratio
    x = rng.choice([x0, x0 - 2.0 ** -rng.randint(3, 12), x0 + 2.0 ** -rng.randint(3, 12), x0 * 0.5, min(0.96875, x0 * 1.5)])
    esf = types.SimpleNamespace(x=x, Q2=Q2)
    empties, xis, off = [], set(), []
    zs = [x0, x0 + 2.0 ** -10, x0 - 2.0 ** -10, 0.5 * (x0 + 1.0), min(x, x0) * 0.5]
    zobs = {z: [True, None] for z in zs}
    for mname, cname, cls in classes:
        pc = cls(esf, 3, m2hq=m2)
        xis.add(float(pc._xi))
        for o in range(4):
            rsl = pc[o]()
            if rsl is None:
                continue
            empties.append(is_empty(rsl))
            for z in zs:
                zobs[z][1] = float(pc._eta(z))
                if rsl.reg is not None and z >= x0:     # beyond the partonic threshold the closure must return exactly 0.0
                    try:
                        v = rsl.reg(z, rsl.args["reg"])
                        if not (isinstance(v, float) or isinstance(v, int)) or v != 0.0:
                            zobs[z][0] = False
                            off.append(dict(cls="heavy.%s.%s" % (mname, cname), order=o, z=z, value=repr(v)))
                    except Exception as e:  # noqa
                        zobs[z][0] = False
                        off.append(dict(cls="heavy.%s.%s" % (mname, cname), order=o, z=z, value="raises %s" % type(e).__name__))
    term = ("{| n_Q2 := %s; n_m2 := %s; n_x := %s; n_all_empty := %s; n_none_empty := %s; n_z := %s; n_xi := %s |}"
            % (q_lit(Q2), q_lit(m2), q_lit(x), coq_bool(all(empties)), coq_bool(not any(empties)),
               coq_list(["(%s, %s, %s)" % (q_lit(z), coq_bool(zobs[z][0]), q_lit(zobs[z][1])) for z in zs]), q_lit(xis.pop() if len(xis) == 1 else -1.0)))
    return term, dict(Q2=Q2, m2=m2, x=x, x_threshold=x0, empty=sum(empties), orders_seen=len(empties), nonzero_beyond_partonic_threshold=off[:4])


def cc_case(rng):
    from yadism.esf import conv
    from yadism.coefficient_functions.partonic_channel import RSL
    m2 = rng.choice([1.0, 2.25, 20.25, 0.5]); Q2 = rng.choice([1.0, 3.0, 9.0, 0.25, 100.0])
    x = rng.choice([0.5, 0.25, 0.75, 0.875, 1.0 / (1.0 + m2 / Q2), float(np.nextafter(1.0 / (1.0 + m2 / Q2), 0.0)), 0.125])
    esf = types.SimpleNamespace(x=x, Q2=Q2)
    cps = set()
    for m in CC_MODS:
        mod = importlib.import_module("yadism.coefficient_functions.heavy." + m)
        for name in ("NonSinglet", "Gluon"):
            pc = getattr(mod, name)(esf, 3, m2hq=m2)
            cps.add(float(pc.convolution_point()))
    cp = cps.pop() if len(cps) == 1 else -1.0

    class Boom:
        def __getattr__(self, n):
            raise RuntimeError("basis function touched although the domain is empty")
    try:
        r = conv.convolution(RSL(lambda z, a: 1.0), cp, Boom())
        zero = (r == (0.0, 0.0))
    except RuntimeError:
        zero = False
    return ("{| c_Q2 := %s; c_m2 := %s; c_x := %s; c_cp := %s; c_conv_zero := %s |}" % (q_lit(Q2), q_lit(m2), q_lit(x), q_lit(cp), coq_bool(zero)),
            dict(Q2=Q2, m2=m2, x=x, convolution_point=cp, conv_is_zero=zero))


def run_thresholds_hq(chk, n):
    classes = nc_classes()
    cases, descs = [], []
    for _ in range(n):
        t, d = nc_case(chk.rng, classes)
        cases.append(t); descs.append(d)
    bad = common.eval_cases("thr_nc", HEADER, cases, "nccase_ok", per_file=200)
    cc, cdesc = [], []
    for _ in range(n):
        t, d = cc_case(chk.rng)
        cc.append(t); cdesc.append(d)
    bad2 = common.eval_cases("thr_cc", HEADER, cc, "cccase_ok", per_file=200)
    chk.corr["heavy_thresholds"] = dict(cases=len(cases) + len(cc), disagreements=len(bad) + len(bad2), nc_classes=len(classes),
                                        distinct_nontrivial=len({(d["Q2"], d["m2"], d["x"]) for d in descs}) + len({(d["Q2"], d["m2"], d["x"]) for d in cdesc}),
                                        rule="every class of heavy/{f2,fl,f3,g1,gl,g4}_nc.py (all orders) at dyadic (x, Q2, m2) exactly on / just below / just above the hadronic "
                                             "threshold: emptiness of the returned RSL, exact 0.0 of every closure beyond the partonic threshold, xi and eta handed to LeProHQ; every class of "
                                             "heavy/{f2,fl,f3}_cc.py: convolution point x/lambda, and conv.convolution returns (0,0) without touching the basis iff the point >= 1 - 1e-10")
    chk.samples += descs[:1] + cdesc[:1]
    return [descs[i] for i in bad] + [cdesc[i] for i in bad2]
