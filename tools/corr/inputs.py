"""Correspondence harness for Compat.v (compatibility.update on every card shape) and the mutation log used by C20."""
import copy, math
import numpy as np
from lib import common, cards
from lib.common import coq_Z, coq_bool, coq_list, coq_str

HEADER = ("From Coq Require Import ZArith List Bool String QArith.\nFrom Yad Require Import Thresholds Compat CompatTheorems CorrCompat.\n"
          "From YadGen Require Import Tables.\nImport ListNotations. Open Scope string_scope.\n")


def q_lit(x):
    f = common.frac(x)
    return "(%d # %d)" % (f.numerator, f.denominator)


def val_lit(v):
    if v is None:
        return "VNone"
    if isinstance(v, bool):
        return "(VB %s)" % coq_bool(v)
    if isinstance(v, (int, np.integer)):
        return "(VZ %s)" % coq_Z(int(v))
    if isinstance(v, (float, np.floating)):
        return "VInf" if math.isinf(v) else "(VQ %s)" % q_lit(float(v))
    if isinstance(v, str):
        return "(VS %s)" % coq_str(v)
    if isinstance(v, dict) and set(v) == {"Z", "A"}:
        # the translator reads source literals as exact decimals: compare with the shortest decimal of the double
        from fractions import Fraction
        dz, da = Fraction(repr(float(v["Z"]))), Fraction(repr(float(v["A"])))
        return "(VTarget (%d # %d) (%d # %d))" % (dz.numerator, dz.denominator, da.numerator, da.denominator)
    if isinstance(v, tuple) and len(v) == 2 and all(isinstance(x, (int, np.integer)) for x in v):
        return "(VPair %s %s)" % (coq_Z(int(v[0])), coq_Z(int(v[1])))
    if isinstance(v, str) or True:
        return "(VOther 0%Z)" if not isinstance(v, list) else "(VOther 7%Z)"


def card_lit(d):
    return coq_list(["(%s, %s)" % (coq_str(k), val_lit(v)) for k, v in d.items()])


def shape(rng):
    t = {"PTO": 2, "FNS": rng.choice(["ZM-VFNS", "FFNS", "FFN0", "FONLL-FFNS", "FONLL-FFN0", "VFNS", "FFNS "]), "NfFF": rng.choice([3, 4, 5, 6]),
         "kcThr": 1.5, "kbThr": 1.0, "ktThr": 1.0, "mc": 1.5, "XIR": [1.0]}
    for k, vals in (("PTODIS", [None, 1]), ("FONLLParts", [None, "massive"]), ("RenScaleVar", [False]), ("FactScaleVar", [False]), ("alphaqed", [1 / 128]), ("QED", [0])):
        if rng.random() < 0.6:
            t[k] = rng.choice(vals)
    items = list(t.items())
    if rng.random() < 0.5:
        rng.shuffle(items)
    t = dict(items)
    o = {"prDIS": "NC", "TargetDIS": rng.choice(["proton", "neutron", "isoscalar", "iron", "lead", "neon", "marble", "gold", {"Z": 1.0, "A": 2.0}, {"Z": 3.5, "A": 7.0}]),
         "observables": [1]}
    return t, o


def run_compat_shapes(chk, n):
    from yadism.input import compatibility
    cases, descs = [], []
    for _ in range(n):
        t, o = shape(chk.rng)
        t0, o0 = copy.deepcopy(t), copy.deepcopy(o)
        try:
            nt, no = compatibility.update(t, o)
            # marble's TargetDISid is a formatted string, the model keeps an opaque tag for the id
            no = dict(no)
            if "TargetDISid" in no:
                no["TargetDISid"] = object()
            obs = "(Some %s)" % card_lit(nt), "(Some %s)" % card_lit(no)
            raised = None
        except (ValueError, KeyError) as e:
            obs = "None", "None"
            raised = type(e).__name__
        untouched = (t == t0 and o == o0)
        cases.append("{| u_theory := %s; u_obs := %s; u_theory' := %s; u_obs' := %s |}" % (card_lit(t0), card_lit(o0), obs[0], obs[1]))
        descs.append(dict(FNS=t0["FNS"], NfFF=t0["NfFF"], target=o0["TargetDIS"], optional=sorted(k for k in t0 if k in ("PTODIS", "FONLLParts", "RenScaleVar", "FactScaleVar", "alphaqed", "QED")),
                          raised=raised, arguments_untouched=untouched))
    bad = set(common.eval_cases("compat_update", HEADER, cases, "ucase_ok target_table", per_file=150))
    bad |= {i for i, d in enumerate(descs) if not d["arguments_untouched"]}
    dist = {}
    for d in descs:
        dist[d["FNS"]] = dist.get(d["FNS"], 0) + 1
    chk.corr["compatibility_update"] = dict(cases=len(cases), disagreements=len(bad), distribution=dist,
                                            distinct_nontrivial=len({repr((d["FNS"], d["NfFF"], str(d["target"]), d["optional"])) for d in descs if d["raised"] is None}),
                                            rule="random card shapes (scheme name incl. invalid, NfFF, presence/None of the optional keys, key order, named / dict / unknown targets) "
                                                 "through the real compatibility.update: resulting theory and observable cards (keys in order, values) compared with the model; "
                                                 "the two argument dicts must be unchanged")
    chk.samples += descs[:2]
    return [descs[i] for i in sorted(bad)]


# ------------------------------------------------------------------ mutation-logging containers
LOG = []


class LDict(dict):
    def _log(self, what, key=None):
        LOG.append((id(self), what, key))

    def __setitem__(self, k, v):
        self._log("setitem", k); dict.__setitem__(self, k, v)

    def __delitem__(self, k):
        self._log("delitem", k); dict.__delitem__(self, k)

    def pop(self, k, *a):
        self._log("pop", k); return dict.pop(self, k, *a)

    def popitem(self):
        self._log("popitem"); return dict.popitem(self)

    def update(self, *a, **kw):
        self._log("update"); dict.update(self, *a, **kw)

    def clear(self):
        self._log("clear"); dict.clear(self)

    def setdefault(self, k, d=None):
        if k not in self:
            self._log("setdefault", k)
        return dict.setdefault(self, k, d)


class LList(list):
    def _log(self, what):
        LOG.append((id(self), what, None))

    def __setitem__(self, i, v):
        self._log("setitem"); list.__setitem__(self, i, v)

    def __delitem__(self, i):
        self._log("delitem"); list.__delitem__(self, i)

    def append(self, v):
        self._log("append"); list.append(self, v)

    def extend(self, v):
        self._log("extend"); list.extend(self, v)

    def insert(self, i, v):
        self._log("insert"); list.insert(self, i, v)

    def pop(self, *a):
        self._log("pop"); return list.pop(self, *a)

    def remove(self, v):
        self._log("remove"); list.remove(self, v)

    def sort(self, *a, **kw):
        self._log("sort"); list.sort(self, *a, **kw)

    def reverse(self):
        self._log("reverse"); list.reverse(self)

    def clear(self):
        self._log("clear"); list.clear(self)

    def __iadd__(self, o):
        self._log("iadd"); return list.__iadd__(self, o)


def logged(x):
    if isinstance(x, dict):
        return LDict({k: logged(v) for k, v in x.items()})
    if isinstance(x, (list, tuple)) and not isinstance(x, str):
        return LList([logged(v) for v in x])
    return x
