"""obligations.py — generate, from the regenerated kernels and RSL sites, the Coq proof obligations of C03 (and the
closed-form identities of C04 / C08 that are plain identities between kernels).  One file per obligation under
coq/gen/ob/, so that a failing obligation names its site.  Certificates (polynomial forms, residual coefficients) are
proposed here and CHECKED by Coq (`field`, `interval`); nothing computed here is trusted."""
import os, sys
from fractions import Fraction as Fr
import pyk2coq, sites, polyalg, pyinst
from polyalg import P, to_poly, NotPoly

HEADER = ("From Coq Require Import Reals List Lra ZArith.\nFrom Coquelicot Require Import Coquelicot.\nFrom Interval Require Import Tactic.\n"
          "From Yad Require Import Expr KTactics.\nImport ListNotations.\nOpen Scope R_scope.\n\n")
TOL = Fr(5, 100000)


def rlit(f):
    f = Fr(f)
    if f.denominator == 1:
        return "(%d)" % f.numerator
    return "(%d / %d)" % (f.numerator, f.denominator)


def poly_coq(p, symmap):
    """P -> Coq real expression; symmap: symbol -> Coq text"""
    if not p.d:
        return "0"
    terms = []
    for k, v in sorted(p.d.items()):
        t = rlit(v)
        for s, pw in k:
            t += " * %s" % symmap[s] if pw == 1 else " * %s ^ %d" % (symmap[s], pw)
        terms.append(t)
    return " + ".join(terms)


SYM = {"a0": "nth 0 a 0", "a1": "nth 1 a 0", "a2": "nth 2 a 0", "pi": "PI", "zeta3": "sp_zeta3 sp", "L1": "L"}


def wf_obligation(idx, sg, lc, site_ids):
    """returns (filename, text, meta)"""
    name = "WF_%03d" % idx
    L = [HEADER, "(* sites: %s *)" % ", ".join(site_ids),
         "(* sing = %s ; loc = %s *)" % (sg["name"], lc["name"]),
         "Definition sing_e : expr := %s." % pyk2coq.coq(sg["expr"]),
         "Definition loc_e : expr := %s.\n" % pyk2coq.coq(lc["expr"])]
    meta = dict(name=name, sing=sg["name"], loc=lc["name"], sites=site_ids)
    form = None
    try:
        Ps, Pl = to_poly(sg["expr"]), to_poly(lc["expr"])
        cs = Ps.coeff_in("D")
        if not (Pl.symbols() & {"z", "D", "L0"}) and set(cs) == {1} and not (cs[1].symbols() & {"z", "L0", "D"}):
            Q = cs[1]
            resid = Q - Pl.diff("L1")
            form = ("poly", Q, resid)
    except NotPoly:
        pass
    if form and form[2].d:
        Q, resid = form[1], form[2]
        if (Q.symbols() | resid.symbols()) - {"L1", "a0", "pi", "zeta3"}:
            form = None
    if form and form[2].d:
        # rounded parametrisation: loc' = -sing + resid(L)/(1-x) with small residual coefficients
        Q, resid = form[1], form[2]
        rc, qc = resid.coeff_in("L1"), Q.coeff_in("L1")
        kmax = max(list(rc) + list(qc))
        meta["kind"] = "rounded"
        L.append("(* certificate: sing = (sum_k q_k L^k)/(1-x), loc' = -sing + (sum_k d_k L^k)/(1-x), L = ln(1-x) *)")
        L.append("Definition q_coeffs (sp : special) (a : list R) : list R := [%s]." % "; ".join(poly_coq(qc.get(k, P()), SYM) for k in range(kmax + 1)))
        L.append("Definition d_coeffs (sp : special) (a : list R) : list R := [%s]." % "; ".join(poly_coq(rc.get(k, P()), SYM) for k in range(kmax + 1)))
        L.append("")
        L.append("Theorem sing_form : forall sp a x, 0 < x < 1 -> eval sp sing_e x a = polyL (q_coeffs sp a) (ln (1 - x)) / (1 - x).")
        L.append("Proof. intros sp a x Hx. k_form sing_e q_coeffs. Qed.")
        L.append("Theorem wf : forall sp a x, 0 < x < 1 ->\n  is_derive (fun x => eval sp loc_e x a) x (- eval sp sing_e x a + polyL (d_coeffs sp a) (ln (1 - x)) / (1 - x)).")
        L.append("Proof. intros sp a x Hx. k_derive_resid loc_e sing_e d_coeffs. Qed.")
        L.append("(* the residual coefficients are rounding noise: |d_k| <= 5e-5 (1 + |q_k|) for nf = 3..6 *)")
        L.append("Theorem small : forall sp nf, nf = 3 \\/ nf = 4 \\/ nf = 5 \\/ nf = 6 -> all_small (5 / 100000) (d_coeffs sp [nf]) (q_coeffs sp [nf]).")
        L.append("Proof. intros sp nf Hnf. k_small Hnf. Qed.")
        worst = None
        for k in sorted(rc):
            for nf in (3, 4, 5, 6):
                env = {"a0": nf, "pi": Fr(355, 113), "zeta3": Fr(12, 10)}
                d = rc[k].subs_num(env); q = qc.get(k, P()).subs_num(env)
                r = abs(d) / (1 + abs(q))
                if worst is None or r > worst[0]:
                    worst = (r, k, nf, d, q)
        meta["worst_residual"] = dict(rel=float(worst[0]), power_of_L=worst[1], nf=worst[2], d=float(worst[3]), q=float(worst[4]))
        meta["expected_ok"] = worst[0] <= TOL
    else:
        meta["kind"] = "exact"
        L.append("Theorem wf : forall sp, special_ok sp -> forall a x, 0 < x < 1 ->\n  is_derive (fun x => eval sp loc_e x a) x (- eval sp sing_e x a).")
        L.append("Proof. intros sp Hsp a x Hx. k_derive_exact sp Hsp loc_e sing_e. Qed.")
    L.append("Print Assumptions wf.")
    return name + ".v", "\n".join(L) + "\n", meta


def const_loc_obligation(idx, lc, site_ids):
    name = "LC_%03d" % idx
    L = [HEADER, "(* sites: %s *)" % ", ".join(site_ids), "(* loc = %s (no singular part: the local part must not depend on x) *)" % lc["name"],
         "Definition loc_e : expr := %s.\n" % pyk2coq.coq(lc["expr"]),
         "Theorem loc_constant : forall sp a x x', eval sp loc_e x a = eval sp loc_e x' a.",
         "Proof. intros. apply no_z_constant. vm_compute. reflexivity. Qed.", "Print Assumptions loc_constant."]
    return name + ".v", "\n".join(L) + "\n", dict(name=name, kind="constant-loc", loc=lc["name"], sites=site_ids)


def generate(repo):
    tr, ss = sites.extract(repo)
    pairs, locs, problems = {}, {}, []
    for s in ss:
        if s.kind != "rsl":
            continue
        sg, lc = s.parts["sing"], s.parts["loc"]
        if sg is None and lc is None:
            continue
        if sg is not None and lc is None:
            problems.append(dict(site=s.ident, why="singular part without local part"))
            continue
        if (sg and sg["kind"] != "kernel") or lc["kind"] != "kernel":
            continue      # closures over instance state: not translated (reported in the evidence)
        if sg is None:
            locs.setdefault(lc["name"], (lc, []))[1].append(s.ident)
        else:
            pairs.setdefault((sg["name"], lc["name"]), (sg, lc, []))[2].append(s.ident)
    files, metas = {}, []
    unproved = []
    for i, (key, (sg, lc, ids)) in enumerate(sorted(pairs.items())):
        ats = pyk2coq.atoms(sg["expr"]) | pyk2coq.atoms(lc["expr"])
        if any(a.startswith("snp") for a in ats):
            # Nielsen polylogarithms beyond Li2 (real and imaginary parts of Li3 above the cut): no derivative facts are
            # assumed for them, so no obligation is generated; the site is covered by the numerical sweep only
            unproved.append(dict(sites=ids, sing=sg["name"], loc=lc["name"], why="uses Nielsen functions %s" % sorted(a for a in ats if a.startswith("snp"))))
            continue
        fn, txt, meta = wf_obligation(i, sg, lc, ids)
        files[fn] = txt; metas.append(meta)
    for i, (key, (lc, ids)) in enumerate(sorted(locs.items())):
        fn, txt, meta = const_loc_obligation(i, lc, ids)
        files[fn] = txt; metas.append(meta)
    # closures over instance state that tools/pyinst.py translates (heavy CC): args[0] = lambda in (0,1)
    for dotted, cname, meth, res in pyinst.inst_kernels(repo):
        key = "%s.%s.%s" % (dotted.split("coefficient_functions.")[-1], cname, meth)
        if isinstance(res, tuple):
            problems.append(dict(site=key, why="instance closure no longer translatable: " + res[1]))
            continue
        if res["sing"] is None and res["loc"] is None:
            continue
        if res["sing"] is None:
            if pyk2coq.atoms(res["loc"]) & {"z"}:
                problems.append(dict(site=key, why="local part depends on x without a singular part"))
            continue
        if res["loc"] is None:
            problems.append(dict(site=key, why="singular part without local part"))
            continue
        name = "WFI_" + key.replace(".", "_")
        sid, lid = pyinst.inst_ident(dotted, cname, meth, "sing"), pyinst.inst_ident(dotted, cname, meth, "loc")
        if dotted.endswith("asy.partonic_channel"):
            # parameters (L, LO delta coefficient) are arbitrary reals: the statement is the one of the module-level kernels
            txt = (HEADER.replace("From Yad Require Import Expr KTactics.", "From Yad Require Import Expr KTactics.\nFrom YadGen Require Import InstKernels.")
                   + "(* %s: closure over instance state, args[0] = L = ln(Q2/m2), args[1] = LO delta coefficient of the light class *)\n" % key
                   + "Theorem wf : forall sp, special_ok sp -> forall a x, 0 < x < 1 ->\n"
                   + "  is_derive (fun x => eval sp %s x a) x (- eval sp %s x a).\n" % (lid, sid)
                   + "Proof. intros sp Hsp a x Hx. k_derive_exact sp Hsp %s %s. Qed.\nPrint Assumptions wf.\n" % (lid, sid))
            files[name + ".v"] = txt
            metas.append(dict(name=name, kind="exact-instance", sing=key + ":sing", loc=key + ":loc", sites=[key]))
            continue
        txt = (HEADER.replace("From Yad Require Import Expr KTactics.", "From Coq Require Import Psatz.\nFrom Yad Require Import Expr KTactics.\nFrom YadGen Require Import InstKernels.")
               + "(* %s: closure over instance state, args[0] = lambda = 1/(1 + m2/Q2) *)\n" % key
               + "Theorem wf : forall sp, special_ok sp -> forall l x, 0 < l < 1 -> 0 < x < 1 ->\n"
               + "  is_derive (fun x => eval sp %s x [l]) x (- eval sp %s x [l]).\n" % (lid, sid)
               + "Proof. intros sp Hsp l x Hl Hx. k_derive_inst sp Hsp %s %s l x Hl Hx. Qed.\nPrint Assumptions wf.\n" % (lid, sid))
        files[name + ".v"] = txt
        metas.append(dict(name=name, kind="exact-instance", sing=key + ":sing", loc=key + ":loc", sites=[key]))
    closures = [dict(site=s.ident, parts={p: (s.parts[p]["name"] if s.parts[p] else None) for p in sites.PARTS})
                for s in ss if s.kind == "rsl" and ((s.parts["sing"] and s.parts["sing"]["kind"] == "closure") or
                                                    (s.parts["loc"] and s.parts["loc"]["kind"] == "closure"))]
    return files, metas, problems, closures + [dict(site=u['sites'][0], unproved=u['why']) for u in unproved]


if __name__ == "__main__":
    repo = sys.argv[1] if len(sys.argv) > 1 else "/repo"
    files, metas, problems, closures = generate(repo)
    for m in metas:
        print(m["name"], m["kind"], m.get("worst_residual", ""), m["sites"][:2])
    print("problems:", problems)
    print("closure sites with sing/loc:", [c["site"] for c in closures])
    if len(sys.argv) > 2:
        os.makedirs(sys.argv[2], exist_ok=True)
        for fn, txt in files.items():
            open(os.path.join(sys.argv[2], fn), "w").write(txt)
