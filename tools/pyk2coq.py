"""pyk2coq — fail-closed translator of yadism's numeric kernels (every @nb.njit function) into a small expression
language, emitted as Coq terms (gen/Kernels.v).  Pure `ast`: nothing of yadism is imported, so modules that cannot be
imported in this sandbox are read like all others.  Anything outside the accepted subset makes the function
`Opaque reason` — the translator never guesses.

Accepted: local assignments (inlined), `return e`, + - * / (true division), ** with a literal natural exponent,
np.power(e, n), unary minus, numeric literals (read from the SOURCE TEXT as exact decimals), np.log, np.sqrt, np.pi,
args[i] with literal i, module constants (followed through imports), eko.constants CF CA TR NC (exact rationals),
zeta(2) = pi^2/6, zeta(3) (a named real constant), calls to other translatable kernels (inlined), li2(e),
nielsen(n,p,e).real / wgplg(n,p,e), 1j / complex(a,b) arithmetic projected by .real.
"""
import ast, os, sys
from fractions import Fraction as Fr

PKG = "yadism"
EKO_CONSTANTS = {"CF": Fr(4, 3), "CA": Fr(3), "TR": Fr(1, 2), "NC": Fr(3)}


class Opaque(Exception):
    pass


# ----------------------------------------------------------------------------- expressions
# ('c', Fraction) ('z',) ('arg', i) ('pi',) ('zeta3',) ('add',a,b) ('sub',a,b) ('mul',a,b) ('div',a,b) ('neg',a)
# ('pow',a,n) ('ln',a) ('li2',a) ('snp',n,p,a) ('sqrt',a)
def C(x):
    return ("c", Fr(x))


ZERO, ONE = C(0), C(1)


def is_c(e, v=None):
    return e[0] == "c" and (v is None or e[1] == v)


def add(a, b):
    if is_c(a, 0):
        return b
    if is_c(b, 0):
        return a
    return ("add", a, b)


def sub(a, b):
    if is_c(b, 0):
        return a
    return ("sub", a, b)


def mul(a, b):
    return ("mul", a, b)


def neg(a):
    return ("neg", a)


class FRef:
    """a reference to a function bound to a local name (ddilog = li2, S2 = special.s2)"""
    im = None

    def __init__(self, tgt):
        self.tgt = tgt

    @property
    def re(self):
        raise Opaque("function used as a number")


class V:
    """a (possibly complex) value: re, im expressions (im None = real)"""
    def __init__(self, re, im=None):
        self.re, self.im = re, im


def vadd(a, b):
    im = None if a.im is None and b.im is None else add(a.im or ZERO, b.im or ZERO)
    return V(add(a.re, b.re), im)


def vsub(a, b):
    im = None if a.im is None and b.im is None else sub(a.im or ZERO, b.im or ZERO)
    return V(sub(a.re, b.re), im)


def vmul(a, b):
    if a.im is None and b.im is None:
        return V(mul(a.re, b.re))
    ai, bi = a.im or ZERO, b.im or ZERO
    return V(sub(mul(a.re, b.re), mul(ai, bi)), add(mul(a.re, bi), mul(ai, b.re)))


def vdiv(a, b):
    if b.im is not None:
        raise Opaque("division by a complex value")
    return V(("div", a.re, b.re), None if a.im is None else ("div", a.im, b.re))


class Module:
    def __init__(self, root, dotted):
        self.dotted = dotted
        base = os.path.join(root, *dotted.split("."))
        if os.path.isfile(base + ".py"):
            self.path, self.is_pkg = base + ".py", False
        elif os.path.isfile(os.path.join(base, "__init__.py")):
            self.path, self.is_pkg = os.path.join(base, "__init__.py"), True
        else:
            self.path = None
            return
        self.src = open(self.path).read()
        self.lines = self.src.splitlines()
        self.tree = ast.parse(self.src)
        self.funcs, self.njit, self.assigns, self.imports = {}, set(), {}, {}
        for node in self.tree.body:
            if isinstance(node, ast.FunctionDef):
                self.funcs[node.name] = node
                for d in node.decorator_list:
                    if "njit" in ast.dump(d):
                        self.njit.add(node.name)
            elif isinstance(node, ast.Assign) and len(node.targets) == 1 and isinstance(node.targets[0], ast.Name):
                self.assigns[node.targets[0].id] = node.value
            elif isinstance(node, ast.ImportFrom):
                if node.level:
                    pk = dotted.split(".") if self.is_pkg else dotted.split(".")[:-1]
                    pk = pk[: len(pk) - (node.level - 1)]
                    src = ".".join(pk + ([node.module] if node.module else []))
                else:
                    src = node.module
                for a in node.names:
                    self.imports[a.asname or a.name] = ("from", src, a.name)
            elif isinstance(node, ast.Import):
                for a in node.names:
                    self.imports[a.asname or a.name.split(".")[0]] = ("import", a.name)


class Translator:
    def __init__(self, repo):
        self.root = os.path.join(repo, "src")
        self.mods = {}
        self.cache = {}       # (mod, func) -> ('ok', lambda-ish) results of translate_function with symbolic z/args

    def mod(self, dotted):
        if dotted not in self.mods:
            m = Module(self.root, dotted)
            self.mods[dotted] = m if m.path else None
        return self.mods[dotted]

    # -- literals from the source text --------------------------------------------------
    def literal(self, m, node):
        v = node.value
        if isinstance(v, bool):
            raise Opaque("boolean literal")
        if isinstance(v, int):
            return V(C(v))
        if isinstance(v, float):
            seg = ast.get_source_segment(m.src, node)
            txt = seg.strip().lower().replace("_", "") if seg else repr(v)
            try:
                f = Fr(txt)
            except (ValueError, ZeroDivisionError):
                try:
                    f = Fr(txt.rstrip(".") if txt.endswith(".") else txt.replace(".e", "e"))
                except Exception:
                    raise Opaque("cannot read literal %r" % seg)
            if float(f) != v:
                raise Opaque("literal %r does not round to its float" % seg)
            return V(C(f))
        if isinstance(v, complex):
            if v.real != 0:
                raise Opaque("complex literal with real part")
            seg = ast.get_source_segment(m.src, node).strip().lower().rstrip("j")
            return V(ZERO, C(Fr(seg)))
        raise Opaque("literal of type %s" % type(v).__name__)

    # -- names ------------------------------------------------------------------------------
    def resolve(self, m, name, depth=0):
        """-> ('val', V) | ('func', moddotted, fname) | ('mod', dotted) | ('ext', dotted_name)"""
        if depth > 25:
            raise Opaque("name resolution too deep: " + name)
        if name in m.funcs:
            return ("func", m.dotted, name)
        if name in m.assigns:
            return ("val", self.expr(m, m.assigns[name], {}, None))
        if name in m.imports:
            imp = m.imports[name]
            if imp[0] == "import":
                return ("ext", imp[1])
            _, src, nm = imp
            if src is None or not src.startswith(PKG):
                return ("ext", (src or "") + "." + nm)
            sub = self.mod(src + "." + nm)
            if sub is not None:
                return ("mod", src + "." + nm)
            pm = self.mod(src)
            if pm is None:
                raise Opaque("module %s not found" % src)
            return self.resolve(pm, nm, depth + 1)
        raise Opaque("unknown name " + name)

    def resolve_attr(self, m, node):
        """resolve a dotted attribute chain a.b.c"""
        chain = []
        n = node
        while isinstance(n, ast.Attribute):
            chain.append(n.attr)
            n = n.value
        if not isinstance(n, ast.Name):
            raise Opaque("attribute of a non-name")
        chain.append(n.id)
        chain.reverse()
        cur = self.resolve(m, chain[0])
        for attr in chain[1:]:
            if cur[0] == "mod":
                mm = self.mod(cur[1])
                sub = self.mod(cur[1] + "." + attr)
                if sub is not None and attr not in mm.funcs and attr not in mm.assigns:
                    cur = ("mod", cur[1] + "." + attr)
                else:
                    cur = self.resolve(mm, attr)
            elif cur[0] == "ext":
                cur = ("ext", cur[1] + "." + attr)
            else:
                raise Opaque("attribute %s of a value" % attr)
        return cur

    def ext_value(self, dotted):
        if dotted in ("numpy.pi", "math.pi"):
            return V(("pi",))
        if dotted.startswith("eko.constants.") and dotted.split(".")[-1] in EKO_CONSTANTS:
            return V(C(EKO_CONSTANTS[dotted.split(".")[-1]]))
        raise Opaque("external value " + dotted)

    # -- expressions --------------------------------------------------------------------------
    def expr(self, m, node, env, fctx):
        """env: local name -> V ; fctx: (zname, argsname, zval(V), argvals(list of V or None=symbolic)) or None"""
        if isinstance(node, ast.Constant):
            return self.literal(m, node)
        if isinstance(node, ast.Name):
            if node.id in env:
                return env[node.id]
            if fctx and node.id == fctx[0]:
                return fctx[2]
            if fctx and node.id == fctx[1]:
                raise Opaque("args vector used as a value")
            r = self.resolve(m, node.id)
            if r[0] == "val":
                return r[1]
            if r[0] == "ext":
                return self.ext_value(r[1])
            if r[0] == "func":
                return FRef(r)
            raise Opaque("name %s is a %s, not a value" % (node.id, r[0]))
        if isinstance(node, ast.UnaryOp):
            v = self.expr(m, node.operand, env, fctx)
            if isinstance(node.op, ast.USub):
                return V(neg(v.re), None if v.im is None else neg(v.im))
            if isinstance(node.op, ast.UAdd):
                return v
            raise Opaque("unary operator")
        if isinstance(node, ast.BinOp):
            if isinstance(node.op, ast.Pow):
                base = self.expr(m, node.left, env, fctx)
                return self.power(m, base, node.right)
            a = self.expr(m, node.left, env, fctx)
            b = self.expr(m, node.right, env, fctx)
            if isinstance(node.op, ast.Add):
                return vadd(a, b)
            if isinstance(node.op, ast.Sub):
                return vsub(a, b)
            if isinstance(node.op, ast.Mult):
                return vmul(a, b)
            if isinstance(node.op, ast.Div):
                return vdiv(a, b)
            raise Opaque("binary operator %s" % type(node.op).__name__)
        if isinstance(node, ast.Subscript):
            if fctx and isinstance(node.value, ast.Name) and node.value.id == fctx[1]:
                idx = node.slice
                if isinstance(idx, ast.Constant) and isinstance(idx.value, int) and idx.value >= 0:
                    if fctx[3] is None:
                        return V(("arg", idx.value))
                    if idx.value < len(fctx[3]):
                        return fctx[3][idx.value]
                    raise Opaque("args[%d] beyond the %d values handed over" % (idx.value, len(fctx[3])))
                raise Opaque("args index is not a literal")
            raise Opaque("subscript")
        if isinstance(node, ast.Attribute):
            if node.attr == "real":
                v = self.expr_allow_nielsen(m, node.value, env, fctx)
                return V(v.re)
            r = self.resolve_attr(m, node)
            if r[0] == "val":
                return r[1]
            if r[0] == "ext":
                return self.ext_value(r[1])
            if r[0] == "func":
                return FRef(r)
            raise Opaque("attribute resolves to a %s" % r[0])
        if isinstance(node, ast.Call):
            return self.call(m, node, env, fctx, allow_nielsen=False)
        raise Opaque("expression %s" % type(node).__name__)

    def expr_allow_nielsen(self, m, node, env, fctx):
        if isinstance(node, ast.Call):
            return self.call(m, node, env, fctx, allow_nielsen=True)
        return self.expr(m, node, env, fctx)

    def power(self, m, base, expnode):
        if isinstance(expnode, ast.Constant) and isinstance(expnode.value, int) and expnode.value >= 0:
            n = expnode.value
        elif isinstance(expnode, ast.Constant) and isinstance(expnode.value, float) and expnode.value == int(expnode.value) and expnode.value >= 0:
            n = int(expnode.value)
        else:
            raise Opaque("exponent is not a literal natural number")
        if base.im is not None:
            out = V(ONE)
            for _ in range(n):
                out = vmul(out, base)
            return out
        return V(("pow", base.re, n))

    def call(self, m, node, env, fctx, allow_nielsen):
        f = node.func
        if isinstance(f, ast.Name) and f.id == "complex" and len(node.args) == 2:
            a = self.expr(m, node.args[0], env, fctx); b = self.expr(m, node.args[1], env, fctx)
            if a.im is not None or b.im is not None:
                raise Opaque("complex() of complex")
            return V(a.re, b.re)
        if isinstance(f, ast.Name) and isinstance(env.get(f.id), FRef):
            tgt = env[f.id].tgt
        else:
            tgt = self.resolve_attr(m, f) if isinstance(f, ast.Attribute) else self.resolve(m, f.id) if isinstance(f, ast.Name) else None
        if tgt is None:
            raise Opaque("call of a non-name")
        if node.keywords:
            raise Opaque("keyword arguments")
        if tgt[0] == "ext":
            nm = tgt[1]
            args = [self.expr(m, a, env, fctx) for a in node.args] if nm != "numpy.power" else None
            if nm in ("numpy.log", "math.log") and len(args) == 1:
                if args[0].im is not None:
                    raise Opaque("log of a complex value")
                return V(("ln", args[0].re))
            if nm in ("numpy.sqrt", "math.sqrt") and len(args) == 1 and args[0].im is None:
                return V(("sqrt", args[0].re))
            if nm == "numpy.power" and len(node.args) == 2:
                return self.power(m, self.expr(m, node.args[0], env, fctx), node.args[1])
            if nm == "scipy.special.zeta" and len(node.args) == 1 and isinstance(node.args[0], ast.Constant):
                if node.args[0].value == 2:
                    return V(("div", ("pow", ("pi",), 2), C(6)))
                if node.args[0].value == 3:
                    return V(("zeta3",))
            raise Opaque("external call " + nm)
        if tgt[0] != "func":
            raise Opaque("call of a %s" % tgt[0])
        cm, fname = self.mod(tgt[1]), tgt[2]
        # special functions: the model uses the mathematical function, not the Chebyshev code
        if tgt[1].endswith("special") and fname == "li2" or (fname == "li2" and tgt[1].endswith("special.__init__")):
            a = self.expr(m, node.args[0], env, fctx)
            if a.im is not None:
                raise Opaque("li2 of complex")
            return V(("li2", a.re))
        if fname in ("nielsen",) and tgt[1].endswith("special.nielsen"):
            n, p = node.args[0], node.args[1]
            if not (isinstance(n, ast.Constant) and isinstance(p, ast.Constant)):
                raise Opaque("nielsen with non-literal indices")
            a = self.expr(m, node.args[2], env, fctx)
            if a.im is not None:
                raise Opaque("nielsen of complex")
            return V(("snp", int(n.value), int(p.value), a.re), ("snpim", int(n.value), int(p.value), a.re))
        fn = cm.funcs[fname]
        # ordinary kernel call: inline with the actual z and args
        if len(node.args) != len(fn.args.args):
            raise Opaque("call %s with %d args" % (fname, len(node.args)))
        if len(fn.args.args) == 1 and fname in cm.njit:
            return self.function(cm, fname, self.expr(m, node.args[0], env, fctx), [])
        if len(fn.args.args) == 2:
            zv = self.expr(m, node.args[0], env, fctx)
            a1 = node.args[1]
            if fctx and isinstance(a1, ast.Name) and a1.id == fctx[1]:
                argv = fctx[3]
            elif isinstance(a1, ast.Call) and ast.unparse(a1.func) in ("np.array", "numpy.array") and isinstance(a1.args[0], (ast.List, ast.Tuple)):
                argv = [self.expr(m, e, env, fctx) for e in a1.args[0].elts]
            elif isinstance(a1, (ast.List, ast.Tuple)):
                argv = [self.expr(m, e, env, fctx) for e in a1.elts]
            else:
                raise Opaque("args vector of call %s is not the caller's args nor a literal array" % fname)
            return self.function(cm, fname, zv, argv)
        # helper functions with scalar parameters (e.g. wgplg(n, p, z), li2-like wrappers)
        params = [a.arg for a in fn.args.args]
        lenv = {}
        lits = {}
        for p_, a_ in zip(params, node.args):
            if isinstance(a_, ast.Constant) and isinstance(a_.value, int):
                lits[p_] = a_.value
            lenv[p_] = self.expr(m, a_, env, fctx)
        return self.body(cm, fn, lenv, None, lits)

    # -- functions ------------------------------------------------------------------------------
    def function(self, m, fname, zval=None, argvals=None):
        fn = m.funcs[fname]
        if len(fn.args.args) == 1:
            zname, aname = fn.args.args[0].arg, "<no args vector>"
        elif len(fn.args.args) == 2:
            zname, aname = fn.args.args[0].arg, fn.args.args[1].arg
        else:
            raise Opaque("kernel %s does not have the (z[, args]) signature" % fname)
        fctx = (zname, aname, zval if zval is not None else V(("z",)), argvals)
        return self.body(m, fn, {}, fctx, {})

    def body(self, m, fn, env, fctx, lits):
        env = dict(env)
        stmts = list(fn.body)
        if stmts and isinstance(stmts[0], ast.Expr) and isinstance(stmts[0].value, ast.Constant) and isinstance(stmts[0].value.value, str):
            stmts = stmts[1:]
        for st in stmts:
            if isinstance(st, ast.Assign) and len(st.targets) == 1 and isinstance(st.targets[0], ast.Name):
                env[st.targets[0].id] = self.stmt_expr(m, st.value, env, fctx, lits)
            elif isinstance(st, ast.AugAssign) and isinstance(st.target, ast.Name) and st.target.id in env:
                cur, v = env[st.target.id], self.stmt_expr(m, st.value, env, fctx, lits)
                op = {ast.Add: vadd, ast.Sub: vsub, ast.Mult: vmul, ast.Div: vdiv}.get(type(st.op))
                if op is None:
                    raise Opaque("augmented assignment operator")
                env[st.target.id] = op(cur, v)
            elif isinstance(st, ast.Return):
                if st.value is None:
                    raise Opaque("bare return")
                return self.stmt_expr(m, st.value, env, fctx, lits)
            elif isinstance(st, ast.Expr) and isinstance(st.value, ast.Constant):
                continue
            else:
                raise Opaque("statement %s" % type(st).__name__)
        raise Opaque("no return")

    def stmt_expr(self, m, node, env, fctx, lits):
        # nielsen(n, p, x) with n, p bound to literal parameters of a wrapper (wgplg)
        if lits and isinstance(node, ast.Attribute) and node.attr == "real" and isinstance(node.value, ast.Call):
            c = node.value
            if isinstance(c.func, ast.Name) and c.func.id == "nielsen" and all(isinstance(a, ast.Name) and a.id in lits for a in c.args[:2]):
                a = self.expr(m, c.args[2], env, fctx)
                return V(("snp", lits[c.args[0].id], lits[c.args[1].id], a.re))
        return self.expr(m, node, env, fctx)


# ----------------------------------------------------------------------------- analysis on expressions
def arity(e):
    """1 + largest args index read (0 when none)"""
    t = e[0]
    if t == "arg":
        return e[1] + 1
    if t in ("c", "z", "pi", "zeta3"):
        return 0
    if t == "pow":
        return arity(e[1])
    if t in ("snp", "snpim"):
        return arity(e[3])
    return max(arity(x) for x in e[1:] if isinstance(x, tuple))


def size(e):
    return 1 + sum(size(x) for x in e[1:] if isinstance(x, tuple))


def atoms(e, acc=None):
    """set of special atoms used"""
    acc = set() if acc is None else acc
    if e[0] in ("li2", "snp", "sqrt", "ln"):
        acc.add(e[0] if e[0] != "snp" else "snp%d%d" % (e[1], e[2]))
    if e[0] == "snpim":
        acc.add("snpim%d%d" % (e[1], e[2]))
    for x in e[1:]:
        if isinstance(x, tuple):
            atoms(x, acc)
    return acc


# ----------------------------------------------------------------------------- Coq emission
def coq(e):
    t = e[0]
    if t == "c":
        return "(Cst (%d) %d)" % (e[1].numerator, e[1].denominator)
    if t == "z":
        return "Zv"
    if t == "arg":
        return "(Arg %d)" % e[1]
    if t == "pi":
        return "Pi"
    if t == "zeta3":
        return "Zeta3"
    if t in ("add", "sub", "mul", "div"):
        return "(%s %s %s)" % (t.capitalize(), coq(e[1]), coq(e[2]))
    if t == "neg":
        return "(Neg %s)" % coq(e[1])
    if t == "pow":
        return "(PowN %s %d)" % (coq(e[1]), e[2])
    if t == "ln":
        return "(Ln %s)" % coq(e[1])
    if t == "li2":
        return "(Li2 %s)" % coq(e[1])
    if t == "sqrt":
        return "(Sqrt %s)" % coq(e[1])
    if t == "snp":
        return "(Snp %d %d %s)" % (e[1], e[2], coq(e[3]))
    if t == "snpim":
        return "(SnpIm %d %d %s)" % (e[1], e[2], coq(e[3]))
    raise ValueError(t)


def all_kernels(repo):
    """-> list of (dotted module, function name, ('ok', E) | ('opaque', reason))"""
    tr = Translator(repo)
    out = []
    base = os.path.join(repo, "src", PKG)
    for root, _dirs, files in sorted(os.walk(base)):
        for fn in sorted(files):
            if not fn.endswith(".py"):
                continue
            rel = os.path.relpath(os.path.join(root, fn), os.path.join(repo, "src"))[:-3]
            dotted = rel.replace(os.sep, ".")
            if dotted.endswith(".__init__"):
                dotted = dotted[: -len(".__init__")]
            try:
                m = tr.mod(dotted)
            except SyntaxError as e:
                out.append((dotted, "?", ("opaque", "syntax error: %s" % e)))
                continue
            if m is None:
                continue
            for name in sorted(m.njit):
                try:
                    v = tr.function(m, name)
                    if v.im is not None:
                        raise Opaque("complex result")
                    out.append((dotted, name, ("ok", v.re)))
                except Opaque as e:
                    out.append((dotted, name, ("opaque", str(e))))
                except RecursionError:
                    out.append((dotted, name, ("opaque", "recursion")))
    return tr, out


def ident(dotted, name):
    parts = dotted.split(".")
    parts = parts[parts.index("yadism") + 1:]
    if parts and parts[0] == "coefficient_functions":
        parts = parts[1:]
    return "k_" + "_".join(parts + [name])


def kernels_v(repo):
    _tr, ks = all_kernels(repo)
    L = ["(* generated by tools/pyk2coq.py from %s/src/yadism — do not edit *)" % repo,
         "From Coq Require Import ZArith List String.", "From Yad Require Import Expr.", "Import ListNotations.", "Open Scope string_scope.", ""]
    table = []
    for dotted, name, res in ks:
        idn = ident(dotted, name)
        if res[0] == "ok":
            L.append("Definition %s : expr := %s." % (idn, coq(res[1])))
            table.append('  ("%s.%s", Translated %s)' % (dotted, name, idn))
        else:
            table.append('  ("%s.%s", Opaque "%s")' % (dotted, name, res[1].replace('"', "'")))
    L.append("")
    L.append("Definition kernel_table : list (string * kernel_entry) := [")
    L.append(";\n".join(table))
    L.append("].")
    return "\n".join(L) + "\n", ks


if __name__ == "__main__":
    repo = sys.argv[1] if len(sys.argv) > 1 else "/repo"
    tr, ks = all_kernels(repo)
    ok = [k for k in ks if k[2][0] == "ok"]
    print("translated %d / %d" % (len(ok), len(ks)))
    for d, n, r in ks:
        if r[0] != "ok":
            print("  OPAQUE %s.%s: %s" % (d, n, r[1]))
    if "-v" in sys.argv:
        for d, n, r in ok:
            print(d, n, "size", size(r[1]), "arity", arity(r[1]), sorted(atoms(r[1])))
