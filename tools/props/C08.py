"""C08 — FFN0 is the high-virtuality limit of the massive (FFNS) calculation."""
import math
import numpy as np
from lib import common, cards, runs, spec
from corr import wlayer

LEVEL = "proof"
TRUSTED = ["Coq 8.16.1 kernel + vm_compute",
           "PROVED (structural half): on the hand-written Weights/Combiner model, tied by tools/corr/wlayer.py on the real Combiner (FFN0 and FFNS cells), every asymptotic kernel carries "
           "the weights, nf and heavy quark of its massive counterpart",
           "NOT PROVED (analytic half): that each asymptotic coefficient function is the Q2/m2 -> infinity limit of the massive one. The massive NC coefficients are LeProHQ's (third "
           "party), the CC ones are closures over instance state; both are compared on real runs only (patrol: per-order operator difference at Q2/m2 = 1e2, 1e4, 1e6 against a "
           "power-law envelope) — a test, not a proof",
           "NC F2/FL FFN0 cannot be run in this sandbox (adani does not import): those cells are outside the patrol",
           "tools/corr/wlayer.py (harness), real runs through lib/runs.py"]
MASS = {"charm": 1.5, "bottom": 4.5}
RATIOS = (1e2, 1e4, 1e6)
XS = (0.01, 0.1, 0.5)


def envelope(r):
    """generous bound on the relative remainder: 4 m2/Q2 (1 + ln Q2/m2)^2"""
    return 4.0 * (1.0 + math.log(r)) ** 2 / r


CASES_QUICK = [("CC", "F2", "charm", 3, 1, "charm"), ("CC", "F3", "bottom", 3, 1, "bottom"), ("CC", "FL", "charm", 3, 1, "charm"),
               ("NC", "g1", "charm", 3, 1, "charm"), ("NC", "g1", "bottom", 3, 1, "bottom"), ("NC", "F3", "charm", 3, 1, "charm"),
               ("NC", "F3", "light", 3, 2, "charm"), ("NC", "g1", "light", 4, 2, "bottom")]
CASES_MORE = [("CC", "F2", "bottom", 3, 1, "bottom"), ("CC", "FL", "bottom", 4, 1, "bottom"), ("CC", "F3", "charm", 3, 1, "charm"), ("CC", "F2", "bottom", 4, 1, "bottom"),
              ("NC", "g1", "bottom", 4, 1, "bottom"), ("EM", "g1", "charm", 3, 1, "charm"), ("NC", "F3", "light", 4, 2, "bottom"), ("EM", "g1", "light", 3, 2, "charm"),
              ("CC", "FL", "bottom", 3, 1, "bottom"), ("CC", "F3", "charm", 4, 1, "bottom")]


def run_case(c):
    proc, kind, hv, nfff, pto, hq = c
    m = MASS[hq]
    name = kind + "_" + hv
    proj = "neutrino" if proc == "CC" else "electron"
    pts = [dict(x=x, Q2=m * m * r) for r in RATIOS for x in XS]
    res = {}
    for fns in ("FFNS", "FFN0"):
        res[fns] = runs.run(cards.theory_card(FNS=fns, NfFF=nfff, PTO=pto, PTODIS=pto), cards.obs_card({name: pts}, prDIS=proc, ProjectileDIS=proj))
    probs = []
    for o in range(pto + 1):
        key = (o, 0, 0, 0)
        for ir, r in enumerate(RATIOS):
            worst = None
            for ix, x in enumerate(XS):
                i = ir * len(XS) + ix
                a, b = runs.tensor(res["FFNS"][name][i], key), runs.tensor(res["FFN0"][name][i], key)
                if a is None and b is None:
                    continue
                a = np.zeros_like(b) if a is None else a
                b = np.zeros_like(a) if b is None else b
                # per parton row (any PDF): the size of the massive operator over all computed orders sets the scale
                scale = np.max([np.abs(v[0]).max(axis=1) for v in res["FFNS"][name][i].orders.values()], axis=0)
                diff = np.abs(a - b).max(axis=1)
                for row, pid in enumerate(spec.PIDS):
                    if diff[row] == 0.0:
                        continue
                    rel = diff[row] / scale[row] if scale[row] > 0 else float("inf")
                    if rel > envelope(r) and (worst is None or rel > worst["rel"]):
                        worst = dict(order=o, ratio=r, x=x, pid=pid, rel=float(rel), envelope=envelope(r), ffns=[float(v) for v in a[row]], ffn0=[float(v) for v in b[row]])
            if worst:
                probs.append(worst)
    return probs


def classify(c, p):
    """stable key of a failing (configuration, order, parton row)"""
    proc, kind, hv, nfff, pto, hq = c
    if kind in ("F3", "g1") and hv == "light" and proc != "CC" and p["order"] == 2:
        return "limit:NC:missing-nonsinglet-F3-g1:order2"
    return "limit:%s:%s_%s:NfFF%d:order%d" % ("NC" if proc in ("NC", "EM") else proc, kind, hv, nfff, p["order"])


KNOWN_TEXT = {"limit:NC:missing-nonsinglet-F3-g1:order2":
              "NNLO 'missing' non-singlet channel of F3/g1 (NC): massive coefficient (LeProHQ dq1 - Adler) has first moment 0, the FFN0 one (asy/g1_nc_raw.c2ns_*) 16/3 + logs: "
              "FFNS - FFN0 does not vanish with Q2/m2"}


def patrol(chk, cases):
    bad, dist, crashed = 0, {}, {}
    for c in cases:
        k = "%s/%s_%s/NfFF%d/pto%d" % c[:5]
        dist[k] = dist.get(k, 0) + 1
        try:
            probs = run_case(c)
        except Exception as e:
            key = "%s: %s" % (type(e).__name__, str(e)[:60])
            crashed[key] = crashed.get(key, 0) + 1
            continue
        for p in probs[:1]:
            bad += 1
            if classify(c, p) in KNOWN_TEXT:
                chk.violation(classify(c, p), KNOWN_TEXT[classify(c, p)] + " [seen: %s %s_%s NfFF=%d, row %d, x=%r, Q2/m2=%g: %.2e > %.2e]"
                              % (c[0], c[1], c[2], c[3], p["pid"], p["x"], p["ratio"], p["rel"], p["envelope"]), dict(case=list(c), problem=p))
                continue
            chk.violation(classify(c, p),
                          "%s %s_%s NfFF=%d: |FFNS - FFN0| of order a_s^%d does not vanish with Q2/m2: parton row %d at x=%r, Q2/m2=%g: relative difference %.2e > envelope %.2e"
                          % (c[0], c[1], c[2], c[3], p["order"], p["pid"], p["x"], p["ratio"], p["rel"], p["envelope"]), dict(case=list(c), problem=p))
    chk.patrol["ffns_vs_ffn0"] = dict(cases=len(cases), failures=bad, distribution=dist, crashed_not_counted=crashed,
                                      rule="real FFNS and FFN0 runs of the same card at Q2/m2 = 1e2, 1e4, 1e6 (x = 0.01, 0.1, 0.5): per order and per parton row, the difference of the "
                                           "operators relative to the size of the massive operator must stay below 4 (m2/Q2)(1 + ln Q2/m2)^2; CC F2/FL/F3 charm/bottom, NC g1 "
                                           "charm/bottom, NC F3 charm (heavy-quark-initiated rows only), NC F3/g1 light (missing channel) at NNLO")
    return bad


def dilog_hypotheses(chk):
    """the two facts about the dilogarithm the local-part theorems assume, on the implementation the heavy CC closures call (scipy.special.spence(1 - u) = Li2(u)):
    Euler's reflection identity on (0,1) and the derivative -ln(1-u)/u (central difference)"""
    import math
    from scipy.special import spence
    li2 = lambda u: float(spence(1.0 - u))
    worst_r, worst_d, n = 0.0, 0.0, 0
    for i in range(1, 200):
        l = i / 200.0
        worst_r = max(worst_r, abs(li2(l) + li2(1 - l) - (math.pi ** 2 / 6 - math.log(l) * math.log(1 - l))))
        h = 1e-6 * min(l, 1 - l)
        worst_d = max(worst_d, abs((li2(l + h) - li2(l - h)) / (2 * h) - (-math.log(1 - l) / l)) / max(1.0, abs(math.log(1 - l) / l)))
        n += 1
    ok = worst_r <= 1e-12 and worst_d <= 1e-6
    chk.patrol["dilogarithm_hypotheses"] = dict(cases=n, failures=0 if ok else 1, worst_reflection_residual=worst_r, worst_relative_derivative_residual=worst_d,
                                                rule="scipy.special.spence(1-u) at u = k/200: Li2(u) + Li2(1-u) = pi^2/6 - ln u ln(1-u) within 1e-12 and (central difference) Li2' = -ln(1-u)/u within 1e-6")
    if not ok:
        chk.violation("dilog-hypotheses", "the dilogarithm the heavy CC closures call does not satisfy the hypotheses of the local-part theorems: reflection residual %.2e, derivative residual %.2e"
                      % (worst_r, worst_d), dict(reflection=worst_r, derivative=worst_d))


def run(chk):
    chk.trusted = TRUSTED
    quick = chk.tier == "quick"
    common.check_props_file(chk, "C08")
    dilog_hypotheses(chk)
    bad = wlayer.run_combiner(chk, 100 if quick else 1000, fixed=dict(theory=dict(FNS="FFN0"), obs=dict(TargetDIS=dict(Z=1.0, A=1.0))), name="combiner_ffn0")
    chk.oblige("correspondence Combiner, FFN0 cells (kernel list, weights, nf, heavy quark of every kernel)", not bad, str(bad[:1]))
    bad2 = wlayer.run_combiner(chk, 80 if quick else 800, fixed=dict(theory=dict(FNS="FFNS"), obs=dict(TargetDIS=dict(Z=1.0, A=1.0))), name="combiner_ffns")
    chk.oblige("correspondence Combiner, FFNS cells", not bad2, str(bad2[:1]))
    patrol(chk, CASES_QUICK if quick else CASES_QUICK + CASES_MORE)
    if chk.red() and not chk.violations:
        patrol(chk, CASES_MORE)
    if chk.red() and not chk.violations:
        for b in (bad + bad2)[:2]:
            chk.violation("combiner:%s:%s" % (b["cfg"]["theory"]["FNS"], b["cfg"]["kind"]),
                          "Combiner(%s_%s, %s, NfFF=%s, PTO=%s, %s) builds kernels %s which are not those of the model"
                          % (b["cfg"]["kind"], b["cfg"]["heavyness"], b["cfg"]["theory"]["FNS"], b["cfg"]["theory"]["NfFF"], b["cfg"]["theory"]["PTO"], b["cfg"]["obs"]["prDIS"], b["detail"]),
                          dict(combiner=b["cfg"]))
    if chk.red() and not chk.violations:
        chk.violation("unproved", "a theorem or correspondence of C08 no longer checks: %s" % [o[0] for o in chk.red()],
                      dict(red=[(o[0], o[2]) for o in chk.red()]), found_input=False)


def replay(path):
    import json
    r = json.load(open(path))["replay"]
    if "case" in r:
        probs = run_case(tuple(r["case"])); print("replay:", [{k: p[k] for k in ("order", "ratio", "x", "pid", "rel", "envelope")} for p in probs]); return 1 if probs else 0
    if "combiner" in r:
        t, d = wlayer.observe_collect(r["combiner"]); print("replay: the real Combiner builds", d.get("detail")); return 1
    print("replay names a broken theorem/correspondence only"); return 1
