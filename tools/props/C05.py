"""C05 — scale-variation terms satisfy the renormalisation-group equations."""
import numpy as np
from lib import common, cards, runs, spec
from corr import scalevar, assembly

LEVEL = "proof"
TRUSTED = ["Coq 8.16.1 kernel + vm_compute", "tools/corr/scalevar.py (harness)",
           "hand-written model theories/ScaleVar.v tied by correspondence on the real ScaleVariations manager (memo pre-filled)",
           "H3 (composite splitting labels are the products of the LO operators) is not proved; eko's beta and ad_projectors are inputs (betas compared exhaustively)",
           "the patrol uses a FRESH ScaleVariations manager per nf as oracle for the convolved splitting operators"]


def beta0(nf):
    return 11.0 - 2.0 * nf / 3.0


def beta1(nf):
    return 102.0 - 38.0 * nf / 3.0


def fresh_fact(runner, nf, pto):
    """factorisation matrices from a manager that has never seen another nf"""
    from yadism.esf import scale_variations as sv
    m = sv.ScaleVariations(order=pto, interpolator=runner.configs.managers["interpolator"], activate_ren=True, activate_fact=True)
    return m.fact_matrices(nf)


def apply_fact(fm_entry, T, nf):
    """sum_a proj_a^T-rotated rows x (M_a @ grid vector), extended linearly to the tensor T (rows in output pid order)"""
    from eko import basis_rotation as br
    proj = br.ad_projectors(nf, False)
    order = [spec.PIDS.index(p) for p in br.flavor_basis_pids]       # eko pid order -> output row
    Te = np.array(T)[order]                                            # rows in eko order
    out = np.zeros_like(Te)
    for a in range(7):
        out += proj[a].T @ Te @ fm_entry[a].T
    res = np.zeros_like(out)
    for i, r in enumerate(order):
        res[r] = out[i]
    return res


def check_point(res, nf, pto, ren, fact, fm):
    """relations that must hold inside one ESFResult; returns worst violation or None"""
    T = lambda k: runs.tensor(res, k)
    z = lambda k: (T(k) if T(k) is not None else 0.0 * T((0, 0, 0, 0)))
    rel = []
    if ren and pto >= 2:
        for lf in ((0, 1) if fact else (0,)):
            rel.append(("(2,0,1,%d) = -b0 (1,0,0,%d)" % (lf, lf), z((2, 0, 1, lf)), -beta0(nf) * z((1, 0, 0, lf))))
    if ren and pto >= 3:
        rel.append(("(3,0,1,0) = -2 b0 (2,0,0,0) - b1 (1,0,0,0)", z((3, 0, 1, 0)), -2 * beta0(nf) * z((2, 0, 0, 0)) - beta1(nf) * z((1, 0, 0, 0))))
        rel.append(("(3,0,2,0) = b0^2 (1,0,0,0)", z((3, 0, 2, 0)), beta0(nf) ** 2 * z((1, 0, 0, 0))))
    if fact and fm is not None:
        rel.append(("(1,0,0,1) = C0 x P0", z((1, 0, 0, 1)), apply_fact(fm[(1, 1, 0)], z((0, 0, 0, 0)), nf)))
        if pto >= 2:
            # the diff step adds + beta0 * (a_s^1 term) * ln(muF2/muR2), whose L_R^0 part lands on the next lnF power
            rel.append(("(2,0,0,1) = C1 x (P0 - b0) + C0 x P1 + b0 C1", z((2, 0, 0, 1)),
                        apply_fact(fm[(2, 1, 1)], z((1, 0, 0, 0)), nf) + apply_fact(fm[(2, 1, 0)], z((0, 0, 0, 0)), nf) + beta0(nf) * z((1, 0, 0, 0))))
            rel.append(("(2,0,0,2) = 1/2 C0 x (P0 P0 - b0 P0) + b0 (1,0,0,1)", z((2, 0, 0, 2)),
                        apply_fact(fm[(2, 2, 0)], z((0, 0, 0, 0)), nf) + beta0(nf) * z((1, 0, 0, 1))))
    worst = None
    for name, a, b in rel:
        sc = max(1.0, float(np.max(np.abs(b))))
        d = float(np.max(np.abs(a - b)))
        if d > 1e-10 * sc and (worst is None or d / sc > worst["rel"]):
            i, j = np.unravel_index(np.argmax(np.abs(a - b)), a.shape)
            worst = dict(relation=name, pid=spec.PIDS[i], node=int(j), lhs=float(a[i, j]), rhs=float(b[i, j]), rel=d / sc)
    return worst


def gen_case(rng, quick):
    pto = rng.choice([1, 2, 2] if quick else [1, 2, 2, 3])
    # the order of the coefficient functions (PTODIS) is what the scale-variation terms follow; the evolution order (PTO) may be lower
    th = dict(FNS="ZM-VFNS", PTO=pto if rng.random() < 0.6 else pto - 1, PTODIS=pto, kcThr=rng.choice([1.0, 2.0]), kbThr=rng.choice([1.0, 0.75]))
    proc = rng.choice(["NC", "EM", "CC"])
    name = rng.choice(["F2", "FL", "F3"] if proc != "EM" else ["F2", "FL"]) + "_" + rng.choice(["light", "total"])
    mc2, mb2 = (1.5 * th["kcThr"]) ** 2, (4.5 * th["kbThr"]) ** 2
    q2s = [common.dyadic(rng, 1.2, mc2 * 0.99, 8), common.dyadic(rng, mc2 * 1.01, mb2 * 0.99, 8), common.dyadic(rng, mb2 * 1.01, 400.0, 8)]
    rng.shuffle(q2s)
    pts = [dict(x=rng.choice([0.125, 0.25, 0.5]), Q2=q) for q in q2s[: (2 if quick else 3)]]
    return dict(theory=th, obs=dict(prDIS=proc), name=name, points=pts)


def run_case(c):
    pto = c["theory"]["PTODIS"]
    res = {}
    for ren, fact in ((True, True), (True, False), (False, True), (False, False)):
        th = cards.theory_card(RenScaleVar=ren, FactScaleVar=fact, **c["theory"])
        res[(ren, fact)] = runs.run(th, cards.obs_card({c["name"]: c["points"]}, **c["obs"]))[c["name"]]
    th = cards.theory_card(RenScaleVar=True, FactScaleVar=True, **c["theory"])
    r = cards.make_runner(th, cards.obs_card({c["name"]: c["points"]}, **c["obs"]))
    worst = None
    for i, p in enumerate(c["points"]):
        nf = runs.nf_spec(th, p["Q2"])
        fm = fresh_fact(r, nf, pto)
        w = check_point(res[(True, True)][i], nf, pto, True, True, fm)
        if w:
            w["point"] = p; w["nf"] = nf
            worst = w if worst is None or w["rel"] > worst["rel"] else worst
        # switch-off: the off run holds exactly the keys without the switched-off log, with the same values
        on = res[(True, True)][i]
        for (ren, fact) in ((True, False), (False, True), (False, False)):
            off = res[(ren, fact)][i]
            for k in set(on.orders) | set(off.orders):
                dropped = (not ren and k[2] > 0) or (not fact and k[3] > 0)
                a = runs.tensor(off, k); b = runs.tensor(on, k)
                a = a if a is not None else 0.0 * b
                exp = 0.0 * b if dropped else b
                d = float(np.max(np.abs(a - exp)))
                if d > 1e-12 * max(1.0, float(np.max(np.abs(b)))):
                    w = dict(relation="switch-off ren=%s fact=%s key %s" % (ren, fact, list(k)), rel=d, point=p, nf=nf)
                    worst = w if worst is None or w["rel"] > worst["rel"] else worst
        # the same point computed alone (nothing remembered from the other nf regimes of the run)
        alone = runs.run(th, cards.obs_card({c["name"]: [p]}, **c["obs"]))[c["name"]][0]
        cmpw = runs.compare(on, alone, None, 1.0, 1e-13)
        if cmpw:
            w = dict(relation="point in a multi-nf run = point alone, key %s" % cmpw["key"], rel=cmpw["diff"], point=p, nf=nf)
            worst = w if worst is None or w["rel"] > worst["rel"] else worst
    return worst


def patrol(chk, n):
    bad, dist, crashed = [], {}, {}
    # always part of the patrol: coefficient functions one order above the evolution (the scale-variation terms follow PTODIS, not PTO)
    fixed = [dict(theory=dict(FNS="ZM-VFNS", PTO=1, PTODIS=2, kcThr=1.0, kbThr=1.0), obs=dict(prDIS="NC"), name="F2_total",
                  points=[dict(x=0.25, Q2=30.0), dict(x=0.125, Q2=5.0)])]
    for it in range(n + len(fixed)):
        c = fixed[it - n] if it >= n else gen_case(chk.rng, chk.tier == "quick")
        key = "PTODIS%d/PTO%d/%s" % (c["theory"]["PTODIS"], c["theory"]["PTO"], c["obs"]["prDIS"])
        dist[key] = dist.get(key, 0) + 1
        try:
            r = run_case(c)
        except Exception as e:
            k = type(e).__name__ + ":" + str(e)[:50]
            crashed[k] = crashed.get(k, 0) + 1
            continue
        if r is not None:
            bad.append((c, r))
    chk.patrol["rge_on_real_runs"] = dict(cases=n + len(fixed), failures=len(bad), distribution=dist, crashed_not_counted=crashed,
                                          rule="ZM-VFNS runs whose points lie in different nf regimes (shuffled; evolution order PTO equal to or one below PTODIS, one fixed NNLO-on-NLO case), four RenScaleVar/FactScaleVar combinations: muR relations "
                                               "with beta(nf of the point); muF tensors (1,0,0,1), (2,0,0,1), (2,0,0,2) rebuilt from the central tensors with operators of a fresh "
                                               "manager for that nf; switch-off = exact sub-dictionary; each point equals the same point computed alone")
    for c, r in bad[:3]:
        chk.violation("rge:%s:%s" % (r["relation"].split(" ")[0], c["obs"]["prDIS"]), "scale-variation relation fails on a real run: %s" % r, dict(case=c, result=r))
    return bad


def intrinsic_patrol(chk, n):
    """heavy-quark initiated (intrinsic) channels of the massive schemes: compute_local treats them differently (no factorisation log at all,
    renormalisation logs as everybody else) — the rows of the massive quark itself come from those channels only"""
    bad, dist = [], {}
    for i in range(n):
        proc, kind, hq, nfff = [("CC", "F2", "charm", 3), ("NC", "F2", "charm", 3), ("CC", "F3", "charm", 3), ("EM", "FL", "bottom", 4), ("CC", "FL", "charm", 3)][i % 5]
        Q2 = common.dyadic(chk.rng, 8.0, 60.0, 6)
        ren, fact = [(True, True), (True, False), (False, True)][i % 3]
        th = cards.theory_card(FNS="FFNS", NfFF=nfff, PTO=2, PTODIS=2, RenScaleVar=ren, FactScaleVar=fact)
        name = kind + "_" + hq
        dist["%s/%s/ren%d/fact%d" % (proc, name, ren, fact)] = dist.get("%s/%s/ren%d/fact%d" % (proc, name, ren, fact), 0) + 1
        pt = dict(x=chk.rng.choice([0.125, 0.25]), Q2=Q2)
        try:
            res = runs.run(th, cards.obs_card({name: [pt]}, prDIS=proc, ProjectileDIS="neutrino" if proc == "CC" else "electron"))[name][0]
        except Exception:  # noqa
            continue
        pid = {"charm": 4, "bottom": 5}[hq]
        rows = [spec.PIDS.index(pid), spec.PIDS.index(-pid)]
        w = None
        for k in res.orders:
            t = runs.tensor(res, k)
            if k[3] > 0 and float(np.max(np.abs(t[rows]))) > 0.0:
                w = dict(relation="intrinsic rows carry a factorisation log", key=list(k), value=float(np.max(np.abs(t[rows]))))
        if ren:
            a, b = runs.tensor(res, (1, 0, 0, 0)), runs.tensor(res, (2, 0, 1, 0))
            if a is not None:
                b = b if b is not None else 0.0 * a
                d = float(np.max(np.abs(b[rows] + beta0(nfff) * a[rows])))
                if d > 1e-10 * max(1.0, float(np.max(np.abs(a[rows]))) * 11):
                    w = dict(relation="(2,0,1,0) = -beta0 (1,0,0,0) on the rows of the massive quark", diff=d, lhs=float(np.max(np.abs(b[rows]))), rhs=float(beta0(nfff) * np.max(np.abs(a[rows]))))
        if w:
            w.update(point=pt, nf=nfff)
            bad.append((dict(theory=dict(FNS="FFNS", NfFF=nfff, PTO=2, RenScaleVar=ren, FactScaleVar=fact), obs=dict(prDIS=proc), name=name, points=[pt]), w))
    chk.patrol["intrinsic_rows"] = dict(cases=n, failures=len(bad), distribution=dist,
                                        rule="FFNS runs at NNLO (CC/NC/EM, charm/bottom massive): the rows of the massive quark itself (intrinsic channels only) have no lnF term in any key "
                                             "and obey (2,0,1,0) = -beta0(NfFF) (1,0,0,0)")
    for c, r in bad[:2]:
        chk.violation("rge:intrinsic:%s" % c["obs"]["prDIS"], "scale-variation rule for heavy-quark initiated channels fails on a real run (%s, FFNS NfFF=%d): %s" % (c["name"], c["theory"]["NfFF"], r), dict(intrinsic=c, result=r))
    return bad


def moment(rsl, N):
    """N-th Mellin moment of a distribution given as an RSL object"""
    from scipy.integrate import quad
    tot = 0.0
    if rsl.reg is not None:
        tot += quad(lambda z: z ** (N - 1) * rsl.reg(z, rsl.args["reg"]), 0, 1, epsabs=1e-12, limit=400)[0]
    if rsl.sing is not None:
        tot += quad(lambda s: 2 * s * ((1 - s * s) ** (N - 1) - 1) * rsl.sing(1 - s * s, rsl.args["sing"]) if s > 0 else 0.0, 0, 1, epsabs=1e-12, limit=400)[0]
    if rsl.loc is not None:
        tot += rsl.loc(0.0, rsl.args["loc"])
    return tot


def h3_patrol(chk):
    """H3 (not proved): the composite labels are the Mellin convolutions of the LO splitting functions — tested through moments"""
    from yadism.coefficient_functions import splitting_functions as split
    labs = {lab: fnc for ol in split.raw_labels for lab, fnc in ol.items()}
    pairs = {"P_qq_0^2": ("P_qq_0", "P_qq_0"), "P_qg_0P_gq_0": ("P_qg_0", "P_gq_0"), "P_qq_0P_qg_0": ("P_qq_0", "P_qg_0"), "P_qg_0P_gg_0": ("P_qg_0", "P_gg_0")}
    bad, n = [], 0
    for nf in (3, 4, 5, 6):
        for N in (2.0, 3.0, 4.5, 8.0):
            m = {l: moment(labs[l](nf), N) for l in set(pairs) | {x for p in pairs.values() for x in p}}
            for lab, (a, b) in pairs.items():
                n += 1
                if abs(m[lab] - m[a] * m[b]) > 1e-7 * max(1.0, abs(m[lab])):
                    bad.append(dict(label=lab, nf=nf, N=N, moment=m[lab], product=m[a] * m[b]))
    chk.patrol["H3_moments"] = dict(cases=n, failures=len(bad), rule="hypothesis H3 of the C05 theorems (not proved): Mellin moments N = 2, 3, 4.5, 8 of the composite splitting kernels "
                                                                     "P_qq_0^2, P_qg_0 P_gq_0, P_qq_0 P_qg_0, P_qg_0 P_gg_0 equal the products of the LO moments, nf = 3..6, 1e-7 — a test")
    for b in bad[:2]:
        chk.violation("h3:%s" % b["label"], "splitting kernel %s is not the convolution of its LO factors: moment N=%s (nf=%d) is %r, the product of the factors' moments %r"
                      % (b["label"], b["N"], b["nf"], b["moment"], b["product"]), dict(h3=b))
    return bad


def run(chk):
    chk.trusted = TRUSTED
    quick = chk.tier == "quick"
    common.check_props_file(chk, "C05")
    h3_patrol(chk)
    intrinsic_patrol(chk, 6 if chk.tier == "quick" else 30)
    bad = scalevar.run_scalevar(chk, 50 if quick else 600)
    chk.oblige("correspondence ScaleVariations (model = real manager, multi-nf sequences)", not bad, str(bad[:1])[:600])
    bad_a = assembly.run_assembly(chk, 60 if quick else 600)
    chk.oblige("correspondence compute_local (the real assembly step incl. the intrinsic branch = sv_kernel + tensor_at)", not bad_a, str(bad_a[:1])[:600])
    for b in bad_a[:2]:
        chk.violation("assembly:%s:pto%d" % ("intrinsic" if b["intrinsic"] else "light", b["pto"]),
                      "compute_local (pto %d, nf %d, ren=%s, fact=%s, %s kernel with orders %s, convolution point %s, x = %s) does not produce the tensors of the model: keys %s %s"
                      % (b["pto"], b["nf"], b["ren"], b["fact"], "heavy-quark initiated" if b["intrinsic"] else "ordinary", b["orders"], b["cp"], b["x"], b["keys"], b["error"] or ""), dict(assembly=b))
    patrol(chk, 5 if quick else 60)
    if chk.red() and not chk.violations:
        patrol(chk, 40)
    if chk.red() and not chk.violations:
        chk.violation("unproved", "a theorem or correspondence of C05 no longer checks: %s" % [o[0] for o in chk.red()],
                      dict(red=[(o[0], o[2]) for o in chk.red()]), found_input=False)


def replay(path):
    import json
    r = json.load(open(path))
    if "intrinsic" in r["replay"]:
        c = r["replay"]["intrinsic"]
        th = cards.theory_card(**c["theory"], PTODIS=c["theory"]["PTO"])
        res = runs.run(th, cards.obs_card({c["name"]: c["points"]}, prDIS=c["obs"]["prDIS"], ProjectileDIS="neutrino" if c["obs"]["prDIS"] == "CC" else "electron"))[c["name"]][0]
        print("replay: keys and max |rows of the massive quark|:", {str(k): float(np.max(np.abs(runs.tensor(res, k)[[spec.PIDS.index(4), spec.PIDS.index(-4)]]))) for k in res.orders}); return 1
    c = r["replay"].get("case")
    if not c:
        print("replay names a broken theorem/correspondence only:", r["what"]); return 1
    res = run_case(c)
    print("replay:", res)
    return 1 if res else 0
