"""C02 — LO parton model and electroweak/CKM weights."""
import numpy as np
from fractions import Fraction as Fr
from lib import common, cards, runs, spec
from corr import wlayer

LEVEL = "proof"
TRUSTED = ["Coq 8.16.1 kernel + vm_compute", "tools/corr/wlayer.py (harness, float->rational conversion)",
           "hand-written model theories/Couplings.v, Weights.v, Combiner.v tied by correspondence only",
           "specification theories/PDG.v (PDG review formulas)", "tools/tables.py (class inventory translator)"]


def lo_case(rng):
    th, ob = wlayer.rand_ew(rng)
    th.update(FNS="ZM-VFNS", PTO=0, PTODIS=0, mc=common.dyadic(rng, 1.0, 2.0, 4), mb=common.dyadic(rng, 3.0, 6.0, 4),
              mt=common.dyadic(rng, 100.0, 200.0, 4), kcThr=rng.choice([1.0, 0.5, 2.0]), kbThr=rng.choice([1.0, 2.0]), ktThr=1.0)
    proc = ob["prDIS"]
    if proc == "CC":
        ob["NCPositivityCharge"] = None
        kind = rng.choice(["F2", "F3", "FL"])
    else:
        if ob["ProjectileDIS"] in ("neutrino", "antineutrino"):
            ob["ProjectileDIS"] = rng.choice(["electron", "positron"])
        kind = rng.choice(["F2", "F3", "g1", "g4", "FL", "gL"])
    heavy = rng.choice(["total", "light", "charm", "bottom", "top"])
    Q2 = rng.choice([common.dyadic(rng, 1.0, 64.0, 8), common.dyadic(rng, 1.0, 40000.0, 12), (th["mb"] * th["kbThr"]) ** 2])
    xg = cards.obs_card({})["interpolation_xgrid"]
    k = rng.randrange(1, len(xg) - 1)
    return dict(theory=th, obs=ob, kind=kind, heavyness=heavy, Q2=Q2, node=k, x=xg[k],
                degree=rng.choice([1, 2, 3, 4]), is_log=rng.choice([True, False]))


def lo_check(case):
    """run the real code at LO on a grid node and compare with the PDG parton-model expression.
    returns None when fine, else a description"""
    th = cards.theory_card(**case["theory"])
    name = case["kind"] + "_" + case["heavyness"]
    ob = cards.obs_card({name: [dict(x=case["x"], Q2=case["Q2"])]}, degree=case["degree"], is_log=case["is_log"], **case["obs"])
    try:
        out = runs.run(th, ob)
    except Exception as e:  # a crash is C16's business, not a wrong LO weight
        return dict(crashed=type(e).__name__ + ": " + str(e)[:80])
    t = runs.tensor(out[name][0], (0, 0, 0, 0))
    nf = runs.nf_spec(th, case["Q2"])
    if case["kind"] in ("FL", "gL"):
        w = {}
    else:
        w = spec.lo_weights(th, ob, case["kind"], case["heavyness"], nf, case["Q2"])
    n = len(ob["interpolation_xgrid"])
    worst = None
    for i, pid in enumerate(spec.PIDS):
        for j in range(n):
            exp = float(w.get(pid, 0)) * case["x"] if j == case["node"] else 0.0
            got = 0.0 if t is None else float(t[i][j])
            if abs(got - exp) > 1e-10 * max(1.0, abs(exp)):
                if worst is None or abs(got - exp) > worst["diff"]:
                    worst = dict(pid=pid, j=j, expected=exp, observed=got, diff=abs(got - exp), nf=nf)
    return worst


def patrol(chk, n):
    bad, kinds, crashed = [], {}, {}
    for _ in range(n):
        c = lo_case(chk.rng)
        key = "%s/%s/%s" % (c["obs"]["prDIS"], c["kind"], c["heavyness"])
        kinds[key] = kinds.get(key, 0) + 1
        r = lo_check(c)
        if r is not None and "crashed" in r:
            crashed[r["crashed"]] = crashed.get(r["crashed"], 0) + 1
        elif r is not None:
            bad.append((c, r))
    chk.patrol["lo_runs"] = dict(cases=n, failures=len(bad), distribution=kinds, crashed_not_counted=crashed,
                                 rule="real run_yadism at PTO 0, ZM-VFNS, x on a grid node, all 14x n entries compared with "
                                      "x * PDG weight * Kronecker delta (tools/lib/spec.py, exact rationals), tol 1e-10")
    for c, r in bad[:3]:
        chk.violation("lo:%s_%s:%s:%s:pid%d" % (c["kind"], c["heavyness"], c["obs"]["prDIS"], c["obs"]["ProjectileDIS"], r["pid"]),
                      "LO operator entry differs from the parton-model weight: %s" % r, dict(case=c, result=r))
    return bad


def run(chk):
    chk.trusted = TRUSTED
    quick = chk.tier == "quick"
    common.check_props_file(chk, "C02")
    bad = wlayer.run_couplings(chk, 40 if quick else 400)
    chk.oblige("correspondence couplings (model = CouplingConstants)", not bad, str(bad[:1]))
    bad2 = wlayer.run_combiner(chk, 150 if quick else 1500, fixed=dict(theory=dict(PTO=0, PTODIS=0)), name="combiner_lo")
    chk.oblige("correspondence combiner at PTO 0 (model = Combiner.collect_elems)", not bad2, str(bad2[:1]))
    patrol(chk, 150 if quick else 1500)
    if chk.red() and not chk.violations:
        # widen the search before giving up
        patrol(chk, 1500)
    if chk.red() and not chk.violations:
        chk.violation("unproved", "a theorem or correspondence of C02 no longer checks: %s" % [o[0] for o in chk.red()],
                      dict(red=[(o[0], o[2]) for o in chk.red()], disagreements=(bad + bad2)[:3]), found_input=False)


def replay(path):
    import json
    r = json.load(open(path))
    c = r["replay"].get("case")
    if not c:
        print("replay names a broken theorem/correspondence only:", r["what"]); return 1
    res = lo_check(c)
    print("replay:", res)
    return 1 if res else 0
