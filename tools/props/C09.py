"""C09 — heavy-quark production respects its kinematic threshold."""
import numpy as np
from lib import common, cards, runs, spec
from corr import thresholds_hq, wlayer

LEVEL = "proof"
TRUSTED = ["Coq 8.16.1 kernel + vm_compute", "tools/corr/thresholds_hq.py, tools/corr/wlayer.py (harnesses)",
           "hand-written model theories/HeavyThr.v (threshold test, decorator, closure shape, slow-rescaling point, empty-domain rule of conv.convolution) tied by correspondence "
           "on every class of heavy/*_nc.py and heavy/*_cc.py; LeProHQ's coefficient functions are an oracle (any function)",
           "which heavy-quark mass a channel is built with is part of the Combiner model (corr/wlayer: the heavy quark of every kernel is compared)"]


def gen_case(rng, quick):
    kind = rng.choice(["F2", "FL"])
    hq, m = rng.choice([("charm", 1.5), ("bottom", 4.5)])
    pto = 1 if quick else rng.choice([1, 1, 2])
    Q2 = rng.choice([4.0, 10.0, 30.0, 90.0])
    xthr = 1.0 / (1.0 + 4 * m * m / Q2)
    xs = [xthr * 1.02, min(0.97, xthr * 1.3), float(np.nextafter(xthr, 1.0)), xthr * 0.9]
    return dict(kind=kind, hq=hq, m=m, pto=pto, Q2=Q2, xs=[x for x in xs if x < 1.0], xthr=xthr, proc=rng.choice(["EM", "NC"]))


def run_case(c):
    th = cards.theory_card(FNS="FFNS", NfFF=3, PTO=c["pto"], PTODIS=c["pto"], IC=1)
    name = c["kind"] + "_" + c["hq"]
    xg = sorted(set([1e-3, 0.01, 0.1, 0.3, 0.6, 0.8, 1.0]))
    out = runs.run(th, cards.obs_card({name: [dict(x=x, Q2=c["Q2"]) for x in c["xs"]]}, prDIS=c["proc"], xgrid=xg, degree=2))
    hqpid = {"charm": 4, "bottom": 5}[c["hq"]]
    worst = None
    for x, res in zip(c["xs"], out[name]):
        below = c["Q2"] * (1 - x) / x <= 4 * c["m"] ** 2
        for k, (v, _e) in res.orders.items():
            v = np.array(v)
            for i, pid in enumerate(spec.PIDS):
                if abs(pid) == hqpid:
                    continue            # heavy-quark initiated (intrinsic) rows have no threshold
                mx = float(np.max(np.abs(v[i])))
                if below and mx != 0.0:
                    worst = dict(x=x, key=list(k), pid=pid, value=mx, why="non-zero although W^2 <= 4 m^2 (x_threshold = %.6f)" % c["xthr"])
        if not below:
            # above threshold the pair-production rows must be there (gluon row at NLO)
            g = np.array(res.orders[(1, 0, 0, 0)][0])[spec.PIDS.index(21)] if (1, 0, 0, 0) in res.orders else None
            if g is not None and float(np.max(np.abs(g))) == 0.0 and x < c["xthr"] * 0.95:
                worst = worst or dict(x=x, why="gluon row identically zero above the threshold")
    return worst


def cc_case(rng):
    m = 1.5
    Q2 = rng.choice([1.0, 3.0, 9.0])
    xr = 1.0 / (1.0 + m * m / Q2)            # x (1 + m2/Q2) = 1
    return dict(Q2=Q2, m=m, xs=[xr * 0.8, float(np.nextafter(xr, 0.0)) * (1 - 1e-9), xr, min(0.99, xr * 1.1)], xr=xr, kind=rng.choice(["F2", "FL", "F3"]))


def run_cc(c):
    th = cards.theory_card(FNS="FFNS", NfFF=3, PTO=1, PTODIS=1, IC=0, mc=c["m"])
    name = c["kind"] + "_charm"
    out = runs.run(th, cards.obs_card({name: [dict(x=x, Q2=c["Q2"]) for x in c["xs"]]}, prDIS="CC", ProjectileDIS="neutrino",
                                     xgrid=[1e-3, 0.01, 0.1, 0.3, 0.6, 0.8, 1.0], degree=2))
    worst = None
    for x, res in zip(c["xs"], out[name]):
        beyond = x * (1 + c["m"] ** 2 / c["Q2"]) >= 1.0
        rows = [i for i, pid in enumerate(spec.PIDS) if abs(pid) != 4]      # charm-initiated (intrinsic) rows have no such limit
        mx = max(float(np.max(np.abs(np.array(v)[rows]))) for v, _e in res.orders.values())
        if beyond and mx != 0.0:
            worst = dict(x=x, value=mx, why="non-zero although x (1 + m2/Q2) >= 1")
        if not beyond and x < c["xr"] * 0.9 and mx == 0.0:
            worst = worst or dict(x=x, why="identically zero below the slow-rescaling limit")
    return worst


def missing_channel_search(chk):
    """only when something is red: the NNLO "missing" channel of a quark far below its threshold must contribute nothing.
    FFNS NfFF=4 (bottom and top massive) against FONLL-FFNS NfFF=4 (only bottom): equal while W^2 <= 4 mt^2."""
    for kind in ("F2", "FL"):
        pts = [dict(x=0.1, Q2=20.0), dict(x=0.3, Q2=20.0)]
        res = {}
        for fns in ("FFNS", "FONLL-FFNS"):
            th = cards.theory_card(FNS=fns, NfFF=4, PTO=2, PTODIS=2)
            res[fns] = runs.run(th, cards.obs_card({kind + "_light": pts}, prDIS="EM"))[kind + "_light"]
        for p, a, b in zip(pts, res["FFNS"], res["FONLL-FFNS"]):
            w = runs.compare(a, b, None, 1.0, 1e-12)
            if w:
                chk.violation("threshold:missing-top:%s" % kind, "%s_light at x=%s Q2=%s (W^2 = %.0f << 4 mt^2) changes when the top quark is removed: order %s differs by %.3g"
                              % (kind, p["x"], p["Q2"], p["Q2"] * (1 - p["x"]) / p["x"], w["key"], w["diff"]), dict(kind=kind, point=p, result=w))
                return


def exact_threshold_missing(chk):
    """W^2 = 4 m^2 exactly (x = 1/2, Q2 = 4 m^2; x = 1/5, Q2 = m^2): the pair cannot be produced, so the NNLO light operator (whose
    "missing" channel has a local term) must not know the mass: the same run with a heavier quark gives the same operator"""
    n, bad = 0, 0
    for kind in ("F2", "FL"):
        for x, fac in ((0.5, 4.0), (0.2, 1.0)):
            n += 1
            m = 1.5
            pt = [dict(x=x, Q2=fac * m * m)]
            res = [runs.run(cards.theory_card(FNS="FFNS", NfFF=3, PTO=2, PTODIS=2, mc=mc), cards.obs_card({kind + "_light": pt}, prDIS="EM"))[kind + "_light"][0] for mc in (m, 1.6)]
            w = runs.compare(res[0], res[1], None, 1.0, 1e-12)
            if w:
                bad += 1
                chk.violation("threshold:exact:%s" % kind, "%s_light FFNS NNLO at x=%s, Q2=%s = %s mc^2 (W^2 = 4 mc^2 exactly): the operator depends on mc although the charm pair cannot be produced: order %s differs by %.3g"
                              % (kind, x, pt[0]["Q2"], fac, w["key"], w["diff"]), dict(kind=kind, point=pt[0], result=w))
    chk.patrol["exactly_at_threshold"] = dict(cases=n, failures=bad, rule="F2/FL_light FFNS NNLO exactly at W^2 = 4 mc^2 (two dyadic points): identical to the run with a heavier charm quark")
    return bad


def patrol(chk, n):
    bad, dist, crashed = [], {}, {}
    for i in range(n):
        if i % 3 == 2:
            c = cc_case(chk.rng); fn = run_cc; key = "CC/" + c["kind"]
        else:
            c = gen_case(chk.rng, chk.tier == "quick"); fn = run_case; key = "%s/%s_%s/PTO%d" % (c["proc"], c["kind"], c["hq"], c["pto"])
        dist[key] = dist.get(key, 0) + 1
        try:
            r = fn(c)
        except Exception as e:  # noqa
            k = type(e).__name__ + ":" + str(e)[:60]
            crashed[k] = crashed.get(k, 0) + 1
            continue
        if r is not None:
            bad.append((key, c, r))
    chk.patrol["operator_rows_across_thresholds"] = dict(cases=n, failures=len(bad), distribution=dist, crashed_not_counted=crashed,
                                                         rule="FFNS runs of F2/FL_charm, _bottom (NC/EM) at x just below / one ulp above / above the hadronic threshold: every row of a "
                                                              "non-heavy parton must be exactly 0 when W^2 <= 4 m^2; CC F2/FL/F3_charm at x around 1/(1+m2/Q2): exactly 0 beyond")
    for key, c, r in bad[:3]:
        chk.violation("threshold:%s" % key, "threshold not respected: %s" % r, dict(case=c, result=r))
    return bad


def run(chk):
    chk.trusted = TRUSTED
    quick = chk.tier == "quick"
    common.check_props_file(chk, "C09")
    common.silence_yadism()
    exact_threshold_missing(chk)
    bad = thresholds_hq.run_thresholds_hq(chk, 60 if quick else 600)
    chk.oblige("correspondence heavy thresholds (model = every class of heavy/*_nc.py, heavy/*_cc.py)", not bad, str(bad[:2])[:500])
    for b in bad[:3]:
        # a disagreement here IS a failing input: a class, a kinematic point, and what the real object did there
        what = ("beyond the partonic threshold: %s" % b["nonzero_beyond_partonic_threshold"]) if b.get("nonzero_beyond_partonic_threshold") else \
               ("%d of %d orders empty at x=%r (threshold x=%r)" % (b.get("empty", -1), b.get("orders_seen", -1), b["x"], b.get("x_threshold")) if "x_threshold" in b else str(b))
        chk.violation("heavy-threshold:%s" % (b.get("nonzero_beyond_partonic_threshold") or [dict(cls="emptiness")])[0]["cls"],
                      "heavy-quark channel does not respect its threshold at Q2=%r, m2=%r, x=%r: %s" % (b["Q2"], b["m2"], b["x"], what), dict(threshold_case=b))
    bad2 = wlayer.run_combiner(chk, 120 if quick else 1500, fixed=dict(theory=dict(FNS="FFNS")), name="combiner_ffns")
    chk.oblige("correspondence combiner in FFNS (which heavy-quark mass each channel is built with)", not bad2, str(bad2[:1])[:500])
    patrol(chk, 9 if quick else 90)
    if chk.red() and not chk.violations:
        patrol(chk, 45)
    if chk.red() and not chk.violations:
        missing_channel_search(chk)
    if chk.red() and not chk.violations:
        chk.violation("unproved", "a theorem or correspondence of C09 no longer checks: %s" % [o[0] for o in chk.red()][:5],
                      dict(red=[(o[0], o[2]) for o in chk.red()][:8], disagreements=(bad + bad2)[:2]), found_input=False)


def replay(path):
    import json
    r = json.load(open(path))
    c = r["replay"].get("case")
    if not c:
        print("replay names a broken theorem/correspondence only:", r["what"]); return 1
    res = run_cc(c) if "xr" in c else run_case(c)
    print("replay:", res)
    return 1 if res else 0
