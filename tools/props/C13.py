"""C13 — symmetry and decoupling relations between processes and beams."""
import copy
from lib import common, cards, runs, spec
from corr import wlayer

LEVEL = "proof"
TRUSTED = ["Coq 8.16.1 kernel + vm_compute", "tools/corr/wlayer.py (harness)",
           "hand-written model theories/Couplings.v, Weights.v, Combiner.v tied by correspondence only",
           "lifting from weights to results relies on the kernel list depending on the beam only through the weights (checked by corr combiner)"]
ANTI = {"electron": "positron", "positron": "electron", "neutrino": "antineutrino", "antineutrino": "neutrino"}


def base_case(rng, quick):
    th, ob = wlayer.rand_ew(rng)
    pto = rng.choice([0, 1, 1, 2] if quick is True else ([2, 3, 3] if quick == "wide" else [0, 1, 2, 2, 3]))
    th.update(FNS="ZM-VFNS", PTO=pto, PTODIS=pto, RenScaleVar=rng.random() < 0.5, FactScaleVar=rng.random() < 0.5,
              kcThr=rng.choice([1.0, 0.5]), kbThr=1.0, ktThr=1.0)
    ob["NCPositivityCharge"] = None
    return th, ob, pto


def rel_cases(rng, quick):
    """one random instance of each relation: (name, (theory,obs) A, (theory,obs) B, row_map, sign-rule)"""
    out = []
    Q2 = rng.choice([common.dyadic(rng, 2.0, 64.0, 6), common.dyadic(rng, 30.0, 20000.0, 8)])
    x = rng.choice([0.125, 0.25, 0.5, 0.015625, common.dyadic(rng, 0.01, 0.9, 10)])
    # (a) positron(P) = electron(-P)
    th, ob, pto = base_case(rng, quick)
    ob["prDIS"] = rng.choice(["NC", "NC", "EM"]); ob["ProjectileDIS"] = "positron"
    kind = rng.choice(["F2", "FL", "F3", "g1", "g4", "gL"])
    if kind.startswith("g") and pto == 3:
        th.update(PTO=2, PTODIS=2)
    ob2 = dict(ob, ProjectileDIS="electron", PolarizationDIS=-ob["PolarizationDIS"])
    out.append(("positron_flip", kind + "_" + rng.choice(["total", "light"]), th, ob, th, ob2, None, 1.0))
    # (b) Z decoupled
    th, ob, pto = base_case(rng, quick)
    ob["prDIS"] = "NC"; ob["ProjectileDIS"] = rng.choice(["electron", "positron"])
    kind = rng.choice(["F2", "FL", "g1"])
    if kind.startswith("g") and pto == 3:
        th.update(PTO=2, PTODIS=2)
    thb = dict(th, MZ=2.0 ** 40)
    out.append(("z_decoupled", kind + "_total", thb, ob, thb, dict(ob, prDIS="EM"), None, 1.0))
    # (c) CC conjugation
    th, ob, pto = base_case(rng, quick)
    ob["prDIS"] = "CC"; ob["ProjectileDIS"] = rng.choice(["neutrino", "antineutrino", "electron", "positron"])
    kind = rng.choice(["F2", "FL", "F3"])
    hv = rng.choice(["total", "light", "charm", "total"])
    if hv == "charm" and kind == "F3":
        hv = "light"   # F3_charm CC crashes on the pinned tree (KeyError 's', C16's business)
    # the conjugation holds on every target (the isospin rotation treats quarks and antiquarks alike) and in the massive scheme as well
    ob["TargetDIS"] = rng.choice(["proton", "neutron", "isoscalar", "iron"])
    if rng.random() < 0.4 and pto <= 1:
        th.update(FNS="FFNS", NfFF=3)
    out.append(("cc_conjugation", kind + "_" + hv, th, ob, th, dict(ob, ProjectileDIS=ANTI[ob["ProjectileDIS"]]),
                runs.conj, -1.0 if kind == "F3" else 1.0))
    # (d) equal-charge swap, massless scheme
    th, ob, pto = base_case(rng, quick)
    ob["prDIS"] = rng.choice(["NC", "EM"]); ob["ProjectileDIS"] = rng.choice(["electron", "positron"])
    kind = rng.choice(["F2", "FL", "F3", "g1"])
    if kind.startswith("g") and pto == 3:
        th.update(PTO=2, PTODIS=2)
    nf = runs.nf_spec(cards.theory_card(**th), Q2)
    pairs = [(1, 3)] + ([(2, 4)] if nf >= 4 else []) + ([(1, 5), (3, 5)] if nf >= 5 else [])
    # also for a heavy-flavour-tagged observable in the massless scheme (the tagged quark couples, all active quarks share the singlet weight):
    # there the charm row is NOT the up row (only charm has the non-singlet part), so only pairs of untagged quarks are compared
    hv = rng.choice(["total", "total", "charm"]) if nf >= 5 else "total"
    if hv == "charm":
        pairs = [pr for pr in pairs if 4 not in pr]
    a, b = rng.choice(pairs)
    sw = swap_map(a, b)
    out.append(("equal_charge_swap", kind + "_" + hv, th, ob, th, ob, sw, 1.0))
    return [(n, name, x, Q2, tA, oA, tB, oB, m, s) for (n, name, tA, oA, tB, oB, m, s) in out]


def swap_map(a, b):
    sw = lambda pid, a=a, b=b: {a: b, b: a, -a: -b, -b: -a}.get(pid, pid)
    sw.pair = (a, b)
    return sw


def run_rel(rel):
    n, name, x, Q2, tA, oA, tB, oB, m, s = rel
    A = runs.run(cards.theory_card(**tA), cards.obs_card({name: [dict(x=x, Q2=Q2)]}, **oA))
    B = A if (tA is tB and oA is oB) else runs.run(cards.theory_card(**tB), cards.obs_card({name: [dict(x=x, Q2=Q2)]}, **oB))
    tol = 1e-9 if n == "z_decoupled" else 1e-11
    return runs.compare(A[name][0], B[name][0], m, s, tol)


def describe(rel):
    n, name, x, Q2, tA, oA, tB, oB, m, s = rel
    return dict(relation=n, observable=name, x=x, Q2=Q2, theoryA=tA, obsA=oA, theoryB=tB, obsB=oB, sign=s, pair=list(getattr(m, "pair", ())))


def patrol(chk, n, wide=False):
    dist, bad, crashed = {}, [], {}
    # always part of the patrol: the conjugation in the massive scheme at NLO, where the heavy-quark gluon channel (its own weight builder) contributes
    fixed = []
    if not wide:
        th0 = dict(FNS="FFNS", NfFF=3, PTO=1, PTODIS=1, RenScaleVar=False, FactScaleVar=False)
        ob0 = dict(prDIS="CC", ProjectileDIS="neutrino", PolarizationDIS=0.0, PropagatorCorrection=0.0, NCPositivityCharge=None, TargetDIS="proton")
        for name, sgn in (("F3_total", -1.0), ("F2_charm", 1.0)):
            fixed.append(("cc_conjugation", name, 0.25, 30.0, th0, ob0, th0, dict(ob0, ProjectileDIS="antineutrino"), runs.conj, sgn))
    for it in range(n + 1):
        for rel in (fixed if it == n else rel_cases(chk.rng, "wide" if wide else chk.tier == "quick")):
            dist[rel[0]] = dist.get(rel[0], 0) + 1
            try:
                r = run_rel(rel)
            except Exception as e:
                crashed[type(e).__name__] = crashed.get(type(e).__name__, 0) + 1
                continue
            if r is not None:
                bad.append((rel, r))
    chk.patrol["run_pairs_n3lo" if wide else "run_pairs"] = dict(cases=sum(dist.values()), failures=len(bad), distribution=dist, crashed_not_counted=crashed,
                                   rule="pairs of real runs (ZM-VFNS, PTO 0..3, scale variations on/off), every order key and all 14 rows compared: "
                                        "e+(P) vs e-(-P); NC with MZ=2^40 vs EM; CC beam vs anti-beam on conjugated rows (F3 sign); rows of equal-charge quarks")
    for rel, r in bad[:3]:
        chk.violation("%s:%s:%s" % (rel[0], rel[1], rel[5]["prDIS"]), "relation %s fails on %s: key %s pid %s diff %.3g"
                      % (rel[0], rel[1], r["key"], r["pid"], r["diff"]), dict(case=describe(rel), result=r))
    return bad


def run(chk):
    chk.trusted = TRUSTED
    quick = chk.tier == "quick"
    common.check_props_file(chk, "C13")
    bad = wlayer.run_couplings(chk, 30 if quick else 300)
    chk.oblige("correspondence couplings (model = CouplingConstants)", not bad, str(bad[:1]))
    bad2 = wlayer.run_combiner(chk, 150 if quick else 1500, fixed=dict(theory=dict(FNS="ZM-VFNS")), name="combiner_zm")
    chk.oblige("correspondence combiner, ZM-VFNS (model = Combiner.collect_elems)", not bad2, str(bad2[:1]))
    patrol(chk, 12 if quick else 120)
    if chk.red() and not chk.violations:
        patrol(chk, 60, wide=True)      # N3LO included (the fl11 flavour class only exists there)
    if chk.red() and not chk.violations:
        chk.violation("unproved", "a theorem or correspondence of C13 no longer checks: %s" % [o[0] for o in chk.red()],
                      dict(red=[(o[0], o[2]) for o in chk.red()], disagreements=(bad + bad2)[:3]), found_input=False)


def replay(path):
    import json
    r = json.load(open(path))
    c = r["replay"].get("case")
    if not c:
        print("replay names a broken theorem/correspondence only:", r["what"]); return 1
    m = {"cc_conjugation": runs.conj}.get(c["relation"])
    if c["relation"] == "equal_charge_swap":
        if not c.get("pair"):
            print("replay file predates the recording of the swapped pair"); return 1
        m = swap_map(*c["pair"])
        c["theoryB"], c["obsB"] = c["theoryA"], c["obsA"]
    res = run_rel((c["relation"], c["observable"], c["x"], c["Q2"], c["theoryA"], c["obsA"], c["theoryB"], c["obsB"], m, c["sign"]))
    print("replay:", res)
    return 1 if res else 0
