"""C19 — predictions are stable under refinement of the interpolation grid."""
import math
import numpy as np
from lib import common, cards, runs, spec
from corr import interp

LEVEL = "proof"
TRUSTED = ["Coq 8.16.1 kernel + vm_compute (the C19 theorems are over an abstract field: closed under the global context)",
           "theories/Interp.v is a hand-written model of eko's basis (third party) tied by tools/corr/interp.py",
           "PROVED: the algebraic core only (exactness on polynomials up to the degree on every area of every grid, partition of unity, continuity of every basis function at "
           "the nodes, Kronecker property). NOT PROVED: the analytic convergence statement for smooth PDFs through the convolution integral — explored on real runs by the patrol "
           "(pairs of grids, node vs displaced x), which is a test, not a proof",
           "tools/corr/interp.py (harness); toy PDFs x^-a (1-x)^b; tolerances of the refinement comparison are calibrated on the unchanged tree (see DESIGN 0.3)"]


def toy_pdf(pid, x):
    if pid == 21:
        return 3.0 * x ** -1.1 * (1 - x) ** 5
    if pid == 22 or abs(pid) == 6:
        return 0.0
    if pid in (1, 2):
        return (1.5 if pid == 2 else 0.9) * x ** -0.5 * (1 - x) ** 3 + 0.2 * x ** -1.1 * (1 - x) ** 7
    return 0.2 * x ** -1.1 * (1 - x) ** (7 + 0.5 * abs(pid))


def contract(res, grid, key):
    t = runs.tensor(res, key)
    if t is None:
        return 0.0
    tot = 0.0
    for i, pid in enumerate(spec.PIDS):
        tot += sum(t[i][j] * toy_pdf(pid, g) for j, g in enumerate(grid) if g < 1.0)
    return float(tot)


def make_grid(n_low, n_mid, xmin=1e-4):
    from eko import interpolation
    return [float(v) for v in interpolation.make_grid(n_low, n_mid, x_min=xmin)]


def gen_case(rng, quick):
    proc = rng.choice(["EM", "NC", "CC"])
    kind = rng.choice(["F2", "FL", "F3"] if proc != "EM" else ["F2", "FL"])
    pto = rng.choice([0, 1] if quick else [0, 1, 1])
    return dict(proc=proc, kind=kind, pto=pto, Q2=common.dyadic(rng, 4.0, 60.0, 5), seed=rng.randrange(10 ** 6))


def displaced_case(c, delta=1e-8, tol=1e-5):
    """x exactly on a node (lowest, inner) vs x next to it, same run: operator rows must agree in the limit"""
    grid = [0.001, 0.01, 0.05, 0.1, 0.2, 0.35, 0.5, 0.7, 0.85, 1.0]
    deg, lg = 3, True
    nodes = [grid[0], grid[2], grid[5]]
    pts = []
    for g in nodes:
        pts += [dict(x=g, Q2=c["Q2"]), dict(x=g * (1 + delta), Q2=c["Q2"])]
        if g != grid[0]:
            pts.append(dict(x=g * (1 - delta), Q2=c["Q2"]))
    name = c["kind"] + "_total"
    proj = "neutrino" if c["proc"] == "CC" else "electron"
    out = runs.run(cards.theory_card(PTO=c["pto"], PTODIS=c["pto"]), cards.obs_card({name: pts}, prDIS=c["proc"], ProjectileDIS=proj, xgrid=grid, degree=deg, is_log=lg))
    probs = []
    idx = 0
    for g in nodes:
        k = 3 if g != grid[0] else 2
        base = out[name][idx]
        for other in out[name][idx + 1: idx + k]:
            for key in sorted(set(base.orders) | set(other.orders)):
                a, b = runs.tensor(base, key), runs.tensor(other, key)
                if a is None or b is None:
                    probs.append(dict(node=g, x=other.x, key=list(key), what="order missing on one side")); continue
                sc = max(float(np.max(np.abs(a))), float(np.max(np.abs(b))), 1e-30)
                d = float(np.max(np.abs(a - b))) / sc
                if d > tol:
                    i, j = np.unravel_index(np.argmax(np.abs(a - b)), a.shape)
                    probs.append(dict(node=g, lowest=g == grid[0], x=float(other.x), key=list(key), pid=spec.PIDS[i], j=int(j), on_node=float(a[i, j]), displaced=float(b[i, j]), rel=d))
        idx += k
    return probs


def refinement_case(c, quick, tol=None):
    """the same points on a coarse, a medium and a fine grid (degree 4) and on the medium grid with degree 3, contracted with
    smooth toy PDFs: deviations from the finest grid stay within calibrated bounds and shrink under refinement"""
    bounds = dict(coarse=3e-2, medium=5e-4, medium_degree3=5e-3)      # measured on the unchanged tree: 7e-3, 5e-5, 1e-3
    setups = [("coarse", make_grid(12, 8), 4), ("medium", make_grid(30, 20), 4), ("medium_degree3", make_grid(30, 20), 3), ("fine", make_grid(50, 30), 4)]
    if c.get("fact"):
        # the factorisation-scale terms are built by another routine (conv.convolve_operator): a degree-2 grid joins the comparison
        bounds["fine_degree2"] = 8e-3       # measured 2.7e-3
        setups.insert(3, ("fine_degree2", make_grid(50, 30), 2))
        # as many nodes, same degree and log mode as the medium grid, other spacing: run in the same process right after it
        bounds["medium_other_spacing"] = 5e-3      # measured 1.6e-3
        setups.insert(2, ("medium_other_spacing", make_grid(20, 30), 4))
    xs = c.get("xs") or [0.003, 0.03, 0.2, 0.5]
    name = c["kind"] + "_total"
    keys = [(o, 0, 0, 0) for o in range(c["pto"] + 1)] + ([(1, 0, 0, 1)] if c.get("fact") else [])
    proj = "neutrino" if c["proc"] == "CC" else "electron"
    vals = {}
    for label, grid, deg in setups:
        # the medium grid is handed over as a coarse grid with the refining nodes appended (valid: eko sorts the nodes); the prediction is
        # formed, as a user would, with the grid the output records
        card_grid = (grid[::2] + grid[1::2]) if label == "medium" else grid
        out = runs.run(cards.theory_card(PTO=c["pto"], PTODIS=c["pto"], TMC=c.get("tmc", 0), MP=0.938, FactScaleVar=bool(c.get("fact"))),
                       cards.obs_card({name: [dict(x=x, Q2=c["Q2"]) for x in xs]}, prDIS=c["proc"], ProjectileDIS=proj, xgrid=card_grid, degree=deg, is_log=True))
        vals[label] = [[contract(r, [float(g) for g in out["xgrid"]["grid"]], k) for k in keys] for r in out[name]]
    probs = []
    for i, x in enumerate(xs):
        for o in range(len(keys)):
            v = {l: vals[l][i][o] for l in vals}
            sc = max(abs(a) for a in v.values())
            if sc < 1e-12:
                continue
            dev = {l: abs(v[l] - v["fine"]) / sc for l in bounds}
            for l, b in bounds.items():
                if dev[l] > b:
                    probs.append(dict(x=x, order=o, values=v, rel=dev[l], tol=b, what="deviation of the %s grid from the fine one" % l))
            if dev["medium"] > dev["coarse"] + 1e-6:
                probs.append(dict(x=x, order=o, values=v, rel=dev["medium"], tol=dev["coarse"], what="refinement does not reduce the deviation"))
    return probs


def patrol(chk, n_disp, n_ref):
    bad, dist, crashed = 0, {}, {}
    # target-mass corrections integrate over the grid once more: one such case is always part of the refinement comparison
    fixed_ref = [dict(proc="EM", kind="F2", pto=0, Q2=2.0, seed=0, tmc=1, xs=[0.3, 0.6]), dict(proc="EM", kind="F2", pto=0, Q2=5.0, seed=1, tmc=3, xs=[0.25, 0.5]),
                 dict(proc="NC", kind="F2", pto=1, Q2=20.0, seed=2, fact=True, xs=[0.01, 0.3, 0.6])]
    for it in range(n_disp + n_ref + len(fixed_ref)):
        c = fixed_ref[it - n_disp - n_ref] if it >= n_disp + n_ref else gen_case(chk.rng, chk.tier == "quick")
        which = "displaced" if it < n_disp else "refinement"
        k = "%s/%s/%s/pto%d%s" % (which, c["proc"], c["kind"], c["pto"], "/TMC%d" % c["tmc"] if c.get("tmc") else "")
        dist[k] = dist.get(k, 0) + 1
        try:
            probs = displaced_case(c) if which == "displaced" else refinement_case(c, chk.tier == "quick")
        except Exception as e:
            key = "%s: %s" % (type(e).__name__, str(e)[:60])
            crashed[key] = crashed.get(key, 0) + 1
            continue
        for p in probs[:2]:
            bad += 1
            if which == "displaced":
                chk.violation("displaced:%s" % ("lowest-node" if p.get("lowest") else "inner-node"),
                              "%s_total (%s, PTO %d, Q2=%r): the operator at x = grid node %r differs from the one at x = %r: %s"
                              % (c["kind"], c["proc"], c["pto"], c["Q2"], p["node"], p.get("x"), {q: p.get(q) for q in ("key", "pid", "j", "on_node", "displaced", "rel", "what")}),
                              dict(kind="displaced", case=c, problem=p))
            else:
                chk.violation("refinement:%s:%s:pto%d" % (c["proc"], c["kind"], c["pto"]),
                              "%s_total (%s, PTO %d, Q2=%r) contracted with smooth toy PDFs at x=%r, order %d: %s: %.2e (bound %.1e): %s"
                              % (c["kind"], c["proc"], c["pto"], c["Q2"], p["x"], p["order"], p["what"], p["rel"], p["tol"], p["values"]), dict(kind="refinement", case=c, problem=p))
    chk.patrol["grid_stability"] = dict(cases=n_disp + n_ref + len(fixed_ref), failures=bad, distribution=dist, crashed_not_counted=crashed,
                                        rule="real runs: (a) x exactly on the lowest / an inner grid node vs x(1 +- 1e-8) in the same run, every tensor entry within 1e-5; "
                                             "(b) the same points on make_grid(12,8), (30,20), (50,30) with degree 4 and (30,20) with degree 3, contracted with smooth toy PDFs: deviation from "
                                             "the finest grid within 3e-2 / 5e-4 / 5e-3 (measured 7e-3 / 5e-5 / 1e-3) and not growing under refinement — calibrated, a test of the "
                                             "analytic part of the property, not a proof")
    return bad


def run(chk):
    chk.trusted = TRUSTED
    quick = chk.tier == "quick"
    common.check_props_file(chk, "C19")
    bad = interp.run_basis(chk, 300 if quick else 3000)
    chk.oblige("correspondence eko basis = Interp model", not bad, str(bad[:1]))
    for b in bad[:2]:
        chk.violation("basis:%d:%s" % (b["degree"], b["log"]), "eko basis function %d of grid %s (degree %d, log=%s) at x=%r is %r, the model disagrees" % (b["j"], b["grid"], b["degree"], b["log"], b["x"], b["eko_value"]), dict(basis=b))
    bad = interp.run_convplan(chk, 200 if quick else 2000)
    chk.oblige("correspondence convolution plan at and next to grid nodes", not bad, str(bad[:1]))
    for b in bad[:3]:
        chk.violation("plan:%s" % ("lowest-node" if b["x"] == b["grid"][0] else "node" if b["on_node"] else "between"),
                      "conv.convolution(rsl, x=%r, p_%d) on grid %s (degree %d, log=%s): p(x) used = %r where the basis gives another value (x on a node is not the limit of displaced x)"
                      % (b["x"], b["j"], b["grid"], b["degree"], b["log"], b["result"]), dict(plan=b))
    patrol(chk, 6 if quick else 24, 3 if quick else 16)
    if chk.red() and not chk.violations:
        patrol(chk, 12, 2)
    if chk.red() and not chk.violations:
        chk.violation("unproved", "a theorem or correspondence of C19 no longer checks: %s" % [o[0] for o in chk.red()],
                      dict(red=[(o[0], o[2]) for o in chk.red()]), found_input=False)


def replay(path):
    import json
    r = json.load(open(path))["replay"]
    if r.get("kind") == "displaced":
        probs = displaced_case(r["case"]); print("replay:", probs[:3]); return 1 if probs else 0
    if r.get("kind") == "refinement":
        probs = refinement_case(r["case"], False); print("replay:", probs[:3]); return 1 if probs else 0
    if "plan" in r:
        b = r["plan"]
        ip = interp.make_interp(b["grid"], b["degree"], b["log"])
        res, rec = interp.observe_convolution(ip, b["j"], b["x"], b["has_reg"], b["has_sing"])
        print("replay: p(x) used by conv.convolution =", res, "; eko p_j(x) =", float(ip[b["j"]](b["x"]))); return 1
    print("replay names a broken theorem/correspondence only"); return 1
