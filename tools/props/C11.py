"""C11 — cross sections are the documented combinations of structure functions."""
import numpy as np
from lib import common, cards, runs, spec
from corr import results

LEVEL = "proof"
TRUSTED = ["Coq 8.16.1 kernel + vm_compute", "tools/corr/results.py (harness)",
           "hand-written models theories/Result.v, XS.v tied by correspondence; XS.v::spec_of is the specification (docs/source/theory/intro.rst, "
           "with the documented 8 pi of XSFPFCC read as 4 pi, see DESIGN 6)", "pi, sqrt(M2target), GEV_CM2_CONV enter as parameters"]
CONV = 3.893793e10


def doc_coeffs(kind, x, y, Q2, pid, MP, MW, GF):
    """(c1, c2, c3) from the documentation: N (F2 - yL/y+ FL + s y-/y+ xF3)"""
    yp = 1 + (1 - y) ** 2; ym = 1 - (1 - y) ** 2; yL = y ** 2
    s = -1.0 if pid < 0 else 1.0
    ypc = yp - 2 * (x * y * MP) ** 2 / Q2
    prop = (1 + Q2 / MW ** 2) ** 2
    if kind == "F1":
        return 1.0, -1.0, 0.0
    if kind == "XSHERANC":
        N, p, m = 1.0, yp, ym
    elif kind == "XSHERANCAVG":
        N, p, m = 1.0, yp, 0.0
    elif kind == "XSHERACC":
        N, p, m = yp / 4, yp, ym
    elif kind == "XSCHORUSCC":
        N, p, m = CONV * GF ** 2 * MP / (2 * np.pi * prop) * ypc, ypc, ym
    elif kind == "XSNUTEVCC":
        N, p, m = 100 / (2 * prop) * ypc, ypc, ym
    elif kind == "XSNUTEVNU":
        N, p, m = CONV * GF ** 2 * MP / (2 * np.pi) * ypc, ypc, ym
    elif kind == "FW":
        N, p, m = 1.0, 1.0, 0.0
        yL = y ** 2 / (2 * (y ** 2 / 2 + (1 - y) - (MP * x * y) ** 2 / Q2))
    elif kind == "XSFPFCC":
        N, p, m = CONV / 100 * GF ** 2 / (4 * np.pi * x * prop) * yp, yp, ym
    else:
        raise ValueError(kind)
    return N, -N * yL / p, s * N * m / p


def gen_case(rng, quick):
    proc = rng.choice(["NC", "CC", "CC"])
    if proc == "NC":
        kinds = ["XSHERANC", "XSHERANCAVG", "F1"]
        proj = rng.choice(["electron", "positron"])
    else:
        kinds = ["XSHERACC", "XSCHORUSCC", "XSNUTEVCC", "XSNUTEVNU", "FW", "XSFPFCC", "F1"]
        proj = rng.choice(["neutrino", "antineutrino", "electron", "positron"])
    pto = rng.choice([0, 1, 1] if quick else [0, 1, 2])
    tmc = rng.choice([0, 0, 1, 2, 3])
    fns = rng.choice(["ZM-VFNS", "ZM-VFNS", "FFNS"])
    th = dict(PTO=pto, PTODIS=pto, TMC=tmc, FNS=fns, NfFF=rng.choice([3, 4]), RenScaleVar=rng.random() < 0.5, FactScaleVar=rng.random() < 0.5,
              MP=common.dyadic(rng, 0.5, 1.5, 6), MW=common.dyadic(rng, 60.0, 100.0, 6), GF=1.1663787e-5)
    ob = dict(prDIS=proc, ProjectileDIS=proj, PolarizationDIS=rng.choice([0.0, 0.5]))
    hv = rng.choice(["total", "light", "charm"]) if not (fns == "FFNS" and pto == 2) else "light"
    if proc == "CC" and hv == "charm" and fns == "ZM-VFNS":
        hv = "total"   # F3_charm CC crashes on the pinned tree (C16)
    pts = [dict(x=rng.choice([0.125, 0.25, 0.3, 0.5]), Q2=common.dyadic(rng, 4.0, 200.0, 6), y=rng.choice([1.0, 0.5, common.dyadic(rng, 0.05, 1.0, 6)]))
           for _ in range(2)]
    ks = rng.sample(kinds, min(len(kinds), 3))
    return dict(theory=th, obs=ob, heavyness=hv, kinds=ks, points=pts)


def run_case(c, twice=False):
    th = cards.theory_card(**c["theory"])
    hv = c["heavyness"]
    obs = {k + "_" + hv: c["points"] for k in c["kinds"]}
    sfpts = [dict(x=p["x"], Q2=p["Q2"]) for p in c["points"]]
    for s in ("F2", "FL", "F3"):
        obs[s + "_" + hv] = sfpts
    worst = None
    projs = [c["obs"]["ProjectileDIS"]]
    if twice:   # a second run in the same process with the anti-beam, then the original again
        anti = {"electron": "positron", "positron": "electron", "neutrino": "antineutrino", "antineutrino": "neutrino"}
        projs = [anti[projs[0]], projs[0]]
    for pj in projs:
        ob = dict(c["obs"], ProjectileDIS=pj)
        out = runs.run(th, cards.obs_card(obs, **ob))
        pid = spec.PROJ[pj]
        for k in c["kinds"]:
            for i, p in enumerate(c["points"]):
                cs = doc_coeffs(k, p["x"], p["y"], p["Q2"], pid, th["MP"], th["MW"], th["GF"])
                xs = out[k + "_" + hv][i]
                sf = [out[s + "_" + hv][i] for s in ("F2", "FL", "F3")]
                keys = set(xs.orders)
                for s in sf:
                    keys |= set(s.orders)
                for key in sorted(keys):
                    exp = sum(cc * (np.array(s.orders[key][0]) if key in s.orders else 0.0) for cc, s in zip(cs, sf))
                    got = np.array(xs.orders[key][0]) if key in xs.orders else 0.0 * exp
                    scale = max(abs(cs[0]), 1e-300) * max(1.0, float(np.max(np.abs(sf[0].orders.get(key, (np.zeros(1),))[0]))))
                    d = float(np.max(np.abs(got - exp)))
                    if d > 1e-10 * scale and (worst is None or d / scale > worst["rel"]):
                        worst = dict(kind=k, point=p, key=list(key), projectile=pj, diff=d, rel=d / scale, coeffs=cs)
    return worst


def patrol(chk, n, twice_every=3):
    bad, dist, crashed = [], {}, {}
    for i in range(n):
        c = gen_case(chk.rng, chk.tier == "quick")
        tw = (i % twice_every == 0)
        key = "%s/%s/TMC%d%s" % (c["obs"]["prDIS"], c["heavyness"], c["theory"]["TMC"], "/two-runs" if tw else "")
        dist[key] = dist.get(key, 0) + 1
        try:
            r = run_case(c, twice=tw)
        except Exception as e:
            crashed[type(e).__name__] = crashed.get(type(e).__name__, 0) + 1
            continue
        if r is not None:
            bad.append((c, tw, r))
    chk.patrol["xs_vs_sf_same_run"] = dict(cases=n, failures=len(bad), distribution=dist, crashed_not_counted=crashed,
                                           rule="real runs requesting cross sections and F2/FL/F3 of the same heavyness together (TMC 0..3, SV on/off, "
                                                "NC and CC beams, y = 1 included; every third case runs the anti-beam first in the same process): every order key "
                                                "and entry of the XS tensor vs N[F2 - yL/y+ FL + s y-/y+ xF3] with the documented N, tol 1e-10")
    for c, tw, r in bad[:3]:
        chk.violation("xs:%s:%s" % (r["kind"], c["obs"]["prDIS"]), "cross section %s is not the documented combination of the structure functions of the same run: %s"
                      % (r["kind"], {k: r[k] for k in ("point", "key", "projectile", "rel")}), dict(case=c, twice=tw, result=r))
    return bad


def run(chk):
    chk.trusted = TRUSTED
    quick = chk.tier == "quick"
    common.check_props_file(chk, "C11")
    for name, fn, n in (("ESFResult algebra", results.run_algebra, 150 if quick else 1500),
                        ("xs coefficients (model and spec = code)", results.run_xs_coeffs, 300 if quick else 3000),
                        ("EvaluatedCrossSection.get_result", results.run_xs_result, 80 if quick else 800)):
        bad = fn(chk, n)
        chk.oblige("correspondence " + name, not bad, str(bad[:1]))
    patrol(chk, 12 if quick else 150)
    if chk.red() and not chk.violations:
        patrol(chk, 100, twice_every=2)
    if chk.red() and not chk.violations:
        chk.violation("unproved", "a theorem or correspondence of C11 no longer checks: %s" % [o[0] for o in chk.red()],
                      dict(red=[(o[0], o[2]) for o in chk.red()]), found_input=False)


def replay(path):
    import json
    r = json.load(open(path))
    c = r["replay"].get("case")
    if not c:
        print("replay names a broken theorem/correspondence only:", r["what"]); return 1
    res = run_case(c, twice=r["replay"].get("twice", False))
    print("replay:", res)
    return 1 if res else 0
