"""C20 — the runner leaves its inputs untouched and echoes them in the output."""
import copy
import numpy as np
from lib import common, cards, runs
from corr import inputs

LEVEL = "proof"
TRUSTED = ["Coq 8.16.1 kernel + vm_compute", "tools/corr/inputs.py (harness: mutation-logging dict/list subclasses, card shapes)",
           "hand-written model theories/Compat.v of compatibility.update tied by correspondence; idempotence of the whole theory upgrade is proved on the complete "
           "enumeration of card shapes (update reads only those keys), piecewise lemmas hold for arbitrary cards",
           "the frame theorem needs 'no write targets a caller-owned container': that premise is established per run by the mutation log (every mutating method of dict and "
           "list is intercepted; mutation through the C API bypassing these methods would be missed)"]


def gen_case(rng, quick):
    fns = rng.choice(["ZM-VFNS", "FFNS", "FONLL-FFNS", "FFN0", "FONLL-FFN0"])
    pto = rng.choice([0, 1, 1, 2] if quick else [0, 1, 2])
    proc = rng.choice(["NC", "EM", "CC"])
    th = cards.theory_card(FNS=fns, NfFF=rng.choice([3, 4, 5]), PTO=pto, TMC=rng.choice([0, 0, 1, 3]), MP=0.5,
                           RenScaleVar=rng.random() < 0.5, FactScaleVar=rng.random() < 0.5)
    if rng.random() < 0.5:
        th["PTODIS"] = None
    if rng.random() < 0.3:
        del th["FONLLParts"]
    if rng.random() < 0.3:
        del th["RenScaleVar"]
    # entries with a documented default somewhere in the code (coupling constants: MZ, SIN2TW, MW): a card may leave them out
    for k in ("SIN2TW", "MZ", "MW"):
        if rng.random() < 0.3:
            th.pop(k, None)
    obs = {}
    kinds = ["F3", "g1"] if ("FFN0" in fns and proc != "CC") else (["F2", "FL", "F3"] if proc != "EM" else ["F2", "FL"])
    for _ in range(rng.randint(1, 2)):
        obs[rng.choice(kinds) + "_" + rng.choice(["total", "light", "charm"])] = [dict(x=rng.choice([0.125, 0.25, 0.5]), Q2=float(rng.choice([3, 30, 300]))) for _ in range(rng.randint(1, 3))]
    if rng.random() < 0.5 and "FFN0" not in fns:
        xs = rng.choice(["XSHERANC", "XSHERANCAVG"] if proc != "CC" else ["XSHERACC", "XSCHORUSCC", "XSNUTEVCC"])
        obs[xs + rng.choice(["", "_total", "_light"])] = [dict(x=0.25, Q2=20.0, y=0.5), dict(y=0.25, x=0.5, Q2=40.0)]
    ob = cards.obs_card(obs, prDIS=proc, ProjectileDIS=rng.choice(["electron", "positron"] if proc != "CC" else ["neutrino", "antineutrino", "positron"]),
                        TargetDIS=rng.choice(["proton", "neutron", "isoscalar", "iron", "lead", "marble", dict(Z=1.0, A=2.0)]))
    if rng.random() < 0.3:
        # a grid assembled from two pieces: valid, but not ascending (eko sorts it; the output must record the grid actually used)
        g = ob["interpolation_xgrid"]
        ob["interpolation_xgrid"] = g[3:] + g[:3]
    return dict(theory=th, observables=ob)


def run_case(c):
    import yadism.log
    yadism.log.silent_mode = True
    from yadism.runner import Runner
    from yadism.input import compatibility
    th, ob = inputs.logged(copy.deepcopy(c["theory"])), inputs.logged(copy.deepcopy(c["observables"]))
    th0, ob0 = copy.deepcopy(c["theory"]), copy.deepcopy(c["observables"])
    owned = {}

    def walk(x, path):
        if isinstance(x, (inputs.LDict, inputs.LList)):
            owned[id(x)] = path
            for k, v in (x.items() if isinstance(x, dict) else enumerate(x)):
                walk(v, path + "[%r]" % (k,))
    walk(th, "theory"); walk(ob, "observables")
    del inputs.LOG[:]
    problems = []
    for stage in ("construct", "compute", "again"):
        try:
            if stage == "construct":
                r = Runner(th, ob)
            elif stage == "compute":
                out = r.get_result()
            else:
                r2 = Runner(th, ob)        # a second runner from the same objects
                out2 = r2.get_result()
        except Exception as e:  # noqa
            if stage == "again":
                problems.append("a second Runner built from the same card objects failed: %s: %s" % (type(e).__name__, str(e)[:80]))
            else:
                return dict(crashed="%s: %s" % (type(e).__name__, str(e)[:80]))
        writes = [(owned[i], what, key) for i, what, key in inputs.LOG if i in owned]
        if writes:
            problems.append("after %s: caller-owned containers were mutated: %s" % (stage, writes[:4]))
            break
        if dict(th) != th0 or dict(ob) != ob0:
            problems.append("after %s: the caller's cards differ from their original content" % stage)
            break
    if not problems:
        if out.theory != th0:
            problems.append("output.theory is not the card given: %s" % [k for k in set(th0) | set(out.theory) if out.theory.get(k) != th0.get(k)][:5])
        if out.observables != ob0:
            problems.append("output.observables is not the card given")
        used = r.configs.interpolator
        if [float(v) for v in out["xgrid"]["grid"]] != [float(v) for v in used.xgrid.raw] or bool(out["xgrid"]["log"]) != bool(used.xgrid.log) \
                or out["polynomial_degree"] != used.polynomial_degree or out["is_log"] != ob0["interpolation_is_log"]:
            problems.append("output grid %s (log=%s, degree %s) is not the grid the runner used: %s (log=%s, degree %s)"
                            % (list(out["xgrid"]["grid"]), out["xgrid"]["log"], out["polynomial_degree"], [float(v) for v in used.xgrid.raw], used.xgrid.log, used.polynomial_degree))
        if sorted(float(v) for v in out["xgrid"]["grid"]) != sorted(float(v) for v in ob0["interpolation_xgrid"]):
            problems.append("output grid is not made of the requested nodes")
        ncol = {np.asarray(v[0]).shape[-1] for name in ob0["observables"] for rr in out[name] for v in rr.orders.values()}
        if ncol - {len(out["xgrid"]["grid"])}:
            problems.append("operators have %s columns for a recorded grid of %d nodes" % (sorted(ncol), len(out["xgrid"]["grid"])))
        proj = {"electron": 11, "positron": -11, "neutrino": 12, "antineutrino": -12}[ob0["ProjectileDIS"]]
        if out["projectilePID"] != proj:
            problems.append("output projectilePID %s for %s" % (out["projectilePID"], ob0["ProjectileDIS"]))
        if list(out["pids"]) != [22, -6, -5, -4, -3, -2, -1, 21, 1, 2, 3, 4, 5, 6]:
            problems.append("output pids %s" % (list(out["pids"]),))
        for name, pts in ob0["observables"].items():
            res = out[name if name in out else name]
            for p, rr in zip(pts, res):
                if (rr.x, rr.Q2) != (p["x"], p["Q2"]) or ("y" in p and getattr(rr, "y", None) != p["y"]):
                    problems.append("output point of %s is not the requested one: %s" % (name, p))
        # update is idempotent and pure on the real code
        t1, o1 = compatibility.update(copy.deepcopy(th0), copy.deepcopy(ob0))
        t2, o2 = compatibility.update(copy.deepcopy(t1), copy.deepcopy(o1))
        if t1 != t2 or o1 != o2:
            problems.append("compatibility.update is not idempotent on this card")
    return dict(problems=problems) if problems else None


def patrol(chk, n):
    bad, dist, crashed = [], {}, {}
    for _ in range(n):
        c = gen_case(chk.rng, chk.tier == "quick")
        key = "%s/%s/%s" % (c["theory"]["FNS"], c["observables"]["prDIS"], "XS" if any(k.startswith("XS") for k in c["observables"]["observables"]) else "SF")
        dist[key] = dist.get(key, 0) + 1
        r = run_case(c)
        if r is not None and "crashed" in r:
            crashed[r["crashed"][:70]] = crashed.get(r["crashed"][:70], 0) + 1
        elif r is not None:
            bad.append((c, r))
    chk.patrol["inputs_and_echo"] = dict(cases=n, failures=len(bad), distribution=dist, crashed_not_counted=crashed,
                                         rule="cards built from mutation-logging dict/list subclasses (all nesting levels) through Runner(...), get_result() and a second Runner on the same "
                                              "objects (all schemes incl. threshold rewriting, named and dict targets, SF and XS with y, TMC): no logged mutation on a caller-owned container, "
                                              "deep equality with the original cards, output.theory / observables / grid / pids / projectilePID / point kinematics echo the inputs, update idempotent")
    for c, r in bad[:3]:
        chk.violation("inputs:%s" % r["problems"][0][:50], "inputs modified or not echoed: %s" % r["problems"][:2], dict(case=c, result=r))
    return bad


def run(chk):
    chk.trusted = TRUSTED
    quick = chk.tier == "quick"
    common.check_props_file(chk, "C20")
    bad = inputs.run_compat_shapes(chk, 250 if quick else 3000)
    chk.oblige("correspondence compatibility.update (model = code on card shapes; arguments unchanged)", not bad, str(bad[:2])[:500])
    patrol(chk, 20 if quick else 250)
    if chk.red() and not chk.violations:
        patrol(chk, 120)
    if chk.red() and not chk.violations:
        chk.violation("unproved", "a theorem or correspondence of C20 no longer checks: %s" % [o[0] for o in chk.red()][:5],
                      dict(red=[(o[0], o[2]) for o in chk.red()][:8]), found_input=False)


def replay(path):
    import json
    r = json.load(open(path))
    c = r["replay"].get("case")
    if not c:
        print("replay names a broken theorem/correspondence only:", r["what"]); return 1
    res = run_case(c)
    print("replay:", res)
    return 1 if res else 0
