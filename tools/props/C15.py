"""C15 — serialised output round-trips losslessly."""
import io, os, tempfile
import numpy as np
from lib import common, cards, runs
from corr import serial
from props.C17 import TPDF

LEVEL = "proof"
TRUSTED = ["Coq 8.16.1 kernel + vm_compute", "tools/corr/serial.py (harness: opens the real tar, reads metadata.yaml and the npz arrays)",
           "hand-written model theories/Serial.v of the dump_tar / load_tar zip, tied by correspondence",
           "PyYAML, numpy npz/savez_compressed, tarfile and float <-> text conversion are a transport (mappings are compared as mappings: YAML sorts keys); "
           "they are exercised on real files by the patrol, not modelled",
           "the YAML format (dump_yaml / load_yaml) has no structural transformation beyond get_raw / from_document: covered by the patrol only"]


def deep_diff(a, b, path="out"):
    """first difference between two outputs (structure, keys and their order for orders, values bit-for-bit)"""
    from yadism.esf.result import ESFResult
    if isinstance(a, ESFResult) or isinstance(b, ESFResult):
        if type(a) is not type(b):
            return "%s: type %s vs %s" % (path, type(a).__name__, type(b).__name__)
        for f in ("x", "Q2", "nf") + (("y",) if hasattr(a, "y") else ()):
            if getattr(a, f) != getattr(b, f):
                return "%s.%s: %r vs %r" % (path, f, getattr(a, f), getattr(b, f))
        if list(a.orders.keys()) != list(b.orders.keys()):
            return "%s: order keys %s vs %s" % (path, list(a.orders.keys()), list(b.orders.keys()))
        for k in a.orders:
            for t, nm in ((0, "values"), (1, "errors")):
                if not np.array_equal(np.array(a.orders[k][t]), np.array(b.orders[k][t])):
                    return "%s order %s %s differ (max %.3g)" % (path, list(k), nm, float(np.max(np.abs(np.array(a.orders[k][t]) - np.array(b.orders[k][t])))))
        return None
    if isinstance(a, dict) and isinstance(b, dict):
        if set(a) != set(b):
            return "%s: keys %s vs %s" % (path, sorted(map(str, a)), sorted(map(str, b)))
        for k in a:
            d = deep_diff(a[k], b[k], path + "[%r]" % (k,))
            if d:
                return d
        return None
    if isinstance(a, (list, tuple, np.ndarray)) or isinstance(b, (list, tuple, np.ndarray)):
        if a is None or b is None:
            return "%s: %r vs %r" % (path, a, b)
        if len(a) != len(b):
            return "%s: length %d vs %d" % (path, len(a), len(b))
        for i, (x, y) in enumerate(zip(a, b)):
            d = deep_diff(x, y, path + "[%d]" % i)
            if d:
                return d
        return None
    if a != b and not (isinstance(a, float) and isinstance(b, float) and np.isnan(a) and np.isnan(b)):
        return "%s: %r vs %r" % (path, a, b)
    return None


def gen_case(rng, quick):
    pto = rng.choice([0, 1, 2, 2] if quick else [0, 1, 2, 2, 3])
    th = dict(PTO=pto, PTODIS=pto, FNS="ZM-VFNS", RenScaleVar=rng.random() < 0.7, FactScaleVar=rng.random() < 0.7, TMC=rng.choice([0, 0, 1]), MP=0.5,
              XIR=rng.choice([1.0, 0.5, 2.0]), XIF=rng.choice([1.0, 2.0]))
    proc = rng.choice(["NC", "EM", "CC"])
    obs = {}
    for _ in range(rng.randint(1, 3)):
        k = rng.choice(["F2", "FL", "F3"] if proc != "EM" else ["F2", "FL"]) + "_" + rng.choice(["total", "light"])
        obs[k] = [dict(x=rng.choice([0.125, 0.25, 0.5]), Q2=float(rng.randint(3, 300))) for _ in range(rng.choice([1, 2, 3]))]
    if rng.random() < 0.4:
        obs["XSHERANCAVG_total" if proc != "CC" else "XSCHORUSCC_total"] = [dict(x=0.25, Q2=20.0, y=0.5), dict(x=0.5, Q2=40.0, y=0.25)]
        obs["F1_total" if proc != "CC" else "FW_total"] = [dict(x=0.125, Q2=30.0, y=0.75)]      # cross sections whose names do not start with XS
    if rng.random() < 0.35:
        # the same observable once more under its short name (a flavourless name means _total), with other points: two separate entries of the output
        k = rng.choice(["F2", "FL"])
        obs[k + "_total"] = obs.get(k + "_total") or [dict(x=0.25, Q2=50.0)]
        obs[k] = [dict(x=rng.choice([0.125, 0.5]), Q2=float(rng.randint(3, 300))) for _ in range(rng.choice([1, 2]))]
    if rng.random() < 0.35:
        obs["FL_light" if "FL_light" not in obs else "F2_charm"] = []           # an observable without points
    return dict(theory=th, obs=dict(prDIS=proc), observables=obs, none_obs=rng.random() < 0.2)


_EARLIER = None


def run_case(c):
    from yadism.output import Output
    th = cards.theory_card(**c["theory"])
    out = runs.run(th, cards.obs_card(c["observables"], **c["obs"]))
    if c.get("none_obs"):
        out["F3_bottom"] = None
    pdf = TPDF()
    a_s = lambda mu: 0.25 / (1 + 0.2 * np.log(mu))
    base = out.apply_pdf_alphas_alphaqed_xir_xif(pdf, a_s, lambda mu: 0.0075, th["XIR"], th["XIF"])
    os.makedirs(common.SCRATCH, exist_ok=True)
    with tempfile.TemporaryDirectory(dir=common.SCRATCH) as tmp:
        cur = out
        for cyc in (1, 2):
            p = os.path.join(tmp, "o%d.tar" % cyc)
            try:
                cur.dump_tar(p)
                cur = Output.load_tar(p)
            except Exception as e:  # noqa
                return dict(format="tar", cycle=cyc, error="%s: %s" % (type(e).__name__, str(e)[:80]))
            d = deep_diff(dict(out), dict(cur), "tar%d" % cyc) or deep_diff(out.theory, cur.theory, "theory") or deep_diff(out.observables, cur.observables, "observables")
            if d:
                return dict(format="tar", cycle=cyc, difference=d)
            pr = cur.apply_pdf_alphas_alphaqed_xir_xif(pdf, a_s, lambda mu: 0.0075, th["XIR"], th["XIF"])
            d = deep_diff(dict(base), dict(pr), "prediction")
            if d:
                return dict(format="tar", cycle=cyc, difference=d)
        cur = out
        for cyc in (1, 2):
            try:
                txt = cur.dump_yaml()
                cur = Output.load_yaml(io.StringIO(txt))
            except Exception as e:  # noqa
                return dict(format="yaml", cycle=cyc, error="%s: %s" % (type(e).__name__, str(e)[:80]))
            d = deep_diff(dict(out), dict(cur), "yaml%d" % cyc) or deep_diff(out.theory, cur.theory, "theory") or deep_diff(out.observables, cur.observables, "observables")
            if d:
                return dict(format="yaml", cycle=cyc, difference=d)
        # cycles that change the format: a loaded object is an Output like any other
        for label, seq in (("tar-then-yaml", ("tar", "yaml", "tar")), ("yaml-then-tar", ("yaml", "tar", "yaml"))):
            cur = out
            for cyc, fmt in enumerate(seq, 1):
                try:
                    if fmt == "tar":
                        p = os.path.join(tmp, "m_%s_%d.tar" % (label, cyc))
                        cur.dump_tar(p); cur = Output.load_tar(p)
                    else:
                        cur = Output.load_yaml(io.StringIO(cur.dump_yaml()))
                except Exception as e:  # noqa
                    return dict(format=label, cycle=cyc, error="%s: %s" % (type(e).__name__, str(e)[:80]))
                d = deep_diff(dict(out), dict(cur), "%s%d" % (label, cyc)) or deep_diff(out.theory, cur.theory, "theory") or deep_diff(out.observables, cur.observables, "observables")
                if d:
                    return dict(format=label, cycle=cyc, difference=d)
        # copies loaded EARLIER in this process (from another output) must not have changed by loading this one
        global _EARLIER
        ycopy = Output.load_yaml(io.StringIO(out.dump_yaml()))
        p = os.path.join(tmp, "keep.tar"); out.dump_tar(p); tcopy = Output.load_tar(p)
        if _EARLIER is not None:
            o0, y0, t0 = _EARLIER
            for label, c0 in (("yaml", y0), ("tar", t0)):
                d = deep_diff(o0.theory, c0.theory, "theory") or deep_diff(o0.observables, c0.observables, "observables") or deep_diff(dict(o0), dict(c0), "earlier-%s" % label)
                if d:
                    _EARLIER = (out, ycopy, tcopy)
                    return dict(format="earlier-" + label, cycle=1, difference="a copy loaded before another output was loaded has changed: " + str(d))
        _EARLIER = (out, ycopy, tcopy)
    return None


def patrol(chk, n):
    bad, dist, crashed = [], {}, {}
    for _ in range(n):
        c = gen_case(chk.rng, chk.tier == "quick")
        key = "PTO%d/%s/%s" % (c["theory"]["PTO"], c["obs"]["prDIS"], "with-empty" if any(len(v) == 0 for v in c["observables"].values()) else "plain")
        dist[key] = dist.get(key, 0) + 1
        try:
            r = run_case(c)
        except Exception as e:  # noqa
            k = type(e).__name__ + ":" + str(e)[:60]
            crashed[k] = crashed.get(k, 0) + 1
            continue
        if r is not None:
            bad.append((c, r))
    chk.patrol["roundtrips_of_real_outputs"] = dict(cases=n, failures=len(bad), distribution=dist, crashed_not_counted=crashed,
                                                    rule="real runner outputs (SF + XS mixes, PTO 0..3 with scale-variation keys in their native, non-sorted order, TMC, observables "
                                                         "with no points, a None observable): two dump_tar/load_tar cycles, two dump_yaml/load_yaml cycles and two mixed sequences (tar-yaml-tar, yaml-tar-yaml), and the copies loaded for the previous case re-compared after this one was loaded; every field, key order, "
                                                         "value and error compared bit-for-bit, runcards compared, predictions for a toy PDF with xiR, xiF != 1 compared")
    for c, r in bad[:3]:
        what = r.get("difference") or r.get("error")
        chk.violation("roundtrip:%s:%s" % (r["format"], ("RepresenterError" if "RepresenterError" in str(what) else "ConstructorError") if r["format"] in ("tar-then-yaml", "yaml-then-tar") and r.get("error") else "empty-observable" if ("IndexError" in str(what) and any(len(v) == 0 for v in c["observables"].values())) else str(what)[:40]),
                      "%s round trip (cycle %d) is not lossless: %s" % (r["format"], r["cycle"], what), dict(case=c, result=r))
    return bad


def run(chk):
    chk.trusted = TRUSTED
    quick = chk.tier == "quick"
    common.check_props_file(chk, "C15")
    bad = serial.run_serial(chk, 150 if quick else 2000)
    chk.oblige("correspondence tar documents (model dump/load = real dump_tar/load_tar)", not bad, str(bad[:2])[:500])
    patrol(chk, 14 if quick else 150)
    if chk.red() and not chk.violations:
        patrol(chk, 80)
    if chk.red() and not chk.violations:
        chk.violation("unproved", "a theorem or correspondence of C15 no longer checks: %s" % [o[0] for o in chk.red()][:5],
                      dict(red=[(o[0], o[2]) for o in chk.red()][:8]), found_input=False)


def replay(path):
    import json
    r = json.load(open(path))
    c = r["replay"].get("case")
    if not c:
        print("replay names a broken theorem/correspondence only:", r["what"]); return 1
    res = run_case(c)
    print("replay:", res)
    return 1 if res else 0
