"""C06 — number of active flavours follows the thresholds and the scheme."""
import numpy as np
from lib import common, cards, runs, spec
from corr import thresholds, wlayer, scalevar, assembly

LEVEL = "proof"
TRUSTED = ["Coq 8.16.1 kernel + vm_compute", "tools/corr/thresholds.py (harness, float->rational conversion)",
           "hand-written model theories/Thresholds.v tied by correspondence (update_fns exhaustive, nf_default sampled at/around every wall)",
           "numpy.digitize / eko.matchings.Atlas are modelled (counting walls <= q), not verified",
           "beta0(nf) = 11 - 2 nf/3 (QCD) used by the patrol as oracle"]


def beta0(nf):
    return 11.0 - 2.0 * nf / 3.0


def gen_case(rng):
    fns = rng.choice(["ZM-VFNS", "ZM-VFNS", "ZM-VFNS", "FFNS", "FONLL-FFNS"])
    mc = common.dyadic(rng, 1.0, 2.0, 4); mb = common.dyadic(rng, 3.0, 6.0, 4); mt = common.dyadic(rng, 100.0, 200.0, 4)
    kc, kb, kt = rng.choice([1.0, 0.5, 2.0]), rng.choice([1.0, 2.0, 0.75]), 1.0
    th = dict(FNS=fns, NfFF=rng.choice([3, 4, 5]), PTO=2, PTODIS=2, RenScaleVar=True, FactScaleVar=rng.random() < 0.3,
              mc=mc, mb=mb, mt=mt, kcThr=kc, kbThr=kb, ktThr=kt)
    walls = [(mc * kc) ** 2, (mb * kb) ** 2, (mt * kt) ** 2]
    q2s = []
    for w in walls[:2]:
        q2s += [w, float(np.nextafter(w, 0.0)), float(np.nextafter(w, np.inf))]
    q2s += [common.dyadic(rng, 1.0, 300.0, 10) for _ in range(3)] + [walls[2], float(np.nextafter(walls[2], 0.0))]
    rng.shuffle(q2s)
    kind = rng.choice(["F2", "FL", "F3"])
    # fixed-flavour NC light observables carry the slow NNLO "missing" heavy kernels: use CC there
    ob = dict(prDIS=rng.choice(["NC", "EM", "CC"]) if fns == "ZM-VFNS" else "CC")
    if fns != "ZM-VFNS":
        q2s = q2s[:4]
    if ob["prDIS"] == "EM" and kind == "F3":
        kind = "F2"
    return dict(theory=th, obs=ob, name=kind + "_light", x=rng.choice([0.125, 0.25, 0.5]), Q2s=q2s)


def run_case(c):
    th = cards.theory_card(**c["theory"])
    pts = [dict(x=c["x"], Q2=q) for q in c["Q2s"]]
    out = runs.run(th, cards.obs_card({c["name"]: pts}, **c["obs"]))
    fixed = c["theory"]["FNS"] != "ZM-VFNS"
    worst = None
    for q, res in zip(c["Q2s"], out[c["name"]]):
        nf = c["theory"]["NfFF"] if fixed else runs.nf_spec(th, q)
        a = runs.tensor(res, (1, 0, 0, 0)); b = runs.tensor(res, (2, 0, 1, 0))
        if a is None or b is None:
            return dict(missing_key=True, Q2=q)
        d = float(np.max(np.abs(b + beta0(nf) * a))); scale = max(1.0, float(np.max(np.abs(a))) * 11)
        if d > 1e-10 * scale and (worst is None or d > worst["diff"]):
            # which nf would fit?
            fit = [n for n in (3, 4, 5, 6) if float(np.max(np.abs(b + beta0(n) * a))) <= 1e-10 * scale]
            worst = dict(Q2=q, expected_nf=nf, nf_fitting_the_output=fit, diff=d)
    return worst


def same_count_case(rng):
    """two ZM-VFNS cards with different masses/ratios but the same number of active quarks at the point: same result"""
    Q2 = common.dyadic(rng, 30.0, 90.0, 8)
    a = dict(mc=1.5, mb=4.5, mt=173.0, kcThr=1.0, kbThr=1.0, ktThr=1.0)
    b = dict(mc=common.dyadic(rng, 1.0, 2.0, 4), mb=common.dyadic(rng, 3.0, 5.0, 4), mt=common.dyadic(rng, 100.0, 200.0, 4),
             kcThr=rng.choice([1.0, 0.5, 2.0]), kbThr=rng.choice([1.0, 0.75]), ktThr=1.0)
    pto = rng.choice([1, 2])
    common_t = dict(FNS="ZM-VFNS", PTO=pto, PTODIS=pto, RenScaleVar=True, FactScaleVar=True)
    name = rng.choice(["F2", "FL", "F3"]) + "_" + rng.choice(["light", "total"])
    return dict(a=dict(a, **common_t), b=dict(b, **common_t), name=name, x=0.25, Q2=Q2, obs=dict(prDIS=rng.choice(["NC", "CC"])))


def run_same_count(c):
    ta, tb = cards.theory_card(**c["a"]), cards.theory_card(**c["b"])
    if runs.nf_spec(ta, c["Q2"]) != runs.nf_spec(tb, c["Q2"]):
        return "skip"
    pt = [dict(x=c["x"], Q2=c["Q2"])]
    A = runs.run(ta, cards.obs_card({c["name"]: pt}, **c["obs"]))[c["name"]][0]
    B = runs.run(tb, cards.obs_card({c["name"]: pt}, **c["obs"]))[c["name"]][0]
    return runs.compare(A, B, None, 1.0, 1e-13)


def patrol(chk, n):
    bad, dist, crashed, skipped = [], {}, {}, 0
    for i in range(n):
        if i % 3 == 2:
            c = same_count_case(chk.rng); kind = "same_count"
            fn = run_same_count
        else:
            c = gen_case(chk.rng); kind = "beta0_across_thresholds/" + c["theory"]["FNS"]
            fn = run_case
        dist[kind] = dist.get(kind, 0) + 1
        try:
            r = fn(c)
        except Exception as e:
            crashed[type(e).__name__] = crashed.get(type(e).__name__, 0) + 1
            continue
        if r == "skip":
            skipped += 1
        elif r is not None:
            bad.append((kind, c, r))
    chk.patrol["nf_in_results"] = dict(cases=n, failures=len(bad), distribution=dist, crashed_not_counted=crashed, skipped=skipped,
                                       rule="multi-point NNLO runs (points exactly at, one ulp below/above each threshold, shuffled order): "
                                            "(2,0,1,0) tensor = -beta0(nf) x (1,0,0,0) tensor with nf from the statement (count of matching scales <= Q2; "
                                            "NfFF in fixed-flavour schemes); and two cards with different thresholds but equal count give identical results")
    for kind, c, r in bad[:3]:
        chk.violation("%s:%s" % (kind.split("/")[0], c.get("name")), "number of flavours in the result is not the one the thresholds dictate: %s" % (r,),
                      dict(kind=kind, case=c, result=r))
    return bad


def heavy_rows_patrol(chk):
    """fixed-flavour scheme with two massive quarks and intrinsic kernels: the bottom-initiated rows are built with nf = ihq-1 = 4 (intrinsic/kernels.py),
    their scale-variation terms must nevertheless carry beta0(NfFF=3)"""
    c = dict(theory=dict(FNS="FFNS", NfFF=3, PTO=2, PTODIS=2, RenScaleVar=True, FactScaleVar=True, IC=1), obs=dict(prDIS="EM"),
             name="F2_bottom", x=0.05, Q2s=[10.0, 300.0])
    try:
        r = run_case(c)
    except Exception as e:  # noqa
        chk.patrol["nf_in_heavy_rows"] = dict(cases=1, failures=0, crashed_not_counted={type(e).__name__: 1}); return
    chk.patrol["nf_in_heavy_rows"] = dict(cases=1, failures=int(r is not None), rule="FFNS NfFF=3, IC=1, NNLO, F2_bottom (bottom-initiated rows included): (2,0,1,0) = -beta0(3) x (1,0,0,0) on all 14 rows")
    if r is not None:
        chk.violation("beta0_heavy_rows:F2_bottom", "number of flavours in the scale-variation terms of the heavy-quark rows is not NfFF: %s" % (r,),
                      dict(kind="beta0_across_thresholds/FFNS", case=c, result=r))


def run(chk):
    chk.trusted = TRUSTED
    quick = chk.tier == "quick"
    common.check_props_file(chk, "C06")
    bad = thresholds.run_compat(chk)
    chk.oblige("correspondence update_fns (exhaustive)", not bad, str(bad[:1]))
    bad2 = thresholds.run_thresholds(chk, 120 if quick else 1500)
    chk.oblige("correspondence Atlas walls / nf_default", not bad2, str(bad2[:1]))
    bad3 = scalevar.run_scalevar(chk, 25 if quick else 300)
    chk.oblige("correspondence ScaleVariations: the beta coefficients follow the nf handed over, also when one manager serves several nf", not bad3, str(bad3[:1])[:500])
    # every partonic channel is built with the nf of the scheme (fixed: NfFF; variable: the active flavours), heavy ones included
    bad4 = wlayer.run_combiner(chk, 120 if quick else 1200, fixed=dict(theory=dict(FNS="FFNS"), obs=dict(TargetDIS=dict(Z=1.0, A=1.0))), name="combiner_kernel_nf")
    chk.oblige("correspondence Combiner: nf handed to every partonic channel", not bad4, str(bad4[:1])[:400])
    for b in bad4[:2]:
        chk.violation("kernel-nf:%s:%s_%s" % (b["cfg"]["theory"]["FNS"], b["cfg"]["kind"], b["cfg"]["heavyness"]),
                      "Combiner(%s_%s, %s NfFF=%s PTO=%s, %s, Q2=%r) hands its partonic channels (class, nf, heavy quark) %s, the model expects the nf of the scheme"
                      % (b["cfg"]["kind"], b["cfg"]["heavyness"], b["cfg"]["theory"]["FNS"], b["cfg"]["theory"]["NfFF"], b["cfg"]["theory"]["PTO"], b["cfg"]["obs"]["prDIS"], b["cfg"]["Q2"], b["detail"]),
                      dict(kind="combiner", combiner=b["cfg"]))
    bad5 = assembly.run_assembly(chk, 40 if quick else 400)
    chk.oblige("correspondence compute_local: the scale-variation terms of every kernel use the Combiner's nf (also when the kernel's own nf differs)", not bad5, str(bad5[:1])[:500])
    heavy_rows_patrol(chk)
    patrol(chk, 9 if quick else 150)
    if chk.red() and not chk.violations:
        patrol(chk, 120)
    if chk.red() and not chk.violations:
        chk.violation("unproved", "a theorem or correspondence of C06 no longer checks: %s" % [o[0] for o in chk.red()],
                      dict(red=[(o[0], o[2]) for o in chk.red()], disagreements=(bad + bad2)[:3]), found_input=False)


def replay(path):
    import json
    r = json.load(open(path))
    if r["replay"].get("kind") == "combiner":
        t, d = wlayer.observe_collect(r["replay"]["combiner"]); print("replay: the real Combiner builds", d.get("detail")); return 1
    c = r["replay"].get("case")
    if not c:
        print("replay names a broken theorem/correspondence only:", r["what"]); return 1
    res = run_same_count(c) if r["replay"]["kind"] == "same_count" else run_case(c)
    print("replay:", res)
    return 1 if res else 0
