"""C10 — target-mass-corrected results equal the published formulas."""
import math, re
from fractions import Fraction as Fr
import numpy as np
from lib import common, cards, runs, spec
from lib.common import qc
from corr import tmc

LEVEL = "proof"
TRUSTED = ["Coq 8.16.1 kernel + vm_compute", "tools/corr/tmc.py (harness: stub StructureFunction, indicator kernels)",
           "hand-written model theories/TMC.v::tmc_model tied by correspondence on the real ESFTMC_* classes; tmc_spec in the same file is the specification "
           "(Schienbein et al. 0709.1775 eqs. 22-24 with h2, g2, h3; Accardi-Melnitchouk 0808.2397 D.26 for g1), transcribed by hand",
           "the integration kernels are regenerated from esf/tmc.py by tools/pyk2coq.py (translator) — C10_integrals is about those terms",
           "sqrt and ln enter the model as parameters (rho, ln xi): the harness feeds the code's own float values",
           "patrol: eko's basis functions and scipy.integrate.quad give the reference integrals; the uncorrected structure functions come from a TMC=0 run of the same code",
           "the quadrature accuracy of conv.convolution itself is C01's subject, not C10's"]
HEADER = tmc.HEADER
TERM_RE = re.compile(r"\(\(?(-?\d+)\)?(?:%Z)?, (\d+)(?:%positive)?, (Shifted \w+|Integral \w+ \w+)\)")
KIND_OF = {v: k for k, v in tmc.KINDS.items()}


def weight(ker, xi):
    return {"H2ker": lambda u: 1.0 / (u * u), "G2ker": lambda u: (u - xi) / (u * u), "H3ker": lambda u: 1.0 / u,
            "K2ker": lambda u: math.log(u / xi) / (u * u)}[ker]


def integral_weights(interp, ker, xi):
    """w_j = int_xi^1 du W(u) p_j(u)   (the published integrals, see C10_integrals)"""
    from scipy.integrate import quad
    grid = [float(v) for v in interp.xgrid.raw]
    W = weight(ker, xi)
    brk = [g for g in grid if xi < g < 1.0]
    out = []
    for pj in interp:
        v, _e = quad(lambda u, pj=pj: W(u) * float(pj(u)), xi, 1.0, points=brk or None, epsabs=1e-13, epsrel=1e-12, limit=400)
        out.append(v)
    return out


def coq_terms(points):
    """points: list of (kind, mode, x, M2, Q2, rho, xi, lnxi) -> per point (model terms, spec terms) as [(float coef, term str)]"""
    terms = []
    for (k, m, x, M2, Q2, rho, xi, lnxi) in points:
        K, M = tmc.KINDS[k], tmc.MODES[m]
        terms.append("model_at %s %s %s %s %s %s %s" % (K, M, qc(x), qc(Fr(M2) / Fr(Q2)), qc(rho), qc(xi), qc(lnxi)))
        terms.append("spec_at %s %s %s %s %s %s %s %s" % (K, M, qc(x), qc(M2), qc(Q2), qc(rho), qc(xi), qc(lnxi)))
    vals = common.eval_terms("tmc_patrol", HEADER, terms)
    parsed = [[(float(Fr(int(n), int(d))), t) for n, d, t in TERM_RE.findall(v)] for v in vals]
    for v, pr in zip(vals, parsed):
        if len(pr) != len(re.findall(r"Shifted|Integral", v)):
            raise common.CoqError("could not parse the printed terms: " + v[:200])
    return [(parsed[2 * i], parsed[2 * i + 1]) for i in range(len(points))]


def gen_case(rng, quick):
    kind = rng.choice(["F2", "FL", "F3", "g1"])
    mode = rng.choice([1, 2, 3])
    if kind == "F3":
        proc, proj = rng.choice([("CC", "neutrino"), ("CC", "antineutrino"), ("NC", "electron")])
    elif kind == "g1":
        proc, proj = rng.choice([("EM", "electron"), ("NC", "electron")])
    else:
        proc, proj = rng.choice([("EM", "electron"), ("NC", "positron"), ("CC", "neutrino")])
    pto = rng.choice([0, 1, 1] if quick else [0, 1, 1, 2])
    MP = rng.choice([0.938, 0.938, 1.5, common.dyadic(rng, 0.25, 3.0, 6)])
    Q2 = common.dyadic(rng, 2.0, 40.0, 6)
    xs = sorted(math.exp(rng.uniform(math.log(0.02), math.log(0.85))) for _ in range(2))
    hv = rng.choice(["total", "light"])
    return dict(kind=kind, mode=mode, proc=proc, proj=proj, pto=pto, MP=MP, Q2=Q2, xs=xs, heavyness=hv,
                grids=rng.sample([0, 1, 2], 2))


GRIDSPEC = [(tmc.GRIDS[0], 3, True), (tmc.GRIDS[1], 4, True), ([0.01, 0.03, 0.1, 0.2, 0.35, 0.5, 0.65, 0.8, 0.9, 1.0], 3, False)]


def run_case(c, tol=2e-6):
    """the same request on two different interpolation grids, one after the other in this process; each compared with the
    formula applied to the TMC=0 output of the same configuration.  Returns list of problems (dicts)."""
    probs = []
    name = c["kind"] + "_" + c["heavyness"]
    for gi in c["grids"]:
        grid, deg, lg = GRIDSPEC[gi]
        th = cards.theory_card(PTO=c["pto"], PTODIS=c["pto"], TMC=c["mode"], MP=c["MP"])
        okw = dict(prDIS=c["proc"], ProjectileDIS=c["proj"], xgrid=grid, degree=deg, is_log=lg)
        pts = [dict(x=x, Q2=c["Q2"]) for x in c["xs"]]
        out = runs.run(th, cards.obs_card({name: pts}, **okw))
        interp = tmc.interpolator(grid, deg, lg)
        M2 = c["MP"] ** 2
        kin = []
        for x in c["xs"]:
            mu = M2 / c["Q2"]; rho = float(np.sqrt(1 + 4 * x ** 2 * mu)); xi = 2 * x / (1 + rho)
            kin.append((c["kind"], c["mode"], x, M2, c["Q2"], rho, xi, float(np.log(xi))))
        both = coq_terms(kin)
        # the uncorrected structure functions: at every xi and at every grid node
        need = sorted({KIND_OF[t.split()[1]] for (mod, sp) in both for _c, t in mod + sp})
        nodes = [float(g) for g in grid]
        th0 = dict(th, TMC=0)
        raw_pts = [dict(x=k[6], Q2=c["Q2"]) for k in kin] + [dict(x=g, Q2=c["Q2"]) for g in nodes]
        raw = runs.run(th0, cards.obs_card({k + "_" + c["heavyness"]: raw_pts for k in need}, **okw))
        for i, x in enumerate(c["xs"]):
            xi = kin[i][6]
            wcache = {}

            def value(terms, key):
                tot = None
                for coef, t in terms:
                    parts = t.split()
                    k = KIND_OF[parts[1]] + "_" + c["heavyness"]
                    if parts[0] == "Shifted":
                        v = runs.tensor(raw[k][i], key)
                        v = 0.0 if v is None else coef * v
                    else:
                        if parts[2] not in wcache:
                            wcache[parts[2]] = integral_weights(interp, parts[2], xi)
                        v = 0.0
                        for j, w in enumerate(wcache[parts[2]]):
                            tj = runs.tensor(raw[k][len(kin) + j], key)
                            if tj is not None and w != 0.0:
                                v = v + coef * w * tj
                    tot = v if tot is None else tot + v
                return tot
            res = out[name][i]
            if res.x != x or res.Q2 != c["Q2"]:
                probs.append(dict(what="label", grid=gi, x=x, got=[res.x, res.Q2]))
            keys = sorted(set(res.orders) | set(raw[name][i].orders))
            for which, terms in (("model", both[i][0]), ("spec", both[i][1])):
                worst = None
                for key in keys:
                    got = runs.tensor(res, key)
                    exp = value(terms, key)
                    if got is None:
                        got = 0.0 * np.asarray(exp)
                    exp = np.asarray(exp) + 0.0 * got
                    sc = max(float(np.max(np.abs(exp))), float(np.max(np.abs(got))), 1e-30)
                    d = float(np.max(np.abs(got - exp))) / sc
                    if d > tol and (worst is None or d > worst["rel"]):
                        a, b = np.unravel_index(np.argmax(np.abs(got - exp)), got.shape)
                        worst = dict(what=which, grid=gi, x=x, xi=xi, key=list(key), pid=spec.PIDS[a], node=int(b), got=float(got[a, b]), expected=float(exp[a, b]), rel=d)
                if worst:
                    probs.append(worst)
    return probs


KNOWN_DEVIATION = {("F3", 1): "spec:F3:h3-kernel", ("F3", 3): "spec:F3:h3-kernel",
                   ("g1", 1): "spec:g1:normalisation", ("g1", 2): "spec:g1:normalisation", ("g1", 3): "spec:g1:normalisation"}
WHAT = {"spec:F3:h3-kernel": "F3 exact/APFEL TMC integrates x F3 with the kernel 1 (int du xF3/u); the published h3 = int du F3/u = int du xF3/u^2 needs z/xi (esf/tmc.py ESFTMC_F3._h3)",
        "spec:g1:normalisation": "g1 TMC multiplies the published bracket by 2 xi where the observable 2 x g1 needs 2 x: every mode is xi/x times the published formula (esf/tmc.py ESFTMC_g1._get_result_*)"}


def patrol(chk, n):
    bad, dist, crashed = 0, {}, {}
    # the two recorded deviations from the published formulas are replayed on every run (witnesses of C10_F3_exact_refuted / C10_g1_refuted)
    fixed = [dict(kind="F3", mode=3, proc="CC", proj="neutrino", pto=0, MP=0.938, Q2=4.0, xs=[0.3], heavyness="total", grids=[0]),
             dict(kind="g1", mode=3, proc="EM", proj="electron", pto=0, MP=0.938, Q2=4.0, xs=[0.3], heavyness="total", grids=[0])]
    for it in range(n + len(fixed)):
        c = fixed[it] if it < len(fixed) else gen_case(chk.rng, chk.tier == "quick")
        k = "%s/%s/%s/pto%d" % (c["kind"], tmc.MODES[c["mode"]], c["proc"], c["pto"])
        dist[k] = dist.get(k, 0) + 1
        try:
            probs = run_case(c)
        except Exception as e:
            crashed["%s: %s" % (type(e).__name__, str(e)[:60])] = crashed.get("%s: %s" % (type(e).__name__, str(e)[:60]), 0) + 1
            continue
        for p in probs:
            if p["what"] == "spec":
                key = KNOWN_DEVIATION.get((c["kind"], c["mode"]), "spec:%s:%s" % (c["kind"], tmc.MODES[c["mode"]]))
                if key in WHAT and any(q["what"] == "model" for q in probs):
                    continue        # the code moved away from the model as well: that is reported below
                chk.violation(key, WHAT.get(key, "%s TMC (%s) differs from the published formula applied to the TMC=0 output: %s"
                                            % (c["kind"], tmc.MODES[c["mode"]], {q: p[q] for q in ("x", "xi", "key", "pid", "node", "got", "expected", "rel")})),
                              dict(case=c, problem=p))
                if key not in WHAT:
                    bad += 1
            else:
                bad += 1
                chk.violation("run:%s:%s" % (c["kind"], tmc.MODES[c["mode"]]),
                              "%s TMC (%s) run differs from the modelled formula applied to the TMC=0 output of the same configuration: %s"
                              % (c["kind"], tmc.MODES[c["mode"]], {q: p.get(q) for q in ("what", "grid", "x", "xi", "key", "pid", "node", "got", "expected", "rel")}),
                              dict(case=c, problem=p))
    chk.patrol["tmc_run_vs_formula"] = dict(cases=n + len(fixed), failures=bad, distribution=dist, crashed_not_counted=crashed,
                                            rule="real TMC runs (modes 1-3; F2, FL, F3, g1; EM/NC/CC; LO/NLO; two different interpolation grids one after the other in "
                                                 "the same process) against the formula (tmc_spec and tmc_model evaluated by Coq at the run's kinematics) applied to the "
                                                 "TMC=0 output at xi and at every grid node, with the integrals int du W(u) p_j(u) taken by scipy.quad on eko's basis; "
                                                 "every order key and entry, rel 2e-6")
    return bad


def limits(chk):
    """massless limit, continuity, rejection below the grid (all modes, all kinds)"""
    bad = []
    n = 0
    for kind, proc, proj in (("F2", "EM", "electron"), ("FL", "NC", "electron"), ("F3", "CC", "neutrino"), ("g1", "EM", "electron")):
        name = kind + "_total"
        pts = [dict(x=0.1, Q2=10.0), dict(x=0.45, Q2=4.0)]
        okw = dict(prDIS=proc, ProjectileDIS=proj)
        ref = runs.run(cards.theory_card(PTO=1, TMC=0, MP=0.938), cards.obs_card({name: pts}, **okw))
        for mode in (1, 2, 3):
            for MP, tol in ((0.0, 1e-12), (1e-5, 1e-8)):
                n += 1
                out = runs.run(cards.theory_card(PTO=1, TMC=mode, MP=MP), cards.obs_card({name: pts}, **okw))
                for i in range(len(pts)):
                    w = runs.compare(out[name][i], ref[name][i], tol=tol)
                    if w:
                        bad.append(dict(what="massless", kind=kind, mode=mode, MP=MP, point=pts[i], diff=w))
            # xi below the grid: x just above the lowest node, heavy target
            n += 1
            xmin = 0.0009765625
            try:
                runs.run(cards.theory_card(PTO=0, TMC=mode, MP=30.0), cards.obs_card({name: [dict(x=xmin * 1.0001, Q2=2.0)]}, **okw))
                bad.append(dict(what="not-rejected", kind=kind, mode=mode, x=xmin * 1.0001, Q2=2.0, MP=30.0))
            except ValueError:
                pass
            except Exception as e:
                bad.append(dict(what="crash-instead-of-rejection", kind=kind, mode=mode, exc="%s: %s" % (type(e).__name__, str(e)[:80])))
    chk.patrol["tmc_limits"] = dict(cases=n, failures=len(bad),
                                    rule="M = 0 gives the TMC=0 operator (1e-12), M = 1e-5 GeV within 1e-8; a request whose xi falls below the lowest grid node raises ValueError; "
                                         "F2/FL/F3/g1 x modes 1-3 at NLO")
    for b in bad[:4]:
        chk.violation("limit:%s:%s:%s" % (b["what"], b["kind"], b["mode"]), "TMC limit/rejection fails: %s" % b, dict(limit=b))
    return bad


def run(chk):
    chk.trusted = TRUSTED
    quick = chk.tier == "quick"
    common.check_props_file(chk, "C10")
    bad = tmc.run_tmc(chk, 300 if quick else 3000)
    chk.oblige("correspondence TMC classes (coefficients, terms, rejection)", not bad, str(bad[:1]))
    for b in bad[:3]:
        chk.violation("corr:%s:%s" % (b["kind"], tmc.MODES[b["tmc"]]),
                      "ESFTMC_%s (%s) at x=%r Q2=%r M2=%r does not combine the terms the model states: %s"
                      % (b["kind"], tmc.MODES[b["tmc"]], b["x"], b["Q2"], b["M2"], b.get("problems") or b.get("crash") or b.get("terms")), dict(corr=b))
    limits(chk)
    patrol(chk, 8 if quick else 60)
    if chk.red() and not chk.violations:
        patrol(chk, 40)
    if chk.red() and not chk.violations:
        chk.violation("unproved", "a theorem or correspondence of C10 no longer checks: %s" % [o[0] for o in chk.red()],
                      dict(red=[(o[0], o[2]) for o in chk.red()]), found_input=False)


def replay(path):
    import json
    r = json.load(open(path))["replay"]
    if "case" in r:
        probs = run_case(r["case"])
        print("replay:", probs)
        return 1 if probs else 0
    if "corr" in r:
        b = r["corr"]
        o = tmc.observe(b["kind"], b.get("heavyness", "total"), b["M2"], b["tmc"], b["x"], b["Q2"], tmc.interpolator(*[(g, d, l) for g, d, l in ((tmc.GRIDS[0], 3, True), (tmc.GRIDS[1], 4, True), (tmc.GRIDS[2], 2, False))][b["grid"]]))
        print("replay: the real class combines", o.get("terms"), o.get("problems"), o.get("rejected"))
        return 1
    if "limit" in r:
        print("replay: see tmc_limits:", r["limit"]); return 1
    print("replay names a broken theorem/correspondence only"); return 1
