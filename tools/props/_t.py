from lib import common
from corr import wlayer
def run(chk):
    bad = wlayer.run_couplings(chk, 20)
    print("bad couplings", bad[:2])
    bad = wlayer.run_combiner(chk, 100)
    print("bad combiner", len(bad))
    for b in bad[:10]: print(b)
