"""C17 — applying a PDF contracts the operator with the right scales and couplings."""
import numpy as np
from lib import common, cards, runs, spec
from corr import results, thresholds

LEVEL = "proof"
TRUSTED = ["Coq 8.16.1 kernel + vm_compute", "tools/corr/results.py (harness)",
           "hand-written model theories/Result.v (apply_pdf), CorrResult.v::alphas_nf tied by correspondence",
           "eko.couplings.Couplings (the running of alpha_s itself) is not modelled: only the scale and nf it is asked for",
           "ln(1/xi^2) enters the model as the float the code computes"]


class TPDF:
    """smooth toy PDF set; `scale` records the factorisation scales asked"""
    def __init__(self, missing=(), coef=1.0):
        self.missing, self.coef, self.scales = set(missing), coef, set()

    def hasFlavor(self, pid):
        return pid not in self.missing

    def xfxQ2(self, pid, x, Q2):
        self.scales.add(Q2)
        return self.coef * x ** (0.5 + 0.05 * abs(pid) % 7) * (1 - x) ** (2 + (pid % 3)) * (1.0 + 0.1 * np.log(Q2)) * (1.0 if pid > 0 else 0.7)


class Sum:
    def __init__(self, a, b, c):
        self.a, self.b, self.c = a, b, c

    def hasFlavor(self, pid):
        return True

    def xfxQ2(self, pid, x, Q2):
        return (self.a.xfxQ2(pid, x, Q2) if self.a.hasFlavor(pid) else 0.0) + self.c * (self.b.xfxQ2(pid, x, Q2) if self.b.hasFlavor(pid) else 0.0)


def formula(out, name, i, pdf, a_s, aq, xiR, xiF):
    r = out[name][i]
    xg = out["xgrid"]["grid"]
    muF2 = r.Q2 * xiF ** 2
    tot = 0.0
    asv = a_s(np.sqrt(r.Q2) * xiR) / (4 * np.pi); aqv = aq(np.sqrt(r.Q2) * xiR)
    LR, LF = np.log(1 / xiR ** 2), np.log(1 / xiF ** 2)
    for (k, l, ii, jj), (v, _e) in r.orders.items():
        c = 0.0
        for row, pid in zip(v, out["pids"]):
            if not pdf.hasFlavor(pid):
                continue
            for val, xj in zip(row, xg):
                c += val * pdf.xfxQ2(pid, xj, muF2) / xj
        tot += asv ** k * aqv ** l * LR ** ii * LF ** jj * c
    return tot


def patrol(chk, n):
    bad, dist, crashed = [], {}, {}
    rng = chk.rng
    for _ in range(n):
        pto = rng.choice([1, 2])
        th = cards.theory_card(PTO=pto, PTODIS=pto, FNS=rng.choice(["ZM-VFNS", "FFNS"]), NfFF=4, RenScaleVar=True, FactScaleVar=True,
                               kcThr=rng.choice([1.0, 2.0]), kbThr=rng.choice([1.0, 2.0]))
        proc = rng.choice(["NC", "CC", "EM"])
        name = rng.choice(["F2", "FL", "F3"] if proc != "EM" else ["F2", "FL"]) + "_light"
        pts = [dict(x=rng.choice([0.125, 0.3, 0.5]), Q2=common.dyadic(rng, 3.0, 300.0, 6)) for _ in range(3)]
        obs = {name: pts, "XSHERANCAVG_light": [dict(p, y=0.5) for p in pts]} if proc == "NC" else {name: pts}
        key = "%s/%s/PTO%d" % (th["FNS"], proc, pto)
        dist[key] = dist.get(key, 0) + 1
        try:
            out = runs.run(th, cards.obs_card(obs, prDIS=proc))
            xiR = rng.choice([1.0, 0.5, 2.0, 1.25]); xiF = rng.choice([1.0, 0.5, 2.0, 0.75])
            a_s = lambda mu: 0.3 / (1 + 0.2 * np.log(mu))
            aq = lambda mu: 0.0075
            p1, p2 = TPDF(missing=rng.choice([(), (-6, 6, 22), (21,)])), TPDF(coef=0.3, missing=(3,))
            res1 = out.apply_pdf_alphas_alphaqed_xir_xif(p1, a_s, aq, xiR, xiF)
            res2 = out.apply_pdf_alphas_alphaqed_xir_xif(p2, a_s, aq, xiR, xiF)
            res12 = out.apply_pdf_alphas_alphaqed_xir_xif(Sum(p1, p2, -1.5), a_s, aq, xiR, xiF)
            for nm in obs:
                for i in range(len(pts)):
                    exp = formula(out, nm, i, p1, a_s, aq, xiR, xiF)
                    got = res1[nm][i]["result"]
                    lin = res12[nm][i]["result"] - (got - 1.5 * res2[nm][i]["result"])
                    sc = max(1e-3, abs(exp))
                    if abs(got - exp) > 1e-11 * sc or abs(lin) > 1e-11 * max(sc, abs(res2[nm][i]["result"])):
                        bad.append((dict(theory=th, proc=proc, obs=nm, point=pts[i], xiR=xiR, xiF=xiF), dict(got=got, expected=exp, linearity_defect=lin)))
        except Exception as e:
            crashed[type(e).__name__ + ":" + str(e)[:60]] = crashed.get(type(e).__name__ + ":" + str(e)[:60], 0) + 1
    chk.patrol["apply_pdf_on_real_outputs"] = dict(cases=n, failures=len(bad), distribution=dist, crashed_not_counted=crashed,
                                                   rule="real outputs (PTO 1-2 with all scale-variation keys, SF and XS entries): Output.apply_pdf_alphas_alphaqed_xir_xif "
                                                        "vs the formula of the statement evaluated independently on out[obs][i].orders; linearity f1 - 1.5 f2; missing flavours")
    for c, r in bad[:3]:
        chk.violation("applypdf:%s:%s" % (c["obs"], c["proc"]), "prediction differs from the contraction formula: %s" % r, dict(case=c, result=r))
    return bad


def run(chk):
    chk.trusted = TRUSTED
    quick = chk.tier == "quick"
    common.check_props_file(chk, "C17")
    for name, fn, n in (("ESFResult.apply_pdf", results.run_apply_pdf, 120 if quick else 1500),
                        ("alpha_s dispatch of Output.apply_pdf_theory", results.run_alphas_dispatch, 60 if quick else 600)):
        bad = fn(chk, n)
        chk.oblige("correspondence " + name, not bad, str(bad[:1]))
        for b in bad[:2]:
            if "calls" in b:   # the disagreeing dispatch case is itself a concrete failing input
                chk.violation("alphas:%s" % b["fns"], "apply_pdf_theory asks alpha_s for a scale / number of flavours other than the theory card dictates: %s"
                              % dict(fns=b["fns"], NfFF=b["NfFF"], walls=b["walls"], xiR=b["xiR"], calls=b["calls"][:5]), dict(case=b))
    bad2 = thresholds.run_thresholds(chk, 40 if quick else 400)
    chk.oblige("correspondence nf_default (shared with C06)", not bad2, str(bad2[:1]))
    patrol(chk, 8 if quick else 80)
    if chk.red() and not chk.violations:
        patrol(chk, 60)
    if chk.red() and not chk.violations:
        chk.violation("unproved", "a theorem or correspondence of C17 no longer checks: %s" % [o[0] for o in chk.red()],
                      dict(red=[(o[0], o[2]) for o in chk.red()]), found_input=False)


def replay(path):
    import json
    r = json.load(open(path))
    print("replay by re-running ./check C17 with the same VERIF_SEED; recorded:", r["what"])
    return 1
