"""C04 — sum rules and NLO closed forms of the massless coefficient functions."""
import numpy as np
import scipy.integrate as si
from lib import common, obrun
import closedforms, moments

LEVEL = "proof"
TRUSTED = ["Coq 8.16.1 kernel; Coquelicot; CoqInterval (integral_intro, interval) incl. its use of primitive floats/ints "
           "(FloatAxioms.*, PrimFloat.*, PrimInt63.* appear in Print Assumptions — standard-library primitives)",
           "axioms of Reals, functional_extensionality_dep, classic as printed",
           "tools/pyk2coq.py + tools/sites.py (translators); decimal literals read as exact decimals",
           "theories/SpecNLO.v and the sum-rule coefficients in tools/moments.py::TARGETS are the specification (literature values)",
           "NOT proved: that the sum of the group integrals equals RInt_gen of the regular part over (0,1) (linearity + the change of variable z -> 1-u); "
           "the splits themselves (reg_lower, reg_upper) are proved pointwise",
           "NLO first moments are not bounded in Coq (they follow from the exact closed forms); they are evaluated numerically by the patrol"]


def m1(reg, loc, nf, delta=None):
    a = np.array([float(nf)])
    i, _ = si.quad(lambda z: reg(z, a), 0, 1, epsabs=1e-12, epsrel=1e-12, limit=400, points=[0.5])
    return i + (loc(0.0, a) if loc is not None else delta)


def patrol(chk):
    """the statement on the implementation: first moments of the RSL objects the light classes return"""
    from yadism.coefficient_functions.light import f2_cc, f2_nc, f3_nc, g1_nc
    from yadism.coefficient_functions.light import kernels as lk
    import types
    # the classes as the Combiner resolves them (module chosen by kind and process, class by name): a sum rule holds for what a run uses
    wired = lambda kind, proc, cls: getattr(lk.import_pc_module(kind, proc), cls)
    bad, n = [], 0
    for nf in (3, 4, 5, 6):
        esf = types.SimpleNamespace()
        G = {1: -4.0, 2: -(220 / 3 - 16 * nf / 3), 3: -64 * (41.4399 - 7.6073 * nf + 0.17747 * nf ** 2)}
        tol = {1: 1e-9, 2: 0.02, 3: 0.15}
        table = [("Adler", f2_cc.NonSingletOdd, {1: 0.0, 2: 0.0, 3: 0.0}), ("Adler (NLO, common to both combinations)", f2_nc.NonSinglet, {1: 0.0}),
                 ("GLS", f3_nc.NonSinglet, G), ("Bjorken", g1_nc.NonSinglet, {1: G[1], 2: G[2]}),
                 ("GLS fl02", f3_nc.Valence, {3: 64 * 0.41318 * nf}),
                 ("Adler", wired("F2", "CC", "NonSingletOdd"), {1: 0.0, 2: 0.0, 3: 0.0}), ("GLS", wired("F3", "CC", "NonSingletOdd"), G),
                 ("GLS fl02", wired("F3", "CC", "Valence"), {3: 64 * 0.41318 * nf}), ("GLS", wired("F3", "NC", "NonSinglet"), G),
                 ("GLS fl02", wired("F3", "NC", "Valence"), {3: 64 * 0.41318 * nf}), ("Bjorken", wired("g1", "NC", "NonSinglet"), {1: G[1], 2: G[2]})]
        for rule, cls, targets in table:
            pc = cls(esf, nf)
            for o, tgt in targets.items():
                rsl = pc[o]()
                n += 1
                if rsl is None or (rsl.reg is None and rsl.loc is None):
                    bad.append(dict(rule=rule, cls=cls.__module__.split(".")[-1] + "." + cls.__name__, order=o, nf=nf, first_moment=0.0, expected=tgt, tol=0.0,
                                    note="the class returns no coefficient function at this order"))
                    continue
                reg = (lambda z, r=rsl: r.reg(z, r.args["reg"]))
                i, _ = si.quad(reg, 0, 1, epsabs=1e-12, epsrel=1e-12, limit=400, points=[0.5])
                val = i + (rsl.loc(0.0, rsl.args["loc"]) if rsl.loc is not None else 0.0)
                t = 0.06 if rule == "GLS fl02" else tol[o]
                if not abs(val - tgt) <= t:
                    bad.append(dict(rule=rule, cls=cls.__module__.split(".")[-1] + "." + cls.__name__, order=o, nf=nf, first_moment=val, expected=tgt, tol=t))
    chk.patrol["moments_on_implementation"] = dict(cases=n, failures=len(bad),
                                                   rule="first moments int_0^1 reg + loc(0) of the RSL objects returned by light.f2_cc.NonSingletOdd / f2_nc / f3_nc / g1_nc NonSinglet and "
                                                        "f3_nc.Valence, and of the classes the Combiner resolves for (F2, CC), (F3, CC), (F3, NC), (g1, NC), for orders 1..3 and nf = 3..6 (scipy quad) against the Adler / GLS / Bjorken coefficients")
    for b in bad[:4]:
        chk.violation("moment:%s:%s:%s" % (b["rule"], b.get("cls", ""), b.get("order", b.get("N"))), "sum rule / moment violated on the implementation: %s" % b, b)
    return bad


def run(chk):
    chk.trusted = TRUSTED
    common.check_props_file(chk, "C04")
    axioms = set()
    f1, m1s, miss1 = closedforms.generate(common.REPO)
    r1 = obrun.compile_all(f1, subdir="cf")
    for m in m1s:
        ok, log, ax = r1[m["name"] + ".v"]
        axioms |= set(ax)
        chk.oblige("gen/cf/%s closed form of %s (= %s)" % (m["name"], m["site"], m["spec"]), ok, log[-400:])
    f2, m2s, miss2 = moments.generate(common.REPO)
    r2 = obrun.compile_all(f2, subdir="mo", timeout=1500)
    for m in m2s:
        ok, log, ax = r2[m["name"] + ".v"]
        axioms |= set(ax)
        chk.oblige("gen/mo/%s %s first moment of %s (%d group integrals)" % (m["name"], m["rule"], m["site"], m["groups"]), ok, log[-400:])
    for x in miss1 + miss2:
        chk.oblige("site %s: %s" % (x["site"], x["why"]), False)
    prim = common.PRIMITIVE_PREFIXES
    bad_ax = [a for a in axioms if not common.axiom_allowed(a)]
    chk.oblige("generated obligations depend only on standard-library axioms / primitives", not bad_ax, str(bad_ax))
    chk.assumptions = sorted(set(chk.assumptions) | {a for a in axioms if not a.startswith(prim)} | {"primitive floats and 63-bit integers of the standard library (CoqInterval): " + ", ".join(sorted({a.split(".")[0] for a in axioms if a.startswith(prim)}))})
    chk.extra["generated_obligations"] = len(m1s) + len(m2s)
    chk.samples.append(m2s[0] if m2s else {})
    chk.samples.append(m1s[0] if m1s else {})
    patrol(chk)
    if chk.red() and not chk.violations:
        chk.violation("unproved", "an obligation of C04 no longer checks: %s" % [o[0] for o in chk.red()][:5],
                      dict(red=[(o[0], o[2]) for o in chk.red()][:8]), found_input=False)


def replay(path):
    import json
    r = json.load(open(path))
    print("recorded:", r["what"]); return 1
