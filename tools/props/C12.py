"""C12 — nuclear target = isospin rotation of up and down."""
import numpy as np
from lib import common, cards, runs, spec
from corr import wlayer

LEVEL = "proof"
TRUSTED = ["Coq 8.16.1 kernel + vm_compute", "tools/corr/wlayer.py (harness)", "tools/tables.py (translator of the named-target table)",
           "hand-written model theories/Combiner.v (functional apply_isospin) tied by correspondence only",
           "operators are linear in the parton maps (compute_local; C01 assembly)"]
DOC = {"proton": (1.0, 1.0), "neutron": (0.0, 1.0), "isoscalar": (1.0, 2.0), "iron": (23.403, 49.618),
       "lead": (82.0, 208.0), "neon": (10.0, 20.0), "marble": (10.0, 20.0)}


def rotated(res_p, z, a):
    """key -> tensor of the proton result rotated to the target (Z, A)"""
    out = {}
    idx = {p: i for i, p in enumerate(spec.PIDS)}
    for k, (v, _e) in res_p.orders.items():
        v = np.array(v); t = v.copy()
        for s in (1, -1):
            d, u = idx[s * 1], idx[s * 2]
            t[d] = z / a * v[d] + (a - z) / a * v[u]
            t[u] = z / a * v[u] + (a - z) / a * v[d]
        out[k] = t
    return out


def gen_case(rng, quick):
    th, ob = wlayer.rand_ew(rng)
    fns = rng.choice(["ZM-VFNS", "FFNS", "FFN0", "FONLL-FFNS", "FONLL-FFN0"])
    pto = rng.choice([0, 1, 1, 2] if quick else [0, 1, 2, 2, 3])
    proc = ob["prDIS"]
    kind = rng.choice(["F2", "FL", "F3"] if proc == "CC" else ["F2", "FL", "F3", "g1", "g4", "gL"])
    if "FFN0" in fns and proc != "CC" and kind in ("F2", "FL"):
        kind = rng.choice(["F3", "g1"])      # asy NC F2/FL cannot be imported in this sandbox (adani)
    if kind.startswith("g") and pto == 3:
        pto = 2
    if "FF" in fns and pto == 3:
        pto = 2
    if proc != "CC" and ob["ProjectileDIS"] in ("neutrino", "antineutrino"):
        ob["ProjectileDIS"] = "electron"
    th.update(FNS=fns, NfFF=rng.choice([3, 4, 5]), PTO=pto, PTODIS=pto, RenScaleVar=rng.random() < 0.5, FactScaleVar=rng.random() < 0.5)
    if rng.random() < 0.5:
        tgt = rng.choice(list(DOC))
        za = DOC[tgt]
    else:
        a = rng.choice([1.0, 2.0, 4.0, 49.618, 208.0]); z = rng.choice([0.0, a, common.dyadic(rng, 0.0, 1.0, 6) * a])
        tgt = dict(Z=z, A=a) if rng.random() < 0.5 else dict(A=a, Z=z); za = (z, a)
    hv = rng.choice(["total", "light", "light", "charm"])
    Q2 = rng.choice([common.dyadic(rng, 4.0, 64.0, 6), common.dyadic(rng, 30.0, 2000.0, 8)])
    x = rng.choice([0.125, 0.25, 0.5, common.dyadic(rng, 0.02, 0.8, 10)])
    return dict(theory=th, obs=ob, name=kind + "_" + hv, target=tgt, za=za, x=x, Q2=Q2)


def run_case(c):
    pt = [dict(x=c["x"], Q2=c["Q2"])]
    th = cards.theory_card(**c["theory"])
    rp = runs.run(th, cards.obs_card({c["name"]: pt}, **dict(c["obs"], TargetDIS="proton")))[c["name"]][0]
    rt = runs.run(th, cards.obs_card({c["name"]: pt}, **dict(c["obs"], TargetDIS=c["target"])))[c["name"]][0]
    exp = rotated(rp, *c["za"])
    worst = None
    for k in sorted(set(exp) | set(rt.orders)):
        a = np.array(rt.orders[k][0]) if k in rt.orders else 0 * exp[k]
        b = exp.get(k, 0 * a)
        d = float(np.max(np.abs(a - b))); scale = max(1.0, float(np.max(np.abs(b))))
        if d > 1e-11 * scale and (worst is None or d > worst["diff"]):
            i, j = np.unravel_index(np.argmax(np.abs(a - b)), a.shape)
            worst = dict(key=list(k), pid=spec.PIDS[i], node=int(j), target_run=float(a[i, j]), rotated_proton=float(b[i, j]), diff=d)
    return worst


def patrol(chk, n):
    dist, bad, crashed = {}, [], {}
    for _ in range(n):
        c = gen_case(chk.rng, chk.tier == "quick")
        key = "%s/%s/%s" % (c["theory"]["FNS"], c["obs"]["prDIS"], c["target"] if isinstance(c["target"], str) else "ZA")
        dist[key] = dist.get(key, 0) + 1
        try:
            r = run_case(c)
        except Exception as e:
            crashed[type(e).__name__] = crashed.get(type(e).__name__, 0) + 1
            continue
        if r is not None:
            bad.append((c, r))
    chk.patrol["target_vs_rotated_proton"] = dict(
        cases=n, failures=len(bad), distribution=dist, crashed_not_counted=crashed,
        rule="pairs of real runs (all schemes, PTO 0..3, SV on/off): target run (named or Z/A dict) vs proton run with u/d rows mixed "
             "by the documented (Z,A); every order key, entry-wise, tol 1e-11")
    for c, r in bad[:3]:
        chk.violation("isospin:%s:%s:%s" % (c["theory"]["FNS"], c["name"], c["obs"]["prDIS"]),
                      "target %s of %s (%s, PTO %d) is not the isospin-rotated proton result: %s"
                      % (c["target"], c["name"], c["theory"]["FNS"], c["theory"]["PTO"], r), dict(case=c, result=r))
    return bad


def run(chk):
    chk.trusted = TRUSTED
    quick = chk.tier == "quick"
    common.check_props_file(chk, "C12")
    bad2 = wlayer.run_combiner(chk, 250 if quick else 2500, name="combiner_targets")
    chk.oblige("correspondence combiner with random targets (model = Combiner.collect_elems)", not bad2, str(bad2[:1]))
    patrol(chk, 40 if quick else 400)
    if chk.red() and not chk.violations:
        patrol(chk, 300)
    if chk.red() and not chk.violations:
        chk.violation("unproved", "a theorem or correspondence of C12 no longer checks: %s" % [o[0] for o in chk.red()],
                      dict(red=[(o[0], o[2]) for o in chk.red()], disagreements=bad2[:3]), found_input=False)


def replay(path):
    import json
    r = json.load(open(path))
    c = r["replay"].get("case")
    if not c:
        print("replay names a broken theorem/correspondence only:", r["what"]); return 1
    res = run_case(c)
    print("replay:", res)
    return 1 if res else 0
