"""C18 — compiled kernels agree with Python semantics; no out-of-bounds read."""
from lib import common, rslsweep
from corr import jit
import sites, pyk2coq

LEVEL = "proof"
TRUSTED = ["Coq 8.16.1 kernel + vm_compute", "tools/pyk2coq.py and tools/sites.py (translators: the theorem is about their output)",
           "LLVM code generation, float contraction and the Chebyshev implementations of li2 / nielsen are NOT modelled: numerical agreement of the "
           "compiled kernels with the interpreter is sampled (tools/corr/jit.py), not proved"]


def search_oob(chk, budget):
    """look for a concrete RSL object whose part raises IndexError (interpreter) — the replay of an out-of-bounds read"""
    found = {}
    n = 0
    for c in rslsweep.cells(chk.rng, full=False)[:budget]:
        for ident, rsl, _coeff in rslsweep.rsls_of_cell(c):
            n += 1
            if isinstance(rsl, tuple):
                continue
            for p, v in rslsweep.call_parts(rsl).items():
                if isinstance(v, IndexError):
                    found.setdefault((ident["cls"], ident["order"], p), dict(ident=ident, part=p, error=str(v)))
    chk.patrol["rsl_parts_called"] = dict(cases=n, failures=len(found),
                                          rule="every RSL object the real Combiner builds over sampled lattice cells, each part called once at z=0.5 with the "
                                               "arguments it is handed (interpreter mode): an IndexError is the Python face of an out-of-bounds read")
    for (cls, o, p), f in found.items():
        chk.violation("oob:%s:%d:%s" % (cls, o, p), "%s order %d: part '%s' reads beyond the arguments it is handed (%s); under the JIT this is an "
                      "unchecked out-of-bounds read" % (cls, o, p, f["error"]), f)
    return found


def run(chk):
    chk.trusted = TRUSTED
    quick = chk.tier == "quick"
    common.check_props_file(chk, "C18")
    _tr, ss = sites.extract(common.REPO)
    chk.extra["sites"] = len(ss)
    chk.extra["sites_with_translated_parts"] = sum(1 for s in ss if any(s.parts[p] and s.parts[p]["kind"] == "kernel" for p in sites.PARTS))
    chk.samples.append(dict(site=ss[0].ident, nargs=ss[0].nargs))
    bad = jit.run_jit(chk, limit=40 if quick else None)
    chk.oblige("support: compiled kernels = interpreter on sampled points (not a proof)", not bad, str(bad[:2]))
    for b in bad[:3]:
        chk.violation("jit:%s" % b["kernel"], "compiled kernel differs from the interpreter: %s" % b, b)
    search_oob(chk, 250 if quick else 100000)
    if chk.red() and not chk.violations:
        search_oob(chk, 100000)
    if chk.red() and not chk.violations:
        chk.violation("unproved", "a theorem of C18 no longer checks: %s" % [o[0] for o in chk.red()],
                      dict(red=[(o[0], o[2]) for o in chk.red()], coq_error=chk.extra.get("coq_error", "")[-800:]), found_input=False)


def replay(path):
    import json
    r = json.load(open(path))
    print("recorded:", r["what"]); return 1
