"""C07 — heavyness, FONLL-part and coupling-restricted results add up."""
import numpy as np
from lib import common, cards, runs, spec
from corr import wlayer

LEVEL = "proof"
TRUSTED = ["Coq 8.16.1 kernel + vm_compute", "tools/corr/wlayer.py (harness)",
           "hand-written model theories/Couplings.v, Weights.v, Combiner.v tied by correspondence only",
           "operators are linear in the kernel list (compute_local sums kernel by kernel; C01 assembly)"]


def sum_results(results):
    """key -> summed tensor"""
    out = {}
    for r in results:
        for k, (v, _e) in r.orders.items():
            out[k] = out.get(k, 0) + np.array(v)
    return out


def compare_sum(total, parts, tol=1e-11):
    s = sum_results(parts)
    worst = None
    for k in sorted(set(s) | set(total.orders)):
        a = np.array(total.orders[k][0]) if k in total.orders else 0 * s[k]
        b = s.get(k, 0 * a)
        scale = max(1.0, float(np.max(np.abs(a))))
        d = float(np.max(np.abs(a - b)))
        if d > tol * scale and (worst is None or d > worst["diff"]):
            i, j = np.unravel_index(np.argmax(np.abs(a - b)), a.shape)
            worst = dict(key=list(k), pid=spec.PIDS[i], node=int(j), whole=float(a[i, j]), sum_of_parts=float(b[i, j]), diff=d)
    return worst


def gen_case(rng, quick, wide=False):
    th, ob = wlayer.rand_ew(rng)
    kindsNC = ["F2", "FL", "F3", "g1", "g4", "gL"]
    rel = rng.choice(["fonll", "zm", "ffns", "pos"])
    proc = ob["prDIS"]
    pto = rng.choice([0, 1, 2, 3, 3] if wide else ([0, 1, 1] if quick else [0, 1, 1, 2, 3]))
    Q2 = rng.choice([common.dyadic(rng, 4.0, 64.0, 6), common.dyadic(rng, 30.0, 2000.0, 8)])
    if rng.random() < (0.35 if wide else 0.12):
        Q2 = rng.choice([40000.0, 65536.0])       # above the top matching scale: six active flavours
    x = rng.choice([0.125, 0.25, 0.5, common.dyadic(rng, 0.02, 0.8, 10)])
    th.update(PTO=pto, PTODIS=pto, RenScaleVar=rng.random() < 0.5, FactScaleVar=rng.random() < 0.5,
              mc=1.5, mb=4.5, mt=173.0)
    ob["NCPositivityCharge"] = None
    ob["TargetDIS"] = rng.choice(["proton", "proton", "neutron", "isoscalar", "iron"])
    if proc == "CC":
        kind = rng.choice(["F2", "FL", "F3"])
    else:
        kind = rng.choice(kindsNC)
        if ob["ProjectileDIS"] in ("neutrino", "antineutrino"):
            ob["ProjectileDIS"] = "electron"
    if kind in ("F2", "FL", "F3", "g1") and rel in ("ffns", "zm", "fonll") and rng.random() < 0.4:
        # target-mass corrections are linear in the structure functions of ONE flavour: additivity must survive them
        th.update(TMC=rng.choice([1, 2, 3]), MP=0.5)
    return dict(rel=rel, theory=th, obs=ob, kind=kind, x=x, Q2=Q2)


def run_case(c):
    """returns (worst or None); raises on crash"""
    th, ob, kind, rel = dict(c["theory"]), dict(c["obs"]), c["kind"], c["rel"]
    pt = [dict(x=c["x"], Q2=c["Q2"])]
    if kind.startswith("XS"):
        pt = [dict(x=c["x"], Q2=c["Q2"], y=0.5)]        # cross sections are linear in the structure functions of one flavour: additivity carries over
    if rel == "zm":
        th.update(FNS="ZM-VFNS")
        out = runs.run(cards.theory_card(**th), cards.obs_card({kind + "_total": pt, kind + "_light": pt}, **ob))
        return compare_sum(out[kind + "_total"][0], [out[kind + "_light"][0]])
    if rel == "ffns":
        nfff = c.get("nfff", 3)
        th.update(FNS="FFNS", NfFF=nfff)
        names = ["light"] + [h for h, n in (("charm", 4), ("bottom", 5), ("top", 6)) if n > nfff]
        obs = {kind + "_" + n: pt for n in ["total"] + names}
        out = runs.run(cards.theory_card(**th), cards.obs_card(obs, **ob))
        return compare_sum(out[kind + "_total"][0], [out[kind + "_" + n][0] for n in names])
    if rel == "fonll":
        th.update(FNS="FONLL-FFNS", NfFF=c.get("nfff", 3))
        hv = c.get("heavyness", "total")
        res = {}
        for parts in ("full", "massless", "massive"):
            t = cards.theory_card(**dict(th, FONLLParts=parts))
            res[parts] = runs.run(t, cards.obs_card({kind + "_" + hv: pt}, **ob))[kind + "_" + hv][0]
        return compare_sum(res["full"], [res["massless"], res["massive"]])
    if rel == "pos":
        if ob["prDIS"] == "CC":
            ob["prDIS"] = "NC"; 
            if kind not in ("F2", "FL", "F3"):
                kind = "F2"
        th.update(FNS=c.get("fns", "ZM-VFNS"), NfFF=c.get("nfff", 4))
        hv = c.get("heavyness", "total")
        full = runs.run(cards.theory_card(**th), cards.obs_card({kind + "_" + hv: pt}, **ob))[kind + "_" + hv][0]
        parts = []
        for q in ("down", "up", "strange", "charm", "bottom", "top"):
            parts.append(runs.run(cards.theory_card(**th), cards.obs_card({kind + "_" + hv: pt}, **dict(ob, NCPositivityCharge=q)))[kind + "_" + hv][0])
        return compare_sum(full, parts)
    raise ValueError(rel)


def patrol(chk, n, wide=False):
    dist, bad, crashed = {}, [], {}
    quick = chk.tier == "quick"
    # always part of the patrol: fixed-flavour total = light + heavy with the two integral-based target-mass prescriptions
    fixed = [] if wide else [dict(rel="ffns", theory=dict(PTO=1, PTODIS=1, TMC=t, MP=0.5, mc=1.5, mb=4.5, mt=173.0), obs=dict(prDIS="NC"), kind=k, x=0.25, Q2=8.0,
                                  fixed_nfff=3) for t, k in ((1, "F2"), (3, "FL"))] + \
            [dict(rel="ffns", theory=dict(PTO=1, PTODIS=1, mc=1.5, mb=4.5, mt=173.0), obs=dict(prDIS="NC", ProjectileDIS="electron"), kind="XSHERANC", x=0.25, Q2=90.0, fixed_nfff=3)]
    for it in range(n + len(fixed)):
        c = fixed[it - n] if it >= n else gen_case(chk.rng, quick, wide)
        if c['theory']['PTO'] == 3:
            c['rel'] = chk.rng.choice(['pos', 'zm']); c['kind'] = chk.rng.choice(['F2', 'FL', 'F3'])
        c["nfff"] = c.get("fixed_nfff") or chk.rng.choice([3, 3, 4, 5])
        c["heavyness"] = chk.rng.choice(["total", "total", "light", "charm", "bottom"])
        c["fns"] = chk.rng.choice(["ZM-VFNS", "FFNS"])
        if c["theory"]["PTO"] == 3:
            # the massive heavy-quark kernels at N3LO return NaN on this tree/sandbox (heavy/n3lo grids, adani); the runner replaces non-finite entries of
            # a row by 0 AFTER the kernels were summed, so sums over coupling restrictions are not meaningful there: N3LO is compared in the massless scheme
            c["fns"] = "ZM-VFNS"
        key = "%s/%s/%s" % (c["rel"], c["obs"]["prDIS"], c["kind"])
        dist[key] = dist.get(key, 0) + 1
        try:
            r = run_case(c)
        except Exception as e:
            crashed[type(e).__name__] = crashed.get(type(e).__name__, 0) + 1
            continue
        if r is not None:
            bad.append((c, r))
    chk.patrol["sum_rules_wide" if wide else "sum_rules"] = dict(cases=n + len(fixed), failures=len(bad), distribution=dist, crashed_not_counted=crashed,
                                   rule="real runs (target-mass corrections on in part of them, two fixed FFNS cases with TMC 1 and 3, one fixed FFNS cross-section case XSHERANC): ZM total vs light; FFNS total vs light + massive heavy quarks; FONLL-FFNS full vs massless + "
                                        "massive; sum over the six NCPositivityCharge runs vs unrestricted; every order key, entry-wise, tol 1e-11")
    for c, r in bad[:3]:
        chk.violation("%s:%s:%s" % (c["rel"], c["kind"], c["obs"]["prDIS"]),
                      "additivity '%s' fails for %s: %s" % (c["rel"], c["kind"], r), dict(case=c, result=r))
    return bad


def run(chk):
    chk.trusted = TRUSTED
    quick = chk.tier == "quick"
    common.check_props_file(chk, "C07")
    bad = wlayer.run_couplings(chk, 20 if quick else 200)
    chk.oblige("correspondence couplings (model = CouplingConstants)", not bad, str(bad[:1]))
    bad2 = wlayer.run_combiner(chk, 250 if quick else 2500, fixed=dict(obs=dict(TargetDIS=dict(Z=1.0, A=1.0))), name="combiner_all_schemes")
    chk.oblige("correspondence combiner, all schemes/families/FONLL parts (model = Combiner.collect_elems)", not bad2, str(bad2[:1]))
    patrol(chk, 24 if quick else 300)
    if chk.red() and not chk.violations:
        patrol(chk, 150, wide=True)
    if chk.red() and not chk.violations:
        chk.violation("unproved", "a theorem or correspondence of C07 no longer checks: %s" % [o[0] for o in chk.red()],
                      dict(red=[(o[0], o[2]) for o in chk.red()], disagreements=(bad + bad2)[:3]), found_input=False)


def replay(path):
    import json
    r = json.load(open(path))
    c = r["replay"].get("case")
    if not c:
        print("replay names a broken theorem/correspondence only:", r["what"]); return 1
    res = run_case(c)
    print("replay:", res)
    return 1 if res else 0
