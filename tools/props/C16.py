"""C16 — every documented configuration yields a finite result or a clear rejection."""
import numpy as np
from lib import common, cards, runs, obrun
from corr import outcome, wlayer

LEVEL = "proof"
TRUSTED = ["Coq 8.16.1 kernel + vm_compute", "tools/tables.py (module / class inventory translator), tools/corr/outcome.py, tools/corr/wlayer.py (harnesses)",
           "hand-written models theories/Outcome.v, Combiner.v, Weights.v tied by correspondence; the outcome CLASS is decided by look-ups and validations, not by numbers "
           "(the scan uses one generic electroweak parameter set)",
           "NaN/inf produced by third-party numerics (LeProHQ, QUADPACK) cannot be excluded by the model: finiteness is checked on the sampled real runs only",
           "out-of-bounds argument reads are C18's theorem; cells needing asy NC F2/FL (adani signature) cannot run in this sandbox"]
KINDS = ["F2", "FL", "F3", "G1", "GL", "G4"]


def shard_files():
    files = {}
    for k in KINDS:
        files["OC_%s.v" % k] = ("From Coq Require Import ZArith List Bool String.\nFrom Yad Require Import Base Couplings Weights Combiner Thresholds Outcome.\n"
                                "From YadGen Require Import Inventory.\nImport ListNotations.\n\n"
                                "(* exhaustive scan of the lattice cells of kind %s over the regenerated inventory: no internal look-up failure\n"
                                "   (no documented gap is left: the statement covers every cell) *)\n"
                                "Theorem no_crash : undocumented_crashes_kind inventory %s = [].\nProof. vm_compute. reflexivity. Qed.\nPrint Assumptions no_crash.\n" % (k, k))
    return files


def failing_cells(kind):
    """ask Coq which cells of a kind crash in the model (to seed the search for a real failing input)"""
    hdr = ("From Coq Require Import ZArith List Bool String.\nFrom Yad Require Import Base Couplings Weights Combiner Thresholds Outcome.\n"
           "From YadGen Require Import Inventory.\nImport ListNotations.\n")
    v = common.eval_terms("oc_cells_" + kind, hdr,
                          ["(map (fun c => (c_heavy c, c_proc c, c_fns c, c_nfff c, c_pto c, c_tmc c, c_parts c)) (firstn 6 (undocumented_crashes_kind inventory %s)))" % kind])
    return v[0]


def real_cell(kind, hv, proc, fns, nfff, pto, tmc, parts="full", Q2=30.0, pt=None):
    th = cards.theory_card(FNS=fns, NfFF=nfff, PTO=pto, PTODIS=pto, TMC=tmc, MP=0.5, FONLLParts=parts)
    name = kind + "_" + hv
    ob = cards.obs_card({name: [pt or dict(x=0.25, Q2=Q2)]}, prDIS=proc, ProjectileDIS="neutrino" if proc == "CC" else "electron")
    return outcome.classify(lambda: runs.run(th, ob))


def search_from_model(chk, kind, cells_txt):
    import re
    found = 0
    for m in re.finditer(r"\((-?\d+)%Z, (EM|NC|CC), (\w+), (\d+)%Z, (\d+)%Z, (\d+)%Z, (\w+)\)", cells_txt):
        hv = {0: "total", -1: "light", 4: "charm", 5: "bottom", 6: "top"}[int(m.group(1))]
        fns = {v: k for k, v in outcome.FNS_COQ.items()}[m.group(3)]
        kpy = {v: k for k, v in outcome.KIND_COQ.items()}[kind]
        parts = {"PFull": "full", "PMassless": "massless", "PMassive": "massive"}[m.group(7)]
        # the model's nf equals NfFF for the scan; pick a Q2 that gives that nf in the ZM-VFNS
        q2 = {3: 2.0, 4: 10.0, 5: 100.0, 6: 40000.0}[int(m.group(4))]
        cls, _out, exc = real_cell(kpy, hv, m.group(2), fns, int(m.group(4)), int(m.group(5)), int(m.group(6)), parts, Q2=q2)
        if cls == 2:
            found += 1
            chk.violation("crash:%s:%s" % (type(exc).__name__, str(exc)[:40]),
                          "internal error instead of a result or an explicit rejection: %s_%s %s %s NfFF=%s PTO=%s TMC=%s: %s: %s"
                          % (kpy, hv, m.group(2), fns, m.group(4), m.group(5), m.group(6), type(exc).__name__, str(exc)[:100]),
                          dict(kind=kpy, heavyness=hv, process=m.group(2), fns=fns, NfFF=int(m.group(4)), PTO=int(m.group(5)), TMC=int(m.group(6)), parts=parts, Q2=q2,
                               exception=type(exc).__name__ + ": " + str(exc)[:200]))
    return found


def report_known_gaps(chk):
    """the documented gaps must still be what they are recorded as (reproduce them on the implementation)"""
    for desc, args in (("g1_total EM ZM-VFNS PTO=3", ("g1", "total", "EM", "ZM-VFNS", 3, 3, 0)), ("g1_charm NC FFN0 NfFF=3 PTO=3", ("g1", "charm", "NC", "FFN0", 3, 3, 0))):
        cls, _o, exc = real_cell(*args)
        if cls == 2:
            chk.violation("crash:g1-N3LO:%s" % type(exc).__name__, "%s: %s: %s (polarised g1 has no N3LO classes)" % (desc, type(exc).__name__, str(exc)[:90]), dict(cell=args, exception=str(exc)[:200]))


def multi_point_patrol(chk, n):
    """one runner serving points in several flavour regions (nf = 3, 4, 5, 6), scale variations on: the configuration of each point is documented, so the
    run must end with a finite result or an explicit rejection like the single-point runs do"""
    from lib import cards, runs
    dist, crashed = {}, []
    for _ in range(n):
        fns = chk.rng.choice(["ZM-VFNS", "ZM-VFNS", "ZM-VFNS", "FFNS", "FONLL-FFNS"])
        proc, proj = chk.rng.choice([("EM", "electron"), ("NC", "electron"), ("CC", "neutrino"), ("CC", "positron")])
        pto = chk.rng.choice([1, 1, 2]) if (fns == "ZM-VFNS" or proc == "CC") else 1
        kind = chk.rng.choice(["F2", "FL", "F3", "g1"] if proc == "NC" else (["F2", "FL"] if proc == "EM" else ["F2", "FL", "F3"]))
        hv = chk.rng.choice(["total", "light", "charm"])
        tmc = chk.rng.choice([0, 0, 1])
        # the evolution order PTO may be lower than the order of the coefficient functions PTODIS: a documented combination
        pto_evol = pto if chk.rng.random() < 0.6 else pto - 1
        th = cards.theory_card(FNS=fns, NfFF=chk.rng.choice([3, 4]), PTO=pto_evol, PTODIS=pto, TMC=tmc, MP=0.5, RenScaleVar=True, FactScaleVar=True)
        q2s = [2.0, 10.0, 100.0, 40000.0]
        chk.rng.shuffle(q2s)
        name = kind + "_" + hv
        ob = cards.obs_card({name: [dict(x=0.25, Q2=q) for q in q2s]}, prDIS=proc, ProjectileDIS=proj)
        cls, out, exc = outcome.classify(lambda: runs.run(th, ob))
        k = "%s/%s/ptodis%d/pto%d/%s" % (fns, proc, pto, pto_evol, {0: "ok", 1: "rejected", 2: "crash", None: "environment"}[cls])
        dist[k] = dist.get(k, 0) + 1
        if cls == 2:
            crashed.append(dict(theory=dict(FNS=fns, NfFF=th["NfFF"], PTO=pto_evol, PTODIS=pto, TMC=tmc), process=proc, projectile=proj, observable=name, Q2s=q2s,
                                exception="%s: %s" % (type(exc).__name__, str(exc)[:120])))
        elif cls == 0:
            for r in out[name]:
                for kk, (v, e) in r.orders.items():
                    if not (np.all(np.isfinite(v)) and np.all(np.isfinite(e))):
                        crashed.append(dict(theory=dict(FNS=fns, NfFF=th["NfFF"], PTO=pto_evol, PTODIS=pto, TMC=tmc), process=proc, observable=name, Q2s=q2s, exception="non-finite entries under key %s" % (kk,)))
                        break
    chk.patrol["multi_point_runs"] = dict(cases=n, failures=len(crashed), distribution=dist,
                                          rule="one run_yadism call with the same observable at Q2 = 2, 10, 100, 40000 (nf = 3..6 in ZM-VFNS) in random order, both scale variations on: "
                                               "finite result or explicit rejection, never an internal error")
    for c in crashed[:3]:
        chk.violation("crash-multipoint:%s" % c["exception"][:40], "a run over several flavour regions ends with an internal error or non-finite entries: %s %s %s at Q2 = %s: %s"
                      % (c["observable"], c["process"], c["theory"], c["Q2s"], c["exception"]), dict(multi=c))
    return crashed


def small_x_patrol(chk):
    """the heavy-quark library returns NaN at very small x (large eta): the runner must hand out zeros there, under whatever name the observable was requested"""
    from lib import cards, runs
    grid = [float(v) for v in np.geomspace(1e-9, 1.0, 20)]
    bad, n = [], 0
    for name, proc in (("F2_total", "NC"), ("g1_total", "NC"), ("F2", "EM")):
        th = cards.theory_card(FNS="FFNS", NfFF=3, PTO=2, PTODIS=2)
        n += 1
        cls, out, exc = outcome.classify(lambda: runs.run(th, cards.obs_card({name: [dict(x=1e-9, Q2=10.0)]}, prDIS=proc, xgrid=grid, degree=2)))
        if cls == 2:
            bad.append(dict(observable=name, process=proc, x=1e-9, Q2=10.0, what="%s: %s" % (type(exc).__name__, str(exc)[:100])))
        elif cls == 0:
            nonfin = {str(k): int(np.sum(~np.isfinite(v[0])) + np.sum(~np.isfinite(v[1]))) for k, v in out[name][0].orders.items()}
            nonfin = {k: v for k, v in nonfin.items() if v}
            if nonfin:
                bad.append(dict(observable=name, process=proc, x=1e-9, Q2=10.0, what="non-finite entries per order key: %s" % nonfin))
    chk.patrol["small_x_finite"] = dict(cases=n, failures=len(bad), rule="FFNS NfFF=3 NNLO at x = 1e-9 (grid down to 1e-9), names with and without flavour suffix: every entry finite")
    for b in bad[:3]:
        chk.violation("nonfinite:small-x:%s" % b["observable"], "NaN or infinity at very small x: %s" % b, dict(smallx=b))
    return bad


def run(chk):
    chk.trusted = TRUSTED
    quick = chk.tier == "quick"
    common.check_props_file(chk, "C16")
    res = obrun.compile_all(shard_files(), subdir="oc", timeout=1500)
    for k in KINDS:
        ok, log, ax = res["OC_%s.v" % k]
        chk.oblige("gen/oc/OC_%s no_crash (exhaustive over the lattice cells of kind %s)" % (k, k), ok, log[-300:])
        if not ok:
            try:
                txt = failing_cells(k)
                chk.extra.setdefault("model_crash_cells", {})[k] = txt[:600]
                search_from_model(chk, k, txt)
            except Exception as e:  # noqa
                chk.notes.append("could not list failing cells of %s: %s" % (k, e))
    chk.extra["exhaustive"] = True
    bad, nonfinite = outcome.run_outcomes(chk, 160 if quick else 3000)
    chk.oblige("correspondence run outcomes (model = real run_yadism outcome class)", not bad, str(bad[:2])[:700])
    for b in bad[:4]:
        if b["observed"] == "crash":
            chk.violation("crash:%s" % (b["exception"] or "")[:50], "internal error instead of a result or an explicit rejection: %s -> %s" % (b["cell"], b["exception"]), dict(case=b))
        else:
            chk.violation("outcome:%s:%s" % (b["observed"], b["cell"]["kin"]), "outcome class differs from the specification (malformed kinematics must be rejected, valid requests "
                          "answered): %s -> %s %s" % (b["cell"], b["observed"], b["exception"]), dict(case=b))
    for nfi in nonfinite[:3]:
        chk.violation("nonfinite:%s_%s" % (nfi["cell"]["kind"], nfi["cell"]["heavyness"]), "NaN or infinity in the returned operator: %s" % nfi, nfi)
    bad2 = wlayer.run_combiner(chk, 200 if quick else 3000, name="combiner_outcomes")
    chk.oblige("correspondence combiner (kernel lists and outcome classes, all schemes and orders)", not bad2, str(bad2[:1])[:500])
    report_known_gaps(chk)
    multi_point_patrol(chk, 10 if quick else 120)
    small_x_patrol(chk)
    if chk.red() and not chk.violations:
        chk.violation("unproved", "a theorem or correspondence of C16 no longer checks: %s" % [o[0] for o in chk.red()][:5],
                      dict(red=[(o[0], o[2]) for o in chk.red()][:8]), found_input=False)


def replay(path):
    import json
    r = json.load(open(path))
    p = r["replay"]
    if "kind" in p:
        cls, _o, exc = real_cell(p["kind"], p["heavyness"], p["process"], p["fns"], p["NfFF"], p["PTO"], p["TMC"], p.get("parts", "full"), Q2=p.get("Q2", 30.0))
        print("replay:", cls, exc)
        return 1 if cls == 2 else 0
    if "smallx" in p:
        c = p["smallx"]
        grid = [float(v) for v in np.geomspace(1e-9, 1.0, 20)]
        out = runs.run(cards.theory_card(FNS="FFNS", NfFF=3, PTO=2, PTODIS=2), cards.obs_card({c["observable"]: [dict(x=c["x"], Q2=c["Q2"])]}, prDIS=c["process"], xgrid=grid, degree=2))
        n = sum(int(np.sum(~np.isfinite(v[0]))) for v in out[c["observable"]][0].orders.values())
        print("replay: non-finite entries:", n)
        return 1 if n else 0
    if "multi" in p:
        c = p["multi"]
        th = cards.theory_card(MP=0.5, RenScaleVar=True, FactScaleVar=True, **dict(dict(PTODIS=c["theory"]["PTO"]), **c["theory"]))
        ob = cards.obs_card({c["observable"]: [dict(x=0.25, Q2=q) for q in c["Q2s"]]}, prDIS=c["process"], ProjectileDIS=c.get("projectile", "electron"))
        cls, _o, exc = outcome.classify(lambda: runs.run(th, ob))
        print("replay:", cls, exc)
        return 1 if cls == 2 else 0
    print("recorded:", r["what"]); return 1
