"""C14 — results are independent of the request history and cache state."""
import copy
import numpy as np
from lib import common, cards, runs, spec
from corr import cache, scalevar, runnerorder

LEVEL = "proof"
TRUSTED = ["Coq 8.16.1 kernel + vm_compute", "tools/corr/cache.py (harness)",
           "hand-written model theories/Cache.v (which object serves a request) tied by correspondence on the real StructureFunction",
           "an object's result depends only on its own kinematics and the run configuration: assumed by the theorem, checked bit-for-bit by the patrol "
           "(shared managers such as the scale-variation memo are exercised by multi-nf histories)",
           "bitwise determinism of QUADPACK / numpy for identical inputs within one process"]

POOL = [dict(x=0.5, Q2=0.75), dict(Q2=0.5, x=0.75), dict(x=0.25, Q2=3.0), dict(x=0.25, Q2=30.0), dict(Q2=30.0, x=0.5),
        dict(x=0.125, Q2=300.0), dict(x=0.75, Q2=0.5), dict(Q2=0.75, x=0.5), dict(x=0.5, Q2=3.0)]


def point_id(p):
    return (p["x"], p["Q2"], p.get("y"))


def equal_bits(a, b):
    if set(a.orders) != set(b.orders):
        return "key sets differ: %s vs %s" % (sorted(a.orders), sorted(b.orders))
    for k in a.orders:
        for t in (0, 1):
            if not np.array_equal(np.array(a.orders[k][t]), np.array(b.orders[k][t])):
                d = float(np.max(np.abs(np.array(a.orders[k][t]) - np.array(b.orders[k][t]))))
                return "order %s %s differ (max |delta| = %.3g)" % (list(k), "values" if t == 0 else "errors", d)
    if (a.x, a.Q2) != (b.x, b.Q2):
        return "kinematics of the returned result differ: %s vs %s" % ((a.x, a.Q2), (b.x, b.Q2))
    return None


def gen_case(rng, quick):
    pto = rng.choice([0, 1, 1, 2] if quick else [0, 1, 2, 2])
    tmc = rng.choice([0, 0, 1, 2, 2, 3])
    th = dict(PTO=pto, PTODIS=pto, FNS="ZM-VFNS", TMC=tmc, MP=0.5, RenScaleVar=True, FactScaleVar=True, kcThr=rng.choice([1.0, 1.0, 0.5]))
    proc = rng.choice(["NC", "EM", "CC"])
    kinds = ["F2", "FL"] + (["F3"] if proc != "EM" else [])
    names = [k + "_" + rng.choice(["total", "light"]) for k in rng.sample(kinds, rng.randint(1, 2))]
    if rng.random() < 0.3 and proc == "NC":
        names.append("XSHERANC_total")
    if rng.random() < 0.35:
        # the same observable requested once more under its other spelling (a flavourless name means _total), with its own list of points
        k = rng.choice(["F2", "FL"])
        for nm in (k + "_total", k):
            if nm not in names:
                names.append(nm)
    pts = [copy.deepcopy(p) for p in rng.sample(POOL, rng.randint(3, 5))]
    if rng.random() < 0.5:
        pts.append(copy.deepcopy(pts[0]))                      # a duplicate
    if tmc != 0:
        # the point whose x is, bit for bit, the Nachtmann variable of another requested point: the corrected object at that point and
        # the uncorrected one the first point needs internally live at the same (x, Q2)
        p0 = pts[0]
        mu = 0.5 ** 2 / p0["Q2"]
        xi = float(2 * p0["x"] / (1 + np.sqrt(1 + 4 * p0["x"] ** 2 * mu)))
        pts.insert(rng.randint(0, len(pts)), dict(x=xi, Q2=p0["Q2"]))
    hist = {}
    for n in names:
        ps = [copy.deepcopy(p) for p in pts]
        rng.shuffle(ps)
        if rng.random() < 0.4:
            ps = ps[: max(1, len(ps) - 1)]                     # a subset for this observable
        if n.startswith("XS"):
            ps = [dict(p, y=0.5) for p in ps]
        hist[n] = ps
    order = list(names); rng.shuffle(order)
    return dict(theory=th, obs=dict(prDIS=proc), history={n: hist[n] for n in order})


def run_case(c):
    th = cards.theory_card(**c["theory"])
    out = runs.run(th, cards.obs_card(copy.deepcopy(c["history"]), **c["obs"]))
    worst = None
    done = {}
    for n, ps in c["history"].items():
        for i, p in enumerate(ps):
            key = (n, point_id(p))
            if key not in done:
                done[key] = runs.run(th, cards.obs_card({n: [copy.deepcopy(p)]}, **c["obs"]))[n][0]
            if (out[n][i].x, out[n][i].Q2) != (p["x"], p["Q2"]):
                return dict(observable=n, index=i, point=p, why="the result in slot %d is for (x,Q2)=%s" % (i, (out[n][i].x, out[n][i].Q2)))
            why = equal_bits(out[n][i], done[key])
            if why:
                worst = dict(observable=n, index=i, point=p, why="differs from the same point computed alone: " + why)
    return worst


def patrol(chk, n):
    bad, dist, crashed = [], {}, {}
    for _ in range(n):
        c = gen_case(chk.rng, chk.tier == "quick")
        key = "PTO%d/TMC%d/%s/%dobs" % (c["theory"]["PTO"], c["theory"]["TMC"], c["obs"]["prDIS"], len(c["history"]))
        dist[key] = dist.get(key, 0) + 1
        try:
            r = run_case(c)
        except Exception as e:
            k = type(e).__name__ + ":" + str(e)[:60]
            crashed[k] = crashed.get(k, 0) + 1
            continue
        if r is not None:
            bad.append((c, r))
    chk.patrol["histories_vs_single_requests"] = dict(
        cases=n, failures=len(bad), distribution=dist, crashed_not_counted=crashed,
        rule="real runs with several observables (SF and XS), shuffled / duplicated / subset point lists in both dict key orders incl. transposed points "
             "({x:a,Q2:b} and {Q2:a,x:b}), points in several nf regimes, TMC 0/1/2, scale variations on: every slot must be bit-for-bit the result of "
             "the same observable and point requested alone in a fresh run")
    for c, r in bad[:3]:
        chk.violation("history:%s" % ("transposed-point-key" if "result in slot" in r["why"] or "kinematics" in r["why"] else r["observable"]),
                      "result depends on the request history: %s" % r, dict(case=c, result=r))
    return bad


def run(chk):
    chk.trusted = TRUSTED
    quick = chk.tier == "quick"
    common.check_props_file(chk, "C14")
    bad_name, bad_pos = cache.run_cache(chk, 150 if quick else 1500)
    chk.oblige("correspondence cache trace (code = model keyed by field name, the one history_independent covers)", not bad_name, str(bad_name[:1])[:700])
    bad3 = scalevar.run_scalevar(chk, 20 if quick else 200)
    chk.oblige("correspondence ScaleVariations (nothing remembered between nf values in the shared manager)", not bad3, str(bad3[:1])[:400])
    bad4 = runnerorder.run_runnerorder(chk, 60 if quick else 600)
    chk.oblige("correspondence Runner.get_result plan (order of evaluation, cache drops, slot of every request = RunnerOrder.plan)", not bad4, str(bad4[:1])[:400])
    for b in bad4[:2]:
        chk.violation("runner-plan:%d-points" % len(b["Q2"]), "Runner.get_result on points with Q2 = %s evaluates / drops in the order %s and returns the requests in the slots %s"
                      % (b["Q2"], b["ops"], b["slots"]), dict(kind="runner-plan", Q2=b["Q2"]))
    patrol(chk, 10 if quick else 120)
    if chk.red() and not chk.violations:
        patrol(chk, 60)
    if chk.red() and not chk.violations:
        chk.violation("unproved", "a theorem or correspondence of C14 no longer checks: %s" % [o[0] for o in chk.red()],
                      dict(red=[(o[0], o[2]) for o in chk.red()]), found_input=False)


def replay(path):
    import json
    r = json.load(open(path))
    c = r["replay"].get("case")
    if not c:
        print("replay names a broken theorem/correspondence only:", r["what"]); return 1
    res = run_case(c)
    print("replay:", res)
    return 1 if res else 0
