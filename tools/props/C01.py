"""C01 — operator entries are the convolution of the coefficient functions with the basis."""
import math
import numpy as np
from lib import common, cards, refconv
from corr import interp, assembly

LEVEL = "proof"
TRUSTED = ["Coq 8.16.1 kernel + vm_compute; Coquelicot (axioms of the reals, funext, classic as printed)",
           "theories/Conv.v idealises esf/conv.py::convolution: exact quadrature (scipy/QUADPACK is outside), eps borders = 0 — the eps the code uses is part of the "
           "executable plan CorrConv.conv_plan and compared on the real function",
           "theories/Interp.v is a hand-written model of eko's basis (third party) tied by tools/corr/interp.py",
           "tools/corr/interp.py (harness: scipy.integrate.quad replaced by a recorder), tools/lib/refconv.py (reference: own Lagrange basis + scipy quadrature of conv_spec)",
           "which kernels, weights and convolution points enter an entry is the Combiner's business (C02, C07, C09, C12, C13 models); the reference takes them from the real "
           "Combiner and checks the convolution, the factor, the blow-up to flavour space and the accumulation",
           "loc' = -sing per kernel site is C03's theorem; here it is the hypothesis of C01_plus_distribution"]
GRIDS = [([0.0009765625, 0.015625, 0.125, 0.25, 0.5, 0.75, 1.0], 3, True),
         ([0.001, 0.01, 0.05, 0.1, 0.2, 0.3, 0.4, 0.5, 0.6, 0.7, 0.8, 0.9, 1.0], 4, True),
         ([0.01, 0.03, 0.1, 0.2, 0.35, 0.5, 0.65, 0.8, 0.9, 1.0], 2, False)]


def gen_case(rng, quick):
    proc = rng.choice(["EM", "NC", "CC"])
    kind = rng.choice(["F2", "FL", "F3"] if proc != "EM" else ["F2", "FL", "g1"])
    u = rng.random()
    if u < 0.55:
        fns, hv, nfff = "ZM-VFNS", rng.choice(["total", "light"]), 3
    elif u < 0.75 and proc == "CC":
        fns, hv, nfff = "FFNS", "charm", 3            # slow rescaling: convolution point x (1 + m2/Q2)
    elif u < 0.9:
        fns, hv, nfff = "FFNS", "light", rng.choice([3, 4])
    else:
        fns, hv, nfff = "FFNS", "charm", 4            # intrinsic charm channels: convolution point x / eta
    pto = rng.choice([0, 1, 1] if quick else [0, 1, 1, 2])
    if fns == "FFNS" and hv == "charm" and nfff == 3 and proc != "CC":
        pto = min(pto, 1)
    gi = rng.randrange(len(GRIDS))
    grid = GRIDS[gi][0]
    xs = [grid[0], rng.choice(grid[1:-1]), math.exp(rng.uniform(math.log(grid[0]), math.log(0.9)))]
    return dict(proc=proc, kind=kind, fns=fns, heavyness=hv, nfff=nfff, pto=pto, grid=gi, xs=xs, Q2=common.dyadic(rng, 3.0, 60.0, 6))


def run_case(c, tol=2e-6):
    from eko import basis_rotation as br
    grid, deg, lg = GRIDS[c["grid"]]
    th = cards.theory_card(FNS=c["fns"], NfFF=c["nfff"], PTO=c["pto"], PTODIS=c["pto"])
    name = c["kind"] + "_" + c["heavyness"]
    proj = "neutrino" if c["proc"] == "CC" else "electron"
    ob = cards.obs_card({name: [dict(x=x, Q2=c["Q2"]) for x in c["xs"]]}, prDIS=c["proc"], ProjectileDIS=proj, xgrid=grid, degree=deg, is_log=lg)
    r = cards.make_runner(th, ob)
    basis = refconv.Basis(grid, deg, lg)
    probs = []
    for i, x in enumerate(c["xs"]):
        esf = r.observables[name].elements[i]
        res = esf.get_result()
        ref, info = refconv.ref_tensor(esf, basis, br.flavor_basis_pids)
        keys = sorted(set(res.orders) | set(ref))
        for key in keys:
            got = np.array(res.orders[key][0]) if key in res.orders else None
            exp = ref.get(key)
            if got is None:
                got = np.zeros_like(exp)
            if exp is None or np.isscalar(exp):
                exp = np.zeros_like(got)
            sc = max(float(np.max(np.abs(exp))), float(np.max(np.abs(got))), 1e-30)
            d = float(np.max(np.abs(got - exp))) / sc
            if d > tol:
                a, b = np.unravel_index(np.argmax(np.abs(got - exp)), got.shape)
                probs.append(dict(x=x, on_node=x in grid, key=list(key), pid=int(br.flavor_basis_pids[a]), node=int(b), got=float(got[a, b]), expected=float(exp[a, b]), rel=d,
                                  kernels=[k for k in info if k["order"] == key[0]][:6]))
    return probs


def patrol(chk, n):
    bad, dist, crashed, npts = 0, {}, {}, 0
    # channels whose convolution point is not x are in every run: massive CC (x/lambda) and intrinsic (x/eta)
    fixed = [dict(proc="CC", kind="F2", fns="FFNS", heavyness="charm", nfff=3, pto=1, grid=0, xs=[0.015625, 0.3], Q2=6.0),
             dict(proc="NC", kind="F2", fns="FFNS", heavyness="charm", nfff=4, pto=0, grid=2, xs=[0.1, 0.27], Q2=9.0),
             dict(proc="CC", kind="F3", fns="FFNS", heavyness="bottom", nfff=3, pto=1, grid=1, xs=[0.05, 0.42], Q2=40.0)]
    for it in range(n + len(fixed)):
        c = fixed[it] if it < len(fixed) else gen_case(chk.rng, chk.tier == "quick")
        k = "%s/%s_%s/%s/pto%d/grid%d" % (c["proc"], c["kind"], c["heavyness"], c["fns"], c["pto"], c["grid"])
        dist[k] = dist.get(k, 0) + 1
        try:
            probs = run_case(c)
            npts += len(c["xs"])
        except Exception as e:
            key = "%s: %s" % (type(e).__name__, str(e)[:60])
            crashed[key] = crashed.get(key, 0) + 1
            continue
        for p in probs[:2]:
            bad += 1
            chk.violation("entry:%s:%s:%s:%s" % (c["proc"], c["kind"], c["fns"], "node" if p["on_node"] else "between"),
                          "operator entry of %s_%s (%s, %s, PTO %d) at x=%r Q2=%r differs from cp * (C (x) p_j)(cp) accumulated over the partonic channels: %s"
                          % (c["kind"], c["heavyness"], c["proc"], c["fns"], c["pto"], p["x"], c["Q2"], {q: p[q] for q in ("key", "pid", "node", "got", "expected", "rel")}),
                          dict(case=c, problem=p))
    chk.patrol["entries_vs_reference_quadrature"] = dict(cases=n + len(fixed), points=npts, failures=bad, distribution=dist, crashed_not_counted=crashed,
                                                         rule="real Runner + EvaluatedStructureFunction.get_result() against the reference (own Lagrange basis, scipy quadrature of conv_spec, "
                                                              "kernels/weights/convolution points from the real Combiner): every (order,0,0,0) tensor entry, rel 2e-6; x on the lowest node, on an "
                                                              "inner node and between nodes; ZM-VFNS, FFNS light, CC heavy (slow rescaling), intrinsic; three grids (log/linear, degree 2-4)")
    return bad


def operator_patrol(chk, n):
    """conv.convolve_operator (the matrices the scale variations are built from) against the reference:
    op[l, k] = (P (x) p_l)(x_k) for the real splitting-function RSL objects"""
    from yadism.esf import conv
    from yadism.coefficient_functions import splitting_functions as split
    labels = [(lab, fnc) for order_labels in split.raw_labels for lab, fnc in order_labels.items()]
    bad, dist = 0, {}
    for _ in range(n):
        lab, fnc = chk.rng.choice(labels)
        nf = chk.rng.choice([3, 4, 5])
        gi = chk.rng.randrange(len(GRIDS))
        grid, deg, lg = GRIDS[gi]
        if len(grid) > 10:
            grid = grid[::2] if grid[::2][-1] == 1.0 else grid[::2] + [1.0]
            deg = min(deg, len(grid) - 1)
        ip = interp.make_interp(grid, deg, lg)
        basis = refconv.Basis(grid, deg, lg)
        rsl = fnc(nf)
        op, _err = conv.convolve_operator(rsl, ip)
        dist[lab] = dist.get(lab, 0) + 1
        ref = np.zeros_like(op)
        for k, xk in enumerate(basis.grid):
            for l in range(basis.n):
                ref[l, k] = refconv.ref_conv(rsl, xk, basis, l)
        sc = max(float(np.max(np.abs(ref))), 1e-30)
        d = float(np.max(np.abs(op - ref))) / sc
        if d > 2e-6:
            l, k = np.unravel_index(np.argmax(np.abs(op - ref)), op.shape)
            bad += 1
            chk.violation("operator:%s" % lab, "conv.convolve_operator(%s, nf=%d) on grid %s (degree %d, log=%s): entry [basis %d, node %d] = %r, reference (P (x) p_l)(x_k) = %r"
                          % (lab, nf, grid, deg, lg, l, k, float(op[l, k]), float(ref[l, k])), dict(kind="operator", label=lab, nf=nf, grid=grid, degree=deg, log=lg))
    chk.patrol["convolve_operator_vs_reference"] = dict(cases=n, failures=bad, distribution=dist,
                                                        rule="conv.convolve_operator on the real splitting-function RSL objects (every label of splitting_functions.raw_labels, nf 3-5, three grids): "
                                                             "every entry [l, k] against the reference quadrature of (P (x) p_l)(x_k), rel 2e-6 — the matrices every scale-variation term is built from")
    return bad


def run(chk):
    chk.trusted = TRUSTED
    quick = chk.tier == "quick"
    common.check_props_file(chk, "C01")
    bad = interp.run_basis(chk, 300 if quick else 3000)
    chk.oblige("correspondence eko basis = Interp model", not bad, str(bad[:1]))
    for b in bad[:2]:
        chk.violation("basis:%d:%s" % (b["degree"], b["log"]), "eko basis function %d of grid %s (degree %d, log=%s) at x=%r is %r, the model disagrees" % (b["j"], b["grid"], b["degree"], b["log"], b["x"], b["eko_value"]), dict(basis=b))
    bad = interp.run_convplan(chk, 300 if quick else 3000)
    chk.oblige("correspondence convolution plan (limits, break points, endpoint terms, early returns)", not bad, str(bad[:1]))
    for b in bad[:3]:
        chk.violation("plan:%s" % ("lowest-node" if b["x"] == b["grid"][0] else "node" if b["on_node"] else "between"),
                      "conv.convolution(rsl, x=%r, p_%d) on grid %s (degree %d, log=%s, reg=%s, sing=%s) does not follow the plan of the model: p(x) used = %r, quadratures = %d %s"
                      % (b["x"], b["j"], b["grid"], b["degree"], b["log"], b["has_reg"], b["has_sing"], b["result"], b["quad_calls"], b.get("problem", "")), dict(plan=b))
    bad_a = assembly.run_assembly(chk, 40 if quick else 400)
    chk.oblige("correspondence compute_local (factor = convolution point, blow-up to flavour space, accumulation: the real assembly step = the model)", not bad_a, str(bad_a[:1])[:600])
    for b in bad_a[:2]:
        chk.violation("assembly:%s" % ("cp!=x" if b["cp"] != b["x"] else "cp=x"),
                      "compute_local with one kernel (orders %s, convolution point %s, x = %s, pto %d) does not give weight * convolution point * (C (x) p_j): keys %s %s"
                      % (b["orders"], b["cp"], b["x"], b["pto"], b["keys"], b["error"] or ""), dict(assembly=b))
    patrol(chk, 12 if quick else 60)
    operator_patrol(chk, 4 if quick else 40)
    if chk.red() and not chk.violations:
        patrol(chk, 30)
    if chk.red() and not chk.violations:
        chk.violation("unproved", "a theorem or correspondence of C01 no longer checks: %s" % [o[0] for o in chk.red()],
                      dict(red=[(o[0], o[2]) for o in chk.red()]), found_input=False)


def replay(path):
    import json
    r = json.load(open(path))["replay"]
    if "case" in r:
        probs = run_case(r["case"])
        print("replay:", probs[:3]); return 1 if probs else 0
    if "plan" in r:
        b = r["plan"]
        ip = interp.make_interp(b["grid"], b["degree"], b["log"])
        res, rec = interp.observe_convolution(ip, b["j"], b["x"], b["has_reg"], b["has_sing"])
        print("replay: p(x) used by conv.convolution =", res, "; eko p_j(x) =", float(ip[b["j"]](b["x"])), "; quadratures:", [(q["a"], q["b"]) for q in rec])
        return 1
    print("replay names a broken theorem/correspondence only"); return 1
