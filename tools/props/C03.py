"""C03 — every coefficient/splitting kernel is one well-defined distribution."""
import importlib
import numpy as np
from lib import common, rslsweep, numwf, obrun
from corr import instk
import obligations

LEVEL = "proof"
TRUSTED = ["Coq 8.16.1 kernel + vm_compute; Coquelicot auto_derive, field, CoqInterval (interval)",
           "axioms as printed: real numbers (sig_forall_dec, sig_not_dec), functional_extensionality_dep, classic (via Reals/Coquelicot)",
           "tools/pyk2coq.py + tools/sites.py (translators; decimal literals are read as exact decimals, not as binary doubles)",
           "special functions enter through hypotheses (KTactics.special_ok), shown satisfiable in SpecialR.v; the Chebyshev li2/nielsen code is not verified",
           "tools/pyinst.py translates the closures over instance state of the heavy CC classes (h_q, h_g: args[0] = lambda) and of the asymptotic intrinsic classes "
           "(asy/partonic_channel.py: args = L, LO delta coefficient) — obligations WFI_*; the translation is additionally validated numerically against real instances (corr/instk.py)",
           "the remaining closures with a singular or local part (LeProHQ-based heavy NC NNLO non-singlet: third-party dq1 and Adler; the one pair using Nielsen functions above the cut) "
           "are NOT translated: they are covered by the numerical sweep only"]
TOL = 2e-5


def numeric_pair(sing_name, loc_name):
    """evaluate the statement on the two Python functions directly (search for a failing input)"""
    def get(n):
        mod, fn = n.rsplit(".", 1)
        return getattr(importlib.import_module(mod), fn)
    from yadism.coefficient_functions.partonic_channel import RSL
    worst = None
    try:
        s, l = get(sing_name), get(loc_name)
    except Exception as e:  # noqa  (nested closures of asy modules cannot be imported by name)
        return None
    for nf in (3, 4, 5, 6):
        for extra in ([], [2.0]):
            rsl = RSL(None, s, l, [float(nf)] + extra)
            try:
                w = numwf.wf_defect(rsl)
            except IndexError:
                continue
            if w and (worst is None or w["defect"] > worst["defect"]):
                w["nf"] = nf; w["args"] = [float(nf)] + extra
                worst = w
            break
    return worst


def splitting_rsls():
    from yadism.coefficient_functions import splitting_functions as split
    for order_labels in split.raw_labels:
        for lab, fnc in order_labels.items():
            for nf in (3, 4, 5, 6):
                yield dict(cls="splitting." + lab, order=0, nf=nf, cell=dict(label=lab)), fnc(nf)


def sweep(chk, budget, q2s):
    """numerical WF + finiteness over the RSL objects the real code builds (incl. closures the translator cannot read)"""
    seen, bad, nonfinite, n = set(), {}, {}, 0
    todo = list(splitting_rsls())
    cells = rslsweep.cells(chk.rng, q2s=q2s, full=False)[:budget]
    for c in cells:
        masses = dict(mc=1.5, mb=4.5, mt=173.0)
        for ident, rsl, _coeff in rslsweep.rsls_of_cell(c, masses=masses):
            if not isinstance(rsl, tuple):
                todo.append((ident, rsl))
    for ident, rsl in todo:
        key = (ident["cls"], ident["order"], ident["nf"], round(ident.get("labda", 0.0), 7), round(ident.get("L", 0.0), 4))
        if key in seen:
            continue
        seen.add(key)
        n += 1
        try:
            w = numwf.wf_defect(rsl)
        except Exception as e:  # noqa
            w = dict(defect=float("inf"), error=type(e).__name__ + ": " + str(e)[:80])
        if w and not w["defect"] <= TOL:
            k2 = (ident["cls"], ident["order"])
            if k2 not in bad or not bad[k2][1]["defect"] >= w["defect"]:
                bad[k2] = (ident, w)
        if not (ident["cls"].startswith("heavy") and "_nc" in ident["cls"]):      # LeProHQ oracles: finiteness is C16's business
            b = numwf.finite_parts(rsl)
            if b:
                nonfinite.setdefault((ident["cls"], ident["order"]), (ident, b[:3]))
    chk.patrol["numerical_wf_sweep"] = dict(cases=n, failures=len(bad), non_finite=len(nonfinite),
                                            rule="every distinct RSL object (class, order, nf, mass ratio) built by the real Combiner over sampled lattice cells and "
                                                 "Q2/m2 from 1.7e-5 (top at Q2 = 0.5) to 1e5, plus all splitting labels: |loc(b) - loc(a) + int_a^b sing| / scale <= %g on three intervals; "
                                                 "all parts finite at z in {1e-6 .. 1-1e-6}" % TOL)
    return bad, nonfinite


def run(chk):
    chk.trusted = TRUSTED
    quick = chk.tier == "quick"
    common.check_props_file(chk, "C03")
    files, metas, problems, closures = obligations.generate(common.REPO)
    res = obrun.compile_all(files)
    axioms = set()
    failing = []
    for m in metas:
        ok, log, ax = res[m["name"] + ".v"]
        axioms |= set(ax)
        chk.oblige("gen/ob/%s (%s: %s | %s; sites %s)" % (m["name"], m["kind"], m.get("sing", "-").split(".")[-1], m["loc"].split(".")[-1], ",".join(m["sites"][:2])), ok, log[-400:])
        if not ok:
            failing.append((m, log))
    for p in problems:
        chk.oblige("site %s: %s" % (p["site"], p["why"]), False)
    bad_ax = [a for a in axioms if not common.axiom_allowed(a)]
    chk.oblige("generated obligations depend only on standard-library axioms", not bad_ax, str(bad_ax))
    chk.assumptions = sorted(set(chk.assumptions) | {a for a in axioms if not a.startswith(common.PRIMITIVE_PREFIXES)})
    chk.extra["generated_obligations"] = len(metas)
    chk.extra["sites_not_translated (closures with a singular/local part)"] = [c["site"] for c in closures]
    chk.samples.append(dict(obligation=metas[0]["name"], kind=metas[0]["kind"], sing=metas[0].get("sing"), loc=metas[0]["loc"], sites=metas[0]["sites"]))
    # failing obligations: evaluate the statement on the implementation for those kernels
    for m, log in failing:
        w = numeric_pair(m["sing"], m["loc"]) if "sing" in m else None
        cert = m.get("worst_residual")
        if w is not None and w["defect"] > TOL:
            chk.violation("wf:%s|%s" % (m.get("sing", "-").split("coefficient_functions.")[-1], m["loc"].split("coefficient_functions.")[-1]),
                          "local part is not delta - int_0^x singular part: %s / %s, nf=%s: loc(%.2f) - loc(%.2f) + int sing = %.6g (relative %.3g)%s"
                          % (m["sing"].split(".")[-1], m["loc"].split(".")[-1], w["nf"], w["b"], w["a"], w["loc_b"] - w["loc_a"] + w["int_sing"], w["defect"],
                             "; certificate: residual coefficient %.6g on ln(1-x)^%d/(1-x) at nf=%d" % (cert["d"], cert["power_of_L"], cert["nf"]) if cert else ""),
                          dict(obligation=m, numeric=w, coq_log=log[-600:]))
    tb = instk.run_inst_translation(chk)
    chk.oblige("validation of the instance-closure translator against real instances", not tb, str(tb[:1]))
    bad, nonfinite = sweep(chk, 120 if quick else 100000, (0.5, 3.0, 30.0, 3000.0) if quick else (0.5, 1.0, 3.0, 10.0, 30.0, 300.0, 3000.0, 300000.0))
    reported = {v["key"] for v in chk.violations}
    for (cls, o), (ident, w) in bad.items():
        # objects built from kernels already reported above are the same finding
        chk.notes.append("sweep: %s order %d defect %.3g" % (cls, o, w["defect"]))
    roots = {}
    for (cls, o), (ident, w) in bad.items():
        roots.setdefault(round(w["defect"], 4) if w["defect"] == w["defect"] else cls, (cls, o, ident, w))
    if not any(k.startswith("wf:") for k in reported):
        for _k, (cls, o, ident, w) in list(roots.items())[:3]:
            chk.violation("sweep:%s:%d" % (cls, o), "%s order %d (nf=%s, mass ratio %s): loc(x) + int_0^x sing depends on x: %s"
                          % (cls, o, ident["nf"], ident.get("labda", ident.get("L", "-")), w), dict(ident=ident, numeric=w))
    else:
        # a sweep failure in a class whose kernels are not among the failing obligations is a separate finding
        failing_names = {m["loc"].split(".")[-1] for m, _ in failing}
        for (cls, o), (ident, w) in bad.items():
            if cls.startswith(("heavy", "intrinsic", "asy.partonic", "asy.f2_cc.AsyGluon", "splitting")) and not (cls.startswith("splitting") and failing_names):
                chk.violation("sweep:%s:%d" % (cls, o), "%s order %d: loc(x) + int_0^x sing depends on x: %s" % (cls, o, w), dict(ident=ident, numeric=w))
    for (cls, o), (ident, b) in list(nonfinite.items())[:3]:
        chk.violation("finite:%s:%d" % (cls, o), "%s order %d returns a non-finite value on (0,1): %s" % (cls, o, b), dict(ident=ident, parts=b))
    if chk.red() and not chk.violations:
        chk.violation("unproved", "an obligation of C03 no longer checks: %s" % [o[0] for o in chk.red()][:5],
                      dict(red=[(o[0], o[2]) for o in chk.red()][:8]), found_input=False)


def replay(path):
    import json
    r = json.load(open(path))
    m = r["replay"].get("obligation")
    if m and "sing" in m:
        w = numeric_pair(m["sing"], m["loc"])
        print("replay:", w)
        return 1 if (w and w["defect"] > TOL) else 0
    print("recorded:", r["what"]); return 1
