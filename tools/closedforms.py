"""closedforms.py — generate the closed-form obligations of C04: each NLO light kernel (as regenerated from the source)
equals the published closed form of theories/SpecNLO.v for all z in (0,1); the distribution coefficients of the
from_distr_coeffs sites equal (delta, D0, D1) of the literature."""
import re
import pyk2coq, sites
from obligations import HEADER

# site (class, method) -> (spec of the regular part as Coq text in z and nf, coefficient spec or None)
SPEC = {
    "light_f2_nc_NonSinglet_NLO": ("c2q1_reg z", ["cq1_delta", "cq1_D0", "cq1_D1"]),
    "light_f2_nc_Gluon_NLO": ("c2g1 z (nth 0 a 0)", None),
    "light_fl_nc_NonSinglet_NLO": ("cLq1 z", None),
    "light_fl_nc_Gluon_NLO": ("cLg1 z (nth 0 a 0)", None),
    "light_f3_nc_NonSinglet_NLO": ("c3q1_reg z", ["cq1_delta", "cq1_D0", "cq1_D1"]),
    "light_g1_nc_NonSinglet_NLO": ("c3q1_reg z", ["cq1_delta", "cq1_D0", "cq1_D1"]),
    "light_g1_nc_Gluon_NLO": ("dcg1 z (nth 0 a 0)", None),
}


def generate(repo):
    tr, ss = sites.extract(repo)
    files, metas, missing, found = {}, [], [], set()
    for s in ss:
        k = re.sub(r"_L\d+$", "", s.ident)
        if k not in SPEC:
            continue
        found.add(k)
        spec, cspec = SPEC[k]
        reg = s.parts["reg"]
        if reg is None or reg["kind"] != "kernel":
            missing.append(dict(site=s.ident, why="regular part is not a translated kernel")); continue
        if (s.parts["sing"] and s.parts["sing"]["kind"] == "kernel") or (s.parts["loc"] and s.parts["loc"]["kind"] == "kernel"):
            missing.append(dict(site=s.ident, why="unexpected singular/local kernel at an NLO site")); continue
        name = "CF_%03d" % len(files)
        L = [HEADER.replace("From Yad Require Import Expr KTactics.", "From Yad Require Import Expr KTactics SpecNLO."),
             "(* site %s: regular part %s *)" % (s.ident, reg["name"]),
             "Definition reg_e : expr := %s.\n" % pyk2coq.coq(reg["expr"]),
             "Theorem closed_form : forall sp a z, 0 < z < 1 -> eval sp reg_e z a = %s." % spec,
             "Proof. intros sp a z Hz. unfold c3q1_reg, c2q1_reg, c2g1, cLq1, cLg1, dcg1, CF, TR, zeta2. k_closed reg_e. Qed.",
             "Print Assumptions closed_form."]
        if cspec is not None:
            if s.kind != "from_distr_coeffs" or not s.coeff_exprs or len(s.coeff_exprs) != 3 or any(e is None for e in s.coeff_exprs):
                missing.append(dict(site=s.ident, why="distribution coefficients are not three module constants")); continue
            for i, (e, sp_) in enumerate(zip(s.coeff_exprs, cspec)):
                L.append("Definition coeff%d_e : expr := %s." % (i, pyk2coq.coq(e)))
                L.append("Theorem coeff%d : forall sp, eval sp coeff%d_e 0 [] = %s." % (i, i, sp_))
                L.append("Proof. intros sp. unfold %s, CF, TR, zeta2. cbn [eval coeff%d_e cst_val]. unfold Rminus, Rdiv. field. Qed." % (sp_, i))
        elif s.kind != "rsl":
            missing.append(dict(site=s.ident, why="expected a plain RSL site")); continue
        files[name + ".v"] = "\n".join(L) + "\n"
        metas.append(dict(name=name, kind="closed-form", site=s.ident, reg=reg["name"], spec=spec))
    for k in SPEC:
        if k not in found:
            missing.append(dict(site=k, why="site not found in the source tree"))
    return files, metas, missing
