"""Regenerate /verif/MANIFEST.json from the table below (python3 tools/mkmanifest.py)."""
import json, os, sys
HERE = os.path.dirname(os.path.abspath(__file__))
ALL = ["C%02d" % i for i in range(1, 21)]

# property -> (technique, level text, level note, design section)
CLAIMED = {
 "C01": ("Coq theorems over the reals (Coquelicot: RInt, Chasles, linearity, fundamental theorem) on a hand-written real-number model of esf/conv.py::convolution, and over an abstract "
         "field (field, lia, induction) on a hand-written model of the interpolation basis; executable plan of the convolution and the basis tied by differential correspondence on the "
         "real conv.convolution (quadrature replaced by a recorder) and on eko's basis objects",
         "Proof: what the code integrates (range cut at x/a, early return below the support) equals the convolution integral of reg + sing(p/z - p(x)) plus p(x) loc(x) for every x in (0,1) "
         "and every function vanishing outside [a,b]; with loc' = -sing (C03) that is the distribution reg + [sing]_+ + loc(0) delta; linear in the basis function, hence contracting "
         "with any PDF in the span reproduces its convolution; pure delta gives loc p_j(x); accumulation over any number of channels is additive; the basis is 1 at its node and 0 at the "
         "others on every area of every grid. For kernels with ln^k(1-z) (not Riemann integrable up to z = 1) the same linearity / contraction statements are proved for the improper integral (ConvGen.v). PARTIAL: exact quadrature and eps = 0 are idealised (the eps borders are in the executable plan); which kernels/weights/convolution points "
         "enter is the Combiner's (C02, C07, C09). Entries of real runs are compared with an independent reference quadrature on every run.",
         "Trusted: Coq kernel+vm_compute, Coquelicot; harnesses; tools/lib/refconv.py + scipy in the patrol; eko's basis modelled by hand (third party).", "0.3 / 4 C01"),
 "C19": ("Coq theorems over an abstract field (field for blocks of 2..5 nodes, induction for the Kronecker property, lia for the block rule) and over the reals (Coquelicot: Taylor-Lagrange, "
         "mean-value theorem, improper integrals) on the hand-written model of the interpolation basis, tied by differential correspondence on eko's objects and on the real conv.convolution at and next to grid nodes",
         "Proof: on every area of every grid the d+1 block nodes reproduce every polynomial of degree <= d exactly (d = 1..4), partition of unity, every basis function "
         "is continuous at every node with value delta_j,node; the modelled piecewise basis summed with node values IS the block interpolant on every closed area; for a function with d+1 derivatives "
         "(the last bounded by M) the interpolation error on the whole grid range is at most (1+Lam) M h^(d+1)/(d+1)! and is Lipschitz with constant Lam1 M h^(d+1)/(d+1)! + M h^d/d!, hence convergence under refinement; "
         "such an error changes the prediction (any kernel triple, proper or improper convolution integral) by at most (int|reg|/z + |loc|) E + int|sing|(1-z)/z^2 (Le x + E): O(h^d) in total. "
         "PARTIAL: the bounds Lam, Lam1 on the Lebesgue functions of the blocks (node geometry; satisfiable: GridExample.v; discharged for degree 1 on every increasing grid: LinearGrid.v, and Lam = 5/4, Lam1 = 5/s for degree 2 on equally spaced blocks: UniformGrid.v) and the existence of the improper integrals are hypotheses; interpolation variable x "
         "(log mode: f o exp); QUADPACK's error is outside; the run comparison (three grid levels + degree, FactScaleVar, unordered grid, node vs displaced x) uses calibrated bounds — a test.",
         "Trusted: Coq kernel+vm_compute; std-lib real-number axioms + classic + funext (Coquelicot); harnesses; eko's basis modelled by hand; patrol tolerances calibrated on the unchanged tree.", "0.3 / 4 C19"),
 "C02": ("Coq theorems over an abstract field (field/ring) on a hand-written model of CouplingConstants/weight builders; "
         "model tied to the code by differential correspondence evaluated with vm_compute in exact rationals",
         "Proof: for every field of characteristic 0 (hence all real/rational sin^2, MZ, Q2, polarisation, propagator correction, CKM) "
         "the model's NC weights equal the PDG coefficients of x(q±qbar) for e-/e+, EM weights are e_q^2, CC weights are twice the masked "
         "CKM row/column sums with the mask selecting the heaviest quark of the transition, and the even+odd LO kernels put the weight on "
         "exactly the parton the W can hit (nf=3..6). The model is compared with the real CouplingConstants and Combiner on random dyadic "
         "parameter sets on every run, and the assembled LO operator of real runs is compared with x*weight*delta at grid nodes.",
         "Trusted: Coq kernel+vm_compute; harness tools/corr/wlayer.py; the hand-written model is tied by correspondence only (sampled, 1e-11); "
         "PDG.v is the specification. The Kronecker-delta statement is checked on real runs (patrol), its Lagrange-basis theorem is part of C19.",
         "4 C02"),
 "C03": ("translator tie: every njit kernel and RSL site regenerated from the source each run (tools/pyk2coq.py, sites.py); per distinct (singular, local) pair one generated "
         "Coq obligation closed by Coquelicot auto_derive + field (exact pairs) or by a field-checked polynomial certificate + CoqInterval bound (rounded Vogt parametrisations); "
         "generic inductive theorem for from_distr_coeffs / from_delta; closures over instance state (heavy CC h_q, asymptotic intrinsic) regenerated by tools/pyinst.py (obligations WFI_*)",
         "Proof for all x in (0,1) and all argument vectors: loc' = -sing for the 11 exact pairs (splitting LO/NLO, convolved P_qq^2, asymptotic F2/g1 non-singlet incl. Li2(1/(1-z))), "
         "loc' = -sing + residual/(1-x) with |residual coefficients| <= 5e-5 (1+|q_k|) for nf=3..6 for the 8 NNLO/N3LO parametrised pairs, constancy of the 7 local-only parts, and for ANY "
         "coefficient list loc = delta - int_0^x sing for the 8 from_distr_coeffs and 11 from_delta sites. Three genuine defects found this way were fixed (922c69ea, 105c5e9b, 4d5dce3f). "
         "For the closures over instance state: loc' = -sing for heavy CC F2/FL/F3 NonSinglet NLO for every lambda in (0,1), and for the two asymptotic intrinsic NLO channels for every L and LO coefficient. A numerical sweep evaluates the statement on every RSL object the real Combiner builds, incl. the closures that are not translated (LeProHQ-based, Nielsen).",
         "Trusted: Coq kernel, Coquelicot, CoqInterval; axioms of Reals + funext + classic as printed; the translators; decimal literals read as exact decimals; special functions through "
         "hypotheses shown satisfiable (SpecialR.v). NOT proved: closures over instance state (heavy CC h_q, asymptotic intrinsic, LeProHQ heavy NC + Adler) and the one pair using "
         "Nielsen functions above the cut (asy g1 NNLL) — numerical sweep only.", "4 C03"),
 "C04": ("translator tie; generated Coq obligations: closed forms by field (after ln_div), first moments by a field-checked split into improper group integrals enclosed by "
         "CoqInterval's integral_intro and combined by lra",
         "Proof: for all z in (0,1) the regenerated NLO quark and gluon kernels of F2, FL, F3, g1 equal the published closed forms (and the plus-distribution coefficients equal "
         "(delta, D0, D1) of the literature); for nf = 3..6 the first moments of the nu-nubar F2 (Adler), F3 (GLS, incl. the fl02 piece) and g1 (Bjorken) non-singlet coefficients at "
         "NNLO and N3LO lie within 0.02 / 0.15 / 0.06 of the sum-rule coefficients. Partial: the identification of the sum of group integrals with the integral over (0,1) "
         "(linearity, z -> 1-u) is not proved; NLO moments follow from the closed forms and are only evaluated numerically.",
         "Trusted: Coq kernel, Coquelicot, CoqInterval (primitive floats); the translators; SpecNLO.v and the sum-rule coefficients (literature) are the specification.", "4 C04"),
 "C13": ("Coq theorems (ring/field over an abstract field; finite case analysis nf=3..6 x pid x beam) on the hand-written coupling/weight model; "
         "model tied to the code by differential correspondence (vm_compute, exact rationals)",
         "Proof: e+(P)=e-(-P) and nubar(P)=nu(-P) for every weight incl. the fl11 class; NC weight = EM weight + eta_gammaZ*(...) hence exact "
         "decoupling at eta=0 and vanishing parity-violating weights in EM; CC hadronic weights are beam independent and the beam<->antibeam exchange "
         "charge-conjugates every parton map (even/odd/singlet/valence/gluon/heavy) with the F3 sign, arbitrary CKM, all heavyness masks; equal-charge "
         "quarks get equal NC weights. Pairs of real runs (all order keys incl. scale variations) are compared on every run.",
         "Trusted: Coq kernel+vm_compute; harness; hand-written model tied by sampled correspondence (1e-11); lifting weights->results uses that kernels "
         "depend on the beam only through the weights (checked by the Combiner correspondence).", "4 C13"),
 "C07": ("Coq theorems (list/monad algebra + ring) on the hand-written Combiner model; model tied to the code by differential correspondence",
         "Proof: collect(full) = collect(massless) ++ collect(massive) and the isospin/drop-empty post-processing distributes, so the linear meaning adds; "
         "with no massive quark total and light collect identical lists; in fixed-flavour configurations total = light ++ F_h over the massive h (nf=3..6); "
         "the six coupling-restricted get_weight's sum to the unrestricted one and every NC weight builder is additive. Real runs compare the sums entry-wise.",
         "Trusted: Coq kernel+vm_compute; harness; model tied by sampled correspondence; linearity of compute_local in the kernel list (C01). For NfFF>=4 the "
         "massless heavy quarks are slices of light, so the partition proved is over the massive quarks only (DESIGN 4 C07).", "4 C07"),
 "C08": ("Coq theorems: structural half over an abstract field on the hand-written Combiner model (tied by correspondence); analytic half over the reals (Coquelicot, improper integrals) on the "
         "closures REGENERATED from heavy/*_cc.py, asy/*_cc.py and light/nlo/*.py by tools/pyinst.py and tools/pyk2coq.py",
         "Proof: for CC, NC parity-conserving, intrinsic and 'missing' channels, any couplings, nf, heavy quark and order, the FFN0 kernels carry exactly the parton weights, nf and heavy-quark mass of the FFNS ones. "
         "Charged current, complete through NLO: for ANY PDF bounded by G and Lipschitz (Lp) on [x,1] the massive and the asymptotic contribution of the quark channel (LO; NLO as plus distribution incl. its local part) "
         "and of the gluon channel (NLO) to F2, FL, F3 differ by at most K(x,G,Lp) (1-lambda)(1+|ln(1-lambda)|), 1-lambda = m2/(Q2+m2), K explicit; pointwise bounds in z as well. "
         "Hypotheses of the NLO quark theorems: derivative and reflection identity of the dilogarithm (jointly satisfiable, checked numerically on the implementation) and existence of the improper convolution integrals. "
         "PARTIAL: the heavy-quark-initiated (intrinsic) channels beyond their pairing and all NC channels (LeProHQ, third party) are tested on real runs at Q2/m2 = 1e2, 1e4, 1e6 against a power-law "
         "envelope, not proved. NC F2/FL FFN0 cannot run here (adani). One defect fixed (0513cfd9), one open finding (NNLO non-singlet 'missing' channel of F3/g1).",
         "Trusted: Coq kernel+vm_compute, reals axioms as printed; tools/pyinst.py (translator, validated numerically against real instances by corr/instk.py); tools/corr/wlayer.py; the patrol is a test.", "0.3 / 4 C08"),
 "C09": ("Coq theorems over the rationals (lra/nra/field) on a hand-written model of the threshold test, the decorator, the closure shape and the slow-rescaling point; tied by "
         "differential correspondence on every class of heavy/*_nc.py and heavy/*_cc.py at dyadic points exactly on / next to the thresholds",
         "Proof: is_below z <-> Q2(1-z) <= 4 m2 z (boundary included); below the hadronic threshold every order of every NC pair-production channel is the empty distribution; the "
         "integrand of any LeProHQ-based closure is exactly 0 beyond the partonic threshold, hence on the whole range when x is below; eta > 0 above; the CC convolution point is "
         "x(1+m2/Q2) and a point >= 1 gives exactly 0. Real FFNS runs check the operator rows across the thresholds.",
         "Trusted: Coq kernel+vm_compute; harness; LeProHQ is an arbitrary oracle in the model; the mass handed to each channel is part of the Combiner model (compared by corr/wlayer).", "4 C09"),
 "C10": ("Coq theorems (field over an abstract field; Coquelicot change of variables for the integrals) on a hand-written model of esf/tmc.py against a hand-transcribed "
         "specification of the published formulas; integration kernels regenerated from the source by the translator; model tied by differential correspondence on the real ESFTMC_* classes",
         "Proof: F2 and FL (exact, APFEL, approximate) and approximate F3 are the published formulas coefficient by coefficient for every x, M2, Q2, r, xi; the four Mellin "
         "convolutions the code takes are the published integrals h2, g2, int F/u, k2 for every continuous structure function; massless target: the corrected structure function is the "
         "uncorrected one, all integrals with coefficient 0; xi below the grid is rejected. PARTIAL: exact/APFEL F3 has the published prefactors but the wrong kernel, g1 is xi/x times the "
         "published formula (both proved, both refuted as full statements, both replayed on the real code on every run and recorded as known findings). Real TMC runs are compared "
         "with the formula applied to TMC=0 output on two grids per process.",
         "Trusted: Coq kernel+vm_compute; harness; translator for the four kernels; the transcription of the published formulas into tmc_spec; eko basis functions and scipy.quad in the patrol.", "4 C10"),
 "C12": ("Coq theorems (field) on the functional apply_isospin model + regenerated named-target table compared with the documented table by vm_compute; "
         "model tied to the code by differential correspondence",
         "Proof: for every parton map, PDF vector and Z, A<>0, contracting the rotated map equals contracting the proton map with the mixed u/d PDFs; neutron = swap, "
         "proton = identity; every kernel is rotated exactly once; the target table parsed from compatibility.py equals the documented one and unknown names are rejected. "
         "Target runs are compared with rotated proton runs on every run.",
         "Trusted: Coq kernel+vm_compute; tools/tables.py; harness; model tied by sampled correspondence (the aliasing defect fixed in b62348b2 was found by it).", "4 C12"),
 "C14": ("Coq theorem by induction over the operation list (invariant + injectivity of the by-name key) on a hand-written model of the StructureFunction cache; "
         "tied by differential correspondence of get_esf / drop_cache traces on the real class; the positional key of the pinned tree is refuted by a vm_compute witness",
         "Proof: for every sequence of requests and cache drops (any order, duplicates, both dict key orders, raw/TMC) each request is served with an object created for the "
         "same point and TMC flag (history_independent), resting on key_injective; the positional key is refuted (the witness reproduced the defect fixed in c2f18abb). "
         "Real runs compare every slot of shuffled multi-observable histories bit-for-bit with the point requested alone.",
         "Trusted: Coq kernel+vm_compute; harness; that an object's result depends only on its own kinematics and the configuration is assumed by the theorem and checked "
         "bitwise by the patrol and by the ScaleVariations correspondence (shared manager across nf).", "4 C14"),
 "C15": ("Coq theorem (list induction: transposition of the kinematics columns, zip of orders/values/errors) on a hand-written model of dump_tar/load_tar, polymorphic in the "
         "tensor payload; tied by differential correspondence that opens the real tar (metadata.yaml + npz) and compares it and the reloaded objects with the model",
         "Proof: for any payload type, any number of points and any uniform order-key list in any insertion order, SF and XS alike, load(dump rs) = rs, and the dump succeeds on "
         "every non-empty uniform list; empty lists are special-cased by the code (checked by the harness). Real outputs go through two tar and two YAML cycles with bit-for-bit "
         "comparison of every field, the runcards and predictions at xiR, xiF != 1. Two defects found this way were fixed (c7079a87, 3514e826).",
         "Trusted: Coq kernel+vm_compute; harness; PyYAML / npz / tarfile / float-text conversion are a transport exercised on real files, not modelled; the YAML format has no "
         "structural transformation and is covered by the patrol only.", "4 C15"),
 "C16": ("exhaustive evaluation inside Coq (vm_compute) of a hand-written outcome model (validation, TMC availability, module/class and dictionary look-ups of the Combiner model "
         "over the regenerated inventory) on the complete discrete lattice, sharded per kind; model tied by differential correspondence on real run_yadism calls",
         "Proof over the complete lattice of 25920 cells (6 kinds x 5 heavynesses x EM/NC/CC x 5 schemes with FONLL parts x NfFF 3..6 x PTO 0..3 x TMC off/on): no cell ends in an "
         "internal look-up failure (no documented gap is left); malformed kinematics and TMC for kinds without formulas are rejected "
         "in every configuration. Five defects found this way were fixed (7fbf7d5a, 0955516d, 9b5f9d9a, 465a87b3, 3f1d4534). Sampled real runs compare the outcome class and check finiteness.",
         "Trusted: Coq kernel+vm_compute; tools/tables.py; harnesses; the model is tied by sampled correspondence; NaN/inf from third-party numerics only checked on samples; "
         "argument-vector reads are C18; asy NC F2/FL cells cannot run here (adani).", "4 C16"),
 "C06": ("Coq theorems (case analysis, Qle reasoning) on a hand-written model of update_fns / Atlas walls / nf_default over rationals + infinity; "
         "update_fns tied exhaustively, nf_default by correspondence at, one ulp below and above every wall",
         "Proof: nf_default = 3 + #{heavy quarks with matching scale <= Q2} for every rational Q2 >= 0 (active exactly at the threshold, inactive below), monotone; "
         "in FFNS/FFN0/FONLL the walls produced by update_fns give nf = NfFF at every Q2 for any masses/ratios; which quarks are massive per scheme. "
         "Multi-point NNLO runs across thresholds check that the beta0 in the (2,0,1,0) tensors is beta0(nf) and that results depend on thresholds only through the count.",
         "Trusted: Coq kernel+vm_compute; harness; np.digitize/eko Atlas modelled (counting), not verified; that the scale-variation betas use this nf is shown "
         "on real runs by the patrol here and belongs to the C05 model.", "4 C06"),
 "C05": ("Coq theorems (list/filter algebra, computation on the coefficient tables) on a hand-written model of scale_variations.py / sector_mapping / the SV part of compute_local; "
         "tied by differential correspondence on the real ScaleVariations manager serving sequences of nf and on the real compute_local (stub Combiner, table look-up for convolve_vector)",
         "Proof: for any kernel entries, operator matrices, projectors and nf, switching FactScaleVar (RenScaleVar) off yields exactly the lnF=0 (lnR=0) sub-list of the all-on result, "
         "both off leaves the central orders; intrinsic channels never get lnF; the diff step spawns from an a_s^1 / a_s^2 term exactly the terms with coefficients beta0, beta1, 2 beta0, beta0^2 "
         "and the binomial split of ln(muF2/muR2)^n that solve the muR RGE, nothing at LO/NLO accuracy; the per-sector operator table is the DGLAP solution for muF (PTO<=2). "
         "Real multi-nf runs check the relations with beta(nf), rebuild the muF tensors with fresh operators, and compare the four switch combinations.",
         "Trusted: Coq kernel+vm_compute; harness; H3 (composite labels = operator products) unproved; eko beta/projectors are inputs (betas compared). muF at PTO 3 is not implemented in yadism.", "4 C05"),
 "C11": ("Coq theorems (field; list induction for the dict algebra) on hand-written models of ESFResult arithmetic and exs.py; models tied by differential correspondence",
         "Proof: every entry of every order of a cross section is c1 F2 + c2 FL + c3 xF3 (third SF skipped iff c3 = 0); for all ten kinds the coefficients equal the documented "
         "(N, -N yL/y+, s N y-/y+) for any x, y, Q2, GF, MW, hadron mass; ESFResult +,-,* are entry-wise linear. Real runs compare XS tensors with the SF tensors of the same run.",
         "Trusted: Coq kernel+vm_compute; harness; spec_of in XS.v is the specification (docs intro.rst; XSFPFCC's documented 8 pi read as 4 pi); pi, sqrt, unit constant are parameters.", "4 C11"),
 "C17": ("Coq theorems (ring, list induction, permutation) on a hand-written model of ESFResult.apply_pdf and of the alpha_s dispatch; tied by differential correspondence "
         "(eko Couplings.a_s wrapped to record scale and nf)",
         "Proof: the prediction is the sum over stored orders of a_s^k alpha^l LR^i LF^j <operator, pdfs> (power 0 special-casing harmless), linear in the PDF, independent of "
         "rows of missing flavours and of key order; alpha_s is asked with nf = NfFF (fixed flavour) or 3 + #{(m k)^2 <= muR^2} (ZM-VFNS). Real outputs are contracted independently.",
         "Trusted: Coq kernel+vm_compute; harness; eko's Couplings running itself is outside; logs enter as the code's floats.", "4 C17"),
 "C20": ("Coq theorems on a hand-written model of compatibility.update (dictionary lemmas; complete enumeration of the card shapes by vm_compute) and a heap frame theorem; "
         "tied by differential correspondence on card shapes and by a mutation log of every caller-owned container during real runs",
         "Proof: a container no write targets is unchanged after any history (frame); the scale-variation defaults and the target upgrade are idempotent for arbitrary cards; the "
         "whole theory upgrade is idempotent on the complete enumeration of the 3456 card shapes it can distinguish. The premise of the frame theorem (no write to caller-owned "
         "containers) and the echo of theory / observables / grid / pids / projectile / point kinematics are established on real runs with mutation-logging cards.",
         "Trusted: Coq kernel+vm_compute; harness (intercepts every mutating method of dict and list); model tied by sampled correspondence.", "4 C20"),
 "C18": ("translator tie: every njit kernel and every RSL construction site is regenerated from the source (tools/pyk2coq.py, tools/sites.py) on each run; the in-bounds "
         "predicate over the regenerated site table is decided by vm_compute and lifted by a theorem proved by induction on expressions",
         "Partial proof (memory-safety half): every translated part of every RSL site is handed at least arity-many arguments, hence (theorem, all z, all vectors of that length) "
         "its evaluation reads no index outside the vector; a site failing the test reads out of bounds on every input (this found the defect fixed in a98663cd). 138 of 143 njit "
         "functions are covered (the five others are the hand-modelled loops and the special-function implementations). Agreement of compiled and interpreted kernels to rounding "
         "is sampled in separate processes with NUMBA_BOUNDSCHECK=1, not proved.",
         "Trusted: Coq kernel+vm_compute; the translators; numba/LLVM code generation and the Chebyshev li2/nielsen index arithmetic are not modelled.", "4 C18"),
}
PENDING = "check not built yet in this snapshot (machinery under construction, see DESIGN.md section 4)"


def main():
    checks = []
    for pid in ALL:
        if pid not in CLAIMED:
            continue
        tech, text, note, ref = CLAIMED[pid]
        checks.append({
            "property_id": pid,
            "quick_cmd": "./check %s --tier quick" % pid,
            "thorough_cmd": "./check %s --tier thorough" % pid,
            "evidence_file": "/verif/evidence/%s.json" % pid,
            "replay_cmd_template": "./check %s --replay {path}" % pid,
            "engine": "coq-yad",
            "level_claimed": {"category": "proof", "text": text, "design_ref": ref},
            "level_note": note,
            "technique": tech,
        })
    man = {
        "version": 1,
        "setup_cmd": "./check setup",
        "hooks": {"guard": "YADISM_VERIF", "enable": "no source hooks: harnesses wrap public callables from outside; YADISM_VERIF=1 is exported by the harness but nothing in /repo reads it",
                  "baseline_off_cmd": "cd /repo && /venv/bin/python -m pytest -ra -q -p no:cacheprovider --timeout=900 --continue-on-collection-errors",
                  "source_commits": [], "add_only": True},
        "engines": [{"name": "coq-yad", "path": "/verif/coq", "serves_properties": sorted(CLAIMED),
                     "kind_free_text": "Coq 8.16.1 development (theories/ hand-written models + theorems, gen/ regenerated from /repo on every run, "
                                       "props/ property statements) driven by tools/check.py; correspondence cases evaluated by vm_compute"}],
        "checks": checks,
        "not_applicable": [{"property_id": p, "reason": NA.get(p, PENDING)} for p in ALL if p not in CLAIMED],
        "notes": "See DESIGN.md. known_findings.json lists recorded/fixed defects.",
    }
    with open(os.path.join(HERE, "..", "MANIFEST.json"), "w") as f:
        json.dump(man, f, indent=1)
    try:
        import jsonschema
        jsonschema.validate(man, json.load(open("/root/.vp/MANIFEST.schema.json")))
        print("MANIFEST.json valid,", len(checks), "checks")
    except ImportError:
        print("written (jsonschema not available)")


NA = {}
if __name__ == "__main__":
    main()
