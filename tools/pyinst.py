"""pyinst — extension of pyk2coq to the partonic-channel CLASSES whose kernels are closures over instance state
(heavy CC: h_q / h_g with self.labda; asymptotic CC: self.L).  Still pure `ast`, still fail-closed.

A class method (LO/NLO/...) is evaluated symbolically on a *symbolic instance*: a few attributes are declared to be
parameters (e.g. labda -> args[0]); every other `self.attr` is looked up in the `__init__` bodies along the class
hierarchy (most derived assignment wins, as at run time) or is a method.  Nested functions and lambdas become closures;
`RSL(reg, sing, loc)` / `RSL.from_delta(c)` become a triple of expressions in z (x for the local part) and the parameters.

Accepted on top of pyk2coq: self.attr, self.method(...), lambda (with defaults), nested def, calls of local closures,
list literals with literal indexing and `l.insert(0, v)`, scipy.special.spence(w) = Li2(1 - w), RSL constructors."""
import ast
from pyk2coq import Translator, Opaque, V, FRef, C, vadd, vsub, vmul, vdiv, neg, PKG

RSL_NAMES = ("RSL", "pc.RSL", "partonic_channel.RSL")


class Closure:
    im = None

    def __init__(self, m, node, env, inst):
        self.m, self.node, self.env, self.inst = m, node, env, inst

    @property
    def re(self):
        raise Opaque("function used as a number")


class Bound:
    """a method of the symbolic instance"""
    def __init__(self, m, node, inst):
        self.m, self.node, self.inst = m, node, inst


class RSLV:
    def __init__(self, reg=None, sing=None, loc=None, args=None):
        self.parts = dict(reg=reg, sing=sing, loc=loc)
        self.args = args or {}


class Instance:
    def __init__(self, tr, m, cname, params, method_values=None):
        self.tr, self.params, self.cache = tr, dict(params), {}
        self.method_values = dict(method_values or {})      # methods whose result is declared to be a parameter
        self.mro = tr.linearize(m, cname)          # [(Module, ClassDef)] most derived first

    def method(self, name):
        for m, c in self.mro:
            for b in c.body:
                if isinstance(b, ast.FunctionDef) and b.name == name:
                    return Bound(m, b, self)
        return None

    def get(self, attr):
        if attr in self.params:
            return self.params[attr]
        if attr in self.cache:
            return self.cache[attr]
        bm = self.method(attr)
        if bm is not None:
            return bm
        for m, c in self.mro:
            init = next((b for b in c.body if isinstance(b, ast.FunctionDef) and b.name == "__init__"), None)
            if init is None:
                continue
            found = None
            for st in init.body:
                if (isinstance(st, ast.Assign) and len(st.targets) == 1 and isinstance(st.targets[0], ast.Attribute)
                        and isinstance(st.targets[0].value, ast.Name) and st.targets[0].value.id == "self" and st.targets[0].attr == attr):
                    found = st.value          # the last assignment in the most derived __init__ that sets it
            if found is not None:
                env = {"__self__": self}
                for a in init.args.args[1:] + init.args.kwonlyargs:
                    if a.arg in self.params:
                        env[a.arg] = self.params[a.arg]
                v = self.tr.expr(m, found, env, None)
                self.cache[attr] = v
                return v
            for st in c.body:           # class attribute
                if isinstance(st, ast.Assign) and len(st.targets) == 1 and isinstance(st.targets[0], ast.Name) and st.targets[0].id == attr:
                    raise Opaque("class attribute %s" % attr)
        raise Opaque("attribute self.%s is neither a parameter, a method nor assigned in an __init__" % attr)


class InstTranslator(Translator):
    # ---------------------------------------------------------------- classes
    def class_def(self, m, node):
        """resolve the expression naming a base class -> (Module, ClassDef)"""
        if isinstance(node, ast.Name):
            for b in m.tree.body:
                if isinstance(b, ast.ClassDef) and b.name == node.id:
                    return m, b
            r = self.resolve(m, node.id)
        else:
            chain, n = [], node
            while isinstance(n, ast.Attribute):
                chain.append(n.attr); n = n.value
            if not isinstance(n, ast.Name):
                raise Opaque("base class expression")
            r = self.resolve(m, n.id)
            for attr in reversed(chain[1:]):
                if r[0] != "mod":
                    raise Opaque("base class path")
                sub = self.mod(r[1] + "." + attr)
                if sub is None:
                    raise Opaque("base class module")
                r = ("mod", r[1] + "." + attr)
            if r[0] != "mod":
                raise Opaque("base class %s is not in a module of the package" % ast.unparse(node))
            mm = self.mod(r[1])
            for b in mm.tree.body:
                if isinstance(b, ast.ClassDef) and b.name == chain[0]:
                    return mm, b
            raise Opaque("class %s not found in %s" % (chain[0], r[1]))
        raise Opaque("cannot resolve class %s (%s)" % (ast.unparse(node), r[0]))

    def resolve(self, m, name, depth=0):
        try:
            return super().resolve(m, name, depth)
        except Opaque:
            # a class imported from a sibling module: from .partonic_channel import X is not used for classes here
            raise

    def linearize(self, m, cname):
        start = next((b for b in m.tree.body if isinstance(b, ast.ClassDef) and b.name == cname), None)
        if start is None:
            raise Opaque("class %s not in %s" % (cname, m.dotted))
        seq = []

        def visit(mm, c, depth=0):
            if depth > 20:
                raise Opaque("class hierarchy too deep")
            seq.append((mm, c))
            for b in c.bases:
                try:
                    bm, bc = self.class_def(mm, b)
                except Opaque:
                    continue          # object, abc.ABC, external bases
                visit(bm, bc, depth + 1)
        visit(m, start)
        # a class comes after all of its subclasses (as in Python's MRO for these diamond-free-or-simple hierarchies):
        # keep the LAST occurrence of every class of the pre-order walk
        out, seen = [], set()
        for mm, c in reversed(seq):
            key = (mm.dotted, c.name)
            if key not in seen:
                seen.add(key); out.append((mm, c))
        out.reverse()
        return out

    # ---------------------------------------------------------------- expressions
    def expr(self, m, node, env, fctx):
        inst = env.get("__self__") if env else None
        if isinstance(node, ast.Lambda):
            return Closure(m, node, env, inst)
        if isinstance(node, ast.List):
            return [self.expr(m, e, env, fctx) for e in node.elts]
        if isinstance(node, ast.Attribute) and inst is not None:
            chain, n = [], node
            while isinstance(n, ast.Attribute):
                chain.append(n.attr); n = n.value
            if isinstance(n, ast.Name) and n.id == "self":
                return inst.get(".".join(reversed(chain))) if ".".join(reversed(chain)) in inst.params else self._chain(inst, list(reversed(chain)))
        if isinstance(node, ast.Subscript) and isinstance(node.value, ast.Name) and isinstance(env.get(node.value.id), list):
            idx = node.slice
            if isinstance(idx, ast.Constant) and isinstance(idx.value, int):
                return env[node.value.id][idx.value]
            raise Opaque("list index is not a literal")
        if isinstance(node, ast.Call):
            v = self.inst_call(m, node, env, fctx)
            if v is not NotImplemented:
                return v
        return super().expr(m, node, env, fctx)

    def _chain(self, inst, chain):
        v = inst.get(chain[0])
        if len(chain) > 1:
            raise Opaque("attribute path self.%s" % ".".join(chain))
        return v

    def inst_call(self, m, node, env, fctx):
        f = node.func
        inst = env.get("__self__") if env else None
        fname = ast.unparse(f)
        # RSL constructors
        if fname in RSL_NAMES:
            names = ["reg", "sing", "loc", "args"]
            given = dict(zip(names, node.args))
            given.update({k.arg: k.value for k in node.keywords})
            parts = {}
            for p in ("reg", "sing", "loc"):
                n = given.get(p)
                parts[p] = None if n is None or (isinstance(n, ast.Constant) and n.value is None) else self.expr(m, n, env, fctx)
            av = given.get("args")
            args = {}
            if av is not None and not (isinstance(av, ast.Constant) and av.value is None):
                if isinstance(av, (ast.List, ast.Tuple)):
                    vals = [self.expr(m, e, env, fctx) for e in av.elts]
                    args = {p: vals for p in ("reg", "sing", "loc")}
                else:
                    raise Opaque("RSL args is not a literal list")
            return RSLV(parts["reg"], parts["sing"], parts["loc"], args)
        if fname in tuple(n + ".from_delta" for n in RSL_NAMES):
            c = self.expr(m, node.args[0], env, fctx)
            return RSLV(None, None, ("const", c))
        if isinstance(f, ast.Name) and isinstance(env.get(f.id), Closure):
            return self.apply(env[f.id], [self.expr(m, a, env, fctx) for a in node.args])
        if isinstance(f, ast.Attribute) and isinstance(f.value, ast.Name) and f.value.id == "self" and inst is not None:
            tgt = inst.get(f.attr)
            argv = [self.expr(m, a, env, fctx) for a in node.args]
            if isinstance(tgt, Closure):
                return self.apply(tgt, argv)
            if isinstance(tgt, Bound):
                return self.call_method(tgt, argv)
            raise Opaque("call of self.%s which is a value" % f.attr)
        if isinstance(f, ast.Name) and f.id == "super":
            raise Opaque("super() outside __init__")
        # scipy.special.spence(w) = Li2(1 - w)
        try:
            tgt = self.resolve_attr(m, f) if isinstance(f, ast.Attribute) else self.resolve(m, f.id) if isinstance(f, ast.Name) and f.id not in env else None
        except Opaque:
            tgt = None
        if tgt and tgt[0] == "ext" and tgt[1] == "scipy.special.spence" and len(node.args) == 1:
            a = self.expr(m, node.args[0], env, fctx)
            if a.im is not None:
                raise Opaque("spence of complex")
            return V(("li2", ("sub", C(1), a.re)))
        # kernel(z, args) where args is a local list (the closure's own args parameter)
        if tgt and tgt[0] == "func" and len(node.args) == 2 and isinstance(node.args[1], ast.Name) and isinstance(env.get(node.args[1].id), list):
            cm = self.mod(tgt[1])
            if len(cm.funcs[tgt[2]].args.args) == 2:
                return self.function(cm, tgt[2], self.expr(m, node.args[0], env, fctx), env[node.args[1].id])
        return NotImplemented

    def apply(self, clo, argv):
        node = clo.node
        params = [a.arg for a in node.args.args]
        env = dict(clo.env)
        if clo.inst is not None:
            env["__self__"] = clo.inst
        ndef = len(node.args.defaults)
        for i, p in enumerate(params):
            if i < len(argv):
                env[p] = argv[i]
            else:
                d = i - (len(params) - ndef)
                if d < 0:
                    raise Opaque("missing argument %s" % p)
                env[p] = self.expr(clo.m, node.args.defaults[d], clo.env, None)
        if isinstance(node, ast.Lambda):
            return self.expr(clo.m, node.body, env, None)
        return self.body(clo.m, node, env, None, {})

    def call_method(self, bm, argv):
        if bm.node.name in bm.inst.method_values:
            return bm.inst.method_values[bm.node.name]
        params = [a.arg for a in bm.node.args.args][1:]
        if len(argv) != len(params):
            raise Opaque("method %s called with %d arguments" % (bm.node.name, len(argv)))
        env = {"__self__": bm.inst}
        env.update(zip(params, argv))
        return self.body(bm.m, bm.node, env, None, {})

    def body(self, m, fn, env, fctx, lits):
        env = dict(env)
        inst = env.get("__self__")
        stmts = list(fn.body)
        if stmts and isinstance(stmts[0], ast.Expr) and isinstance(stmts[0].value, ast.Constant) and isinstance(stmts[0].value.value, str):
            stmts = stmts[1:]
        for st in stmts:
            if isinstance(st, ast.FunctionDef):
                env[st.name] = Closure(m, st, env, inst)      # env is shared: later assignments of the enclosing scope are visible, as in Python
            elif isinstance(st, ast.Assign) and len(st.targets) == 1 and isinstance(st.targets[0], ast.Name):
                env[st.targets[0].id] = self.stmt_expr(m, st.value, env, fctx, lits)
            elif isinstance(st, ast.Expr) and isinstance(st.value, ast.Call) and isinstance(st.value.func, ast.Attribute) and st.value.func.attr == "insert" \
                    and isinstance(st.value.func.value, ast.Name) and isinstance(env.get(st.value.func.value.id), list):
                idx = st.value.args[0]
                if not (isinstance(idx, ast.Constant) and isinstance(idx.value, int)):
                    raise Opaque("insert at a non-literal index")
                lst = list(env[st.value.func.value.id])
                lst.insert(idx.value, self.expr(m, st.value.args[1], env, fctx))
                env[st.value.func.value.id] = lst
            elif isinstance(st, ast.Return):
                if st.value is None:
                    raise Opaque("bare return")
                return self.stmt_expr(m, st.value, env, fctx, lits)
            elif isinstance(st, ast.Expr) and isinstance(st.value, ast.Constant):
                continue
            elif (isinstance(st, ast.If) and not st.orelse and isinstance(st.test, ast.Compare) and len(st.test.ops) == 1 and isinstance(st.test.ops[0], ast.Is)
                  and isinstance(st.test.comparators[0], ast.Constant) and st.test.comparators[0].value is None and isinstance(st.test.left, ast.Name)
                  and isinstance(env.get(st.test.left.id), V)):
                continue          # `if x is None: ...` with x a number: the guard does not fire
            else:
                raise Opaque("statement %s" % type(st).__name__)
        raise Opaque("no return")

    # ---------------------------------------------------------------- entry point
    def rsl_of(self, dotted, cname, method, params, method_values=None):
        """-> dict part -> expression (or None) of the RSL the method returns, in z and the parameters"""
        m = self.mod(dotted)
        if m is None:
            raise Opaque("module %s not found" % dotted)
        inst = Instance(self, m, cname, params, method_values)
        bm = inst.method(method)
        if bm is None:
            raise Opaque("no method %s" % method)
        r = self.call_method(bm, [])
        if not isinstance(r, RSLV):
            raise Opaque("%s.%s does not return an RSL" % (cname, method))
        out = {}
        for p, v in r.parts.items():
            if v is None:
                out[p] = None
            elif isinstance(v, tuple) and v[0] == "const":
                if v[1].im is not None:
                    raise Opaque("complex constant")
                out[p] = v[1].re
            elif isinstance(v, Closure):
                val = self.apply(v, [V(("z",)), r.args.get(p, [])])
                if val.im is not None:
                    raise Opaque("complex result")
                out[p] = val.re
            elif isinstance(v, FRef):
                cm = self.mod(v.tgt[1])
                val = self.function(cm, v.tgt[2], V(("z",)), r.args.get(p, []))
                if val.im is not None:
                    raise Opaque("complex result")
                out[p] = val.re
            else:
                raise Opaque("RSL part of unexpected kind")
        return out


def _value_of(self, dotted, cname, method, params):
    """expression of a method returning a number (e.g. convolution_point)"""
    m = self.mod(dotted)
    if m is None:
        raise Opaque("module %s not found" % dotted)
    inst = Instance(self, m, cname, params)
    bm = inst.method(method)
    if bm is None:
        raise Opaque("no method %s" % method)
    r = self.call_method(bm, [])
    if not isinstance(r, V) or r.im is not None:
        raise Opaque("%s.%s does not return a real number" % (cname, method))
    return r.re


InstTranslator.value_of = _value_of

# convolution points that differ from x: the attribute x is the variable z, labda is args[0]
VALUE_TARGETS = [("yadism.coefficient_functions.heavy.%s_cc" % k, "NonSinglet", "convolution_point", {"labda": V(("arg", 0)), "x": V(("z",))}) for k in ("f2", "fl", "f3")]

# the instance-closure kernels that are translated, with the attribute that becomes args[0]
TARGETS = [
    ("yadism.coefficient_functions.heavy.%s_cc" % k, cls, meth, {"labda": V(("arg", 0))})
    for k in ("f2", "fl", "f3") for cls, meth in (("NonSinglet", "LO"), ("NonSinglet", "NLO"), ("Gluon", "NLO"))
] + [
    ("yadism.coefficient_functions.asy.%s_cc" % k, "AsyGluon", "NLO", {"L": V(("arg", 0))}) for k in ("f2", "fl", "f3")
] + [
    ("yadism.coefficient_functions.asy.%s_cc" % k, "AsyQuark", "LO", {"L": V(("arg", 0))}) for k in ("f2", "f3")
] + [
    # asymptotic intrinsic channels: args[0] = L, args[1] = the LO delta coefficient of the light class (self.lo_local())
    ("yadism.coefficient_functions.asy.partonic_channel", cls, "NLO", {"L": V(("arg", 0))}, {"lo_local": V(("arg", 1))})
    for cls in ("PartonicChannelAsyLLIntrinsic", "PartonicChannelAsyNLLIntrinsicMatching")
]


if __name__ == "__main__":
    import sys, pyk2coq
    tr = InstTranslator(sys.argv[1] if len(sys.argv) > 1 else "/repo")
    for tgt in TARGETS:
        dotted, cname, meth, params = tgt[:4]
        try:
            r = tr.rsl_of(dotted, cname, meth, params, tgt[4] if len(tgt) > 4 else None)
            print(dotted.split(".")[-1], cname, meth, {p: (None if e is None else pyk2coq.size(e)) for p, e in r.items()})
        except Opaque as e:
            print(dotted.split(".")[-1], cname, meth, "OPAQUE:", e)


def inst_ident(dotted, cname, meth, part):
    return "ik_%s_%s_%s_%s" % (dotted.split(".")[-2], dotted.split(".")[-1], cname, meth) + "_" + part


def inst_kernels(repo):
    """-> list of (dotted, class, method, {'reg','sing','loc' -> expr|None} | ('opaque', reason))"""
    tr = InstTranslator(repo)
    out = []
    for tgt in TARGETS:
        dotted, cname, meth, params = tgt[:4]
        try:
            out.append((dotted, cname, meth, tr.rsl_of(dotted, cname, meth, params, tgt[4] if len(tgt) > 4 else None)))
        except Opaque as e:
            out.append((dotted, cname, meth, ("opaque", str(e))))
        except RecursionError:
            out.append((dotted, cname, meth, ("opaque", "recursion")))
    return out


def inst_kernels_v(repo):
    import pyk2coq
    ks = inst_kernels(repo)
    L = ["(* generated by tools/pyinst.py from %s/src/yadism — do not edit.  Closures over instance state of the partonic-channel" % repo,
         "   classes; the attribute named in the comment is args[0] *)",
         "From Coq Require Import ZArith List String.", "From Yad Require Import Expr.", "Import ListNotations.", "Open Scope string_scope.", ""]
    table = []
    for dotted, cname, meth, res in ks:
        key = "%s.%s.%s" % (dotted, cname, meth)
        if isinstance(res, tuple):
            table.append('  ("%s", None)' % key)
            L.append("(* %s: OPAQUE: %s *)" % (key, res[1].replace("*)", "* )")))
            continue
        for part in ("reg", "sing", "loc"):
            if res[part] is not None:
                L.append("Definition %s : expr := %s." % (inst_ident(dotted, cname, meth, part), pyk2coq.coq(res[part])))
        table.append('  ("%s", Some (%s, %s, %s))' % (key, *[("Some " + inst_ident(dotted, cname, meth, p)) if res[p] is not None else "None" for p in ("reg", "sing", "loc")]))
    for dotted, cname, meth, params in VALUE_TARGETS:
        key = "%s.%s.%s" % (dotted, cname, meth)
        try:
            e = InstTranslator(repo).value_of(dotted, cname, meth, params)
            L.append("Definition iv_%s_%s_%s_%s : expr := %s." % (dotted.split(".")[-2], dotted.split(".")[-1], cname, meth, pyk2coq.coq(e)))
        except Opaque as ex:
            L.append("(* %s: OPAQUE: %s *)" % (key, str(ex).replace("*)", "* )")))
    L.append("")
    L.append("Definition inst_table : list (string * option (option expr * option expr * option expr)) := [")
    L.append(";\n".join(table))
    L.append("].")
    return "\n".join(L) + "\n", ks
