"""Regenerate coq/gen/*.v from /repo's current working tree (content-compared writes)."""
import os
from lib import common
import tables
import pyk2coq, sites, pyinst


def regenerate():
    changed = []
    if common.write_if_changed(os.path.join(common.GEN, "Inventory.v"), tables.inventory_v(common.REPO)):
        changed.append("Inventory.v")
    if common.write_if_changed(os.path.join(common.GEN, "Tables.v"), tables.tables_v(common.REPO)):
        changed.append("Tables.v")
    kv, _ = pyk2coq.kernels_v(common.REPO)
    if common.write_if_changed(os.path.join(common.GEN, "Kernels.v"), kv):
        changed.append("Kernels.v")
    sv, _ = sites.sites_v(common.REPO)
    if common.write_if_changed(os.path.join(common.GEN, "SiteTable.v"), sv):
        changed.append("SiteTable.v")
    iv, _ = pyinst.inst_kernels_v(common.REPO)
    if common.write_if_changed(os.path.join(common.GEN, "InstKernels.v"), iv):
        changed.append("InstKernels.v")
    return changed
