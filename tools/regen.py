"""Regenerate coq/gen/*.v from /repo's current working tree (content-compared writes)."""
import os
from lib import common
import tables


def regenerate():
    changed = []
    if common.write_if_changed(os.path.join(common.GEN, "Inventory.v"), tables.inventory_v(common.REPO)):
        changed.append("Inventory.v")
    if common.write_if_changed(os.path.join(common.GEN, "Tables.v"), tables.tables_v(common.REPO)):
        changed.append("Tables.v")
    return changed
