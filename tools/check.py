"""Driver of the /verif checks.  ./check C07 --tier quick|thorough [--replay f] ; ./check setup"""
import argparse, importlib, os, sys, traceback
sys.path.insert(0, os.path.dirname(os.path.abspath(__file__)))
from lib import common  # noqa: E402  (sets the environment before yadism is imported)
import regen  # noqa: E402


def main():
    ap = argparse.ArgumentParser()
    ap.add_argument("prop")
    ap.add_argument("--tier", default=os.environ.get("VERIF_TIER", "quick"))
    ap.add_argument("--replay")
    a = ap.parse_args()
    seed = int(os.environ.get("VERIF_SEED", "1"))
    if a.prop == "setup":
        regen.regenerate()
        ok, log = common.coq_make([], timeout=6000)
        sys.stdout.write(log[-4000:])
        sys.exit(0 if ok else 1)
    pid = a.prop.upper()
    mod = importlib.import_module("props." + pid)
    if a.replay:
        sys.exit(mod.replay(a.replay))
    chk = common.Check(pid, a.tier, seed, level=getattr(mod, "LEVEL", "proof"))
    try:
        regen.regenerate()
        mod.run(chk)
    except Exception:  # the machinery itself failed: report, never claim success
        tb = traceback.format_exc()
        sys.stderr.write(tb)
        chk.oblige("check machinery ran to completion", False, tb[-1500:])
        chk.violation("machinery", "the check could not be completed: " + tb.splitlines()[-1],
                      dict(traceback=tb), found_input=False)
    sys.exit(chk.finish())


if __name__ == "__main__":
    main()
