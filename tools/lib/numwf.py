"""Numerical evaluation of the statement of C03 on the implementation: loc(x) + int_0^x sing is x-independent, and all
parts are finite on (0,1).  Used as the search for a failing input and as patrol; never counted as evidence."""
import math
import numpy as np
import scipy.integrate

XS = [0.05, 0.3, 0.6, 0.9]


def wf_defect(rsl):
    """largest | loc(b) - loc(a) + int_a^b sing | relative to the size of the terms; None when not applicable"""
    if rsl.sing is None and rsl.loc is None:
        return None
    worst = None
    sing = (lambda z: rsl.sing(z, rsl.args["sing"])) if rsl.sing is not None else (lambda z: 0.0)
    loc = (lambda x: rsl.loc(x, rsl.args["loc"])) if rsl.loc is not None else (lambda x: 0.0)
    for a, b in zip(XS[:-1], XS[1:]):
        integ, err = scipy.integrate.quad(sing, a, b, epsabs=1e-13, epsrel=1e-12, limit=200)
        la, lb = float(loc(a)), float(loc(b))
        scale = max(1e-3, abs(la), abs(lb), abs(integ))
        d = abs(lb - la + integ) / scale
        if worst is None or d > worst["defect"]:
            worst = dict(defect=d, a=a, b=b, loc_a=la, loc_b=lb, int_sing=float(integ))
    return worst


def finite_parts(rsl, zs=(1e-6, 0.01, 0.3, 0.7, 0.99, 1 - 1e-6)):
    bad = []
    for p in ("reg", "sing", "loc"):
        f = getattr(rsl, p)
        if f is None:
            continue
        for z in zs:
            try:
                v = f(z, rsl.args[p])
                if isinstance(v, complex) or not math.isfinite(float(v)):
                    bad.append((p, z, repr(v)))
            except Exception as e:  # noqa
                bad.append((p, z, type(e).__name__ + ": " + str(e)[:60]))
    return bad
