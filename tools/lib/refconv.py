"""Reference evaluation of operator entries, independent of esf/conv.py and of eko's evaluation path:
own Lagrange basis (as in coq/theories/Interp.v) + scipy quadrature of the specification conv_spec (coq/theories/Conv.v):
  entry[pid, j] = sum_kernels partons[pid] * cp * ( int_cp^1 dz [reg(z) p_j(cp/z)/z + sing(z)(p_j(cp/z)/z - p_j(cp))] + loc(cp) p_j(cp) )."""
import math
import numpy as np


def block(n, d, i):
    po2 = d // 2 - 1 if d % 2 == 0 else d // 2
    kmin = max(0, i - po2)
    if kmin + d >= n:
        return n - 1 - d, n - 1
    return kmin, kmin + d


class Basis:
    def __init__(self, grid, degree, log):
        self.grid = [float(g) for g in grid]
        self.t = [math.log(g) for g in self.grid] if log else list(self.grid)
        self.d, self.log, self.n = degree, log, len(grid)
        self.blocks = [block(self.n, degree, i) for i in range(self.n - 1)]

    def areas(self, j):
        return [i for i in range(self.n - 1) if self.blocks[i][0] <= j <= self.blocks[i][1]]

    def support(self, j):
        ar = self.areas(j)
        return self.grid[ar[0]], self.grid[ar[-1] + 1]

    def __call__(self, j, x):
        t = math.log(x) if self.log else x
        ar = self.areas(j)
        for pos, i in enumerate(ar):
            if self.t[i] < t <= self.t[i + 1] or (pos == 0 and t == self.t[i]):
                a, b = self.blocks[i]
                v = 1.0
                for k in range(a, b + 1):
                    if k != j:
                        v *= (t - self.t[k]) / (self.t[j] - self.t[k])
                return v
        return 0.0


def ref_conv(rsl, cp, basis, j, epsabs=1e-12):
    """conv_spec(rsl, p_j)(cp) by piecewise quadrature"""
    from scipy.integrate import quad
    if cp >= 1.0:
        return 0.0
    lo, hi = basis.support(j)
    pcp = basis(j, cp)
    reg, sing, loc = rsl.reg, rsl.sing, rsl.loc
    ar, asg, al = rsl.args["reg"], rsl.args["sing"], rsl.args["loc"]
    tot = 0.0
    if (reg is not None or sing is not None) and hi > cp:
        zmax = min(cp / lo, 1.0)
        if sing is not None and pcp != 0.0:
            zmax = 1.0        # the subtraction term lives on the whole range

        def f(z):
            pz = basis(j, cp / z) / z
            v = 0.0
            if reg is not None:
                v += reg(z, ar) * pz
            if sing is not None:
                v += sing(z, asg) * (pz - pcp)
            return v
        brk = sorted({cp / g for g in basis.grid if cp < cp / g < zmax} | {cp, zmax})
        for a, b in zip(brk[:-1], brk[1:]):
            if b >= 1.0:
                # integrable endpoint behaviour (logs) at z -> 1: substitute z = 1 - s^2
                sa = math.sqrt(1.0 - a)
                def g(s):
                    z = 1.0 - s * s
                    return 0.0 if z >= 1.0 else 2 * s * f(z)      # z = 1 only by rounding: a null set
                v, _e = quad(g, 0.0, sa, epsabs=epsabs, epsrel=1e-11, limit=400)
            else:
                v, _e = quad(f, a, b, epsabs=epsabs, epsrel=1e-11, limit=400)
            tot += v
    if loc is not None:
        tot += pcp * loc(cp, al)
    return tot


def ref_tensor(esf, basis, pids):
    """reference operator of one EvaluatedStructureFunction (central scales): dict order -> (len(pids) x n) array"""
    from yadism import coefficient_functions as cf
    out = {}
    info = []
    for cfe in cf.Combiner(esf).collect_elems():
        for o in esf.orders:
            if not cfe.has_order(o):
                continue
            rsl = cfe.coeff[o]()
            if rsl is None:
                continue
            cp = float(cfe.coeff.convolution_point())
            vals = np.array([ref_conv(rsl, cp, basis, j) for j in range(basis.n)])
            partons = np.array([cfe.partons.get(pid, 0.0) for pid in pids])
            key = (o, 0, 0, 0)
            out[key] = out.get(key, 0.0) + np.outer(partons, cp * vals)
            info.append(dict(cls=type(cfe.coeff).__name__, order=o, cp=cp))
    return out, info
