"""numeric evaluation (floats) of pyk2coq expression trees — used only to validate the translators against the running code"""
import math
from scipy.special import spence


def ev(e, z, args, zeta3=1.2020569031595942):
    t = e[0]
    if t == "c":
        return float(e[1])
    if t == "z":
        return z
    if t == "arg":
        return args[e[1]]
    if t == "pi":
        return math.pi
    if t == "zeta3":
        return zeta3
    if t == "add":
        return ev(e[1], z, args) + ev(e[2], z, args)
    if t == "sub":
        return ev(e[1], z, args) - ev(e[2], z, args)
    if t == "mul":
        return ev(e[1], z, args) * ev(e[2], z, args)
    if t == "div":
        return ev(e[1], z, args) / ev(e[2], z, args)
    if t == "neg":
        return -ev(e[1], z, args)
    if t == "pow":
        return ev(e[1], z, args) ** e[2]
    if t == "ln":
        return math.log(ev(e[1], z, args))
    if t == "sqrt":
        return math.sqrt(ev(e[1], z, args))
    if t == "li2":
        return float(spence(1.0 - ev(e[1], z, args)))
    raise ValueError("cannot evaluate " + t)
