"""Independent specifications (exact rational arithmetic) used as oracles by the property-level
searches. Written from the PDG structure-function review and the yadism documentation, not from
the code; mirrors coq/theories/PDG.v."""
from fractions import Fraction as Fr

PIDS = (22, -6, -5, -4, -3, -2, -1, 21, 1, 2, 3, 4, 5, 6)   # row order of the output tensors
PROJ = {"electron": 11, "positron": -11, "neutrino": 12, "antineutrino": -12}
QN = "duscbt"
PV_KINDS = ("F3", "gL", "g4")
HQ = {"charm": 4, "bottom": 5, "top": 6}


def e_q(q):
    return Fr(2, 3) if q % 2 == 0 else Fr(-1, 3)


def gA_q(q):
    return Fr(1, 2) if q % 2 == 0 else Fr(-1, 2)


def gV_q(s2w, q):
    return gA_q(q) - 2 * e_q(q) * s2w


def eta_gZ(s2w, MZ2, Q2, delta):
    return Q2 / (Q2 + MZ2) / (4 * s2w * (1 - s2w)) / (1 - delta)


def F2_coeff(s2w, eta, sgn, lam, q):
    gVe, gAe = Fr(-1, 2) + 2 * s2w, Fr(-1, 2)
    return (e_q(q) ** 2 - (gVe + sgn * lam * gAe) * eta * 2 * e_q(q) * gV_q(s2w, q)
            + (gVe ** 2 + gAe ** 2 + 2 * sgn * lam * gVe * gAe) * eta ** 2 * (gV_q(s2w, q) ** 2 + gA_q(q) ** 2))


def F3_coeff(s2w, eta, sgn, lam, q):
    gVe, gAe = Fr(-1, 2) + 2 * s2w, Fr(-1, 2)
    return (-(gAe + sgn * lam * gVe) * eta * 2 * e_q(q) * gA_q(q)
            + (2 * gVe * gAe + sgn * lam * (gVe ** 2 + gAe ** 2)) * eta ** 2 * 2 * gV_q(s2w, q) * gA_q(q))


def nc_quark_weight(th, ob, kind, q, Q2):
    """coefficient of x(q ± qbar) for a charged lepton beam; th/ob in exact rationals"""
    s2w, MZ2 = Fr(th["SIN2TW"]), Fr(th["MZ"]) ** 2
    pj = PROJ[ob["ProjectileDIS"]]
    sgn = -1 if pj > 0 else 1          # lepton charge sign
    lam = Fr(ob["PolarizationDIS"])
    pos = ob.get("NCPositivityCharge")
    if pos not in (None, "all") and q != 1 + QN.index(pos[0]):
        return Fr(0)
    if ob["prDIS"] == "EM":
        return Fr(0) if kind in PV_KINDS else e_q(q) ** 2
    eta = eta_gZ(s2w, MZ2, Fr(Q2), Fr(ob["PropagatorCorrection"]))
    f = F3_coeff if kind in PV_KINDS else F2_coeff
    return f(s2w, eta, sgn, lam, q)


def ckm2(th):
    v = [Fr(float(x)) ** 2 for x in th["CKM"].split()]
    return [v[0:3], v[3:6], v[6:9]]     # rows u c t, columns d s b


def transition_label(i, j):
    """heaviest quark of the transition up-type i (u c t) <-> down-type j (d s b), ordering d,u,s<c<b<t"""
    if i == 2:
        return "t"
    if j == 2:
        return "b"
    if i == 1:
        return "c"
    return "light"


def cc_parton_weights(th, ob, kind, allowed, nf):
    """LO charged-current weights per pid: allowed = set of transition labels selected by the heavyness"""
    V = ckm2(th)
    pj = PROJ[ob["ProjectileDIS"]]
    # W+ exchange (nu, e+) hits d-type quarks and up-type antiquarks; W- (nubar, e-) the conjugates
    wplus = pj in (12, -11)
    out = {}
    for q in range(1, nf + 1):
        if q % 2 == 0:
            i = q // 2 - 1
            w = sum(V[i][j] for j in range(3) if transition_label(i, j) in allowed)
        else:
            j = (q - 1) // 2
            w = sum(V[i][j] for i in range(3) if transition_label(i, j) in allowed)
        w = 2 * w
        down = q % 2 == 1
        parton = q if (down == wplus) else -q
        sign = 1
        if kind in PV_KINDS:
            sign = 1 if parton > 0 else -1
        out[parton] = sign * w
    return out


def lo_weights(th, ob, kind, heavyness, nf, Q2):
    """dict pid -> LO weight of x*f_pid(x) in a massless scheme with nf active flavours"""
    out = {}
    if ob["prDIS"] == "CC":
        if heavyness in ("total", "light"):
            allowed = {"light"} | {l for l, n in (("c", 4), ("b", 5), ("t", 6)) if nf >= n}
        else:
            hq = HQ[heavyness]
            if hq > nf:
                return {}
            allowed = {QN[hq - 1]}
        return cc_parton_weights(th, ob, kind, allowed, nf)
    qs = range(1, nf + 1) if heavyness in ("total", "light") else [q for q in [HQ[heavyness]] if q <= nf]
    for q in qs:
        w = nc_quark_weight(th, ob, kind, q, Q2)
        out[q] = w
        out[-q] = -w if kind in PV_KINDS else w
    return out
