"""Helpers to drive the real yadism on small cards."""
import copy, io, contextlib
import numpy as np
from . import common, cards, spec


def run(theory, obs):
    common.silence_yadism()
    import yadism
    with contextlib.redirect_stdout(io.StringIO()):
        return yadism.run_yadism(copy.deepcopy(theory), copy.deepcopy(obs))


def tensor(res, key):
    """values tensor (14 x n) of an ESFResult for an order key, zeros if absent"""
    if key in res.orders:
        return np.array(res.orders[key][0])
    return None


def nf_spec(theory, Q2):
    """number of active flavours by the statement of C06: quarks whose matching scale squared <= Q2"""
    n = 3
    for m, k in (("mc", "kcThr"), ("mb", "kbThr"), ("mt", "ktThr")):
        if (theory[m] * theory[k]) ** 2 <= Q2:
            n += 1
    return n


def rows_by_pid(t):
    return {pid: t[i] for i, pid in enumerate(spec.PIDS)}
