"""Helpers to drive the real yadism on small cards."""
import copy, io, contextlib
import numpy as np
from . import common, cards, spec


def run(theory, obs):
    common.silence_yadism()
    import yadism
    with contextlib.redirect_stdout(io.StringIO()):
        return yadism.run_yadism(copy.deepcopy(theory), copy.deepcopy(obs))


def tensor(res, key):
    """values tensor (14 x n) of an ESFResult for an order key, zeros if absent"""
    if key in res.orders:
        return np.array(res.orders[key][0])
    return None


def nf_spec(theory, Q2):
    """number of active flavours by the statement of C06: quarks whose matching scale squared <= Q2"""
    n = 3
    for m, k in (("mc", "kcThr"), ("mb", "kbThr"), ("mt", "ktThr")):
        if (theory[m] * theory[k]) ** 2 <= Q2:
            n += 1
    return n


def rows_by_pid(t):
    return {pid: t[i] for i, pid in enumerate(spec.PIDS)}


def compare(resA, resB, row_map=None, sign=1.0, tol=1e-11):
    """compare two ESFResults key by key: A[key][pid] ?= sign * B[key][row_map(pid)].
    returns None or a description of the worst difference"""
    worst = None
    keys = sorted(set(resA.orders) | set(resB.orders))
    for k in keys:
        a = tensor(resA, k); b = tensor(resB, k)
        if a is None:
            a = np.zeros_like(b)
        if b is None:
            b = np.zeros_like(a)
        scale = max(1.0, float(np.max(np.abs(a))), float(np.max(np.abs(b))))
        for i, pid in enumerate(spec.PIDS):
            src = pid if row_map is None else row_map(pid)
            j = spec.PIDS.index(src)
            d = float(np.max(np.abs(a[i] - sign * b[j])))
            if d > tol * scale and (worst is None or d > worst["diff"]):
                worst = dict(key=list(k), pid=pid, diff=d, scale=scale, a=a[i].tolist(), b=(sign * b[j]).tolist())
    return worst


def conj(pid):
    return -pid if abs(pid) <= 6 else pid
