"""Run cards used by the harnesses (dyadic numbers wherever a value enters a model exactly)."""
import copy
import numpy as np

CKM_DEFAULT = "0.97428 0.22530 0.003470 0.22520 0.97345 0.041000 0.00862 0.04030 0.999152"


def theory_card(**kw):
    t = dict(
        PTO=1, PTODIS=None, FNS="ZM-VFNS", NfFF=3, nf0=3,
        mc=1.5, mb=4.5, mt=173.0, kcThr=1.0, kbThr=1.0, ktThr=1.0,
        MaxNfPdf=6, MP=0.9375, Q0=1.25, TMC=0,
        RenScaleVar=False, FactScaleVar=False,
        CKM=CKM_DEFAULT, MW=80.375, MZ=91.1875, GF=1.1663787e-5, SIN2TW=0.234375,
        FONLLParts="full", n3lo_cf_variation=0,
        alphas=0.118, Qref=91.2, nfref=5, alphaqed=0.007496252, QED=0, ModEv="EXA", IC=1,
        XIF=1.0, XIR=1.0, MaxNfAs=6, Qmc=1.5, Qmb=4.5, Qmt=173.0, HQ="POLE",
    )
    t.update(kw)
    if t["PTODIS"] is None:
        t["PTODIS"] = t["PTO"]
    return t


def obs_card(observables, **kw):
    xgrid = kw.pop("xgrid", None)
    if xgrid is None:
        xgrid = [0.0009765625, 0.015625, 0.125, 0.25, 0.5, 0.75, 1.0]
    o = dict(
        interpolation_xgrid=list(xgrid),
        interpolation_polynomial_degree=kw.pop("degree", 3),
        interpolation_is_log=kw.pop("is_log", True),
        prDIS="NC", TargetDIS="proton", ProjectileDIS="electron",
        PolarizationDIS=0.0, PropagatorCorrection=0.0, NCPositivityCharge=None,
        observables=copy.deepcopy(observables),
    )
    o.update(kw)
    return o


def make_runner(theory, obs):
    import yadism.log
    yadism.log.silent_mode = True
    from yadism import runner
    return runner.Runner(theory, obs)
