"""Enumerate the RSL objects the real code builds over the configuration lattice (through Runner + Combiner), for the
kernel-level checks of C03 / C16 / C18."""
import itertools
import numpy as np
from . import common, cards

FNS = ["ZM-VFNS", "FFNS", "FFN0"]
KINDS_NC = ["F2", "FL", "F3", "g1", "gL", "g4"]
KINDS_CC = ["F2", "FL", "F3"]


def cells(rng=None, q2s=(3.0, 30.0, 3000.0), full=True):
    out = []
    for proc in ("NC", "CC"):
        for kind in (KINDS_CC if proc == "CC" else KINDS_NC):
            for fns in FNS:
                for nfff in ((3, 4, 5) if fns != "ZM-VFNS" else (3,)):
                    for hv in ("total", "light", "charm", "bottom", "top"):
                        for q2 in q2s:
                            out.append(dict(proc=proc, kind=kind, fns=fns, nfff=nfff, heavyness=hv, Q2=q2))
    if rng is not None and not full:
        rng.shuffle(out)
    return out


def rsls_of_cell(c, pto=3, masses=None):
    """yield (ident dict, rsl, coeff) for every kernel/order of a cell; exceptions are reported as ('error', e)"""
    from yadism import coefficient_functions as cf
    th = cards.theory_card(FNS=c["fns"], NfFF=c["nfff"], PTO=pto, PTODIS=pto, **(masses or {}))
    name = c["kind"] + "_" + c["heavyness"]
    proj = "neutrino" if c["proc"] == "CC" else "electron"
    ob = cards.obs_card({name: [dict(x=c.get("x", 0.1), Q2=c["Q2"])]}, prDIS=c["proc"], ProjectileDIS=proj)
    try:
        r = cards.make_runner(th, ob)
        esf = r.observables[name].elements[0]
        ks = cf.Combiner(esf).collect_elems()
    except Exception as e:  # noqa
        yield dict(cell=c, stage="collect"), ("error", e), None
        return
    for k in ks:
        for o in range(pto + 1):
            try:
                if not k.has_order(o):
                    continue
                rsl = k.coeff[o]()
            except Exception as e:  # noqa
                yield dict(cell=c, cls=type(k.coeff).__module__.split("coefficient_functions.")[-1] + "." + type(k.coeff).__name__, order=o, stage="build"), ("error", e), k.coeff
                continue
            if rsl is None:
                continue
            ident = dict(cell=c, cls=type(k.coeff).__module__.split("coefficient_functions.")[-1] + "." + type(k.coeff).__name__, order=o,
                         nf=int(k.coeff.nf), stage="ok")
            for attr in ("m2hq", "labda", "L", "m1sq", "m2sq"):
                if hasattr(k.coeff, attr):
                    try:
                        ident[attr] = float(getattr(k.coeff, attr))
                    except Exception:  # noqa
                        pass
            yield ident, rsl, k.coeff


def call_parts(rsl, z=0.5):
    """evaluate the three parts once; returns dict part -> value | exception"""
    out = {}
    for p in ("reg", "sing", "loc"):
        f = getattr(rsl, p)
        if f is None:
            continue
        try:
            out[p] = float(f(z, rsl.args[p]))
        except Exception as e:  # noqa
            out[p] = e
    return out
