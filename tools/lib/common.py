"""Shared machinery of the /verif checks: environment, Coq driver, evidence, verdicts."""
import os, sys

VERIF = os.path.abspath(os.path.join(os.path.dirname(__file__), "..", ".."))
REPO = os.environ.get("VERIF_REPO", "/repo")
SCRATCH = os.environ.get("VERIF_SCRATCH", "/var/tmp/yadism-verif")

# --- environment that must be fixed before yadism / numba are imported -----------------
os.environ.setdefault("NUMBA_DISABLE_JIT", "1")
os.environ.setdefault("NUMBA_CACHE_DIR", os.path.join(SCRATCH, "numba"))
os.environ["PYTHONHASHSEED"] = "0"
os.environ["YADISM_VERIF"] = "1"
os.environ.setdefault("OMP_NUM_THREADS", "1")
if os.path.join(REPO, "src") not in sys.path:
    sys.path.insert(0, os.path.join(REPO, "src"))

import warnings
warnings.filterwarnings("ignore")
import fcntl, fractions, hashlib, json, random, re, shutil, subprocess, time
from concurrent.futures import ThreadPoolExecutor

COQ = os.path.join(VERIF, "coq")
GEN = os.path.join(COQ, "gen")
WORK = os.path.join(VERIF, "work")
COQFLAGS = ["-R", os.path.join(COQ, "theories"), "Yad", "-R", GEN, "YadGen",
            "-R", os.path.join(COQ, "props"), "YadProps",
            "-w", "-notation-overridden,-deprecated-hint-without-locality,-deprecated-instance-without-locality,-undeclared-scope,-deprecated-syntactic-definition,-deprecated"]

ALLOWED_AXIOMS = {
    # real numbers of the standard library
    "ClassicalDedekindReals.sig_forall_dec", "ClassicalDedekindReals.sig_not_dec",
    "FunctionalExtensionality.functional_extensionality_dep",
    "Classical_Prop.classic",
    # short names as printed
    "sig_forall_dec", "sig_not_dec", "functional_extensionality_dep", "classic",
}

# primitive machine integers / floats of the standard library (used by CoqInterval): listed by Print Assumptions, not ours
PRIMITIVE_PREFIXES = ("FloatAxioms.", "PrimFloat.", "PrimInt63.", "Uint63.", "Uint63Axioms.", "Sint63.", "Sint63Axioms.", "FloatOps.", "SpecFloat.")


def axiom_allowed(a):
    return a in ALLOWED_AXIOMS or a.split(".")[-1] in ALLOWED_AXIOMS or a.startswith(PRIMITIVE_PREFIXES)


FORBIDDEN = re.compile(r"\b(Admitted|admit|Axiom|Axioms|Parameter|Parameters|Conjecture|Conjectures|"
                       r"Admit Obligations|bypass_check)\b|Unset Guard|Unset Positivity|Unset Universe|"
                       r"type-in-type|impredicative-set|native_compute")


def silence_yadism():
    import yadism.log
    yadism.log.silent_mode = True


# ------------------------------------------------------------------ rationals ----------
def frac(x):
    """exact rational value of a python number"""
    if isinstance(x, bool):
        x = int(x)
    if isinstance(x, int):
        return fractions.Fraction(x)
    return fractions.Fraction(float(x))


def qc(x):
    """Coq literal (Qc) of the exact value of x"""
    f = frac(x)
    return "(qc (%d) %d)" % (f.numerator, f.denominator)


def coq_Z(i):
    return "(%d)%%Z" % int(i)


def coq_bool(b):
    return "true" if b else "false"


def coq_list(items):
    return "[" + "; ".join(items) + "]"


def coq_str(s):
    return '"' + s.replace('"', '""') + '"'


def dyadic(rng, lo, hi, bits=12):
    """random dyadic rational in [lo,hi] with few bits, exactly representable as float"""
    n = 1 << bits
    k = rng.randint(0, n)
    return lo + (hi - lo) * k / n


# ------------------------------------------------------------------ Coq driver ---------
class CoqError(Exception):
    pass


def _lock():
    os.makedirs(WORK, exist_ok=True)
    f = open(os.path.join(WORK, ".lock"), "w")
    fcntl.flock(f, fcntl.LOCK_EX)
    return f


def write_if_changed(path, text):
    os.makedirs(os.path.dirname(path), exist_ok=True)
    try:
        with open(path) as f:
            if f.read() == text:
                return False
    except FileNotFoundError:
        pass
    with open(path, "w") as f:
        f.write(text)
    return True


def coq_project_files():
    out = []
    for d in ("theories", "gen", "props"):
        base = os.path.join(COQ, d)
        for root, _dirs, files in os.walk(base):
            if d == "gen" and os.path.abspath(root) != os.path.abspath(base):
                continue      # gen/ob, gen/mo, gen/cf, gen/oc: generated obligations, compiled by lib/obrun.py from their current text
            if os.path.basename(root) in ("cases", "ob"):
                continue
            for fn in sorted(files):
                if fn.endswith(".v"):
                    out.append(os.path.relpath(os.path.join(root, fn), COQ))
    return sorted(out)


def coq_make(targets, timeout=3000, jobs=16):
    """(Re)build the given .vo targets (paths relative to coq/). Returns (ok, log)."""
    lock = _lock()
    try:
        files = coq_project_files()
        proj = open(os.path.join(COQ, "_CoqProject")).read().rstrip("\n") + "\n" + "\n".join(files) + "\n"
        changed = write_if_changed(os.path.join(COQ, "_CoqProject.all"), proj)
        if changed or not os.path.exists(os.path.join(COQ, "Makefile")):
            subprocess.run(["coq_makefile", "-f", "_CoqProject.all", "-o", "Makefile"], cwd=COQ,
                           check=True, capture_output=True)
        p = subprocess.run(["timeout", str(timeout), "make", "-k", "-j%d" % jobs] + list(targets), cwd=COQ,
                           capture_output=True, text=True)
        return p.returncode == 0, p.stdout + p.stderr
    finally:
        lock.close()


def coqc(path, timeout=600):
    """compile one file directly, return (ok, output)"""
    p = subprocess.run(["timeout", str(timeout), "coqc"] + COQFLAGS + [path], capture_output=True, text=True)
    return p.returncode == 0, p.stdout + p.stderr


def parse_assumptions(output):
    """parse the output of the Print Assumptions commands of a props file.
    returns list of (closed: bool, axioms: set)"""
    res = []
    blocks = re.split(r"(?=Closed under the global context|Axioms:)", output)
    for b in blocks:
        if b.startswith("Closed under the global context"):
            res.append((True, set()))
        elif b.startswith("Axioms:"):
            names = set(re.findall(r"^([A-Za-z_][\w.']*)\s*:", b[len("Axioms:"):], flags=re.M)) - {"Warning", "File", "Error"}
            res.append((False, names))
    return res


def scan_forbidden():
    """grep the whole development for forbidden constructs"""
    hits = []
    for rel in coq_project_files():
        with open(os.path.join(COQ, rel)) as f:
            txt = f.read()
        txt_nc = re.sub(r"\(\*.*?\*\)", "", txt, flags=re.S)
        for m in FORBIDDEN.finditer(txt_nc):
            hits.append((rel, m.group(0)))
    return hits


def eval_cases(name, header, cases, check_fn, per_file=400, timeout=1200):
    """Evaluate `check_fn : case -> bool` on every case inside Coq (vm_compute).
    `cases` are Coq terms (strings). Returns the list of failing indices.
    header: Coq text with the Requires and the definition of check_fn's context."""
    d = os.path.join(WORK, "cases", name)
    shutil.rmtree(d, ignore_errors=True)
    os.makedirs(d)
    shards = [cases[i:i + per_file] for i in range(0, len(cases), per_file)]
    paths = []
    for si, sh in enumerate(shards):
        p = os.path.join(d, "S%d.v" % si)
        with open(p, "w") as f:
            f.write(header + "\n")
            f.write("Definition cases := [\n" + ";\n".join(sh) + "\n].\n")
            f.write("Definition bad := map fst (filter (fun ic => negb (%s (snd ic))) "
                    "(combine (List.seq 0 (List.length cases)) cases)).\n" % check_fn)
            f.write("Eval vm_compute in (List.length cases, bad).\n")
        paths.append(p)

    def one(p):
        return coqc(p, timeout=timeout)

    with ThreadPoolExecutor(max_workers=8) as ex:
        outs = list(ex.map(one, paths))
    failing = []
    for si, ((ok, out), sh) in enumerate(zip(outs, shards)):
        if not ok:
            raise CoqError("case file %s did not compile:\n%s" % (paths[si], out[-3000:]))
        flat = " ".join(out.split())
        m = re.search(r"= \((\d+)(?:%nat)?, (\[[^\]]*\]|nil)\)", flat)
        if not m or int(m.group(1)) != len(sh):
            raise CoqError("cannot parse Coq output of %s: %s" % (paths[si], out[-2000:]))
        body = m.group(2)
        idx = [int(t) for t in re.findall(r"\d+", body)] if body != "nil" else []
        failing += [si * per_file + i for i in idx]
    return failing


def eval_terms(name, header, terms, timeout=1200):
    """vm_compute arbitrary closed terms, return Coq's printed values (strings), one per term."""
    d = os.path.join(WORK, "cases", name)
    shutil.rmtree(d, ignore_errors=True)
    os.makedirs(d)
    p = os.path.join(d, "T.v")
    with open(p, "w") as f:
        f.write(header + "\n")
        for i, t in enumerate(terms):
            f.write("Definition t%d := %s.\nEval vm_compute in t%d.\n" % (i, t, i))
    ok, out = coqc(p, timeout=timeout)
    if not ok:
        raise CoqError("term file did not compile:\n" + out[-3000:])
    vals = re.findall(r"^\s*= (.*?)\n\s*: ", out, flags=re.S | re.M)
    return [" ".join(v.split()) for v in vals]


# ------------------------------------------------------------------ verdicts -----------
class Check:
    """One run of one property check."""

    def __init__(self, pid, tier, seed, level="proof"):
        self.pid, self.tier, self.seed, self.level = pid, tier, seed, level
        self.t0 = time.time()
        self.rng = random.Random(seed * 7919 + int(pid[1:]))
        self.obligations = []       # (name, ok, detail)
        self.corr = {}              # name -> dict(cases, disagreements, ...)
        self.samples = []
        self.patrol = {}
        self.violations = []        # dict(key, what, replay, found_input)
        self.notes = []
        self.assumptions = []
        self.trusted = []
        self.extra = {}
        with open(os.path.join(VERIF, "known_findings.json")) as f:
            self.known = json.load(f)["findings"]

    # -- obligations
    def oblige(self, name, ok, detail=""):
        self.obligations.append((name, bool(ok), detail))
        return ok

    def red(self):
        return [o for o in self.obligations if not o[1]]

    # -- violations
    def violation(self, key, what, replay, found_input=True):
        """key: stable identifier of the failing input / call site (matched with known findings)"""
        if any(v["key"] == key for v in self.violations):
            return
        os.makedirs(os.path.join(VERIF, "replays"), exist_ok=True)
        h = hashlib.sha1((self.pid + key).encode()).hexdigest()[:10]
        path = os.path.join(VERIF, "replays", "%s_%s.json" % (self.pid, h))
        with open(path, "w") as f:
            json.dump({"property": self.pid, "key": key, "what": what, "found_input": found_input,
                       "replay": replay, "replay_cmd": "./check %s --replay %s" % (self.pid, path)},
                      f, indent=1, default=str)
        self.violations.append(dict(key=key, what=what, replay=path, found_input=found_input))

    def finish(self):
        wall = time.time() - self.t0
        n_ob = len(self.obligations)
        n_ok = sum(1 for o in self.obligations if o[1])
        unlisted, listed = [], []
        for v in self.violations:
            k = [f for f in self.known if f["property"] == self.pid and f.get("status") == "open"
                 and f["key"] == v["key"]]
            (listed if k else unlisted).append(v)
        cov = {
            "obligations": max(n_ob, 1), "discharged": n_ok,
            "checker_cmd": "coqc (Coq 8.16.1 kernel, vm_compute) via ./check %s --tier %s" % (self.pid, self.tier),
            "trusted_base": self.trusted,
            "obligation_list": [{"name": n, "ok": ok, "detail": d[:300]} for n, ok, d in self.obligations],
            "assumptions_printed": self.assumptions,
            "correspondence": self.corr,
            "patrol": self.patrol,
            "samples": self.samples[:12] if self.samples else [{"note": "no sample recorded"}],
            "evaluations": sum(int(c.get("cases", 0)) for c in self.corr.values()) + sum(int(p.get("cases", 0)) for p in self.patrol.values()),
            "distinct_nontrivial": sum(int(c.get("distinct_nontrivial", 0)) for c in self.corr.values()),
            "rule": "; ".join("%s: %s" % (k, c.get("rule", "")) for k, c in self.corr.items()),
            "notes": self.notes,
            "known_findings_reported": [v["key"] for v in listed],
        }
        cov.update(self.extra)
        ev = {"property_id": self.pid, "tier": self.tier, "seed": self.seed, "level": self.level,
              "coverage": cov, "assumptions": self.trusted, "wall_s": round(wall, 2),
              "violations": len(unlisted)}
        os.makedirs(os.path.join(VERIF, "evidence"), exist_ok=True)
        with open(os.path.join(VERIF, "evidence", self.pid + ".json"), "w") as f:
            json.dump(ev, f, indent=1, default=str)
        for v in listed:
            print("KNOWN-FINDING: property=%s %s" % (self.pid, v["what"]))
        for v in unlisted:
            tail = "" if v["found_input"] else " no-failing-input-found"
            print("VIOLATION property=%s replay=%s%s" % (self.pid, v["replay"], tail))
        print("[%s] tier=%s obligations %d/%d, correspondence %s, wall %.1fs" % (
            self.pid, self.tier, n_ok, n_ob,
            {k: "%s/%s" % (c.get("cases", 0) - c.get("disagreements", 0), c.get("cases", 0)) for k, c in self.corr.items()},
            wall))
        return 1 if unlisted else 0


def check_props_file(chk, pid, extra_targets=()):
    """Build everything props/<pid>.v depends on, then compile it afresh, record one obligation per
    theorem and the printed assumptions. Returns True when all is green."""
    hits = scan_forbidden()
    chk.oblige("no forbidden construct (Admitted/Axiom/Parameter/…) in the development", not hits, str(hits[:5]))
    rel = "props/%s.v" % pid
    src = open(os.path.join(COQ, rel)).read()
    thms = re.findall(r"^\s*(?:Theorem|Lemma|Corollary|Example)\s+([\w']+)", src, flags=re.M)
    deps_ok, log = coq_make(["props/%s.vo" % pid] + list(extra_targets))
    ok, out = coqc(os.path.join(COQ, rel)) if deps_ok else (False, log)
    if ok:
        for tname in thms:
            chk.oblige("%s.%s" % (pid, tname), True)
        ass = parse_assumptions(out)
        allax = set()
        for closed, names in ass:
            allax |= names
        prim = sorted({a.split(".")[0] for a in allax if a.startswith(PRIMITIVE_PREFIXES)})
        rest = sorted(a for a in allax if not a.startswith(PRIMITIVE_PREFIXES))
        chk.assumptions = (rest + (["standard-library primitives (machine ints / floats): " + ", ".join(prim)] if prim else [])) if allax else ["Closed under the global context"]
        bad = [a for a in allax if not axiom_allowed(a)]
        chk.oblige("%s: Print Assumptions lists only standard-library axioms" % pid, not bad, str(bad))
        chk.extra["print_assumptions_blocks"] = len(ass)
    else:
        # find what failed
        m = re.findall(r'File "([^"]+)", line (\d+)', out if not deps_ok else log)
        where = "; ".join("%s:%s" % (os.path.relpath(a, COQ) if os.path.isabs(a) else a, b) for a, b in m[:5])
        for tname in thms:
            chk.oblige("%s.%s" % (pid, tname), False, "props file or a dependency does not compile: " + where)
        chk.extra["coq_error"] = (out if not deps_ok else log)[-3000:]
    return ok
