"""Compile generated obligation files (coq/gen/ob/*.v) in parallel with a content-hash cache."""
import hashlib, json, os, subprocess
from concurrent.futures import ThreadPoolExecutor
from . import common

OB = os.path.join(common.GEN, "ob")
CACHE = os.path.join(common.WORK, "obcache.json")


def _deps_stamp():
    """everything a generated obligation may depend on: all hand-written theories and the regenerated tables"""
    h = hashlib.sha1()
    for d in (os.path.join(common.COQ, "theories"), common.GEN):
        for f in sorted(os.listdir(d)):
            if f.endswith(".v"):
                h.update(f.encode()); h.update(open(os.path.join(d, f), "rb").read())
    return h.hexdigest()


def write_obligations(files, subdir="ob"):
    d = os.path.join(common.GEN, subdir)
    os.makedirs(d, exist_ok=True)
    for fn in os.listdir(d):
        if fn.endswith(".v") and fn not in files:
            os.remove(os.path.join(d, fn))
    for fn, txt in files.items():
        common.write_if_changed(os.path.join(d, fn), txt)
    return d


def compile_all(files, subdir="ob", timeout=900, jobs=14):
    """files: dict filename -> text. returns dict filename -> (ok, log tail, print-assumptions axioms)"""
    d = write_obligations(files, subdir)
    # the regenerated tables the obligations import must be compiled from their CURRENT text
    gens = ["gen/%s.vo" % f[:-2] for f in sorted(os.listdir(common.GEN)) if f.endswith(".v")]
    ok, log = common.coq_make(gens)
    if not ok:
        return {fn: (False, "regenerated tables do not compile: " + log[-800:], []) for fn in files}
    try:
        cache = json.load(open(CACHE))
    except Exception:  # noqa
        cache = {}
    stamp = _deps_stamp()
    todo, res = [], {}
    for fn, txt in files.items():
        key = hashlib.sha1((stamp + txt).encode()).hexdigest()
        if cache.get(subdir + "/" + fn, {}).get("key") == key:
            c = cache[subdir + "/" + fn]
            res[fn] = (c["ok"], c["log"], c["axioms"])
        else:
            todo.append((fn, key))

    def one(item):
        fn, key = item
        p = subprocess.run(["timeout", str(timeout), "coqc"] + common.COQFLAGS + [os.path.join(d, fn)], capture_output=True, text=True)
        out = p.stdout + p.stderr
        lines = [l for l in out.splitlines() if l.strip() and "Warning" not in l and "coercion" not in l and "ambiguous" not in l]
        ax = sorted({a for closed, names in common.parse_assumptions(out) for a in names})
        return fn, key, p.returncode == 0, "\n".join(lines[-12:])[-1500:], ax

    with ThreadPoolExecutor(max_workers=jobs) as ex:
        for fn, key, ok, log, ax in ex.map(one, todo):
            res[fn] = (ok, log, ax)
            cache[subdir + "/" + fn] = dict(key=key, ok=ok, log=log, axioms=ax)
    os.makedirs(common.WORK, exist_ok=True)
    json.dump(cache, open(CACHE, "w"))
    return res
