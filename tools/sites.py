"""sites.py — extract every RSL(...) / RSL.from_delta / RSL.from_distr_coeffs construction of the source tree (pure ast):
which function is reg / sing / loc, and how many arguments each part is handed.  Parts that are translatable kernels
(njit functions, or nested pure closures over module-level names) are identified with their expression; the others are
reported as closures with the reason."""
import ast, os, sys
import pyk2coq
from pyk2coq import Opaque, V

PARTS = ("reg", "sing", "loc")


class Site:
    def __init__(self, module, cls, method, line, kind):
        self.module, self.cls, self.method, self.line, self.kind = module, cls, method, line, kind
        self.parts = {p: None for p in PARTS}      # None | dict(kind='kernel'|'closure', name, expr|reason)
        self.nargs = {p: 0 for p in PARTS}          # number of values handed to each part (None: not a literal list)
        self.coeffs = None                           # for from_distr_coeffs: number of coefficients
        self.coeff_exprs = None                      # ... and their expressions when they are module constants

    @property
    def ident(self):
        mod = self.module.split(".")
        mod = mod[mod.index("yadism") + 1:]
        if mod and mod[0] == "coefficient_functions":
            mod = mod[1:]
        return "_".join(mod + [self.cls or "module", self.method or "top", "L%d" % self.line])


def rsl_kind(call):
    f = ast.unparse(call.func)
    if f in ("RSL", "pc.RSL", "partonic_channel.RSL"):
        return "rsl"
    for k in ("from_delta", "from_distr_coeffs"):
        if f in ("RSL." + k, "pc.RSL." + k, "partonic_channel.RSL." + k, "cls." + k):
            return k
    return None


def args_len(node):
    """length of a literal list/tuple, None if not literal"""
    if node is None or (isinstance(node, ast.Constant) and node.value is None):
        return 0
    if isinstance(node, (ast.List, ast.Tuple)):
        return len(node.elts)
    return None


def extract(repo):
    tr = pyk2coq.Translator(repo)
    sites = []
    base = os.path.join(repo, "src", "yadism")
    for root, _d, files in sorted(os.walk(base)):
        for fn in sorted(files):
            if not fn.endswith(".py"):
                continue
            rel = os.path.relpath(os.path.join(root, fn), os.path.join(repo, "src"))[:-3].replace(os.sep, ".")
            if rel.endswith(".__init__"):
                rel = rel[: -len(".__init__")]
            m = tr.mod(rel)
            if m is None:
                continue
            for cls, meth, fnode in walk_functions(m.tree):
                if rel.endswith("coefficient_functions.partonic_channel") and cls == "RSL":
                    continue      # the constructors themselves
                nested = {n.name: n for n in ast.walk(fnode) if isinstance(n, ast.FunctionDef) and n is not fnode}
                for call in [n for n in ast.walk(fnode) if isinstance(n, ast.Call)]:
                    kind = rsl_kind(call)
                    if kind is None:
                        continue
                    s = Site(rel, cls, meth, call.lineno, kind)
                    fill(tr, m, s, call, nested)
                    sites.append(s)
    return tr, sites


def walk_functions(tree):
    for node in tree.body:
        if isinstance(node, ast.ClassDef):
            for b in node.body:
                if isinstance(b, ast.FunctionDef):
                    yield node.name, b.name, b
        elif isinstance(node, ast.FunctionDef):
            yield None, node.name, node


def classify(tr, m, node, nested):
    if node is None or (isinstance(node, ast.Constant) and node.value is None):
        return None
    name = ast.unparse(node)
    try:
        if isinstance(node, ast.Name) and node.id in nested:
            fn = nested[node.id]
            if len(fn.args.args) != 2:
                raise Opaque("nested closure without the (z, args) signature")
            fctx = (fn.args.args[0].arg, fn.args.args[1].arg, V(("z",)), None)
            v = tr.body(m, fn, {}, fctx, {})
            if v.im is not None:
                raise Opaque("complex result")
            return dict(kind="kernel", name=name, expr=v.re, njit=False)
        tgt = tr.resolve_attr(m, node) if isinstance(node, ast.Attribute) else tr.resolve(m, node.id) if isinstance(node, ast.Name) else None
        if tgt is None or tgt[0] != "func":
            raise Opaque("not a resolvable function (%s)" % (tgt[0] if tgt else type(node).__name__))
        cm = tr.mod(tgt[1])
        v = tr.function(cm, tgt[2])
        if v.im is not None:
            raise Opaque("complex result")
        return dict(kind="kernel", name=tgt[1] + "." + tgt[2], expr=v.re, njit=tgt[2] in cm.njit)
    except Opaque as e:
        return dict(kind="closure", name=name, reason=str(e))
    except RecursionError:
        return dict(kind="closure", name=name, reason="recursion")


def fill(tr, m, s, call, nested):
    kw = {k.arg: k.value for k in call.keywords}
    pos = list(call.args)
    if s.kind == "rsl":
        nodes = dict(zip(("reg", "sing", "loc", "args"), pos))
        nodes.update(kw)
        for p in PARTS:
            s.parts[p] = classify(tr, m, nodes.get(p), nested)
        a = nodes.get("args")
        if isinstance(a, ast.Call) and ast.unparse(a.func) == "dict":
            d = {k.arg: k.value for k in a.keywords}
            for p in PARTS:
                s.nargs[p] = args_len(d.get(p))
        elif isinstance(a, ast.Dict):
            d = {k.value: v for k, v in zip(a.keys, a.values) if isinstance(k, ast.Constant)}
            for p in PARTS:
                s.nargs[p] = args_len(d.get(p))
        else:
            n = args_len(a)
            for p in PARTS:
                s.nargs[p] = n
    elif s.kind == "from_delta":
        s.parts["loc"] = dict(kind="builtin", name="loc_from_delta")
        s.nargs["loc"] = 1
    elif s.kind == "from_distr_coeffs":
        nodes = dict(zip(("reg", "coeffs", "reg_args"), pos))
        nodes.update(kw)
        s.parts["reg"] = classify(tr, m, nodes.get("reg"), nested)
        s.parts["sing"] = dict(kind="builtin", name="sing_from_distr_coeffs")
        s.parts["loc"] = dict(kind="builtin", name="loc_from_distr_coeffs")
        s.coeffs = args_len(nodes.get("coeffs"))
        s.coeff_exprs = None
        cn = nodes.get("coeffs")
        if isinstance(cn, (ast.List, ast.Tuple)):
            s.coeff_exprs = []
            for e in cn.elts:
                try:
                    v = tr.expr(m, e, {}, None)
                    s.coeff_exprs.append(v.re if v.im is None else None)
                except Opaque:
                    s.coeff_exprs.append(None)
        s.nargs["reg"] = args_len(nodes.get("reg_args"))
        s.nargs["sing"] = None if s.coeffs is None else max(s.coeffs - 1, 0)
        s.nargs["loc"] = s.coeffs


if __name__ == "__main__":
    repo = sys.argv[1] if len(sys.argv) > 1 else "/repo"
    tr, sites = extract(repo)
    print(len(sites), "sites")
    from collections import Counter
    print(Counter(s.kind for s in sites))
    for s in sites:
        desc = []
        for p in PARTS:
            x = s.parts[p]
            if x is None:
                desc.append("-")
            elif x["kind"] == "kernel":
                desc.append("%s[ar%d/%s]" % (x["name"].split(".")[-1], pyk2coq.arity(x["expr"]), s.nargs[p]))
            elif x["kind"] == "builtin":
                desc.append("%s[/%s]" % (x["name"], s.nargs[p]))
            else:
                desc.append("CLOSURE(%s: %s)" % (x["name"], x["reason"][:40]))
        if "-v" in sys.argv or any("CLOSURE" in d for d in desc) or any(
                s.parts[p] and s.parts[p]["kind"] == "kernel" and (s.nargs[p] is None or pyk2coq.arity(s.parts[p]["expr"]) > s.nargs[p]) for p in PARTS):
            print(s.ident, " | ".join(desc))


# ----------------------------------------------------------------------------- Coq emission
def part_coq(x, n):
    if x is None:
        return "PNone"
    nn = "None" if n is None else "(Some %d%%nat)" % n
    if x["kind"] == "kernel":
        return "(PKernel %s %s)" % (pyk2coq.coq(x["expr"]), nn)
    if x["kind"] == "builtin":
        return "(PBuiltin \"%s\" %s)" % (x["name"], nn)
    return "(PClosure \"%s\" %s)" % (x["name"].replace('"', "'"), nn)


def sites_v(repo):
    tr, ss = extract(repo)
    L = ["(* generated by tools/sites.py from %s/src/yadism — do not edit *)" % repo,
         "From Coq Require Import ZArith List String.", "From Yad Require Import Expr Sites.", "Import ListNotations.", "Open Scope string_scope.", "",
         "Definition site_table : list site := ["]
    rows = []
    for s in ss:
        rows.append('  {| s_id := "%s"; s_kind := %s; s_reg := %s; s_sing := %s; s_loc := %s |}'
                    % (s.ident, {"rsl": "KRsl", "from_delta": "KDelta", "from_distr_coeffs": "KDistr"}[s.kind],
                       part_coq(s.parts["reg"], s.nargs["reg"]), part_coq(s.parts["sing"], s.nargs["sing"]), part_coq(s.parts["loc"], s.nargs["loc"])))
    L.append(";\n".join(rows))
    L.append("].")
    return "\n".join(L) + "\n", ss
