#!/bin/bash
# confirm.sh <seed-id> <agent-worktree> : independently confirm a sub-agent's mutation in a fresh worktree of /repo HEAD
# and store it under /verif/seeded/<seed-id>/
set -u
ID=$1; SRC=$2
W=/tmp/wt/confirm-$ID
rm -rf $W; git -C /repo worktree prune; git -C /repo worktree add -q --detach $W HEAD || exit 2
export PYTHONPATH=$W/src NUMBA_DISABLE_JIT=1 NUMBA_CACHE_DIR=/tmp/wt/numba-$ID
cp $SRC/demo.py $W/demo.py
sed -i "s#$SRC#$W#g" $W/demo.py
cd $W
timeout 1200 /venv/bin/python $W/demo.py > $W/demo_clean.log 2>&1; RC0=$?
if ! git apply --check $SRC/mutation.diff 2>/dev/null; then echo "patch does not apply to HEAD"; RCAPP=1; else RCAPP=0; git apply $SRC/mutation.diff; fi
timeout 1200 /venv/bin/python $W/demo.py > $W/demo_mut.log 2>&1; RC1=$?
timeout 1200 /venv/bin/python -m pytest -q -p no:cacheprovider --timeout=900 --continue-on-collection-errors -rA 2>&1 | grep -E "^(PASSED|FAILED|ERROR)" | sort > $W/tests_mut.txt
NP=$(grep -c ^PASSED $W/tests_mut.txt)
echo "id=$ID apply_rc=$RCAPP demo_clean_rc=$RC0 demo_mut_rc=$RC1 tests_passed=$NP failed: $(grep ^FAILED $W/tests_mut.txt | tr '\n' ' ')"
mkdir -p /verif/seeded/$ID
cp $SRC/mutation.diff /verif/seeded/$ID/patch.diff
cp $SRC/demo.py /verif/seeded/$ID/demo.py
tail -5 $W/demo_clean.log > /verif/seeded/$ID/demo_clean_tail.txt
tail -8 $W/demo_mut.log > /verif/seeded/$ID/demo_mut_tail.txt
cd /; git -C /repo worktree remove --force $W; rm -rf /tmp/wt/numba-$ID
