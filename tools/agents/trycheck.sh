#!/bin/bash
# trycheck.sh <seed-id> <prop>... : apply seeded/<id>/patch.diff to /repo, run the quick checks, undo.
ID=$1; shift
cd /repo || exit 2
git diff --quiet || { echo "/repo not clean"; exit 2; }
git apply /verif/seeded/$ID/patch.diff || { echo "patch failed"; exit 2; }
cd /verif
for P in "$@"; do
  cp evidence/$P.json /tmp/wt/evidence_backup_$P.json 2>/dev/null
  timeout 3000 ./check $P --tier quick > /tmp/wt/try_${ID}_$P.log 2>&1; RC=$?
  echo "seed=$ID check=$P rc=$RC $(grep -c '^VIOLATION' /tmp/wt/try_${ID}_$P.log) violation lines; $(grep '^VIOLATION' /tmp/wt/try_${ID}_$P.log | head -2 | tr '\n' ' ')"
  tail -1 /tmp/wt/try_${ID}_$P.log
  cp /tmp/wt/evidence_backup_$P.json evidence/$P.json 2>/dev/null
done
git -C /repo checkout -- .
rm -rf /repo/.hypothesis/examples /repo/.hypothesis/constants
