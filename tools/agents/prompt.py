"""print the prompt given to a mutation sub-agent for one property (only the property text + its worktree)"""
import json, sys
props = {json.loads(l)["id"]: json.loads(l) for l in open("/verif/properties.jsonl")}
pid = sys.argv[1]; wt = sys.argv[2]
VARIANT = sys.argv[3] if len(sys.argv) > 3 else ""
HINT = " For this round prefer a slip in a formula, a branch condition, a boundary/threshold comparison, an index or an argument that is passed on - rather than adding a new cache or memo." if VARIANT == "b" else ""
d = props[pid]
print(f"""You are testing how well a verification effort can detect regressions in the Python library NNPDF/yadism (deep-inelastic-scattering structure functions as PDF-independent operators). You have your OWN scratch git worktree of the repository at {wt} (source under {wt}/src/yadism, tests under {wt}/tests). Work ONLY inside {wt} (and scratch files under {wt} or /tmp/agent-{pid}); never touch /repo or /verif, and do not read anything under /verif.

How to run things: the interpreter is /venv/bin/python (yadism's dependencies are installed there; the package itself is an editable install of another checkout, so ALWAYS run with `PYTHONPATH={wt}/src` and preferably `NUMBA_DISABLE_JIT=1 NUMBA_CACHE_DIR=/tmp/agent-{pid}/numba` so that your worktree's code is the one imported - check with `python -c "import yadism; print(yadism.__file__)"`). There is no network. The repository's pinned test suite is run with:
  cd {wt} && PYTHONPATH={wt}/src /venv/bin/python -m pytest -ra -q -p no:cacheprovider --timeout=900 --continue-on-collection-errors
On the unmodified tree about 84-86 tests pass (one hypothesis-based test in tests/yadism/test_runner.py is flaky; delete .hypothesis/examples after a run) and a handful of modules fail at collection (tests/yadbox/test_export, tests/yadism/cf/test_asy, test_cc_light, test_nc_light, test_pc_general) - that is the baseline; the same set must pass/fail after your change. A minimal way to run yadism: `import yadism; out = yadism.run_yadism(theory_dict, observables_dict)`; look at tests/ and src/yadism/input for card keys (theory: PTO, FNS, NfFF, mc, mb, mt, kcThr.., MP, TMC, RenScaleVar, FactScaleVar, CKM, MW, MZ, SIN2TW, FONLLParts, IC, XIR, XIF ...; observables: interpolation_xgrid, interpolation_polynomial_degree, interpolation_is_log, prDIS, TargetDIS, ProjectileDIS, PolarizationDIS, PropagatorCorrection, NCPositivityCharge, observables={{"F2_total": [{{"x":..,"Q2":..}}]}}). Note: in this sandbox FFN0 / FONLL-FFN0 runs of NC F2/FL fail at import because of an incompatible `adani` version - avoid relying on those.

The semantic property of the library under study:
  id: {pid}
  title: {d['title']}
  statement: {d['statement']}
  quantified over: {d['quantifier']['text']}
  code anchors: {json.dumps(d['anchors'].get('files', []))}; mechanisms: {json.dumps([m['name'] + ' @ ' + m['where'] for m in d['anchors'].get('mechanism', [])])}

Your task: produce ONE realistic change to the library source (a plausible refactoring slip, off-by-one, wrong sign/branch, stale cache, mishandled corner case... the kind of bug a maintainer could introduce) that BREAKS this property while the code still imports/compiles and the pinned test suite gives exactly the same pass/fail set as the baseline. The change must need something specific to manifest - a particular corner of the configuration space, an unusual but valid input, a multi-step sequence of operations, or two cooperating sites that each look fine alone - NOT something that any ordinary run would expose at once (e.g. do not simply flip a sign that changes every result). Prefer subtle, narrow breakage. Do not edit tests.{HINT}

Deliver, all inside {wt}:
  1. the source change, left UNCOMMITTED in the worktree, and also saved as {wt}/mutation.diff (`git -C {wt} diff -- src > {wt}/mutation.diff`);
  2. a demonstration {wt}/demo.py: a small standalone program (run as `PYTHONPATH={wt}/src NUMBA_DISABLE_JIT=1 /venv/bin/python {wt}/demo.py`) that checks the property on a concrete input and exits 0 when the property holds (i.e. on the unmodified tree) and exits 1, printing what differs, with your change applied. Verify both: run it with the change, then remove the change with `git -C {wt} checkout -- src` (NEVER use `git stash`: the stash is shared between worktrees of the same repository and other agents work in sibling worktrees), run it again, then re-apply with `git -C {wt} apply {wt}/mutation.diff`. At the end make sure `git -C {wt} diff -- src` equals mutation.diff.
  3. confirm by running the full test suite with the change that the pass/fail set equals the baseline (84 passed).
Finish with a short report: what the change is (file:line), what exactly is needed for it to manifest, the demo's output with/without the change, and the test-suite summary line. Keep the change small (a few lines).""")
