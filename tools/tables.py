"""tables.py — regenerate literal tables of the source tree as Coq definitions (gen/Inventory.v,
gen/Tables.v). Pure `ast`: nothing of yadism is imported, so the two asy modules that cannot be
imported in this sandbox (adani signature) are read like all others.  Fail-closed: anything the
resolver does not understand makes the class `unknown`, which no model accepts."""
import ast, os, re, sys

CF = "src/yadism/coefficient_functions"
FAMILIES = ["light", "heavy", "intrinsic", "asy"]
ORDER_METHODS = ["LO", "NLO", "NNLO", "N3LO"]


class Mod:
    def __init__(self, repo, dotted):
        self.dotted = dotted
        rel = dotted.replace(".", "/")
        base = os.path.join(repo, "src", rel)
        self.path = base + ".py" if os.path.exists(base + ".py") else os.path.join(base, "__init__.py")
        self.is_pkg = not os.path.exists(base + ".py")
        self.ok = os.path.exists(self.path)
        self.imports = {}     # local name -> ("mod", dotted) | ("sym", dotted_mod, name)
        self.classes = {}     # name -> (bases[list of dotted expr str], {method: returns_none_only})
        self.aliases = {}     # name -> expr str
        if self.ok:
            self.tree = ast.parse(open(self.path).read())
            self._scan()

    def _pkg(self):
        return self.dotted if self.is_pkg else self.dotted.rsplit(".", 1)[0]

    def _scan(self):
        for node in self.tree.body:
            if isinstance(node, ast.ImportFrom):
                if node.level:
                    base = self._pkg().split(".")
                    base = base[: len(base) - (node.level - 1)]
                    src = ".".join(base + ([node.module] if node.module else []))
                else:
                    src = node.module
                for a in node.names:
                    self.imports[a.asname or a.name] = ("from", src, a.name)
            elif isinstance(node, ast.Import):
                for a in node.names:
                    self.imports[a.asname or a.name.split(".")[0]] = ("mod", a.name if a.asname else a.name.split(".")[0])
            elif isinstance(node, ast.ClassDef):
                meths = {}
                for b in node.body:
                    if isinstance(b, ast.FunctionDef) and b.name in ORDER_METHODS:
                        body = [s for s in b.body if not (isinstance(s, ast.Expr) and isinstance(s.value, ast.Constant))]
                        none_only = (len(body) == 1 and isinstance(body[0], ast.Return)
                                     and (body[0].value is None or (isinstance(body[0].value, ast.Constant) and body[0].value.value is None)))
                        meths[b.name] = none_only
                self.classes[node.name] = ([dotted_expr(b) for b in node.bases], meths)
            elif isinstance(node, ast.Assign) and len(node.targets) == 1 and isinstance(node.targets[0], ast.Name):
                d = dotted_expr(node.value)
                if d:
                    self.aliases[node.targets[0].id] = d


def dotted_expr(e):
    if isinstance(e, ast.Name):
        return e.id
    if isinstance(e, ast.Attribute):
        b = dotted_expr(e.value)
        return b + "." + e.attr if b else None
    return None


class Resolver:
    def __init__(self, repo):
        self.repo = repo
        self.mods = {}

    def mod(self, dotted):
        if dotted not in self.mods:
            self.mods[dotted] = Mod(self.repo, dotted)
        return self.mods[dotted]

    def lookup(self, modname, expr, depth=0):
        """resolve a dotted expression inside module modname to ("class", mod, name) | ("mod", dotted) | None"""
        if depth > 20 or expr is None:
            return None
        m = self.mod(modname)
        if not m.ok:
            return None
        head, _, rest = expr.partition(".")
        if head in m.classes and not rest:
            return ("class", modname, head)
        if head in m.aliases and not rest:
            return self.lookup(modname, m.aliases[head], depth + 1)
        if head in m.imports:
            imp = m.imports[head]
            if imp[0] == "mod":
                target = ("mod", imp[1])
            else:
                _, src, name = imp
                if not src.startswith("yadism"):
                    return None
                sub = self.mod(src + "." + name)
                if sub.ok:
                    target = ("mod", src + "." + name)
                else:
                    target = self.lookup(src, name, depth + 1)
            if target is None:
                return None
            if not rest:
                return target
            if target[0] == "mod":
                # attribute of a module: a submodule or a symbol
                h2, _, r2 = rest.partition(".")
                sub = self.mod(target[1] + "." + h2)
                if sub.ok and self.mod(target[1]).is_pkg and h2 not in self.mod(target[1]).classes:
                    return self.lookup_in_mod(target[1] + "." + h2, r2, depth + 1) if r2 else ("mod", target[1] + "." + h2)
                return self.lookup(target[1], rest, depth + 1)
            return None
        return None

    def lookup_in_mod(self, modname, expr, depth):
        return self.lookup(modname, expr, depth)

    def mro(self, modname, cls, depth=0):
        """linearised bases (DFS, left to right, good enough for the single-inheritance chains here)"""
        if depth > 20:
            return None
        m = self.mod(modname)
        if cls not in m.classes:
            return None
        out = [(modname, cls)]
        for b in m.classes[cls][0]:
            if b == "dict":
                continue
            r = self.lookup(modname, b)
            if r is None or r[0] != "class":
                return None
            sub = self.mro(r[1], r[2], depth + 1)
            if sub is None:
                return None
            out += sub
        return out

    def class_info(self, modname, name):
        """(empty?, orders) of module attribute `name`, or None when not a resolvable class"""
        r = self.lookup(modname, name)
        if r is None or r[0] != "class":
            return None
        chain = self.mro(r[1], r[2])
        if chain is None:
            return None
        base = "yadism.coefficient_functions.partonic_channel"
        if (base, "PartonicChannel") not in chain:
            return None
        empty = (base, "EmptyPartonicChannel") in chain
        orders = []
        for i, om in enumerate(ORDER_METHODS):
            for (mn, cn) in chain:
                meths = self.mod(mn).classes[cn][1]
                if om in meths:
                    if (mn, cn) != (base, "PartonicChannel") and not meths[om]:
                        orders.append(i)
                    break
        return empty, orders

    def module_names(self, modname):
        m = self.mod(modname)
        return sorted(set(m.classes) | set(m.aliases) | set(m.imports))


def inventory(repo):
    R = Resolver(repo)
    inv = []
    for fam in FAMILIES:
        d = os.path.join(repo, CF, fam)
        for fn in sorted(os.listdir(d)):
            if not re.match(r"^(f2|fl|f3|g1|gl|g4)_(nc|cc)\.py$", fn):
                continue
            modname = "yadism.coefficient_functions.%s.%s" % (fam, fn[:-3])
            classes = []
            for name in R.module_names(modname):
                ci = R.class_info(modname, name)
                if ci is not None:
                    classes.append((name, ci[0], ci[1]))
            inv.append((fam, fn[:-3], classes))
    return inv


def inventory_v(repo):
    inv = inventory(repo)
    L = ["(* generated by tools/tables.py from %s — do not edit *)" % CF,
         "From Coq Require Import List String.", "From Yad Require Import Weights.",
         "Import ListNotations.", "Open Scope string_scope.", "",
         "Definition inventory : inventory := ["]
    rows = []
    for fam, mod, classes in inv:
        cs = "; ".join('{| c_name := "%s"; c_empty := %s; c_orders := [%s]%%nat |}' %
                       (n, "true" if e else "false", "; ".join(str(o) for o in os_)) for n, e, os_ in classes)
        rows.append('  ("%s", "%s", [%s])' % (fam, mod, cs))
    L.append(";\n".join(rows))
    L.append("].")
    return "\n".join(L) + "\n"


if __name__ == "__main__":
    repo = sys.argv[1] if len(sys.argv) > 1 else "/repo"
    sys.stdout.write(inventory_v(repo))


# ---------------------------------------------------------------------------------------
# literal tables: named targets (input/compatibility.py::update_target)
def _const_eval(node, env):
    """evaluate a literal arithmetic expression exactly (Fractions); None when not literal"""
    from fractions import Fraction as Fr
    if isinstance(node, ast.Constant) and isinstance(node.value, (int, float)) and not isinstance(node.value, bool):
        return Fr(repr(node.value)) if isinstance(node.value, float) else Fr(node.value)
    if isinstance(node, ast.Name) and node.id in env:
        return env[node.id]
    if isinstance(node, ast.UnaryOp) and isinstance(node.op, ast.USub):
        v = _const_eval(node.operand, env)
        return None if v is None else -v
    if isinstance(node, ast.BinOp):
        a, b = _const_eval(node.left, env), _const_eval(node.right, env)
        if a is None or b is None:
            return None
        if isinstance(node.op, ast.Add):
            return a + b
        if isinstance(node.op, ast.Sub):
            return a - b
        if isinstance(node.op, ast.Mult):
            return a * b
        if isinstance(node.op, ast.Div) and b != 0:
            return a / b
    return None


def targets(repo):
    """[(name, Z, A)] read off the if/elif chain of update_target; fail-closed: an unreadable branch
    yields (name, None, None)"""
    src = open(os.path.join(repo, "src/yadism/input/compatibility.py")).read()
    tree = ast.parse(src)
    fn = [n for n in tree.body if isinstance(n, ast.FunctionDef) and n.name == "update_target"][0]
    out = []
    rejects_unknown = False
    chain = [s for s in fn.body if isinstance(s, ast.If)]
    node = None
    for s in chain:
        t = s.test
        if isinstance(t, ast.Compare) and isinstance(t.left, ast.Name) and t.left.id == "target" and isinstance(t.ops[0], ast.Eq):
            node = s
    while node is not None:
        t = node.test
        name = None
        if (isinstance(t, ast.Compare) and isinstance(t.left, ast.Name) and t.left.id == "target"
                and len(t.ops) == 1 and isinstance(t.ops[0], ast.Eq) and isinstance(t.comparators[0], ast.Constant)):
            name = t.comparators[0].value
        env, za = {}, (None, None)
        for st in node.body:
            if isinstance(st, ast.Assign) and len(st.targets) == 1:
                tg = st.targets[0]
                if isinstance(tg, ast.Name):
                    v = _const_eval(st.value, env)
                    if v is not None:
                        env[tg.id] = v
                elif (isinstance(tg, ast.Subscript) and isinstance(tg.slice, ast.Constant) and tg.slice.value == "TargetDIS"
                      and isinstance(st.value, ast.Dict)):
                    d = {k.value: _const_eval(v, env) for k, v in zip(st.value.keys, st.value.values) if isinstance(k, ast.Constant)}
                    za = (d.get("Z"), d.get("A"))
        out.append((name, za[0], za[1]))
        nxt = node.orelse
        if len(nxt) == 1 and isinstance(nxt[0], ast.If):
            node = nxt[0]
        else:
            rejects_unknown = any(isinstance(s, ast.Raise) for s in nxt)
            node = None
    return out, rejects_unknown


def tables_v(repo):
    tg, rej = targets(repo)

    def q(v):
        return "None" if v is None else "(Some (%d # %d))" % (v.numerator, v.denominator)
    L = ["(* generated by tools/tables.py from src/yadism/input/compatibility.py — do not edit *)",
         "From Coq Require Import List String QArith.", "Import ListNotations.", "Open Scope string_scope.", "",
         "(* (name, Z, A) of every named target; None = the translator could not read the branch *)",
         "Definition target_table : list (string * option Q * option Q) := ["]
    L.append(";\n".join('  ("%s", %s, %s)' % (n if n is not None else "?", q(z), q(a)) for n, z, a in tg))
    L.append("].")
    L.append("Definition unknown_target_rejected : bool := %s." % ("true" if rej else "false"))
    return "\n".join(L) + "\n"
