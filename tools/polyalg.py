"""polyalg — tiny exact polynomial algebra used to PROPOSE certificates for the kernel obligations (the certificates
are checked by Coq's `field`, so nothing here is trusted).  Polynomials over Fractions in the symbols
  z, L1 = ln(1-z), L0 = ln z, D = 1/(1-z), a0, a1, ... (args[i]), pi, zeta3
Anything else (other logs, Li2, divisions by non-constant, non-(1-z) terms) makes the conversion fail."""
from fractions import Fraction as Fr


class NotPoly(Exception):
    pass


class P:
    """dict: monomial (sorted tuple of (symbol, power)) -> Fraction"""
    def __init__(self, d=None):
        self.d = {k: v for k, v in (d or {}).items() if v != 0}

    @staticmethod
    def const(c):
        return P({(): Fr(c)})

    @staticmethod
    def sym(s):
        return P({((s, 1),): Fr(1)})

    def __add__(self, o):
        d = dict(self.d)
        for k, v in o.d.items():
            d[k] = d.get(k, 0) + v
        return P(d)

    def __neg__(self):
        return P({k: -v for k, v in self.d.items()})

    def __sub__(self, o):
        return self + (-o)

    def __mul__(self, o):
        d = {}
        for k1, v1 in self.d.items():
            for k2, v2 in o.d.items():
                m = dict(k1)
                for s, p in k2:
                    m[s] = m.get(s, 0) + p
                k = tuple(sorted(m.items()))
                d[k] = d.get(k, 0) + v1 * v2
        return P(d)

    def pow(self, n):
        out = P.const(1)
        for _ in range(n):
            out = out * self
        return out

    def is_const(self):
        return all(k == () for k in self.d)

    def cval(self):
        return self.d.get((), Fr(0))

    def symbols(self):
        return {s for k in self.d for s, _ in k}

    def coeff_in(self, sym):
        """-> dict power -> P (polynomial in the other symbols)"""
        out = {}
        for k, v in self.d.items():
            p = dict(k).get(sym, 0)
            rest = tuple((s, q) for s, q in k if s != sym)
            out.setdefault(p, {})
            out[p][rest] = out[p].get(rest, 0) + v
        return {p: P(d) for p, d in out.items()}

    def subs_num(self, env):
        tot = Fr(0)
        for k, v in self.d.items():
            t = v
            for s, p in k:
                t *= Fr(env[s]) ** p
            tot += t
        return tot

    def diff(self, sym):
        d = {}
        for k, v in self.d.items():
            m = dict(k)
            p = m.get(sym, 0)
            if p == 0:
                continue
            m[sym] = p - 1
            if m[sym] == 0:
                del m[sym]
            kk = tuple(sorted(m.items()))
            d[kk] = d.get(kk, 0) + v * p
        return P(d)


ONE_MINUS_Z = P.const(1) - P.sym("z")


def to_poly(e):
    """expression tree (pyk2coq) -> P, with D*(1-z) = 1 NOT normalised (use reduce_D afterwards)"""
    t = e[0]
    if t == "c":
        return P.const(e[1])
    if t == "z":
        return P.sym("z")
    if t == "arg":
        return P.sym("a%d" % e[1])
    if t == "pi":
        return P.sym("pi")
    if t == "zeta3":
        return P.sym("zeta3")
    if t == "add":
        return to_poly(e[1]) + to_poly(e[2])
    if t == "sub":
        return to_poly(e[1]) - to_poly(e[2])
    if t == "mul":
        return to_poly(e[1]) * to_poly(e[2])
    if t == "neg":
        return -to_poly(e[1])
    if t == "pow":
        return to_poly(e[1]).pow(e[2])
    if t == "div":
        den = to_poly(e[2])
        if den.is_const() and den.cval() != 0:
            return to_poly(e[1]) * P.const(1 / den.cval())
        if (den - ONE_MINUS_Z).d == {}:
            return to_poly(e[1]) * P.sym("D")
        if (den + ONE_MINUS_Z).d == {}:
            return -(to_poly(e[1]) * P.sym("D"))
        raise NotPoly("division by a non-constant other than (1-z)")
    if t == "ln":
        arg = to_poly(e[1])
        if (arg - ONE_MINUS_Z).d == {}:
            return P.sym("L1")
        if (arg - P.sym("z")).d == {}:
            return P.sym("L0")
        raise NotPoly("logarithm of something else than z or 1-z")
    raise NotPoly("atom " + t)
