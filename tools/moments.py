"""moments.py — generate the first-moment obligations of C04 (Adler, Gross-Llewellyn-Smith, Bjorken) for the parametrised
NNLO / N3LO non-singlet coefficient functions, from the regenerated kernels of the RSL sites of the light classes.

M1 = int_0^1 reg + loc(0)  (the plus-distribution integrates to zero).  reg is a polynomial in z, ln z, ln(1-z), nf;
it is split (certificate, checked by `field`) into groups g(z) * ln^b z on (0,1/2] and, after z -> 1-u, h(u) * ln^c u on
(0,1/2]; each group is an improper integral CoqInterval encloses; the enclosures are combined by lra."""
import re
from fractions import Fraction as Fr
import pyk2coq, sites, polyalg
from polyalg import P, to_poly, NotPoly
from obligations import HEADER, rlit

# site (class, method) -> (name of the sum rule, target as Coq expression in nf, tolerance, python target)
TARGETS = {
    "light_f2_cc_NonSingletOdd_NNLO": ("Adler", "0", "2 / 100", lambda nf: 0.0),
    "light_f2_cc_NonSingletOdd_N3LO": ("Adler", "0", "15 / 100", lambda nf: 0.0),
    "light_f3_nc_NonSinglet_NNLO": ("Gross-Llewellyn-Smith", "- (220 / 3 - 16 * nf / 3)", "2 / 100", lambda nf: -(220 / 3 - 16 * nf / 3)),
    "light_f3_nc_NonSinglet_N3LO": ("Gross-Llewellyn-Smith (fl2 class = Bjorken coefficient)", "- 64 * (414399 / 10000 - 76073 / 10000 * nf + 17747 / 100000 * nf ^ 2)",
                                    "15 / 100", lambda nf: -64 * (41.4399 - 7.6073 * nf + 0.17747 * nf ** 2)),
    "light_f3_nc_Valence_N3LO": ("Gross-Llewellyn-Smith (fl02 light-by-light piece)", "64 * (41318 / 100000) * nf", "6 / 100", lambda nf: 64 * 0.41318 * nf),
    "light_g1_nc_NonSinglet_NNLO": ("Bjorken", "- (220 / 3 - 16 * nf / 3)", "2 / 100", lambda nf: -(220 / 3 - 16 * nf / 3)),
}


def site_key(ident):
    return re.sub(r"_L\d+$", "", ident)


def mono_coq(k, v, var, logname):
    t = rlit(v)
    for s, p in k:
        base = {"z": var, "u": var, "Lb": logname}[s]
        t += " * %s" % base if p == 1 else " * %s ^ %d" % (base, p)
    return t


def poly_text(p, var):
    """p in symbols var ('z' or 'u') and 'Lb' (the bounded logarithm ln(1-var))"""
    if not p.d:
        return "0"
    return " + ".join(mono_coq(k, v, var, "ln (1 - %s)" % var) for k, v in sorted(p.d.items()))


def split(Preg):
    """-> lower: dict (i, b) -> P(z, Lb) ; upper: dict (i, c) -> P(u, Lb)"""
    lower, upper = {}, {}
    one_minus_u = P.const(1) - P.sym("u")
    for k, v in Preg.d.items():
        m = dict(k)
        i, a, j, kk = m.get("a0", 0), m.get("z", 0), m.get("L0", 0), m.get("L1", 0)
        if set(m) - {"a0", "z", "L0", "L1"}:
            raise NotPoly("unexpected symbol")
        lo = P({tuple(sorted({"z": a, "Lb": kk}.items())): v})
        lo = P({tuple((s, p) for s, p in mk if p): c for mk, c in lo.d.items()})
        lower[(i, j)] = lower.get((i, j), P()) + lo
        hi = P.const(v) * one_minus_u.pow(a) * P.sym("Lb").pow(j)
        upper[(i, kk)] = upper.get((i, kk), P()) + hi
    return lower, upper


def moment_obligation(idx, s, target):
    name = "MO_%03d" % idx
    reg, loc = s.parts["reg"], s.parts["loc"]
    rule, tcoq, tol, tpy = target
    Preg = to_poly(reg["expr"])
    lower, upper = split(Preg)
    L = [HEADER, "(* site %s: %s sum rule *)" % (s.ident, rule),
         "Definition reg_e : expr := %s." % pyk2coq.coq(reg["expr"]),
         "Definition loc_e : expr := %s.\n" % (pyk2coq.coq(loc["expr"]) if loc else "(Cst (0) 1)")]
    ints, lo_terms, hi_terms = [], {}, {}
    for (i, b), g in sorted(lower.items()):
        nm = "Ilo_%d_%d" % (i, b)
        L.append("Definition %s : R := RInt_gen (fun z => (%s) * (powerRZ z 0 * ln z ^ %d)) (at_right 0) (at_point (1 / 2))." % (nm, poly_text(g, "z"), b))
        ints.append(nm); lo_terms.setdefault(i, []).append((nm, b, g))
    for (i, c), h in sorted(upper.items()):
        nm = "Ihi_%d_%d" % (i, c)
        L.append("Definition %s : R := RInt_gen (fun u => (%s) * (powerRZ u 0 * ln u ^ %d)) (at_right 0) (at_point (1 / 2))." % (nm, poly_text(h, "u"), c))
        ints.append(nm); hi_terms.setdefault(i, []).append((nm, c, h))
    powers = sorted(set(lo_terms) | set(hi_terms))
    L.append("")
    L.append("(* certificate: the regular part is the sum of the groups (on both halves) *)")
    lo_sum = " + ".join("nf ^ %d * (%s)" % (i, " + ".join("(%s) * ln z ^ %d" % (poly_text(g, "z"), b) for _n, b, g in lo_terms.get(i, [])) or "0") for i in powers)
    hi_sum = " + ".join("nf ^ %d * (%s)" % (i, " + ".join("(%s) * ln u ^ %d" % (poly_text(h, "u"), c) for _n, c, h in hi_terms.get(i, [])) or "0") for i in powers)
    L.append("Theorem reg_lower : forall sp z nf, 0 < z < 1 -> eval sp reg_e z [nf] = %s." % lo_sum)
    L.append("Proof. intros sp z nf Hz. m_split reg_e. Qed.")
    L.append("Theorem reg_upper : forall sp u nf, 0 < u < 1 -> eval sp reg_e (1 - u) [nf] = %s." % hi_sum)
    L.append("Proof. intros sp u nf Hu. m_split_upper reg_e u. Qed.")
    Ploc = to_poly(loc["expr"]) if loc else P()
    loc0 = P()
    for k, v in Ploc.d.items():
        if dict(k).get("L1", 0) == 0:
            loc0 = loc0 + P({k: v})
    if (loc0.symbols() - {"a0"}):
        raise NotPoly("loc(0) not polynomial in nf")
    loc0_txt = " + ".join(rlit(v) + "".join(" * nf ^ %d" % p for s_, p in k) for k, v in sorted(loc0.d.items())) or "0"
    L.append("Theorem loc_at_0 : forall sp nf, eval sp loc_e 0 [nf] = %s." % loc0_txt)
    L.append("Proof. intros sp nf. m_loc0 loc_e. Qed.")
    split_sum = " + ".join("nf ^ %d * (%s)" % (i, " + ".join(n for n, _b, _g in lo_terms.get(i, []) + hi_terms.get(i, []))) for i in powers)
    L.append("")
    L.append("(* first moment assembled from the group integrals: int_0^(1/2) reg + int_(1/2)^1 reg + loc(0) *)")
    L.append("Definition M1 (nf : R) : R := %s + (%s)." % (split_sum, loc0_txt))
    L.append("Theorem first_moment : forall nf, nf = 3 \\/ nf = 4 \\/ nf = 5 \\/ nf = 6 -> Rabs (M1 nf - (%s)) <= %s." % (tcoq, tol))
    L.append("Proof.")
    L.append("  intros nf Hnf. unfold M1, %s." % ", ".join(ints))
    for n in ints:
        L.append("  m_enclose %s." % n)
    L.append("  m_finish Hnf.")
    L.append("Qed.")
    L.append("Print Assumptions first_moment.")
    meta = dict(name=name, kind="moment", site=s.ident, rule=rule, reg=reg["name"], loc=loc["name"] if loc else None, groups=len(ints))
    return name + ".v", "\n".join(L) + "\n", meta


def generate(repo):
    tr, ss = sites.extract(repo)
    files, metas, missing = {}, [], []
    found = set()
    for s in ss:
        k = site_key(s.ident)
        if k not in TARGETS or s.kind != "rsl":
            continue
        found.add(k)
        reg = s.parts["reg"]
        if reg is None or reg["kind"] != "kernel" or (s.parts["loc"] and s.parts["loc"]["kind"] != "kernel"):
            missing.append(dict(site=s.ident, why="regular or local part is not a translated kernel"))
            continue
        try:
            fn, txt, meta = moment_obligation(len(files), s, TARGETS[k])
        except NotPoly as e:
            missing.append(dict(site=s.ident, why="not of the polynomial-logarithmic form: %s" % e))
            continue
        files[fn] = txt; metas.append(meta)
    for k in TARGETS:
        if k not in found:
            missing.append(dict(site=k, why="site not found in the source tree"))
    return files, metas, missing
