(* C05 — scale-variation terms satisfy the renormalisation-group equations; switching a variation off
   removes exactly its logarithmic terms. *)
From Coq Require Import ZArith List Bool.
From Yad Require Import Base Result ScaleVar SVTheorems.
Import ListNotations.
Local Open Scope F_scope.

(* second sentence of the property, for any kernel list, operator matrices, projectors, nf:
   FactScaleVar off = the lnF = 0 part of the all-on result, untouched; same for RenScaleVar; both off = central *)
Theorem C05_fact_off (fld : Fld) ren intr fm projs rc base : rc_pos rc -> fm_pos fm -> base_ok base ->
  filter lnF0 (sv_kernel ren true intr fm projs rc base) = sv_kernel ren false intr fm projs rc base.
Proof. exact (@fact_off fld ren intr fm projs rc base). Qed.
Print Assumptions C05_fact_off.
Theorem C05_ren_off (fld : Fld) fact intr fm projs rc base : rc_pos rc -> base_ok base ->
  filter lnR0 (sv_kernel true fact intr fm projs rc base) = sv_kernel false fact intr fm projs rc base.
Proof. exact (@ren_off fld fact intr fm projs rc base). Qed.
Print Assumptions C05_ren_off.
Theorem C05_both_off (fld : Fld) intr fm projs rc base : sv_kernel false false intr fm projs rc base = base.
Proof. exact (@both_off fld intr fm projs rc base). Qed.
Print Assumptions C05_both_off.
(* the side conditions hold for the coefficient tables of the code *)
Theorem C05_side_conditions (fld : Fld) ops order nf : rc_pos (ren_coeffs order nf) /\ fm_pos (sector_mapping ops nf order).
Proof. split; [apply ren_coeffs_pos | apply sector_mapping_pos]. Qed.
Print Assumptions C05_side_conditions.

(* intrinsic (heavy-quark initiated) channels never get a factorisation log *)
Theorem C05_intrinsic_no_fact (fld : Fld) ren fact fm projs rc base e : base_ok base ->
  In e (sv_kernel ren fact true fm projs rc base) -> okey_f (e_key e) = 0%Z.
Proof. exact (@intrinsic_no_fact fld ren fact fm projs rc base e). Qed.
Print Assumptions C05_intrinsic_no_fact.

(* muR: what an a_s^1 term C L_F^f spawns (orders 2 and 3), what an a_s^2 term spawns, nothing else spawns
   anything, and nothing is spawned at LO / NLO accuracy: the coefficients are those fixed by the beta function
   (see the derivation above ResTheorems.diff_of_nlo_entry) with the binomial split of ln(muF2/muR2)^n *)
Theorem C05_muR_from_nlo (fld : Fld) nf q f ts :
  let e := {| e_key := (1, q, 0, f)%Z; e_terms := ts |} in
  diff_one (ren_coeffs 2 nf) e
    = [scaled (2, q, 0, 1 + f)%Z (f1) (scaled (2, q, 1, f)%Z (beta0 nf) e);
       scaled (2, q, 1, 0 + f)%Z (- f1) (scaled (2, q, 1, f)%Z (beta0 nf) e)]
  /\ diff_one (ren_coeffs 3 nf) e
    = [scaled (2, q, 0, 1 + f)%Z f1 (scaled (2, q, 1, f)%Z (beta0 nf) e);
       scaled (2, q, 1, 0 + f)%Z (- f1) (scaled (2, q, 1, f)%Z (beta0 nf) e);
       scaled (3, q, 0, 1 + f)%Z f1 (scaled (3, q, 1, f)%Z (beta1 nf) e);
       scaled (3, q, 1, 0 + f)%Z (- f1) (scaled (3, q, 1, f)%Z (beta1 nf) e);
       scaled (3, q, 0, 2 + f)%Z f1 (scaled (3, q, 2, f)%Z (beta0 nf * beta0 nf) e);
       scaled (3, q, 1, 1 + f)%Z (- two) (scaled (3, q, 2, f)%Z (beta0 nf * beta0 nf) e);
       scaled (3, q, 2, 0 + f)%Z f1 (scaled (3, q, 2, f)%Z (beta0 nf * beta0 nf) e)].
Proof. exact (@diff_of_nlo_entry fld nf q f ts). Qed.
Print Assumptions C05_muR_from_nlo.
Theorem C05_muR_from_nnlo (fld : Fld) nf q f ts :
  let e := {| e_key := (2, q, 0, f)%Z; e_terms := ts |} in
  diff_one (ren_coeffs 2 nf) e = []
  /\ diff_one (ren_coeffs 3 nf) e
    = [scaled (3, q, 0, 1 + f)%Z f1 (scaled (3, q, 1, f)%Z (two * beta0 nf) e);
       scaled (3, q, 1, 0 + f)%Z (- f1) (scaled (3, q, 1, f)%Z (two * beta0 nf) e)].
Proof. exact (@diff_of_nnlo_entry fld nf q f ts). Qed.
Print Assumptions C05_muR_from_nnlo.
Theorem C05_muR_nothing_else (fld : Fld) order nf o q r f ts : (o <> 1)%Z -> (o <> 2)%Z ->
  diff_one (ren_coeffs order nf) {| e_key := (o, q, r, f); e_terms := ts |} = [].
Proof. exact (@diff_of_other_entry fld order nf o q r f ts). Qed.
Print Assumptions C05_muR_nothing_else.
Theorem C05_scaled_meaning (fld : Fld) k c e i j : entry_at (scaled k c e) i j = c * entry_at e i j.
Proof. exact (@entry_at_scaled fld k c e i j). Qed.
Print Assumptions C05_scaled_meaning.

(* muF: the operator acting per sector is the DGLAP kernel combination that solves the RGE (H3: the labels
   P_qq_0^2, ... denote the products of the LO operators — not proved here, see DESIGN 4 C05) *)
Theorem C05_muF_sector_table (fld : Fld) ops nf :
  let z := mzero_like (ops Pqq0) in
  sector_mapping ops nf 1 = [((1, 1, 0)%Z, [ops Pqq0; ops Pqg0; z; z; ops Pqq0; ops Pqq0; ops Pqq0])]
  /\ sector_mapping ops nf 2 =
     [((1, 1, 0)%Z, [ops Pqq0; ops Pqg0; z; z; ops Pqq0; ops Pqq0; ops Pqq0]);
      ((2, 1, 0)%Z, [ops Pqq1; ops Pqg1; z; z; ops Pnsm1; ops Pnsp1; ops Pnsm1]);
      ((2, 1, 1)%Z, [msub (ops Pqq0) (mscal (beta0 nf) (meye_like (ops Pqq0))); msub (ops Pqg0) (mzero_like (ops Pqg0));
                     msub (ops Pgq0) (mzero_like (ops Pgq0)); msub (ops Pgg0) (mscal (beta0 nf) (meye_like (ops Pgg0)));
                     msub (ops Pqq0) (mscal (beta0 nf) (meye_like (ops Pqq0)));
                     msub (ops Pqq0) (mscal (beta0 nf) (meye_like (ops Pqq0)));
                     msub (ops Pqq0) (mscal (beta0 nf) (meye_like (ops Pqq0)))]);
      ((2, 2, 0)%Z, [c220 ops nf [Pqq0sq; Pqg0Pgq0] Pqq0; c220 ops nf [Pqq0Pqg0; Pqg0Pgg0] Pqg0; z; z;
                     c220 ops nf [Pqq0sq] Pqq0; c220 ops nf [Pqq0sq] Pqq0; c220 ops nf [Pqq0sq] Pqq0])]
  /\ sector_mapping ops nf 3 = sector_mapping ops nf 2 /\ sector_mapping ops nf 0 = [].
Proof. exact (@sector_mapping_table fld ops nf). Qed.
Print Assumptions C05_muF_sector_table.

(* the set of keys a run of perturbative order pto may hold *)
Example C05_build_orders_2 : build_orders 2 =
  [(0,0,0,0); (1,0,0,0); (1,0,0,1); (2,0,0,0); (2,0,1,0); (2,0,0,1); (2,0,1,1); (2,0,0,2); (2,0,1,2)]%Z.
Proof. reflexivity. Qed.
