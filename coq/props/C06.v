(* C06 — the number of active flavours follows the thresholds and the scheme. *)
From Coq Require Import ZArith List Bool QArith String.
From Yad Require Import Thresholds ThreshTheorems.
Import ListNotations.

(* nf = 3 + number of heavy quarks whose matching scale squared is <= Q2 (walls: rationals or +inf) *)
Theorem C06_nf_is_count q wc wb wt : 0 <= q ->
  nf_default q wc wb wt = (3 + Z.of_nat (active_heavy q wc wb wt))%Z.
Proof. exact (nf_default_count q wc wb wt). Qed.
Print Assumptions C06_nf_is_count.

(* boundary convention: active exactly at the threshold, inactive strictly below (any rational, so any float) *)
Theorem C06_at_threshold x : wall_leb (Fin x) x = true.
Proof. exact (at_wall_active x). Qed.
Print Assumptions C06_at_threshold.
Theorem C06_below_threshold x q : q < x -> wall_leb (Fin x) q = false.
Proof. exact (below_wall_inactive x q). Qed.
Print Assumptions C06_below_threshold.

Theorem C06_nf_monotone q q' wc wb wt : 0 <= q -> q <= q' -> (nf_default q wc wb wt <= nf_default q' wc wb wt)%Z.
Proof. exact (nf_default_monotone q q' wc wb wt). Qed.
Print Assumptions C06_nf_monotone.

(* fixed-flavour schemes (FFNS, FFN0, FONLL variants): NfFF at every Q2 >= 0, whatever masses and ratios are given *)
Theorem C06_fixed_flavour f nf q mc mb mt : f <> ZMVFNS -> (3 <= nf <= 6)%Z -> 0 <= q ->
  let '(wc, wb, wt) := walls_of f nf mc mb mt in nf_default q wc wb wt = nf.
Proof. exact (ffns_nf f nf q mc mb mt). Qed.
Print Assumptions C06_fixed_flavour.

(* which quarks are massive: FFNS/FFN0 all above NfFF, FONLL exactly quark NfFF+1, ZM-VFNS none *)
Theorem C06_ffns_massive f nf : (f = FFNS \/ f = FFN0) -> (3 <= nf <= 6)%Z ->
  map (fun x => negb (snd x)) (update_fns f nf) = [(nf <? 4)%Z; (nf <? 5)%Z; (nf <? 6)%Z].
Proof. exact (ffns_massive f nf). Qed.
Print Assumptions C06_ffns_massive.
Theorem C06_fonll_massive f nf : (f = FONLL_FFNS \/ f = FONLL_FFN0) -> (3 <= nf <= 6)%Z ->
  map (fun x => negb (snd x)) (update_fns f nf) = [(nf =? 3)%Z; (nf =? 4)%Z; (nf =? 5)%Z].
Proof. exact (fonll_single_massive f nf). Qed.
Print Assumptions C06_fonll_massive.
Theorem C06_zm nf : map snd (update_fns ZMVFNS nf) = [true; true; true] /\ map fst (update_fns ZMVFNS nf) = [KKeep; KKeep; KKeep].
Proof. exact (zm_all_massless nf). Qed.
Print Assumptions C06_zm.

(* non-vacuity: between the charm and bottom walls nf = 4; exactly on the bottom wall nf = 5 *)
Example C06_nonvacuous :
  nf_default (10 # 1) (Fin (9 # 4)) (Fin (81 # 4)) (Fin (29929 # 1)) = 4%Z
  /\ nf_default (81 # 4) (Fin (9 # 4)) (Fin (81 # 4)) (Fin (29929 # 1)) = 5%Z.
Proof. split; reflexivity. Qed.
