(* C02 — LO parton model and electroweak / CKM coupling weights.
   Only statements, each closed by [exact] of a lemma of theories/, with Print Assumptions. *)
From Coq Require Import ZArith List Bool QArith Qcanon.
From Yad Require Import Base Couplings PDG Weights WTheorems WLayer.
Import ListNotations.
Local Open Scope F_scope.

(* neutral current, parity conserving kinds (F2, FL, g1): the weight the code gives quark q is the PDG
   coefficient of x(q+qbar), for every sin^2, MZ, Q2, polarisation, propagator correction; e- and e+ *)
Theorem C02_nc_pc_electron (fld : Fld) : f1 + f1 <> f0 -> f1 + f1 + f1 <> f0 ->
  forall t P k q Q2, quark6 q -> s2w t <> f0 -> f1 - s2w t <> f0 -> MZ2 t + Q2 <> f0 -> f1 - k <> f0 ->
  let o := mk_obs NC 11 P k None in
  get_weight t o q Q2 VV (mask_light 0) + get_weight t o q Q2 AA (mask_light 0)
  = F2_coeff (s2w t) (eta_gZ (s2w t) (MZ2 t) Q2 k) (- f1) P q.
Proof. exact (@lo_nc_pc_pdg_electron fld). Qed.
Print Assumptions C02_nc_pc_electron.

Theorem C02_nc_pc_positron (fld : Fld) : f1 + f1 <> f0 -> f1 + f1 + f1 <> f0 ->
  forall t P k q Q2, quark6 q -> s2w t <> f0 -> f1 - s2w t <> f0 -> MZ2 t + Q2 <> f0 -> f1 - k <> f0 ->
  let o := mk_obs NC (-11) P k None in
  get_weight t o q Q2 VV (mask_light 0) + get_weight t o q Q2 AA (mask_light 0)
  = F2_coeff (s2w t) (eta_gZ (s2w t) (MZ2 t) Q2 k) f1 P q.
Proof. exact (@lo_nc_pc_pdg_positron fld). Qed.
Print Assumptions C02_nc_pc_positron.

(* parity violating kinds (F3, gL, g4): PDG coefficient of x(q-qbar) *)
Theorem C02_nc_pv_electron (fld : Fld) : f1 + f1 <> f0 -> f1 + f1 + f1 <> f0 ->
  forall t P k q Q2, quark6 q -> s2w t <> f0 -> f1 - s2w t <> f0 -> MZ2 t + Q2 <> f0 -> f1 - k <> f0 ->
  let o := mk_obs NC 11 P k None in
  get_weight t o q Q2 VA (mask_light 0) + get_weight t o q Q2 AV (mask_light 0)
  = F3_coeff (s2w t) (eta_gZ (s2w t) (MZ2 t) Q2 k) (- f1) P q.
Proof. exact (@lo_nc_pv_pdg_electron fld). Qed.
Print Assumptions C02_nc_pv_electron.

Theorem C02_nc_pv_positron (fld : Fld) : f1 + f1 <> f0 -> f1 + f1 + f1 <> f0 ->
  forall t P k q Q2, quark6 q -> s2w t <> f0 -> f1 - s2w t <> f0 -> MZ2 t + Q2 <> f0 -> f1 - k <> f0 ->
  let o := mk_obs NC (-11) P k None in
  get_weight t o q Q2 VA (mask_light 0) + get_weight t o q Q2 AV (mask_light 0)
  = F3_coeff (s2w t) (eta_gZ (s2w t) (MZ2 t) Q2 k) f1 P q.
Proof. exact (@lo_nc_pv_pdg_positron fld). Qed.
Print Assumptions C02_nc_pv_positron.

(* electromagnetic process: e_q^2, whatever the beam and the polarisation *)
Theorem C02_em (fld : Fld) : f1 + f1 + f1 <> f0 ->
  forall t pj P k q Q2, quark6 q -> (pj = 11 \/ pj = -11)%Z ->
  let o := mk_obs EM pj P k None in
  get_weight t o q Q2 VV (mask_light 0) + get_weight t o q Q2 AA (mask_light 0) = F2_coeff_em q.
Proof. exact (@lo_em_pdg fld). Qed.
Print Assumptions C02_em.

(* antiquarks carry the weight of their quark in get_weight; the (q+qbar)/(q-qbar) structure is put in
   by nc_weights: quark q gets w(q), antiquark +w(q) (parity conserving) or -w(q) (parity violating),
   nothing else is populated, and gluon/singlet get the average *)
Theorem C02_nc_quark_antiquark (fld : Fld) (gw : Z -> ctype -> mask -> F) nf pv q :
  nf36 nf -> q_upto nf q ->
  pget (nc_ns (nc_weights gw nf pv false)) q = w_pc_or_pv gw pv q
  /\ pget (nc_ns (nc_weights gw nf pv false)) (- q) = (if pv then - w_pc_or_pv gw pv q else w_pc_or_pv gw pv q).
Proof. exact (@nc_ns_quark fld gw nf pv q). Qed.
Print Assumptions C02_nc_quark_antiquark.

Theorem C02_nc_support (fld : Fld) (gw : Z -> ctype -> mask -> F) nf pv p :
  nf36 nf -> (Z.abs p > nf \/ p = 0)%Z -> pget (nc_ns (nc_weights gw nf pv false)) p = f0.
Proof. exact (@nc_ns_support fld gw nf pv p). Qed.
Print Assumptions C02_nc_support.

Theorem C02_nc_gluon_is_average (fld : Fld) (gw : Z -> ctype -> mask -> F) nf :
  nf36 nf -> fz nf <> f0 ->
  pget (nc_g (nc_weights gw nf false false)) 21 * fz nf = fsum (map (w_pc_or_pv gw false) (quarks_upto (Z.to_nat nf))).
Proof. exact (@nc_gluon_average fld gw nf). Qed.
Print Assumptions C02_nc_gluon_is_average.

(* charged current: weight = 2 x (sum of the masked squared CKM row/column of the struck quark) ... *)
Theorem C02_cc_weight (fld : Fld) t pj P k ps pid Q2 c msk :
  get_weight t (mk_obs CC pj P k ps) pid Q2 c msk = two * ckm_sum t msk (Z.abs pid).
Proof. exact (@lo_cc_weight fld t pj P k ps pid Q2 c msk). Qed.
Print Assumptions C02_cc_weight.

(* ... where a squared CKM element survives the heavyness mask iff the mask names the heaviest quark of
   the transition (light: ud us; charm: cd cs; bottom: ub cb; top: td ts tb) *)
Theorem C02_ckm_mask (fld : Fld) t k row col : (row < 3)%nat -> (col < 3)%nat ->
  ckm_entry (ckm_masked t k) row col = if mask_has k (label_of row col) then ckm_entry (ckm t) row col else f0.
Proof. exact (@ckm_mask_spec fld t k row col). Qed.
Print Assumptions C02_ckm_mask.

(* ... and at LO (even + odd non-singlet kernels both carry the delta) the whole weight sits on the parton
   the W can hit: down-type quarks / up-type antiquarks for nu and e+ (rest = 1), the conjugates for
   nubar and e- (rest = 0); the conjugate parton gets exactly 0. pvsign is the F3 sign. *)
Theorem C02_cc_lo_parton (fld : Fld) (gw : Z -> ctype -> mask -> F) : f1 + f1 <> f0 ->
  forall k nf rest pv q, nf36 nf -> rest01 rest -> q_upto nf q ->
  let s := cc_sign rest q in
  pget (cc_ns (cc_weights_even gw rest k nf pv)) (s * q) + pget (cc_ns (cc_weights_odd gw rest k nf pv)) (s * q)
    = gw q VV k * pvsign pv s
  /\ pget (cc_ns (cc_weights_even gw rest k nf pv)) (- s * q) + pget (cc_ns (cc_weights_odd gw rest k nf pv)) (- s * q)
    = f0.
Proof. exact (@cc_lo_even_plus_odd fld gw). Qed.
Print Assumptions C02_cc_lo_parton.

(* non-vacuity: the hypotheses are met by the rationals with sin^2 = 15/64, MZ^2 = 8315, Q2 = 30, P = 1/2 *)
Example C02_nonvacuous :
  let t := {| s2w := qc 15 64; MZ2 := qc 8315 1; MW2 := qc 6460 1;
              ckm := (qc 9 10, qc 1 20, qc 1 1000, (qc 1 20, qc 9 10, qc 1 500), (qc 1 10000, qc 1 500, qc 1 1)) |} in
  let o := mk_obs NC 11 (qc 1 2) (qc 0 1) None in
  (@get_weight QcFld t o 2 (qc 30 1) VV (mask_light 0) + @get_weight QcFld t o 2 (qc 30 1) AA (mask_light 0))%Qc
  = @F2_coeff QcFld (s2w t) (@eta_gZ QcFld (s2w t) (MZ2 t) (qc 30 1) (qc 0 1)) (- (1))%Qc (qc 1 2) 2
  /\ (@F2_coeff QcFld (s2w t) (@eta_gZ QcFld (s2w t) (MZ2 t) (qc 30 1) (qc 0 1)) (- (1))%Qc (qc 1 2) 2 <> qc 4 9).
Proof. intros t o; split; [apply Qc_is_canon; vm_compute; reflexivity | intro E; apply (f_equal this) in E; vm_compute in E; discriminate]. Qed.
