(* C09 — heavy-quark production respects its kinematic threshold. *)
From Coq Require Import ZArith QArith Bool List.
From Yad Require Import HeavyThr HeavyThrTheorems.
Open Scope Q_scope.

(* the test is Q2 (1-z)/z <= 4 m2: the boundary itself counts as below *)
Theorem C09_threshold_equiv Q2 m2 z : 0 < z -> (is_below Q2 m2 z = true <-> Q2 * (1 - z) <= 4 * m2 * z).
Proof. exact (threshold_equiv Q2 m2 z). Qed.
Print Assumptions C09_threshold_equiv.
(* neutral current pair production (gluon, singlet, "missing" non-singlet incl. its Adler local term; every order):
   at or below the hadronic threshold the channel is the empty distribution *)
Theorem C09_nc_channel_empty (A : Type) Q2 m2 x (f : A) : is_below Q2 m2 x = true -> decorated Q2 m2 x f = Empty A.
Proof. exact (nc_channel_empty Q2 m2 x f). Qed.
Print Assumptions C09_nc_channel_empty.
(* the integrand vanishes beyond the partonic threshold, for any massive coefficient function (LeProHQ is an oracle) *)
Theorem C09_nc_integrand_zero Q2 m2 pref oracle z : is_below Q2 m2 z = true -> closure Q2 m2 pref oracle z = 0.
Proof. exact (nc_integrand_zero Q2 m2 pref oracle z). Qed.
Print Assumptions C09_nc_integrand_zero.
Theorem C09_partonic_above_hadronic Q2 m2 x z : 0 < Q2 -> 0 <= m2 -> 0 < x -> x <= z -> z < 1 ->
  is_below Q2 m2 x = true -> is_below Q2 m2 z = true.
Proof. exact (below_monotone Q2 m2 x z). Qed.
Print Assumptions C09_partonic_above_hadronic.
Theorem C09_eta_positive_above Q2 m2 z : 0 < m2 -> 0 < z -> is_below Q2 m2 z = false -> 0 < eta Q2 m2 z.
Proof. exact (nc_eta_nonneg Q2 m2 z). Qed.
Print Assumptions C09_eta_positive_above.
(* charged current single heavy-quark production: evaluated at x (1 + m2/Q2), zero when that reaches 1 *)
Theorem C09_cc_point Q2 m2 x : 0 < Q2 -> 0 <= m2 -> cc_point Q2 m2 x == x * (1 + m2 / Q2).
Proof. exact (cc_point_is_slow_rescaling Q2 m2 x). Qed.
Print Assumptions C09_cc_point.
Theorem C09_cc_zero Q2 m2 x v : 1 <= cc_point Q2 m2 x -> conv_model (cc_point Q2 m2 x) v = 0.
Proof. exact (cc_zero_beyond_one Q2 m2 x v). Qed.
Print Assumptions C09_cc_zero.
(* non-vacuity: Q2 = 4, m2 = 1: x = 1/2 is exactly on the threshold (below), x = 7/16 is above *)
Example C09_nonvacuous : is_below 4 1 (1 # 2) = true /\ is_below 4 1 (7 # 16) = false.
Proof. split; reflexivity. Qed.
