(* C07 — heavyness, FONLL-part and coupling-restricted results add up.
   [sem ks atom pid] is the summed parton weight a kernel list gives to one convolution atom
   (sub-package, class, nf, heavy quark); operators are linear in it (C01 assembly). *)
From Coq Require Import ZArith List Bool String QArith Qcanon.
From Yad Require Import Base Couplings Weights Combiner WTheorems WLayer CombTheorems.
Import ListNotations.
Local Open Scope F_scope.

(* a FONLL run with parts 'full' is the concatenation of its 'massless' and 'massive' runs *)
Theorem C07_fonll_parts (fld : Fld) gw gfl prc rest inv c kf :
  collect_elems gw gfl prc rest inv (with_parts c PFull) = Ok kf ->
  exists km kv, collect_elems gw gfl prc rest inv (with_parts c PMassless) = Ok km
             /\ collect_elems gw gfl prc rest inv (with_parts c PMassive) = Ok kv
             /\ kf = (km ++ kv)%list
             /\ forall a pid, sem kf a pid = sem km a pid + sem kv a pid.
Proof. exact (@fonll_parts fld gw gfl prc rest inv c kf). Qed.
Print Assumptions C07_fonll_parts.

(* zero-mass scheme (no massive quark): total and light collect the same kernels *)
Theorem C07_zm_total_is_light (fld : Fld) gw gfl prc rest inv c :
  g_mc c = false -> g_mb c = false -> g_mt c = false ->
  collect gw gfl prc rest inv (with_family c FamTotal 0) = collect gw gfl prc rest inv (with_family c FamLight 0).
Proof. exact (@zm_total_is_light fld gw gfl prc rest inv c). Qed.
Print Assumptions C07_zm_total_is_light.

(* fixed-flavour schemes (quarks above nf massive, the others massless): total = light ++ F_h for the
   massive h, in this order.  For NfFF = 3 this is total = light + charm + bottom + top; for NfFF >= 4 the
   massless heavy quarks are slices of light (no partition contains both) and heavy_of gives [] for them. *)
Theorem C07_ffns_partition (fld : Fld) gw gfl prc rest inv c kt :
  (g_nf c = 3 \/ g_nf c = 4 \/ g_nf c = 5 \/ g_nf c = 6)%Z -> ffns_cfg c ->
  collect gw gfl prc rest inv (with_family c FamTotal 0) = Ok kt ->
  exists kl k4 k5 k6,
    collect gw gfl prc rest inv (with_family c FamLight 0) = Ok kl
    /\ heavy_of gw gfl prc rest inv c 4 = Ok k4 /\ heavy_of gw gfl prc rest inv c 5 = Ok k5
    /\ heavy_of gw gfl prc rest inv c 6 = Ok k6
    /\ kt = (kl ++ k4 ++ k5 ++ k6)%list.
Proof. exact (@ffns_partition_lists fld gw gfl prc rest inv c kt). Qed.
Print Assumptions C07_ffns_partition.

(* the isospin rotation and the dropping of empty kernels distribute over concatenation, and the
   meaning of a concatenation is the sum of the meanings: the list identities above are operator identities *)
Theorem C07_sem_additive (fld : Fld) ks ks' a pid : sem (ks ++ ks') a pid = sem ks a pid + sem ks' a pid.
Proof. exact (@sem_app fld ks ks' a pid). Qed.
Print Assumptions C07_sem_additive.
Theorem C07_postprocessing_distributes (fld : Fld) z a l m :
  drop_empty (apply_isospin z a (l ++ m)) = (drop_empty (apply_isospin z a l) ++ drop_empty (apply_isospin z a m))%list.
Proof. rewrite apply_isospin_app, drop_empty_app. reflexivity. Qed.
Print Assumptions C07_postprocessing_distributes.

(* restriction to one quark's couplings: the six restricted weights add up to the unrestricted one ... *)
Theorem C07_pos_charge_partition (fld : Fld) t p pj P k pid Q2 c msk :
  p <> CC -> quark6 (Z.abs pid) ->
  fsum (map (fun pp => get_weight t (mk_obs p pj P k (Some pp)) pid Q2 c msk) [1; 2; 3; 4; 5; 6]%Z)
  = get_weight t (mk_obs p pj P k None) pid Q2 c msk.
Proof. exact (@pos_charge_partition fld t p pj P k pid Q2 c msk). Qed.
Print Assumptions C07_pos_charge_partition.

(* ... and every neutral-current weight builder is additive in get_weight / get_fl11_weight *)
Theorem C07_nc_weights_additive (fld : Fld) gwa gwb nf pv skip p : nf36 nf -> pid_dom p ->
  f1 + f1 + f1 <> f0 -> f1 + f1 <> f0 -> f1 + (f1 + f1) * (f1 + f1) <> f0 ->
  let W gw := nc_weights gw nf pv skip in
  pget (nc_ns (W (gw_add gwa gwb))) p = pget (nc_ns (W gwa)) p + pget (nc_ns (W gwb)) p
  /\ pget (nc_g (W (gw_add gwa gwb))) p = pget (nc_g (W gwa)) p + pget (nc_g (W gwb)) p
  /\ pget (nc_s (W (gw_add gwa gwb))) p = pget (nc_s (W gwa)) p + pget (nc_s (W gwb)) p
  /\ pget (nc_v (W (gw_add gwa gwb))) p = pget (nc_v (W gwa)) p + pget (nc_v (W gwb)) p.
Proof. exact (@nc_weights_additive fld gwa gwb nf pv skip p). Qed.
Print Assumptions C07_nc_weights_additive.

Theorem C07_nc_fl11_weights_additive (fld : Fld) gfa gfb nf p : nf36 nf -> pid_dom p ->
  f1 + f1 + f1 <> f0 -> f1 + f1 <> f0 -> f1 + (f1 + f1) * (f1 + f1) <> f0 ->
  pget (fst (nc_fl11_weights (gf_add gfa gfb) nf)) p = pget (fst (nc_fl11_weights gfa nf)) p + pget (fst (nc_fl11_weights gfb nf)) p
  /\ pget (snd (nc_fl11_weights (gf_add gfa gfb) nf)) p = pget (snd (nc_fl11_weights gfa nf)) p + pget (snd (nc_fl11_weights gfb nf)) p.
Proof. exact (@nc_fl11_weights_additive fld gfa gfb nf p). Qed.
Print Assumptions C07_nc_fl11_weights_additive.

(* non-vacuity: a FFNS NfFF=3 total with three massive quarks really splits into four non-empty lists *)
Example C07_nonvacuous : ffns_cfg (@Build_ccfg QcFld F2 FamTotal 0 3 true true true PFull false 1 1 1%Qc 1%Qc)
  /\ massive (@Build_ccfg QcFld F2 FamTotal 0 3 true true true PFull false 1 1 1%Qc 1%Qc) 4 = true.
Proof. split; [repeat split|reflexivity]. Qed.
