(* C13 — symmetry and decoupling relations between processes and beams. *)
From Coq Require Import ZArith List Bool QArith Qcanon.
From Yad Require Import Base Couplings PDG Weights Combiner WTheorems WLayer.
Import ListNotations.
Local Open Scope F_scope.

(* e+ with polarisation P couples like e- with -P: every weight the kernels are built from *)
Theorem C13_positron_flip (fld : Fld) t p P k ps pid Q2 c msk :
  get_weight t (mk_obs p (-11) P k ps) pid Q2 c msk = get_weight t (mk_obs p 11 (- P) k ps) pid Q2 c msk.
Proof. exact (@positron_flip fld t p P k ps pid Q2 c msk). Qed.
Print Assumptions C13_positron_flip.

Theorem C13_positron_flip_fl11 (fld : Fld) t p P k ps pid Q2 nf c :
  get_fl11_weight t (mk_obs p (-11) P k ps) pid Q2 nf c = get_fl11_weight t (mk_obs p 11 (- P) k ps) pid Q2 nf c.
Proof. exact (@positron_flip_fl11 fld t p P k ps pid Q2 nf c). Qed.
Print Assumptions C13_positron_flip_fl11.

Theorem C13_antineutrino_flip (fld : Fld) t p P k ps pid Q2 c msk :
  get_weight t (mk_obs p (-12) P k ps) pid Q2 c msk = get_weight t (mk_obs p 12 (- P) k ps) pid Q2 c msk.
Proof. exact (@antineutrino_flip fld t p P k ps pid Q2 c msk). Qed.
Print Assumptions C13_antineutrino_flip.

(* Z decoupling: NC weight = EM weight + eta_gammaZ * (...) ; so eta = 0 gives exactly the EM weight,
   and parity-violating weights vanish without the Z *)
Theorem C13_nc_is_em_plus_eta (fld : Fld) t pj P k ps pid Q2 c msk :
  get_weight t (mk_obs NC pj P k ps) pid Q2 c msk
  = get_weight t (mk_obs EM pj P k ps) pid Q2 c msk
    + (if pos_blocks (mk_obs NC pj P k ps) pid then f0
       else eta_phZ t (mk_obs NC pj P k ps) Q2 * zterms t (mk_obs NC pj P k ps) pid c msk (eta_phZ t (mk_obs NC pj P k ps) Q2)).
Proof. exact (@nc_is_em_plus_eta fld t pj P k ps pid Q2 c msk). Qed.
Print Assumptions C13_nc_is_em_plus_eta.

Theorem C13_z_decoupled (fld : Fld) t pj P k ps pid Q2 c msk :
  eta_phZ t (mk_obs NC pj P k ps) Q2 = f0 ->
  get_weight t (mk_obs NC pj P k ps) pid Q2 c msk = get_weight t (mk_obs EM pj P k ps) pid Q2 c msk.
Proof. exact (@z_decoupled fld t pj P k ps pid Q2 c msk). Qed.
Print Assumptions C13_z_decoupled.

Theorem C13_em_no_parity_violation (fld : Fld) t pj P k ps pid Q2 msk :
  get_weight t (mk_obs EM pj P k ps) pid Q2 VA msk = f0 /\ get_weight t (mk_obs EM pj P k ps) pid Q2 AV msk = f0.
Proof. exact (@em_no_parity_violation fld t pj P k ps pid Q2 msk). Qed.
Print Assumptions C13_em_no_parity_violation.

(* charged current: the hadronic weight does not know the beam ... *)
Theorem C13_cc_weight_beam_independent (fld : Fld) t pj pj' P P' k ps pid Q2 c msk :
  get_weight t (mk_obs CC pj P k ps) pid Q2 c msk = get_weight t (mk_obs CC pj' P' k ps) pid Q2 c msk.
Proof. rewrite !lo_cc_weight. reflexivity. Qed.
Print Assumptions C13_cc_weight_beam_independent.

(* ... and exchanging the beam for its antiparticle (rest <-> 1-rest) charge-conjugates every parton map,
   with sigma = -1 for the parity-violating kinds (xF3 changes sign); arbitrary CKM (gw is arbitrary),
   every heavyness mask k, nf = 3..6; light (even/odd/singlet/valence/gluon) and heavy (plain) builders *)
Theorem C13_cc_conjugation_even (fld : Fld) (gw : Z -> ctype -> mask -> F) : f1 + f1 <> f0 ->
  forall k nf rest pv p, nf36 nf -> rest01 rest -> pid_dom p ->
  pget (cc_ns (cc_weights_even gw (1 - rest) k nf pv)) p = sigma pv * pget (cc_ns (cc_weights_even gw rest k nf pv)) (- p).
Proof. exact (@cc_conj_even fld gw). Qed.
Print Assumptions C13_cc_conjugation_even.

Theorem C13_cc_conjugation_odd (fld : Fld) (gw : Z -> ctype -> mask -> F) : f1 + f1 <> f0 ->
  forall k nf rest pv p, nf36 nf -> rest01 rest -> pid_dom p ->
  pget (cc_ns (cc_weights_odd gw (1 - rest) k nf pv)) p = sigma pv * pget (cc_ns (cc_weights_odd gw rest k nf pv)) (- p).
Proof. exact (@cc_conj_odd fld gw). Qed.
Print Assumptions C13_cc_conjugation_odd.

Theorem C13_cc_conjugation_singlet_valence (fld : Fld) (gw : Z -> ctype -> mask -> F) : f1 + f1 <> f0 ->
  forall k nf rest pv p, nf36 nf -> rest01 rest -> pid_dom p -> fz (m_len k) <> f0 ->
  oget (cc_s (cc_weights_even gw (1 - rest) k nf pv)) p = oget (cc_s (cc_weights_even gw rest k nf pv)) (- p)
  /\ oget (cc_v (cc_weights_odd gw (1 - rest) k nf pv)) p = - oget (cc_v (cc_weights_odd gw rest k nf pv)) (- p)
  /\ pget (cc_g (cc_weights_even gw (1 - rest) k nf pv)) 21 = pget (cc_g (cc_weights_even gw rest k nf pv)) 21.
Proof. exact (@cc_conj_singlet_valence fld gw). Qed.
Print Assumptions C13_cc_conjugation_singlet_valence.

Theorem C13_cc_conjugation_heavy (fld : Fld) (gw : Z -> ctype -> mask -> F) : f1 + f1 <> f0 ->
  forall k nf rest pv p, nf36 nf -> rest01 rest -> pid_dom p -> fz (m_len k) <> f0 ->
  pget (cc_ns (cc_weights gw (1 - rest) k nf pv)) p = sigma pv * pget (cc_ns (cc_weights gw rest k nf pv)) (- p)
  /\ pget (cc_g (cc_weights gw (1 - rest) k nf pv)) 21 = sigma pv * pget (cc_g (cc_weights gw rest k nf pv)) 21
  /\ oget (cc_s (cc_weights gw (1 - rest) k nf pv)) p = sigma pv * oget (cc_s (cc_weights gw rest k nf pv)) (- p).
Proof. exact (@cc_conj_plain fld gw). Qed.
Print Assumptions C13_cc_conjugation_heavy.

(* the code's rest flag is 1 for e+ and nu, 0 for e- and nubar: antiparticle <-> 1 - rest *)
Theorem C13_rest_of_antiparticle (fld : Fld) p P k ps pj : (pj = 11 \/ pj = 12 \/ pj = -11 \/ pj = -12)%Z ->
  rest_of (mk_obs p (- pj) P k ps) = (1 - rest_of (mk_obs p pj P k ps))%Z.
Proof. intros [->|[->|[->| ->]]]; reflexivity. Qed.
Print Assumptions C13_rest_of_antiparticle.

(* two quarks of the same type (both up-type or both down-type) get the same neutral-current weight *)
Theorem C13_equal_charge_swap (fld : Fld) t o q q' Q2 c msk :
  proc o <> CC -> pos o = None -> is_quark q = true -> is_quark q' = true -> Z.even q = Z.even q' ->
  get_weight t o q Q2 c msk = get_weight t o q' Q2 c msk.
Proof. exact (@equal_charge_swap fld t o q q' Q2 c msk). Qed.
Print Assumptions C13_equal_charge_swap.

(* non-vacuity: a case where the flip really changes something (P <> 0) on the rationals *)
Example C13_nonvacuous :
  let t := {| s2w := qc 15 64; MZ2 := qc 8315 1; MW2 := qc 6460 1;
              ckm := (qc 9 10, qc 1 20, qc 1 1000, (qc 1 20, qc 9 10, qc 1 500), (qc 1 10000, qc 1 500, qc 1 1)) |} in
  @get_weight QcFld t (mk_obs NC (-11) (qc 1 2) (qc 0 1) None) 1 (qc 30 1) VV (mask_light 0)
  <> @get_weight QcFld t (mk_obs NC 11 (qc 1 2) (qc 0 1) None) 1 (qc 30 1) VV (mask_light 0).
Proof. intros t E; apply (f_equal this) in E; vm_compute in E; discriminate. Qed.
