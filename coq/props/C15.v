(* C15 — the serialised output round-trips losslessly (structural part: which value is stored where; the YAML / npz
   byte formats are a transport checked by the harness on real files). *)
From Coq Require Import ZArith List Bool String QArith.
From Yad Require Import Result Serial SerialTheorems.
Import ListNotations.

(* for ANY payload type (value and error tensors), any number of points, any order keys in any (uniform) insertion
   order, structure functions (x, Q2, nf) and cross sections (x, Q2, nf, y) alike: load_tar (dump_tar rs) = rs *)
Theorem C15_tar_roundtrip (P : Type) (rs : list (res P)) d : dump_obs rs = Some d ->
  (match rs with r0 :: _ => knames r0 <> [] | [] => True end) -> load_obs d = rs.
Proof. exact (tar_roundtrip P rs d). Qed.
Print Assumptions C15_tar_roundtrip.

(* the dump succeeds on every non-empty list of results with the same fields and the same order keys *)
Theorem C15_dump_succeeds (P : Type) (rs : list (res P)) r0 rs' : rs = r0 :: rs' ->
  (forall r, In r rs -> knames r = knames r0 /\ okeys r = okeys r0) -> exists d, dump_obs rs = Some d.
Proof. exact (dump_succeeds P rs r0 rs'). Qed.
Print Assumptions C15_dump_succeeds.

(* an observable with an empty list of points is outside this per-observable document: the code special-cases it
   (stored like a None observable, loaded back as an empty list) *)
Theorem C15_empty_list_is_special (P : Type) : dump_obs (P:=P) [] = None.
Proof. exact (empty_list_not_dumped P). Qed.
Print Assumptions C15_empty_list_is_special.

(* non-vacuity: two points, two keys in non-sorted insertion order *)
Example C15_nonvacuous :
  let r x := {| r_kin := [("x", x); ("Q2", 10 # 1); ("nf", 4 # 1)]%string; r_orders := [((2, 0, 1, 0)%Z, 7%Z, 1%Z); ((2, 0, 0, 1)%Z, 8%Z, 2%Z)] |} in
  exists d, dump_obs [r (1 # 2); r (1 # 4)] = Some d /\ load_obs d = [r (1 # 2); r (1 # 4)].
Proof. eexists. split; reflexivity. Qed.
