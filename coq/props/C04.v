(* C04 — massless coefficient functions obey sum rules and NLO closed forms.
   The theorems about the source text are regenerated on every run:
     gen/cf/CF_*.v  closed_form : forall z in (0,1), regenerated NLO kernel = published closed form (SpecNLO.v), and the
                    (delta, D0, D1) coefficients of the plus-distribution sites;
     gen/mo/MO_*.v  first_moment : |int_0^1 reg + loc(0) - sum-rule coefficient| <= tol for nf = 3..6 (Adler, GLS, Bjorken
                    at NNLO and N3LO), with reg_lower / reg_upper / loc_at_0 certifying the split into group integrals.
   This file holds facts about the specification itself. *)
From Coq Require Import Reals Lra.
From Interval Require Import Tactic.
From Yad Require Import SpecNLO.
Open Scope R_scope.

(* the quark coefficient of F3 (and g1) differs from that of F2 by -2 CF (1+z); FL = F2 - 2xF1 has no distributions *)
Theorem C04_c3_minus_c2 z : c3q1_reg z - c2q1_reg z = - 2 * CF * (1 + z).
Proof. unfold c3q1_reg. ring. Qed.
Print Assumptions C04_c3_minus_c2.
(* momentum-type check of the specification (non-vacuity): the closed forms are not trivially zero *)
Theorem C04_spec_nonvacuous : 7 < c2g1 (1/2) 4 < 9 /\ 18 < c2q1_reg (1/2) < 19 /\ cq1_delta < -20.
Proof. unfold c2g1, c2q1_reg, cq1_delta, CF, TR, zeta2. repeat split; interval. Qed.
Print Assumptions C04_spec_nonvacuous.
