(* C19 — predictions are stable under refinement of the interpolation grid / raising the degree; a requested x on a grid
   node gives the same value as an infinitesimally displaced x.
   Model: theories/Interp.v (eko's piecewise Lagrange basis with its block rule), tied by tools/corr/interp.py.
   Proved: the algebraic core (exactness on polynomials up to the degree on every area of every grid, partition of unity,
   continuity of every basis function at every node, Kronecker property), and — over the reals — the analytic bound on the
   interpolation error of a smooth function, (1 + Lebesgue function) M h^(d+1)/(d+1)!, with convergence under refinement, and the
   bound that carries an interpolation error through the convolution integral to the prediction.  What is NOT proved: the
   Lipschitz constant of the interpolation error (it enters the plus-distribution part) is a hypothesis, and the Lebesgue function
   is a hypothesis of the convergence theorem; these are explored on real runs by tools/props/C19.py. *)
From Coq Require Import ZArith List Bool Arith Reals.
From Coquelicot Require Import Coquelicot.
From Yad Require Import Base Interp InterpTheorems InterpReal InterpDeriv GlobalInterp GlobalLipschitz GridExample LinearGrid UniformGrid Conv ConvGen ConvError.
Import ListNotations.
Open Scope nat_scope.

(* any polynomial of degree <= d in the interpolation variable is reproduced exactly by the d+1 nodes of the block of
   ANY area of ANY grid (degrees 1..4): two grids, or two degrees, give identical interpolants for such a function *)
Theorem C19_exact_on_polynomials (fld : Fld) ns d i k t : alldiff ns -> 1 <= d <= 4 -> d < length ns -> i + 1 < length ns -> k <= d ->
  interp_pow (block_nodes ns d i) k t = fpow t k.
Proof. exact (@area_reproduces fld ns d i k t). Qed.
Print Assumptions C19_exact_on_polynomials.
Theorem C19_partition_of_unity (fld : Fld) vs t : alldiff vs -> 2 <= length vs <= 5 -> interp_pow vs 0 t = f1.
Proof. exact (@lagrange_partition_of_unity fld vs t). Qed.
Print Assumptions C19_partition_of_unity.
(* the two polynomial pieces of p_j that meet at an inner node agree there (= delta_j,node): p_j is continuous at the
   nodes, so x on a node and x next to it see the same basis values in the limit *)
Theorem C19_continuous_at_nodes (fld : Fld) ns d i j : alldiff ns -> 1 <= d -> d < length ns -> i + 2 < length ns ->
  area_poly ns d i j (nth (S i) ns f0) = area_poly ns d (S i) j (nth (S i) ns f0)
  /\ area_poly ns d i j (nth (S i) ns f0) = if Nat.eqb (S i) j then f1 else f0.
Proof. exact (@basis_continuous_at_nodes fld ns d i j). Qed.
Print Assumptions C19_continuous_at_nodes.
Theorem C19_kronecker (fld : Fld) vs j m : alldiff vs -> j < length vs -> m < length vs ->
  lagv vs (nth j vs f0) j 0 (nth m vs f0) = if Nat.eqb m j then f1 else f0.
Proof. exact (@lagrange_kronecker fld vs j m). Qed.
Print Assumptions C19_kronecker.
(* non-vacuity: a concrete grid meets the hypotheses *)
Example C19_grid_example : @alldiff QcFld [qc 1 8; qc 1 4; qc 1 2; qc 3 4; qc 1 1] /\ 4 < 5.
Proof. cbn [alldiff]. repeat split; try (repeat constructor; repeat split; discriminate). Qed.

(* ---------------- the analytic half (over the reals; Coquelicot's Taylor-Lagrange formula) *)
(* Lebesgue's lemma on a block of 2..5 pairwise distinct nodes: the interpolation error of ANY function g is at most
   (1 + Lebesgue function) times its distance from any polynomial of degree <= d *)
Theorem C19_lebesgue_lemma vs g a c n t E : @alldiff RFld vs -> 2 <= length vs <= 5 -> n < length vs ->
  (forall j, j < length vs -> (Rabs (g (nth j vs 0%R) - peval c n (nth j vs 0%R - a)) <= E)%R) ->
  (Rabs (g t - peval c n (t - a)) <= E)%R ->
  (Rabs (interp vs g t - g t) <= (1 + lebesgue vs t) * E)%R.
Proof. exact (lebesgue_lemma vs g a c n t E). Qed.
Print Assumptions C19_lebesgue_lemma.
(* what a prediction uses on area i of a grid — the sum over ALL basis functions of f(x_j) p_j(t) — is the Lagrange interpolant
   on the block of that area *)
Theorem C19_grid_interpolant_is_block_interpolant ns d i f t : 1 <= d -> d < length ns -> i + 1 < length ns ->
  grid_interp ns d i f t = interp (@block_nodes RFld ns d i) f t.
Proof. exact (grid_interp_is_block_interp ns d i f t). Qed.
Print Assumptions C19_grid_interpolant_is_block_interpolant.
(* a function with d+1 derivatives, the last bounded by M on [A, B] containing the block and the point: the error is
   (1 + Lambda) M (B - A)^(d+1) / (d+1)!  —  degrees 1..4, any grid, any area, no assumption on the spacing *)
Theorem C19_interpolation_error ns d i f A B M t : @alldiff RFld ns -> 1 <= d <= 4 -> d < length ns -> i + 1 < length ns -> (A < B)%R ->
  (forall j, j <= d -> (A <= nth j (@block_nodes RFld ns d i) 0 <= B)%R) -> (A <= t <= B)%R ->
  (forall u, (A <= u <= B)%R -> forall k, k <= S d -> ex_derive_n f k u) ->
  (forall u, (A < u < B)%R -> (Rabs (Derive_n f (S d) u) <= M)%R) ->
  (Rabs (grid_interp ns d i f t - f t) <= (1 + lebesgue (@block_nodes RFld ns d i) t) * (M * (B - A) ^ S d / INR (fact (S d))))%R.
Proof. exact (grid_interp_error ns d i f A B M t). Qed.
Print Assumptions C19_interpolation_error.
(* convergence under refinement: below any eps once the blocks are narrower than delta (the Lebesgue function, which depends on
   the relative spacing only, bounded by Lam) *)
Theorem C19_refinement_converges f lo hi d M Lam : 1 <= d <= 4 -> (lo < hi)%R ->
  (forall u, (lo <= u <= hi)%R -> forall k, k <= S d -> ex_derive_n f k u) ->
  (forall u, (lo < u < hi)%R -> (Rabs (Derive_n f (S d) u) <= M)%R) ->
  forall eps, (0 < eps)%R -> exists delta, (0 < delta)%R /\
    forall ns i A B t, @alldiff RFld ns -> d < length ns -> i + 1 < length ns -> (lo <= A)%R -> (A < B)%R -> (B <= hi)%R ->
      (forall j, j <= d -> (A <= nth j (@block_nodes RFld ns d i) 0 <= B)%R) -> (A <= t <= B)%R ->
      (lebesgue (@block_nodes RFld ns d i) t <= Lam)%R -> (B - A < delta)%R ->
      (Rabs (grid_interp ns d i f t - f t) < eps)%R.
Proof. exact (refinement_converges f lo hi d M Lam). Qed.
Print Assumptions C19_refinement_converges.
(* from the interpolation error to the prediction: the contracted operator is the convolution with the interpolant (C01), so the
   error of the prediction is the convolution with (I f - f).  PARTIAL: the Lipschitz constant Le of the interpolation error (an
   O(h^d) quantity) is a hypothesis, not derived from the smoothness of f *)
Theorem C19_prediction_error_partial k f If x E Le W Ws : (0 < x <= 1)%R -> (0 <= Le)%R ->
  (forall u, (x <= u <= 1)%R -> (Rabs (If u - f u) <= E)%R) ->
  (forall u v, (x <= u <= 1)%R -> (x <= v <= 1)%R -> (Rabs ((If u - f u) - (If v - f v)) <= Le * Rabs (u - v))%R) ->
  ex_RInt (integrand k If x) x 1 -> ex_RInt (integrand k f x) x 1 -> is_RInt (fun z => (Rabs (r_reg k z) / z)%R) x 1 W ->
  is_RInt (fun z => (Rabs (r_sing k z) * ((1 - z) / (z * z)))%R) x 1 Ws ->
  (Rabs (conv_spec k If x - conv_spec k f x) <= (W + Rabs (r_loc k x)) * E + Ws * (Le * x + E))%R.
Proof. exact (prediction_error_full k f If x E Le W Ws). Qed.
Print Assumptions C19_prediction_error_partial.
(* the same bound for the improper integral (kernels with ln^k(1-z)) *)
Theorem C19_prediction_error_improper_partial k f If x E Le W Ws v w : (0 < x < 1)%R -> (0 <= Le)%R ->
  (forall u, (x <= u <= 1)%R -> (Rabs (If u - f u) <= E)%R) ->
  (forall u t, (x <= u <= 1)%R -> (x <= t <= 1)%R -> (Rabs ((If u - f u) - (If t - f t)) <= Le * Rabs (u - t))%R) ->
  is_conv k If x v -> is_conv k f x w ->
  is_RInt_gen (fun z => (Rabs (r_reg k z) / z)%R) (at_point x) (at_left 1) W ->
  is_RInt_gen (fun z => (Rabs (r_sing k z) * ((1 - z) / (z * z)))%R) (at_point x) (at_left 1) Ws ->
  (Rabs (v - w) <= (W + Rabs (r_loc k x)) * E + Ws * (Le * x + E))%R.
Proof. exact (prediction_error_gen k f If x E Le W Ws v w). Qed.
Print Assumptions C19_prediction_error_improper_partial.
(* ---------------- the Lipschitz constant of the interpolation error (the hypothesis Le of the prediction-error theorems), derived inside an area:
   the derivative of the block interpolant is exact on polynomials of degree <= d too, so Lebesgue's argument gives
   |(I f)' - f'| <= Lam1 M h^(d+1)/(d+1)! + M h^d/d!,  Lam1 >= sum_j |l_j'|;  by the mean-value theorem this is a Lipschitz constant of I f - f on the area *)
Theorem C19_derivative_error_smooth vs f a b M t : @alldiff RFld vs -> 2 <= length vs <= 5 -> (a < b)%R ->
  (forall j, j < length vs -> (a <= nth j vs 0 <= b)%R) -> (a <= t <= b)%R ->
  (forall u, (a <= u <= b)%R -> forall k, k <= length vs -> ex_derive_n f k u) ->
  (forall u, (a < u < b)%R -> (Rabs (Derive_n f (length vs) u) <= M)%R) ->
  (Rabs (Derive (interp vs f) t - Derive f t)
   <= lebesgue1 vs t * (M * (b - a) ^ length vs / INR (fact (length vs))) + M * (b - a) ^ (length vs - 1) / INR (fact (length vs - 1)))%R.
Proof. exact (interp_derivative_error_smooth vs f a b M t). Qed.
Print Assumptions C19_derivative_error_smooth.
Theorem C19_error_lipschitz_in_area vs f a b M Lam1 u v : @alldiff RFld vs -> 2 <= length vs <= 5 -> (a < b)%R ->
  (forall j, j < length vs -> (a <= nth j vs 0 <= b)%R) -> (a <= u <= b)%R -> (a <= v <= b)%R ->
  (forall w, (a <= w <= b)%R -> forall k, k <= length vs -> ex_derive_n f k w) ->
  (forall w, (a < w < b)%R -> (Rabs (Derive_n f (length vs) w) <= M)%R) ->
  (forall w, (a <= w <= b)%R -> (lebesgue1 vs w <= Lam1)%R) ->
  (Rabs ((interp vs f u - f u) - (interp vs f v - f v))
   <= (Lam1 * (M * (b - a) ^ length vs / INR (fact (length vs))) + M * (b - a) ^ (length vs - 1) / INR (fact (length vs - 1))) * Rabs (u - v))%R.
Proof. exact (interp_error_lipschitz vs f a b M Lam1 u v). Qed.
Print Assumptions C19_error_lipschitz_in_area.
(* gluing the areas: Lipschitz on every closed piece of an increasing list of break points => Lipschitz on the whole range, same constant *)
Theorem C19_piecewise_lipschitz g D l : (0 <= D)%R -> increasing l -> pieces_lipschitz g D l ->
  forall u v, (hd 0 l <= u <= last l 0)%R -> (hd 0 l <= v <= last l 0)%R -> (Rabs (g u - g v) <= D * Rabs (u - v))%R.
Proof. exact (piecewise_lipschitz g D l). Qed.
Print Assumptions C19_piecewise_lipschitz.

(* ---------------- the whole grid.  eko's piecewise basis (Interp.basis_eval, increasing grid) on the closed area [x_i, x_(i+1)]: the sum over
   all basis functions is the block interpolant of that area *)
Theorem C19_global_interpolant_on_area ns d i f t : sorted ns -> 1 <= d -> d < length ns -> i + 1 < length ns ->
  (nth i ns 0 <= t <= nth (S i) ns 0)%R -> Iglobal ns d f t = interp (@block_nodes RFld ns d i) f t.
Proof. exact (global_is_block_interpolant_closed ns d i f t). Qed.
Print Assumptions C19_global_interpolant_on_area.
Theorem C19_global_error_sup ns d f M Lam h t : sorted ns -> 1 <= d <= 4 -> d < length ns -> (0 <= Lam)%R ->
  (forall w, (nth 0 ns 0 <= w <= nth (length ns - 1) ns 0)%R -> forall k, k <= S d -> ex_derive_n f k w) ->
  (forall w, (nth 0 ns 0 < w < nth (length ns - 1) ns 0)%R -> (Rabs (Derive_n f (S d) w) <= M)%R) ->
  (forall i, i + 1 < length ns ->
     (nth (snd (block (length ns) d i)) ns 0 - nth (fst (block (length ns) d i)) ns 0 <= h)%R /\
     forall w, (nth (fst (block (length ns) d i)) ns 0 <= w <= nth (snd (block (length ns) d i)) ns 0)%R -> (lebesgue (@block_nodes RFld ns d i) w <= Lam)%R) ->
  (nth 0 ns 0 <= t <= nth (length ns - 1) ns 0)%R ->
  (Rabs (Iglobal ns d f t - f t) <= (1 + Lam) * (M * h ^ S d / INR (fact (S d))))%R.
Proof. exact (global_error_sup ns d f M Lam h t). Qed.
Print Assumptions C19_global_error_sup.
Theorem C19_global_error_lipschitz ns d f M Lam1 h : sorted ns -> 1 <= d <= 4 -> d < length ns -> (0 <= Lam1)%R ->
  (forall w, (nth 0 ns 0 <= w <= nth (length ns - 1) ns 0)%R -> forall k, k <= S d -> ex_derive_n f k w) ->
  (forall w, (nth 0 ns 0 < w < nth (length ns - 1) ns 0)%R -> (Rabs (Derive_n f (S d) w) <= M)%R) ->
  (forall i, i + 1 < length ns ->
     (nth (snd (block (length ns) d i)) ns 0 - nth (fst (block (length ns) d i)) ns 0 <= h)%R /\
     forall w, (nth (fst (block (length ns) d i)) ns 0 <= w <= nth (snd (block (length ns) d i)) ns 0)%R -> (lebesgue1 (@block_nodes RFld ns d i) w <= Lam1)%R) ->
  forall u v, (nth 0 ns 0 <= u <= nth (length ns - 1) ns 0)%R -> (nth 0 ns 0 <= v <= nth (length ns - 1) ns 0)%R ->
  (Rabs ((Iglobal ns d f u - f u) - (Iglobal ns d f v - f v)) <= (Lam1 * (M * h ^ S d / INR (fact (S d))) + M * h ^ d / INR (fact d)) * Rabs (u - v))%R.
Proof. exact (global_error_lipschitz ns d f M Lam1 h). Qed.
Print Assumptions C19_global_error_lipschitz.
(* all together: the prediction from the node values of a smooth f vs the exact convolution, for any kernel triple (improper integrals) *)
Theorem C19_prediction_error_smooth_grid (k : rsl) ns d f M Lam Lam1 h x W Ws v w : sorted ns -> 1 <= d <= 4 -> d < length ns -> (0 <= Lam)%R -> (0 <= Lam1)%R ->
  (nth 0 ns 0 <= x)%R -> (0 < x < 1)%R -> nth (length ns - 1) ns 0%R = 1%R ->
  (forall u, (nth 0 ns 0 <= u <= 1)%R -> forall j, j <= S d -> ex_derive_n f j u) ->
  (forall u, (nth 0 ns 0 < u < 1)%R -> (Rabs (Derive_n f (S d) u) <= M)%R) ->
  (forall i, i + 1 < length ns ->
     (nth (snd (block (length ns) d i)) ns 0 - nth (fst (block (length ns) d i)) ns 0 <= h)%R /\
     forall u, (nth (fst (block (length ns) d i)) ns 0 <= u <= nth (snd (block (length ns) d i)) ns 0)%R ->
       (lebesgue (@block_nodes RFld ns d i) u <= Lam)%R /\ (lebesgue1 (@block_nodes RFld ns d i) u <= Lam1)%R) ->
  is_conv k (Iglobal ns d f) x v -> is_conv k f x w ->
  is_RInt_gen (fun z => (Rabs (r_reg k z) / z)%R) (at_point x) (at_left 1) W ->
  is_RInt_gen (fun z => (Rabs (r_sing k z) * ((1 - z) / (z * z)))%R) (at_point x) (at_left 1) Ws ->
  (Rabs (v - w) <= (W + Rabs (r_loc k x)) * ((1 + Lam) * (M * h ^ S d / INR (fact (S d))))
                  + Ws * ((Lam1 * (M * h ^ S d / INR (fact (S d))) + M * h ^ d / INR (fact d)) * x + (1 + Lam) * (M * h ^ S d / INR (fact (S d)))))%R.
Proof. exact (prediction_error_smooth_grid k ns d f M Lam Lam1 h x W Ws v w). Qed.
Print Assumptions C19_prediction_error_smooth_grid.

(* ---------------- the Lebesgue hypotheses discharged: linear interpolation (d = 1) on ANY increasing grid.  The block of an area is the area,
   sum_j |l_j| = 1 and sum_j |l_j'| = 2 / (x_(i+1) - x_i) there; the whole-grid bounds then follow from the smoothness of f and the spacings alone *)
Theorem C19_linear_grid_lebesgue ns i u : sorted ns -> i + 1 < length ns -> (nth i ns 0 <= u <= nth (S i) ns 0)%R ->
  lebesgue (@block_nodes RFld ns 1 i) u = 1%R /\ lebesgue1 (@block_nodes RFld ns 1 i) u = (2 / (nth (S i) ns 0 - nth i ns 0))%R.
Proof. exact (linear_grid_lebesgue ns i u). Qed.
Print Assumptions C19_linear_grid_lebesgue.
Theorem C19_linear_grid_error_sup ns f M h t : sorted ns -> 1 < length ns ->
  (forall w, (nth 0 ns 0 <= w <= nth (length ns - 1) ns 0)%R -> forall k, k <= 2 -> ex_derive_n f k w) ->
  (forall w, (nth 0 ns 0 < w < nth (length ns - 1) ns 0)%R -> (Rabs (Derive_n f 2 w) <= M)%R) ->
  (forall i, i + 1 < length ns -> (nth (S i) ns 0 - nth i ns 0 <= h)%R) ->
  (nth 0 ns 0 <= t <= nth (length ns - 1) ns 0)%R ->
  (Rabs (Iglobal ns 1 f t - f t) <= M * h ^ 2)%R.
Proof. exact (linear_grid_error_sup ns f M h t). Qed.
Print Assumptions C19_linear_grid_error_sup.
Theorem C19_linear_grid_error_lipschitz ns f M h hmin : sorted ns -> 1 < length ns -> (0 < hmin)%R ->
  (forall w, (nth 0 ns 0 <= w <= nth (length ns - 1) ns 0)%R -> forall k, k <= 2 -> ex_derive_n f k w) ->
  (forall w, (nth 0 ns 0 < w < nth (length ns - 1) ns 0)%R -> (Rabs (Derive_n f 2 w) <= M)%R) ->
  (forall i, i + 1 < length ns -> (hmin <= nth (S i) ns 0 - nth i ns 0 <= h)%R) ->
  forall u v, (nth 0 ns 0 <= u <= nth (length ns - 1) ns 0)%R -> (nth 0 ns 0 <= v <= nth (length ns - 1) ns 0)%R ->
  (Rabs ((Iglobal ns 1 f u - f u) - (Iglobal ns 1 f v - f v)) <= (2 / hmin * (M * h ^ 2 / INR (fact 2)) + M * h ^ 1 / INR (fact 1)) * Rabs (u - v))%R.
Proof. exact (linear_grid_error_lipschitz ns f M h hmin). Qed.
Print Assumptions C19_linear_grid_error_lipschitz.
Theorem C19_prediction_error_linear_grid (k : rsl) ns f M h hmin x W Ws v w : sorted ns -> 1 < length ns -> (0 < hmin)%R ->
  (nth 0 ns 0 <= x)%R -> (0 < x < 1)%R -> nth (length ns - 1) ns 0%R = 1%R ->
  (forall u, (nth 0 ns 0 <= u <= 1)%R -> forall j, j <= 2 -> ex_derive_n f j u) ->
  (forall u, (nth 0 ns 0 < u < 1)%R -> (Rabs (Derive_n f 2 u) <= M)%R) ->
  (forall i, i + 1 < length ns -> (hmin <= nth (S i) ns 0 - nth i ns 0 <= h)%R) ->
  is_conv k (Iglobal ns 1 f) x v -> is_conv k f x w ->
  is_RInt_gen (fun z => (Rabs (r_reg k z) / z)%R) (at_point x) (at_left 1) W ->
  is_RInt_gen (fun z => (Rabs (r_sing k z) * ((1 - z) / (z * z)))%R) (at_point x) (at_left 1) Ws ->
  (Rabs (v - w) <= (W + Rabs (r_loc k x)) * ((1 + 1) * (M * h ^ 2 / INR (fact 2)))
                  + Ws * ((2 / hmin * (M * h ^ 2 / INR (fact 2)) + M * h ^ 1 / INR (fact 1)) * x + (1 + 1) * (M * h ^ 2 / INR (fact 2))))%R.
Proof. exact (prediction_error_linear_grid k ns f M h hmin x W Ws v w). Qed.
Print Assumptions C19_prediction_error_linear_grid.
(* quadratic interpolation on an equally spaced block (a logarithmic grid in its interpolation variable): Lam = 5/4 for any origin and spacing *)
Theorem C19_uniform_quadratic_lebesgue a s tau : (0 < s)%R -> (0 <= tau <= 2)%R -> (lebesgue [a; a + s; a + 2 * s]%R (a + s * tau)%R <= 5 / 4)%R.
Proof. exact (uniform_quadratic_lebesgue a s tau). Qed.
Print Assumptions C19_uniform_quadratic_lebesgue.
Theorem C19_uniform_quadratic_lebesgue1 a s tau : (0 < s)%R -> (0 <= tau <= 2)%R -> (lebesgue1 [a; a + s; a + 2 * s]%R (a + s * tau)%R <= 5 / s)%R.
Proof. exact (uniform_quadratic_lebesgue1 a s tau). Qed.
Print Assumptions C19_uniform_quadratic_lebesgue1.
Theorem C19_uniform_quadratic_error a s f M tau : (0 < s)%R -> (0 <= tau <= 2)%R ->
  (forall u, (a <= u <= a + 2 * s)%R -> forall k, k <= 3 -> ex_derive_n f k u) ->
  (forall u, (a < u < a + 2 * s)%R -> (Rabs (Derive_n f 3 u) <= M)%R) ->
  (Rabs (interp [a; a + s; a + 2 * s]%R f (a + s * tau) - f (a + s * tau)) <= (1 + 5 / 4) * (M * (a + 2 * s - a) ^ 3 / INR (fact 3)))%R.
Proof. exact (uniform_quadratic_error a s f M tau). Qed.
Print Assumptions C19_uniform_quadratic_error.
(* refinement of linear grids converges uniformly; the mesh width is explicit in the proof: min(1, eps/(M+1)) *)
Theorem C19_linear_grid_converges f M eps : (0 <= M)%R -> (0 < eps)%R -> exists delta, (0 < delta)%R /\
  forall ns t, sorted ns -> 1 < length ns ->
  (forall w, (nth 0 ns 0 <= w <= nth (length ns - 1) ns 0)%R -> forall k, k <= 2 -> ex_derive_n f k w) ->
  (forall w, (nth 0 ns 0 < w < nth (length ns - 1) ns 0)%R -> (Rabs (Derive_n f 2 w) <= M)%R) ->
  (forall i, i + 1 < length ns -> (nth (S i) ns 0 - nth i ns 0 <= delta)%R) ->
  (nth 0 ns 0 <= t <= nth (length ns - 1) ns 0)%R -> (Rabs (Iglobal ns 1 f t - f t) <= eps)%R.
Proof. exact (linear_grid_converges f M eps). Qed.
Print Assumptions C19_linear_grid_converges.
Example C19_linear_grid_example t : (1 / 4 <= t <= 1)%R -> (Rabs (Iglobal gex 1 exp t - exp t) <= 3 * (1 / 2) ^ 2)%R.
Proof. exact (linear_grid_example t). Qed.

(* non-vacuity of the hypotheses of the whole-grid theorems: the grid [1/4; 1/2; 1], linear interpolation, f = exp, h = 1/2, M = 3, Lam = 1, Lam1 = 8 *)
Example C19_grid_hypotheses_example :
  sorted gex /\ 1 <= 1 <= 4 /\ 1 < length gex /\ nth (length gex - 1) gex 0%R = 1%R /\
  (forall u, (nth 0 gex 0 <= u <= 1)%R -> forall j, j <= 2 -> ex_derive_n exp j u) /\
  (forall u, (nth 0 gex 0 < u < 1)%R -> (Rabs (Derive_n exp 2 u) <= 3)%R) /\
  (forall i, i + 1 < length gex ->
     (nth (snd (block (length gex) 1 i)) gex 0 - nth (fst (block (length gex) 1 i)) gex 0 <= 1 / 2)%R /\
     forall u, (nth (fst (block (length gex) 1 i)) gex 0 <= u <= nth (snd (block (length gex) 1 i)) gex 0)%R ->
       (lebesgue (@block_nodes RFld gex 1 i) u <= 1)%R /\ (lebesgue1 (@block_nodes RFld gex 1 i) u <= 8)%R).
Proof. exact grid_hypotheses_hold. Qed.
(* non-vacuity of the smoothness hypotheses: exp on three nodes *)
Example C19_error_example t : (0 <= t <= 1)%R ->
  (Rabs (interp [0; 1 / 2; 1]%R exp t - exp t) <= (1 + lebesgue [0; 1 / 2; 1]%R t) * (3 * (1 - 0) ^ 3 / INR (fact 3)))%R.
Proof. exact (interp_error_exp t). Qed.
