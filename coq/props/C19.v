(* C19 — predictions are stable under refinement of the interpolation grid / raising the degree; a requested x on a grid
   node gives the same value as an infinitesimally displaced x.
   Model: theories/Interp.v (eko's piecewise Lagrange basis with its block rule), tied by tools/corr/interp.py.
   Proved: the algebraic core (exactness on polynomials up to the degree on every area of every grid, partition of unity,
   continuity of every basis function at every node, Kronecker property).  The analytic statement (error O(h^(d+1)) for a
   smooth PDF through the convolution integral) is NOT proved; it is explored on real runs by tools/props/C19.py. *)
From Coq Require Import ZArith List Bool Arith.
From Yad Require Import Base Interp InterpTheorems.
Import ListNotations.

(* any polynomial of degree <= d in the interpolation variable is reproduced exactly by the d+1 nodes of the block of
   ANY area of ANY grid (degrees 1..4): two grids, or two degrees, give identical interpolants for such a function *)
Theorem C19_exact_on_polynomials (fld : Fld) ns d i k t : alldiff ns -> 1 <= d <= 4 -> d < length ns -> i + 1 < length ns -> k <= d ->
  interp_pow (block_nodes ns d i) k t = fpow t k.
Proof. exact (@area_reproduces fld ns d i k t). Qed.
Print Assumptions C19_exact_on_polynomials.
Theorem C19_partition_of_unity (fld : Fld) vs t : alldiff vs -> 2 <= length vs <= 5 -> interp_pow vs 0 t = f1.
Proof. exact (@lagrange_partition_of_unity fld vs t). Qed.
Print Assumptions C19_partition_of_unity.
(* the two polynomial pieces of p_j that meet at an inner node agree there (= delta_j,node): p_j is continuous at the
   nodes, so x on a node and x next to it see the same basis values in the limit *)
Theorem C19_continuous_at_nodes (fld : Fld) ns d i j : alldiff ns -> 1 <= d -> d < length ns -> i + 2 < length ns ->
  area_poly ns d i j (nth (S i) ns f0) = area_poly ns d (S i) j (nth (S i) ns f0)
  /\ area_poly ns d i j (nth (S i) ns f0) = if Nat.eqb (S i) j then f1 else f0.
Proof. exact (@basis_continuous_at_nodes fld ns d i j). Qed.
Print Assumptions C19_continuous_at_nodes.
Theorem C19_kronecker (fld : Fld) vs j m : alldiff vs -> j < length vs -> m < length vs ->
  lagv vs (nth j vs f0) j 0 (nth m vs f0) = if Nat.eqb m j then f1 else f0.
Proof. exact (@lagrange_kronecker fld vs j m). Qed.
Print Assumptions C19_kronecker.
(* non-vacuity: a concrete grid meets the hypotheses *)
Example C19_grid_example : @alldiff QcFld [qc 1 8; qc 1 4; qc 1 2; qc 3 4; qc 1 1] /\ 4 < 5.
Proof. cbn [alldiff]. repeat split; try (repeat constructor; repeat split; discriminate). Qed.
