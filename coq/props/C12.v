(* C12 — a nuclear target is an isospin rotation of up and down. *)
From Coq Require Import ZArith List Bool String.
From Yad Require Import Base Couplings Weights Combiner CombTheorems TargetSpec.
From YadGen Require Import Tables.
Import ListNotations.
Local Open Scope F_scope.

(* contracting the rotated parton map of a kernel with any PDF vector f equals contracting the proton map
   with the PDFs  d -> (Z d + (A-Z) u)/A,  u -> (Z u + (A-Z) d)/A  (same for antiquarks); any Z, A <> 0 *)
Theorem C12_isospin_contract (fld : Fld) z a m f : a <> f0 ->
  contract (iso_partons z a m) f = contract m (rot z a f).
Proof. exact (@isospin_contract fld z a m f). Qed.
Print Assumptions C12_isospin_contract.

(* every kernel is rotated exactly once and nothing else of it changes *)
Theorem C12_every_kernel_rotated (fld : Fld) z a ks :
  map atom_of (apply_isospin z a ks) = map atom_of ks
  /\ map (@k_partons fld) (apply_isospin z a ks) = map (fun k => iso_partons z a (k_partons k)) ks.
Proof. exact (@apply_isospin_spec fld z a ks). Qed.
Print Assumptions C12_every_kernel_rotated.

Theorem C12_neutron_is_swap (fld : Fld) m p : f1 <> f0 ->
  pget (iso_partons f0 f1 m) p =
    if (p =? 1)%Z then pget m 2 else if (p =? 2)%Z then pget m 1
    else if (p =? -1)%Z then pget m (-2) else if (p =? -2)%Z then pget m (-1) else pget m p.
Proof. exact (@neutron_is_swap fld m p). Qed.
Print Assumptions C12_neutron_is_swap.

Theorem C12_proton_is_identity (fld : Fld) m p : f1 <> f0 -> pget (iso_partons f1 f1 m) p = pget m p.
Proof. exact (@proton_is_identity fld m p). Qed.
Print Assumptions C12_proton_is_identity.

(* the table of named targets, regenerated from input/compatibility.py on every run, is the documented one *)
Theorem C12_target_table : tables_agree target_table documented_targets = true /\ unknown_target_rejected = true.
Proof. split; vm_compute; reflexivity. Qed.
Print Assumptions C12_target_table.
