(* C03 — every coefficient / splitting kernel is one well-defined distribution.
   This file holds the theorems that are independent of the source text; the per-site obligations are regenerated
   from /repo on every run into gen/ob/WF_*.v and LC_*.v (one theorem per distinct (singular, local) pair) and are
   checked by ./check C03. *)
From Coq Require Import Reals List Lra.
From Coquelicot Require Import Coquelicot.
From Yad Require Import Expr KTactics Distr SpecialR.
Import ListNotations.
Open Scope R_scope.

(* every RSL.from_distr_coeffs site, ANY coefficient list: loc' = - sing on x < 1, loc(0) = delta, and so
   loc(x) = delta - int_0^x sing *)
Theorem C03_distr_coeffs_wf d c x : x < 1 ->
  is_derive (loc_from_distr_coeffs (d :: c)) x (- sing_from_distr_coeffs c x).
Proof. exact (distr_coeffs_wf d c x). Qed.
Print Assumptions C03_distr_coeffs_wf.
Theorem C03_distr_coeffs_integral d c x : 0 <= x < 1 ->
  loc_from_distr_coeffs (d :: c) x = d - RInt (sing_from_distr_coeffs c) 0 x.
Proof. exact (distr_coeffs_integral d c x). Qed.
Print Assumptions C03_distr_coeffs_integral.
(* every RSL.from_delta site *)
Theorem C03_delta_wf c x x' : loc_from_delta c x = loc_from_delta c x'.
Proof. exact (delta_wf c x x'). Qed.
Print Assumptions C03_delta_wf.

(* a local part without singular part must be a constant: decided syntactically on the regenerated term *)
Theorem C03_no_z_is_constant sp e a x x' : no_z e = true -> eval sp e x a = eval sp e x' a.
Proof. exact (no_z_constant sp e a x x'). Qed.
Print Assumptions C03_no_z_is_constant.

(* the hypotheses made on the dilogarithm by the generated obligations are satisfiable *)
Theorem C03_special_satisfiable : special_ok special_R.
Proof. exact special_R_ok. Qed.
Print Assumptions C03_special_satisfiable.
