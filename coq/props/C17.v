(* C17 — applying a PDF contracts the operator with the right scales and couplings. *)
From Coq Require Import ZArith List Bool String QArith Permutation.
From Yad Require Import Base Result ResTheorems Thresholds ThreshTheorems CorrResult.
Import ListNotations.
Local Open Scope F_scope.

Theorem C17_formula (fld : Fld) orders pdfs a_s aqed LR LF :
  apply_pdf orders pdfs a_s aqed LR LF
  = fsum (map (fun kt => prefactor a_s aqed LR LF (fst kt) * contract2 (snd kt) pdfs) orders).
Proof. exact (@apply_pdf_formula fld orders pdfs a_s aqed LR LF). Qed.
Print Assumptions C17_formula.

Theorem C17_prefactor (fld : Fld) a_s aqed LR LF o0 o1 o2 o3 : (0 <= o2)%Z -> (0 <= o3)%Z ->
  prefactor a_s aqed LR LF (o0, o1, o2, o3)
  = fpow a_s (Z.to_nat o0) * fpow aqed (Z.to_nat o1) * fpow LR (Z.to_nat o2) * fpow LF (Z.to_nat o3).
Proof. exact (@prefactor_monomial fld a_s aqed LR LF o0 o1 o2 o3). Qed.
Print Assumptions C17_prefactor.

Theorem C17_linear (fld : Fld) orders f g c a_s aqed LR LF :
  apply_pdf orders (padd f (pscal c g)) a_s aqed LR LF
  = apply_pdf orders f a_s aqed LR LF + c * apply_pdf orders g a_s aqed LR LF.
Proof. exact (@apply_pdf_linear fld orders f g c a_s aqed LR LF). Qed.
Print Assumptions C17_linear.

Theorem C17_missing_flavour_ignored (fld : Fld) t (f : nat -> nat -> F) i0 :
  (forall j, f i0 j = f0) -> contract2 (zero_row t i0) f = contract2 t f.
Proof. exact (@missing_flavour_ignored fld t f i0). Qed.
Print Assumptions C17_missing_flavour_ignored.

Theorem C17_key_order_irrelevant (fld : Fld) orders orders' pdfs a_s aqed LR LF : Permutation orders orders' ->
  apply_pdf orders pdfs a_s aqed LR LF = apply_pdf orders' pdfs a_s aqed LR LF.
Proof. exact (@key_order_irrelevant fld orders orders' pdfs a_s aqed LR LF). Qed.
Print Assumptions C17_key_order_irrelevant.

(* which number of flavours the strong coupling is evaluated with: NfFF in fixed-flavour schemes,
   3 + #{quarks with (m k)^2 <= muR^2} in the ZM-VFNS (sorted matching scales), rejected otherwise *)
Theorem C17_alphas_fixed_flavour nfff wc wb wt mu2 :
  alphas_nf "FFNS" nfff wc wb wt mu2 = Some nfff /\ alphas_nf "FFN0" nfff wc wb wt mu2 = Some nfff
  /\ alphas_nf "FONLL-FFNS" nfff wc wb wt mu2 = Some nfff /\ alphas_nf "FONLL-FFN0" nfff wc wb wt mu2 = Some nfff.
Proof. repeat split; reflexivity. Qed.
Print Assumptions C17_alphas_fixed_flavour.
Theorem C17_alphas_zm nfff wc wb wt mu2 : (0 <= mu2)%Q -> sorted (atlas_walls wc wb wt) = true ->
  alphas_nf "ZM-VFNS" nfff wc wb wt mu2 = Some (3 + Z.of_nat (active_heavy mu2 wc wb wt))%Z.
Proof.
  intros H Hs. unfold alphas_nf. cbn -[nf_default_opt]. unfold nf_default_opt. rewrite Hs.
  rewrite nf_default_count by exact H. reflexivity.
Qed.
Print Assumptions C17_alphas_zm.
