(* C18 — compiled kernels: no read outside the argument vector (the memory-safety half; numerical agreement of
   the JIT with the interpreter is sampled by tools/corr/jit.py and is not a theorem). *)
From Coq Require Import List String Bool Reals.
From Yad Require Import Expr Sites KernelTable.
From YadGen Require Import Kernels SiteTable.
Import ListNotations.

(* every part of every RSL construction in the source tree that is a translated kernel is handed at least as
   many arguments as the largest args[i] it (or any kernel it calls) reads — regenerated table, decided by computation *)
Theorem C18_no_out_of_bounds_site : out_of_bounds_sites site_table = [].
Proof. vm_compute. reflexivity. Qed.
Print Assumptions C18_no_out_of_bounds_site.

(* what that means: for every z and every argument vector of the handed length the evaluation reads no index
   outside it (eval_safe returns the value); and a part that fails the test reads out of bounds for every input *)
Theorem C18_in_bounds_is_safe sp e n z (a : list R) :
  part_in_bounds (PKernel e (Some n)) = true -> List.length a = n -> eval_safe sp e z a = Some (eval sp e z a).
Proof. exact (part_in_bounds_safe sp e n z a). Qed.
Print Assumptions C18_in_bounds_is_safe.
Theorem C18_out_of_bounds_is_unsafe sp e n z (a : list R) :
  part_in_bounds (PKernel e (Some n)) = false -> List.length a = n -> eval_safe sp e z a = None.
Proof. exact (part_out_of_bounds_unsafe sp e n z a). Qed.
Print Assumptions C18_out_of_bounds_is_unsafe.

(* the statement covers every njit function except the five deliberately modelled by hand *)
Theorem C18_translator_coverage : unexpected_opaque kernel_table = [].
Proof. vm_compute. reflexivity. Qed.
Print Assumptions C18_translator_coverage.
