(* C11 — cross sections are the documented combinations of structure functions. *)
From Coq Require Import ZArith List Bool String.
From Yad Require Import Base Result XS ResTheorems.
Import ListNotations.
Local Open Scope F_scope.

(* every entry of every order key of a cross section (incl. 2xF1, 2xg5) is c1*F2 + c2*FL + c3*xF3 of the three
   structure-function results handed to it (same heavyness and kinematics: checked by correspondence),
   whether or not the third one was requested *)
Theorem C11_xs_is_combination (fld : Fld) c1 c2 c3 r1 r2 r3 k :
  rval (xs_result (c1, c2, c3) r1 r2 r3) k = c1 * rval r1 k + c2 * rval r2 k + c3 * rval r3 k.
Proof. exact (@xs_is_combination fld c1 c2 c3 r1 r2 r3 k). Qed.
Print Assumptions C11_xs_is_combination.

(* the coefficients are the documented ones, (N, -N yL/y+, s N y-/y+) with N, y+, y-, yL per kind and
   s = -1 iff the projectile pid is negative; all ten kinds; any x, y, Q2, GF, MW2, hadron mass *)
Theorem C11_coefficients_documented (fld : Fld) : f1 + f1 <> f0 ->
  forall k y x Q2 p,
  ypl y <> f0 -> Q2 <> f0 -> p_M2W p <> f0 -> p_pi p <> f0 -> x <> f0 -> fz 100 <> f0 ->
  p_M2W p + Q2 <> f0 ->
  ypl y * Q2 - (f1 + f1) * ((x * y * p_mn p) * (x * y * p_mn p)) <> f0 ->
  (y * y + (f1 - y) * (f1 + f1)) * Q2 - (p_mn p * x * y) * (p_mn p * x * y) * (f1 + f1) <> f0 ->
  xs_coeffs k y x Q2 p = spec_coeffs (spec_of k y x Q2 p) (lepton_sign p).
Proof. exact (@xs_coeffs_documented fld). Qed.
Print Assumptions C11_coefficients_documented.

(* the ESFResult arithmetic the combination is built with is entry-wise linear *)
Theorem C11_add (fld : Fld) a b k : rval (radd a b) k = rval a k + rval b k.
Proof. exact (@rval_radd fld a b k). Qed.
Print Assumptions C11_add.
Theorem C11_mul (fld : Fld) c a k : rval (rmul c a) k = c * rval a k.
Proof. exact (@rval_rmul fld c a k). Qed.
Print Assumptions C11_mul.
Theorem C11_sub (fld : Fld) a b k : rval (rsub a b) k = rval a k - rval b k.
Proof. exact (@rval_rsub fld a b k). Qed.
Print Assumptions C11_sub.
