(* C14 — results are independent of the request history and of the cache state. *)
From Coq Require Import ZArith List Bool String QArith.
From Yad Require Import Cache CacheTheorems.
Import ListNotations.

(* whatever sequence of requests and cache drops came before (loads of any list of points in any order, with
   duplicates, raw and TMC-corrected requests, either dict key order), a request is served with an object that
   was created for the same kinematic point and the same TMC flag — for the cache keyed by field name *)
Theorem C14_history_independent tmc_on ops c : Inv c -> Forall wf_op ops ->
  Forall2 (served_right tmc_on) ops (run true tmc_on c ops).
Proof. exact (history_independent tmc_on ops c). Qed.
Print Assumptions C14_history_independent.
Theorem C14_initial_state : Inv [].
Proof. exact empty_cache_inv. Qed.
Print Assumptions C14_initial_state.

(* the induction rests on: equal keys denote the same point *)
Theorem C14_key_injective k1 k2 f1 f2 : NoDup (map fst k1) -> NoDup (map fst k2) ->
  key_eqb (cache_key true k1 f1) (cache_key true k2 f2) = true -> same_point k1 k2 /\ f1 = f2.
Proof. exact (by_name_key_injective k1 k2 f1 f2). Qed.
Print Assumptions C14_key_injective.

(* a key made of the dict's values in insertion order (the pinned tree) does NOT have that property: the
   request {Q2: 1/2, x: 7/10} after {x: 1/2, Q2: 7/10} is served with the object of the first *)
Theorem C14_positional_key_refuted :
  cache_key false kA true = cache_key false kB true /\ ~ same_point kA kB
  /\ run false false [] [Get kA true; Get kB true]
     = [Some ({| o_kin := kA; o_tmc := false |}, false); Some ({| o_kin := kA; o_tmc := false |}, true)].
Proof. exact positional_key_refuted. Qed.
Print Assumptions C14_positional_key_refuted.

(* non-vacuity: a history with a hit, a drop and a re-creation satisfies the hypotheses *)
Example C14_nonvacuous :
  Forall wf_op [Get kA true; Get kA true; Drop; Get kB false]
  /\ run true true [] [Get kA true; Get kA true; Drop; Get kB false]
     = [Some ({| o_kin := kA; o_tmc := false |}, false); Some ({| o_kin := kA; o_tmc := false |}, true); None;
        Some ({| o_kin := kB; o_tmc := true |}, false)].
Proof.
  split; [|reflexivity]. repeat constructor; cbn; intuition discriminate.
Qed.

(* ---- the listing order: Runner.get_result evaluates the points of an observable in the order of a stable sort by Q2 (dropping
   the caches when Q2 changes) and stores each result in the slot of its own request: for ANY list of Q2 values the output is in
   the order of the request, and every request is evaluated exactly once.  Model: RunnerOrder.v, tied by tools/corr/runnerorder.py *)
From Yad Require Import RunnerOrder RunnerOrderTheorems.
From Coq Require Import Permutation.
Theorem C14_results_in_request_order (A : Type) (vals : nat -> A) (q2s : list Qcanon.Qc) :
  results vals q2s = map (fun i => Some (vals i)) (seq 0 (List.length q2s)).
Proof. exact (results_in_request_order vals q2s). Qed.
Print Assumptions C14_results_in_request_order.
Theorem C14_every_request_once (q2s : list Qcanon.Qc) : Permutation (evals (plan q2s)) (seq 0 (List.length q2s)).
Proof. exact (every_request_once q2s). Qed.
Print Assumptions C14_every_request_once.

