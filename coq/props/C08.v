(* C08 — FFN0 is the high-virtuality limit of the massive (FFNS) calculation.
   STRUCTURAL HALF, proved on the Weights/Combiner model (tied by tools/corr/wlayer.py on the real Combiner): every
   asymptotic kernel of a heavy quark is built with the parton weights, the nf and the heavy-quark mass of its massive
   counterpart — for any couplings, any nf, any heavy quark, any perturbative order.
   ANALYTIC HALF (the asymptotic coefficient function is the limit of the massive one): see the generated obligations
   named in tools/props/C08.py; the massive NC coefficients live in LeProHQ (third party, not modelled) and are compared
   on real runs only. *)
From Coq Require Import ZArith List Bool String.
From Yad Require Import Base Couplings Weights Combiner FFN0Theorems.
Import ListNotations.

Theorem C08_heavy_pairing_cc (fld : Fld) gw prc rest inv k nf pto ihq ks ks' : prc = CC ->
  heavy_generate gw prc rest inv k nf ihq = Ok ks -> heavy_asy gw prc rest inv k nf pto ihq = Ok ks' ->
  map wsig ks = map wsig ks'.
Proof. exact (@heavy_pairing_cc fld gw prc rest inv k nf pto ihq ks ks'). Qed.
Print Assumptions C08_heavy_pairing_cc.
Theorem C08_heavy_pairing_nc (fld : Fld) gw prc rest inv k nf pto ihq ks ks' : prc <> CC -> is_pv k = false ->
  heavy_generate gw prc rest inv k nf ihq = Ok ks -> heavy_asy gw prc rest inv k nf pto ihq = Ok ks' ->
  forall s, In s (map wsig ks) <-> In s (map wsig ks').
Proof. exact (@heavy_pairing_nc fld gw prc rest inv k nf pto ihq ks ks'). Qed.
Print Assumptions C08_heavy_pairing_nc.
Theorem C08_intrinsic_pairing (fld : Fld) gw prc rest inv k nf pto ihq ks ks' :
  intrinsic_generate gw prc rest inv k ihq = Ok ks -> intrinsic_asy gw prc rest inv k nf pto ihq = Ok ks' ->
  exists kp rest_ks, ks = kp :: rest_ks /\
    forall x, In x ks' -> k_partons x = k_partons kp /\ k_ihq x = k_ihq kp /\ k_ihq x = ihq.
Proof. exact (@intrinsic_pairing fld gw prc rest inv k nf pto ihq ks ks'). Qed.
Print Assumptions C08_intrinsic_pairing.
Theorem C08_missing_pairing (fld : Fld) gw prc inv k nf pto ihq ks ks' :
  missing gw prc inv k nf ihq = Ok ks -> missing_asy gw prc inv k nf ihq pto = Ok ks' ->
  forall x, In x ks' -> exists y, In y ks /\ wsig x = wsig y.
Proof. exact (@missing_pairing fld gw prc inv k nf pto ihq ks ks'). Qed.
Print Assumptions C08_missing_pairing.
