(* C08 — FFN0 is the high-virtuality limit of the massive (FFNS) calculation.
   STRUCTURAL HALF, proved on the Weights/Combiner model (tied by tools/corr/wlayer.py on the real Combiner): every
   asymptotic kernel of a heavy quark is built with the parton weights, the nf and the heavy-quark mass of its massive
   counterpart — for any couplings, any nf, any heavy quark, any perturbative order.
   ANALYTIC HALF (the asymptotic coefficient function is the limit of the massive one): proved below for the NLO gluon
   channel of charged-current F2, FL, F3 on the closures regenerated from the source (tools/pyinst.py), with the explicit
   remainder (1 - lambda)(A(z) + B |ln(1 - lambda)|), 1 - lambda = m2/(Q2 + m2).  NOT proved: the quark channels (plus
   distributions with a lambda-dependent singular part) and everything neutral-current (LeProHQ, third party): those are
   compared on real runs only. *)
From Coq Require Import Reals ZArith List Bool String.
From Yad Require Import Base Couplings Weights Combiner FFN0Theorems Expr KTactics SpecNLO Conv ConvGen GluonLimit QuarkLimit QuarkNLOLimit QuarkNLOInt GluonInt QuarkNLOInt2 SpecialRefl.
From YadGen Require Import InstKernels Kernels.
Import ListNotations.

Theorem C08_heavy_pairing_cc (fld : Fld) gw prc rest inv k nf pto ihq ks ks' : prc = CC ->
  heavy_generate gw prc rest inv k nf ihq = Ok ks -> heavy_asy gw prc rest inv k nf pto ihq = Ok ks' ->
  map wsig ks = map wsig ks'.
Proof. exact (@heavy_pairing_cc fld gw prc rest inv k nf pto ihq ks ks'). Qed.
Print Assumptions C08_heavy_pairing_cc.
Theorem C08_heavy_pairing_nc (fld : Fld) gw prc rest inv k nf pto ihq ks ks' : prc <> CC -> is_pv k = false ->
  heavy_generate gw prc rest inv k nf ihq = Ok ks -> heavy_asy gw prc rest inv k nf pto ihq = Ok ks' ->
  forall s, In s (map wsig ks) <-> In s (map wsig ks').
Proof. exact (@heavy_pairing_nc fld gw prc rest inv k nf pto ihq ks ks'). Qed.
Print Assumptions C08_heavy_pairing_nc.
Theorem C08_intrinsic_pairing (fld : Fld) gw prc rest inv k nf pto ihq ks ks' :
  intrinsic_generate gw prc rest inv k ihq = Ok ks -> intrinsic_asy gw prc rest inv k nf pto ihq = Ok ks' ->
  exists kp rest_ks, ks = kp :: rest_ks /\
    forall x, In x ks' -> k_partons x = k_partons kp /\ k_ihq x = k_ihq kp /\ k_ihq x = ihq.
Proof. exact (@intrinsic_pairing fld gw prc rest inv k nf pto ihq ks ks'). Qed.
Print Assumptions C08_intrinsic_pairing.
Theorem C08_missing_pairing (fld : Fld) gw prc inv k nf pto ihq ks ks' :
  missing gw prc inv k nf ihq = Ok ks -> missing_asy gw prc inv k nf ihq pto = Ok ks' ->
  forall x, In x ks' -> exists y, In y ks /\ wsig x = wsig y.
Proof. exact (@missing_pairing fld gw prc inv k nf pto ihq ks ks'). Qed.
Print Assumptions C08_missing_pairing.

(* ---- analytic half, CC gluon channel at NLO.  args[0] of the massive kernel is lambda = 1/(1 + m2/Q2), args[0] of the
   asymptotic one is L = ln(Q2/m2) = ln(lambda/(1 - lambda)); z in (0,1), lambda in [1/2, 1) i.e. Q2 >= m2 *)
Open Scope R_scope.
Theorem C08_gluon_F2_limit sp z l : 0 < z < 1 -> 1 / 2 <= l < 1 ->
  Rabs (eval sp ik_heavy_f2_cc_Gluon_NLO_reg z [l] - eval sp ik_asy_f2_cc_AsyGluon_NLO_reg z [ln (l / (1 - l))])
  <= 2 * (1 - l) * (8 + / (1 - z) + 12 * (- ln (1 - z) - ln z) + 12 * (- ln (1 - l))).
Proof. exact (gluon_f2_limit sp z l). Qed.
Print Assumptions C08_gluon_F2_limit.
Theorem C08_gluon_FL_limit sp z l : 0 < z < 1 -> 1 / 2 <= l < 1 ->
  Rabs (eval sp ik_heavy_fl_cc_Gluon_NLO_reg z [l] - eval sp ik_asy_fl_cc_AsyGluon_NLO_reg z [ln (l / (1 - l))])
  <= 2 * (1 - l) * (3 + 9 * (- ln (1 - z) - ln z) + 9 * (- ln (1 - l))).
Proof. exact (gluon_fl_limit sp z l). Qed.
Print Assumptions C08_gluon_FL_limit.
Theorem C08_gluon_F3_limit sp z l : 0 < z < 1 -> 1 / 2 <= l < 1 ->
  Rabs (eval sp ik_heavy_f3_cc_Gluon_NLO_reg z [l] - eval sp ik_asy_f3_cc_AsyGluon_NLO_reg z [ln (l / (1 - l))])
  <= (1 - l) * (2 * / (1 - z) + 2 + 4 * (- ln (1 - z) - ln z) + 5 * (- ln (1 - l))).
Proof. exact (gluon_f3_limit sp z l). Qed.
Print Assumptions C08_gluon_F3_limit.

(* ---- analytic half, CC quark channel at LO ("slow rescaling"): for every bounded Lipschitz PDF f the massive contribution
   cp * loc(lambda) * f(cp), cp = x/lambda, tends to the asymptotic one x f(x) (F2, F3; FL has no LO term) like 1 - lambda.
   Convolution point and local coefficients are the regenerated expressions *)
Theorem C08_quark_LO_F2 (f : R -> R) (M L : R) : (forall u, Rabs (f u) <= M) -> (forall u v, Rabs (f u - f v) <= L * Rabs (u - v)) ->
  forall sp x l, 0 < x < 1 -> 1 / 2 <= l < 1 ->
  let cp := eval sp iv_heavy_f2_cc_NonSinglet_convolution_point x [l] in
  Rabs (cp * eval sp ik_heavy_f2_cc_NonSinglet_LO_loc cp [l] * f cp - x * eval sp ik_asy_f2_cc_AsyQuark_LO_loc x [ln (l / (1 - l))] * f x)
  <= (1 - l) * (2 * M + 2 * L).
Proof. exact (quark_lo_F2 f M L). Qed.
Print Assumptions C08_quark_LO_F2.
Theorem C08_quark_LO_FL (f : R -> R) (M : R) : (forall u, Rabs (f u) <= M) ->
  forall sp x l, 0 < x < 1 -> 1 / 2 <= l < 1 ->
  let cp := eval sp iv_heavy_fl_cc_NonSinglet_convolution_point x [l] in
  Rabs (cp * eval sp ik_heavy_fl_cc_NonSinglet_LO_loc cp [l] * f cp) <= (1 - l) * (2 * M).
Proof. exact (quark_lo_FL f M). Qed.
Print Assumptions C08_quark_LO_FL.
Theorem C08_quark_LO_F3 (f : R -> R) (L : R) : (forall u v, Rabs (f u - f v) <= L * Rabs (u - v)) ->
  forall sp x l, 0 < x < 1 -> 1 / 2 <= l < 1 ->
  let cp := eval sp iv_heavy_f3_cc_NonSinglet_convolution_point x [l] in
  Rabs (cp * eval sp ik_heavy_f3_cc_NonSinglet_LO_loc cp [l] * f cp - x * eval sp ik_asy_f3_cc_AsyQuark_LO_loc x [ln (l / (1 - l))] * f x)
  <= (1 - l) * (2 * L).
Proof. exact (quark_lo_F3 f L). Qed.
Print Assumptions C08_quark_LO_F3.

(* ---------------- the quark channel at NLO, POINTWISE in z (QuarkNLOLimit.v): for every fixed z in (0,1) the regular and the
   singular part of the massive coefficient function converge to those of the massless NLO quark coefficient function used by the
   asymptotic calculation (regular parts: the regenerated light/nlo kernels; singular parts: the (D0, D1) coefficients of SpecNLO, which C04
   proves equal to the code's), remainder (1-lambda) A(z).
   PARTIAL: A(z) grows like (1-z)^-3, so this is not yet the convergence of the plus distribution against a PDF; the local part
   (dilogarithms) is not covered. *)
Theorem C08_quark_NLO_F2_reg_partial sp z l : 0 < z < 1 -> 1 / 2 <= l < 1 ->
  Rabs (eval sp ik_heavy_f2_cc_NonSinglet_NLO_reg z [l] - eval sp k_light_nlo_f2_ns_reg z []) <= (1 - l) * (2 * CF * (4 + 5 / (1 - z))).
Proof. exact (quark_f2_reg_limit_gen sp z l). Qed.
Print Assumptions C08_quark_NLO_F2_reg_partial.
Theorem C08_quark_NLO_F2_sing_partial sp z l : 0 < z < 1 -> 1 / 2 <= l < 1 ->
  Rabs (eval sp ik_heavy_f2_cc_NonSinglet_NLO_sing z [l] - c2q1_sing z) <= (1 - l) * A2sing z.
Proof. exact (quark_f2_sing_limit sp z l). Qed.
Print Assumptions C08_quark_NLO_F2_sing_partial.
Theorem C08_quark_NLO_F3_reg_partial sp z l : 0 < z < 1 -> 1 / 2 <= l < 1 ->
  Rabs (eval sp ik_heavy_f3_cc_NonSinglet_NLO_reg z [l] - eval sp k_light_nlo_f3_ns_reg z [])
  <= (1 - l) * (2 * CF * (4 + 3 / (1 - z)) + Rabs (eval sp k_light_nlo_f3_ns_reg z [])).
Proof. exact (quark_f3_reg_limit_gen sp z l). Qed.
Print Assumptions C08_quark_NLO_F3_reg_partial.
Theorem C08_quark_NLO_F3_sing_partial sp z l : 0 < z < 1 -> 1 / 2 <= l < 1 ->
  Rabs (eval sp ik_heavy_f3_cc_NonSinglet_NLO_sing z [l] - c2q1_sing z) <= (1 - l) * (A2sing z + Rabs (c2q1_sing z)).
Proof. exact (quark_f3_sing_limit sp z l). Qed.
Print Assumptions C08_quark_NLO_F3_sing_partial.
Theorem C08_quark_NLO_FL_reg_partial sp z l : 0 < z < 1 -> 1 / 2 <= l < 1 ->
  Rabs (eval sp ik_heavy_fl_cc_NonSinglet_NLO_reg z [l] - eval sp k_light_nlo_fl_ns_reg z [])
  <= (1 - l) * (2 * CF * (5 + 2 / (1 - z) + 2 * (- ln z) / (1 - z) + 6 * (- ln (1 - z)))).
Proof. exact (quark_fl_reg_limit_gen sp z l). Qed.
Print Assumptions C08_quark_NLO_FL_reg_partial.
Theorem C08_quark_NLO_FL_sing_partial sp z l : 0 < z < 1 -> 1 / 2 <= l < 1 ->
  Rabs (eval sp ik_heavy_fl_cc_NonSinglet_NLO_sing z [l]) <= (1 - l) * (Rabs (c2q1_sing z) + A2sing z / 2).
Proof. exact (quark_fl_sing_limit sp z l). Qed.
Print Assumptions C08_quark_NLO_FL_sing_partial.

(* ---------------- the local part of the NLO quark channel: loc' = - sing on both sides (C03) turns the pointwise bound on the singular part
   into a bound on the local part at EVERY x in [0,1), once its value at x = 0 is known; that value is in closed form given Euler's
   reflection identity for the dilogarithm at lambda (hypothesis `reflection`; jointly satisfiable with special_ok: SpecialRefl.v; the
   implementation's dilogarithm is checked against it numerically on every run) *)
Theorem C08_quark_NLO_F2_loc sp l x : special_ok sp -> reflection sp l -> 1 / 2 <= l < 1 -> 0 <= x < 1 ->
  Rabs (eval sp ik_heavy_f2_cc_NonSinglet_NLO_loc x [l] - c2q1_loc x) <= (1 - l) * (2 * CF * (4 + 6 * (- ln (1 - l))) + A2sing x * x).
Proof. exact (quark_f2_loc_limit sp l x). Qed.
Print Assumptions C08_quark_NLO_F2_loc.
Theorem C08_quark_NLO_F3_loc sp l x : special_ok sp -> reflection sp l -> 1 / 2 <= l < 1 -> 0 <= x < 1 ->
  Rabs (eval sp ik_heavy_f3_cc_NonSinglet_NLO_loc x [l] - c2q1_loc x) <= (1 - l) * (2 * CF * (13 + 4 * (- ln (1 - l))) + (A2sing x + Bsing x) * x).
Proof. exact (quark_f3_loc_limit sp l x). Qed.
Print Assumptions C08_quark_NLO_F3_loc.
Theorem C08_quark_NLO_FL_loc sp l x : special_ok sp -> reflection sp l -> 1 / 2 <= l < 1 -> 0 <= x < 1 ->
  Rabs (eval sp ik_heavy_fl_cc_NonSinglet_NLO_loc x [l]) <= (1 - l) * (2 * CF * (13 + 6 * (- ln (1 - l))) + (Bsing x + A2sing x / 2) * x).
Proof. exact (quark_fl_loc_limit sp l x). Qed.
Print Assumptions C08_quark_NLO_FL_loc.
Theorem C08_dilogarithm_hypotheses_satisfiable : special_ok special_R2 /\ forall l, 0 < l < 1 -> reflection special_R2 l.
Proof. exact (conj special_R2_ok reflection_R2). Qed.
Print Assumptions C08_dilogarithm_hypotheses_satisfiable.

(* ---------------- the statement of C08 for the CC F2 quark channel at NLO, in full: for ANY PDF p bounded by G and Lipschitz with constant Lp
   on [x, 1], the massive contribution (improper convolution integral of the regenerated massive triple with p, value v) and the asymptotic one
   (the massless NLO quark coefficient function, value w) differ by at most K (1-l)(1 + |ln(1-l)|), 1 - l = m2/(Q2 + m2), K explicit.
   Hypotheses: the two dilogarithm facts above, and that the two improper integrals exist (is_conv). *)
Theorem C08_quark_NLO_F2_any_pdf sp l x p G Lp v w : special_ok sp -> reflection sp l -> 1 / 2 <= l < 1 -> 0 < x < 1 -> 0 <= Lp ->
  (forall u, x <= u <= 1 -> Rabs (p u) <= G) ->
  (forall u t, x <= u <= 1 -> x <= t <= 1 -> Rabs (p u - p t) <= Lp * Rabs (u - t)) ->
  is_conv (k_massive sp l) p x v -> is_conv k_massless p x w ->
  Rabs (v - w) <= (1 - l) * (1 + - ln (1 - l)) * Kconst x G Lp.
Proof. exact (quark_f2_distribution_rate sp l x p G Lp v w). Qed.
Print Assumptions C08_quark_NLO_F2_any_pdf.

(* the same for F3 and FL, and for the three gluon channels (regular part only; any bounded PDF) *)
Theorem C08_quark_NLO_F3_any_pdf sp l x p G Lp v w : special_ok sp -> reflection sp l -> 1 / 2 <= l < 1 -> 0 < x < 1 -> 0 <= Lp ->
  (forall u, x <= u <= 1 -> Rabs (p u) <= G) ->
  (forall u t, x <= u <= 1 -> x <= t <= 1 -> Rabs (p u - p t) <= Lp * Rabs (u - t)) ->
  is_conv (k_massive3 sp l) p x v -> is_conv k_massless3 p x w ->
  Rabs (v - w) <= (1 - l) * (1 + - ln (1 - l)) * Kconst3 x G Lp.
Proof. exact (quark_f3_distribution_rate sp l x p G Lp v w). Qed.
Print Assumptions C08_quark_NLO_F3_any_pdf.
Theorem C08_quark_NLO_FL_any_pdf sp l x p G Lp v w : special_ok sp -> reflection sp l -> 1 / 2 <= l < 1 -> 0 < x < 1 -> 0 <= Lp ->
  (forall u, x <= u <= 1 -> Rabs (p u) <= G) ->
  (forall u t, x <= u <= 1 -> x <= t <= 1 -> Rabs (p u - p t) <= Lp * Rabs (u - t)) ->
  is_conv (k_massiveL sp l) p x v -> is_conv k_masslessL p x w ->
  Rabs (v - w) <= (1 - l) * (1 + - ln (1 - l)) * KconstL x G Lp.
Proof. exact (quark_fl_distribution_rate sp l x p G Lp v w). Qed.
Print Assumptions C08_quark_NLO_FL_any_pdf.
Theorem C08_gluon_F2_any_pdf sp l x p G v w : 1 / 2 <= l < 1 -> 0 < x < 1 -> (forall u, x <= u <= 1 -> Rabs (p u) <= G) ->
  is_conv (reg_only (fun z => eval sp ik_heavy_f2_cc_Gluon_NLO_reg z [l])) p x v ->
  is_conv (reg_only (fun z => eval sp ik_asy_f2_cc_AsyGluon_NLO_reg z [Lq l])) p x w ->
  Rabs (v - w) <= (1 - l) * (1 + - ln (1 - l)) * (G / x * ((16 + 24 * - ln x) + 24 + 24 * (1 - ln (1 - x)) + 2 * 2 + 0 * (7 - ln (1 - x)))).
Proof. exact (gluon_f2_any_pdf sp l x p G v w). Qed.
Print Assumptions C08_gluon_F2_any_pdf.
Theorem C08_gluon_FL_any_pdf sp l x p G v w : 1 / 2 <= l < 1 -> 0 < x < 1 -> (forall u, x <= u <= 1 -> Rabs (p u) <= G) ->
  is_conv (reg_only (fun z => eval sp ik_heavy_fl_cc_Gluon_NLO_reg z [l])) p x v ->
  is_conv (reg_only (fun z => eval sp ik_asy_fl_cc_AsyGluon_NLO_reg z [Lq l])) p x w ->
  Rabs (v - w) <= (1 - l) * (1 + - ln (1 - l)) * (G / x * ((6 + 18 * - ln x) + 18 + 18 * (1 - ln (1 - x)) + 2 * 0 + 0 * (7 - ln (1 - x)))).
Proof. exact (gluon_fl_any_pdf sp l x p G v w). Qed.
Print Assumptions C08_gluon_FL_any_pdf.
Theorem C08_gluon_F3_any_pdf sp l x p G v w : 1 / 2 <= l < 1 -> 0 < x < 1 -> (forall u, x <= u <= 1 -> Rabs (p u) <= G) ->
  is_conv (reg_only (fun z => eval sp ik_heavy_f3_cc_Gluon_NLO_reg z [l])) p x v ->
  is_conv (reg_only (fun z => eval sp ik_asy_f3_cc_AsyGluon_NLO_reg z [Lq l])) p x w ->
  Rabs (v - w) <= (1 - l) * (1 + - ln (1 - l)) * (G / x * ((2 + 4 * - ln x) + 5 + 4 * (1 - ln (1 - x)) + 2 * 0 + 2 * (7 - ln (1 - x)))).
Proof. exact (gluon_f3_any_pdf sp l x p G v w). Qed.
Print Assumptions C08_gluon_F3_any_pdf.
