(* C16 — every documented configuration yields a finite result or a clear rejection.
   The per-kind exhaustive scans of the configuration lattice are generated into gen/oc/OC_<kind>.v
   (undocumented_crashes_kind inventory k = [], by vm_compute over the regenerated module/class inventory). *)
From Coq Require Import ZArith List Bool String.
From Yad Require Import Base Couplings Weights Combiner Thresholds Outcome.
Import ListNotations.

(* malformed kinematics are rejected before anything is looked up or computed, in every configuration *)
Theorem C16_bad_kinematics_rejected inv c : c_kin c <> KinOk -> exists w, run_outcome inv c = Rejected w.
Proof. intros H. unfold run_outcome. destruct (c_kin c); [congruence | | | |]; eexists; reflexivity. Qed.
Print Assumptions C16_bad_kinematics_rejected.

(* target-mass corrections for a kind without TMC formulas are rejected, not a failed look-up *)
Theorem C16_tmc_unavailable_rejected inv c : c_kin c = KinOk -> c_tmc c <> 0%Z -> tmc_available (c_kind c) = false ->
  exists w, run_outcome inv c = Rejected w.
Proof.
  intros Hk Ht Ha. unfold run_outcome. rewrite Hk, Ha. destruct (Z.eqb_spec (c_tmc c) 0); [congruence|]. eexists; reflexivity.
Qed.
Print Assumptions C16_tmc_unavailable_rejected.

(* the whole lattice is the union of the per-kind scans *)
Theorem C16_scan_decomposes inv :
  undocumented_crashes inv = flat_map (undocumented_crashes_kind inv) all_kinds.
Proof. reflexivity. Qed.
Print Assumptions C16_scan_decomposes.

(* the size of the lattice scanned: 6 kinds x 5 heavynesses x 3 processes x 5 schemes (FONLL x 3 parts) x NfFF 3..6 x PTO 0..3 x TMC off/on *)
Example C16_lattice_size : lattice_size = 25920%Z.
Proof. reflexivity. Qed.
