(* C01 — operator entries are x (here: the convolution point) times the Mellin convolution of the coefficient function
   (regular, plus-distribution and delta pieces) with the interpolation basis function; contracting with a PDF in the
   span of the basis reproduces the convolution with that PDF.
   Models: theories/Conv.v (real-number meaning of esf/conv.py::convolution, exact quadrature, eps = 0), theories/Interp.v
   (the basis), ScaleVar.v::tensor_at (the accumulation of compute_local).  Ties: tools/corr/interp.py (eko basis,
   convolution plan of the real function), tools/props/C01.py (entries of real runs against reference quadrature). *)
From Coq Require Import Reals ZArith List Bool Arith Lra.
From Coquelicot Require Import Coquelicot.
From Yad Require Import Base Interp InterpTheorems Conv ConvTheorems ConvGen ScaleVar CombTheorems.
Import ListNotations.

(* ---- the integral the code takes IS the convolution: cutting the range at x/a loses nothing ... *)
Theorem C01_truncation_exact k p a b x : (0 < x)%R -> (x < b)%R -> (0 < a <= 1)%R ->
  (forall u, (u < a)%R -> p u = 0%R) -> ex_RInt (integrand k p x) x (Rmin (x / a) 1) ->
  conv_code k p a b x = conv_spec k p x.
Proof. exact (truncation_exact k p a b x). Qed.
Print Assumptions C01_truncation_exact.
(* ... and the early return for a basis function whose support ends below x is exact too *)
Theorem C01_below_support k p a b x : (0 < x < 1)%R -> (b <= x)%R -> (forall u, (b < u)%R -> p u = 0%R) -> p x = 0%R ->
  conv_code k p a b x = 0%R /\ conv_spec k p x = 0%R.
Proof. exact (below_support_is_zero k p a b x). Qed.
Print Assumptions C01_below_support.
(* hence the entry of one partonic channel is weight * cp * (C (x) p_j)(cp), cp the scheme's convolution point *)
Theorem C01_entry w k p a b cp : (0 < cp)%R -> (cp < b)%R -> (0 < a <= 1)%R ->
  (forall u, (u < a)%R -> p u = 0%R) -> ex_RInt (integrand k p cp) cp (Rmin (cp / a) 1) ->
  Conv.entry w k p a b cp = (w * (cp * conv_spec k p cp))%R.
Proof. intros. unfold Conv.entry. rewrite truncation_exact by assumption. reflexivity. Qed.
Print Assumptions C01_entry.

(* ---- regular + plus-distribution + delta: with loc' = -sing (C03, proved per kernel site) the three-part sum is the
   distribution reg + [sing]_+ + loc(0) delta(1-z) *)
Theorem C01_plus_distribution k p x : (0 < x)%R ->
  (forall t, (0 <= t <= x)%R -> is_derive (r_loc k) t (- r_sing k t)%R) ->
  (forall t, (0 <= t <= x)%R -> continuous (r_sing k) t) ->
  conv_spec k p x = (RInt (integrand k p x) x 1 - p x * RInt (r_sing k) 0 x + r_loc k 0 * p x)%R.
Proof. exact (conv_is_plus_distribution k p x). Qed.
Print Assumptions C01_plus_distribution.
Theorem C01_delta_only k p x : (forall z, r_reg k z = 0%R) -> (forall z, r_sing k z = 0%R) -> conv_spec k p x = (p x * r_loc k x)%R.
Proof. exact (delta_only k p x). Qed.
Print Assumptions C01_delta_only.

(* ---- contraction with any PDF in the span of the basis: sum_j f_j (C (x) p_j)(x) = (C (x) sum_j f_j p_j)(x) *)
Theorem C01_contraction_with_pdf k fs x : List.Forall (fun cp => ex_RInt (integrand k (snd cp) x) x 1) fs ->
  fold_right (fun cp acc => (fst cp * conv_spec k (snd cp) x + acc)%R) 0%R fs = conv_spec k (span fs) x.
Proof. exact (contraction_with_pdf k fs x). Qed.
Print Assumptions C01_contraction_with_pdf.

(* ---- accumulation over the partonic channels (any number of kernels, any field): the tensor entry under a key is the
   sum over the kernels of partons[pid] * values[j] *)
Theorem C01_accumulation (fld : Fld) es1 es2 k i j :
  tensor_at (es1 ++ es2) k i j = (tensor_at es1 k i j + tensor_at es2 k i j)%F.
Proof.
  unfold tensor_at. rewrite map_app. apply fsum_app.
Qed.
Print Assumptions C01_accumulation.

(* ---------------- kernels that are unbounded at z = 1 (every coefficient function with ln^k(1-z)): the Riemann-integrability
   hypotheses above cannot be met when the basis function does not vanish at x; the integral is then the improper one and the same
   algebra holds for it (ConvGen.v) *)
Theorem C01_linear_improper k p q c e x v w : is_conv k p x v -> is_conv k q x w ->
  is_conv k (fun u => (c * p u + e * q u)%R) x (c * v + e * w)%R.
Proof. exact (conv_linear_gen k p q c e x v w). Qed.
Print Assumptions C01_linear_improper.
Theorem C01_contraction_with_pdf_improper k (fs : list (R * (R -> R))) (vs : list R) x :
  List.Forall2 (fun cp v => is_conv k (snd cp) x v) fs vs ->
  is_conv k (span fs) x (fold_right (fun cv acc => (fst (fst cv) * snd cv + acc)%R) 0%R (combine fs vs)).
Proof. exact (contraction_with_pdf_gen k fs vs x). Qed.
Print Assumptions C01_contraction_with_pdf_improper.
Theorem C01_value_unique_improper k p x v w : is_conv k p x v -> is_conv k p x w -> v = w.
Proof. exact (is_conv_unique k p x v w). Qed.
Print Assumptions C01_value_unique_improper.
(* where the proper integral exists and depends continuously on its upper limit, both notions give the same number *)
Theorem C01_proper_is_improper k p x : (x < 1)%R ->
  (forall b, (x <= b <= 1)%R -> ex_RInt (integrand k p x) x b) ->
  continuity_pt (fun b => RInt (integrand k p x) x b) 1 ->
  is_conv k p x (conv_spec k p x).
Proof. exact (proper_is_improper k p x). Qed.
Print Assumptions C01_proper_is_improper.
(* non-vacuity: the kernel ln(1-z) has an (improper) convolution *)
Example C01_log_kernel_example :
  is_conv {| r_reg := fun z => ln (1 - z); r_sing := fun _ => 0%R; r_loc := fun _ => 0%R |} (fun u => ((1 / 2) / u)%R) (1 / 2)%R (-1 - Fex (1 / 2))%R.
Proof. exact log_kernel_has_a_convolution. Qed.

Open Scope nat_scope.
(* ---- the basis: every area lies in its block; p_j is 1 at its node and 0 at the others (the LO entry is the
   Kronecker delta at grid nodes) *)
Theorem C01_block_contains_area n d i : 1 <= d -> d < n -> i + 1 < n ->
  let '(a, b) := block n d i in a <= i /\ i + 1 <= b /\ b < n /\ b = a + d.
Proof. exact (block_contains_area n d i). Qed.
Print Assumptions C01_block_contains_area.
Theorem C01_kronecker (fld : Fld) ns d i j m : alldiff ns -> 1 <= d -> d < length ns -> i + 1 < length ns ->
  in_block (length ns) d i m = true -> area_poly ns d i j (nth m ns f0) = if Nat.eqb m j then f1 else f0.
Proof. exact (@area_poly_kronecker fld ns d i j m). Qed.
Print Assumptions C01_kronecker.
