(* C20 — the runner leaves its inputs untouched and echoes them in the output. *)
From Coq Require Import ZArith List Bool String QArith.
From Yad Require Import Thresholds Compat CompatTheorems TargetSpec.
Import ListNotations.

(* frame property: a container that no write of the whole history targets is exactly what it was — the harness
   records every mutation of every caller-owned container (cards, nested kinematics lists and dicts) during
   Runner(...) and get_result(): the recorded set must be empty *)
Theorem C20_untouched_if_not_written ws h b : (forall w, In w ws -> waddr w <> b) -> hget (fold_left wapply ws h) b = hget h b.
Proof. exact (untouched_if_not_written ws h b). Qed.
Print Assumptions C20_untouched_if_not_written.

(* legacy-card upgrading is idempotent: piecewise for arbitrary cards ... *)
Theorem C20_scale_variation_defaults_idempotent t : upd_sv (upd_sv t) = upd_sv t.
Proof. exact (upd_sv_idempotent t). Qed.
Print Assumptions C20_scale_variation_defaults_idempotent.
Theorem C20_target_idempotent tbl o o' : update_obs tbl o = Some o' -> update_obs tbl o' = Some o'.
Proof. exact (update_obs_idempotent tbl o o'). Qed.
Print Assumptions C20_target_idempotent.
(* ... and for the whole theory upgrade on the complete enumeration of card shapes (6 scheme spellings x NfFF 3..6 x
   PTODIS absent/None/set x FONLLParts absent/None/set x RenScaleVar, FactScaleVar, alphaqed, QED absent/present = 3456 cards);
   update reads nothing else *)
Theorem C20_update_theory_idempotent : forallb idem_on shapes = true /\ List.length shapes = 3456%nat.
Proof. split; [exact update_theory_idempotent_on_shapes | exact shapes_count]. Qed.
Print Assumptions C20_update_theory_idempotent.
