(* GlobalInterp.v — C19: what a prediction uses, sum_j f(x_j) p_j(t) with p_j eko's piecewise basis function as Interp.basis_eval models it,
   IS the Lagrange interpolant on the block of the area that contains t (increasing grid, t in (x_i, x_(i+1)]). *)
From Coq Require Import Reals List Lra Lia Arith Bool.
From Coquelicot Require Import Coquelicot.
From Yad Require Import Base Interp InterpTheorems InterpReal.
Import ListNotations.
Open Scope R_scope.

Definition Rltb (a b : R) : bool := if Rlt_dec a b then true else false.
Lemma Rltb_true a b : Rltb a b = true <-> a < b.
Proof. unfold Rltb. destruct (Rlt_dec a b); split; auto; discriminate. Qed.
Lemma Rltb_false a b : Rltb a b = false <-> b <= a.
Proof. unfold Rltb. destruct (Rlt_dec a b); split; intros; try discriminate; try reflexivity; lra. Qed.
Definition sorted (ns : list R) : Prop := forall i j, (i < j)%nat -> (j < length ns)%nat -> nth i ns 0 < nth j ns 0.
Definition basisR (ns : list R) (d j : nat) (t : R) : R := @basis_eval RFld Rltb ns d j t.
Definition Iglobal (ns : list R) (d : nat) (f : R -> R) (t : R) : R := rsum (fun j => f (nth j ns 0) * basisR ns d j t) (seq 0 (length ns)).

Lemma sorted_alldiff ns : sorted ns -> @alldiff RFld ns.
Proof.
  induction ns as [|v r IH]; intros H; cbn [alldiff]; [exact I|]. split.
  - apply Forall_forall. intros w Hw. destruct (In_nth r w 0 Hw) as [k [Hk <-]].
    pose proof (H 0%nat (S k) ltac:(lia) ltac:(cbn [length]; lia)) as L. cbn [nth] in L. cbn [fsub f0 RFld]. split; lra.
  - apply IH. intros i j Hij Hj. apply (H (S i) (S j)); cbn [length]; lia.
Qed.

Section G.
  Variables (ns : list R) (d j i : nat) (t : R).
  Hypothesis Hs : sorted ns.
  Hypothesis Hi : (i + 1 < length ns)%nat.
  Hypothesis Ht : nth i ns 0 < t <= nth (S i) ns 0.

  Let f0R : @f0 RFld = 0 := eq_refl.

  (* areas below i never match *)
  Lemma skip_below l first : (forall a, In a l -> (a < i)%nat) -> forall l2,
    @eval_areas RFld Rltb ns d j (l ++ l2) first t = @eval_areas RFld Rltb ns d j l2 (first && match l with [] => true | _ => false end) t.
  Proof.
    revert first. induction l as [|a l IH]; intros first Hl l2; cbn [app]; [rewrite andb_true_r; reflexivity|].
    cbn [eval_areas]. assert (Ha : (a < i)%nat) by (apply Hl; left; reflexivity).
    assert (H1 : nth (S a) ns 0 <= nth i ns 0).
    { destruct (Nat.eq_dec (S a) i) as [->|Hne]; [lra|]. left. apply Hs; lia. }
    assert (H0 : nth a ns 0 < nth i ns 0) by (apply Hs; lia).
    change (@F RFld) with R. change (@f0 RFld) with 0. change (@feqb RFld) with R_eqb.
    replace (Rltb (nth (S a) ns 0) t) with true by (symmetry; apply Rltb_true; lra).
    replace (R_eqb t (nth a ns 0)) with false by (symmetry; unfold R_eqb; destruct (Req_EM_T t (nth a ns 0)); [lra | reflexivity]).
    cbn [negb]. rewrite !andb_false_r. cbn [orb].
    rewrite IH by (intros b Hb; apply Hl; right; exact Hb).
    cbn [andb]. reflexivity.
  Qed.
  (* area i matches *)
  Lemma pick_i l2 first : @eval_areas RFld Rltb ns d j (i :: l2) first t = @area_poly RFld ns d i j t.
  Proof.
    cbn [eval_areas]. change (@F RFld) with R. change (@f0 RFld) with 0. change (@feqb RFld) with R_eqb.
    replace (Rltb (nth i ns 0) t) with true by (symmetry; apply Rltb_true; lra).
    replace (Rltb (nth (S i) ns 0) t) with false by (symmetry; apply Rltb_false; lra).
    reflexivity.
  Qed.
  (* areas above i: only the special case `first area, t on its lower node' can match, and then the value is the Kronecker delta *)
  Lemma above_i l first : (1 <= d)%nat -> (d < length ns)%nat -> (forall a, In a l -> (i < a)%nat /\ (a + 1 < length ns)%nat) ->
    in_block (length ns) d i j = false ->
    @eval_areas RFld Rltb ns d j l first t = 0.
  Proof.
    intros Hd Hn Hl Hj. revert first. induction l as [|a l IH]; intros first; cbn [eval_areas]; [reflexivity|].
    destruct (Hl a (or_introl eq_refl)) as [Ha Ha'].
    assert (H1 : nth (S i) ns 0 <= nth a ns 0).
    { destruct (Nat.eq_dec (S i) a) as [->|Hne]; [lra|]. left. apply Hs; lia. }
    change (@F RFld) with R. change (@f0 RFld) with 0. change (@feqb RFld) with R_eqb.
    replace (Rltb (nth a ns 0) t) with false by (symmetry; apply Rltb_false; lra).
    cbn [andb orb].
    destruct (first && R_eqb t (nth a ns 0)) eqn:E.
    - apply andb_true_iff in E. destruct E as [_ E]. apply R_eqb_spec in E.
      (* t = n_a and t <= n_(i+1) <= n_a: a = i+1 *)
      assert (Ea : a = S i).
      { destruct (Nat.eq_dec a (S i)) as [->|Hne]; [reflexivity|]. assert (nth (S i) ns 0 < nth a ns 0) by (apply Hs; lia). lra. }
      subst a. rewrite E.
      assert (K : @area_poly RFld ns d (S i) j (nth (S i) ns 0) = if Nat.eqb (S i) j then 1 else 0).
      { apply (@area_poly_kronecker RFld ns d (S i) j (S i) (sorted_alldiff ns Hs) Hd Hn Ha').
        change (@F RFld) with R. pose proof (block_contains_area (length ns) d (S i) Hd Hn Ha') as B. unfold in_block.
        destruct (block (length ns) d (S i)) as [p q]. apply andb_true_iff. rewrite !Nat.leb_le. lia. }
      rewrite K. clear K.
      destruct (Nat.eqb_spec (S i) j) as [Ej|Ej]; [|reflexivity].
        (* j = i+1 lies in the block of area i: contradiction *)
        exfalso. subst j. pose proof (block_contains_area (length ns) d i Hd Hn Hi) as B. unfold in_block in Hj.
        destruct (block (length ns) d i) as [p q]. apply andb_false_iff in Hj. destruct Hj as [Hj|Hj]; [apply Nat.leb_gt in Hj | apply Nat.leb_gt in Hj]; lia.
    - apply IH. intros b Hb. apply Hl. right. exact Hb.
  Qed.
End G.

(* on area i the basis function is its polynomial of that area *)
Theorem basis_is_area_poly ns d i j t : sorted ns -> (1 <= d)%nat -> (d < length ns)%nat -> (i + 1 < length ns)%nat ->
  nth i ns 0 < t <= nth (S i) ns 0 -> basisR ns d j t = @area_poly RFld ns d i j t.
Proof.
  intros Hs Hd Hn Hi Ht. unfold basisR, basis_eval, areas_of. change (@F RFld) with R.
  replace (length ns - 1)%nat with (i + (1 + (length ns - 2 - i)))%nat by lia.
  rewrite !seq_app, !filter_app. cbn [Nat.add].
  rewrite (skip_below ns d j i t Hs Hi Ht (filter (fun a => in_block (length ns) d a j) (seq 0 i)) true).
  2:{ intros a Ha. apply filter_In in Ha. destruct Ha as [Ha _]. apply in_seq in Ha. lia. }
  cbn [seq filter]. destruct (in_block (length ns) d i j) eqn:Ej.
  - cbn [app]. apply pick_i; assumption.
  - cbn [app]. unfold area_poly. change (@F RFld) with R. rewrite Ej. change (@f0 RFld) with 0.
    apply (above_i ns d j i t Hs Hi Ht); try assumption.
    intros a Ha. apply filter_In in Ha. destruct Ha as [Ha _]. apply in_seq in Ha. lia.
Qed.

Theorem global_is_block_interpolant ns d i f t : sorted ns -> (1 <= d)%nat -> (d < length ns)%nat -> (i + 1 < length ns)%nat ->
  nth i ns 0 < t <= nth (S i) ns 0 -> Iglobal ns d f t = interp (@block_nodes RFld ns d i) f t.
Proof.
  intros Hs Hd Hn Hi Ht. rewrite <- (grid_interp_is_block_interp ns d i f t Hd Hn Hi).
  unfold Iglobal, grid_interp. apply rsum_ext. intros j _. rewrite (basis_is_area_poly ns d i j t); try assumption. reflexivity.
Qed.

(* ---------------- the interpolant takes the node values (Kronecker property) *)
Lemma rsum_delta_gen (g : nat -> R) m n : rsum (fun j => (if Nat.eqb m j then 1 else 0) * g j) (seq 0 n) = if (m <? n)%nat then g m else 0.
Proof.
  induction n as [|n IH]; [reflexivity|]. rewrite seq_S, rsum_app, IH. cbn [Nat.add]. rewrite rsum_cons, rsum_nil.
  destruct (Nat.ltb_spec m n) as [H1|H1], (Nat.ltb_spec m (S n)) as [H2|H2], (Nat.eqb_spec m n) as [H3|H3]; try lia; try subst; ring.
Qed.
Lemma rsum_delta (g : nat -> R) m n : (m < n)%nat -> rsum (fun j => (if Nat.eqb m j then 1 else 0) * g j) (seq 0 n) = g m.
Proof. intros Hm. rewrite rsum_delta_gen. apply Nat.ltb_lt in Hm. rewrite Hm. reflexivity. Qed.
Lemma interp_at_node vs f m : @alldiff RFld vs -> (m < length vs)%nat -> interp vs f (nth m vs 0) = f (nth m vs 0).
Proof.
  intros H Hm. unfold interp. rewrite <- (rsum_delta (fun j => f (nth j vs 0)) m (length vs) Hm).
  apply rsum_ext. intros j Hj. apply in_seq in Hj. unfold lag.
  pose proof (@lagrange_kronecker RFld vs j m H ltac:(lia) Hm) as K. change (@F RFld) with R in K. change (@f0 RFld) with 0 in K. change (@f1 RFld) with 1 in K.
  apply (f_equal (fun z => z * f (nth j vs 0))). exact K.
Qed.
Lemma node_in_block ns d i m : (1 <= d)%nat -> (d < length ns)%nat -> (i + 1 < length ns)%nat ->
  in_block (length ns) d i m = true -> exists k, (k < length (@block_nodes RFld ns d i))%nat /\ nth k (@block_nodes RFld ns d i) 0 = nth m ns 0.
Proof.
  intros Hd Hn Hi Hm. pose proof (block_contains_area (length ns) d i Hd Hn Hi) as B.
  pose proof (@block_nodes_nth RFld ns d i m Hd Hn Hi) as N. pose proof (@block_nodes_length RFld ns d i Hd Hn Hi) as L.
  unfold in_block in Hm. change (@F RFld) with R in *. destruct (block (length ns) d i) as [a b] eqn:Eb. cbn [fst snd] in *.
  apply andb_true_iff in Hm. rewrite !Nat.leb_le in Hm.
  exists (m - a)%nat. split; [rewrite L; lia|]. change (@f0 RFld) with 0 in N. apply N. lia.
Qed.
Lemma interp_block_at_grid_node ns d i f m : sorted ns -> (1 <= d)%nat -> (d < length ns)%nat -> (i + 1 < length ns)%nat ->
  in_block (length ns) d i m = true -> interp (@block_nodes RFld ns d i) f (nth m ns 0) = f (nth m ns 0).
Proof.
  intros Hs Hd Hn Hi Hm. destruct (node_in_block ns d i m Hd Hn Hi Hm) as [k [Hk E]].
  assert (G : interp (@block_nodes RFld ns d i) f (nth k (@block_nodes RFld ns d i) 0) = f (nth k (@block_nodes RFld ns d i) 0)).
  { apply interp_at_node; [apply (@block_nodes_alldiff RFld), sorted_alldiff, Hs | exact Hk]. }
  rewrite E in G. exact G.
Qed.
Lemma area_nodes_in_block n d i : (1 <= d)%nat -> (d < n)%nat -> (i + 1 < n)%nat -> in_block n d i i = true /\ in_block n d i (S i) = true.
Proof.
  intros Hd Hn Hi. pose proof (block_contains_area n d i Hd Hn Hi) as B. unfold in_block. destruct (block n d i) as [a b].
  split; apply andb_true_iff; rewrite !Nat.leb_le; lia.
Qed.

(* at the lowest node the first-area rule applies *)
Lemma basis_at_first_node ns d j : sorted ns -> (1 <= d)%nat -> (d < length ns)%nat -> (1 < length ns)%nat ->
  basisR ns d j (nth 0 ns 0) = @area_poly RFld ns d 0 j (nth 0 ns 0).
Proof.
  intros Hs Hd Hn H1. unfold basisR, basis_eval, areas_of. change (@F RFld) with R.
  replace (length ns - 1)%nat with (1 + (length ns - 2))%nat by lia. rewrite seq_app, filter_app. cbn [Nat.add seq filter].
  destruct (in_block (length ns) d 0 j) eqn:Ej.
  - cbn [app eval_areas]. change (@F RFld) with R. change (@f0 RFld) with 0. change (@feqb RFld) with R_eqb.
    replace (R_eqb (nth 0 ns 0) (nth 0 ns 0)) with true by (symmetry; apply R_eqb_spec; reflexivity).
    rewrite andb_true_l, orb_true_r. reflexivity.
  - cbn [app]. unfold area_poly. change (@F RFld) with R. rewrite Ej. change (@f0 RFld) with 0.
    (* every later area a >= 1: n_a > n_0 = t, so neither rule matches *)
    assert (G : forall l first, (forall a, In a l -> (1 <= a)%nat /\ (a + 1 < length ns)%nat) -> @eval_areas RFld Rltb ns d j l first (nth 0 ns 0) = 0).
    { induction l as [|a l IH]; intros first Hl; cbn [eval_areas]; [reflexivity|].
      destruct (Hl a (or_introl eq_refl)) as [Ha Ha']. assert (nth 0 ns 0 < nth a ns 0) by (apply Hs; lia).
      change (@F RFld) with R. change (@f0 RFld) with 0. change (@feqb RFld) with R_eqb.
      replace (Rltb (nth a ns 0) (nth 0 ns 0)) with false by (symmetry; apply Rltb_false; lra).
      replace (R_eqb (nth 0 ns 0) (nth a ns 0)) with false by (symmetry; unfold R_eqb; destruct (Req_EM_T (nth 0 ns 0) (nth a ns 0)); [lra | reflexivity]).
      rewrite andb_false_r. cbn [andb orb]. apply IH. intros b Hb. apply Hl. right. exact Hb. }
    apply G. intros a Ha. apply filter_In in Ha. destruct Ha as [Ha _]. apply in_seq in Ha. lia.
Qed.

(* on the CLOSED area [x_i, x_(i+1)] the global interpolant is the block interpolant of that area *)
Theorem global_is_block_interpolant_closed ns d i f t : sorted ns -> (1 <= d)%nat -> (d < length ns)%nat -> (i + 1 < length ns)%nat ->
  nth i ns 0 <= t <= nth (S i) ns 0 -> Iglobal ns d f t = interp (@block_nodes RFld ns d i) f t.
Proof.
  intros Hs Hd Hn Hi Ht. destruct (Req_dec t (nth i ns 0)) as [->|Hne]; [|apply global_is_block_interpolant; try assumption; lra].
  destruct (area_nodes_in_block (length ns) d i Hd Hn Hi) as [Bi _].
  rewrite (interp_block_at_grid_node ns d i f i Hs Hd Hn Hi Bi).
  destruct i as [|i'].
  - transitivity (grid_interp ns d 0 f (nth 0 ns 0)).
    + unfold Iglobal, grid_interp. apply rsum_ext. intros j _. rewrite basis_at_first_node by (try assumption; lia). reflexivity.
    + rewrite (grid_interp_is_block_interp ns d 0 f (nth 0 ns 0) Hd Hn Hi). apply (interp_block_at_grid_node ns d 0 f 0 Hs Hd Hn Hi Bi).
  - assert (Hi' : (i' + 1 < length ns)%nat) by lia.
    rewrite (global_is_block_interpolant ns d i' f (nth (S i') ns 0) Hs Hd Hn Hi').
    + destruct (area_nodes_in_block (length ns) d i' Hd Hn Hi') as [_ Bi']. apply (interp_block_at_grid_node ns d i' f (S i') Hs Hd Hn Hi' Bi').
    + split; [apply Hs; lia | lra].
Qed.
