(* CorrSV.v — agreement predicate for tools/corr/scalevar.py (Qc instance). *)
From Coq Require Import ZArith List Bool QArith Qcanon.
From Yad Require Import Base Result ScaleVar.
Import ListNotations.

Definition ops_of (ms : list (@mat QcFld)) (l : label) : @mat QcFld :=
  let i := match l with Pqq0 => 0 | Pqg0 => 1 | Pgq0 => 2 | Pgg0 => 3 | Pqq1 => 4 | Pqg1 => 5 | Pnsp1 => 6 | Pnsm1 => 7
                      | Pqq0sq => 8 | Pqg0Pgq0 => 9 | Pqq0Pqg0 => 10 | Pqg0Pgg0 => 11 end%nat in
  nth i ms [].

Record sv_case := {
  sv_pto : Z; sv_ren : bool; sv_fact : bool; sv_intr : bool; sv_nf : Z;
  sv_ops : list (@mat QcFld); sv_projs : list (@mat QcFld);
  sv_base : list (okey * (@vec QcFld) * (@vec QcFld));
  sv_npid : nat; sv_ngrid : nat;
  sv_obs : list (okey * list (list Qc)) }.

Definition sv_model (c : sv_case) : list (@entry QcFld) :=
  let base := map (fun b => let '(k, p, v) := b in {| e_key := k; e_terms := [(p, v)] |}) (sv_base c) in
  sv_kernel (sv_ren c) (sv_fact c) (sv_intr c)
            (sector_mapping (ops_of (sv_ops c)) (sv_nf c) (sv_pto c)) (sv_projs c)
            (ren_coeffs (sv_pto c) (sv_nf c)) base.

Definition obs_at (o : list (okey * list (list Qc))) (k : okey) (i j : nat) : Qc :=
  fold_left (fun acc kt => if okey_eqb (fst kt) k then (acc + nth j (nth i (snd kt) []) 0)%Qc else acc) o 0%Qc.

Definition sv_ok (tol : Qc) (c : sv_case) : bool :=
  let m := sv_model c in
  let keys := map (@e_key QcFld) m ++ map fst (sv_obs c) in
  forallb (fun k => forallb (fun i => forallb (fun j => close tol (tensor_at m k i j) (obs_at (sv_obs c) k i j))
                                              (seq 0 (sv_ngrid c))) (seq 0 (sv_npid c))) keys.
