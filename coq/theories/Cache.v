(* Cache.v — executable model of the structure-function cache (sf.py::StructureFunction.get_esf / load /
   drop_cache): which object a request is served with. Objects are identified by the kinematics they were
   created with; results are a function of the object's own kinematics (esf.py), so serving a request with an
   object created for other kinematics is exactly what "depends on the history" means.
   Hand-written; tied by tools/corr/cache.py. *)
From Coq Require Import ZArith List Bool String QArith Lia Sorting.Permutation.
Import ListNotations.
Open Scope string_scope.

Definition kin := list (string * Q).          (* python dict, insertion ordered *)
(* the cache key as the code builds it.  [by_name] = false: tuple(kinematics.values()) + (flag,)  (pinned tree)
                                         [by_name] = true : tuple(sorted(kinematics.items())) + (flag,) (repaired) *)
Inductive keyitem := KV (q : Q) | KN (n : string) (q : Q) | KF (b : bool).
Fixpoint insert_item (x : string * Q) (l : list (string * Q)) : list (string * Q) :=
  match l with
  | [] => [x]
  | y :: r => if (String.leb (fst x) (fst y)) then x :: l else y :: insert_item x r
  end.
Definition sort_items (k : kin) : list (string * Q) := fold_right insert_item [] k.
Definition cache_key (by_name : bool) (k : kin) (flag : bool) : list keyitem :=
  (if by_name then map (fun nv => KN (fst nv) (snd nv)) (sort_items k) else map (fun nv => KV (snd nv)) k) ++ [KF flag].

(* python equality of keys: floats compare by value *)
Definition keyitem_eqb (a b : keyitem) : bool :=
  match a, b with
  | KV x, KV y => Qeq_bool x y
  | KN n x, KN m y => String.eqb n m && Qeq_bool x y
  | KF x, KF y => Bool.eqb x y
  | _, _ => false
  end.
Fixpoint key_eqb (a b : list keyitem) : bool :=
  match a, b with
  | [], [] => true
  | x :: a', y :: b' => keyitem_eqb x y && key_eqb a' b'
  | _, _ => false
  end.

(* an object: the kinematics it was created with and whether it is the TMC wrapper *)
Record obj := { o_kin : kin; o_tmc : bool }.
Definition cache := list (list keyitem * obj).
Fixpoint lookup (c : cache) (k : list keyitem) : option obj :=
  match c with [] => None | (k', o) :: r => if key_eqb k k' then Some o else lookup r k end.

(* get_esf on the owning structure function: (new cache, object served, was it a hit) *)
Definition get_esf (by_name : bool) (tmc_on : bool) (c : cache) (k : kin) (use_raw : bool) : cache * obj * bool :=
  let flag := negb use_raw && tmc_on in
  let key := cache_key by_name k flag in
  match lookup c key with
  | Some o => (c, o, true)
  | None => let o := {| o_kin := k; o_tmc := flag |} in ((key, o) :: c, o, false)
  end.

Inductive op := Get (k : kin) (use_raw : bool) | Drop.
Definition step (by_name tmc_on : bool) (c : cache) (o : op) : cache * option (obj * bool) :=
  match o with
  | Get k r => let '(c', ob, hit) := get_esf by_name tmc_on c k r in (c', Some (ob, hit))
  | Drop => ([], None)
  end.
Fixpoint run (by_name tmc_on : bool) (c : cache) (ops : list op) : list (option (obj * bool)) :=
  match ops with
  | [] => []
  | o :: r => let '(c', out) := step by_name tmc_on c o in out :: run by_name tmc_on c' r
  end.

(* the value of a field of a kinematics dict *)
Fixpoint kget (k : kin) (n : string) : option Q :=
  match k with [] => None | (m, v) :: r => if String.eqb n m then Some v else kget r n end.
(* two dicts denote the same point: same fields, same values (as floats compare) *)
Definition same_point (a b : kin) : Prop :=
  forall n, match kget a n, kget b n with Some x, Some y => Qeq x y | None, None => True | _, _ => False end.
