(* KernelTable.v — checks on the regenerated kernel table: which kernels the translator could not read. *)
From Coq Require Import List String Bool.
From Yad Require Import Expr.
Import ListNotations.
Open Scope string_scope.

Definition opaque_kernels (t : list (string * kernel_entry)) : list string :=
  flat_map (fun ne => match snd ne with Opaque _ => [fst ne] | Translated _ => [] end) t.
(* outside the translated subset on purpose: the two loops modelled by hand (Distr.v) and the special-function
   implementations (the model uses the mathematical functions) *)
Definition allowed_opaque : list string :=
  ["yadism.coefficient_functions.partonic_channel.loc_from_distr_coeffs";
   "yadism.coefficient_functions.partonic_channel.sing_from_distr_coeffs";
   "yadism.coefficient_functions.asy.raw_nc.wgplg";
   "yadism.coefficient_functions.special.li2";
   "yadism.coefficient_functions.special.nielsen.nielsen"].
Definition unexpected_opaque (t : list (string * kernel_entry)) : list string :=
  filter (fun n => negb (existsb (String.eqb n) allowed_opaque)) (opaque_kernels t).
Definition translated_count (t : list (string * kernel_entry)) : nat :=
  List.length (filter (fun ne => match snd ne with Translated _ => true | _ => false end) t).
