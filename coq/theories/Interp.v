(* Interp.v — executable model of the piecewise Lagrange basis yadism convolves with (eko.interpolation:
   InterpolatorDispatcher's block rule, Area, evaluate_x), over the abstract field.  Nodes are the grid in the
   interpolation variable (ln x in log mode, x otherwise).  Hand-written; tied by tools/corr/interp.py on eko's objects. *)
From Coq Require Import ZArith List Bool Arith Lia.
From Yad Require Import Base.
Import ListNotations.

(* eko's block rule: the nodes kmin..kmax used on area i (between nodes i and i+1) of an n-node grid, degree d *)
Definition block (n d i : nat) : nat * nat :=
  let po2 := if Nat.even d then d / 2 - 1 else d / 2 in
  let kmin := i - po2 in
  if n <=? kmin + d then (n - 1 - d, n - 1) else (kmin, kmin + d).
Definition in_block (n d i j : nat) : bool := let '(a, b) := block n d i in (a <=? j) && (j <=? b).

Section Interp.
  Context {fld : Fld}.
  Local Open Scope F_scope.

  (* prod_{k <> j} (t - v_k)/(v_j - v_k) over the value list vs; cur counts positions *)
  Fixpoint lagv (vs : list F) (vj : F) (j cur : nat) (t : F) : F :=
    match vs with
    | [] => f1
    | v :: r => (if Nat.eqb cur j then f1 else (t - v) / (vj - v)) * lagv r vj j (S cur) t
    end.
  Definition block_nodes (ns : list F) (d i : nat) : list F := firstn (S d) (skipn (fst (block (length ns) d i)) ns).
  (* the polynomial of basis function j on area i (0 when j is not in the block of that area) *)
  Definition area_poly (ns : list F) (d i j : nat) (t : F) : F :=
    if in_block (length ns) d i j then
      let vs := block_nodes ns d i in
      let jj := (j - fst (block (length ns) d i))%nat in
      lagv vs (nth jj vs f0) jj 0 t
    else f0.

  (* evaluate_x: the areas of p_j in increasing order; area i is used for n_i < t <= n_{i+1}; the FIRST area of p_j also
     for t = n_i *)
  Fixpoint eval_areas (ltb : F -> F -> bool) (ns : list F) (d j : nat) (areas : list nat) (first : bool) (t : F) : F :=
    match areas with
    | [] => f0
    | i :: r =>
      let xmin := nth i ns f0 in let xmax := nth (S i) ns f0 in
      if (ltb xmin t && negb (ltb xmax t)) || (first && feqb t xmin) then area_poly ns d i j t
      else eval_areas ltb ns d j r false t
    end.
  Definition areas_of (n d j : nat) : list nat := filter (fun i => in_block n d i j) (seq 0 (n - 1)%nat).
  Definition basis_eval (ltb : F -> F -> bool) (ns : list F) (d j : nat) (t : F) : F :=
    eval_areas ltb ns d j (areas_of (length ns) d j) true t.
  (* support of p_j, as conv.convolution reads it: lower border of the first area, upper border of the last one *)
  Definition support (ns : list F) (d j : nat) : option (F * F) :=
    match areas_of (length ns) d j with
    | [] => None
    | i :: r => Some (nth i ns f0, nth (S (last r i)) ns f0)
    end.

  (* pairwise distinct values, in the form [field] wants *)
  Fixpoint alldiff (vs : list F) : Prop :=
    match vs with [] => True | v :: r => Forall (fun w => v - w <> f0 /\ w - v <> f0) r /\ alldiff r end.
  Fixpoint fpow (a : F) (k : nat) : F := match k with O => f1 | S k' => a * fpow a k' end.
  (* sum_j L_j(t) v_j^k *)
  Definition interp_pow (vs : list F) (k : nat) (t : F) : F :=
    fsum (map (fun j => lagv vs (nth j vs f0) j 0 t * fpow (nth j vs f0) k) (seq 0 (length vs))).
End Interp.
