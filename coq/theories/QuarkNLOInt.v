(* QuarkNLOInt.v — C08, the NLO quark channel of CC F2 as a DISTRIBUTION: massive minus massless coefficient function applied to any
   bounded Lipschitz function, integrated over [x, 1) (improper integral: the kernels carry ln(1-z)), plus the local parts. *)
From Coq Require Import Reals List Lra ZArith Psatz.
From Coquelicot Require Import Coquelicot.
From Yad Require Import Expr SpecNLO GluonLimit KTactics Conv ConvTheorems ConvGen QuarkNLOLimit.
From YadGen Require Import InstKernels.
Import ListNotations.
Open Scope R_scope.

(* improper integral over [x, 1) from a primitive (on an open interval around [x, 1)) with a left limit at 1 *)
Lemma gen_of_primitive (F f : R -> R) (x0 x lb : R) : x0 < x < 1 ->
  (forall z, x0 < z < 1 -> is_derive F z (f z)) -> (forall z, x0 < z < 1 -> continuous f z) ->
  filterlim F (at_left 1) (locally lb) ->
  is_RInt_gen f (at_point x) (at_left 1) (lb - F x).
Proof.
  intros Hx Hd Hc Hl.
  assert (Hrange : filter_prod (at_point x) (at_left 1) (fun ab => fst ab = x /\ x < snd ab < 1)).
  { apply (Filter_prod _ _ _ (fun a => a = x) (fun b => x < b < 1)); [reflexivity | | intros a b Ha Hb; cbn; split; assumption].
    exists (mkposreal (1 - x) ltac:(lra)). intros y Hy Hy1. unfold ball in Hy; cbn in Hy; unfold AbsRing_ball, abs, minus, plus, opp in Hy; cbn in Hy.
    apply Rabs_def2 in Hy. lra. }
  apply (is_RInt_gen_ext (V := R_NormedModule) (Derive F)).
  - apply (filter_imp (fun ab => fst ab = x /\ x < snd ab < 1)); [|exact Hrange].
    intros [a b] [Ha Hb] z Hz. cbn [fst snd] in *. subst a. rewrite Rmin_left, Rmax_right in Hz by lra.
    apply is_derive_unique, Hd. lra.
  - apply (is_RInt_gen_Derive F (F x) lb).
    + apply (filter_imp (fun ab => fst ab = x /\ x < snd ab < 1)); [|exact Hrange].
      intros [a b] [Ha Hb] z Hz. cbn [fst snd] in *. subst a. rewrite Rmin_left, Rmax_right in Hz by lra.
      exists (f z). apply Hd. lra.
    + apply (filter_imp (fun ab => fst ab = x /\ x < snd ab < 1)); [|exact Hrange].
      intros [a b] [Ha Hb] z Hz. cbn [fst snd] in *. subst a. rewrite Rmin_left, Rmax_right in Hz by lra.
      apply (continuous_ext_loc _ f).
      * exists (mkposreal (Rmin (z - x0) (1 - z)) ltac:(apply Rmin_glb_lt; lra)). intros y Hy.
        unfold ball in Hy; cbn in Hy; unfold AbsRing_ball, abs, minus, plus, opp in Hy; cbn in Hy. apply Rabs_def2 in Hy.
        pose proof (Rmin_l (z - x0) (1 - z)). pose proof (Rmin_r (z - x0) (1 - z)). symmetry. apply is_derive_unique, Hd. lra.
      * apply Hc. lra.
    + intros P HP. unfold filtermap, at_point. apply locally_singleton. exact HP.
    + exact Hl.
Qed.

(* a function continuous at 1 has its value as left limit *)
Lemma left_limit_of_continuous (F : R -> R) : continuous F 1 -> filterlim F (at_left 1) (locally (F 1)).
Proof.
  intros Hc P HP. specialize (Hc P HP). destruct Hc as [d Hd]. exists d. intros y Hy _. apply Hd. exact Hy.
Qed.

(* the three improper integrals that occur *)
Lemma int_ln_1mz x : 0 < x < 1 -> is_RInt_gen (fun z => ln (1 - z)) (at_point x) (at_left 1) (-1 - Fex x).
Proof.
  intros Hx. apply (gen_of_primitive Fex (fun z => ln (1 - z)) 0 x (-1)); [lra| | |exact Fex_lim].
  - intros z Hz. apply Fex_derive. lra.
  - intros z Hz. apply (ex_derive_continuous (fun u => ln (1 - u))). auto_derive. lra.
Qed.
Definition Fl (l z : R) : R := - (1 - l * z) * ln (1 - l * z) / l - z.
Lemma Fl_derive l z : 0 < l -> l * z < 1 -> is_derive (Fl l) z (ln (1 - l * z)).
Proof. intros Hl Hz. unfold Fl. auto_derive; [lra|]. replace (1 + - (l * z)) with (1 - l * z) by ring. field. lra. Qed.
Lemma int_ln_1mlz l x : 1 / 2 <= l < 1 -> 0 < x < 1 -> is_RInt_gen (fun z => ln (1 - l * z)) (at_point x) (at_left 1) (Fl l 1 - Fl l x).
Proof.
  intros Hl Hx. apply (gen_of_primitive (Fl l) (fun z => ln (1 - l * z)) 0 x (Fl l 1)); [lra| | |].
  - intros z Hz. apply Fl_derive; nra.
  - intros z Hz. apply (ex_derive_continuous (fun u => ln (1 - l * u))). auto_derive. nra.
  - apply left_limit_of_continuous. apply (ex_derive_continuous (Fl l)). exists (ln (1 - l * 1)). apply Fl_derive; lra.
Qed.
Definition Gl (l z : R) : R := - ln (1 - l * z) / l.
Lemma Gl_derive l z : 0 < l -> l * z < 1 -> is_derive (Gl l) z (/ (1 - l * z)).
Proof. intros Hl Hz. unfold Gl. auto_derive; [lra|]. replace (1 + - (l * z)) with (1 - l * z) by ring. field. lra. Qed.
Lemma int_inv_1mlz l x : 1 / 2 <= l < 1 -> 0 < x < 1 -> is_RInt_gen (fun z => / (1 - l * z)) (at_point x) (at_left 1) (Gl l 1 - Gl l x).
Proof.
  intros Hl Hx. apply (gen_of_primitive (Gl l) (fun z => / (1 - l * z)) 0 x (Gl l 1)); [lra| | |].
  - intros z Hz. apply Gl_derive; nra.
  - intros z Hz. apply (ex_derive_continuous (fun u => / (1 - l * u))). auto_derive. nra.
  - apply left_limit_of_continuous. apply (ex_derive_continuous (Gl l)). exists (/ (1 - l * 1)). apply Gl_derive; lra.
Qed.
Lemma int_const c x : x < 1 -> is_RInt_gen (fun _ : R => c) (at_point x) (at_left 1) (c * 1 - c * x).
Proof.
  intros Hx. apply (gen_of_primitive (fun z => c * z) (fun _ => c) (x - 1) x (c * 1)); [lra| | |].
  - intros z Hz. auto_derive; [exact I | ring].
  - intros z Hz. apply continuous_const.
  - apply left_limit_of_continuous. apply (ex_derive_continuous (fun z => c * z)). auto_derive. exact I.
Qed.

(* ---------------- sharper pointwise bounds (integrable up to z = 1): L(z) = ln(1 - l z) - ln(1 - z) >= 0, j(z) = 1/(1 - l z) *)
Lemma f2_reg_diff_sharp sp z l : 0 < z < 1 -> 1 / 2 <= l < 1 ->
  Rabs (eval sp ik_heavy_f2_cc_NonSinglet_NLO_reg z [l] - c2q1_reg z)
  <= 2 * CF * (4 * (1 - l) + 2 * (ln (1 - l * z) - ln (1 - z)) + 3 * (1 - l) * / (1 - l * z)).
Proof.
  intros Hz Hl. rewrite f2_reg_diff by lra.
  destruct (log_facts z l Hz Hl) as (Ha & Hb & Hc & Hd & He & Hcd & Hf).
  assert (Hlz : 0 < 1 - l * z) by nra. assert (Hj : 0 < / (1 - l * z)) by (apply Rinv_0_lt_compat; lra).
  unfold CF. rewrite Rabs_mult, (Rabs_pos_eq (2 * (4 / 3))) by lra. apply Rmult_le_compat_l; [lra|].
  set (a := ln l) in *. set (L := ln (1 - l * z) - ln (1 - z)). assert (HL : 0 <= L) by (unfold L; lra).
  set (j := / (1 - l * z)) in *. replace ((1 - l) * (2 + z) / (1 - l * z)) with ((1 - l) * (2 + z) * j) by (unfold j, Rdiv; ring).
  assert (0 <= (1 - l) * (2 + z) * j <= 3 * (1 - l) * j).
  { split; [apply Rmult_le_pos; nra|]. apply Rmult_le_compat_r; [lra|]. nra. }
  apply Rabs_le. split; nra.
Qed.
Lemma f2_sing_diff_sharp sp z l : 0 < z < 1 -> 1 / 2 <= l < 1 ->
  Rabs (eval sp ik_heavy_f2_cc_NonSinglet_NLO_sing z [l] - c2q1_sing z) * (1 - z)
  <= 2 * CF * (4 * (1 - l) + 2 * (ln (1 - l * z) - ln (1 - z)) + (1 - l) * / (1 - l * z)).
Proof.
  intros Hz Hl. rewrite f2_sing_diff by lra.
  destruct (log_facts z l Hz Hl) as (Ha & Hb & Hc & Hd & He & Hcd & Hf).
  assert (Hlz : 0 < 1 - l * z) by nra. assert (Hj : 0 < / (1 - l * z)) by (apply Rinv_0_lt_compat; lra).
  unfold CF. rewrite Rabs_mult, (Rabs_pos_eq (2 * (4 / 3))) by lra. rewrite Rmult_assoc. apply Rmult_le_compat_l; [lra|].
  match goal with |- Rabs ?X * (1 - z) <= _ => replace (Rabs X * (1 - z)) with (Rabs (X * (1 - z))) by (rewrite Rabs_mult, (Rabs_pos_eq (1 - z)) by lra; reflexivity) end.
  set (a := ln l) in *. set (L := ln (1 - l * z) - ln (1 - z)). assert (HL : 0 <= L) by (unfold L; lra).
  set (j := / (1 - l * z)) in *.
  replace ((-2 * a / (1 - z) - 2 * L / (1 - z) - (1 - l) * z * (2 * (1 - z) + (1 - l) * z) / (2 * (1 - l * z) ^ 2 * (1 - z))) * (1 - z))
    with (-2 * a - 2 * L - (1 - l) * (z * (2 * (1 - z) + (1 - l) * z) / 2 * (j * j))) by (unfold j; field; lra).
  assert (Hq : 0 <= z * (2 * (1 - z) + (1 - l) * z) / 2 * (j * j) <= j).
  { assert (Hn : 0 <= z * (2 * (1 - z) + (1 - l) * z) / 2 <= 1 - l * z) by (split; nra).
    split; [apply Rmult_le_pos; [lra | apply Rmult_le_pos; lra]|].
    apply Rle_trans with ((1 - l * z) * (j * j)); [apply Rmult_le_compat_r; [apply Rmult_le_pos; lra | lra]|].
    rewrite <- Rmult_assoc. unfold j at 1. rewrite Rinv_r by lra. lra. }
  set (q := z * (2 * (1 - z) + (1 - l) * z) / 2 * (j * j)) in *.
  assert (0 <= (1 - l) * q <= (1 - l) * j) by (split; [apply Rmult_le_pos; lra | apply Rmult_le_compat_l; lra]).
  apply Rabs_le. split; nra.
Qed.

(* ---------------- the two kernel triples as the convolution model sees them *)
Definition k_massive (sp : special) (l : R) : rsl :=
  {| r_reg := fun z => eval sp ik_heavy_f2_cc_NonSinglet_NLO_reg z [l];
     r_sing := fun z => eval sp ik_heavy_f2_cc_NonSinglet_NLO_sing z [l];
     r_loc := fun z => eval sp ik_heavy_f2_cc_NonSinglet_NLO_loc z [l] |}.
Definition k_massless : rsl := {| r_reg := c2q1_reg; r_sing := c2q1_sing; r_loc := c2q1_loc |}.

(* the explicit remainder: everything in it is (1 - l) times something bounded, or (1 - l) |ln(1 - l)|, or the integral of L *)
Definition int_L (l x : R) : R := (Fl l 1 - Fl l x) - (-1 - Fex x).
Definition remainder (l x G Lp : R) : R :=
  let A := G / x in let Bc := (Lp * x + G) / (x * x) in
  2 * CF * ((A + Bc) * (4 * (1 - l) * 1 - 4 * (1 - l) * x) + 2 * (A + Bc) * int_L l x + (3 * A + Bc) * ((1 - l) * (Gl l 1 - Gl l x))).

Theorem quark_f2_distribution sp l x p G Lp v w : special_ok sp -> reflection sp l -> 1 / 2 <= l < 1 -> 0 < x < 1 -> 0 <= Lp ->
  (forall u, x <= u <= 1 -> Rabs (p u) <= G) ->
  (forall u t, x <= u <= 1 -> x <= t <= 1 -> Rabs (p u - p t) <= Lp * Rabs (u - t)) ->
  is_conv (k_massive sp l) p x v -> is_conv k_massless p x w ->
  Rabs (v - w) <= remainder l x G Lp + (1 - l) * (2 * CF * (4 + 6 * (- ln (1 - l))) + A2sing x * x) * G.
Proof.
  intros Hsp Hrefl Hl Hx HLp Hg HL [lv [Hv ->]] [lw [Hw ->]].
  assert (G0 : 0 <= G) by (eapply Rle_trans; [apply Rabs_pos | apply (Hg x); lra]).
  cbn [r_loc k_massive k_massless].
  replace (lv + p x * eval sp ik_heavy_f2_cc_NonSinglet_NLO_loc x [l] - (lw + p x * c2q1_loc x))
    with ((lv - lw) + p x * (eval sp ik_heavy_f2_cc_NonSinglet_NLO_loc x [l] - c2q1_loc x)) by ring.
  eapply Rle_trans; [apply Rabs_triang|]. apply Rplus_le_compat.
  - (* the integrals *)
    assert (Hrange : filter_prod (at_point x) (at_left 1) (fun ab => fst ab = x /\ x < snd ab < 1)).
    { apply (Filter_prod _ _ _ (fun a => a = x) (fun b => x < b < 1)); [reflexivity | | intros a b Ha Hb; cbn; split; assumption].
      exists (mkposreal (1 - x) ltac:(lra)). intros y Hy Hy1. unfold ball in Hy; cbn in Hy; unfold AbsRing_ball, abs, minus, plus, opp in Hy; cbn in Hy.
      apply Rabs_def2 in Hy. lra. }
    set (A := G / x). set (Bc := (Lp * x + G) / (x * x)).
    assert (A0 : 0 <= A) by (unfold A; apply Rmult_le_pos; [lra | left; apply Rinv_0_lt_compat; lra]).
    assert (B0 : 0 <= Bc) by (unfold Bc; apply Rmult_le_pos; [nra | left; apply Rinv_0_lt_compat; nra]).
    set (bf := fun z => 2 * CF * ((A + Bc) * (4 * (1 - l)) + 2 * (A + Bc) * (ln (1 - l * z) - ln (1 - z)) + (3 * A + Bc) * ((1 - l) * / (1 - l * z)))).
    change (norm (V := R_NormedModule) (lv - lw) <= remainder l x G Lp).
    apply (RInt_gen_norm (V := R_CompleteNormedModule) (Fa := at_point x) (Fb := at_left 1)
             (fun z => minus (integrand (k_massive sp l) p x z) (integrand k_massless p x z)) bf (lv - lw)).
    + apply (filter_imp (fun ab => fst ab = x /\ x < snd ab < 1)); [|exact Hrange]. intros [a b] [Ha Hb]; cbn in *; lra.
    + apply (filter_imp (fun ab => fst ab = x /\ x < snd ab < 1)); [|exact Hrange]. intros [a b] [Ha Hb] z Hz; cbn [fst snd] in *.
      assert (Hz01 : 0 < z < 1) by lra. subst a.
      change (Rabs (integrand (k_massive sp l) p x z + - integrand k_massless p x z) <= bf z).
      unfold integrand. cbn [r_reg r_sing k_massive k_massless].
      set (Dr := eval sp ik_heavy_f2_cc_NonSinglet_NLO_reg z [l] - c2q1_reg z).
      set (Ds := eval sp ik_heavy_f2_cc_NonSinglet_NLO_sing z [l] - c2q1_sing z).
      replace (eval sp ik_heavy_f2_cc_NonSinglet_NLO_reg z [l] * (p (x / z) / z) + eval sp ik_heavy_f2_cc_NonSinglet_NLO_sing z [l] * (p (x / z) / z - p x)
               + - (c2q1_reg z * (p (x / z) / z) + c2q1_sing z * (p (x / z) / z - p x)))
        with (Dr * (p (x / z) / z) + Ds * (p (x / z) / z - p x)) by (unfold Dr, Ds; ring).
      pose proof (f2_reg_diff_sharp sp z l Hz01 Hl) as HR. fold Dr in HR.
      pose proof (f2_sing_diff_sharp sp z l Hz01 Hl) as HS. fold Ds in HS.
      set (L := ln (1 - l * z) - ln (1 - z)) in *. set (j := / (1 - l * z)) in *.
      assert (Hzi : 0 < / z <= / x) by (split; [apply Rinv_0_lt_compat; lra | apply Rinv_le_contravar; lra]).
      assert (Hu : x <= x / z <= 1).
      { split.
        - apply Rmult_le_reg_r with z; [lra|]. unfold Rdiv. rewrite Rmult_assoc, Rinv_l by lra. nra.
        - apply Rmult_le_reg_r with z; [lra|]. unfold Rdiv. rewrite Rmult_assoc, Rinv_l by lra. lra. }
      assert (P1 : Rabs (p (x / z) / z) <= A).
      { unfold Rdiv. rewrite Rabs_mult, (Rabs_pos_eq (/ z)) by lra. unfold A, Rdiv. apply Rmult_le_compat; try lra; [apply Rabs_pos | apply Hg, Hu]. }
      assert (P2 : Rabs (p (x / z) / z - p x) <= Bc * (1 - z)).
      { replace (p (x / z) / z - p x) with ((p (x / z) - p x) * / z + p x * (/ z - 1)) by (unfold Rdiv; ring).
        eapply Rle_trans; [apply Rabs_triang|]. rewrite !Rabs_mult, (Rabs_pos_eq (/ z)) by lra.
        assert (Hz1 : 1 <= / z) by (rewrite <- Rinv_1; apply Rinv_le_contravar; lra). rewrite (Rabs_pos_eq (/ z - 1)) by lra.
        assert (D1 : Rabs (p (x / z) - p x) <= Lp * (x * (/ z - 1))).
        { eapply Rle_trans; [apply HL; [exact Hu | lra]|]. apply Rmult_le_compat_l; [exact HLp|].
          replace (x / z - x) with (x * (/ z - 1)) by (unfold Rdiv; ring). rewrite Rabs_pos_eq; [lra|]. apply Rmult_le_pos; lra. }
        assert (D2 : Rabs (p x) <= G) by (apply Hg; lra).
        assert (Q : / z - 1 = (1 - z) * / z) by (field; lra). rewrite Q in *.
        assert (Hxx : / z * / z <= / (x * x)). { rewrite <- Rinv_mult by lra. apply Rinv_le_contravar; nra. }
        assert (T1 : Rabs (p (x / z) - p x) * / z <= Lp * x * (1 - z) * (/ z * / z)).
        { apply Rle_trans with (Lp * (x * ((1 - z) * / z)) * / z); [apply Rmult_le_compat_r; lra | apply Req_le; ring]. }
        assert (T2 : Rabs (p x) * ((1 - z) * / z) <= G * (1 - z) * (/ z * / z)).
        { apply Rle_trans with (G * ((1 - z) * / z)); [apply Rmult_le_compat_r; [apply Rmult_le_pos; lra | exact D2]|].
          replace (G * (1 - z) * (/ z * / z)) with (G * ((1 - z) * / z) * / z) by ring.
          rewrite <- (Rmult_1_r (G * ((1 - z) * / z))) at 1. apply Rmult_le_compat_l; [apply Rmult_le_pos; [lra | apply Rmult_le_pos; lra] | exact Hz1]. }
        unfold Bc, Rdiv.
        apply Rle_trans with ((Lp * x + G) * (1 - z) * (/ z * / z)); [lra|].
        replace ((Lp * x + G) * / (x * x) * (1 - z)) with ((Lp * x + G) * (1 - z) * / (x * x)) by ring.
        apply Rmult_le_compat_l; [apply Rmult_le_pos; nra | exact Hxx]. }
      (* assemble *)
      eapply Rle_trans; [apply Rabs_triang|]. rewrite !Rabs_mult.
      assert (S1 : Rabs Dr * Rabs (p (x / z) / z) <= 2 * CF * (4 * (1 - l) + 2 * L + 3 * (1 - l) * j) * A).
      { apply Rmult_le_compat; try assumption; apply Rabs_pos. }
      assert (S2 : Rabs Ds * Rabs (p (x / z) / z - p x) <= 2 * CF * (4 * (1 - l) + 2 * L + (1 - l) * j) * Bc).
      { apply Rle_trans with (Rabs Ds * (Bc * (1 - z))); [apply Rmult_le_compat_l; [apply Rabs_pos | exact P2]|].
        replace (Rabs Ds * (Bc * (1 - z))) with (Rabs Ds * (1 - z) * Bc) by ring. apply Rmult_le_compat_r; assumption. }
      unfold bf. fold L j. unfold CF in *. lra.
    + apply (is_RInt_gen_minus (V := R_NormedModule)); assumption.
    + (* the integral of the bounding function *)
      unfold remainder, int_L. fold A Bc. unfold bf.
      evar_last.
      * apply (is_RInt_gen_scal (V := R_NormedModule) _ (2 * CF)).
        apply (is_RInt_gen_plus (V := R_NormedModule)); [apply (is_RInt_gen_plus (V := R_NormedModule))|].
        -- apply (int_const ((A + Bc) * (4 * (1 - l))) x). lra.
        -- apply (is_RInt_gen_scal (V := R_NormedModule) _ (2 * (A + Bc))).
           apply (is_RInt_gen_minus (V := R_NormedModule)); [apply (int_ln_1mlz l x Hl Hx) | apply (int_ln_1mz x Hx)].
        -- apply (is_RInt_gen_scal (V := R_NormedModule) _ (3 * A + Bc)).
           apply (is_RInt_gen_scal (V := R_NormedModule) _ (1 - l)). apply (int_inv_1mlz l x Hl Hx).
      * unfold scal, plus, minus, opp; cbn. unfold mult; cbn. ring.
  - (* the local part *)
    rewrite Rabs_mult, Rmult_comm.
    apply Rmult_le_compat; try apply Rabs_pos; [|apply Hg; lra].
    apply (quark_f2_loc_limit sp l x Hsp Hrefl Hl). lra.
Qed.

(* ---------------- the remainder is O((1-l)(1 + |ln(1-l)|)): explicit bounds of its two non-trivial pieces *)
Lemma gl_piece_bound l x : 1 / 2 <= l < 1 -> 0 < x < 1 -> 0 <= (1 - l) * (Gl l 1 - Gl l x) <= 2 * (1 - l) * (- ln (1 - l)).
Proof.
  intros Hl Hx. unfold Gl. replace (1 - l * 1) with (1 - l) by ring.
  assert (Hlx : 0 < 1 - l * x < 1) by (split; nra).
  assert (H1 : ln (1 - l) <= ln (1 - l * x)).
  { destruct (Req_dec (1 - l) (1 - l * x)) as [->|Hne]; [lra|]. apply Rlt_le, ln_increasing; nra. }
  assert (H2 : ln (1 - l * x) <= 0) by (rewrite <- ln_1; apply Rlt_le, ln_increasing; lra).
  assert (Hi : 1 < / l <= 2).
  { split; [rewrite <- Rinv_1; apply Rinv_lt_contravar; lra|]. apply Rmult_le_reg_l with l; [lra|]. rewrite Rinv_r by lra. lra. }
  replace (- ln (1 - l) / l - - ln (1 - l * x) / l) with ((ln (1 - l * x) - ln (1 - l)) * / l) by (unfold Rdiv; ring).
  set (d := ln (1 - l * x) - ln (1 - l)). assert (Hd : 0 <= d <= - ln (1 - l)) by (unfold d; lra).
  assert (0 <= d * / l <= - ln (1 - l) * 2) by (split; [apply Rmult_le_pos; lra | apply Rmult_le_compat; lra]).
  split; [apply Rmult_le_pos; lra | nra].
Qed.
Lemma phi_lipschitz t0 t1 : 0 < t0 <= t1 -> t1 <= 1 -> Rabs (t1 * ln t1 - t0 * ln t0) <= (t1 - t0) * (1 - ln t0).
Proof.
  intros H0 H1. destruct (Req_dec t0 t1) as [->|Hne]; [replace (t1 * ln t1 - t1 * ln t1) with 0 by ring; rewrite Rabs_R0; assert (ln t1 <= 0) by (rewrite <- ln_1; destruct (Req_dec t1 1) as [->|]; [lra | left; apply ln_increasing; lra]); nra|].
  destruct (MVT_cor2 (fun t => t * ln t) (fun t => 1 + ln t) t0 t1 ltac:(lra)) as [c [E Hc]].
  - intros t Ht. apply is_derive_Reals. auto_derive; [lra|]. field. lra.
  - rewrite E. rewrite Rabs_mult, (Rabs_pos_eq (t1 - t0)) by lra. rewrite Rmult_comm. apply Rmult_le_compat_l; [lra|].
    assert (ln t0 <= ln c) by (left; apply ln_increasing; lra).
    assert (ln c <= 0) by (rewrite <- ln_1; left; apply ln_increasing; lra).
    apply Rabs_le. lra.
Qed.
Lemma int_L_bound l x : 1 / 2 <= l < 1 -> 0 < x < 1 ->
  Rabs (int_L l x) <= (1 - l) * (2 * (- ln (1 - l)) + (1 - ln (1 - x)) + 4).
Proof.
  intros Hl Hx. unfold int_L, Fl, Fex. replace (1 - l * 1) with (1 - l) by ring.
  assert (Hlx : 0 < 1 - l * x <= 1) by (split; nra).
  assert (Hi : 1 < / l <= 2).
  { split; [rewrite <- Rinv_1; apply Rinv_lt_contravar; lra|]. apply Rmult_le_reg_l with l; [lra|]. rewrite Rinv_r by lra. lra. }
  set (t0 := 1 - x). set (t1 := 1 - l * x). set (e := 1 - l).
  replace (- e * ln e / l - 1 - (- t1 * ln t1 / l - x) - (-1 - (- t0 * ln t0 - x)))
    with (- (e * ln e) * / l + (t1 * ln t1 - t0 * ln t0) + (/ l - 1) * (t1 * ln t1)) by (unfold t0, Rdiv; ring).
  assert (Ht : 0 < t0 <= t1) by (unfold t0, t1; split; nra).
  pose proof (phi_lipschitz t0 t1 Ht ltac:(unfold t1; lra)) as HP.
  assert (Hd : t1 - t0 = e * x) by (unfold t1, t0, e; ring). rewrite Hd in HP.
  pose proof (t_ln_t_bound t1 ltac:(unfold t1; lra)) as HT.
  assert (Hs : sqrt t1 <= 1) by (rewrite <- sqrt_1; apply sqrt_le_1_alt; unfold t1; lra).
  assert (He : 0 < e <= 1 / 2) by (unfold e; lra).
  assert (Hle : ln e < 0) by (rewrite <- ln_1; apply ln_increasing; lra).
  assert (Hil : 0 < / l - 1 <= 2 * e).
  { split; [lra|]. unfold e. apply Rmult_le_reg_l with l; [lra|]. replace (l * (/ l - 1)) with (1 - l) by (field; lra). nra. }
  assert (Hlt0 : ln t0 <= 0) by (rewrite <- ln_1; left; apply ln_increasing; unfold t0; lra).
  eapply Rle_trans; [apply Rabs_triang|]. eapply Rle_trans; [apply Rplus_le_compat_r, Rabs_triang|].
  assert (B1 : Rabs (- (e * ln e) * / l) <= e * (2 * - ln e)).
  { rewrite Rabs_mult, (Rabs_pos_eq (/ l)), Rabs_Ropp by lra. rewrite (Rabs_left1 (e * ln e)) by (apply Rmult_le_0_l; lra).
    replace (e * (2 * - ln e)) with (- (e * ln e) * 2) by ring. apply Rmult_le_compat_l; [|lra]. assert (e * ln e <= 0) by (apply Rmult_le_0_l; lra). lra. }
  assert (B2 : Rabs (t1 * ln t1 - t0 * ln t0) <= e * (1 - ln t0)).
  { eapply Rle_trans; [exact HP|]. rewrite Rmult_assoc. apply Rmult_le_compat_l; [lra|].
    rewrite <- (Rmult_1_l (1 - ln t0)) at 2. apply Rmult_le_compat_r; lra. }
  assert (B3 : Rabs ((/ l - 1) * (t1 * ln t1)) <= e * 4).
  { rewrite Rabs_mult, (Rabs_pos_eq (/ l - 1)) by lra. apply Rle_trans with (2 * e * 2); [|lra].
    assert (Rabs (t1 * ln t1) <= 2) by lra.
    apply Rmult_le_compat; [lra | apply Rabs_pos | lra | assumption]. }
  fold t0. lra.
Qed.

(* ---------------- the statement of C08 for this channel: for ANY bounded Lipschitz PDF the massive and the asymptotic contribution differ
   by at most K (1 - l)(1 + |ln(1 - l)|), 1 - l = m2/(Q2 + m2): a power of m2/Q2 times a logarithm, K explicit *)
Definition Kconst (x G Lp : R) : R :=
  let A := G / x in let Bc := (Lp * x + G) / (x * x) in
  2 * CF * ((A + Bc) * (4 + 2 * (7 - ln (1 - x))) + 2 * (3 * A + Bc)) + (12 * CF + A2sing x * x) * G.
Theorem quark_f2_distribution_rate sp l x p G Lp v w : special_ok sp -> reflection sp l -> 1 / 2 <= l < 1 -> 0 < x < 1 -> 0 <= Lp ->
  (forall u, x <= u <= 1 -> Rabs (p u) <= G) ->
  (forall u t, x <= u <= 1 -> x <= t <= 1 -> Rabs (p u - p t) <= Lp * Rabs (u - t)) ->
  is_conv (k_massive sp l) p x v -> is_conv k_massless p x w ->
  Rabs (v - w) <= (1 - l) * (1 + - ln (1 - l)) * Kconst x G Lp.
Proof.
  intros Hsp Hrefl Hl Hx HLp Hg HL Hv Hw.
  eapply Rle_trans; [apply (quark_f2_distribution sp l x p G Lp v w); assumption|].
  assert (G0 : 0 <= G) by (eapply Rle_trans; [apply Rabs_pos | apply (Hg x); lra]).
  unfold remainder, Kconst. set (A := G / x). set (Bc := (Lp * x + G) / (x * x)).
  assert (A0 : 0 <= A) by (unfold A; apply Rmult_le_pos; [lra | left; apply Rinv_0_lt_compat; lra]).
  assert (B0 : 0 <= Bc) by (unfold Bc; apply Rmult_le_pos; [nra | left; apply Rinv_0_lt_compat; nra]).
  set (e := 1 - l). assert (He : 0 < e <= 1 / 2) by (unfold e; lra).
  set (La := - ln e). assert (HLa : 0 < La) by (unfold La, e; assert (ln (1 - l) < 0) by (rewrite <- ln_1; apply ln_increasing; lra); lra).
  pose proof (int_L_bound l x Hl Hx) as HI. fold e La in HI.
  pose proof (gl_piece_bound l x Hl Hx) as HGl. fold e La in HGl.
  set (lx := - ln (1 - x)) in *. assert (Hlx : 0 < lx) by (unfold lx; assert (ln (1 - x) < 0) by (rewrite <- ln_1; apply ln_increasing; lra); lra).
  replace (1 - ln (1 - x)) with (1 + lx) in HI by (unfold lx; ring). replace (7 - ln (1 - x)) with (7 + lx) by (unfold lx; ring).
  assert (HS : 0 <= A2sing x * x).
  { apply Rmult_le_pos; [|lra]. unfold A2sing, CF. assert (Hi : 0 < / (1 - x)) by (apply Rinv_0_lt_compat; lra).
    replace (4 / (1 - x) + 2 / (1 - x) ^ 2 + 3 / (2 * (1 - x) ^ 3)) with (4 * / (1 - x) + 2 * (/ (1 - x) * / (1 - x)) + 3 / 2 * (/ (1 - x) * / (1 - x) * / (1 - x))) by (field; lra).
    assert (0 < / (1 - x) * / (1 - x)) by (apply Rmult_lt_0_compat; lra). assert (0 < / (1 - x) * / (1 - x) * / (1 - x)) by (apply Rmult_lt_0_compat; lra). lra. }
  set (Sx := A2sing x * x) in *.
  set (IL := int_L l x) in *. set (Gp := e * (Gl l 1 - Gl l x)) in *.
  assert (HI' : IL <= e * (2 * La + (1 + lx) + 4)) by (pose proof (Rle_abs IL); lra).
  unfold CF in *.
  (* term by term against e (1 + La) *)
  assert (T1 : (A + Bc) * (4 * e * 1 - 4 * e * x) <= e * (1 + La) * ((A + Bc) * 4)).
  { replace ((A + Bc) * (4 * e * 1 - 4 * e * x)) with (4 * e * (A + Bc) * (1 - x)) by ring.
    replace (e * (1 + La) * ((A + Bc) * 4)) with (4 * e * (A + Bc) * (1 + La)) by ring.
    apply Rmult_le_compat_l; [apply Rmult_le_pos; lra | lra]. }
  assert (T2 : 2 * (A + Bc) * IL <= e * (1 + La) * (2 * (A + Bc) * (7 + lx))).
  { apply Rle_trans with (2 * (A + Bc) * (e * (2 * La + (1 + lx) + 4))); [apply Rmult_le_compat_l; lra|].
    assert (2 * La + (1 + lx) + 4 <= (1 + La) * (7 + lx)) by nra.
    replace (e * (1 + La) * (2 * (A + Bc) * (7 + lx))) with (2 * (A + Bc) * (e * ((1 + La) * (7 + lx)))) by ring.
    apply Rmult_le_compat_l; [lra|]. apply Rmult_le_compat_l; lra. }
  assert (T3 : (3 * A + Bc) * Gp <= e * (1 + La) * (2 * (3 * A + Bc))).
  { apply Rle_trans with ((3 * A + Bc) * (2 * e * La)); [apply Rmult_le_compat_l; lra|]. nra. }
  assert (T4 : e * (2 * (4 / 3) * (4 + 6 * La) + Sx) * G <= e * (1 + La) * ((12 * (4 / 3) + Sx) * G)).
  { assert (2 * (4 / 3) * (4 + 6 * La) + Sx <= (1 + La) * (12 * (4 / 3) + Sx)) by nra.
    replace (e * (1 + La) * ((12 * (4 / 3) + Sx) * G)) with (e * ((1 + La) * (12 * (4 / 3) + Sx)) * G) by ring.
    apply Rmult_le_compat_r; [lra|]. apply Rmult_le_compat_l; lra. }
  fold e La. nra.
Qed.
