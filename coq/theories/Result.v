(* Result.v — executable model of esf/result.py (ESFResult: __add__, __mul__ by a scalar or a
   (value, error) pair, __neg__, __sub__, apply_pdf) over the abstract field. An entry of a tensor is a
   scalar here; all operations of the code are entry-wise, so one scalar stands for any entry.
   Hand-written; tied by tools/corr/results.py. *)
From Coq Require Import ZArith List Bool.
From Yad Require Import Base.
Import ListNotations.

Definition okey := (Z * Z * Z * Z)%type.     (* (a_s power, alpha power, lnR power, lnF power) *)
Definition okey_eqb (a b : okey) : bool :=
  let '(a1, a2, a3, a4) := a in let '(b1, b2, b3, b4) := b in
  ((a1 =? b1) && (a2 =? b2) && (a3 =? b3) && (a4 =? b4))%Z.
Lemma okey_eqb_spec a b : okey_eqb a b = true <-> a = b.
Proof.
  destruct a as [[[a1 a2] a3] a4], b as [[[b1 b2] b3] b4]; cbn. rewrite !andb_true_iff, !Z.eqb_eq.
  split; [intros [[[-> ->] ->] ->]; reflexivity | intros E; injection E; auto].
Qed.
Lemma okey_eqb_refl a : okey_eqb a a = true.
Proof. apply okey_eqb_spec. reflexivity. Qed.

Section Result.
  Context {fld : Fld}.
  Local Open Scope F_scope.

  (* orders: insertion-ordered dict key -> (value, error) *)
  Definition result := list (okey * (F * F)).
  Fixpoint rfind (r : result) (k : okey) : option (F * F) :=
    match r with [] => None | (k', v) :: t => if okey_eqb k k' then Some v else rfind t k end.
  Definition rhas (r : result) (k : okey) : bool := match rfind r k with Some _ => true | None => false end.
  Definition rval (r : result) (k : okey) : F := match rfind r k with Some (v, _) => v | None => f0 end.
  Definition rerr (r : result) (k : okey) : F := match rfind r k with Some (_, e) => e | None => f0 end.

  (* __add__ *)
  Definition radd (a b : result) : result :=
    map (fun kv => let '(k, (v, e)) := kv in
                   match rfind b k with Some (v', e') => (k, (v + v', e + e')) | None => (k, (v, e)) end) a
    ++ filter (fun kv => negb (rhas a (fst kv))) b.
  (* __mul__ with a (value, error) pair; a plain number is (val, 0) *)
  Definition rmul2 (c ce : F) (a : result) : result :=
    map (fun kv => let '(k, (v, e)) := kv in (k, (c * v, c * e + ce * v))) a.
  Definition rmul (c : F) (a : result) : result := rmul2 c f0 a.
  Definition rneg (a : result) : result := rmul (- f1) a.
  Definition rsub (a b : result) : result := radd a (rneg b).

  (* ---------------------------------------------------------------- apply_pdf *)
  (* one stored order: key, tensor of values (pid-major rows) ; pdfs: same shape, rows = pids, entries
     f_pid(x_j, muF2)/x_j or 0 for a flavour the PDF set does not have *)
  Definition tensor := list (list F).
  (* pdfs i j = f_{pids[i]}(xgrid[j], muF2) / xgrid[j], or 0 when the set has no such flavour *)
  Fixpoint dotf (u : list F) (f : nat -> F) (j : nat) : F :=
    match u with [] => f0 | a :: u' => a * f j + dotf u' f (S j) end.
  Fixpoint contractf (t : tensor) (f : nat -> nat -> F) (i : nat) : F :=
    match t with [] => f0 | r :: t' => dotf r (f i) 0 + contractf t' f (S i) end.
  Definition contract2 (t : tensor) (f : nat -> nat -> F) : F := contractf t f 0.
  Fixpoint fpow (a : F) (n : nat) : F := match n with O => f1 | S k => a * fpow a k end.
  (* prefactor a_s^o0 * alpha^o1 * LR^o2 * LF^o3, with the code's special-casing of power 0 *)
  Definition prefactor (a_s aqed LR LF : F) (k : okey) : F :=
    let '(o0, o1, o2, o3) := k in
    fpow a_s (Z.to_nat o0) * fpow aqed (Z.to_nat o1)
    * (if (o2 =? 0)%Z then f1 else fpow LR (Z.to_nat o2)) * (if (o3 =? 0)%Z then f1 else fpow LF (Z.to_nat o3)).
  Definition apply_pdf (orders : list (okey * tensor)) (pdfs : nat -> nat -> F) (a_s aqed LR LF : F) : F :=
    fold_left (fun acc kt => acc + prefactor a_s aqed LR LF (fst kt) * contract2 (snd kt) pdfs) orders f0.
End Result.
