(* CorrOutcome.v — agreement predicate for tools/corr/outcome.py *)
From Coq Require Import ZArith List Bool String.
From Yad Require Import Base Couplings Weights Combiner Thresholds Outcome.
Import ListNotations.
(* observed class: 0 Ok, 1 Rejected, 2 Crash *)
Definition class_of {A} (o : outcome A) : Z := match o with Ok _ => 0 | Rejected _ => 1 | Crash _ => 2 end%Z.
Definition ocase_ok (inv : inventory) (c : cell * Z) : bool := (class_of (run_outcome inv (fst c)) =? snd c)%Z.
