(* SVTheorems.v — theorems about the scale-variation model (C05). *)
From Coq Require Import ZArith List Bool Field Lia.
From Yad Require Import Base Result ScaleVar.
Import ListNotations.

Section T.
  Context {fld : Fld}.
  Add Field FfS : Fth.
  Local Open Scope F_scope.

  (* ---------------------------------------------------------------- list helpers *)
  Lemma filter_flat_map_nil {A B} (p : B -> bool) (f : A -> list B) l :
    (forall x, In x l -> filter p (f x) = []) -> filter p (flat_map f l) = [].
  Proof.
    induction l as [|x l IH]; cbn [flat_map]; intros H; [reflexivity|].
    rewrite filter_app, (H x (or_introl eq_refl)), IH; [reflexivity|]. intros y Hy. apply H. right. exact Hy.
  Qed.
  Lemma filter_all_false {A} (p : A -> bool) l : (forall x, In x l -> p x = false) -> filter p l = [].
  Proof.
    induction l as [|x l IH]; cbn [filter]; intros H; [reflexivity|].
    rewrite (H x (or_introl eq_refl)). apply IH. intros y Hy. apply H. right. exact Hy.
  Qed.
  Lemma filter_all_true {A} (p : A -> bool) l : (forall x, In x l -> p x = true) -> filter p l = l.
  Proof.
    induction l as [|x l IH]; cbn [filter]; intros H; [reflexivity|].
    rewrite (H x (or_introl eq_refl)). f_equal. apply IH. intros y Hy. apply H. right. exact Hy.
  Qed.
  Lemma filter_comm {A} (p q : A -> bool) l : filter p (filter q l) = filter q (filter p l).
  Proof.
    induction l as [|x l IH]; cbn [filter]; [reflexivity|].
    destruct (p x) eqn:P, (q x) eqn:Q; cbn [filter]; rewrite ?P, ?Q, IH; reflexivity.
  Qed.
  Lemma flat_map_app' {A B} (f : A -> list B) l m : flat_map f (l ++ m) = flat_map f l ++ flat_map f m.
  Proof. induction l as [|x l IH]; cbn [flat_map app]; [reflexivity | rewrite IH, app_assoc; reflexivity]. Qed.

  (* ---------------------------------------------------------------- keys produced by the diff step *)
  Definition lnR0 (e : entry) : bool := (okey_r (e_key e) =? 0)%Z.
  Definition lnF0 (e : entry) : bool := (okey_f (e_key e) =? 0)%Z.
  (* every ren coefficient carries at least one power of ln(muF2/muR2) *)
  Definition rc_pos (rc : list ((Z * Z * Z) * F)) : Prop := forall t n s c, In ((t, n, s), c) rc -> (1 <= n)%Z.
  (* every factorisation matrix carries at least one power of ln(Q2/muF2) *)
  Definition fm_pos (fm : list ((Z * Z * Z) * list mat)) : Prop := forall t n s ms, In ((t, n, s), ms) fm -> (1 <= n)%Z.

  Lemma diff_one_keys rc e e' : In e' (diff_one rc e) ->
    exists t n s c j, In ((t, n, s), c) rc /\ (0 <= j <= Z.to_nat n)%nat
      /\ e_key e' = (t, okey_q (e_key e), Z.of_nat j, (Z.of_nat (Z.to_nat n - j) + okey_f (e_key e))%Z).
  Proof.
    unfold diff_one. rewrite in_flat_map. intros (r & Hr & He').
    unfold raw_diff_one in Hr. rewrite in_flat_map in Hr. destruct Hr as ([[[t n] s] c] & Hin & Hr).
    destruct (s =? okey_o (e_key e))%Z; [|destruct Hr]. destruct Hr as [<- | []].
    unfold split_one in He'; cbn [e_key okey_r okey_o okey_q okey_f fst snd] in He'.
    rewrite in_map_iff in He'. destruct He' as (j & <- & Hj). rewrite in_seq in Hj.
    exists t, n, s, c, j. repeat split; try exact Hin; try lia.
  Qed.
  Lemma diff_no_lnR0_lnF0 rc e e' : rc_pos rc -> (0 <= okey_f (e_key e))%Z -> In e' (diff_one rc e) ->
    lnR0 e' && lnF0 e' = false.
  Proof.
    intros Hrc Hf Hin. destruct (diff_one_keys rc e e' Hin) as (t & n & s & c & j & Hc & Hj & Hk).
    pose proof (Hrc t n s c Hc) as Hn. unfold lnR0, lnF0. rewrite Hk. cbn [okey_r okey_f fst snd].
    destruct (Z.eqb_spec (Z.of_nat j) 0); [|reflexivity]. cbn [andb]. apply Z.eqb_neq. lia.
  Qed.
  Lemma diff_keeps_lnF_pos rc e e' : (1 <= okey_f (e_key e))%Z -> In e' (diff_one rc e) -> lnF0 e' = false.
  Proof.
    intros Hf Hin. destruct (diff_one_keys rc e e' Hin) as (t & n & s & c & j & Hc & Hj & Hk).
    unfold lnF0. rewrite Hk. cbn [okey_f snd]. apply Z.eqb_neq. lia.
  Qed.
  Lemma common_one_keys fm projs e e' : In e' (common_one fm projs e) ->
    exists t n s ms, In ((t, n, s), ms) fm /\ e_key e' = (t, okey_q (e_key e), 0%Z, n).
  Proof.
    unfold common_one. destruct (e_terms e) as [|[p v] ts]; [intros []|].
    rewrite in_flat_map. intros ([[[t n] s] ms] & Hin & H).
    destruct (s =? okey_o (e_key e))%Z; [|destruct H]. destruct H as [<- | []].
    exists t, n, s, ms. split; [exact Hin | reflexivity].
  Qed.

  (* ---------------------------------------------------------------- switching a variation off *)
  Definition base_ok (base : list entry) : Prop :=
    forall e, In e base -> okey_r (e_key e) = 0%Z /\ okey_f (e_key e) = 0%Z.

  (* factorisation variation off = exactly the lnF = 0 part of the all-on result, nothing else changes *)
  Theorem fact_off ren intr fm projs rc base : rc_pos rc -> fm_pos fm -> base_ok base ->
    filter lnF0 (sv_kernel ren true intr fm projs rc base) = sv_kernel ren false intr fm projs rc base.
  Proof.
    intros Hrc Hfm Hb.
    assert (Bf : filter lnF0 base = base).
    { apply filter_all_true. intros e He. unfold lnF0. rewrite (proj2 (Hb e He)). reflexivity. }
    assert (Dempty : forall l, (forall e, In e l -> (0 <= okey_f (e_key e))%Z) ->
                     filter lnF0 (filter lnR0 (flat_map (diff_one rc) l)) = []).
    { intros l Hl. apply filter_all_false. intros x Hx. apply filter_In in Hx. destruct Hx as [Hx Hr].
      apply in_flat_map in Hx. destruct Hx as (e & He & Hx).
      pose proof (diff_no_lnR0_lnF0 rc e x Hrc (Hl e He) Hx) as H. rewrite Hr in H. exact H. }
    assert (B0 : forall e, In e base -> (0 <= okey_f (e_key e))%Z).
    { intros e He. rewrite (proj2 (Hb e He)). lia. }
    unfold sv_kernel. destruct intr.
    - (* intrinsic *)
      rewrite filter_app, Bf. f_equal. unfold apply_diff. destruct ren; cbn [negb andb].
      + rewrite filter_comm. reflexivity.
      + rewrite filter_comm at 1. rewrite filter_comm. rewrite Dempty by exact B0. reflexivity.
    - unfold apply_common. cbn [app]. rewrite app_nil_r.
      set (C := flat_map (common_one fm projs) base).
      assert (Cpos : forall e, In e C -> (1 <= okey_f (e_key e))%Z).
      { intros e He. apply in_flat_map in He. destruct He as (b & Hb' & He).
        destruct (common_one_keys fm projs b e He) as (t & n & s & ms & Hin & ->). cbn. exact (Hfm t n s ms Hin). }
      assert (Cf : filter lnF0 C = []).
      { apply filter_all_false. intros e He. unfold lnF0. apply Z.eqb_neq. pose proof (Cpos e He). lia. }
      rewrite !filter_app, Bf, Cf. cbn [app]. rewrite app_nil_r. f_equal.
      unfold apply_diff. destruct ren; cbn [negb andb].
      + rewrite flat_map_app', filter_app.
        replace (filter lnF0 (flat_map (diff_one rc) C)) with (@nil entry); [rewrite app_nil_r; reflexivity|].
        symmetry. apply filter_flat_map_nil. intros e He. apply filter_all_false. intros x Hx.
        apply (diff_keeps_lnF_pos rc e x (Cpos e He) Hx).
      + apply Dempty. intros e He. apply in_app_or in He. destruct He as [He|He]; [apply B0; exact He|].
        pose proof (Cpos e He). lia.
  Qed.

  (* renormalisation variation off = exactly the lnR = 0 part of the all-on result *)
  Theorem ren_off fact intr fm projs rc base : rc_pos rc -> base_ok base ->
    filter lnR0 (sv_kernel true fact intr fm projs rc base) = sv_kernel false fact intr fm projs rc base.
  Proof.
    intros Hrc Hb.
    assert (Br : filter lnR0 base = base).
    { apply filter_all_true. intros e He. unfold lnR0. rewrite (proj1 (Hb e He)). reflexivity. }
    assert (B0 : forall e, In e base -> (0 <= okey_f (e_key e))%Z).
    { intros e He. rewrite (proj2 (Hb e He)). lia. }
    assert (Dempty : forall l, (forall e, In e l -> (0 <= okey_f (e_key e))%Z) ->
                     filter lnR0 (filter lnF0 (flat_map (diff_one rc) l)) = []).
    { intros l Hl. apply filter_all_false. intros x Hx. apply filter_In in Hx. destruct Hx as [Hx Hf].
      apply in_flat_map in Hx. destruct Hx as (e & He & Hx).
      pose proof (diff_no_lnR0_lnF0 rc e x Hrc (Hl e He) Hx) as H. rewrite Hf, andb_true_r in H. exact H. }
    unfold sv_kernel. destruct intr.
    - rewrite filter_app, Br. f_equal. unfold apply_diff. destruct fact; cbn [negb andb].
      + rewrite filter_comm. reflexivity.
      + rewrite filter_comm. rewrite Dempty by exact B0. reflexivity.
    - set (C := apply_common fact fm projs base).
      assert (Cr : filter lnR0 C = C).
      { apply filter_all_true. intros e He. unfold C, apply_common in He. destruct fact; [|destruct He].
        apply in_flat_map in He. destruct He as (b & _ & He).
        destruct (common_one_keys fm projs b e He) as (t & n & s & ms & _ & Hk). unfold lnR0. rewrite Hk. reflexivity. }
      rewrite !filter_app, Br, Cr. f_equal. unfold apply_diff. destruct fact; cbn [negb andb]; [reflexivity|].
      unfold C, apply_common. rewrite app_nil_r. apply Dempty. exact B0.
  Qed.
  (* both off: only the central orders remain *)
  Theorem both_off intr fm projs rc base : sv_kernel false false intr fm projs rc base = base.
  Proof. unfold sv_kernel, apply_diff, apply_common. destruct intr; cbn; rewrite ?app_nil_r; reflexivity. Qed.

  (* the intrinsic channel never produces a term with a power of lnF *)
  Theorem intrinsic_no_fact ren fact fm projs rc base e : base_ok base ->
    In e (sv_kernel ren fact true fm projs rc base) -> okey_f (e_key e) = 0%Z.
  Proof.
    intros Hb He. unfold sv_kernel in He. apply in_app_or in He. destruct He as [He|He].
    - exact (proj2 (Hb e He)).
    - apply filter_In in He. destruct He as [_ H]. apply Z.eqb_eq in H. exact H.
  Qed.

  (* the concrete coefficient tables satisfy the two side conditions *)
  Lemma ren_coeffs_pos order nf : rc_pos (ren_coeffs order nf).
  Proof.
    intros t n s c Hin. unfold ren_coeffs in Hin. apply filter_In in Hin. destruct Hin as [Hin _].
    cbn [In] in Hin. destruct Hin as [H|[H|[H|[H|[]]]]]; injection H as <- <- <- <-; lia.
  Qed.
  Lemma sector_mapping_pos ops nf order : fm_pos (sector_mapping ops nf order).
  Proof.
    intros t n s ms Hin. unfold sector_mapping in Hin. apply in_app_or in Hin.
    destruct Hin as [Hin|Hin]; [destruct (1 <=? order)%Z | destruct (2 <=? order)%Z]; cbn [In] in Hin;
      repeat (destruct Hin as [Hin|Hin]; [injection Hin as <- <- <- <-; lia|]); destruct Hin.
  Qed.

  (* ---------------------------------------------------------------- the renormalisation-group content *)
  (* With a = alpha_s(muR)/4pi, da/dln muR^2 = -beta0 a^2 - beta1 a^3, L_R = ln(Q2/muR2), independence of
     sum_k a^k L_R^i C_{k,i} from muR up to O(a^{pto+1}) is, order by order:
        a^2 :  C_{2,1} = -beta0 C_{1,0}
        a^3 :  C_{3,1} = -2 beta0 C_{2,0} - beta1 C_{1,0},   C_{3,2} = beta0^2 C_{1,0}
     and the code works with ln(muF2/muR2) = L_R - L_F, so a term C L_F^f spawns, for a source order o,
     c * (L_R - L_F)^n ... the binomial split below. The diff step does exactly this, entry by entry: *)
  Definition scaled (k : okey) (c : F) (e : entry) : entry := {| e_key := k; e_terms := scale_terms c (e_terms e) |}.

  Theorem diff_of_nlo_entry nf q f ts :
    let e := {| e_key := (1, q, 0, f)%Z; e_terms := ts |} in
    diff_one (ren_coeffs 2 nf) e
      = [scaled (2, q, 0, 1 + f)%Z (f1) (scaled (2, q, 1, f)%Z (beta0 nf) e);
         scaled (2, q, 1, 0 + f)%Z (- f1) (scaled (2, q, 1, f)%Z (beta0 nf) e)]
    /\ diff_one (ren_coeffs 3 nf) e
      = [scaled (2, q, 0, 1 + f)%Z f1 (scaled (2, q, 1, f)%Z (beta0 nf) e);
         scaled (2, q, 1, 0 + f)%Z (- f1) (scaled (2, q, 1, f)%Z (beta0 nf) e);
         scaled (3, q, 0, 1 + f)%Z f1 (scaled (3, q, 1, f)%Z (beta1 nf) e);
         scaled (3, q, 1, 0 + f)%Z (- f1) (scaled (3, q, 1, f)%Z (beta1 nf) e);
         scaled (3, q, 0, 2 + f)%Z f1 (scaled (3, q, 2, f)%Z (beta0 nf * beta0 nf) e);
         scaled (3, q, 1, 1 + f)%Z (- two) (scaled (3, q, 2, f)%Z (beta0 nf * beta0 nf) e);
         scaled (3, q, 2, 0 + f)%Z f1 (scaled (3, q, 2, f)%Z (beta0 nf * beta0 nf) e)].
  Proof. split; reflexivity. Qed.
  Theorem diff_of_nnlo_entry nf q f ts :
    let e := {| e_key := (2, q, 0, f)%Z; e_terms := ts |} in
    diff_one (ren_coeffs 2 nf) e = []
    /\ diff_one (ren_coeffs 3 nf) e
      = [scaled (3, q, 0, 1 + f)%Z f1 (scaled (3, q, 1, f)%Z (two * beta0 nf) e);
         scaled (3, q, 1, 0 + f)%Z (- f1) (scaled (3, q, 1, f)%Z (two * beta0 nf) e)].
  Proof. split; reflexivity. Qed.
  Theorem diff_of_other_entry order nf o q r f ts : (o <> 1)%Z -> (o <> 2)%Z ->
    diff_one (ren_coeffs order nf) {| e_key := (o, q, r, f); e_terms := ts |} = [].
  Proof.
    intros H1 H2. unfold diff_one, raw_diff_one, ren_coeffs; cbn [e_key okey_o fst].
    assert (E1 : (1 =? o)%Z = false) by (apply Z.eqb_neq; congruence).
    assert (E2 : (2 =? o)%Z = false) by (apply Z.eqb_neq; congruence).
    cbn [filter fst]. destruct (2 <=? order)%Z, (3 <=? order)%Z; cbn [flat_map app]; rewrite ?E1, ?E2; reflexivity.
  Qed.
  Theorem ren_coeffs_lo_nlo nf : ren_coeffs 0 nf = [] /\ ren_coeffs 1 nf = [].
  Proof. split; reflexivity. Qed.

  (* meaning of a scaled entry *)
  Lemma entry_at_scaled k c e i j : entry_at (scaled k c e) i j = c * entry_at e i j.
  Proof.
    unfold entry_at, scaled, scale_terms; cbn [e_terms]. induction (e_terms e) as [|t ts IH]; cbn [map fsum]; [ring|].
    rewrite IH. unfold term_at; cbn [fst snd]. unfold vscal. 
    assert (E : nth i (map (fmul c) (fst t)) f0 = c * nth i (fst t) f0).
    { clear. revert i; induction (fst t) as [|a l IH]; intros [|i]; cbn [map nth]; try ring; apply IH. }
    rewrite E. ring.
  Qed.

  (* which splitting operator acts in which sector for which (target order, lnF power, source order):
     the solution of  d/dlnmuF2 [C(L_F) x f] = 0  with  df/dlnmuF2 = (a P0 + a^2 P1) x f  and the running of a:
       C_{1,1} = C_0 P0 ;  C_{2,1} = C_1 (P0 - beta0) + C_0 P1 ;  C_{2,2} = 1/2 C_0 (P0 P0 - beta0 P0),
     P0 = [[qq, qg], [gq, gg]] in the singlet sector, qq in the non-singlet ones; C_0 has no gluon component. *)
  Theorem sector_mapping_table ops nf :
    let z := mzero_like (ops Pqq0) in
    sector_mapping ops nf 1 = [((1, 1, 0)%Z, [ops Pqq0; ops Pqg0; z; z; ops Pqq0; ops Pqq0; ops Pqq0])]
    /\ sector_mapping ops nf 2 =
       [((1, 1, 0)%Z, [ops Pqq0; ops Pqg0; z; z; ops Pqq0; ops Pqq0; ops Pqq0]);
        ((2, 1, 0)%Z, [ops Pqq1; ops Pqg1; z; z; ops Pnsm1; ops Pnsp1; ops Pnsm1]);
        ((2, 1, 1)%Z, [msub (ops Pqq0) (mscal (beta0 nf) (meye_like (ops Pqq0))); msub (ops Pqg0) (mzero_like (ops Pqg0));
                       msub (ops Pgq0) (mzero_like (ops Pgq0)); msub (ops Pgg0) (mscal (beta0 nf) (meye_like (ops Pgg0)));
                       msub (ops Pqq0) (mscal (beta0 nf) (meye_like (ops Pqq0)));
                       msub (ops Pqq0) (mscal (beta0 nf) (meye_like (ops Pqq0)));
                       msub (ops Pqq0) (mscal (beta0 nf) (meye_like (ops Pqq0)))]);
        ((2, 2, 0)%Z, [c220 ops nf [Pqq0sq; Pqg0Pgq0] Pqq0; c220 ops nf [Pqq0Pqg0; Pqg0Pgg0] Pqg0; z; z;
                       c220 ops nf [Pqq0sq] Pqq0; c220 ops nf [Pqq0sq] Pqq0; c220 ops nf [Pqq0sq] Pqq0])]
    /\ sector_mapping ops nf 3 = sector_mapping ops nf 2 /\ sector_mapping ops nf 0 = [].
  Proof. repeat split; reflexivity. Qed.
End T.
