(* GridExample.v — non-vacuity of the hypotheses of GlobalLipschitz.prediction-type theorems: the grid [1/4; 1/2; 1] with linear interpolation (d = 1)
   and f = exp meets them with h = 1/2, M = 3, Lam = 1, Lam1 = 8. *)
From Coq Require Import Reals List Lra Lia Arith Bool.
From Coquelicot Require Import Coquelicot.
From Yad Require Import Base Interp InterpTheorems InterpReal InterpDeriv GlobalInterp GlobalLipschitz.
Import ListNotations.
Open Scope R_scope.

Definition gex : list R := [1 / 4; 1 / 2; 1].
Lemma gex_sorted : sorted gex.
Proof.
  intros i j Hij Hj. cbn [gex length] in Hj. destruct j as [|[|[|j]]]; try lia; destruct i as [|[|i]]; try lia; cbn [gex nth]; lra.
Qed.
Lemma two_node_lag a b w : a <> b -> lag [a; b] 0 w = (w - b) / (a - b) /\ lag [a; b] 1 w = (w - a) / (b - a).
Proof. intros Hab. unfold lag. cbn [lagv nth Nat.eqb]. cbn [fmul fdiv fsub f1 RFld]. split; field; lra. Qed.
Lemma two_node_lebesgue a b w : a < b -> a <= w <= b -> lebesgue [a; b] w = 1.
Proof.
  intros Hab Hw. unfold lebesgue. cbn [length seq]. rewrite !rsum_cons, rsum_nil.
  destruct (two_node_lag a b w ltac:(lra)) as [E0 E1]. rewrite E0, E1.
  rewrite (Rabs_pos_eq ((w - a) / (b - a))) by (apply Rmult_le_pos; [lra | left; apply Rinv_0_lt_compat; lra]).
  assert (P : 0 <= (w - b) / (a - b)).
  { replace ((w - b) / (a - b)) with ((b - w) * / (b - a)) by (field; lra). apply Rmult_le_pos; [lra | left; apply Rinv_0_lt_compat; lra]. }
  rewrite (Rabs_pos_eq _ P). change ((w - b) / (a - b) + ((w - a) / (b - a) + 0) = 1). field. split; lra.
Qed.
Lemma two_node_lebesgue1 a b w : a < b -> lebesgue1 [a; b] w = 2 / (b - a).
Proof.
  intros Hab. unfold lebesgue1, dlag. cbn [length seq]. rewrite !rsum_cons, rsum_nil.
  assert (D0 : Derive (lag [a; b] 0) w = / (a - b)).
  { apply is_derive_unique. apply (is_derive_ext (fun u => (u - b) / (a - b))); [intros u; symmetry; apply (two_node_lag a b u); lra|]. auto_derive; [exact I | field; lra]. }
  assert (D1 : Derive (lag [a; b] 1) w = / (b - a)).
  { apply is_derive_unique. apply (is_derive_ext (fun u => (u - a) / (b - a))); [intros u; symmetry; apply (two_node_lag a b u); lra|]. auto_derive; [exact I | field; lra]. }
  rewrite D0, D1. rewrite (Rabs_pos_eq (/ (b - a))) by (left; apply Rinv_0_lt_compat; lra).
  rewrite (Rabs_left (/ (a - b))) by (apply Rinv_lt_0_compat; lra). field. lra.
Qed.

Example grid_hypotheses_hold :
  sorted gex /\ (1 <= 1 <= 4)%nat /\ (1 < length gex)%nat /\ nth (length gex - 1) gex 0 = 1 /\
  (forall u, nth 0 gex 0 <= u <= 1 -> forall j, (j <= 2)%nat -> ex_derive_n exp j u) /\
  (forall u, nth 0 gex 0 < u < 1 -> Rabs (Derive_n exp 2 u) <= 3) /\
  (forall i, (i + 1 < length gex)%nat ->
     nth (snd (block (length gex) 1 i)) gex 0 - nth (fst (block (length gex) 1 i)) gex 0 <= 1 / 2 /\
     forall u, nth (fst (block (length gex) 1 i)) gex 0 <= u <= nth (snd (block (length gex) 1 i)) gex 0 ->
       lebesgue (@block_nodes RFld gex 1 i) u <= 1 /\ lebesgue1 (@block_nodes RFld gex 1 i) u <= 8).
Proof.
  assert (Dn : forall k u, ex_derive_n exp k u /\ Derive_n exp k u = exp u).
  { induction k as [|k IH]; intros u; [split; [exact I | reflexivity]|].
    assert (E : forall v, Derive_n exp k v = exp v) by (intros v; apply IH).
    split.
    - cbn [ex_derive_n]. apply (ex_derive_ext exp); [intros v; symmetry; apply E|]. exists (exp u). apply is_derive_Reals, derivable_pt_lim_exp.
    - cbn [Derive_n]. rewrite (Derive_ext _ exp) by exact E. apply is_derive_unique, is_derive_Reals, derivable_pt_lim_exp. }
  split; [exact gex_sorted|]. split; [lia|]. split; [cbn; lia|]. split; [cbn; lra|]. split; [intros u _ j _; apply Dn|]. split.
  - intros u Hu. rewrite (proj2 (Dn 2%nat u)). rewrite Rabs_pos_eq by (left; apply exp_pos).
    apply Rle_trans with (exp 1); [left; apply exp_increasing; lra | pose proof exp_le_3; lra].
  - intros i Hi. cbn [gex length] in Hi. destruct i as [|[|i]]; try lia.
    + (* area 0: block (0, 1), nodes [1/4; 1/2] *)
      change (block (length gex) 1 0) with (0%nat, 1%nat). cbn [fst snd gex nth]. split; [lra|]. intros u Hu.
      change (@block_nodes RFld gex 1 0) with [1 / 4; 1 / 2].
      rewrite (two_node_lebesgue (1 / 4) (1 / 2) u) by lra. rewrite (two_node_lebesgue1 (1 / 4) (1 / 2) u) by lra. split; lra.
    + change (block (length gex) 1 1) with (1%nat, 2%nat). cbn [fst snd gex nth]. split; [lra|]. intros u Hu.
      change (@block_nodes RFld gex 1 1) with [1 / 2; 1].
      rewrite (two_node_lebesgue (1 / 2) 1 u) by lra. rewrite (two_node_lebesgue1 (1 / 2) 1 u) by lra. split; lra.
Qed.
