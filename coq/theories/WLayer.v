(* WLayer.v — theorems about the weight builders of Weights.v (C02, C13): what the
   non-singlet / gluon / singlet weights are in terms of get_weight, for every nf = 3..6. *)
From Coq Require Import ZArith List Bool Field Lia String.
From Yad Require Import Base Couplings Weights.
Import ListNotations.

Section T.
  Context {fld : Fld}.
  Add Field FfW : Fth.
  Local Open Scope F_scope.
  Variable gw : Z -> ctype -> mask -> F.
  Hypothesis two_nz : f1 + f1 <> f0.

  Definition nf36 (nf : Z) : Prop := (nf = 3 \/ nf = 4 \/ nf = 5 \/ nf = 6)%Z.
  Definition q_upto (nf q : Z) : Prop := (1 <= q <= nf)%Z.

  Ltac all_nf H := destruct H as [->|[->|[-> | ->]]].
  Ltac all_q H := 
    let a := fresh in let b := fresh in destruct H as [a b];
    repeat match goal with
    | a : (1 <= ?q)%Z |- _ => 
      assert (q = 1 \/ q = 2 \/ q = 3 \/ q = 4 \/ q = 5 \/ q = 6)%Z as Hc by lia; clear a
    end.
  Ltac wcbv := cbv -[F f0 f1 fadd fmul fsub fopp fdiv finv gw not].

  Ltac wcbv' := cbv -[F f0 f1 fadd fmul fsub fopp fdiv finv gw not fz m_len];
    try change (fz 1) with f1; try change (fz (-1)) with (- f1).
  (* neutral current: quark q carries w(q), antiquark ±w(q) *)
  Theorem nc_ns_quark nf pv q : nf36 nf -> q_upto nf q ->
    pget (nc_ns (nc_weights gw nf pv false)) q = w_pc_or_pv gw pv q
    /\ pget (nc_ns (nc_weights gw nf pv false)) (- q) = (if pv then - w_pc_or_pv gw pv q else w_pc_or_pv gw pv q).
  Proof.
    intros Hn [H1 H2].
    assert (Hc : (q = 1 \/ q = 2 \/ q = 3 \/ q = 4 \/ q = 5 \/ q = 6)%Z) by (all_nf Hn; lia).
    all_nf Hn; destruct Hc as [->|[->|[->|[->|[->| ->]]]]]; try lia; destruct pv; split; wcbv; reflexivity.
  Qed.
  (* pids outside ±1..±nf carry nothing *)
  Lemma pget_notin (m : pmap) p : ~ In p (pkeys m) -> pget m p = f0.
  Proof.
    induction m as [|[k v] r IH]; cbn [pget pkeys map fst]; intros H; [reflexivity|].
    destruct (Z.eqb_spec p k) as [->|Hne]; [exfalso; apply H; left; reflexivity|].
    apply IH. intros Hin. apply H. right. exact Hin.
  Qed.
  Theorem nc_ns_support nf pv p : nf36 nf -> (Z.abs p > nf \/ p = 0)%Z ->
    pget (nc_ns (nc_weights gw nf pv false)) p = f0.
  Proof.
    intros Hn Hp. apply pget_notin.
    all_nf Hn; destruct pv;
      match goal with |- ~ In p ?l => let l' := eval cbv in l in change l with l' end;
      cbn [In]; lia.
  Qed.
  (* gluon / singlet: the average over the nf active quarks *)
  Theorem nc_gluon_average nf : nf36 nf -> fz nf <> f0 ->
    pget (nc_g (nc_weights gw nf false false)) 21 * fz nf
    = fsum (map (w_pc_or_pv gw false) (quarks_upto (Z.to_nat nf))).
  Proof.
    intros Hn Hnz. revert Hnz. all_nf Hn; wcbv; intros; field; nz.
  Qed.

  (* ---------------------------------------------------------------- charged current *)
  Definition rest01 (r : Z) : Prop := (r = 0 \/ r = 1)%Z.
  Definition pid_dom (p : Z) : Prop :=
    (p = 21 \/ p = 1 \/ p = 2 \/ p = 3 \/ p = 4 \/ p = 5 \/ p = 6
     \/ p = -1 \/ p = -2 \/ p = -3 \/ p = -4 \/ p = -5 \/ p = -6)%Z.
  Ltac all_pid H := destruct H as [->|[->|[->|[->|[->|[->|[->|[->|[->|[->|[->|[->| ->]]]]]]]]]]]].
  Ltac all_q6 H := destruct H as [->|[->|[->|[->|[->| ->]]]]].
  Definition sigma (pv : bool) : F := if pv then - f1 else f1.

  (* LO: NonSingletEven and NonSingletOdd both carry the LO delta; their sum puts the whole weight
     gw(q) on the (anti)quark the W can hit (sign*q) and nothing on its conjugate *)
  Theorem cc_lo_even_plus_odd k nf rest pv q : nf36 nf -> rest01 rest -> q_upto nf q ->
    let s := cc_sign rest q in
    pget (cc_ns (cc_weights_even gw rest k nf pv)) (s * q) + pget (cc_ns (cc_weights_odd gw rest k nf pv)) (s * q)
      = gw q VV k * pvsign pv s
    /\ pget (cc_ns (cc_weights_even gw rest k nf pv)) (- s * q) + pget (cc_ns (cc_weights_odd gw rest k nf pv)) (- s * q)
      = f0.
  Proof.
    intros Hn Hr [H1 H2] s; subst s.
    assert (Hc : (q = 1 \/ q = 2 \/ q = 3 \/ q = 4 \/ q = 5 \/ q = 6)%Z) by (all_nf Hn; lia).
    assert (T : f1 + f1 <> f0 -> True) by trivial.
    all_nf Hn; destruct Hr as [-> | ->]; all_q6 Hc; try lia; destruct pv; split; wcbv; field; nz.
  Qed.

  (* C13: exchanging the beam for its antiparticle (rest -> 1 - rest) is charge conjugation of the
     parton weights, with a sign flip for the parity-violating structure functions *)
  Theorem cc_conj_even k nf rest pv p : nf36 nf -> rest01 rest -> pid_dom p ->
    pget (cc_ns (cc_weights_even gw (1 - rest) k nf pv)) p
    = sigma pv * pget (cc_ns (cc_weights_even gw rest k nf pv)) (- p).
  Proof.
    intros Hn Hr Hp.
    all_nf Hn; destruct Hr as [-> | ->]; all_pid Hp; destruct pv; wcbv; field; nz.
  Qed.
  Theorem cc_conj_odd k nf rest pv p : nf36 nf -> rest01 rest -> pid_dom p ->
    pget (cc_ns (cc_weights_odd gw (1 - rest) k nf pv)) p
    = sigma pv * pget (cc_ns (cc_weights_odd gw rest k nf pv)) (- p).
  Proof.
    intros Hn Hr Hp.
    all_nf Hn; destruct Hr as [-> | ->]; all_pid Hp; destruct pv; wcbv; field; nz.
  Qed.
  Definition oget (m : option pmap) (p : Z) : F := match m with Some m => pget m p | None => f0 end.
  Theorem cc_conj_singlet_valence k nf rest pv p : nf36 nf -> rest01 rest -> pid_dom p -> fz (m_len k) <> f0 ->
    oget (cc_s (cc_weights_even gw (1 - rest) k nf pv)) p = oget (cc_s (cc_weights_even gw rest k nf pv)) (- p)
    /\ oget (cc_v (cc_weights_odd gw (1 - rest) k nf pv)) p = - oget (cc_v (cc_weights_odd gw rest k nf pv)) (- p)
    /\ pget (cc_g (cc_weights_even gw (1 - rest) k nf pv)) 21 = pget (cc_g (cc_weights_even gw rest k nf pv)) 21.
  Proof.
    intros Hn Hr Hp Hk.
    all_nf Hn; destruct Hr as [-> | ->]; all_pid Hp; destruct pv; repeat split; wcbv'; try reflexivity; field; nz.
  Qed.
  (* heavy-quark production: plain cc_weights (non-singlet, gluon, singlet) *)
  Theorem cc_conj_plain k nf rest pv p : nf36 nf -> rest01 rest -> pid_dom p -> fz (m_len k) <> f0 ->
    pget (cc_ns (cc_weights gw (1 - rest) k nf pv)) p = sigma pv * pget (cc_ns (cc_weights gw rest k nf pv)) (- p)
    /\ pget (cc_g (cc_weights gw (1 - rest) k nf pv)) 21 = sigma pv * pget (cc_g (cc_weights gw rest k nf pv)) 21
    /\ oget (cc_s (cc_weights gw (1 - rest) k nf pv)) p = sigma pv * oget (cc_s (cc_weights gw rest k nf pv)) (- p).
  Proof.
    intros Hn Hr Hp Hk.
    all_nf Hn; destruct Hr as [-> | ->]; all_pid Hp; destruct pv; repeat split; wcbv'; field; nz.
  Qed.
End T.

(* ---------------------------------------------------------------- C07: linearity in the couplings *)
(* The neutral-current weight builders are additive in get_weight / get_fl11_weight; together with
   WTheorems.pos_charge_partition (the six restricted get_weight's add up to the unrestricted one)
   this gives: the six NCPositivityCharge runs add up to the unrestricted run, map by map. *)
Section Additive.
  Context {fld : Fld}.
  Add Field FfA : Fth.
  Local Open Scope F_scope.
  Variables gwa gwb : Z -> ctype -> mask -> F.
  Variables gfa gfb : Z -> Z -> ctype -> F.
  Definition gw_add : Z -> ctype -> mask -> F := fun p c k => gwa p c k + gwb p c k.
  Definition gf_add : Z -> Z -> ctype -> F := fun p n c => gfa p n c + gfb p n c.
  Ltac all_nf H := destruct H as [->|[->|[-> | ->]]].
  Ltac all_pid H := destruct H as [->|[->|[->|[->|[->|[->|[->|[->|[->|[->|[->|[->| ->]]]]]]]]]]]].
  Ltac acbv := cbv -[F f0 f1 fadd fmul fsub fopp fdiv finv gwa gwb gfa gfb not].

  Theorem nc_weights_additive nf pv skip p : nf36 nf -> pid_dom p ->
    f1 + f1 + f1 <> f0 -> f1 + f1 <> f0 -> f1 + (f1 + f1) * (f1 + f1) <> f0 ->
    let W gw := nc_weights gw nf pv skip in
    pget (nc_ns (W gw_add)) p = pget (nc_ns (W gwa)) p + pget (nc_ns (W gwb)) p
    /\ pget (nc_g (W gw_add)) p = pget (nc_g (W gwa)) p + pget (nc_g (W gwb)) p
    /\ pget (nc_s (W gw_add)) p = pget (nc_s (W gwa)) p + pget (nc_s (W gwb)) p
    /\ pget (nc_v (W gw_add)) p = pget (nc_v (W gwa)) p + pget (nc_v (W gwb)) p.
  Proof.
    intros Hn Hp H3 H2 H5 W; subst W.
    all_nf Hn; all_pid Hp; destruct pv, skip; repeat split; acbv; field; nz.
  Qed.
  Theorem nc_fl11_weights_additive nf p : nf36 nf -> pid_dom p ->
    f1 + f1 + f1 <> f0 -> f1 + f1 <> f0 -> f1 + (f1 + f1) * (f1 + f1) <> f0 ->
    pget (fst (nc_fl11_weights gf_add nf)) p = pget (fst (nc_fl11_weights gfa nf)) p + pget (fst (nc_fl11_weights gfb nf)) p
    /\ pget (snd (nc_fl11_weights gf_add nf)) p = pget (snd (nc_fl11_weights gfa nf)) p + pget (snd (nc_fl11_weights gfb nf)) p.
  Proof.
    intros Hn Hp H3 H2 H5.
    all_nf Hn; all_pid Hp; repeat split; acbv; field; nz.
  Qed.
  Theorem heavy_nc_weights_additive nf ihq p : nf36 nf -> pid_dom p ->
    let W gw := heavy_nc_weights gw nf ihq in
    let g1 (x : pmap * pmap * pmap * pmap) := fst (fst (fst x)) in let g2 (x : pmap * pmap * pmap * pmap) := snd (fst (fst x)) in
    let g3 (x : pmap * pmap * pmap * pmap) := snd (fst x) in let g4 (x : pmap * pmap * pmap * pmap) := snd x in
    pget (g1 (W gw_add)) p = pget (g1 (W gwa)) p + pget (g1 (W gwb)) p
    /\ pget (g2 (W gw_add)) p = pget (g2 (W gwa)) p + pget (g2 (W gwb)) p
    /\ pget (g3 (W gw_add)) p = pget (g3 (W gwa)) p + pget (g3 (W gwb)) p
    /\ pget (g4 (W gw_add)) p = pget (g4 (W gwa)) p + pget (g4 (W gwb)) p.
  Proof.
    intros Hn Hp W g1 g2 g3 g4; subst W g1 g2 g3 g4.
    all_nf Hn; all_pid Hp; repeat split; acbv; ring.
  Qed.
End Additive.
