(* TMCTheorems.v — the TMC model against the literature formulas (C10). *)
From Coq Require Import ZArith List Bool Field.
From Yad Require Import Base TMC.
Import ListNotations.

Section T.
  Context {fld : Fld}.
  Add Field FfT : Fth.
  Local Open Scope F_scope.

  (* the code's kinematic variables for a literature point: mu = M2/Q2, rho = r *)
  Definition of_spec (p : skin) : tkin :=
    {| t_x := s_x p; t_mu := s_M2 p / s_Q2 p; t_rho := s_r p; t_xi := s_xi p; t_lnxi := s_lnxi p |}.
  Definition wf (p : skin) : Prop := s_Q2 p <> f0 /\ s_r p <> f0 /\ s_xi p <> f0 /\ f1 + f1 <> f0.

  Ltac tcbv := cbn [tmc_model tmc_spec of_spec t_x t_mu t_rho t_xi t_lnxi s_x s_M2 s_Q2 s_r s_xi s_lnxi]; cbv [sq cube two three four].
  Ltac coeffs := repeat match goal with
                        | |- _ :: _ = _ :: _ => f_equal
                        | |- (_, _) = (_, _) => f_equal
                        end.
  Ltac solve_tmc H := destruct H as (HQ & Hr & Hxi & H2); cbn [s_Q2 s_r s_xi] in *; tcbv; coeffs; try reflexivity;
    cbv [fz fpos]; field; nz.

  (* F2 and FL: the three modes are the published exact formula, the APFEL variant (g2 dropped) and the approximation *)
  Theorem tmc_F2_is_spec m p : wf p -> tmc_model TF2 m (of_spec p) = tmc_spec TF2 m p.
  Proof. intros H. destruct p as [x M2 Q2 r xi lnxi]. destruct m; solve_tmc H. Qed.
  Theorem tmc_FL_is_spec m p : wf p -> tmc_model TFL m (of_spec p) = tmc_spec TFL m p.
  Proof. intros H. destruct p as [x M2 Q2 r xi lnxi]. destruct m; solve_tmc H. Qed.
  (* F3: the approximate formula is the published one *)
  Theorem tmc_F3_approx_is_spec p : wf p -> tmc_model TF3 Approx (of_spec p) = tmc_spec TF3 Approx p.
  Proof. intros H. destruct p as [x M2 Q2 r xi lnxi]. solve_tmc H. Qed.
  (* F3 exact / APFEL: same prefactors as published, but the integral is taken with the kernel 1 (int du xF3/u) where the
     published h3 = int du F3/u = int du xF3/u^2 needs the kernel z/xi *)
  Theorem tmc_F3_exact_prefactors m p : wf p -> m <> Approx ->
    map fst (tmc_model TF3 m (of_spec p)) = map fst (tmc_spec TF3 m p)
    /\ map snd (tmc_model TF3 m (of_spec p)) = [Shifted TF3; Integral TF3 H3ker]
    /\ map snd (tmc_spec TF3 m p) = [Shifted TF3; Integral TF3 H2ker].
  Proof.
    intros H Hm. destruct p as [x M2 Q2 r xi lnxi]. destruct m; try congruence; (split; [|split; reflexivity]);
      destruct H as (HQ & Hr & Hxi & H2); cbn [s_Q2 s_r s_xi] in *; tcbv; cbn [map fst]; coeffs; try reflexivity; cbv [fz fpos]; field; nz.
  Qed.
  Theorem tmc_F3_exact_refuted p : tmc_model TF3 Exact (of_spec p) <> tmc_spec TF3 Exact p.
  Proof. destruct p as [x M2 Q2 r xi lnxi]. tcbv. intros E. congruence. Qed.

  (* g1: every coefficient of the code is xi/x times the published one (the code "puts back" 2 xi where the observable
     2 x g1 needs 2 x), same terms *)
  Theorem tmc_g1_up_to_normalisation m p : wf p -> s_x p <> f0 ->
    s_M2 p = (s_r p * s_r p - f1) * s_Q2 p / (four * s_x p * s_x p) ->        (* r^2 = 1 + 4 x^2 M2/Q2 *)
    map snd (tmc_model TG1 m (of_spec p)) = map snd (tmc_spec TG1 m p)
    /\ map (fun c => s_x p * fst c) (tmc_model TG1 m (of_spec p)) = map (fun c => s_xi p * fst c) (tmc_spec TG1 m p).
  Proof.
    intros H Hx HM. destruct p as [x M2 Q2 r xi lnxi]. cbn [s_M2 s_r s_Q2 s_x] in HM. subst M2.
    destruct m; (split; [reflexivity|]); destruct H as (HQ & Hr & Hxi & H2); cbn [s_Q2 s_r s_xi s_x] in *; tcbv; cbn [map fst];
      coeffs; try reflexivity; cbv [fz fpos]; field; nz.
  Qed.

  (* massless target: mu = 0, rho = 1, xi = x: the corrected structure function is the uncorrected one and every
     integral enters with coefficient 0 *)
  Definition massless (x lnx : F) : tkin := {| t_x := x; t_mu := f0; t_rho := f1; t_xi := x; t_lnxi := lnx |}.
  Theorem tmc_massless k m x lnx : x <> f0 -> f1 + f1 <> f0 ->
    forall c t, In (c, t) (tmc_model k m (massless x lnx)) ->
      match t with Shifted k' => (k' = k /\ c = f1) \/ (k' <> k /\ c = f0) | Integral _ _ => c = f0 end.
  Proof.
    intros Hx H2 c t Hin. destruct k, m; cbn [tmc_model massless t_x t_mu t_rho t_xi t_lnxi In] in Hin;
      repeat (destruct Hin as [Hin | Hin]; [injection Hin as <- <-|]); try destruct Hin;
      try (left; split; [reflexivity|]); try (right; split; [discriminate|]);
      cbv [sq cube two three four fz fpos]; field; nz.
  Qed.
End T.
