(* TargetSpec.v — the documented table of named targets (specification, written by hand from the
   documentation: proton, neutron, isoscalar, iron = NuTeV steel 23.403/49.618, lead 82/208, neon 10/20,
   marble = CaCO3 average 10/20), and the comparison with the regenerated table. *)
From Coq Require Import List String QArith Bool.
Import ListNotations.
Open Scope string_scope.

Definition documented_targets : list (string * option Q * option Q) := [
  ("proton", Some (1 # 1), Some (1 # 1));
  ("neutron", Some (0 # 1), Some (1 # 1));
  ("isoscalar", Some (1 # 1), Some (2 # 1));
  ("iron", Some (23403 # 1000), Some (49618 # 1000));
  ("lead", Some (82 # 1), Some (208 # 1));
  ("neon", Some (10 # 1), Some (20 # 1));
  ("marble", Some (10 # 1), Some (20 # 1))
].
Definition oq_eqb (a b : option Q) : bool :=
  match a, b with Some x, Some y => Qeq_bool x y | _, _ => false end.
Definition row_eqb (a b : string * option Q * option Q) : bool :=
  let '(n, z, w) := a in let '(n', z', w') := b in String.eqb n n' && oq_eqb z z' && oq_eqb w w'.
Fixpoint rows_eqb (l m : list (string * option Q * option Q)) : bool :=
  match l, m with
  | [], [] => true
  | a :: l', b :: m' => row_eqb a b && rows_eqb l' m'
  | _, _ => false
  end.
(* order-insensitive: every documented row is in the table and the table has no other row *)
Definition row_in (r : string * option Q * option Q) (l : list (string * option Q * option Q)) : bool :=
  existsb (row_eqb r) l.
Definition tables_agree (code spec : list (string * option Q * option Q)) : bool :=
  forallb (fun r => row_in r code) spec && forallb (fun r => row_in r spec) code
  && Nat.eqb (List.length code) (List.length spec).
