(* Combiner.v — executable model of coefficient_functions/__init__.py::Combiner
   (collect, light_component, heavylight_components, heavy_components,
   apply_isospin, drop_empty, collect_elems).
   Hand-written; tied to the code by tools/corr/combiner.py. *)
From Coq Require Import ZArith List Bool String.
From Yad Require Import Base Couplings Weights.
Import ListNotations.

Inductive family := FamLight | FamTotal | FamHeavy.
Inductive fparts := PFull | PMassless | PMassive.

Section Combiner.
  Context {fld : Fld}.
  Local Open Scope F_scope.

  Record ccfg := {
    g_kind : kind;
    g_family : family;      (* obs_name.flavor_family *)
    g_hq : Z;               (* obs_name.hqnumber: 0 for light/total, 4 5 6 *)
    g_nf : Z;               (* nf_default(Q2, thresholds) *)
    g_mc : bool; g_mb : bool; g_mt : bool;   (* self.masses[4,5,6] = not ZMq *)
    g_parts : fparts;
    g_ffn0 : bool;          (* "FFN0" in scheme *)
    g_pto : Z;              (* theory["pto"] = PTODIS *)
    g_ptoe : Z;             (* theory["pto_evol"] = PTO *)
    g_Z : F; g_A : F;       (* target *)
  }.

  Definition massive (c : ccfg) (q : Z) : bool :=
    if (q =? 4)%Z then g_mc c else if (q =? 5)%Z then g_mb c else if (q =? 6)%Z then g_mt c else false.
  Definition in_masses (q : Z) : bool := (4 <=? q)%Z && (q <=? 6)%Z.

  Variable gw : Z -> ctype -> mask -> F.
  Variable gfl : Z -> Z -> ctype -> F.
  Variable prc : process.
  Variable rest : Z.
  Variable inv : inventory.

  (* range(a, 7) *)
  Definition range_to_6 (a : Z) : list Z := map (fun i => (a + Z.of_nat i)%Z) (List.seq 0 (Z.to_nat (7 - a))).

  Fixpoint concat_out {A} (l : list (outcome (list A))) : outcome (list A) :=
    match l with
    | [] => Ok []
    | x :: r => do a <- x; do rs <- concat_out r; Ok (a ++ rs)%list
    end.

  Definition light_component (c : ccfg) : outcome (list kernel) :=
    let nf := g_nf c in
    do l <- light_generate gw gfl prc rest inv (g_kind c) nf (g_pto c);
    do m <- concat_out (map (fun ihq =>
             if massive c ihq then
               if g_ffn0 c then missing_asy gw prc inv (g_kind c) nf ihq (g_ptoe c)
               else missing gw prc inv (g_kind c) nf ihq
             else Ok []) (range_to_6 (nf + 1)));
    Ok (l ++ m)%list.

  Definition heavylight_components (c : ccfg) : outcome (list kernel) :=
    let nf := g_nf c in let hq := g_hq c in
    if ((hq <? nf)%Z || ((hq =? nf)%Z && negb (massive c hq)))%bool
    then single_flavor_light gw gfl prc rest inv (g_kind c) nf hq (g_pto c)
    else Ok [].

  (* what one massive quark sfh contributes: intrinsic + heavy kernels (does not look at g_hq) *)
  Definition heavy_body (c : ccfg) (sfh : Z) : outcome (list kernel) :=
    let nf := g_nf c in
    do i <- (if g_ffn0 c then intrinsic_asy gw prc rest inv (g_kind c) nf (g_ptoe c) sfh
             else intrinsic_generate gw prc rest inv (g_kind c) sfh);
    do h <- (if g_ffn0 c then heavy_asy gw prc rest inv (g_kind c) nf (g_ptoe c) sfh
             else heavy_generate gw prc rest inv (g_kind c) nf sfh);
    Ok (i ++ h)%list.
  Definition heavy_sel (c : ccfg) (sfh : Z) : bool :=
    in_masses sfh && massive c sfh && ((g_hq c =? 0)%Z || (g_hq c =? sfh)%Z).
  Definition heavy_components (c : ccfg) : outcome (list kernel) :=
    concat_out (map (fun sfh => if heavy_sel c sfh then heavy_body c sfh else Ok []) (range_to_6 (g_nf c))).

  Definition collect (c : ccfg) : outcome (list kernel) :=
    let lt := match g_family c with FamLight | FamTotal => true | _ => false end in
    let hv := match g_family c with FamHeavy => true | _ => false end in
    let ht := match g_family c with FamHeavy | FamTotal => true | _ => false end in
    let ml := match g_parts c with PMassless | PFull => true | _ => false end in
    let mv := match g_parts c with PMassive | PFull => true | _ => false end in
    do a <- (if (lt && ml)%bool then light_component c else Ok []);
    do b <- (if (hv && ml)%bool then heavylight_components c else Ok []);
    do d <- (if (ht && mv)%bool then heavy_components c else Ok []);
    Ok (a ++ b ++ d)%list.

  (* apply_isospin, functional: every kernel owns its parton map *)
  Definition iso_pair (z a : F) (p1 p2 : F) : F * F :=
    ((z / a) * p1 + ((a - z) / a) * p2, ((a - z) / a) * p1 + (z / a) * p2).
  Definition iso_partons (z a : F) (m : pmap) : pmap :=
    let do_sign (m : pmap) (s : Z) :=
      let '(n1, n2) := iso_pair z a (pget m (s * 1)%Z) (pget m (s * 2)%Z) in
      pset (pset m (s * 1)%Z n1) (s * 2)%Z n2 in
    do_sign (do_sign m (-1)%Z) 1%Z.
  Definition with_partons (k : kernel) (m : pmap) : kernel :=
    {| k_fam := k_fam k; k_cls := k_cls k; k_partons := m; k_nf := k_nf k; k_ihq := k_ihq k;
       k_empty := k_empty k; k_orders := k_orders k |}.
  Definition apply_isospin (z a : F) (ks : list kernel) : list kernel :=
    map (fun k => with_partons k (iso_partons z a (k_partons k))) ks.

  Definition drop_empty (ks : list kernel) : list kernel :=
    filter (fun k => negb (Nat.eqb (List.length (k_partons k)) 0) && negb (k_empty k))
           (map (fun k => with_partons k (filter (fun kv => negb (feqb (snd kv) f0)) (k_partons k))) ks).

  Definition collect_elems (c : ccfg) : outcome (list kernel) :=
    do ks <- collect c;
    Ok (drop_empty (apply_isospin (g_Z c) (g_A c) ks)).
End Combiner.

(* the Combiner on top of the CouplingConstants model *)
Section OnCouplings.
  Context {fld : Fld}.
  Definition rest_of (o : obs) : Z := if ((proj o =? -11) || (proj o =? 12))%Z then 1%Z else 0%Z.
  Definition gw_of (t : theory) (o : obs) (Q2 : F) : Z -> ctype -> mask -> F :=
    fun pid c k => get_weight t o pid Q2 c k.
  Definition gfl_of (t : theory) (o : obs) (Q2 : F) : Z -> Z -> ctype -> F :=
    fun pid nf c => get_fl11_weight t o pid Q2 nf c.
  Definition collect_elems_ew (t : theory) (o : obs) (Q2 : F) (inv : inventory) (c : ccfg) :=
    collect_elems (gw_of t o Q2) (gfl_of t o Q2) (proc o) (rest_of o) inv c.
End OnCouplings.
