(* TMCReal.v — the Mellin convolution the code integrates, (ker (x) F)(xi) = int_xi^1 dz/z ker(z) F(xi/z), is the
   integral int_xi^1 du/u ker(xi/u) F(u) of the literature (change of variable u = xi/z). *)
From Coq Require Import Reals Lra.
From Coquelicot Require Import Coquelicot.
Open Scope R_scope.

Theorem mellin_change (ker F : R -> R) (xi : R) : 0 < xi < 1 ->
  (forall u, xi <= u <= 1 -> continuous (fun u => ker (xi / u) * F u / u) u) ->
  is_RInt (fun z => ker z * F (xi / z) / z) xi 1 (RInt (fun u => ker (xi / u) * F u / u) xi 1).
Proof.
  intros Hxi Hc. set (f := fun u => ker (xi / u) * F u / u).
  assert (Hex : ex_RInt f xi 1).
  { apply (ex_RInt_continuous (V := R_CompleteNormedModule)). intros u Hu. rewrite Rmin_left, Rmax_right in Hu by lra. apply Hc. exact Hu. } pose proof (is_RInt_comp f (fun z => xi / z) (fun z => - xi / (z * z)) xi 1) as H. assert (H1 : forall x, Rmin xi 1 <= x <= Rmax xi 1 -> continuous f (xi / x)).
  { intros x Hx. rewrite Rmin_left, Rmax_right in Hx by lra. apply Hc. split.
    - apply Rmult_le_reg_r with x; [lra|]. unfold Rdiv. rewrite Rmult_assoc, Rinv_l by lra. apply Rmult_le_compat_l; lra.
    - apply Rmult_le_reg_r with x; [lra|]. unfold Rdiv. rewrite Rmult_assoc, Rinv_l by lra. lra. } assert (H2 : forall x, Rmin xi 1 <= x <= Rmax xi 1 ->
                         is_derive (fun z => xi / z) x (- xi / (x * x)) /\ continuous (fun z => - xi / (z * z)) x).
  { intros x Hx. rewrite Rmin_left, Rmax_right in Hx by lra. split.
    - auto_derive; [lra|]. field. lra.
    - apply (ex_derive_continuous (fun z : R => - xi / (z * z)) x). auto_derive. apply Rmult_integral_contrapositive_currified; lra. }
  specialize (H H1 H2). cbv beta in H.
  replace (xi / xi) with 1 in H by (field; lra). replace (xi / 1) with xi in H by field. rewrite <- (opp_RInt_swap f xi 1 Hex) in H.
  apply is_RInt_ext with (f := fun z => opp (scal (- xi / (z * z)) (f (xi / z)))).
  - intros z Hz. rewrite Rmin_left, Rmax_right in Hz by lra. unfold f, scal, opp; cbn. unfold mult; cbn.
    replace (xi / (xi / z)) with z by (field; lra). field. lra.
  - apply is_RInt_opp in H. rewrite opp_opp in H. exact H.
Qed.

(* a smooth weight times a continuous structure function *)
Lemma weight_continuous (g F : R -> R) u : ex_derive g u -> continuous F u -> continuous (fun v => g v * F v) u.
Proof.
  intros Hg HF. apply (continuous_mult (K := R_AbsRing) g F u); [|exact HF].
  apply (ex_derive_continuous g u Hg).
Qed.
