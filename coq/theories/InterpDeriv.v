(* InterpDeriv.v — C19: the interpolation error is Lipschitz inside an area.  The derivative of the block interpolant is exact on
   polynomials of degree <= d as well, hence (Lebesgue's argument once more)
       |(I f)'(t) - f'(t)| <= Lam1(t) * E0 + |(f - p)'(t)|     for every polynomial p of degree <= d,
   Lam1(t) = sum_j |l_j'(t)|, E0 = max over the nodes of |f - p|; with the Taylor polynomial of f:  <= Lam1 * M h^(d+1)/(d+1)! + M h^d/d!. *)
From Coq Require Import Reals List Lra Lia Arith Bool.
From Coquelicot Require Import Coquelicot.
From Yad Require Import Base Interp InterpTheorems InterpReal.
Import ListNotations.
Open Scope R_scope.
Ltac rring := match goal with |- ?a = ?b => change (@eq R a b) end; ring.

(* every Lagrange polynomial is differentiable everywhere *)
Lemma lagv_ex_derive l vj j cur t : ex_derive (fun t => @lagv RFld l vj j cur t) t.
Proof.
  revert cur. induction l as [|v r IH]; intros cur; cbn [lagv].
  - apply ex_derive_const.
  - destruct (Nat.eqb cur j).
    + apply (ex_derive_mult (fun _ => 1) (fun t => @lagv RFld r vj j (S cur) t)); [apply ex_derive_const | apply IH].
    + apply (ex_derive_mult (fun t => (t - v) / (vj - v)) (fun t => @lagv RFld r vj j (S cur) t)); [|apply IH].
      cbn [fdiv fsub RFld]. auto_derive. exact I.
Qed.
Lemma lag_ex_derive vs j t : ex_derive (lag vs j) t.
Proof. unfold lag. apply lagv_ex_derive. Qed.
Definition dlag (vs : list R) (j : nat) (t : R) : R := Derive (lag vs j) t.
Definition lebesgue1 (vs : list R) (t : R) : R := rsum (fun j => Rabs (dlag vs j t)) (seq 0 (length vs)).

(* derivative of a finite sum *)
Lemma rsum_is_derive (a : nat -> R -> R) (da : nat -> R) l t :
  (forall j, In j l -> is_derive (a j) t (da j)) -> is_derive (fun t => rsum (fun j => a j t) l) t (rsum da l).
Proof.
  induction l as [|j l IH]; intros H.
  - apply (is_derive_ext (fun _ => 0)); [intros; reflexivity|]. rewrite rsum_nil. apply (is_derive_const (V := R_NormedModule)).
  - apply (is_derive_ext (fun t => a j t + rsum (fun i => a i t) l)); [intros u; rewrite rsum_cons; reflexivity|].
    rewrite rsum_cons. apply (is_derive_plus (V := R_NormedModule)); [apply H; left; reflexivity | apply IH; intros i Hi; apply H; right; exact Hi].
Qed.
Lemma interp_is_derive vs g t : is_derive (interp vs g) t (rsum (fun j => dlag vs j t * g (nth j vs 0)) (seq 0 (length vs))).
Proof.
  unfold interp. apply (rsum_is_derive (fun j t => lag vs j t * g (nth j vs 0)) (fun j => dlag vs j t * g (nth j vs 0))).
  intros j _. apply (is_derive_ext (fun t => g (nth j vs 0) * lag vs j t)); [intros u; apply Rmult_comm|].
  replace (dlag vs j t * g (nth j vs 0)) with (g (nth j vs 0) * dlag vs j t) by ring.
  apply (is_derive_scal (lag vs j)). apply Derive_correct, lag_ex_derive.
Qed.

(* exactness of the derivative on polynomials of degree <= number of nodes - 1 *)
Lemma interp_polynomial_derive vs a c n t : @alldiff RFld vs -> (2 <= length vs <= 5)%nat -> (n < length vs)%nat ->
  Derive (interp vs (fun v => peval c n (v - a))) t = Derive (fun u => peval c n (u - a)) t.
Proof.
  intros H Hl Hn. apply Derive_ext. intros u. apply interp_polynomial; assumption.
Qed.

(* Lebesgue's argument for the derivative *)
Theorem derivative_error vs g dg a c n t E0 E1 : @alldiff RFld vs -> (2 <= length vs <= 5)%nat -> (n < length vs)%nat ->
  is_derive g t dg ->
  (forall j, (j < length vs)%nat -> Rabs (g (nth j vs 0) - peval c n (nth j vs 0 - a)) <= E0) ->
  Rabs (dg - Derive (fun u => peval c n (u - a)) t) <= E1 ->
  Rabs (Derive (interp vs g) t - dg) <= lebesgue1 vs t * E0 + E1.
Proof.
  intros H Hl Hn Hg Hnodes Hd.
  set (p := fun v => peval c n (v - a)).
  assert (Ed : Derive (interp vs g) t = rsum (fun j => dlag vs j t * g (nth j vs 0)) (seq 0 (length vs))) by (apply is_derive_unique, interp_is_derive).
  assert (Ep : Derive p t = rsum (fun j => dlag vs j t * p (nth j vs 0)) (seq 0 (length vs))).
  { unfold p. rewrite <- (interp_polynomial_derive vs a c n t H Hl Hn). apply is_derive_unique, interp_is_derive. }
  replace (Derive (interp vs g) t - dg) with ((Derive (interp vs g) t - Derive p t) - (dg - Derive p t)) by ring.
  eapply Rle_trans; [apply Rabs_triang|]. rewrite Rabs_Ropp. apply Rplus_le_compat; [|exact Hd].
  rewrite Ed, Ep.
  replace (rsum (fun j => dlag vs j t * g (nth j vs 0)) (seq 0 (length vs)) - rsum (fun j => dlag vs j t * p (nth j vs 0)) (seq 0 (length vs)))
    with (rsum (fun j => dlag vs j t * (g (nth j vs 0) - p (nth j vs 0))) (seq 0 (length vs))).
  - eapply Rle_trans; [apply rsum_abs|]. unfold lebesgue1.
    apply Rle_trans with (rsum (fun j => E0 * Rabs (dlag vs j t)) (seq 0 (length vs))); [|rewrite rsum_scal, Rmult_comm; apply Rle_refl].
    apply rsum_le. intros j Hj. apply in_seq in Hj. rewrite Rabs_mult, (Rmult_comm E0). apply Rmult_le_compat_l; [apply Rabs_pos | apply Hnodes; lia].
  - replace (rsum (fun j => dlag vs j t * g (nth j vs 0)) (seq 0 (length vs)) - rsum (fun j => dlag vs j t * p (nth j vs 0)) (seq 0 (length vs)))
      with (rsum (fun j => dlag vs j t * g (nth j vs 0)) (seq 0 (length vs)) + (-1) * rsum (fun j => dlag vs j t * p (nth j vs 0)) (seq 0 (length vs))) by lra.
    rewrite <- rsum_scal, <- rsum_add. apply rsum_ext. intros j _. lra.
Qed.

(* ---------------- the derivative of the Taylor polynomial of f is the Taylor polynomial of f' *)
Lemma peval_S c n u : peval c (S n) u = peval c n u + c (S n) * u ^ S n.
Proof. unfold peval. reflexivity. Qed.
Lemma peval_derive c n a y : is_derive (fun u => peval c (S n) (u - a)) y (peval (fun m => INR (S m) * c (S m)) n (y - a)).
Proof.
  induction n as [|n IH].
  - apply (is_derive_ext (fun u => c 0%nat * 1 + c 1%nat * (u - a))); [intros u; unfold peval; cbn [sum_f_R0 pow]; rring|].
    unfold peval; cbn [sum_f_R0 pow INR]. auto_derive; [exact I | ring].
  - apply (is_derive_ext (fun u => peval c (S n) (u - a) + c (S (S n)) * (u - a) ^ S (S n))); [intros u; rewrite (peval_S c (S n)); reflexivity|].
    rewrite (peval_S (fun m => INR (S m) * c (S m)) n).
    apply (is_derive_plus (V := R_NormedModule)); [exact IH|].
    auto_derive; [exact I|]. change (match n with | 0%nat => 1 | S _ => INR n + 1 end) with (INR (S n)).
    rewrite !S_INR. cbn [pow]. replace (y + - a) with (y - a) by ring. ring.
Qed.
Lemma peval_ext c c' n u : (forall m, (m <= n)%nat -> c m = c' m) -> peval c n u = peval c' n u.
Proof. intros H. unfold peval. apply sum_eq. intros i Hi. rewrite (H i Hi). reflexivity. Qed.

Lemma Derive_n_of_Derive f k x : Derive_n (Derive f) k x = Derive_n f (S k) x.
Proof. replace (S k) with (k + 1)%nat by lia. rewrite <- (Derive_n_comp f k 1 x). apply Derive_n_ext. intros u. reflexivity. Qed.
Lemma ex_derive_n_of_Derive f k x : ex_derive_n f (S k) x -> ex_derive_n (Derive f) k x.
Proof.
  destruct k as [|k]; [intros _; exact I|]. cbn [ex_derive_n]. intros H.
  apply (ex_derive_ext (Derive_n f (S k))); [intros u; symmetry; apply Derive_n_of_Derive | exact H].
Qed.

Lemma taylor_remainder_deriv f n a b M y : a < b -> a <= y <= b ->
  (forall u, a <= u <= b -> forall k, (k <= S (S n))%nat -> ex_derive_n f k u) ->
  (forall u, a < u < b -> Rabs (Derive_n f (S (S n)) u) <= M) ->
  Rabs (Derive f y - Derive (fun u => peval (fun m => Derive_n f m a / INR (fact m)) (S n) (u - a)) y) <= M * (b - a) ^ S n / INR (fact (S n)).
Proof.
  intros Hab Hy Hd HM.
  replace (Derive (fun u => peval (fun m => Derive_n f m a / INR (fact m)) (S n) (u - a)) y)
    with (peval (fun m => INR (S m) * (Derive_n f (S m) a / INR (fact (S m)))) n (y - a))
    by (symmetry; apply is_derive_unique; apply (peval_derive (fun m => Derive_n f m a / INR (fact m)) n a y)).
  rewrite (peval_ext _ (fun m => Derive_n (Derive f) m a / INR (fact m)) n (y - a)).
  - apply (taylor_remainder (Derive f) n a b M y Hab Hy).
    + intros u Hu k Hk. apply ex_derive_n_of_Derive. apply Hd; [exact Hu | lia].
    + intros u Hu. rewrite Derive_n_of_Derive. apply HM. exact Hu.
  - intros m Hm. rewrite Derive_n_of_Derive.
    assert (Hf : INR (fact m) <> 0) by (apply not_0_INR, fact_neq_0).
    assert (Hs : INR (S m) <> 0) by (apply not_0_INR; lia).
    replace (fact (S m)) with (S m * fact m)%nat by reflexivity. rewrite mult_INR. field. split; assumption.
Qed.

(* ---------------- the derivative of the interpolation error of a smooth function *)
Theorem interp_derivative_error_smooth vs f a b M t : @alldiff RFld vs -> (2 <= length vs <= 5)%nat -> a < b ->
  (forall j, (j < length vs)%nat -> a <= nth j vs 0 <= b) -> a <= t <= b ->
  (forall u, a <= u <= b -> forall k, (k <= length vs)%nat -> ex_derive_n f k u) ->
  (forall u, a < u < b -> Rabs (Derive_n f (length vs) u) <= M) ->
  Rabs (Derive (interp vs f) t - Derive f t)
  <= lebesgue1 vs t * (M * (b - a) ^ length vs / INR (fact (length vs))) + M * (b - a) ^ (length vs - 1) / INR (fact (length vs - 1)).
Proof.
  intros H Hl Hab Hn Ht Hd HM.
  destruct (length vs) as [|[|n]] eqn:L; [lia | lia |].
  rewrite <- L in Hl, Hn. replace (S (S n) - 1)%nat with (S n) by lia.
  apply (derivative_error vs f (Derive f t) a (fun m => Derive_n f m a / INR (fact m)) (S n) t); try assumption; try lia.
  - apply Derive_correct. apply (Hd t Ht 1%nat). lia.
  - intros j Hj. apply (taylor_remainder f (S n) a b M); try assumption. apply Hn. exact Hj.
  - apply (taylor_remainder_deriv f n a b M t); assumption.
Qed.

(* ---------------- hence: inside an interval on which the interpolant is ONE polynomial (an area of the grid), the interpolation error is
   Lipschitz with the constant  Lam1 * M h^(d+1)/(d+1)! + M h^d/d!  (Lam1 a bound on sum_j |l_j'| on that interval) *)
Theorem interp_error_lipschitz vs f a b M Lam1 u v : @alldiff RFld vs -> (2 <= length vs <= 5)%nat -> a < b ->
  (forall j, (j < length vs)%nat -> a <= nth j vs 0 <= b) -> a <= u <= b -> a <= v <= b ->
  (forall w, a <= w <= b -> forall k, (k <= length vs)%nat -> ex_derive_n f k w) ->
  (forall w, a < w < b -> Rabs (Derive_n f (length vs) w) <= M) ->
  (forall w, a <= w <= b -> lebesgue1 vs w <= Lam1) ->
  Rabs ((interp vs f u - f u) - (interp vs f v - f v))
  <= (Lam1 * (M * (b - a) ^ length vs / INR (fact (length vs))) + M * (b - a) ^ (length vs - 1) / INR (fact (length vs - 1))) * Rabs (u - v).
Proof.
  intros H Hl Hab Hn Hu Hv Hd HM HLam.
  assert (M0 : 0 <= M). { eapply Rle_trans; [apply Rabs_pos | apply (HM ((a + b) / 2)); lra]. }
  set (D := Lam1 * (M * (b - a) ^ length vs / INR (fact (length vs))) + M * (b - a) ^ (length vs - 1) / INR (fact (length vs - 1))).
  set (e := fun w => interp vs f w - f w).
  assert (Hder : forall w, a <= w <= b -> is_derive e w (Derive (interp vs f) w - Derive f w) /\ Rabs (Derive (interp vs f) w - Derive f w) <= D).
  { intros w Hw. split.
    - unfold e. apply (is_derive_minus (interp vs f) f).
      + apply Derive_correct. exists (rsum (fun j => dlag vs j w * f (nth j vs 0)) (seq 0 (length vs))). apply interp_is_derive.
      + apply Derive_correct. apply (Hd w Hw 1%nat). lia.
    - eapply Rle_trans; [apply (interp_derivative_error_smooth vs f a b M w); assumption|]. unfold D.
      apply Rplus_le_compat_r. apply Rmult_le_compat_r; [|apply HLam; exact Hw].
      apply Rmult_le_pos; [apply Rmult_le_pos; [exact M0 | apply pow_le; lra] | left; apply Rinv_0_lt_compat, lt_0_INR, lt_O_fact]. }
  change (Rabs (e u - e v) <= D * Rabs (u - v)).
  assert (Hin : forall w, Rmin v u <= w <= Rmax v u -> a <= w <= b).
  { intros w Hw. destruct (Rle_dec v u); [rewrite Rmin_left, Rmax_right in Hw by lra | rewrite Rmin_right, Rmax_left in Hw by lra]; lra. }
  destruct (MVT_gen e v u (fun w => Derive (interp vs f) w - Derive f w)) as [c [Hc E]].
  - intros w Hw. apply Hder. apply Hin. lra.
  - intros w Hw. apply continuity_pt_filterlim. apply (ex_derive_continuous e). eexists. apply (Hder w (Hin w Hw)).
  - rewrite E, Rabs_mult. apply Rmult_le_compat_r; [apply Rabs_pos|]. apply Hder. apply Hin. exact Hc.
Qed.

(* ---------------- gluing: a function that is Lipschitz with constant D on every closed piece [n_i, n_(i+1)] of an increasing list of break
   points is Lipschitz with the same constant on the whole range (the pieces share their end points, so no continuity hypothesis is needed
   beyond the function being ONE function: the interpolant's two polynomials agree at a node by InterpTheorems.basis_continuous_at_nodes) *)
Fixpoint increasing (l : list R) : Prop := match l with a :: ((b :: _) as r) => a < b /\ increasing r | _ => True end.
Fixpoint pieces_lipschitz (g : R -> R) (D : R) (l : list R) : Prop :=
  match l with
  | a :: ((b :: _) as r) => (forall u v, a <= u <= b -> a <= v <= b -> Rabs (g u - g v) <= D * Rabs (u - v)) /\ pieces_lipschitz g D r
  | _ => True
  end.
Lemma lipschitz_join g D a b c : a <= b <= c -> 0 <= D ->
  (forall u v, a <= u <= b -> a <= v <= b -> Rabs (g u - g v) <= D * Rabs (u - v)) ->
  (forall u v, b <= u <= c -> b <= v <= c -> Rabs (g u - g v) <= D * Rabs (u - v)) ->
  forall u v, a <= u <= c -> a <= v <= c -> Rabs (g u - g v) <= D * Rabs (u - v).
Proof.
  intros Habc HD H1 H2.
  assert (Hlr : forall u v, a <= u <= b -> b <= v <= c -> Rabs (g u - g v) <= D * Rabs (u - v)).
  { intros u v Hu Hv. replace (g u - g v) with ((g u - g b) + (g b - g v)) by ring.
    eapply Rle_trans; [apply Rabs_triang|].
    pose proof (H1 u b Hu ltac:(lra)) as P1. pose proof (H2 b v ltac:(lra) Hv) as P2.
    rewrite (Rabs_left1 (u - b)) in P1 by lra. rewrite (Rabs_left1 (b - v)) in P2 by lra. rewrite (Rabs_left1 (u - v)) by lra. lra. }
  intros u v Hu Hv.
  destruct (Rle_dec u b) as [Hub|Hub], (Rle_dec v b) as [Hvb|Hvb].
  - apply H1; lra.
  - apply Hlr; lra.
  - rewrite <- Rabs_Ropp, (Rabs_minus_sym u v). replace (- (g u - g v)) with (g v - g u) by ring. apply Hlr; lra.
  - apply H2; lra.
Qed.
Theorem piecewise_lipschitz g D l : 0 <= D -> increasing l -> pieces_lipschitz g D l ->
  forall u v, hd 0 l <= u <= last l 0 -> hd 0 l <= v <= last l 0 -> Rabs (g u - g v) <= D * Rabs (u - v).
Proof.
  intros HD. induction l as [|a [|b r] IH]; intros Hinc Hp u v Hu Hv.
  - cbn in Hu, Hv. replace u with 0 by lra. replace v with 0 by lra. rewrite !Rminus_eq_0, !Rabs_R0. lra.
  - cbn in Hu, Hv. replace u with a by lra. replace v with a by lra. rewrite !Rminus_eq_0, !Rabs_R0. lra.
  - destruct Hinc as [Hab Hinc]. destruct Hp as [H1 Hp].
    assert (Hbl : b <= last (b :: r) 0).
    { clear -Hinc. revert b Hinc. induction r as [|c r IHr]; intros b Hinc; [cbn; lra|].
      destruct Hinc as [Hbc Hr]. change (last (b :: c :: r) 0) with (last (c :: r) 0). specialize (IHr c Hr). lra. }
    change (last (a :: b :: r) 0) with (last (b :: r) 0) in *. cbn [hd] in *.
    apply (lipschitz_join g D a b (last (b :: r) 0)); try assumption; try lra.
    intros u' v' Hu' Hv'. apply (IH Hinc Hp); cbn [hd]; assumption.
Qed.
