(* ResTheorems.v — theorems about Result.v and XS.v (C11, C17). *)
From Coq Require Import ZArith List Bool Field Lia String Permutation.
From Yad Require Import Base Result XS.
Import ListNotations.

Section T.
  Context {fld : Fld}.
  Add Field FfR : Fth.
  Local Open Scope F_scope.

  (* ---------------------------------------------------------------- ESFResult algebra *)
  Lemma rfind_rmul2 c ce a k :
    rfind (rmul2 c ce a) k = option_map (fun ve => (c * fst ve, c * snd ve + ce * fst ve)) (rfind a k).
  Proof.
    unfold rmul2. induction a as [|[k' [v e]] t IH]; cbn [map rfind option_map]; [reflexivity|].
    destruct (okey_eqb k k'); [reflexivity | exact IH].
  Qed.
  Lemma rval_rmul2 c ce a k : rval (rmul2 c ce a) k = c * rval a k.
  Proof. unfold rval. rewrite rfind_rmul2. destruct (rfind a k) as [[v e]|]; cbn; ring. Qed.
  Lemma rval_rmul c a k : rval (rmul c a) k = c * rval a k.
  Proof. apply rval_rmul2. Qed.

  Lemma rfind_app (a b : result) k : rfind (a ++ b)%list k = match rfind a k with Some v => Some v | None => rfind b k end.
  Proof.
    induction a as [|[k' v] t IH]; cbn [app rfind]; [reflexivity|].
    destruct (okey_eqb k k'); [reflexivity | exact IH].
  Qed.
  Lemma rfind_filter_not_in a b k : rfind a k = None ->
    rfind (filter (fun kv => negb (rhas a (fst kv))) b) k = rfind b k.
  Proof.
    intros Ha. induction b as [|[k' v] t IH]; cbn [filter rfind fst]; [reflexivity|].
    destruct (okey_eqb k k') eqn:E.
    - apply okey_eqb_spec in E; subst k'. unfold rhas. rewrite Ha. cbn [negb rfind]. rewrite okey_eqb_refl. reflexivity.
    - destruct (negb (rhas a k')); cbn [rfind]; rewrite ?E; exact IH.
  Qed.
  Lemma rfind_radd_left a b k :
    rfind (map (fun kv : okey * (F * F) => let '(k0, (v, e)) := kv in
               match rfind b k0 with Some (v', e') => (k0, (v + v', e + e')) | None => (k0, (v, e)) end) a) k
    = match rfind a k with
      | Some (v, e) => match rfind b k with Some (v', e') => Some (v + v', e + e') | None => Some (v, e) end
      | None => None end.
  Proof.
    induction a as [|[k' [v e]] t IH]; cbn [map rfind]; [reflexivity|].
    destruct (rfind b k') as [[v' e']|] eqn:Eb; cbn [rfind];
      (destruct (okey_eqb k k') eqn:E; [apply okey_eqb_spec in E; subst k'; rewrite ?Eb; reflexivity | exact IH]).
  Qed.
  Theorem rval_radd a b k : rval (radd a b) k = rval a k + rval b k.
  Proof.
    unfold rval, radd. rewrite rfind_app, rfind_radd_left.
    destruct (rfind a k) as [[v e]|] eqn:Ea.
    - destruct (rfind b k) as [[v' e']|]; ring.
    - rewrite rfind_filter_not_in by exact Ea. destruct (rfind b k) as [[v' e']|]; ring.
  Qed.
  Theorem rval_rsub a b k : rval (rsub a b) k = rval a k - rval b k.
  Proof. unfold rsub, rneg. rewrite rval_radd, rval_rmul. ring. Qed.

  (* ---------------------------------------------------------------- C11 *)
  Lemma rval_nil k : rval ([] : result) k = f0.
  Proof. reflexivity. Qed.
  (* every entry of every order of the cross section is the linear combination of the same entry of the
     three structure functions (whether or not the third one was requested) *)
  Theorem xs_is_combination c1 c2 c3 r1 r2 r3 k :
    rval (xs_result (c1, c2, c3) r1 r2 r3) k = c1 * rval r1 k + c2 * rval r2 k + c3 * rval r3 k.
  Proof.
    unfold xs_result. rewrite !rval_radd, !rval_rmul.
    destruct (feqb c3 f0) eqn:E; [apply feqb_spec in E; subst c3; rewrite rval_nil; ring | ring].
  Qed.

  (* the coefficients are the documented ones: c = (N, -N yL/y+, s N y-/y+) *)
  Hypothesis two_nz : f1 + f1 <> f0.
  Ltac xcbv := cbv [xs_coeffs spec_coeffs spec_of lepton_sign s_N s_yp s_ym s_yL two four hundred].
  Definition ypl (y : F) : F := f1 + (f1 - y) * (f1 - y).
  Definition ypc (y x Q2 mn : F) : F := ypl y - two * ((x * y * mn) * (x * y * mn)) / Q2.

  (* side conditions in denominator-free form (with Q2 <> 0 and MW2 <> 0 they say: 1 + Q2/MW2 <> 0,
     the corrected y+ <> 0, and FW's denominator <> 0) *)
  Theorem xs_coeffs_documented k y x Q2 p :
    ypl y <> f0 -> Q2 <> f0 -> p_M2W p <> f0 -> p_pi p <> f0 -> x <> f0 -> fz 100 <> f0 ->
    p_M2W p + Q2 <> f0 ->
    ypl y * Q2 - (f1 + f1) * ((x * y * p_mn p) * (x * y * p_mn p)) <> f0 ->
    (y * y + (f1 - y) * (f1 + f1)) * Q2 - (p_mn p * x * y) * (p_mn p * x * y) * (f1 + f1) <> f0 ->
    xs_coeffs k y x Q2 p = spec_coeffs (spec_of k y x Q2 p) (lepton_sign p).
  Proof.
    intros Hyp HQ HW Hpi Hx H100 Hprop Hypc HFW. unfold ypc, ypl, two in *.
    destruct k; xcbv; destruct (p_pid p <? 0)%Z;
      repeat match goal with |- (_, _) = (_, _) => f_equal end; field; nz.
  Qed.

  (* ---------------------------------------------------------------- C17: apply_pdf *)
  Lemma fold_left_fsum (g : okey * tensor -> F) l acc :
    fold_left (fun a kt => a + g kt) l acc = acc + fsum (map g l).
  Proof.
    revert acc; induction l as [|x l IH]; intros acc; cbn [fold_left map fsum]; [ring|]. rewrite IH. ring.
  Qed.
  (* the prediction is the sum over stored orders of a_s^k alpha^l LR^i LF^j x <operator, pdfs> *)
  Theorem apply_pdf_formula orders pdfs a_s aqed LR LF :
    apply_pdf orders pdfs a_s aqed LR LF
    = fsum (map (fun kt => prefactor a_s aqed LR LF (fst kt) * contract2 (snd kt) pdfs) orders).
  Proof. unfold apply_pdf. rewrite fold_left_fsum. ring. Qed.
  (* with the code's special-casing, the prefactor is the plain monomial *)
  Theorem prefactor_monomial a_s aqed LR LF o0 o1 o2 o3 : (0 <= o2)%Z -> (0 <= o3)%Z ->
    prefactor a_s aqed LR LF (o0, o1, o2, o3)
    = fpow a_s (Z.to_nat o0) * fpow aqed (Z.to_nat o1) * fpow LR (Z.to_nat o2) * fpow LF (Z.to_nat o3).
  Proof.
    intros H2 H3. unfold prefactor.
    destruct (Z.eqb_spec o2 0) as [->|_]; destruct (Z.eqb_spec o3 0) as [->|_]; cbn [Z.to_nat fpow]; ring.
  Qed.

  (* linearity in the PDF *)
  Definition padd (f g : nat -> nat -> F) : nat -> nat -> F := fun i j => f i j + g i j.
  Definition pscal (c : F) (f : nat -> nat -> F) : nat -> nat -> F := fun i j => c * f i j.
  Lemma dotf_add u f g j : dotf u (fun j => f j + g j) j = dotf u f j + dotf u g j.
  Proof. revert j; induction u as [|a u IH]; intros j; cbn [dotf]; [ring | rewrite IH; ring]. Qed.
  Lemma dotf_scal u c f j : dotf u (fun j => c * f j) j = c * dotf u f j.
  Proof. revert j; induction u as [|a u IH]; intros j; cbn [dotf]; [ring | rewrite IH; ring]. Qed.
  Lemma contractf_add t f g i : contractf t (padd f g) i = contractf t f i + contractf t g i.
  Proof.
    revert i; induction t as [|r t IH]; intros i; cbn [contractf]; [ring|].
    rewrite IH. unfold padd at 1. rewrite dotf_add. ring.
  Qed.
  Lemma contractf_scal t c f i : contractf t (pscal c f) i = c * contractf t f i.
  Proof.
    revert i; induction t as [|r t IH]; intros i; cbn [contractf]; [ring|].
    rewrite IH. unfold pscal at 1. rewrite dotf_scal. ring.
  Qed.
  Lemma fsum_map_add {A} (g h : A -> F) l : fsum (map (fun x => g x + h x) l) = fsum (map g l) + fsum (map h l).
  Proof. induction l as [|x l IH]; cbn [map fsum]; [ring | rewrite IH; ring]. Qed.
  Lemma fsum_map_scal {A} c (g : A -> F) l : fsum (map (fun x => c * g x) l) = c * fsum (map g l).
  Proof. induction l as [|x l IH]; cbn [map fsum]; [ring | rewrite IH; ring]. Qed.
  Theorem apply_pdf_linear orders f g c a_s aqed LR LF :
    apply_pdf orders (padd f (pscal c g)) a_s aqed LR LF
    = apply_pdf orders f a_s aqed LR LF + c * apply_pdf orders g a_s aqed LR LF.
  Proof.
    rewrite !apply_pdf_formula. rewrite <- fsum_map_scal, <- fsum_map_add. f_equal. apply map_ext.
    intros [k t]; cbn [fst snd]. unfold contract2. rewrite contractf_add, contractf_scal. ring.
  Qed.
  (* a parton the PDF set does not provide (its row is 0) contributes nothing, whatever the operator row *)
  Lemma dotf_zero u j : dotf u (fun _ => f0) j = f0.
  Proof. revert j; induction u as [|a u IH]; intros j; cbn [dotf]; [reflexivity | rewrite IH; ring]. Qed.
  Fixpoint zero_row (t : tensor) (i : nat) : tensor :=
    match t, i with
    | [], _ => []
    | r :: t', O => map (fun _ => f0) r :: t'
    | r :: t', S i' => r :: zero_row t' i'
    end.
  Lemma dotf_zero_coeffs (r : list F) f j : dotf (map (fun _ => f0) r) f j = f0.
  Proof. revert j; induction r as [|a r IH]; intros j; cbn [map dotf]; [reflexivity | rewrite IH; ring]. Qed.
  Lemma dotf_all_zero u (f : nat -> F) j : (forall k, f k = f0) -> dotf u f j = f0.
  Proof. intros H. revert j; induction u as [|a u IH]; intros j; cbn [dotf]; [reflexivity | rewrite IH, H; ring]. Qed.
  Lemma missing_flavour_aux (f : nat -> nat -> F) : forall t i base, (forall j, f (base + i)%nat j = f0) ->
    contractf (zero_row t i) f base = contractf t f base.
  Proof.
    induction t as [|r t IH]; intros i base Hz; [destruct i; reflexivity|].
    destruct i as [|i]; cbn [zero_row contractf].
    - rewrite Nat.add_0_r in Hz. rewrite dotf_zero_coeffs, (dotf_all_zero r (f base) 0 Hz). reflexivity.
    - rewrite IH; [reflexivity|]. intros j. rewrite <- (Hz j). f_equal. lia.
  Qed.
  Theorem missing_flavour_ignored t (f : nat -> nat -> F) i0 :
    (forall j, f i0 j = f0) -> contract2 (zero_row t i0) f = contract2 t f.
  Proof. intros Hz. unfold contract2. apply missing_flavour_aux. exact Hz. Qed.

  (* the order in which the orders are stored (dict insertion order) is irrelevant *)
  Lemma fsum_perm l l' : Permutation l l' -> fsum l = fsum l'.
  Proof. induction 1; cbn [fsum]; try ring; [rewrite IHPermutation; ring | congruence]. Qed.
  Theorem key_order_irrelevant orders orders' pdfs a_s aqed LR LF : Permutation orders orders' ->
    apply_pdf orders pdfs a_s aqed LR LF = apply_pdf orders' pdfs a_s aqed LR LF.
  Proof. intros H. rewrite !apply_pdf_formula. apply fsum_perm. apply Permutation_map. exact H. Qed.
End T.
