(* ConvError.v — C19, from the interpolation error to the error of the prediction: the operator contracted with the node values of
   f is the convolution with the interpolant I f (ConvTheorems.contraction_with_pdf); by linearity the error of the prediction
   is the convolution with I f - f, and for a coefficient function without plus-distribution part it is at most
       (int_x^1 |reg(z)|/z dz + |loc(x)|) * sup_[x,1] |I f - f|.
   With a plus-distribution part the Lipschitz constant Le of the interpolation error enters as well (conv_bound_full):
       (W + |loc(x)|) * E + Ws * (Le * x + E),   Ws = int_x^1 |sing(z)| (1 - z) / z^2 dz   (finite: sing ~ ln^k(1-z)/(1-z)).
   PARTIAL: Le itself (the error of the DERIVATIVE of the interpolant, O(h^d)) is a hypothesis here, not derived from the
   smoothness of f; that step of the analytic statement of C19 is explored on real runs only (tools/props/C19.py). *)
From Coq Require Import Reals List Lra.
From Coquelicot Require Import Coquelicot.
From Yad Require Import Conv ConvTheorems.
From Yad Require Import ConvGen.
Open Scope R_scope.

Section E.
  Variable k : rsl.

  Theorem conv_bound_regular g x E W : 0 < x <= 1 -> (forall z, r_sing k z = 0) ->
    (forall u, x <= u <= 1 -> Rabs (g u) <= E) ->
    ex_RInt (integrand k g x) x 1 -> is_RInt (fun z => Rabs (r_reg k z) / z) x 1 W ->
    Rabs (conv_spec k g x) <= (W + Rabs (r_loc k x)) * E.
  Proof.
    intros Hx Hs Hg [I HI] HW. unfold conv_spec. rewrite (is_RInt_unique _ _ _ _ HI).
    assert (HIb : Rabs I <= W * E).
    { change (norm (V := R_NormedModule) I <= W * E). replace (W * E) with (scal (V := R_NormedModule) E W) by (unfold scal; cbn; unfold mult; cbn; lra).
      apply (norm_RInt_le (V := R_NormedModule) (integrand k g x) (fun z => scal E (Rabs (r_reg k z) / z)) x 1 I (scal E W)); [lra| |exact HI|].
      - intros z Hz. unfold integrand. rewrite Hs. unfold norm, scal; cbn. unfold abs, mult; cbn.
        replace (r_reg k z * (g (x / z) / z) + 0 * (g (x / z) / z - g x)) with (r_reg k z / z * g (x / z)) by (unfold Rdiv; ring).
        rewrite Rabs_mult. unfold Rdiv at 1. rewrite Rabs_mult, (Rabs_right (/ z)) by (left; apply Rinv_0_lt_compat; lra).
        assert (Hu : x <= x / z <= 1).
        { split.
          - apply Rmult_le_reg_r with z; [lra|]. unfold Rdiv. rewrite Rmult_assoc, Rinv_l by lra. 
            assert (x * z <= x * 1) by (apply Rmult_le_compat_l; lra). lra.
          - apply Rmult_le_reg_r with z; [lra|]. unfold Rdiv. rewrite Rmult_assoc, Rinv_l by lra. lra. }
        specialize (Hg _ Hu).
        assert (0 <= Rabs (r_reg k z) * / z) by (apply Rmult_le_pos; [apply Rabs_pos | left; apply Rinv_0_lt_compat; lra]).
        unfold Rdiv. rewrite (Rmult_comm E). apply Rmult_le_compat_l; assumption.
      - apply (is_RInt_scal (V := R_NormedModule)). exact HW. }
    assert (Hgx : Rabs (g x) <= E) by (apply Hg; lra).
    eapply Rle_trans; [apply Rabs_triang|]. rewrite Rabs_mult.
    assert (Rabs (g x) * Rabs (r_loc k x) <= E * Rabs (r_loc k x)) by (apply Rmult_le_compat_r; [apply Rabs_pos | exact Hgx]).
    lra.
  Qed.

  (* the prediction built from the interpolant vs the exact convolution with f *)
  Theorem prediction_error_regular f If x E W : 0 < x <= 1 -> (forall z, r_sing k z = 0) ->
    (forall u, x <= u <= 1 -> Rabs (If u - f u) <= E) ->
    ex_RInt (integrand k If x) x 1 -> ex_RInt (integrand k f x) x 1 -> is_RInt (fun z => Rabs (r_reg k z) / z) x 1 W ->
    Rabs (conv_spec k If x - conv_spec k f x) <= (W + Rabs (r_loc k x)) * E.
  Proof.
    intros Hx Hs HE HI Hf HW.
    replace (conv_spec k If x - conv_spec k f x) with (conv_spec k (fun u => 1 * If u + (-1) * f u) x)
      by (rewrite conv_linear by assumption; lra).
    apply conv_bound_regular; try assumption.
    - intros u Hu. replace (1 * If u + -1 * f u) with (If u - f u) by lra. apply HE. exact Hu.
    - destruct HI as [a Ha], Hf as [b Hb]. exists (plus (scal 1 a) (scal (-1) b)).
      apply (is_RInt_ext (fun z => plus (scal 1 (integrand k If x z)) (scal (-1) (integrand k f x z)))).
      + intros z _. unfold integrand, plus, scal; cbn. unfold mult; cbn. unfold Rdiv. rring.
      + apply (is_RInt_plus (V := R_NormedModule)); apply (is_RInt_scal (V := R_NormedModule)); assumption.
  Qed.

  (* pointwise: the integrand of the convolution with g, for a g with sup norm E and Lipschitz constant Le on [x, 1] *)
  Lemma integrand_bound g x E Le z : 0 < x <= 1 -> 0 <= Le -> x <= z <= 1 ->
    (forall u, x <= u <= 1 -> Rabs (g u) <= E) ->
    (forall u v, x <= u <= 1 -> x <= v <= 1 -> Rabs (g u - g v) <= Le * Rabs (u - v)) ->
    Rabs (integrand k g x z) <= E * (Rabs (r_reg k z) / z) + (Le * x + E) * (Rabs (r_sing k z) * ((1 - z) / (z * z))).
  Proof.
    intros Hx HLe Hz Hg HL. unfold integrand.
    assert (E0 : 0 <= E) by (eapply Rle_trans; [apply Rabs_pos | apply (Hg x); lra]).
    assert (Hzi : 0 < / z) by (apply Rinv_0_lt_compat; lra).
    assert (Hu : x <= x / z <= 1).
    { split.
      - apply Rmult_le_reg_r with z; [lra|]. unfold Rdiv. rewrite Rmult_assoc, Rinv_l by lra.
        assert (x * z <= x * 1) by (apply Rmult_le_compat_l; lra). lra.
      - apply Rmult_le_reg_r with z; [lra|]. unfold Rdiv. rewrite Rmult_assoc, Rinv_l by lra. lra. }
    assert (B1 : Rabs (r_reg k z * (g (x / z) / z)) <= E * (Rabs (r_reg k z) / z)).
    { replace (r_reg k z * (g (x / z) / z)) with (r_reg k z / z * g (x / z)) by (unfold Rdiv; ring).
      rewrite Rabs_mult. unfold Rdiv at 1. rewrite Rabs_mult, (Rabs_right (/ z)) by lra.
      assert (0 <= Rabs (r_reg k z) * / z) by (apply Rmult_le_pos; [apply Rabs_pos | lra]).
      unfold Rdiv. rewrite (Rmult_comm E). apply Rmult_le_compat_l; [assumption | apply Hg, Hu]. }
    assert (B2 : Rabs (g (x / z) / z - g x) <= (Le * x + E) * ((1 - z) / (z * z))).
    { replace (g (x / z) / z - g x) with ((g (x / z) - g x) * / z + g x * (/ z - 1)) by (unfold Rdiv; ring).
      eapply Rle_trans; [apply Rabs_triang|]. rewrite !Rabs_mult.
      rewrite (Rabs_right (/ z)) by lra.
      assert (Hz1 : 1 <= / z). { rewrite <- Rinv_1. apply Rinv_le_contravar; lra. }
      rewrite (Rabs_right (/ z - 1)) by lra.
      assert (D1 : Rabs (g (x / z) - g x) <= Le * (x * (/ z - 1))).
      { eapply Rle_trans; [apply HL; [exact Hu | lra]|]. apply Rmult_le_compat_l; [exact HLe|].
        replace (x / z - x) with (x * (/ z - 1)) by (unfold Rdiv; ring). rewrite Rabs_right; [lra|].
        apply Rle_ge, Rmult_le_pos; lra. }
      assert (D2 : Rabs (g x) <= E) by (apply Hg; lra).
      assert (Q : / z - 1 = (1 - z) * / z) by (field; lra).
      assert (Q2 : (1 - z) / (z * z) = (1 - z) * / z * / z) by (field; lra).
      rewrite Q2. rewrite Q in D1 |- *.
      assert (P0 : 0 <= (1 - z) * / z) by (apply Rmult_le_pos; lra).
      assert (T1 : Rabs (g (x / z) - g x) * / z <= Le * x * ((1 - z) * / z * / z)).
      { apply Rle_trans with (Le * (x * ((1 - z) * / z)) * / z); [apply Rmult_le_compat_r; lra | lra]. }
      assert (T2 : Rabs (g x) * ((1 - z) * / z) <= E * ((1 - z) * / z * / z)).
      { apply Rle_trans with (E * ((1 - z) * / z)); [apply Rmult_le_compat_r; assumption|].
        apply Rmult_le_compat_l; [exact E0|]. rewrite <- (Rmult_1_r ((1 - z) * / z)) at 1. apply Rmult_le_compat_l; [exact P0 | exact Hz1]. }
      lra. }
    eapply Rle_trans; [apply Rabs_triang|]. rewrite (Rabs_mult (r_sing k z)).
    assert (Rabs (r_sing k z) * Rabs (g (x / z) / z - g x) <= (Le * x + E) * (Rabs (r_sing k z) * ((1 - z) / (z * z)))).
    { rewrite (Rmult_comm (Le * x + E)), Rmult_assoc. apply Rmult_le_compat_l; [apply Rabs_pos|]. rewrite Rmult_comm. exact B2. }
    lra.
  Qed.

  (* any kernel triple: the sup norm E and the Lipschitz constant Le of g on [x, 1] *)
  Theorem conv_bound_full g x E Le W Ws : 0 < x <= 1 -> 0 <= Le ->
    (forall u, x <= u <= 1 -> Rabs (g u) <= E) ->
    (forall u v, x <= u <= 1 -> x <= v <= 1 -> Rabs (g u - g v) <= Le * Rabs (u - v)) ->
    ex_RInt (integrand k g x) x 1 -> is_RInt (fun z => Rabs (r_reg k z) / z) x 1 W ->
    is_RInt (fun z => Rabs (r_sing k z) * ((1 - z) / (z * z))) x 1 Ws ->
    Rabs (conv_spec k g x) <= (W + Rabs (r_loc k x)) * E + Ws * (Le * x + E).
  Proof.
    intros Hx HLe Hg HL [I HI] HW HWs. unfold conv_spec. rewrite (is_RInt_unique _ _ _ _ HI).
    assert (HIb : Rabs I <= W * E + Ws * (Le * x + E)).
    { change (norm (V := R_NormedModule) I <= W * E + Ws * (Le * x + E)).
      replace (W * E + Ws * (Le * x + E)) with (plus (scal (V := R_NormedModule) E W) (scal (V := R_NormedModule) (Le * x + E) Ws))
        by (unfold plus, scal; cbn; unfold mult; cbn; lra).
      apply (norm_RInt_le (V := R_NormedModule) (integrand k g x)
               (fun z => plus (scal E (Rabs (r_reg k z) / z)) (scal (Le * x + E) (Rabs (r_sing k z) * ((1 - z) / (z * z))))) x 1); [lra| |exact HI|].
      - intros z Hz. apply (integrand_bound g x E Le z); assumption.
      - apply (is_RInt_plus (V := R_NormedModule)); apply (is_RInt_scal (V := R_NormedModule)); assumption. }
    assert (Hgx : Rabs (g x) <= E) by (apply Hg; lra).
    eapply Rle_trans; [apply Rabs_triang|]. rewrite Rabs_mult.
    assert (Rabs (g x) * Rabs (r_loc k x) <= E * Rabs (r_loc k x)) by (apply Rmult_le_compat_r; [apply Rabs_pos | exact Hgx]).
    lra.
  Qed.

  Theorem prediction_error_full f If x E Le W Ws : 0 < x <= 1 -> 0 <= Le ->
    (forall u, x <= u <= 1 -> Rabs (If u - f u) <= E) ->
    (forall u v, x <= u <= 1 -> x <= v <= 1 -> Rabs ((If u - f u) - (If v - f v)) <= Le * Rabs (u - v)) ->
    ex_RInt (integrand k If x) x 1 -> ex_RInt (integrand k f x) x 1 -> is_RInt (fun z => Rabs (r_reg k z) / z) x 1 W ->
    is_RInt (fun z => Rabs (r_sing k z) * ((1 - z) / (z * z))) x 1 Ws ->
    Rabs (conv_spec k If x - conv_spec k f x) <= (W + Rabs (r_loc k x)) * E + Ws * (Le * x + E).
  Proof.
    intros Hx HLe HE HL HI Hf HW HWs.
    replace (conv_spec k If x - conv_spec k f x) with (conv_spec k (fun u => 1 * If u + (-1) * f u) x)
      by (rewrite conv_linear by assumption; lra).
    apply conv_bound_full; try assumption.
    - intros u Hu. replace (1 * If u + -1 * f u) with (If u - f u) by lra. apply HE. exact Hu.
    - intros u v Hu Hv. replace (1 * If u + -1 * f u - (1 * If v + -1 * f v)) with ((If u - f u) - (If v - f v)) by lra. apply HL; assumption.
    - destruct HI as [a Ha], Hf as [b Hb]. exists (plus (scal 1 a) (scal (-1) b)).
      apply (is_RInt_ext (fun z => plus (scal 1 (integrand k If x z)) (scal (-1) (integrand k f x z)))).
      + intros z _. unfold integrand, plus, scal; cbn. unfold mult; cbn. unfold Rdiv. rring.
      + apply (is_RInt_plus (V := R_NormedModule)); apply (is_RInt_scal (V := R_NormedModule)); assumption.
  Qed.

  (* the same for the improper integral (kernels with ln^k(1-z), unbounded at z = 1: ConvGen.v) *)
  Theorem conv_bound_gen g x E Le W Ws v : 0 < x < 1 -> 0 <= Le ->
    (forall u, x <= u <= 1 -> Rabs (g u) <= E) ->
    (forall u w, x <= u <= 1 -> x <= w <= 1 -> Rabs (g u - g w) <= Le * Rabs (u - w)) ->
    is_conv k g x v ->
    is_RInt_gen (fun z => Rabs (r_reg k z) / z) (at_point x) (at_left 1) W ->
    is_RInt_gen (fun z => Rabs (r_sing k z) * ((1 - z) / (z * z))) (at_point x) (at_left 1) Ws ->
    Rabs v <= (W + Rabs (r_loc k x)) * E + Ws * (Le * x + E).
  Proof.
    intros Hx HLe Hg HL [l [Hl ->]] HW HWs.
    assert (Hrange : filter_prod (at_point x) (at_left 1) (fun ab => fst ab = x /\ x < snd ab < 1)).
    { apply (Filter_prod _ _ _ (fun a => a = x) (fun b => x < b < 1)); [reflexivity | | intros a b Ha Hb; cbn; split; assumption].
      exists (mkposreal (1 - x) ltac:(lra)). intros y Hy Hy1. unfold ball in Hy; cbn in Hy; unfold AbsRing_ball, abs, minus, plus, opp in Hy; cbn in Hy.
      apply Rabs_def2 in Hy. lra. }
    assert (Hlb : Rabs l <= W * E + Ws * (Le * x + E)).
    { change (norm (V := R_NormedModule) l <= W * E + Ws * (Le * x + E)).
      replace (W * E + Ws * (Le * x + E)) with (plus (scal (V := R_NormedModule) E W) (scal (V := R_NormedModule) (Le * x + E) Ws))
        by (unfold plus, scal; cbn; unfold mult; cbn; lra).
      apply (RInt_gen_norm (V := R_CompleteNormedModule) (Fa := at_point x) (Fb := at_left 1) (integrand k g x)
               (fun z => plus (scal E (Rabs (r_reg k z) / z)) (scal (Le * x + E) (Rabs (r_sing k z) * ((1 - z) / (z * z))))) l).
      - apply (filter_imp (fun ab => fst ab = x /\ x < snd ab < 1)); [|exact Hrange]. intros [a b] [Ha Hb]; cbn in *; lra.
      - apply (filter_imp (fun ab => fst ab = x /\ x < snd ab < 1)); [|exact Hrange]. intros [a b] [Ha Hb] z Hz; cbn [fst snd] in *.
        apply (integrand_bound g x E Le z); try assumption; lra.
      - exact Hl.
      - apply (is_RInt_gen_plus (V := R_NormedModule)); apply (is_RInt_gen_scal (V := R_NormedModule)); assumption. }
    assert (Hgx : Rabs (g x) <= E) by (apply Hg; lra).
    eapply Rle_trans; [apply Rabs_triang|]. rewrite Rabs_mult.
    assert (Rabs (g x) * Rabs (r_loc k x) <= E * Rabs (r_loc k x)) by (apply Rmult_le_compat_r; [apply Rabs_pos | exact Hgx]).
    lra.
  Qed.

  Theorem prediction_error_gen f If x E Le W Ws v w : 0 < x < 1 -> 0 <= Le ->
    (forall u, x <= u <= 1 -> Rabs (If u - f u) <= E) ->
    (forall u t, x <= u <= 1 -> x <= t <= 1 -> Rabs ((If u - f u) - (If t - f t)) <= Le * Rabs (u - t)) ->
    is_conv k If x v -> is_conv k f x w ->
    is_RInt_gen (fun z => Rabs (r_reg k z) / z) (at_point x) (at_left 1) W ->
    is_RInt_gen (fun z => Rabs (r_sing k z) * ((1 - z) / (z * z))) (at_point x) (at_left 1) Ws ->
    Rabs (v - w) <= (W + Rabs (r_loc k x)) * E + Ws * (Le * x + E).
  Proof.
    intros Hx HLe HE HL Hv Hw HW HWs.
    pose proof (conv_linear_gen k If f 1 (-1) x v w Hv Hw) as Hd.
    replace (v - w) with (1 * v + -1 * w) by ring.
    apply (conv_bound_gen (fun u => 1 * If u + -1 * f u) x E Le W Ws); try assumption.
    - intros u Hu. replace (1 * If u + -1 * f u) with (If u - f u) by lra. apply HE. exact Hu.
    - intros u t Hu Ht. replace (1 * If u + -1 * f u - (1 * If t + -1 * f t)) with ((If u - f u) - (If t - f t)) by lra. apply HL; assumption.
  Qed.
End E.
