(* SpecialR.v — a concrete interpretation of the special functions, showing that the hypotheses the kernel
   obligations make about them (KTactics.special_ok) are satisfiable: the real part of the dilogarithm as a
   piecewise integral of - ln|1-t| / t on (-inf,0), (0,1), (1,inf).  (The Nielsen atoms are not constrained by
   special_ok and are interpreted by 0 here; no proved obligation mentions them.) *)
From Coq Require Import Reals Lra List.
From Coquelicot Require Import Coquelicot.
From Yad Require Import Expr KTactics.
Open Scope R_scope.

Definition dli2 (t : R) : R := - ln (Rabs (1 - t)) / t.
Lemma dli2_cont t : t <> 0 -> t <> 1 -> continuous dli2 t.
Proof.
  intros H0 H1. unfold dli2.
  apply (ex_derive_continuous (fun t => - ln (Rabs (1 - t)) / t)).
  auto_derive. repeat split; try lra. apply Rabs_pos_lt. lra.
Qed.
(* on an interval avoiding 0 and 1, the integral from a base point is a primitive *)
Lemma prim_derive lo hi b x : lo < b < hi -> lo < x < hi -> (forall t, lo < t < hi -> t <> 0 /\ t <> 1) ->
  is_derive (fun u => RInt dli2 b u) x (dli2 x).
Proof.
  intros Hb Hx Hav.
  apply (is_derive_RInt dli2 (fun u => RInt dli2 b u) b).
  - set (e := Rmin (x - lo) (hi - x) / 2).
    assert (He : 0 < e) by (unfold e; apply Rdiv_lt_0_compat; [apply Rmin_glb_lt; lra | lra]).
    exists (mkposreal e He). intros y Hy.
    apply (@RInt_correct R_CompleteNormedModule).
    apply (@ex_RInt_continuous R_CompleteNormedModule). intros t Ht.
    unfold ball in Hy; simpl in Hy; unfold AbsRing_ball, abs, minus, plus, opp in Hy; simpl in Hy.
    apply Rabs_def2 in Hy.
    assert (e <= (x - lo) / 2) by (unfold e; generalize (Rmin_l (x - lo) (hi - x)); lra).
    assert (e <= (hi - x) / 2) by (unfold e; generalize (Rmin_r (x - lo) (hi - x)); lra).
    assert (lo < t < hi).
    { destruct (Rle_dec b y); [rewrite Rmin_left, Rmax_right in Ht by lra | rewrite Rmin_right, Rmax_left in Ht by lra]; lra. }
    destruct (Hav t H1). apply dli2_cont; assumption.
  - destruct (Hav x Hx). apply dli2_cont; assumption.
Qed.
Definition Li2_R (u : R) : R :=
  if Rlt_dec 1 u then RInt dli2 2 u else if Rlt_dec 0 u then RInt dli2 (1/2) u else RInt dli2 (-1) u.
Lemma Li2_R_derive u : u <> 0 -> u <> 1 -> is_derive Li2_R u (dli2 u).
Proof.
  intros H0 H1.
  destruct (Rlt_dec 1 u) as [Hgt|Hle].
  - apply (is_derive_ext_loc (fun v => RInt dli2 2 v)).
    + exists (mkposreal (u - 1) ltac:(lra)). intros y Hy. unfold ball in Hy; simpl in Hy; unfold AbsRing_ball, abs, minus, plus, opp in Hy; simpl in Hy.
      apply Rabs_def2 in Hy. unfold Li2_R. destruct (Rlt_dec 1 y); [reflexivity | lra].
    + apply (prim_derive 1 (Rmax u 2 + 1) 2); [pose proof (Rmax_r u 2); lra | pose proof (Rmax_l u 2); lra | intros t Ht; lra].
  - destruct (Rlt_dec 0 u) as [Hpos|Hneg].
    + assert (u < 1) by lra.
      apply (is_derive_ext_loc (fun v => RInt dli2 (1/2) v)).
      * exists (mkposreal (Rmin u (1 - u)) ltac:(apply Rmin_glb_lt; lra)). intros y Hy. unfold ball in Hy; simpl in Hy; unfold AbsRing_ball, abs, minus, plus, opp in Hy; simpl in Hy.
        apply Rabs_def2 in Hy. pose proof (Rmin_l u (1-u)). pose proof (Rmin_r u (1-u)).
        unfold Li2_R. destruct (Rlt_dec 1 y); [lra|]. destruct (Rlt_dec 0 y); [reflexivity | lra].
      * apply (prim_derive 0 1 (1/2)); [lra | lra | intros t Ht; lra].
    + assert (u < 0) by lra.
      apply (is_derive_ext_loc (fun v => RInt dli2 (-1) v)).
      * exists (mkposreal (- u) ltac:(lra)). intros y Hy. unfold ball in Hy; simpl in Hy; unfold AbsRing_ball, abs, minus, plus, opp in Hy; simpl in Hy.
        apply Rabs_def2 in Hy. unfold Li2_R. destruct (Rlt_dec 1 y); [lra|]. destruct (Rlt_dec 0 y); [lra | reflexivity].
      * apply (prim_derive (Rmin u (-1) - 1) 0 (-1)); [pose proof (Rmin_r u (-1)); lra | pose proof (Rmin_l u (-1)); lra | intros t Ht; lra].
Qed.

Definition special_R : special :=
  {| sp_li2 := Li2_R; sp_snp := fun _ _ _ => 0; sp_snpim := fun _ _ _ => 0; sp_zeta3 := Series (fun n => / INR (S n) ^ 3) |}.

Theorem special_R_ok : special_ok special_R.
Proof. constructor. intros u H0 H1. apply (Li2_R_derive u H0 H1). Qed.
