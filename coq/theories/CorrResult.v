(* CorrResult.v — agreement predicates for tools/corr/results.py (Qc instance). *)
From Coq Require Import ZArith List Bool String QArith Qcanon.
From Yad Require Import Base Result XS Thresholds.
Import ListNotations.

Definition qresult := @result QcFld.
(* ESFResult algebra: expression tree evaluated by the model and by the code *)
Inductive rexpr :=
| RLit (r : qresult)
| RAdd (a b : rexpr) | RSub (a b : rexpr) | RNeg (a : rexpr)
| RMul (c : Qc) (a : rexpr) | RMul2 (c ce : Qc) (a : rexpr).
Fixpoint reval (e : rexpr) : qresult :=
  match e with
  | RLit r => r
  | RAdd a b => radd (reval a) (reval b)
  | RSub a b => rsub (reval a) (reval b)
  | RNeg a => rneg (reval a)
  | RMul c a => rmul c (reval a)
  | RMul2 c ce a => rmul2 c ce (reval a)
  end.
(* observed: the resulting dict in insertion order; compared: same keys in the same order, values and errors *)
Fixpoint res_agree (tol : Qc) (m o : qresult) : bool :=
  match m, o with
  | [], [] => true
  | (k, (v, e)) :: m', (k', (v', e')) :: o' => okey_eqb k k' && close tol v v' && close tol e e' && res_agree tol m' o'
  | _, _ => false
  end.
Definition rcase_ok (tol : Qc) (c : rexpr * qresult) : bool := res_agree tol (reval (fst c)) (snd c).

(* cross-section coefficients *)
Record xcase := { x_kind : string; x_y : Qc; x_x : Qc; x_Q2 : Qc; x_p : @xsparams QcFld; x_obs : option (Qc * Qc * Qc) }.
Definition xcase_ok (tol : Qc) (c : xcase) : bool :=
  match xskind_of_string (x_kind c), x_obs c with
  | None, None => true
  | Some k, Some (o1, o2, o3) =>
      let '(c1, c2, c3) := xs_coeffs k (x_y c) (x_x c) (x_Q2 c) (x_p c) in
      close tol c1 o1 && close tol c2 o2 && close tol c3 o3
  | _, _ => false
  end.
(* the same against the documented specification *)
Definition xspec_ok (tol : Qc) (c : xcase) : bool :=
  match xskind_of_string (x_kind c), x_obs c with
  | None, None => true
  | Some k, Some (o1, o2, o3) =>
      let '(c1, c2, c3) := spec_coeffs (spec_of k (x_y c) (x_x c) (x_Q2 c) (x_p c)) (lepton_sign (x_p c)) in
      close tol c1 o1 && close tol c2 o2 && close tol c3 o3
  | _, _ => false
  end.

(* apply_pdf: orders with small tensors, pdf table, couplings; observed result *)
Record acase := { a_orders : list (okey * @tensor QcFld); a_pdfs : list (list Qc);
                  a_as : Qc; a_aqed : Qc; a_LR : Qc; a_LF : Qc; a_obs : Qc }.
Definition table_fun (t : list (list Qc)) : nat -> nat -> Qc := fun i j => nth j (nth i t []) 0%Qc.
Definition acase_ok (tol : Qc) (c : acase) : bool :=
  close tol (apply_pdf (a_orders c) (table_fun (a_pdfs c)) (a_as c) (a_aqed c) (a_LR c) (a_LF c)) (a_obs c).

(* which nf and which scale the strong coupling is asked for (Output.apply_pdf_theory) *)
Definition alphas_nf (fns : string) (nfff : Z) (wc wb wt : wall) (muR2 : Q) : option Z :=
  let has (sub : string) := (fix go (s : string) (n : nat) := match n with O => false | S n' =>
      if String.prefix sub s then true else match s with EmptyString => false | String _ s' => go s' n' end end) fns (S (String.length fns)) in
  if (has "FFNS" || has "FFN0")%bool then Some nfff
  else if String.eqb fns "ZM-VFNS" then nf_default_opt muR2 wc wb wt
  else None.
Record dcase := { d_fns : string; d_nfff : Z; d_walls : wall * wall * wall;
                  d_calls : list (Q * Q * Z) (* expected muR2 = xiR^2 Q2 (as float), observed scale^2, observed nf_to *) }.
Definition dcase_ok (c : dcase) : bool :=
  let '(wc, wb, wt) := d_walls c in
  forallb (fun call => let '(mu2, seen, nf) := call in
             Qeq_bool mu2 seen && match alphas_nf (d_fns c) (d_nfff c) wc wb wt seen with Some n => (n =? nf)%Z | None => false end)
          (d_calls c).
