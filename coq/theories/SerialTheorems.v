(* SerialTheorems.v — the tar round trip of one observable is the identity (C15). *)
From Coq Require Import ZArith List Bool String QArith Lia.
From Yad Require Import Result Serial.
Import ListNotations.

Section T.
  Variable P : Type.
  Notation res := (res P).

  Lemma zip3_orders (r : res) : zip3 P (okeys r) (ovals r) (oerrs r) = r_orders r.
  Proof.
    unfold okeys, ovals, oerrs. induction (r_orders r) as [|[[k v] e] t IH]; cbn [map zip3 fst snd]; [reflexivity | rewrite IH; reflexivity].
  Qed.
  Lemma combine_kin (r : res) : combine (knames r) (kvals r) = r_kin r.
  Proof.
    unfold knames, kvals. induction (r_kin r) as [|[n v] t IH]; cbn [map combine fst snd]; [reflexivity | rewrite IH; reflexivity].
  Qed.

  Definition zipcons (a : list Q) (C : list (list Q)) : list (list Q) := map (fun p => fst p :: snd p) (combine a C).
  Lemma columns_length n rows : List.length (columns n rows) = n.
  Proof. revert rows; induction n as [|n IH]; intros rows; cbn [columns List.length]; [reflexivity | rewrite IH; reflexivity]. Qed.
  Lemma columns_cons n : forall (r : list Q) rows, List.length r = n -> columns n (r :: rows) = zipcons r (columns n rows).
  Proof.
    induction n as [|n IH]; intros r rows Hr.
    - destruct r; [reflexivity | discriminate].
    - destruct r as [|a r]; [discriminate|]. cbn [columns map hd tl]. unfold zipcons; cbn [combine map fst snd].
      f_equal. apply IH. cbn in Hr. lia.
  Qed.
  Lemma zipcons_hd_tl a C : List.length a = List.length C -> map (hd 0%Q) (zipcons a C) = a /\ map (@tl Q) (zipcons a C) = C.
  Proof.
    revert C; induction a as [|x a IH]; intros [|c C] H; try discriminate; [split; reflexivity|].
    unfold zipcons in *; cbn [combine map fst snd hd tl]. destruct (IH C) as [E1 E2]; [cbn in H; lia|]. rewrite E1, E2. split; reflexivity.
  Qed.
  Lemma rows_of_columns n rows : (forall r, In r rows -> List.length r = n) ->
    rows_of (columns n rows) (List.length rows) = rows.
  Proof.
    induction rows as [|r rows IH]; intros H; cbn [List.length rows_of]; [reflexivity|].
    rewrite (columns_cons n r rows) by (apply H; left; reflexivity).
    destruct (zipcons_hd_tl r (columns n rows)) as [E1 E2]; [rewrite columns_length; apply H; left; reflexivity|].
    rewrite E1, E2. f_equal. apply IH. intros r' Hr'. apply H. right. exact Hr'.
  Qed.

  Lemma names_eqb_eq a b : names_eqb a b = true -> a = b.
  Proof.
    revert b; induction a as [|x a IH]; intros [|y b]; cbn; intros H; try discriminate; [reflexivity|].
    apply andb_prop in H. destruct H as [H1 H2]. apply String.eqb_eq in H1. subst. f_equal. apply IH. exact H2.
  Qed.
  Lemma okeys_eqb_eq a b : okeys_eqb a b = true -> a = b.
  Proof.
    revert b; induction a as [|x a IH]; intros [|y b]; cbn; intros H; try discriminate; [reflexivity|].
    apply andb_prop in H. destruct H as [H1 H2]. apply okey_eqb_spec in H1. subst. f_equal. apply IH. exact H2.
  Qed.

  Lemma zip_res_all names orders (rs : list res) :
    (forall r, In r rs -> knames r = names /\ okeys r = orders) ->
    zip_res P names orders (map kvals rs) (map ovals rs) (map oerrs rs) = rs.
  Proof.
    induction rs as [|r rs IH]; intros H; cbn [map zip_res]; [reflexivity|].
    destruct (H r (or_introl eq_refl)) as [<- <-]. rewrite combine_kin, zip3_orders.
    destruct r as [k o]; cbn [r_kin r_orders]. f_equal. apply IH. intros r' Hr'.
    destruct (H r' (or_intror Hr')) as [E1 E2]. split; [rewrite E1 | rewrite E2]; reflexivity.
  Qed.

  (* load_tar (dump_tar rs) = rs whenever dump_tar succeeds on results that carry at least one scalar field *)
  Theorem tar_roundtrip (rs : list res) d : dump_obs rs = Some d ->
    (match rs with r0 :: _ => knames r0 <> [] | [] => True end) -> load_obs d = rs.
  Proof.
    unfold dump_obs. destruct rs as [|r0 rs']; [discriminate|]. remember (r0 :: rs') as rs eqn:Ers.
    destruct (forallb (fun r => names_eqb (knames r) (knames r0)) rs && forallb (fun r => okeys_eqb (okeys r) (okeys r0)) rs) eqn:E; [|discriminate].
    intros H Hne; injection H as <-. apply andb_prop in E. destruct E as [En Eo].
    rewrite forallb_forall in En, Eo.
    assert (Hall : forall r, In r rs -> knames r = knames r0 /\ okeys r = okeys r0).
    { intros r Hr. split; [apply names_eqb_eq, En, Hr | apply okeys_eqb_eq, Eo, Hr]. }
    assert (Hlen : forall k, In k (map kvals rs) -> List.length k = List.length (knames r0)).
    { intros k Hk. apply in_map_iff in Hk. destruct Hk as (r & <- & Hr). destruct (Hall r Hr) as [E1 _].
      unfold kvals. rewrite map_length. rewrite <- E1. unfold knames. rewrite map_length. reflexivity. }
    unfold load_obs, npoints; cbn [d_names d_orders d_cols d_vals d_errs].
    assert (Hnp : match columns (List.length (knames r0)) (map kvals rs) with c :: _ => List.length c | [] => 0%nat end
                  = List.length (map kvals rs)).
    { destruct (knames r0) as [|n0 ns] eqn:Ek; [congruence|]. cbn [List.length columns]. rewrite !map_length. reflexivity. }
    rewrite Hnp, rows_of_columns by exact Hlen. apply zip_res_all. exact Hall.
  Qed.
  (* conversely the dump only fails on an empty list, on results with different fields, or on non-uniform orders *)
  Theorem dump_succeeds (rs : list res) r0 rs' : rs = r0 :: rs' ->
    (forall r, In r rs -> knames r = knames r0 /\ okeys r = okeys r0) -> exists d, dump_obs rs = Some d.
  Proof.
    intros -> H. unfold dump_obs.
    assert (E : forallb (fun r => names_eqb (knames r) (knames r0)) (r0 :: rs') && forallb (fun r => okeys_eqb (okeys r) (okeys r0)) (r0 :: rs') = true).
    { assert (Rn : forall l, names_eqb l l = true) by (induction l as [|x l IH]; cbn; [reflexivity | rewrite String.eqb_refl, IH; reflexivity]).
      assert (Ro : forall l, okeys_eqb l l = true) by (induction l as [|x l IH]; cbn; [reflexivity | rewrite okey_eqb_refl, IH; reflexivity]).
      apply andb_true_intro; split; apply forallb_forall; intros r Hr; destruct (H r Hr) as [E1 E2]; rewrite ?E1, ?E2; [apply Rn | apply Ro]. }
    rewrite E. eexists. reflexivity.
  Qed.
  Theorem empty_list_not_dumped : dump_obs (P:=P) [] = None.
  Proof. reflexivity. Qed.
End T.
