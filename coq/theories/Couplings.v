(* Couplings.v — executable model of
     src/yadism/coefficient_functions/coupling_constants.py
   (CouplingConstants and CKM2Matrix), over the abstract field of Base.v.
   Hand-written; tied to the code by tools/corr/couplings.py. *)
From Coq Require Import ZArith List Bool.
From Yad Require Import Base.
Import ListNotations.

Inductive process := EM | NC | CC.
Inductive mode := PhPh | PhZ | ZZ | Zph | WW.
(* quark_coupling_type: "VV" "AA" "VA" "AV"; CC passes None, never inspected *)
Inductive ctype := VV | AA | VA | AV.

Definition process_eqb (a b : process) :=
  match a, b with EM, EM | NC, NC | CC, CC => true | _, _ => false end.

(* cc_mask: the code tests substrings "dus","c","b","t" and takes len() *)
Record mask := { m_dus : bool; m_c : bool; m_b : bool; m_t : bool; m_len : Z }.
(* br.quark_names[:nf] = "duscbt"[:nf] *)
Definition mask_light (nf : Z) : mask :=
  {| m_dus := (3 <=? nf)%Z; m_c := (4 <=? nf)%Z; m_b := (5 <=? nf)%Z; m_t := (6 <=? nf)%Z;
     m_len := nf |}.
(* br.quark_names[ihq-1] *)
Definition mask_single (ihq : Z) : mask :=
  {| m_dus := false; m_c := (ihq =? 4)%Z; m_b := (ihq =? 5)%Z; m_t := (ihq =? 6)%Z; m_len := 1 |}.

Section Couplings.
  Context {fld : Fld}.
  Local Open Scope F_scope.

  Record theory := {
    s2w : F;          (* sin2theta_weak *)
    MZ2 : F; MW2 : F;
    (* squared CKM elements, row-major: rows u c t, columns d s b *)
    ckm : F * F * F * (F * F * F) * (F * F * F);
  }.
  Record obs := {
    proc : process;
    proj : Z;          (* projectilePID: 11 -11 12 -12 *)
    pol : F;           (* polarization *)
    pcorr : F;         (* propagatorCorrection *)
    pos : option Z;    (* nc_pos_charge: None / "all" -> None, else 1 + index in "duscbt" *)
  }.

  (* self.electric_charge / self.weak_isospin_3 dictionaries *)
  Definition is_lepton (pid : Z) := (pid =? 11)%Z || (pid =? 13)%Z || (pid =? 15)%Z.
  Definition is_nu (pid : Z) := (pid =? 12)%Z || (pid =? 14)%Z || (pid =? 16)%Z.
  Definition is_quark (pid : Z) := (1 <=? pid)%Z && (pid <=? 6)%Z.
  Definition electric_charge (pid : Z) : F :=
    if (pid =? 21)%Z then f0
    else if is_quark pid then (if Z.even pid then two / three else - (f1 / three))
    else if is_lepton pid then - f1
    else f0.
  Definition weak_isospin_3 (pid : Z) : F :=
    if (pid =? 21)%Z then f0
    else if is_quark pid then (if Z.even pid then f1 / two else - (f1 / two))
    else if is_lepton pid then - (f1 / two)
    else if is_nu pid then f1 / two
    else f0.
  Definition known_pid (pid : Z) := (pid =? 21)%Z || is_quark pid || is_lepton pid || is_nu pid.

  Definition vectorial_coupling (t : theory) (pid : Z) : F :=
    weak_isospin_3 pid - two * electric_charge pid * s2w t.

  Definition is_vvaa (c : ctype) := match c with VV | AA => true | _ => false end.

  (* pol *= -1 for (odd, >0) or (even, <0) *)
  Definition eff_pol (o : obs) : F :=
    let p := proj o in
    if (Z.odd p && (0 <? p)%Z) || (Z.even p && (p <? 0)%Z) then - pol o else pol o.

  Definition leptonic_coupling (t : theory) (o : obs) (m : mode) (c : ctype) : F :=
    match m with
    | WW => two
    | _ =>
      let ap := Z.abs (proj o) in
      let pl := eff_pol o in
      let v := match m with PhZ | ZZ => vectorial_coupling t ap | _ => f0 end in
      let a := match m with PhZ | ZZ => weak_isospin_3 ap | _ => f0 end in
      let e := electric_charge ap in
      match m with
      | PhPh => if is_vvaa c then e * e else f0
      | PhZ => if is_vvaa c then e * (v + pl * a) else e * (a + pl * v)
      | ZZ => if is_vvaa c then v * v + a * a + two * pl * v * a
              else two * v * a + pl * (v * v + a * a)
      | _ => f0 (* the code raises ValueError for any other mode; never requested *)
      end
    end.

  Definition firstV (c : ctype) := match c with VV | VA => true | _ => false end.
  Definition secondV (c : ctype) := match c with VV | AV => true | _ => false end.
  Definition qph (pid : Z) (isV : bool) : F := if isV then electric_charge pid else f0.
  Definition qZ (t : theory) (pid : Z) (isV : bool) : F :=
    if isV then vectorial_coupling t pid else weak_isospin_3 pid.

  (* CKM2Matrix.masked(mask).m as nine entries *)
  Definition b2f (b : bool) : F := if b then f1 else f0.
  Definition ckm_masked (t : theory) (k : mask) : F * F * F * (F * F * F) * (F * F * F) :=
    let '(ud, us, ub, (cd, cs, cb), (td, ts, tb)) := ckm t in
    let d := b2f (m_dus k) in let c := b2f (m_c k) in
    let b := b2f (m_b k) in let tt := b2f (m_t k) in
    (* op = dus*[[1,1,0],[0,0,0],[0,0,0]] + c*[[0,0,0],[1,1,0],[0,0,0]]
          + b*[[0,0,1],[0,0,1],[0,0,0]] + t*[[0,0,0],[0,0,0],[1,1,1]]  *)
    (ud * d, us * d, ub * b, (cd * c, cs * c, cb * b), (td * tt, ts * tt, tb * tt)).

  (* np.sum(CKM.masked(mask)(pid)): row for even pid (2,4,6), column for odd (1,3,5) *)
  Definition ckm_sum (t : theory) (k : mask) (pid : Z) : F :=
    let '(ud, us, ub, (cd, cs, cb), (td, ts, tb)) := ckm_masked t k in
    if (pid =? 2)%Z then ud + us + ub
    else if (pid =? 4)%Z then cd + cs + cb
    else if (pid =? 6)%Z then td + ts + tb
    else if (pid =? 1)%Z then ud + cd + td
    else if (pid =? 3)%Z then us + cs + ts
    else if (pid =? 5)%Z then ub + cb + tb
    else f0. (* other pids raise in the code *)

  Definition partonic_coupling (t : theory) (m : mode) (pid : Z) (c : ctype) (k : mask) : F :=
    let pid := Z.abs pid in
    match m with
    | WW => ckm_sum t k pid
    | PhPh => qph pid (firstV c) * qph pid (secondV c)
    | PhZ => qph pid (firstV c) * qZ t pid (secondV c)
    | ZZ => qZ t pid (firstV c) * qZ t pid (secondV c)
    | Zph => f0 (* raises ValueError in the code; never requested *)
    end.

  (* np.mean over range(1,nf+1) *)
  Fixpoint quarks_upto (n : nat) : list Z :=
    match n with O => [] | S k => quarks_upto k ++ [Z.of_nat (S k)] end.

  Definition fl11_switch (t : theory) (m : mode) (quark : Z) (isV : bool) : F :=
    match m with
    | PhPh | Zph => qph quark isV
    | PhZ | ZZ => qZ t quark isV
    | WW => f0
    end.
  Definition partonic_coupling_fl11 (t : theory) (m : mode) (pid : Z) (nf : Z) (c : ctype) : F :=
    match m with
    | WW => f0
    | _ =>
      let g1 := fsum (map (fun q => fl11_switch t m q (firstV c)) (quarks_upto (Z.to_nat nf)))
                / fz nf in
      let g2 := fl11_switch t m (Z.abs pid) (secondV c) in
      g1 * g2
    end.

  Definition eta_phZ (t : theory) (o : obs) (Q2 : F) : F :=
    (Q2 / (MZ2 t + Q2)) / (four * s2w t * (f1 - s2w t)) / (f1 - pcorr o).

  Definition propagator_factor (t : theory) (o : obs) (m : mode) (Q2 : F) : F :=
    match m with
    | PhPh => f1
    | PhZ | Zph => eta_phZ t o Q2
    | ZZ => eta_phZ t o Q2 * eta_phZ t o Q2
    | WW => let e := (eta_phZ t o Q2 / two) * (f1 + Q2 / MZ2 t) / (f1 + Q2 / MW2 t) in e * e
    end.

  Definition pos_blocks (o : obs) (pid : Z) : bool :=
    match pos o with None => false | Some pp => negb (Z.abs pid =? pp)%Z end.

  Definition get_weight (t : theory) (o : obs) (pid : Z) (Q2 : F) (c : ctype) (k : mask) : F :=
    match proc o with
    | CC => leptonic_coupling t o WW c * partonic_coupling t WW pid c k
    | p =>
      if pos_blocks o pid then f0 else
      let w (m : mode) := leptonic_coupling t o m c * propagator_factor t o m Q2
                          * partonic_coupling t m pid c k in
      match p with
      | EM => w PhPh
      | _ => w PhPh + two * w PhZ + w ZZ
      end
    end.

  Definition get_fl11_weight (t : theory) (o : obs) (pid : Z) (Q2 : F) (nf : Z) (c : ctype) : F :=
    match proc o with
    | CC => f0
    | p =>
      if pos_blocks o pid then f0 else
      let w (lm pm : mode) := leptonic_coupling t o lm c * propagator_factor t o lm Q2
                              * partonic_coupling_fl11 t pm pid nf c in
      match p with
      | EM => w PhPh PhPh
      | _ => w PhPh PhPh + w PhZ PhZ + w PhZ Zph + w ZZ ZZ
      end
    end.
End Couplings.
