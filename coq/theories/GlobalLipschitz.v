(* GlobalLipschitz.v — C19: the interpolation error of the grid's interpolant (all areas, eko's piecewise basis as modelled) is Lipschitz on
   the whole grid range with the constant  Lam1 M h^(d+1)/(d+1)! + M h^d/d!  (h: largest block width, Lam1: bound on sum_j |l_j'| over the blocks). *)
From Coq Require Import Reals List Lra Lia Arith Bool.
From Coquelicot Require Import Coquelicot.
From Yad Require Import Base Interp InterpTheorems InterpReal InterpDeriv GlobalInterp.
Import ListNotations.
Open Scope R_scope.

Lemma pieces_of_nth (g : R -> R) (D : R) (l : list R) :
  (forall i, (i + 1 < length l)%nat -> forall u v, nth i l 0 <= u <= nth (S i) l 0 -> nth i l 0 <= v <= nth (S i) l 0 -> Rabs (g u - g v) <= D * Rabs (u - v)) ->
  pieces_lipschitz g D l.
Proof.
  induction l as [|a [|b r] IH]; intros H; cbn [pieces_lipschitz]; try exact I. split.
  - apply (H 0%nat). cbn [length]. lia.
  - apply IH. intros i Hi. apply (H (S i)). cbn [length] in *. lia.
Qed.
Lemma increasing_of_sorted l : sorted l -> increasing l.
Proof.
  induction l as [|a [|b r] IH]; intros H; cbn [increasing]; try exact I. split.
  - apply (H 0%nat 1%nat); cbn [length]; lia.
  - apply IH. intros i j Hij Hj. apply (H (S i) (S j)); cbn [length] in *; lia.
Qed.
Lemma hd_nth (l : list R) : hd 0 l = nth 0 l 0. Proof. destruct l; reflexivity. Qed.
Lemma last_nth (l : list R) : last l 0 = nth (length l - 1) l 0.
Proof.
  induction l as [|a [|b r] IH]; [reflexivity | reflexivity|]. change (last (a :: b :: r) 0) with (last (b :: r) 0). rewrite IH.
  cbn [length]. replace (S (S (length r)) - 1)%nat with (S (length r)) by lia. replace (S (length r) - 1)%nat with (length r) by lia. reflexivity.
Qed.
Lemma sorted_le l i j : sorted l -> (i <= j)%nat -> (j < length l)%nat -> nth i l 0 <= nth j l 0.
Proof. intros H Hij Hj. destruct (Nat.eq_dec i j) as [->|Hne]; [lra|]. left. apply H; lia. Qed.

Theorem global_error_lipschitz ns d f M Lam1 h : sorted ns -> (1 <= d <= 4)%nat -> (d < length ns)%nat -> 0 <= Lam1 ->
  (forall w, nth 0 ns 0 <= w <= nth (length ns - 1) ns 0 -> forall k, (k <= S d)%nat -> ex_derive_n f k w) ->
  (forall w, nth 0 ns 0 < w < nth (length ns - 1) ns 0 -> Rabs (Derive_n f (S d) w) <= M) ->
  (forall i, (i + 1 < length ns)%nat ->
     nth (snd (block (length ns) d i)) ns 0 - nth (fst (block (length ns) d i)) ns 0 <= h /\
     forall w, nth (fst (block (length ns) d i)) ns 0 <= w <= nth (snd (block (length ns) d i)) ns 0 -> lebesgue1 (@block_nodes RFld ns d i) w <= Lam1) ->
  forall u v, nth 0 ns 0 <= u <= nth (length ns - 1) ns 0 -> nth 0 ns 0 <= v <= nth (length ns - 1) ns 0 ->
  Rabs ((Iglobal ns d f u - f u) - (Iglobal ns d f v - f v))
  <= (Lam1 * (M * h ^ S d / INR (fact (S d))) + M * h ^ d / INR (fact d)) * Rabs (u - v).
Proof.
  intros Hs Hd Hn HLam Hder HM Hblk u v Hu Hv.
  assert (M0 : 0 <= M).
  { assert (nth 0 ns 0 < nth (length ns - 1) ns 0) by (apply Hs; lia).
    eapply Rle_trans; [apply Rabs_pos | apply (HM ((nth 0 ns 0 + nth (length ns - 1) ns 0) / 2)); lra]. }
  set (D := Lam1 * (M * h ^ S d / INR (fact (S d))) + M * h ^ d / INR (fact d)).
  set (e := fun t => Iglobal ns d f t - f t).
  change (Rabs (e u - e v) <= D * Rabs (u - v)).
  assert (Hf1 : 0 < / INR (fact (S d))) by (apply Rinv_0_lt_compat, lt_0_INR, lt_O_fact).
  assert (Hf0 : 0 < / INR (fact d)) by (apply Rinv_0_lt_compat, lt_0_INR, lt_O_fact).
  assert (Hpiece : forall i, (i + 1 < length ns)%nat -> forall u v, nth i ns 0 <= u <= nth (S i) ns 0 -> nth i ns 0 <= v <= nth (S i) ns 0 ->
                   Rabs (e u - e v) <= D * Rabs (u - v)).
  { intros i Hi u' v' Hu' Hv'. unfold e.
    rewrite (global_is_block_interpolant_closed ns d i f u' Hs ltac:(lia) Hn Hi Hu'), (global_is_block_interpolant_closed ns d i f v' Hs ltac:(lia) Hn Hi Hv').
    pose proof (block_contains_area (length ns) d i ltac:(lia) Hn Hi) as B. destruct (Hblk i Hi) as [Hh HL1].
    destruct (block (length ns) d i) as [a b] eqn:Eb. cbn [fst snd] in *. destruct B as (B1 & B2 & B3 & B4).
    set (vs := @block_nodes RFld ns d i). set (A := nth a ns 0) in *. set (Bb := nth b ns 0) in *.
    assert (Lvs : length vs = S d) by (apply (@block_nodes_length RFld); try assumption; lia).
    assert (HAB : A < Bb) by (apply Hs; lia).
    assert (Hh0 : 0 < h) by lra.
    assert (Hnodes : forall j, (j < length vs)%nat -> A <= nth j vs 0 <= Bb).
    { intros j Hj. rewrite Lvs in Hj. pose proof (@block_nodes_nth RFld ns d i (a + j) ltac:(lia) Hn Hi) as N. change (@F RFld) with R in N. rewrite Eb in N. cbn [fst snd] in N.
      replace (a + j - a)%nat with j in N by lia. change (@f0 RFld) with 0 in N. fold vs in N. pose proof (N ltac:(lia)) as N'.
      enough (G : A <= nth (a + j) ns 0 <= Bb) by (rewrite <- N' in G; exact G).
      split; apply sorted_le; try assumption; lia. }
    assert (HuA : A <= u' <= Bb).
    { pose proof (sorted_le ns a i Hs ltac:(lia) ltac:(lia)). pose proof (sorted_le ns (S i) b Hs ltac:(lia) ltac:(lia)). unfold A, Bb. lra. }
    assert (HvA : A <= v' <= Bb).
    { pose proof (sorted_le ns a i Hs ltac:(lia) ltac:(lia)). pose proof (sorted_le ns (S i) b Hs ltac:(lia) ltac:(lia)). unfold A, Bb. lra. }
    assert (Hrange : forall w, A <= w <= Bb -> nth 0 ns 0 <= w <= nth (length ns - 1) ns 0).
    { intros w Hw. pose proof (sorted_le ns 0 a Hs ltac:(lia) ltac:(lia)). pose proof (sorted_le ns b (length ns - 1) Hs ltac:(lia) ltac:(lia)). unfold A, Bb in Hw. lra. }
    eapply Rle_trans.
    - apply (interp_error_lipschitz vs f A Bb M Lam1 u' v'); try assumption.
      + apply (@block_nodes_alldiff RFld), sorted_alldiff, Hs.
      + rewrite Lvs. lia.
      + intros w Hw k Hk. rewrite Lvs in Hk. apply Hder; [apply Hrange; exact Hw | exact Hk].
      + intros w Hw. rewrite Lvs. apply HM.
        assert (nth 0 ns 0 <= A) by (apply sorted_le; try assumption; lia). assert (Bb <= nth (length ns - 1) ns 0) by (apply sorted_le; try assumption; lia). lra.
    - rewrite Lvs. replace (S d - 1)%nat with d by lia. apply Rmult_le_compat_r; [apply Rabs_pos|]. unfold D.
      assert (P1 : (Bb - A) ^ S d <= h ^ S d) by (apply pow_incr; lra).
      assert (P0 : (Bb - A) ^ d <= h ^ d) by (apply pow_incr; lra).
      assert (Q1 : 0 <= (Bb - A) ^ S d) by (apply pow_le; lra). assert (Q0 : 0 <= (Bb - A) ^ d) by (apply pow_le; lra).
      assert (T1 : M * (Bb - A) ^ S d / INR (fact (S d)) <= M * h ^ S d / INR (fact (S d))).
      { unfold Rdiv. apply Rmult_le_compat_r; [lra|]. apply Rmult_le_compat_l; assumption. }
      assert (T0 : M * (Bb - A) ^ d / INR (fact d) <= M * h ^ d / INR (fact d)).
      { unfold Rdiv. apply Rmult_le_compat_r; [lra|]. apply Rmult_le_compat_l; assumption. }
      assert (T1' : Lam1 * (M * (Bb - A) ^ S d / INR (fact (S d))) <= Lam1 * (M * h ^ S d / INR (fact (S d)))) by (apply Rmult_le_compat_l; assumption).
      lra. }
  assert (D0 : 0 <= D).
  { unfold D. assert (0 < h). { destruct (Hblk 0%nat ltac:(lia)) as [Hh _]. pose proof (block_contains_area (length ns) d 0 ltac:(lia) Hn ltac:(lia)) as B.
      destruct (block (length ns) d 0) as [a b]. cbn [fst snd] in *. assert (nth a ns 0 < nth b ns 0) by (apply Hs; lia). lra. }
    assert (0 <= h ^ S d) by (apply pow_le; lra). assert (0 <= h ^ d) by (apply pow_le; lra).
    apply Rplus_le_le_0_compat; [apply Rmult_le_pos; [exact HLam|]|]; unfold Rdiv; apply Rmult_le_pos; try lra; apply Rmult_le_pos; assumption. }
  apply (piecewise_lipschitz e D ns D0 (increasing_of_sorted ns Hs) (pieces_of_nth e D ns Hpiece)); rewrite hd_nth, last_nth; assumption.
Qed.

(* every point of the grid range lies in a closed area *)
Lemma exists_area l t : (2 <= length l)%nat -> nth 0 l 0 <= t <= nth (length l - 1) l 0 -> exists i, (i + 1 < length l)%nat /\ nth i l 0 <= t <= nth (S i) l 0.
Proof.
  induction l as [|a [|b r] IH]; intros Hl Ht; cbn [length] in Hl; try lia.
  destruct (Rle_dec t b) as [Htb|Htb].
  - exists 0%nat. cbn [length nth] in *. split; [lia | lra].
  - destruct r as [|c r'].
    + simpl in Ht. lra.
    + destruct (IH ltac:(cbn [length]; lia)) as [i [Hi Hit]].
      * simpl in Ht |- *. lra.
      * exists (S i). cbn [length] in *. split; [lia | exact Hit].
Qed.

Theorem global_error_sup ns d f M Lam h t : sorted ns -> (1 <= d <= 4)%nat -> (d < length ns)%nat -> 0 <= Lam ->
  (forall w, nth 0 ns 0 <= w <= nth (length ns - 1) ns 0 -> forall k, (k <= S d)%nat -> ex_derive_n f k w) ->
  (forall w, nth 0 ns 0 < w < nth (length ns - 1) ns 0 -> Rabs (Derive_n f (S d) w) <= M) ->
  (forall i, (i + 1 < length ns)%nat ->
     nth (snd (block (length ns) d i)) ns 0 - nth (fst (block (length ns) d i)) ns 0 <= h /\
     forall w, nth (fst (block (length ns) d i)) ns 0 <= w <= nth (snd (block (length ns) d i)) ns 0 -> lebesgue (@block_nodes RFld ns d i) w <= Lam) ->
  nth 0 ns 0 <= t <= nth (length ns - 1) ns 0 ->
  Rabs (Iglobal ns d f t - f t) <= (1 + Lam) * (M * h ^ S d / INR (fact (S d))).
Proof.
  intros Hs Hd Hn HLam Hder HM Hblk Ht.
  assert (M0 : 0 <= M).
  { assert (nth 0 ns 0 < nth (length ns - 1) ns 0) by (apply Hs; lia).
    eapply Rle_trans; [apply Rabs_pos | apply (HM ((nth 0 ns 0 + nth (length ns - 1) ns 0) / 2)); lra]. }
  destruct (exists_area ns t ltac:(lia) Ht) as [i [Hi Hit]].
  rewrite (global_is_block_interpolant_closed ns d i f t Hs ltac:(lia) Hn Hi Hit).
  pose proof (block_contains_area (length ns) d i ltac:(lia) Hn Hi) as B. destruct (Hblk i Hi) as [Hh HL1].
  destruct (block (length ns) d i) as [a b] eqn:Eb. cbn [fst snd] in *. destruct B as (B1 & B2 & B3 & B4).
  set (vs := @block_nodes RFld ns d i) in *. set (A := nth a ns 0) in *. set (Bb := nth b ns 0) in *.
  assert (Lvs : length vs = S d) by (apply (@block_nodes_length RFld); try assumption; lia).
  assert (HAB : A < Bb) by (apply Hs; lia).
  assert (Hnodes : forall j, (j < length vs)%nat -> A <= nth j vs 0 <= Bb).
  { intros j Hj. rewrite Lvs in Hj. pose proof (@block_nodes_nth RFld ns d i (a + j) ltac:(lia) Hn Hi) as N. change (@F RFld) with R in N. rewrite Eb in N. cbn [fst snd] in N.
    replace (a + j - a)%nat with j in N by lia. change (@f0 RFld) with 0 in N. fold vs in N. pose proof (N ltac:(lia)) as N'.
    enough (G : A <= nth (a + j) ns 0 <= Bb) by (rewrite <- N' in G; exact G).
    split; apply sorted_le; try assumption; lia. }
  assert (HtA : A <= t <= Bb).
  { pose proof (sorted_le ns a i Hs ltac:(lia) ltac:(lia)). pose proof (sorted_le ns (S i) b Hs ltac:(lia) ltac:(lia)). unfold A, Bb. lra. }
  assert (Hrange : forall w, A <= w <= Bb -> nth 0 ns 0 <= w <= nth (length ns - 1) ns 0).
  { intros w Hw. pose proof (sorted_le ns 0 a Hs ltac:(lia) ltac:(lia)). pose proof (sorted_le ns b (length ns - 1) Hs ltac:(lia) ltac:(lia)). unfold A, Bb in Hw. lra. }
  eapply Rle_trans.
  - apply (interp_error_smooth vs f A Bb M t); try assumption.
    + apply (@block_nodes_alldiff RFld), sorted_alldiff, Hs.
    + rewrite Lvs. lia.
    + intros w Hw k Hk. rewrite Lvs in Hk. apply Hder; [apply Hrange; exact Hw | exact Hk].
    + intros w Hw. rewrite Lvs. apply HM.
      assert (nth 0 ns 0 <= A) by (apply sorted_le; try assumption; lia). assert (Bb <= nth (length ns - 1) ns 0) by (apply sorted_le; try assumption; lia). lra.
  - rewrite Lvs. assert (Hf1 : 0 < / INR (fact (S d))) by (apply Rinv_0_lt_compat, lt_0_INR, lt_O_fact).
    assert (P1 : (Bb - A) ^ S d <= h ^ S d) by (apply pow_incr; lra). assert (Q1 : 0 <= (Bb - A) ^ S d) by (apply pow_le; lra).
    assert (T1 : 0 <= M * (Bb - A) ^ S d / INR (fact (S d)) <= M * h ^ S d / INR (fact (S d))).
    { unfold Rdiv. split; [apply Rmult_le_pos; [apply Rmult_le_pos; assumption | lra]|]. apply Rmult_le_compat_r; [lra|]. apply Rmult_le_compat_l; assumption. }
    assert (L0 : 0 <= lebesgue vs t).
    { unfold lebesgue. apply Rle_trans with (rsum (fun _ => 0) (seq 0 (length vs))); [rewrite rsum_zero by reflexivity; lra|]. apply rsum_le. intros j _. apply Rabs_pos. }
    specialize (HL1 t HtA). apply Rmult_le_compat; lra.
Qed.

(* ---------------- all together (interpolation in x itself; in eko's log mode the same holds for f o exp on the logarithms of the nodes):
   the prediction built from the node values of a smooth f differs from the exact convolution by at most
       (W + |loc(x)|) E + Ws (Le x + E),   E = (1 + Lam) M h^(d+1)/(d+1)!,   Le = Lam1 M h^(d+1)/(d+1)! + M h^d/d!
   — O(h^d) for fixed relative node spacing (Lam bounded, Lam1 ~ 1/h).  Lam, Lam1 (properties of the node geometry) and the existence of the
   improper integrals are hypotheses; QUADPACK's error is outside. *)
From Yad Require Import Conv ConvGen ConvError.
Theorem prediction_error_smooth_grid (k : rsl) ns d f M Lam Lam1 h x W Ws v w : sorted ns -> (1 <= d <= 4)%nat -> (d < length ns)%nat -> 0 <= Lam -> 0 <= Lam1 ->
  nth 0 ns 0 <= x -> 0 < x < 1 -> nth (length ns - 1) ns 0 = 1 ->
  (forall u, nth 0 ns 0 <= u <= 1 -> forall j, (j <= S d)%nat -> ex_derive_n f j u) ->
  (forall u, nth 0 ns 0 < u < 1 -> Rabs (Derive_n f (S d) u) <= M) ->
  (forall i, (i + 1 < length ns)%nat ->
     nth (snd (block (length ns) d i)) ns 0 - nth (fst (block (length ns) d i)) ns 0 <= h /\
     forall u, nth (fst (block (length ns) d i)) ns 0 <= u <= nth (snd (block (length ns) d i)) ns 0 ->
       lebesgue (@block_nodes RFld ns d i) u <= Lam /\ lebesgue1 (@block_nodes RFld ns d i) u <= Lam1) ->
  is_conv k (Iglobal ns d f) x v -> is_conv k f x w ->
  is_RInt_gen (fun z => Rabs (r_reg k z) / z) (at_point x) (at_left 1) W ->
  is_RInt_gen (fun z => Rabs (r_sing k z) * ((1 - z) / (z * z))) (at_point x) (at_left 1) Ws ->
  Rabs (v - w) <= (W + Rabs (r_loc k x)) * ((1 + Lam) * (M * h ^ S d / INR (fact (S d))))
                  + Ws * ((Lam1 * (M * h ^ S d / INR (fact (S d))) + M * h ^ d / INR (fact d)) * x + (1 + Lam) * (M * h ^ S d / INR (fact (S d)))).
Proof.
  intros Hs Hd Hn HLam HLam1 Hx0 Hx Hlast Hder HM Hblk Hv Hw HW HWs.
  assert (D0 : 0 <= Lam1 * (M * h ^ S d / INR (fact (S d))) + M * h ^ d / INR (fact d)).
  { assert (M0 : 0 <= M). { eapply Rle_trans; [apply Rabs_pos | apply (HM ((x + 1) / 2)); lra]. }
    assert (0 < h). { destruct (Hblk 0%nat ltac:(lia)) as [Hh _]. pose proof (block_contains_area (length ns) d 0 ltac:(lia) Hn ltac:(lia)) as B.
      destruct (block (length ns) d 0) as [a b]. cbn [fst snd] in *. assert (nth a ns 0 < nth b ns 0) by (apply Hs; lia). lra. }
    assert (0 <= h ^ S d) by (apply pow_le; lra). assert (0 <= h ^ d) by (apply pow_le; lra).
    assert (Hf1 : 0 < / INR (fact (S d))) by (apply Rinv_0_lt_compat, lt_0_INR, lt_O_fact).
    assert (Hf0 : 0 < / INR (fact d)) by (apply Rinv_0_lt_compat, lt_0_INR, lt_O_fact).
    apply Rplus_le_le_0_compat; [apply Rmult_le_pos; [exact HLam1|]|]; unfold Rdiv; apply Rmult_le_pos; try lra; apply Rmult_le_pos; assumption. }
  assert (Hder' : forall u, nth 0 ns 0 <= u <= nth (length ns - 1) ns 0 -> forall j, (j <= S d)%nat -> ex_derive_n f j u) by (rewrite Hlast; exact Hder).
  assert (HM' : forall u, nth 0 ns 0 < u < nth (length ns - 1) ns 0 -> Rabs (Derive_n f (S d) u) <= M) by (rewrite Hlast; exact HM).
  assert (Hb0 : forall i, (i + 1 < length ns)%nat ->
     nth (snd (block (length ns) d i)) ns 0 - nth (fst (block (length ns) d i)) ns 0 <= h /\
     forall u, nth (fst (block (length ns) d i)) ns 0 <= u <= nth (snd (block (length ns) d i)) ns 0 -> lebesgue (@block_nodes RFld ns d i) u <= Lam).
  { intros i Hi. destruct (Hblk i Hi) as [Hh HL]. split; [exact Hh | intros u' Hu'; apply (HL u' Hu')]. }
  assert (Hb1 : forall i, (i + 1 < length ns)%nat ->
     nth (snd (block (length ns) d i)) ns 0 - nth (fst (block (length ns) d i)) ns 0 <= h /\
     forall u, nth (fst (block (length ns) d i)) ns 0 <= u <= nth (snd (block (length ns) d i)) ns 0 -> lebesgue1 (@block_nodes RFld ns d i) u <= Lam1).
  { intros i Hi. destruct (Hblk i Hi) as [Hh HL]. split; [exact Hh | intros u' Hu'; apply (HL u' Hu')]. }
  apply (prediction_error_gen k f (Iglobal ns d f) x ((1 + Lam) * (M * h ^ S d / INR (fact (S d))))
           (Lam1 * (M * h ^ S d / INR (fact (S d))) + M * h ^ d / INR (fact d)) W Ws v w Hx D0); try assumption.
  - intros u Hu. apply (global_error_sup ns d f M Lam h u Hs Hd Hn HLam Hder' HM' Hb0). rewrite Hlast. lra.
  - intros u t Hu Ht. apply (global_error_lipschitz ns d f M Lam1 h Hs Hd Hn HLam1 Hder' HM' Hb1); rewrite Hlast; lra.
Qed.
