(* Expr.v — the expression language the kernel translator (tools/pyk2coq.py) targets, and its meaning over
   the reals.  Special functions (dilogarithm, Nielsen polylogarithms, zeta(3)) are interpreted through a
   record [special]: theorems quantify over every interpretation with the stated analytic properties; SpecialR.v
   exhibits one (defined by integrals), so those hypotheses are satisfiable. *)
From Coq Require Import Reals ZArith List String Lia.
Import ListNotations.
Open Scope R_scope.

Inductive expr :=
| Cst (n : Z) (d : positive)        (* the exact decimal of the source text, n/d *)
| Zv                                 (* the kernel variable z (or x) *)
| Arg (i : nat)                      (* args[i] *)
| Pi | Zeta3
| Add (a b : expr) | Sub (a b : expr) | Mul (a b : expr) | Div (a b : expr) | Neg (a : expr)
| PowN (a : expr) (n : nat)
| Ln (a : expr) | Li2 (a : expr) | Sqrt (a : expr)
| Snp (n p : nat) (a : expr)         (* Re S_{n,p} *)
| SnpIm (n p : nat) (a : expr).      (* Im S_{n,p} *)

Inductive kernel_entry := Translated (e : expr) | Opaque (reason : string).

Record special := { sp_li2 : R -> R; sp_snp : nat -> nat -> R -> R; sp_snpim : nat -> nat -> R -> R; sp_zeta3 : R }.

(* n/d; an integer is written without the division so that 1 - z is literally [1 - z] *)
Definition cst_val (n : Z) (d : positive) : R := match d with xH => IZR n | _ => IZR n / IZR (Zpos d) end.

Fixpoint eval (sp : special) (e : expr) (z : R) (a : list R) : R :=
  match e with
  | Cst n d => cst_val n d
  | Zv => z
  | Arg i => nth i a 0
  | Pi => PI
  | Zeta3 => sp_zeta3 sp
  | Add x y => eval sp x z a + eval sp y z a
  | Sub x y => eval sp x z a - eval sp y z a
  | Mul x y => eval sp x z a * eval sp y z a
  | Div x y => eval sp x z a / eval sp y z a
  | Neg x => - eval sp x z a
  | PowN x n => eval sp x z a ^ n
  | Ln x => ln (eval sp x z a)
  | Li2 x => sp_li2 sp (eval sp x z a)
  | Sqrt x => sqrt (eval sp x z a)
  | Snp n p x => sp_snp sp n p (eval sp x z a)
  | SnpIm n p x => sp_snpim sp n p (eval sp x z a)
  end.

(* 1 + the largest args index read (0: none) — what the compiled code dereferences *)
Fixpoint arity (e : expr) : nat :=
  match e with
  | Arg i => S i
  | Cst _ _ | Zv | Pi | Zeta3 => 0
  | Add x y | Sub x y | Mul x y | Div x y => Nat.max (arity x) (arity y)
  | Neg x | PowN x _ | Ln x | Li2 x | Sqrt x | Snp _ _ x | SnpIm _ _ x => arity x
  end.

(* evaluation that refuses to read beyond the argument vector *)
Fixpoint eval_safe (sp : special) (e : expr) (z : R) (a : list R) : option R :=
  let bin (f : R -> R -> R) x y :=
    match eval_safe sp x z a, eval_safe sp y z a with Some u, Some v => Some (f u v) | _, _ => None end in
  let un (f : R -> R) x := match eval_safe sp x z a with Some u => Some (f u) | None => None end in
  match e with
  | Cst n d => Some (cst_val n d)
  | Zv => Some z
  | Arg i => nth_error a i
  | Pi => Some PI
  | Zeta3 => Some (sp_zeta3 sp)
  | Add x y => bin Rplus x y | Sub x y => bin Rminus x y | Mul x y => bin Rmult x y | Div x y => bin Rdiv x y
  | Neg x => un Ropp x
  | PowN x n => un (fun u => u ^ n) x
  | Ln x => un ln x | Li2 x => un (sp_li2 sp) x | Sqrt x => un sqrt x
  | Snp n p x => un (sp_snp sp n p) x | SnpIm n p x => un (sp_snpim sp n p) x
  end.

(* a kernel never reads outside a vector at least as long as its arity, and then the two evaluations agree *)
Theorem eval_safe_total sp e z (a : list R) : (arity e <= List.length a)%nat -> eval_safe sp e z a = Some (eval sp e z a).
Proof.
  induction e; cbn [arity eval_safe eval]; intros H; try reflexivity;
    try (rewrite IHe by exact H; reflexivity);
    try (rewrite IHe1, IHe2 by (eapply Nat.le_trans; [| exact H]; auto using Nat.le_max_l, Nat.le_max_r); reflexivity).
  - apply nth_error_nth'. exact H.
Qed.
(* and with a shorter vector some read is out of bounds *)
Theorem eval_safe_oob sp e z (a : list R) : (List.length a < arity e)%nat -> eval_safe sp e z a = None.
Proof.
  induction e; cbn [arity eval_safe]; intros H; try (exfalso; inversion H; fail);
    try (rewrite IHe by exact H; reflexivity).
  - apply nth_error_None. apply Nat.lt_succ_r. exact H.
  - destruct (Nat.max_spec (arity e1) (arity e2)) as [[_ E]|[_ E]]; rewrite E in H;
      [rewrite (IHe2 H); destruct (eval_safe sp e1 z a); reflexivity | rewrite (IHe1 H); reflexivity].
  - destruct (Nat.max_spec (arity e1) (arity e2)) as [[_ E]|[_ E]]; rewrite E in H;
      [rewrite (IHe2 H); destruct (eval_safe sp e1 z a); reflexivity | rewrite (IHe1 H); reflexivity].
  - destruct (Nat.max_spec (arity e1) (arity e2)) as [[_ E]|[_ E]]; rewrite E in H;
      [rewrite (IHe2 H); destruct (eval_safe sp e1 z a); reflexivity | rewrite (IHe1 H); reflexivity].
  - destruct (Nat.max_spec (arity e1) (arity e2)) as [[_ E]|[_ E]]; rewrite E in H;
      [rewrite (IHe2 H); destruct (eval_safe sp e1 z a); reflexivity | rewrite (IHe1 H); reflexivity].
Qed.
