(* Distr.v — hand-written model of the two loops of partonic_channel.py
     sing_from_distr_coeffs(z, coeffs) = sum_k coeffs[k] / (1-z) * ln(1-z)^k
     loc_from_distr_coeffs(x, coeffs)  = coeffs[0] + sum_k coeffs[k+1] * ln(1-x)^(k+1)/(k+1)
     loc_from_delta(_, coeffs)         = coeffs[0]
   and the generic theorem behind every RSL.from_distr_coeffs / from_delta site: for ANY coefficient list the local
   part is the delta coefficient minus the integral of the singular part. *)
From Coq Require Import Reals List Lra Lia.
From Coquelicot Require Import Coquelicot.
Import ListNotations.
Open Scope R_scope.

Fixpoint singk (k : nat) (c : list R) (z : R) : R :=
  match c with [] => 0 | a :: r => a * / (1 - z) * ln (1 - z) ^ k + singk (S k) r z end.
Fixpoint lock (k : nat) (c : list R) (x : R) : R :=
  match c with [] => 0 | a :: r => a * ln (1 - x) ^ (S k) / INR (S k) + lock (S k) r x end.
Definition sing_from_distr_coeffs (c : list R) (z : R) : R := singk 0 c z.
Definition loc_from_distr_coeffs (c : list R) (x : R) : R := match c with [] => 0 | d :: r => lock 0 r x + d end.
Definition loc_from_delta (c : list R) (x : R) : R := nth 0 c 0.

Lemma lock_derive c : forall k x, x < 1 -> is_derive (lock k c) x (- singk k c x).
Proof.
  induction c as [|a r IH]; intros k x Hx; cbn [lock singk].
  - replace (- 0) with 0 by ring. apply (is_derive_const 0 x).
  - replace (- (a * / (1 - x) * ln (1 - x) ^ k + singk (S k) r x))
      with ((a * (INR (S k) * (ln (1-x)) ^ k * (- / (1 - x))) / INR (S k)) + - singk (S k) r x).
    2:{ assert (INR (S k) <> 0) by (apply not_0_INR; lia). field; repeat split; try lra; try assumption. }
    apply (is_derive_plus (fun x => a * ln (1 - x) ^ (S k) / INR (S k)) (lock (S k) r)); [| apply IH; exact Hx].
    auto_derive. lra. change (match k with 0%nat => 1 | S _ => INR k + 1 end) with (INR (S k)).
    assert (INR (S k) <> 0) by (apply not_0_INR; lia). unfold Rminus. field; repeat split; try lra; try assumption.
Qed.

(* loc' = - sing for every coefficient list (delta :: plus-distribution coefficients), every x < 1 *)
Theorem distr_coeffs_wf d c x : x < 1 ->
  is_derive (loc_from_distr_coeffs (d :: c)) x (- sing_from_distr_coeffs c x).
Proof.
  intros Hx. unfold loc_from_distr_coeffs, sing_from_distr_coeffs.
  replace (- singk 0 c x) with (- singk 0 c x + 0) by ring.
  apply (is_derive_plus (lock 0 c) (fun _ => d)); [apply lock_derive; exact Hx | apply (is_derive_const d x)].
Qed.
(* and loc(0) is the delta coefficient *)
Theorem distr_coeffs_at_0 d c : loc_from_distr_coeffs (d :: c) 0 = d.
Proof.
  unfold loc_from_distr_coeffs. assert (H: forall k, lock k c 0 = 0).
  { induction c as [|a r IH]; intros k; cbn [lock]; [reflexivity|]. rewrite IH. replace (1-0) with 1 by ring.
    rewrite ln_1. rewrite pow_ne_zero by lia. unfold Rdiv; ring. }
  rewrite H; ring.
Qed.
Lemma singk_continuous c : forall k t, t < 1 -> continuous (singk k c) t.
Proof.
  induction c as [|a r IH]; intros k t Ht; cbn [singk]; [apply continuous_const|].
  apply (continuous_plus (fun z => a * / (1 - z) * ln (1 - z) ^ k) (singk (S k) r)); [|apply IH; exact Ht].
  apply (ex_derive_continuous (fun z => a * / (1 - z) * ln (1 - z) ^ k)). auto_derive. repeat split; lra.
Qed.
(* hence loc(x) = delta - int_0^x sing *)
Theorem distr_coeffs_integral d c x : 0 <= x < 1 ->
  loc_from_distr_coeffs (d :: c) x = d - RInt (sing_from_distr_coeffs c) 0 x.
Proof.
  intros Hx.
  assert (HI : is_RInt (fun z => opp (sing_from_distr_coeffs c z)) 0 x
                       (minus (loc_from_distr_coeffs (d :: c) x) (loc_from_distr_coeffs (d :: c) 0))).
  { apply (is_RInt_derive (loc_from_distr_coeffs (d :: c)) (fun z => opp (sing_from_distr_coeffs c z))).
    - intros t Ht. rewrite Rmin_left, Rmax_right in Ht by lra. apply distr_coeffs_wf. lra.
    - intros t Ht. rewrite Rmin_left, Rmax_right in Ht by lra.
      apply (continuous_opp (sing_from_distr_coeffs c) t). apply singk_continuous. lra. }
  rewrite distr_coeffs_at_0 in HI.
  assert (HS : ex_RInt (sing_from_distr_coeffs c) 0 x).
  { apply (ex_RInt_continuous (sing_from_distr_coeffs c)). intros t Ht. rewrite Rmin_left, Rmax_right in Ht by lra.
    apply singk_continuous. lra. }
  pose proof (is_RInt_unique _ _ _ _ HI) as E.
  pose proof (RInt_opp (sing_from_distr_coeffs c) 0 x HS) as E2.
  pose proof (eq_trans (eq_sym E) E2) as E3.
  set (I := RInt (sing_from_distr_coeffs c) 0 x) in *.
  change (loc_from_distr_coeffs (d :: c) x - d = - I) in E3. lra.
Qed.
(* a pure delta: constant local part, no singular part *)
Theorem delta_wf c x x' : loc_from_delta c x = loc_from_delta c x'.
Proof. reflexivity. Qed.
