(* CorrCombiner.v — agreement predicates used by the correspondence harnesses
   tools/corr/couplings.py and tools/corr/combiner.py (executed on the Qc instance). *)
From Coq Require Import ZArith List Bool String QArith Qcanon.
From Yad Require Import Base Couplings Weights Combiner.
Import ListNotations.

Definition pid_order : list Z := [-6; -5; -4; -3; -2; -1; 21; 1; 2; 3; 4; 5; 6; 22]%Z.

(* observed kernel: family, class, weights in pid_order, nf, ihq *)
Definition okern := (string * string * list Qc * Z * Z)%type.

Fixpoint all2 {A B} (f : A -> B -> bool) (l : list A) (m : list B) : bool :=
  match l, m with
  | [], [] => true
  | a :: l', b :: m' => f a b && all2 f l' m'
  | _, _ => false
  end.

Definition kern_agree (tol : Qc) (m : @kernel QcFld) (ob : okern) : bool :=
  let '(fam, cls, ws, nf, ihq) := ob in
  String.eqb (k_fam m) fam && String.eqb (k_cls m) cls && (k_nf m =? nf)%Z
  && (k_ihq m =? ihq)%Z
  && all2 (fun pid w => close tol (pget (k_partons m) pid) w) pid_order ws.

Definition collect_agree (tol : Qc) (m : outcome (list (@kernel QcFld))) (ob : outcome (list okern)) : bool :=
  match m, ob with
  | Ok ks, Ok obs => all2 (kern_agree tol) ks obs
  | Crash a, Crash b => String.eqb a b
  | Rejected _, Rejected _ => true
  | _, _ => false
  end.

Record ccase := {
  cs_t : @theory QcFld; cs_o : @obs QcFld; cs_Q2 : Qc; cs_c : @ccfg QcFld;
  cs_obs : outcome (list okern) }.

Definition ccase_ok (inv : inventory) (tol : Qc) (c : ccase) : bool :=
  collect_agree tol (collect_elems_ew (cs_t c) (cs_o c) (cs_Q2 c) inv (cs_c c)) (cs_obs c).

(* couplings: one observed value per (function, arguments) *)
Inductive cquery :=
| QWeight (pid : Z) (c : ctype) (k : mask)
| QFl11 (pid : Z) (nf : Z) (c : ctype)
| QLept (m : mode) (c : ctype)
| QProp (m : mode)
| QPart (m : mode) (pid : Z) (c : ctype) (k : mask)
| QPartFl11 (m : mode) (pid : Z) (nf : Z) (c : ctype).

Definition run_query (t : @theory QcFld) (o : @obs QcFld) (Q2 : Qc) (q : cquery) : Qc :=
  match q with
  | QWeight pid c k => get_weight t o pid Q2 c k
  | QFl11 pid nf c => get_fl11_weight t o pid Q2 nf c
  | QLept m c => leptonic_coupling t o m c
  | QProp m => propagator_factor t o m Q2
  | QPart m pid c k => partonic_coupling t m pid c k
  | QPartFl11 m pid nf c => partonic_coupling_fl11 t m pid nf c
  end.

Record qcase := { qs_t : @theory QcFld; qs_o : @obs QcFld; qs_Q2 : Qc; qs_q : list (cquery * Qc) }.
Definition qcase_ok (tol : Qc) (c : qcase) : bool :=
  forallb (fun qv => close tol (run_query (qs_t c) (qs_o c) (qs_Q2 c) (fst qv)) (snd qv)) (qs_q c).
