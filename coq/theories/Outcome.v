(* Outcome.v — the outcome class (Ok / Rejected / Crash) of one request, as decided by the library before any number
   is computed: observable kind and TMC availability (sf.py), kinematic validation (esf.py, tmc.py), module / class
   look-ups and dictionary look-ups of the weight builders (Combiner model over the regenerated inventory).
   Hand-written; tied by tools/corr/outcome.py and tools/corr/wlayer.py. *)
From Coq Require Import ZArith List Bool String QArith Qcanon.
From Yad Require Import Base Couplings Weights Combiner Thresholds.
Import ListNotations.
Open Scope string_scope.

Inductive kinstate := KinOk | XNonPositive | XAboveOne | Q2NonPositive | XBelowGrid.
Record cell := {
  c_kind : kind; c_heavy : Z (* 0 total, -1 light, 4 5 6 *); c_proc : process; c_proj : Z;
  c_fns : fns; c_nfff : Z; c_nf : Z (* nf at the point: only used for ZM-VFNS, else NfFF *);
  c_pto : Z; c_tmc : Z; c_parts : fparts; c_kin : kinstate }.

Definition tmc_available (k : kind) : bool := match k with F2 | FL | F3 | G1 => true | _ => false end.

(* a fixed generic electroweak set-up: the outcome class does not depend on the numbers *)
Definition ew_t : @theory QcFld :=
  {| s2w := qc 15 64; MZ2 := qc 8315 1; MW2 := qc 6460 1;
     ckm := (qc 9 10, qc 1 20, qc 1 1000, (qc 1 20, qc 9 10, qc 1 500), (qc 1 10000, qc 1 500, qc 1 1)) |}.
Definition ew_o (c : cell) : @obs QcFld := {| proc := c_proc c; proj := c_proj c; pol := qc 1 4; pcorr := qc 0 1; pos := None |}.

Definition cfg_of (c : cell) : @ccfg QcFld :=
  let fixed := match c_fns c with ZMVFNS => false | _ => true end in
  let nf := if fixed then c_nfff c else c_nf c in
  let flags := map (fun x => negb (snd x)) (update_fns (c_fns c) (c_nfff c)) in
  {| g_kind := c_kind c;
     g_family := if (c_heavy c =? 0)%Z then FamTotal else if (c_heavy c =? -1)%Z then FamLight else FamHeavy;
     g_hq := if (c_heavy c <? 4)%Z then 0%Z else c_heavy c;
     g_nf := nf;
     g_mc := nth 0 flags false; g_mb := nth 1 flags false; g_mt := nth 2 flags false;
     g_parts := match c_fns c with FONLL_FFNS | FONLL_FFN0 => c_parts c | _ => PFull end;
     g_ffn0 := match c_fns c with FFN0 | FONLL_FFN0 => true | _ => false end;
     g_pto := c_pto c; g_ptoe := c_pto c; g_Z := 1%Qc; g_A := 1%Qc |}.

Definition run_outcome (inv : inventory) (c : cell) : outcome nat :=
  match c_kin c with
  | KinOk =>
      if (negb (c_tmc c =? 0)%Z && negb (tmc_available (c_kind c)))%bool then Rejected "TMC not available for this kind"
      else match collect_elems_ew ew_t (ew_o c) (qc 30 1) inv (cfg_of c) with
           | Ok ks => Ok (List.length ks)
           | Crash w => Crash w
           | Rejected w => Rejected w
           end
  | _ => Rejected "kinematics"
  end.
Definition is_crash {A} (o : outcome A) : bool := match o with Crash _ => true | _ => false end.

(* the complete lattice of the discrete configuration space (valid kinematics) *)
Definition all_kinds := [F2; FL; F3; G1; GL; G4].
Definition all_heavy := [0; -1; 4; 5; 6]%Z.
Definition all_fns := [ZMVFNS; FFNS; FFN0; FONLL_FFNS; FONLL_FFN0].
(* enumerate the lattice, keeping the cells that satisfy [keep] (never materialising the whole product) *)
Definition lattice_filter_kind (k : kind) (keep : cell -> bool) : list cell :=
  (flat_map (fun h => flat_map (fun pr => flat_map (fun f => flat_map (fun n => flat_map (fun p => flat_map (fun t =>
    filter keep
      (map (fun parts => {| c_kind := k; c_heavy := h; c_proc := fst pr; c_proj := snd pr; c_fns := f; c_nfff := n; c_nf := n;
                            c_pto := p; c_tmc := t; c_parts := parts; c_kin := KinOk |})
           (match f with FONLL_FFNS | FONLL_FFN0 => [PFull; PMassless; PMassive] | _ => [PFull] end)))
    [0; 1]%Z) [0; 1; 2; 3]%Z) [3; 4; 5; 6]%Z) all_fns) [(EM, 11%Z); (NC, 11%Z); (CC, 12%Z)]) all_heavy).
Definition lattice_filter (keep : cell -> bool) : list cell := flat_map (fun k => lattice_filter_kind k keep) all_kinds.
Definition lattice_size : Z := (Z.of_nat (List.length all_kinds) * Z.of_nat (List.length all_heavy) * 3 * 4 * 4 * 2 * (3 + 2 * 3))%Z.

(* gaps that are recorded as known findings rather than repaired: none is left (polarised g1 at N3LO was one until the classes were
   added to the source; the regenerated inventory now contains them) *)
Definition documented_gap (c : cell) : bool := false.
Definition undocumented_crashes (inv : inventory) : list cell :=
  lattice_filter (fun c => is_crash (run_outcome inv c) && negb (documented_gap c)).
Definition undocumented_crashes_kind (inv : inventory) (k : kind) : list cell :=
  lattice_filter_kind k (fun c => is_crash (run_outcome inv c) && negb (documented_gap c)).
Definition documented_crashes (inv : inventory) : list cell :=
  lattice_filter (fun c => is_crash (run_outcome inv c) && documented_gap c).
