(* Serial.v — structural model of the tar serialisation of one observable in output.py:
     Output.dump_tar : list of results  ->  (orders_first, kinematics columns, values array, errors array)
     Output.load_tar : the inverse zip
   YAML text, the npz container and float <-> repr are treated as a faithful transport of these documents (checked by
   the harness on real files).  The payload type P (a tensor of values or errors) is abstract.
   Hand-written; tied by tools/corr/serial.py. *)
From Coq Require Import ZArith List Bool String QArith.
From Yad Require Import Result.
Import ListNotations.

Section Serial.
  Variable P : Type.

  (* one ESFResult / EXSResult as get_raw() presents it: scalar fields in order (x, Q2, nf[, y]) and the orders *)
  Record res := { r_kin : list (string * Q); r_orders : list (okey * P * P) }.
  Definition okeys (r : res) : list okey := map (fun t => fst (fst t)) (r_orders r).
  Definition ovals (r : res) : list P := map (fun t => snd (fst t)) (r_orders r).
  Definition oerrs (r : res) : list P := map (fun t => snd t) (r_orders r).
  Definition knames (r : res) : list string := map fst (r_kin r).
  Definition kvals (r : res) : list Q := map snd (r_kin r).

  Record dumped := { d_orders : list okey; d_names : list string; d_cols : list (list Q) (* one column per name *);
                     d_vals : list (list P); d_errs : list (list P) }.

  Fixpoint okeys_eqb (a b : list okey) : bool :=
    match a, b with [] , [] => true | x :: a', y :: b' => okey_eqb x y && okeys_eqb a' b' | _, _ => false end.
  Fixpoint names_eqb (a b : list string) : bool :=
    match a, b with [] , [] => true | x :: a', y :: b' => String.eqb x y && names_eqb a' b' | _, _ => false end.

  (* column j = the j-th scalar of every result *)
  Fixpoint columns (n : nat) (rows : list (list Q)) : list (list Q) :=
    match n with O => [] | S k => map (hd 0%Q) rows :: columns k (map (@tl Q) rows) end.

  (* dump_tar for one observable: None models the failures (IndexError on an empty list, KeyError on a missing
     field, AssertionError on non-uniform orders) *)
  Definition dump_obs (rs : list res) : option dumped :=
    match rs with
    | [] => None
    | r0 :: _ =>
      if forallb (fun r => names_eqb (knames r) (knames r0)) rs && forallb (fun r => okeys_eqb (okeys r) (okeys r0)) rs
      then Some {| d_orders := okeys r0; d_names := knames r0; d_cols := columns (List.length (knames r0)) (map kvals rs);
                   d_vals := map ovals rs; d_errs := map oerrs rs |}
      else None
    end.

  (* zip of the unpacked kinematics columns: rows again *)
  Fixpoint rows_of (cols : list (list Q)) (n : nat) : list (list Q) :=
    match n with
    | O => []
    | S k => map (hd 0%Q) cols :: rows_of (map (@tl Q) cols) k
    end.
  Fixpoint zip3 (a : list okey) (b c : list P) : list (okey * P * P) :=
    match a, b, c with x :: a', y :: b', z :: c' => (x, y, z) :: zip3 a' b' c' | _, _, _ => [] end.
  Fixpoint zip_res (names : list string) (orders : list okey) (rows : list (list Q)) (vals errs : list (list P)) : list res :=
    match rows, vals, errs with
    | k :: rows', v :: vals', e :: errs' =>
        {| r_kin := combine names k; r_orders := zip3 orders v e |} :: zip_res names orders rows' vals' errs'
    | _, _, _ => []
    end.
  Definition npoints (d : dumped) : nat := match d_cols d with c :: _ => List.length c | [] => 0 end.
  Definition load_obs (d : dumped) : list res :=
    zip_res (d_names d) (d_orders d) (rows_of (d_cols d) (npoints d)) (d_vals d) (d_errs d).
End Serial.
Arguments r_kin {P}. Arguments r_orders {P}. Arguments dump_obs {P}. Arguments load_obs {P}.
Arguments d_orders {P}. Arguments d_names {P}. Arguments d_cols {P}. Arguments d_vals {P}. Arguments d_errs {P}.
Arguments okeys {P}. Arguments knames {P}. Arguments kvals {P}. Arguments ovals {P}. Arguments oerrs {P}.
