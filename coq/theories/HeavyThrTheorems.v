(* HeavyThrTheorems.v — theorems about HeavyThr.v (C09). *)
From Coq Require Import ZArith QArith Bool Lqa List Psatz.
From Yad Require Import HeavyThr.
Open Scope Q_scope.

Lemma qdiv_le_iff a z b : 0 < z -> (a / z <= b <-> a <= b * z).
Proof.
  intros Hz. split; intros H.
  - setoid_replace a with (a / z * z) by (field; lra). nra.
  - setoid_replace b with (b * z / z) by (field; lra).
    unfold Qdiv. apply Qmult_le_compat_r; [exact H|]. apply Qlt_le_weak, Qinv_lt_0_compat, Hz.
Qed.
(* the threshold test is Q2 (1 - z) <= 4 m2 z, i.e. the invariant mass at or below the pair threshold ("<=": the
   boundary itself is below) *)
Theorem threshold_equiv Q2 m2 z : 0 < z -> (is_below Q2 m2 z = true <-> Q2 * (1 - z) <= 4 * m2 * z).
Proof.
  intros Hz. unfold is_below. rewrite Qle_bool_iff. apply qdiv_le_iff. exact Hz.
Qed.
(* the partonic threshold lies above the hadronic one: once x is below, every z in [x, 1) is below *)
Theorem below_monotone Q2 m2 x z : 0 < Q2 -> 0 <= m2 -> 0 < x -> x <= z -> z < 1 ->
  is_below Q2 m2 x = true -> is_below Q2 m2 z = true.
Proof.
  intros HQ Hm Hx Hxz Hz H. apply threshold_equiv in H; [|exact Hx]. apply threshold_equiv; [lra|]. nra.
Qed.
(* neutral current: at or below the hadronic threshold every order of every channel is the empty RSL (no regular,
   singular or local part, including the Adler local term of the "missing" channel) ... *)
Theorem nc_channel_empty {A} Q2 m2 x (f : A) : is_below Q2 m2 x = true -> decorated Q2 m2 x f = Empty A.
Proof. intros H. unfold decorated. rewrite H. reflexivity. Qed.
(* ... the integrand vanishes beyond the partonic threshold whatever the massive coefficient function is ... *)
Theorem nc_integrand_zero Q2 m2 pref oracle z : is_below Q2 m2 z = true -> closure Q2 m2 pref oracle z = 0.
Proof. intros H. unfold closure. rewrite H. reflexivity. Qed.
(* ... in particular on the whole integration range [x, 1) when x itself is below *)
Theorem nc_integrand_zero_on_range Q2 m2 pref oracle x z : 0 < Q2 -> 0 <= m2 -> 0 < x -> x <= z -> z < 1 ->
  is_below Q2 m2 x = true -> closure Q2 m2 pref oracle z = 0.
Proof. intros. apply nc_integrand_zero. eapply below_monotone; eauto. Qed.
(* above it the oracle is evaluated at xi = Q2/m2, eta = xi/4 (1/z - 1) - 1 >= 0 *)
Theorem nc_eta_nonneg Q2 m2 z : 0 < m2 -> 0 < z -> is_below Q2 m2 z = false -> 0 < eta Q2 m2 z.
Proof.
  intros Hm Hz H. assert (Hn : ~ Q2 * (1 - z) <= 4 * m2 * z).
  { intro C. apply (threshold_equiv Q2 m2 z Hz) in C. congruence. }
  unfold eta, xi.
  setoid_replace (Q2 / m2 / 4 * (1 / z - 1) - 1) with ((Q2 * (1 - z) - 4 * m2 * z) / (4 * m2 * z)) by (field; split; lra).
  apply Qlt_shift_div_l; [nra | lra].
Qed.

(* charged current: the convolution point is the slow-rescaling variable x (1 + m2/Q2) ... *)
Theorem cc_point_is_slow_rescaling Q2 m2 x : 0 < Q2 -> 0 <= m2 -> cc_point Q2 m2 x == x * (1 + m2 / Q2).
Proof.
  intros HQ Hm. unfold cc_point, labda. field. split; [lra|].
  assert (0 <= m2 / Q2) by (apply Qle_shift_div_l; lra). lra.
Qed.
(* ... and a convolution point at or beyond 1 (more precisely 1 - 1e-10) gives exactly zero *)
Theorem cc_zero_beyond_one Q2 m2 x v : 1 <= cc_point Q2 m2 x -> conv_model (cc_point Q2 m2 x) v = 0.
Proof.
  intros H. unfold conv_model, conv_domain_empty. 
  assert (E : Qle_bool (1 - eps_border) (cc_point Q2 m2 x) = true).
  { apply Qle_bool_iff. unfold eps_border. assert (0 < 1 # 10000000000) by reflexivity. lra. }
  rewrite E. reflexivity.
Qed.
