(* CacheTheorems.v — theorems about Cache.v (C14). *)
From Coq Require Import ZArith List Bool String QArith Lia.
From Yad Require Import Cache.
Import ListNotations.
Open Scope string_scope.
Open Scope list_scope.

(* ---------------------------------------------------------------- the positional key is not injective *)
Definition kA : kin := [("x", 1 # 2); ("Q2", 7 # 10)].
Definition kB : kin := [("Q2", 1 # 2); ("x", 7 # 10)].
Theorem positional_key_refuted :
  cache_key false kA true = cache_key false kB true /\ ~ same_point kA kB
  /\ run false false [] [Get kA true; Get kB true]
     = [Some ({| o_kin := kA; o_tmc := false |}, false); Some ({| o_kin := kA; o_tmc := false |}, true)].
Proof.
  split; [reflexivity|]. split; [|reflexivity].
  intros H. specialize (H "x"). cbn in H. unfold Qeq in H. cbn in H. discriminate.
Qed.

(* ---------------------------------------------------------------- the by-name key determines the point *)
Lemma kget_insert x l n : ~ In (fst x) (map fst l) ->
  kget (insert_item x l) n = if String.eqb n (fst x) then Some (snd x) else kget l n.
Proof.
  induction l as [|y r IH]; cbn [insert_item kget map In]; intros H.
  - destruct x as [m v]; cbn. destruct (n =? m); reflexivity.
  - destruct (String.leb (fst x) (fst y)).
    + destruct x as [m v]; cbn [kget fst snd]. reflexivity.
    + destruct y as [m' v']; cbn [kget fst snd] in *. rewrite IH by tauto.
      destruct (String.eqb_spec n m') as [->|Hn]; [|reflexivity].
      destruct (String.eqb_spec m' (fst x)) as [E|_]; [exfalso; apply H; left; exact E | reflexivity].
Qed.
Lemma insert_names x l a : In a (map fst (insert_item x l)) <-> a = fst x \/ In a (map fst l).
Proof.
  induction l as [|y r IH]; cbn [insert_item map In]; [intuition congruence|].
  destruct (String.leb (fst x) (fst y)); cbn [map In]; [intuition congruence|]. rewrite IH. intuition congruence.
Qed.
Lemma sort_names k a : In a (map fst (sort_items k)) <-> In a (map fst k).
Proof.
  induction k as [|x r IH]; cbn [sort_items fold_right map In]; [tauto|].
  fold (sort_items r). rewrite insert_names, IH. intuition congruence.
Qed.
Lemma kget_sort k n : NoDup (map fst k) -> kget (sort_items k) n = kget k n.
Proof.
  induction k as [|[m v] r IH]; cbn [sort_items fold_right map]; intros H; [reflexivity|].
  fold (sort_items r). inversion H as [|? ? Hnin Hnd]; subst.
  rewrite kget_insert by (cbn [fst]; rewrite sort_names; exact Hnin).
  cbn [kget fst snd]. rewrite IH by exact Hnd. reflexivity.
Qed.

Definition item_eq (a b : string * Q) : Prop := fst a = fst b /\ Qeq (snd a) (snd b).
Lemma key_eqb_items l1 l2 f1 f2 :
  key_eqb (map (fun nv => KN (fst nv) (snd nv)) l1 ++ [KF f1]) (map (fun nv => KN (fst nv) (snd nv)) l2 ++ [KF f2]) = true ->
  Forall2 item_eq l1 l2 /\ f1 = f2.
Proof.
  revert l2; induction l1 as [|a l1 IH]; intros [|b l2]; cbn [map app key_eqb keyitem_eqb].
  - rewrite andb_true_r. intros H. split; [constructor | apply eqb_prop; exact H].
  - discriminate.
  - destruct l1; cbn; discriminate.
  - intros H. apply andb_prop in H. destruct H as [H1 H2]. apply andb_prop in H1. destruct H1 as [Hn Hq].
    destruct (IH l2 H2) as [Hf ->]. split; [|reflexivity]. constructor; [|exact Hf].
    split; [apply String.eqb_eq; exact Hn | apply Qeq_bool_iff; exact Hq].
Qed.
Lemma forall2_same_point l1 l2 : Forall2 item_eq l1 l2 -> same_point l1 l2.
Proof.
  induction 1 as [|[m v] [m' v'] l1 l2 [Hn Hv] _ IH]; intros n; cbn [kget]; [exact I|].
  cbn [fst snd] in *. subst m'. destruct (n =? m); [exact Hv | apply IH].
Qed.
Theorem by_name_key_injective k1 k2 f1 f2 : NoDup (map fst k1) -> NoDup (map fst k2) ->
  key_eqb (cache_key true k1 f1) (cache_key true k2 f2) = true -> same_point k1 k2 /\ f1 = f2.
Proof.
  intros H1 H2 H. unfold cache_key in H. destruct (key_eqb_items _ _ _ _ H) as [Hf ->]. split; [|reflexivity].
  pose proof (forall2_same_point _ _ Hf) as S. intros n. specialize (S n).
  rewrite !kget_sort in S by assumption. exact S.
Qed.
Lemma key_eqb_refl k : key_eqb k k = true.
Proof.
  induction k as [|a k IH]; cbn [key_eqb]; [reflexivity|]. rewrite IH, andb_true_r.
  destruct a; cbn; [apply Qeq_bool_iff; reflexivity | rewrite String.eqb_refl; apply Qeq_bool_iff; reflexivity | destruct b; reflexivity].
Qed.

(* ---------------------------------------------------------------- history independence (repaired key) *)
Definition wf_kin (k : kin) : Prop := NoDup (map fst k).      (* python dicts have unique keys *)
Definition Inv (c : cache) : Prop :=
  forall key o, In (key, o) c -> key = cache_key true (o_kin o) (o_tmc o) /\ wf_kin (o_kin o).
Definition wf_op (o : op) : Prop := match o with Get k _ => wf_kin k | Drop => True end.
(* what a request must be served with, whatever happened before *)
Definition served_right (tmc_on : bool) (o : op) (out : option (obj * bool)) : Prop :=
  match o, out with
  | Get k r, Some (ob, _) => same_point (o_kin ob) k /\ o_tmc ob = (negb r && tmc_on)
  | Drop, None => True
  | _, _ => False
  end.

Lemma lookup_in c key o : lookup c key = Some o -> exists key', In (key', o) c /\ key_eqb key key' = true.
Proof.
  induction c as [|[k' o'] r IH]; cbn [lookup]; [discriminate|].
  destruct (key_eqb key k') eqn:E.
  - intros H; injection H as <-. exists k'. split; [left; reflexivity | exact E].
  - intros H. destruct (IH H) as (k'' & Hin & Hk). exists k''. split; [right; exact Hin | exact Hk].
Qed.
Lemma same_point_sym a b : same_point a b -> same_point b a.
Proof. intros H n. specialize (H n). destruct (kget a n), (kget b n); try tauto. symmetry; exact H. Qed.

Lemma step_correct tmc_on c o : Inv c -> wf_op o ->
  Inv (fst (step true tmc_on c o)) /\ served_right tmc_on o (snd (step true tmc_on c o)).
Proof.
  intros HI Hw. destruct o as [k r|]; cbn [step]; [|split; [intros ? ? []|exact I]].
  unfold get_esf. destruct (lookup c (cache_key true k (negb r && tmc_on))) as [ob|] eqn:E; cbn [fst snd served_right].
  - split; [exact HI|]. destruct (lookup_in _ _ _ E) as (key' & Hin & Hk).
    destruct (HI key' ob Hin) as [-> Hwf]. cbn [wf_op] in Hw.
    destruct (by_name_key_injective _ _ _ _ Hw Hwf Hk) as [S F]. split; [apply same_point_sym; exact S | symmetry; exact F].
  - split.
    + intros key o [H|H]; [injection H as <- <-; cbn [o_kin o_tmc]; split; [reflexivity | exact Hw] | exact (HI key o H)].
    + cbn [o_kin o_tmc]. split; [|reflexivity]. intros n. destruct (kget k n); [reflexivity | exact I].
Qed.

(* every request of every history (loads, cache drops, repeated and reordered points, raw and corrected
   requests) is served with an object created for the same point and the same TMC flag *)
Theorem history_independent tmc_on : forall ops c, Inv c -> Forall wf_op ops ->
  Forall2 (served_right tmc_on) ops (run true tmc_on c ops).
Proof.
  induction ops as [|o ops IH]; intros c HI Hw; cbn [run]; [constructor|].
  inversion Hw as [|? ? Ho Hops]; subst.
  destruct (step_correct tmc_on c o HI Ho) as [HI' Hs].
  destruct (step true tmc_on c o) as [c' out] eqn:E. cbn [fst snd] in *.
  constructor; [exact Hs | apply IH; assumption].
Qed.
Theorem empty_cache_inv : Inv [].
Proof. intros ? ? []. Qed.
