(* QuarkLimit.v — C08, analytic half for the LO quark channel of charged-current heavy-quark production: the massive result
   is the convolution point cp = x/lambda times the local coefficient (1, 1 - lambda, lambda for F2, FL, F3) times the PDF at cp
   ("slow rescaling"); the asymptotic one is x f(x) (F2, F3) or 0 (FL has no LO term).  For every bounded Lipschitz PDF the
   difference is O(1 - lambda), 1 - lambda = m2/(Q2 + m2).  Coefficients and convolution point are the expressions REGENERATED
   from the source (gen/InstKernels.v). *)
From Coq Require Import Reals List Lra ZArith Psatz.
From Coquelicot Require Import Coquelicot.
From Yad Require Import Expr.
From YadGen Require Import InstKernels.
Import ListNotations.
Open Scope R_scope.

Section Q.
  Variable f : R -> R.               (* the PDF (the operator is contracted with f, not x f) *)
  Variables M L : R.
  Hypothesis HM : forall u, Rabs (f u) <= M.
  Hypothesis HL : forall u v, Rabs (f u - f v) <= L * Rabs (u - v).

  Lemma cp_facts x l : 0 < x < 1 -> 1 / 2 <= l < 1 -> 0 <= x / l - x <= 2 * (1 - l) /\ 0 < x / l <= 2.
  Proof.
    intros Hx Hl. assert (Hi : 1 < / l <= 2).
    { split; [rewrite <- Rinv_1; apply Rinv_lt_contravar; lra | apply Rmult_le_reg_l with l; [lra|]; rewrite Rinv_r by lra; lra]. }
    assert (E : x / l - x = x * (1 - l) * / l) by (field; lra).
    unfold Rdiv in *. repeat split; try nra; rewrite E; nra.
  Qed.
  Lemma M_pos : 0 <= M.
  Proof. eapply Rle_trans; [apply Rabs_pos | apply (HM 0)]. Qed.
  Lemma L_pos : 0 <= L.
  Proof. pose proof (HL 1 0) as H. rewrite Rminus_0_r, Rabs_R1, Rmult_1_r in H. eapply Rle_trans; [apply Rabs_pos | exact H]. Qed.

  Theorem quark_lo_F2 sp x l : 0 < x < 1 -> 1 / 2 <= l < 1 ->
    let cp := eval sp iv_heavy_f2_cc_NonSinglet_convolution_point x [l] in
    Rabs (cp * eval sp ik_heavy_f2_cc_NonSinglet_LO_loc cp [l] * f cp - x * eval sp ik_asy_f2_cc_AsyQuark_LO_loc x [ln (l / (1 - l))] * f x)
    <= (1 - l) * (2 * M + 2 * L).
  Proof.
    intros Hx Hl. cbn [eval iv_heavy_f2_cc_NonSinglet_convolution_point ik_heavy_f2_cc_NonSinglet_LO_loc ik_asy_f2_cc_AsyQuark_LO_loc cst_val nth].
    destruct (cp_facts x l Hx Hl) as [Hd Hc]. set (c := x / l) in *.
    replace (c * 1 * f c - x * 1 * f x) with ((c - x) * f c + x * (f c - f x)) by ring.
    eapply Rle_trans; [apply Rabs_triang|]. rewrite !Rabs_mult, (Rabs_pos_eq (c - x)), (Rabs_pos_eq x) by lra.
    pose proof (HM c) as H1. pose proof (HL c x) as H2. rewrite (Rabs_pos_eq (c - x)) in H2 by lra.
    pose proof M_pos. pose proof L_pos. pose proof (Rabs_pos (f c)). pose proof (Rabs_pos (f c - f x)). nra.
  Qed.
  Theorem quark_lo_FL sp x l : 0 < x < 1 -> 1 / 2 <= l < 1 ->
    let cp := eval sp iv_heavy_fl_cc_NonSinglet_convolution_point x [l] in
    Rabs (cp * eval sp ik_heavy_fl_cc_NonSinglet_LO_loc cp [l] * f cp) <= (1 - l) * (2 * M).
  Proof.
    intros Hx Hl. cbn [eval iv_heavy_fl_cc_NonSinglet_convolution_point ik_heavy_fl_cc_NonSinglet_LO_loc cst_val nth].
    destruct (cp_facts x l Hx Hl) as [Hd Hc]. set (c := x / l) in *.
    rewrite !Rabs_mult, (Rabs_pos_eq c), (Rabs_pos_eq (1 - l)) by lra.
    pose proof (HM c) as H1. pose proof M_pos. pose proof (Rabs_pos (f c)).
    assert (c * Rabs (f c) <= 2 * M) by nra.
    replace (c * (1 - l) * Rabs (f c)) with ((1 - l) * (c * Rabs (f c))) by ring. apply Rmult_le_compat_l; lra.
  Qed.
  Theorem quark_lo_F3 sp x l : 0 < x < 1 -> 1 / 2 <= l < 1 ->
    let cp := eval sp iv_heavy_f3_cc_NonSinglet_convolution_point x [l] in
    Rabs (cp * eval sp ik_heavy_f3_cc_NonSinglet_LO_loc cp [l] * f cp - x * eval sp ik_asy_f3_cc_AsyQuark_LO_loc x [ln (l / (1 - l))] * f x)
    <= (1 - l) * (2 * L).
  Proof.
    intros Hx Hl. cbn [eval iv_heavy_f3_cc_NonSinglet_convolution_point ik_heavy_f3_cc_NonSinglet_LO_loc ik_asy_f3_cc_AsyQuark_LO_loc cst_val nth].
    destruct (cp_facts x l Hx Hl) as [Hd Hc]. set (c := x / l) in *.
    replace (c * l * f c - x * 1 * f x) with (x * (f c - f x)) by (unfold c; field; lra).
    rewrite Rabs_mult, (Rabs_pos_eq x) by lra.
    pose proof (HL c x) as H2. rewrite (Rabs_pos_eq (c - x)) in H2 by lra. pose proof L_pos. pose proof (Rabs_pos (f c - f x)). nra.
  Qed.
End Q.
