(* XS.v — executable model of esf/exs.py: xs_coeffs_unpolarized / xs_coeffs_polarized and
   EvaluatedCrossSection.get_result, and the documented specification (docs/source/theory/intro.rst).
   pi, sqrt(M2target) and the unit conversion constant enter as parameters. *)
From Coq Require Import ZArith List Bool String.
From Yad Require Import Base Result.
Import ListNotations.
Open Scope string_scope.

Inductive xskind := XSHERANC | XSHERANCAVG | XSHERACC | XSCHORUSCC | XSNUTEVCC | XSNUTEVNU | FW | F1 | G5 | XSFPFCC.
Definition xskind_of_string (s : string) : option xskind :=
  if String.eqb s "XSHERANC" then Some XSHERANC else if String.eqb s "XSHERANCAVG" then Some XSHERANCAVG
  else if String.eqb s "XSHERACC" then Some XSHERACC else if String.eqb s "XSCHORUSCC" then Some XSCHORUSCC
  else if String.eqb s "XSNUTEVCC" then Some XSNUTEVCC else if String.eqb s "XSNUTEVNU" then Some XSNUTEVNU
  else if String.eqb s "FW" then Some FW else if String.eqb s "F1" then Some F1 else if String.eqb s "g5" then Some G5
  else if String.eqb s "XSFPFCC" then Some XSFPFCC else None.

Section XS.
  Context {fld : Fld}.
  Local Open Scope F_scope.

  Record xsparams := {
    p_pid : Z;        (* projectilePID *)
    p_mn : F;         (* sqrt(M2target) as the code computes it *)
    p_M2W : F; p_GF : F;
    p_pi : F;         (* np.pi *)
    p_conv : F;       (* GEV_CM2_CONV = 3.893793e10 *)
  }.
  Definition hundred : F := fz 100.

  (* the code: coefficients on the basis (F2, FL, xF3) resp. (g4, gL, 2xg1) *)
  Definition xs_coeffs (k : xskind) (y x Q2 : F) (p : xsparams) : F * F * F :=
    let yp := f1 + (f1 - y) * (f1 - y) in
    let ym := f1 - (f1 - y) * (f1 - y) in
    let yL := y * y in
    let f3sign := if (p_pid p <? 0)%Z then - f1 else f1 in
    match k with
    | G5 => (f1, - f1, f0)
    | F1 => (f1, - f1, f0)
    | XSHERANCAVG => (f1, - yL / yp, f0)
    | XSHERANC => (f1, - yL / yp, f3sign * ym / yp)
    | XSHERACC => let norm := f1 / four in (yp * norm, - yL * norm, f3sign * ym * norm)
    | FW =>
        let mn := p_mn p in
        let yL' := y * y / (two * (y * y / two + (f1 - y) - (mn * x * y) * (mn * x * y) / Q2)) in
        (f1 * f1, - yL' * f1, f3sign * f0 * f1)
    | XSFPFCC =>
        let norm := (p_conv p / hundred * (p_GF p * p_GF p)) / (two * p_pi p)
                    * (f1 / (two * x * ((f1 + Q2 / p_M2W p) * (f1 + Q2 / p_M2W p)))) in
        (yp * norm, - yL * norm, f3sign * ym * norm)
    | XSCHORUSCC =>
        let mn := p_mn p in
        let ypc := yp - two * ((mn * x * y) * (mn * x * y)) / Q2 in
        let norm := p_conv p * (p_GF p * p_GF p) * mn / (two * p_pi p * ((f1 + Q2 / p_M2W p) * (f1 + Q2 / p_M2W p))) in
        (ypc * norm, - yL * norm, f3sign * ym * norm)
    | XSNUTEVCC =>
        let mn := p_mn p in
        let ypc := yp - two * ((mn * x * y) * (mn * x * y)) / Q2 in
        let norm := hundred / two / ((f1 + Q2 / p_M2W p) * (f1 + Q2 / p_M2W p)) in
        (ypc * norm, - yL * norm, f3sign * ym * norm)
    | XSNUTEVNU =>
        let mn := p_mn p in
        let ypc := yp - two * ((mn * x * y) * (mn * x * y)) / Q2 in
        let norm := p_conv p * (p_GF p * p_GF p) * mn / (two * p_pi p) in
        (ypc * norm, - yL * norm, f3sign * ym * norm)
    end.

  (* get_result: c1*sf1 + c2*sf2 + c3*sf3 where the third structure function is not even requested when
     its coefficient is exactly 0 (an empty result is used instead) *)
  Definition xs_result (c : F * F * F) (r1 r2 r3 : result) : result :=
    let '(c1, c2, c3) := c in
    let r3' := if feqb c3 f0 then [] else r3 in
    radd (radd (rmul c1 r1) (rmul c2 r2)) (rmul c3 r3').
  Definition needs_third (c : F * F * F) : bool := negb (feqb (snd c) f0).

  (* ---------------------------------------------------------------- specification *)
  (* sigma = N [ y+ F2 - yL FL + s y- xF3 ] / y+-normalisation as documented:
     sigma = Nhat * ( F2 - yL/y+ FL + s y-/y+ xF3 ),  Nhat = N_kind (which contains y+ where documented) *)
  Record xsspec := { s_N : F; s_yp : F; s_ym : F; s_yL : F }.
  Definition lepton_sign (p : xsparams) : F := if (p_pid p <? 0)%Z then - f1 else f1.
  Definition spec_of (k : xskind) (y x Q2 : F) (p : xsparams) : xsspec :=
    let yp := f1 + (f1 - y) * (f1 - y) in
    let ym := f1 - (f1 - y) * (f1 - y) in
    let yL := y * y in
    let mn := p_mn p in
    let ypc := yp - two * ((x * y * mn) * (x * y * mn)) / Q2 in
    let prop := (f1 + Q2 / p_M2W p) * (f1 + Q2 / p_M2W p) in
    match k with
    | XSHERANC => {| s_N := f1; s_yp := yp; s_ym := ym; s_yL := yL |}
    | XSHERANCAVG => {| s_N := f1; s_yp := yp; s_ym := f0; s_yL := yL |}
    | XSHERACC => {| s_N := yp / four; s_yp := yp; s_ym := ym; s_yL := yL |}
    | XSCHORUSCC => {| s_N := p_conv p * (p_GF p * p_GF p) * mn / (two * p_pi p * prop) * ypc; s_yp := ypc; s_ym := ym; s_yL := yL |}
    | XSNUTEVCC => {| s_N := hundred / (two * prop) * ypc; s_yp := ypc; s_ym := ym; s_yL := yL |}
    | XSNUTEVNU => {| s_N := p_conv p * (p_GF p * p_GF p) * mn / (two * p_pi p) * ypc; s_yp := ypc; s_ym := ym; s_yL := yL |}
    | FW => {| s_N := f1; s_yp := f1; s_ym := f0;
               s_yL := y * y / (two * (y * y / two + (f1 - y) - (mn * x * y / f1) * (mn * x * y / f1) / Q2)) |}
    (* d^2 sigma/dx dQ2 = GF^2 / (4 pi x (1+Q2/MW2)^2) [...] in pb: conv/100 *)
    | XSFPFCC => {| s_N := (p_conv p / hundred) * (p_GF p * p_GF p) / (four * p_pi p * x * prop) * yp; s_yp := yp; s_ym := ym; s_yL := yL |}
    (* derived structure functions: 2xF1 = F2 - FL, 2xg5 = g4 - gL *)
    | F1 | G5 => {| s_N := f1; s_yp := f1; s_ym := f0; s_yL := f1 |}
    end.
  Definition spec_coeffs (s : xsspec) (sgn : F) : F * F * F :=
    (s_N s, - s_N s * s_yL s / s_yp s, sgn * s_N s * s_ym s / s_yp s).
End XS.
