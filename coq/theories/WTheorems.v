(* WTheorems.v — theorems about the coupling / weight models (C02, C13, parts of C07). *)
From Coq Require Import ZArith List Bool Field Lia.
From Yad Require Import Base Couplings PDG.
Import ListNotations.

Section T.
  Context {fld : Fld}.
  Add Field Ff : Fth.
  Local Open Scope F_scope.

  Definition mk_obs (p : process) (pj : Z) (P k : F) (ps : option Z) : obs :=
    {| proc := p; proj := pj; pol := P; pcorr := k; pos := ps |}.

  (* ---------------------------------------------------------------- C13 *)
  (* the lepton side: a positron with polarisation P couples like an electron with -P,
     an antineutrino with P like a neutrino with -P *)
  Lemma lept_flip_e t p P k ps m c :
    leptonic_coupling t (mk_obs p (-11) P k ps) m c = leptonic_coupling t (mk_obs p 11 (- P) k ps) m c.
  Proof. destruct m, c; cbv -[F f0 f1 fadd fmul fsub fopp fdiv finv s2w]; ring. Qed.

  Lemma lept_flip_nu t p P k ps m c :
    leptonic_coupling t (mk_obs p (-12) P k ps) m c = leptonic_coupling t (mk_obs p 12 (- P) k ps) m c.
  Proof. destruct m, c; cbv -[F f0 f1 fadd fmul fsub fopp fdiv finv s2w]; ring. Qed.

  Theorem positron_flip t p P k ps pid Q2 c msk :
    get_weight t (mk_obs p (-11) P k ps) pid Q2 c msk = get_weight t (mk_obs p 11 (- P) k ps) pid Q2 c msk.
  Proof.
    unfold get_weight, pos_blocks; cbn [proc pos mk_obs]. rewrite !lept_flip_e. reflexivity.
  Qed.
  Theorem positron_flip_fl11 t p P k ps pid Q2 nf c :
    get_fl11_weight t (mk_obs p (-11) P k ps) pid Q2 nf c = get_fl11_weight t (mk_obs p 11 (- P) k ps) pid Q2 nf c.
  Proof.
    unfold get_fl11_weight, pos_blocks; cbn [proc pos mk_obs]. rewrite !lept_flip_e. reflexivity.
  Qed.
  Theorem antineutrino_flip t p P k ps pid Q2 c msk :
    get_weight t (mk_obs p (-12) P k ps) pid Q2 c msk = get_weight t (mk_obs p 12 (- P) k ps) pid Q2 c msk.
  Proof.
    unfold get_weight, pos_blocks; cbn [proc pos mk_obs]. rewrite !lept_flip_nu. reflexivity.
  Qed.

  (* Z decoupling: the NC weight is the EM weight plus terms proportional to eta_gammaZ *)
  Definition zterms (t : theory) (o : obs) (pid : Z) (c : ctype) (msk : mask) (eta : F) : F :=
    two * (leptonic_coupling t o PhZ c * partonic_coupling t PhZ pid c msk)
    + eta * (leptonic_coupling t o ZZ c * partonic_coupling t ZZ pid c msk).
  Theorem nc_is_em_plus_eta t pj P k ps pid Q2 c msk :
    get_weight t (mk_obs NC pj P k ps) pid Q2 c msk
    = get_weight t (mk_obs EM pj P k ps) pid Q2 c msk
      + (if pos_blocks (mk_obs NC pj P k ps) pid then f0
         else eta_phZ t (mk_obs NC pj P k ps) Q2 * zterms t (mk_obs NC pj P k ps) pid c msk (eta_phZ t (mk_obs NC pj P k ps) Q2)).
  Proof.
    unfold get_weight, zterms, pos_blocks; cbn [proc pos mk_obs].
    destruct ps as [pp|]; [destruct (negb (Z.abs pid =? pp)%Z)|]; try ring.
    - assert (E : forall m, leptonic_coupling t (mk_obs EM pj P k (Some pp)) m c
                            = leptonic_coupling t (mk_obs NC pj P k (Some pp)) m c) by reflexivity.
      rewrite !E. unfold propagator_factor. ring.
    - assert (E : forall m, leptonic_coupling t (mk_obs EM pj P k None) m c
                            = leptonic_coupling t (mk_obs NC pj P k None) m c) by reflexivity.
      rewrite !E. unfold propagator_factor. ring.
  Qed.
  Corollary z_decoupled t pj P k ps pid Q2 c msk :
    eta_phZ t (mk_obs NC pj P k ps) Q2 = f0 ->
    get_weight t (mk_obs NC pj P k ps) pid Q2 c msk = get_weight t (mk_obs EM pj P k ps) pid Q2 c msk.
  Proof.
    intros H. rewrite nc_is_em_plus_eta. rewrite H. destruct (pos_blocks _ _); ring.
  Qed.
  (* parity-violating weights vanish without the Z *)
  Theorem em_no_parity_violation t pj P k ps pid Q2 msk :
    get_weight t (mk_obs EM pj P k ps) pid Q2 VA msk = f0 /\ get_weight t (mk_obs EM pj P k ps) pid Q2 AV msk = f0.
  Proof.
    unfold get_weight, pos_blocks; cbn [proc pos mk_obs].
    destruct ps as [pp|]; [destruct (negb (Z.abs pid =? pp)%Z)|]; split; try reflexivity;
      unfold leptonic_coupling; cbn [is_vvaa]; ring.
  Qed.

  (* quarks with the same charges get the same neutral-current weight *)
  Theorem equal_charge_swap t o q q' Q2 c msk :
    proc o <> CC -> pos o = None ->
    is_quark q = true -> is_quark q' = true -> Z.even q = Z.even q' ->
    get_weight t o q Q2 c msk = get_weight t o q' Q2 c msk.
  Proof.
    intros Hp Hpos Hq Hq' He.
    assert (Ech : electric_charge (Z.abs q) = electric_charge (Z.abs q')).
    { unfold is_quark in *. rewrite !Z.abs_eq by lia. unfold electric_charge.
      replace (q =? 21)%Z with false by lia. replace (q' =? 21)%Z with false by lia.
      unfold is_quark. rewrite Hq, Hq', He. reflexivity. }
    assert (Ew : weak_isospin_3 (Z.abs q) = weak_isospin_3 (Z.abs q')).
    { unfold is_quark in *. rewrite !Z.abs_eq by lia. unfold weak_isospin_3.
      replace (q =? 21)%Z with false by lia. replace (q' =? 21)%Z with false by lia.
      unfold is_quark. rewrite Hq, Hq', He. reflexivity. }
    unfold get_weight, pos_blocks. rewrite Hpos.
    unfold partonic_coupling, qph, qZ, vectorial_coupling. rewrite Ech, Ew.
    destruct (proc o) eqn:E; [| |congruence]; reflexivity.
  Qed.

  (* ---------------------------------------------------------------- C02 *)
  Definition quark6 (q : Z) : Prop := (q = 1 \/ q = 2 \/ q = 3 \/ q = 4 \/ q = 5 \/ q = 6)%Z.

  Hypothesis two_nz : f1 + f1 <> f0.
  Hypothesis three_nz : f1 + f1 + f1 <> f0.

  (* F2, FL, g1 (parity conserving): VV + AA weight = PDG coefficient of (q + qbar) *)
  Theorem lo_nc_pc_pdg_electron t P k q Q2 :
    quark6 q -> s2w t <> f0 -> f1 - s2w t <> f0 -> MZ2 t + Q2 <> f0 -> f1 - k <> f0 ->
    let o := mk_obs NC 11 P k None in
    get_weight t o q Q2 VV (mask_light 0) + get_weight t o q Q2 AA (mask_light 0)
    = F2_coeff (s2w t) (eta_gZ (s2w t) (MZ2 t) Q2 k) (- f1) P q.
  Proof.
    intros Hq H1 H2 H3 H4 o.
    destruct Hq as [->|[->|[->|[->|[->| ->]]]]];
      cbv -[F f0 f1 fadd fmul fsub fopp fdiv finv s2w MZ2]; field; nz.
  Qed.
  Theorem lo_nc_pc_pdg_positron t P k q Q2 :
    quark6 q -> s2w t <> f0 -> f1 - s2w t <> f0 -> MZ2 t + Q2 <> f0 -> f1 - k <> f0 ->
    let o := mk_obs NC (-11) P k None in
    get_weight t o q Q2 VV (mask_light 0) + get_weight t o q Q2 AA (mask_light 0)
    = F2_coeff (s2w t) (eta_gZ (s2w t) (MZ2 t) Q2 k) f1 P q.
  Proof.
    intros Hq H1 H2 H3 H4 o.
    destruct Hq as [->|[->|[->|[->|[->| ->]]]]];
      cbv -[F f0 f1 fadd fmul fsub fopp fdiv finv s2w MZ2]; field; nz.
  Qed.
  (* F3, gL, g4 (parity violating): VA + AV weight = PDG coefficient of (q - qbar) *)
  Theorem lo_nc_pv_pdg_electron t P k q Q2 :
    quark6 q -> s2w t <> f0 -> f1 - s2w t <> f0 -> MZ2 t + Q2 <> f0 -> f1 - k <> f0 ->
    let o := mk_obs NC 11 P k None in
    get_weight t o q Q2 VA (mask_light 0) + get_weight t o q Q2 AV (mask_light 0)
    = F3_coeff (s2w t) (eta_gZ (s2w t) (MZ2 t) Q2 k) (- f1) P q.
  Proof.
    intros Hq H1 H2 H3 H4 o.
    destruct Hq as [->|[->|[->|[->|[->| ->]]]]];
      cbv -[F f0 f1 fadd fmul fsub fopp fdiv finv s2w MZ2]; field; nz.
  Qed.
  Theorem lo_nc_pv_pdg_positron t P k q Q2 :
    quark6 q -> s2w t <> f0 -> f1 - s2w t <> f0 -> MZ2 t + Q2 <> f0 -> f1 - k <> f0 ->
    let o := mk_obs NC (-11) P k None in
    get_weight t o q Q2 VA (mask_light 0) + get_weight t o q Q2 AV (mask_light 0)
    = F3_coeff (s2w t) (eta_gZ (s2w t) (MZ2 t) Q2 k) f1 P q.
  Proof.
    intros Hq H1 H2 H3 H4 o.
    destruct Hq as [->|[->|[->|[->|[->| ->]]]]];
      cbv -[F f0 f1 fadd fmul fsub fopp fdiv finv s2w MZ2]; field; nz.
  Qed.
  Theorem lo_em_pdg t pj P k q Q2 :
    quark6 q -> (pj = 11 \/ pj = -11)%Z ->
    let o := mk_obs EM pj P k None in
    get_weight t o q Q2 VV (mask_light 0) + get_weight t o q Q2 AA (mask_light 0) = F2_coeff_em q.
  Proof.
    intros Hq Hp o.
    destruct Hp as [-> | ->]; destruct Hq as [->|[->|[->|[->|[->| ->]]]]];
      cbv -[F f0 f1 fadd fmul fsub fopp fdiv finv]; field; nz.
  Qed.
  (* anti-quarks carry the weight of their quark *)
  Theorem weight_abs_pid t o pid Q2 c msk :
    get_weight t o (- pid) Q2 c msk = get_weight t o pid Q2 c msk.
  Proof.
    unfold get_weight, pos_blocks, partonic_coupling. rewrite !Z.abs_opp. reflexivity.
  Qed.
  (* restriction to one quark's couplings (NCPositivityCharge) *)
  Theorem pos_charge_partition t p pj P k pid Q2 c msk :
    p <> CC -> quark6 (Z.abs pid) ->
    fsum (map (fun pp => get_weight t (mk_obs p pj P k (Some pp)) pid Q2 c msk) [1; 2; 3; 4; 5; 6]%Z)
    = get_weight t (mk_obs p pj P k None) pid Q2 c msk.
  Proof.
    intros Hp Hq.
    assert (EL : forall ps m, leptonic_coupling t (mk_obs p pj P k ps) m c
                              = leptonic_coupling t (mk_obs p pj P k None) m c) by reflexivity.
    assert (EP : forall ps m, propagator_factor t (mk_obs p pj P k ps) m Q2
                              = propagator_factor t (mk_obs p pj P k None) m Q2) by reflexivity.
    unfold get_weight, pos_blocks; cbn [proc pos mk_obs map fsum].
    rewrite !(EL (Some _)), !(EP (Some _)).
    destruct p; [| |congruence];
      destruct Hq as [->|[->|[->|[->|[->| ->]]]]]; cbn [Z.eqb Pos.eqb negb]; ring.
  Qed.

  (* charged current: the weight is twice the sum of the masked CKM row / column *)
  Theorem lo_cc_weight t pj P k ps pid Q2 c msk :
    get_weight t (mk_obs CC pj P k ps) pid Q2 c msk = two * ckm_sum t msk (Z.abs pid).
  Proof. reflexivity. Qed.

  Definition ckm_entry (m : F * F * F * (F * F * F) * (F * F * F)) (row col : nat) : F :=
    let '(ud, us, ub, (cd, cs, cb), (td, ts, tb)) := m in
    match row, col with
    | 0, 0 => ud | 0, 1 => us | 0, _ => ub
    | 1, 0 => cd | 1, 1 => cs | 1, _ => cb
    | _, 0 => td | _, 1 => ts | _, _ => tb
    end%nat.
  Definition mask_has (k : mask) (l : hlabel) : bool :=
    match l with Hlight => m_dus k | Hc => m_c k | Hb => m_b k | Ht => m_t k end.
  (* a squared CKM element survives the mask iff the mask names the heaviest quark of the transition *)
  Theorem ckm_mask_spec t k row col :
    (row < 3)%nat -> (col < 3)%nat ->
    ckm_entry (ckm_masked t k) row col
    = if mask_has k (label_of row col) then ckm_entry (ckm t) row col else f0.
  Proof.
    intros Hr Hc. unfold ckm_masked. destruct (ckm t) as [[[[ud us] ub] [[cd cs] cb]] [[td ts] tb]] eqn:E.
    destruct row as [|[|[|row]]]; try lia; destruct col as [|[|[|col]]]; try lia;
      cbn [ckm_entry label_of mask_has];
      destruct k as [a b c d l]; cbn [m_dus m_c m_b m_t];
      match goal with |- context [b2f ?x] => destruct x end; cbn [b2f]; ring.
  Qed.
End T.
