(* SpecNLO.v — the published closed forms of the NLO (order a_s = alpha_s/4pi) massless coefficient functions,
   written by hand from the literature (Bardeen et al.; Furmanski-Petronzio; van Neerven-Zijlstra / Moch-Vermaseren-Vogt
   conventions; de Florian et al. for g1).  These are the specification the regenerated kernels are compared with.
   D_k = [ln^k(1-z)/(1-z)]_+ ;  CF = 4/3, TR = 1/2, zeta2 = pi^2/6. *)
From Coq Require Import Reals.
Open Scope R_scope.

Definition CF : R := 4 / 3.
Definition TR : R := 1 / 2.
Definition zeta2 : R := PI ^ 2 / 6.

(* c_{2,q}^{(1)} = CF [ 4 D_1 - 3 D_0 - (9 + 4 zeta2) delta(1-z) - 2(1+z)(ln(1-z) - ln z) - 4 ln z/(1-z) + 6 + 4 z ] *)
Definition c2q1_reg (z : R) : R := CF * (- 2 * (1 + z) * (ln (1 - z) - ln z) - 4 * ln z / (1 - z) + 6 + 4 * z).
Definition cq1_delta : R := - CF * (9 + 4 * zeta2).
Definition cq1_D0 : R := - 3 * CF.
Definition cq1_D1 : R := 4 * CF.
(* c_{2,g}^{(1)} = 4 nf TR [ (1 - 2z + 2z^2)(ln(1-z) - ln z) - 1 + 8 z (1-z) ] *)
Definition c2g1 (z nf : R) : R := 4 * nf * TR * ((1 - 2 * z + 2 * z ^ 2) * (ln (1 - z) - ln z) - 1 + 8 * z * (1 - z)).
(* c_{L,q}^{(1)} = 4 CF z ;  c_{L,g}^{(1)} = 16 nf TR z (1-z) *)
Definition cLq1 (z : R) : R := 4 * CF * z.
Definition cLg1 (z nf : R) : R := 16 * nf * TR * z * (1 - z).
(* c_{3,q}^{(1)} = c_{2,q}^{(1)} - 2 CF (1+z)  (same distributions) ; Delta c_q^{(1)} (g1) = c_{3,q}^{(1)} *)
Definition c3q1_reg (z : R) : R := c2q1_reg z - 2 * CF * (1 + z).
(* Delta c_g^{(1)} (g1) = 4 nf TR [ (2z - 1)(ln(1-z) - ln z) + 3 - 4 z ] *)
Definition dcg1 (z nf : R) : R := 4 * nf * TR * ((2 * z - 1) * (ln (1 - z) - ln z) + 3 - 4 * z).
