(* HeavyThr.v — model of the kinematic thresholds of heavy-quark production over the rationals:
     heavy/partonic_channel.py  NeutralCurrentBase.is_below_pair_threshold / decorator / _xi / _eta,
                                the shape shared by all LeProHQ closures  (if is_below(z): return 0.0; pref/z * oracle(xi, eta(z)))
                                ChargedCurrentBase.labda / convolution_point
     esf/conv.py                convolution: empty domain for x >= 1 - eps
   Hand-written; tied by tools/corr/thresholds_hq.py. *)
From Coq Require Import ZArith QArith Bool Lqa List.
Import ListNotations.
Open Scope Q_scope.

Section NC.
  Variables Q2 m2 : Q.
  (* shat = Q2 * (1 - z) / z ; return shat <= 4 * m2hq *)
  Definition is_below (z : Q) : bool := Qle_bool (Q2 * (1 - z) / z) (4 * m2).
  Definition xi : Q := Q2 / m2.
  Definition eta (z : Q) : Q := xi / 4 * (1 / z - 1) - 1.

  (* decorator: below the hadronic threshold the channel returns the empty RSL for every order *)
  Inductive rsl (A : Type) := Empty | Full (a : A).
  Definition decorated {A} (x : Q) (f : A) : rsl A := if is_below x then Empty A else Full A f.
  (* a LeProHQ closure *)
  Definition closure (pref : Q) (oracle : Q -> Q -> Q) (z : Q) : Q :=
    if is_below z then 0 else pref / z * oracle xi (eta z).
End NC.

Section CC.
  Variables Q2 m2 : Q.
  Definition labda : Q := 1 / (1 + m2 / Q2).
  Definition cc_point (x : Q) : Q := x / labda.
End CC.

(* conv.convolution: "empty domain?" *)
Definition eps_border : Q := 1 # 10000000000.
Definition conv_domain_empty (cp : Q) : bool := Qle_bool (1 - eps_border) cp.
Definition conv_model (cp : Q) (integral_and_local : Q) : Q := if conv_domain_empty cp then 0 else integral_and_local.
