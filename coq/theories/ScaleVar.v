(* ScaleVar.v — executable model of esf/scale_variations.py (build_orders, ren_coeffs, fact_matrices,
   apply_common_scale_variations, apply_raw_diff_scale_variations, apply_diff_scale_variations),
   splitting_functions/__init__.py (sector_mapping, joint_lo, c110, c211, c220, c220ns, empty_gluon)
   and the scale-variation part of esf.py::compute_local, over the abstract field.
   The convolved splitting operators (one square matrix per label and nf) and the seven flavour
   projectors are inputs. Hand-written; tied by tools/corr/scalevar.py. *)
From Coq Require Import ZArith List Bool.
From Yad Require Import Base Result.
Import ListNotations.

Inductive label := Pqq0 | Pqg0 | Pgq0 | Pgg0 | Pqq1 | Pqg1 | Pnsp1 | Pnsm1 | Pqq0sq | Pqg0Pgq0 | Pqq0Pqg0 | Pqg0Pgg0.

(* build_orders *)
Definition build_orders (order : nat) : list okey :=
  flat_map (fun a => flat_map (fun lf => map (fun lr => (Z.of_nat a, 0%Z, Z.of_nat lr, Z.of_nat lf))
                                              (seq 0 (Nat.max a 1)))
                              (seq 0 (S a)))
           (seq 0 (S order)).

Section SV.
  Context {fld : Fld}.
  Local Open Scope F_scope.

  Definition vec := list F.
  Definition mat := list vec.
  Definition vadd (u v : vec) : vec := map (fun ab => fst ab + snd ab) (combine u v).
  Definition vscal (c : F) (u : vec) : vec := map (fmul c) u.
  Fixpoint vdot (u v : vec) : F := match u, v with a :: u', b :: v' => a * b + vdot u' v' | _, _ => f0 end.
  Definition mv (m : mat) (v : vec) : vec := map (fun r => vdot r v) m.          (* m @ v *)
  Definition madd (a b : mat) : mat := map (fun rs => vadd (fst rs) (snd rs)) (combine a b).
  Definition mscal (c : F) (a : mat) : mat := map (vscal c) a.
  Definition msub (a b : mat) : mat := madd a (mscal (- f1) b).
  Definition mzero_like (a : mat) : mat := map (map (fun _ => f0)) a.
  Definition meye_like (a : mat) : mat :=
    map (fun i => map (fun j => if Nat.eqb i j then f1 else f0) (seq 0 (List.length a))) (seq 0 (List.length a)).
  (* v @ m (row vector times matrix) *)
  Definition vm (v : vec) (m : mat) : vec :=
    fold_left (fun acc vr => vadd acc (vscal (fst vr) (snd vr))) (combine v m)
              (match m with r :: _ => map (fun _ => f0) r | [] => [] end).

  Definition beta0 (nf : Z) : F := fz 11 - fz 2 * fz nf / fz 3.
  Definition beta1 (nf : Z) : F := fz 102 - fz 38 * fz nf / fz 3.

  (* ren_coeffs: (target, power of ln(muF2/muR2), source) -> coefficient, filtered by target <= order *)
  Definition ren_coeffs (order : Z) (nf : Z) : list ((Z * Z * Z) * F) :=
    filter (fun kc => (fst (fst (fst kc)) <=? order)%Z)
      [((2, 1, 1)%Z, beta0 nf); ((3, 1, 2)%Z, two * beta0 nf); ((3, 1, 1)%Z, beta1 nf); ((3, 2, 1)%Z, beta0 nf * beta0 nf)].

  (* sector_mapping: (target, lnf, src) -> the seven sector matrices in the order of
     br.anomalous_dimensions_basis = (S_qq, S_qg, S_gq, S_gg, ns-, ns+, nsV) *)
  Section Sectors.
    Variable ops : label -> mat.
    Variable nf : Z.
    Definition c110 (l : label) : mat := ops l.
    Definition c211 (l : label) : mat :=
      match l with
      | Pgq0 | Pqg0 => msub (ops l) (mzero_like (ops l))
      | _ => msub (ops l) (mscal (beta0 nf) (meye_like (ops l)))
      end.
    Definition c220 (ls : list label) (l : label) : mat :=
      mscal (f1 / two)
            (msub (fold_left (fun acc x => madd acc (ops x)) ls (mzero_like (ops l))) (mscal (beta0 nf) (ops l))).
    Definition joint_lo (fnc : label -> mat) (gluonic : bool) : list mat :=
      let z := mzero_like (ops Pqq0) in
      [fnc Pqq0; fnc Pqg0; (if gluonic then fnc Pgq0 else z); (if gluonic then fnc Pgg0 else z);
       fnc Pqq0; fnc Pqq0; fnc Pqq0].
    Definition sector_mapping (order : Z) : list ((Z * Z * Z) * list mat) :=
      let z := mzero_like (ops Pqq0) in
      (if (1 <=? order)%Z then [((1, 1, 0)%Z, joint_lo c110 false)] else [])
      ++ (if (2 <=? order)%Z then
            [((2, 1, 0)%Z, [ops Pqq1; ops Pqg1; z; z; ops Pnsm1; ops Pnsp1; ops Pnsm1]);
             ((2, 1, 1)%Z, joint_lo c211 true);
             ((2, 2, 0)%Z, [c220 [Pqq0sq; Pqg0Pgq0] Pqq0; c220 [Pqq0Pqg0; Pqg0Pgg0] Pqg0; z; z;
                            c220 [Pqq0sq] Pqq0; c220 [Pqq0sq] Pqq0; c220 [Pqq0sq] Pqq0])]
          else []).
  End Sectors.

  (* one kernel-order: key and P @ V written as a sum of (flavour vector) x (grid vector) *)
  Definition term := (vec * vec)%type.
  Record entry := { e_key : okey; e_terms : list term }.
  Definition okey_o (k : okey) : Z := fst (fst (fst k)).
  Definition okey_q (k : okey) : Z := snd (fst (fst k)).
  Definition okey_r (k : okey) : Z := snd (fst k).
  Definition okey_f (k : okey) : Z := snd k.

  (* apply_common_scale_variations (only ker[0][:,0] and ker[1][0] are read) *)
  Definition common_one (fm : list ((Z * Z * Z) * list mat)) (projs : list mat) (e : entry) : list entry :=
    match e_terms e with
    | [] => []
    | (p, v) :: _ =>
      flat_map (fun km => let '((target, lnf, src), ms) := km in
                          if (src =? okey_o (e_key e))%Z
                          then [{| e_key := (target, okey_q (e_key e), 0%Z, lnf);
                                   e_terms := map (fun pm => (vm p (fst pm), mv (snd pm) v)) (combine projs ms) |}]
                          else []) fm
    end.
  Definition apply_common (fact : bool) (fm : list ((Z * Z * Z) * list mat)) (projs : list mat) (es : list entry) : list entry :=
    if fact then flat_map (common_one fm projs) es else [].

  Definition scale_terms (c : F) (ts : list term) : list term := map (fun t => (vscal c (fst t), snd t)) ts.
  (* apply_raw_diff_scale_variations *)
  Definition raw_diff_one (rc : list ((Z * Z * Z) * F)) (e : entry) : list entry :=
    flat_map (fun kc => let '((target, lnf2r, src), c) := kc in
                        if (src =? okey_o (e_key e))%Z
                        then [{| e_key := (target, okey_q (e_key e), lnf2r, okey_f (e_key e)); e_terms := scale_terms c (e_terms e) |}]
                        else []) rc.
  (* binomial(n, j) * (-1)^j for the n <= 2 that occur *)
  Definition binom_sign (n j : nat) : F :=
    match n, j with
    | 0, 0 => f1
    | 1, 0 => f1 | 1, 1 => - f1
    | 2, 0 => f1 | 2, 1 => - two | 2, 2 => f1
    | _, _ => f0
    end%nat.
  Definition split_one (e : entry) : list entry :=
    let n := Z.to_nat (okey_r (e_key e)) in
    map (fun j => {| e_key := (okey_o (e_key e), okey_q (e_key e), Z.of_nat j, (Z.of_nat (n - j) + okey_f (e_key e))%Z);
                     e_terms := scale_terms (binom_sign n j) (e_terms e) |}) (seq 0 (S n)).
  Definition diff_one (rc : list ((Z * Z * Z) * F)) (e : entry) : list entry := flat_map split_one (raw_diff_one rc e).
  Definition keep (ren fact : bool) (e : entry) : bool :=
    (ren || (okey_r (e_key e) =? 0)%Z) && (fact || (okey_f (e_key e) =? 0)%Z).
  Definition apply_diff (ren fact : bool) (rc : list ((Z * Z * Z) * F)) (es : list entry) : list entry :=
    if (negb ren && negb fact)%bool then []
    else if negb ren then filter (fun e => (okey_r (e_key e) =? 0)%Z) (flat_map (diff_one rc) es)
    else if negb fact then filter (fun e => (okey_f (e_key e) =? 0)%Z) (flat_map (diff_one rc) es)
    else flat_map (diff_one rc) es.

  (* the scale-variation part of compute_local for one kernel *)
  Definition sv_kernel (ren fact intrinsic : bool) (fm : list ((Z * Z * Z) * list mat)) (projs : list mat)
             (rc : list ((Z * Z * Z) * F)) (base : list entry) : list entry :=
    if intrinsic then base ++ filter (fun e => (okey_f (e_key e) =? 0)%Z) (apply_diff ren fact rc base)
    else let withc := base ++ apply_common fact fm projs base in
         withc ++ apply_diff ren fact rc withc.

  (* meaning: the tensor entry (pid index i, grid index j) accumulated under a key *)
  Definition term_at (t : term) (i j : nat) : F := nth i (fst t) f0 * nth j (snd t) f0.
  Definition entry_at (e : entry) (i j : nat) : F := fsum (map (fun t => term_at t i j) (e_terms e)).
  Definition tensor_at (es : list entry) (k : okey) (i j : nat) : F :=
    fsum (map (fun e => if okey_eqb (e_key e) k then entry_at e i j else f0) es).
End SV.
