(* CorrCache.v — agreement predicate for tools/corr/cache.py. *)
From Coq Require Import ZArith List Bool String QArith.
From Yad Require Import Cache.
Import ListNotations.

(* observed per operation: None for drop_cache, Some (x, Q2 of the object served, is it a TMC object, was it a hit) *)
Definition oobs := option (Q * Q * bool * bool).
Definition qopt_eqb (a : option Q) (b : Q) : bool := match a with Some x => Qeq_bool x b | None => false end.
Definition out_agree (m : option (obj * bool)) (o : oobs) : bool :=
  match m, o with
  | None, None => true
  | Some (ob, hit), Some (x, q2, t, h) =>
      qopt_eqb (kget (o_kin ob) "x") x && qopt_eqb (kget (o_kin ob) "Q2") q2 && Bool.eqb (o_tmc ob) t && Bool.eqb hit h
  | _, _ => false
  end.
Fixpoint outs_agree (m : list (option (obj * bool))) (o : list oobs) : bool :=
  match m, o with
  | [], [] => true
  | a :: m', b :: o' => out_agree a b && outs_agree m' o'
  | _, _ => false
  end.
Record ccase := { cc_tmc : bool; cc_ops : list op; cc_obs : list oobs }.
Definition cache_ok (by_name : bool) (c : ccase) : bool := outs_agree (run by_name (cc_tmc c) [] (cc_ops c)) (cc_obs c).
