(* ThreshTheorems.v — theorems about Thresholds.v (C06). *)
From Coq Require Import ZArith List Bool QArith Lia String.
From Yad Require Import Thresholds.
Import ListNotations.

(* nf_default counts exactly the heavy quarks whose matching scale is <= q (q >= 0): at a threshold the
   quark is active, below it is not — for every rational, hence every float *)
Theorem nf_default_count q wc wb wt : 0 <= q ->
  nf_default q wc wb wt = (3 + Z.of_nat (active_heavy q wc wb wt))%Z.
Proof.
  intros Hq. unfold nf_default, atlas_walls, active_heavy; cbn [count_le wall_leb].
  assert (E : Qle_bool 0 q = true) by (apply Qle_bool_iff; exact Hq). rewrite E.
  destruct (wall_leb wc q), (wall_leb wb q), (wall_leb wt q); reflexivity.
Qed.

Lemma wall_leb_mono w q q' : q <= q' -> wall_leb w q = true -> wall_leb w q' = true.
Proof.
  destruct w as [x|]; cbn [wall_leb]; [|discriminate]. intros H H1.
  apply Qle_bool_iff in H1. apply Qle_bool_iff. eapply Qle_trans; eassumption.
Qed.
Theorem nf_default_monotone q q' wc wb wt : 0 <= q -> q <= q' ->
  (nf_default q wc wb wt <= nf_default q' wc wb wt)%Z.
Proof.
  intros H0 H. rewrite !nf_default_count by (try assumption; eapply Qle_trans; eassumption).
  unfold active_heavy.
  pose proof (wall_leb_mono wc q q' H). pose proof (wall_leb_mono wb q q' H). pose proof (wall_leb_mono wt q q' H).
  destruct (wall_leb wc q), (wall_leb wb q), (wall_leb wt q);
    repeat match goal with H : true = true -> _ |- _ => rewrite (H eq_refl); clear H end;
    destruct (wall_leb wc q'), (wall_leb wb q'), (wall_leb wt q'); cbn; lia.
Qed.
(* boundary convention: exactly at the wall the quark counts, strictly below it does not *)
Theorem at_wall_active x : wall_leb (Fin x) x = true.
Proof. cbn. apply Qle_bool_iff. apply Qle_refl. Qed.
Theorem below_wall_inactive x q : q < x -> wall_leb (Fin x) q = false.
Proof.
  intros H. cbn. destruct (Qle_bool x q) eqn:E; [|reflexivity].
  apply Qle_bool_iff in E. exfalso. apply (Qlt_not_le _ _ H E).
Qed.

(* fixed-flavour schemes: whatever the masses and the requested ratios, nf_default = NfFF at every q > 0 *)
Definition walls_of (f : fns) (nf : Z) (mc mb mt : Q) : wall * wall * wall :=
  match update_fns f nf with
  | [(a, _); (b, _); (c, _)] => (wall_after a mc, wall_after b mb, wall_after c mt)
  | _ => (Inf, Inf, Inf)
  end.
Theorem ffns_nf f nf q mc mb mt : f <> ZMVFNS -> (3 <= nf <= 6)%Z -> 0 <= q ->
  let '(wc, wb, wt) := walls_of f nf mc mb mt in nf_default q wc wb wt = nf.
Proof.
  intros Hf Hn Hq.
  assert (E : Qle_bool 0 q = true) by (apply Qle_bool_iff; exact Hq).
  assert (Hc : (nf = 3 \/ nf = 4 \/ nf = 5 \/ nf = 6)%Z) by lia.
  destruct f; try congruence; destruct Hc as [->|[->|[->| ->]]];
    cbn -[Qle_bool]; unfold nf_default, atlas_walls; cbn [count_le wall_leb]; rewrite ?E; reflexivity.
Qed.
(* which quarks are treated as massive (ZM flag false) *)
Theorem ffns_massive f nf : (f = FFNS \/ f = FFN0) -> (3 <= nf <= 6)%Z ->
  map (fun x => negb (snd x)) (update_fns f nf) = [(nf <? 4)%Z; (nf <? 5)%Z; (nf <? 6)%Z].
Proof.
  intros Hf Hn.
  assert (Hc : (nf = 3 \/ nf = 4 \/ nf = 5 \/ nf = 6)%Z) by lia.
  destruct Hf as [-> | ->]; destruct Hc as [->|[->|[->| ->]]]; reflexivity.
Qed.
Theorem fonll_single_massive f nf : (f = FONLL_FFNS \/ f = FONLL_FFN0) -> (3 <= nf <= 6)%Z ->
  map (fun x => negb (snd x)) (update_fns f nf) = [(nf =? 3)%Z; (nf =? 4)%Z; (nf =? 5)%Z].
Proof.
  intros Hf Hn.
  assert (Hc : (nf = 3 \/ nf = 4 \/ nf = 5 \/ nf = 6)%Z) by lia.
  destruct Hf as [-> | ->]; destruct Hc as [->|[->|[->| ->]]]; reflexivity.
Qed.
Theorem zm_all_massless nf : map snd (update_fns ZMVFNS nf) = [true; true; true]
  /\ map fst (update_fns ZMVFNS nf) = [KKeep; KKeep; KKeep].
Proof. split; reflexivity. Qed.
