(* GluonLimit.v — C08, analytic half for the charged-current gluon channel at NLO: the asymptotic coefficient function
   (asy/*_cc.py AsyGluon, args[0] = L = ln(Q2/m2)) is the limit of the massive one (heavy/*_cc.py Gluon, args[0] = lambda =
   1/(1 + m2/Q2)), with an explicit remainder  O((1 - lambda)(1 + |ln(1 - lambda)|)),  1 - lambda = m2/(Q2 + m2).
   Both sides are the closures REGENERATED from the source by tools/pyinst.py (gen/InstKernels.v). *)
From Coq Require Import Reals List Lra ZArith Psatz.
From Coquelicot Require Import Coquelicot.
From Yad Require Import Expr.
From YadGen Require Import InstKernels.
Import ListNotations.
Open Scope R_scope.

(* the explicit difference, D/2 *)
Definition Dhalf (z l : R) : R :=
  let p := (z^2 + (1 - z)^2) / 2 in
  - 2 * p * ln l + (12 * (1 - l)^2 - 18 * (1 - l)) * z * (1 - z) + (1 - l) / (1 - l * z)
  + (6 * l - 12 * l * l * z) * (1 - l) * z * (ln (1 - l * z) - ln (1 - l) - ln z).

Lemma diff_explicit sp z l : 0 < z < 1 -> 0 < l < 1 ->
  eval sp ik_heavy_f2_cc_Gluon_NLO_reg z [l] - eval sp ik_asy_f2_cc_AsyGluon_NLO_reg z [ln (l / (1 - l))] = 2 * Dhalf z l.
Proof.
  intros Hz Hl. assert (Hlz : 0 < 1 - l * z) by nra.
  cbn [eval ik_heavy_f2_cc_Gluon_NLO_reg ik_asy_f2_cc_AsyGluon_NLO_reg cst_val nth]. unfold Dhalf.
  rewrite (ln_div l (1 - l)) by lra.
  rewrite (ln_div (1 - z) z) by lra.
  rewrite (ln_div ((1 - l * z) / (1 - l)) z) by (try lra; apply Rdiv_lt_0_compat; lra).
  rewrite (ln_div (1 - l * z) (1 - l)) by lra.
  unfold Rdiv. field. lra.
Qed.

Lemma ln_le_minus_1 x : 0 < x -> ln x <= x - 1.
Proof.
  intros Hx. destruct (Req_dec x 1) as [->|Hne]; [rewrite ln_1; lra|].
  assert (Hy : ln x <> 0) by (intro E; apply Hne; rewrite <- (exp_ln x Hx), E; apply exp_0).
  pose proof (exp_ineq1 (ln x) Hy) as H. rewrite exp_ln in H by exact Hx. lra.
Qed.

Lemma Dhalf_bound z l : 0 < z < 1 -> 1 / 2 <= l < 1 ->
  Rabs (Dhalf z l) <= (1 - l) * (8 + / (1 - z) + 12 * (- ln (1 - z) - ln z) + 12 * (- ln (1 - l))).
Proof.
  intros Hz Hl. unfold Dhalf. cbv zeta.
  assert (Hlz : 0 < 1 - l * z) by nra.
  set (a := ln l). set (b := ln (1 - l * z)). set (c := ln (1 - l)). set (d := ln z). set (e := ln (1 - z)).
  assert (Ha : - 2 * (1 - l) <= a <= 0).
  { split.
    - unfold a. pose proof (ln_le_minus_1 (/ l) ltac:(apply Rinv_0_lt_compat; lra)) as H. rewrite ln_Rinv in H by lra.
      assert (/ l <= 2) by (apply Rmult_le_reg_l with l; [lra|]; rewrite Rinv_r by lra; lra).
      assert (/ l - 1 <= 2 * (1 - l)).
      { apply Rmult_le_reg_l with l; [lra|]. replace (l * (/ l - 1)) with (1 - l) by (field; lra). nra. }
      lra.
    - unfold a. rewrite <- ln_1. apply Rlt_le, ln_increasing; lra. }
  assert (Hb : e <= b <= 0).
  { split.
    - unfold e, b. destruct (Req_dec (1 - z) (1 - l * z)) as [->|Hne]; [lra|]. apply Rlt_le, ln_increasing; nra.
    - unfold b. rewrite <- ln_1. apply Rlt_le, ln_increasing; nra. }
  assert (Hc : c < 0) by (unfold c; rewrite <- ln_1; apply ln_increasing; lra).
  assert (Hd : d < 0) by (unfold d; rewrite <- ln_1; apply ln_increasing; lra).
  assert (He : e < 0) by (unfold e; rewrite <- ln_1; apply ln_increasing; lra).
  set (p := (z ^ 2 + (1 - z) ^ 2) / 2).
  assert (Hp : 0 <= p <= 1 / 2).
  { unfold p. assert (0 <= z * z <= 1) by (split; nra). assert (0 <= (1 - z) * (1 - z) <= 1) by (split; nra). simpl. nra. }
  set (T1 := - 2 * p * a). set (T2 := (12 * (1 - l) ^ 2 - 18 * (1 - l)) * z * (1 - z)).
  set (T3 := (1 - l) / (1 - l * z)). set (T4 := (6 * l - 12 * l * l * z) * (1 - l) * z * (b - c - d)).
  assert (B1 : Rabs T1 <= 2 * (1 - l)) by (unfold T1; apply Rabs_le; split; nra).
  assert (Hzz : 0 <= z * (1 - z) <= 1 / 4).
  { pose proof (pow2_ge_0 (z - 1 / 2)) as Hq. simpl in Hq. split; nra. }
  assert (B2 : Rabs T2 <= 6 * (1 - l)).
  { unfold T2. set (u := 1 - l). assert (Hu : 0 < u <= 1 / 2) by (unfold u; lra).
    set (q := 12 * u ^ 2 - 18 * u). assert (Hq : - 18 * u <= q <= 0) by (unfold q; simpl; split; nra).
    set (w := z * (1 - z)) in *. replace (q * z * (1 - z)) with (q * w) by (unfold w; ring).
    apply Rabs_le. split; nra. }
  assert (B3 : Rabs T3 <= (1 - l) * / (1 - z)).
  { unfold T3. rewrite Rabs_pos_eq by (apply Rlt_le, Rdiv_lt_0_compat; lra). unfold Rdiv.
    apply Rmult_le_compat_l; [lra|]. apply Rinv_le_contravar; [lra|nra]. }
  assert (B4 : Rabs T4 <= 12 * (1 - l) * (- e - d - c)).
  { unfold T4. set (k := 6 * l - 12 * l * l * z). assert (Hk : -12 <= k <= 6) by (unfold k; split; nra).
    assert (Hcd : c + d <= b).
    { unfold c, d, b. rewrite <- ln_mult by lra. destruct (Req_dec ((1 - l) * z) (1 - l * z)) as [->|Hne]; [lra|].
      apply Rlt_le, ln_increasing; nra. }
    set (g := b - c - d). assert (Hg : 0 <= g <= - e - d - c) by (unfold g; split; lra).
    replace (k * (1 - l) * z * g) with ((1 - l) * (k * z * g)) by ring.
    rewrite Rabs_mult, (Rabs_pos_eq (1 - l)) by lra.
    replace (12 * (1 - l) * (- e - d - c)) with ((1 - l) * (12 * (- e - d - c))) by ring.
    apply Rmult_le_compat_l; [lra|].
    assert (Hkz : Rabs (k * z) <= 12) by (apply Rabs_le; split; nra).
    replace (k * z * g) with ((k * z) * g) by ring. rewrite Rabs_mult, (Rabs_pos_eq g) by lra.
    apply Rle_trans with (12 * g); [apply Rmult_le_compat_r; lra | lra]. }
  change (Rabs (T1 + T2 + T3 + T4) <= (1 - l) * (8 + / (1 - z) + 12 * (- e - d) + 12 * - c)).
  apply Rle_trans with (Rabs T1 + Rabs T2 + Rabs T3 + Rabs T4).
  - eapply Rle_trans; [apply Rabs_triang|]. apply Rplus_le_compat_r.
    eapply Rle_trans; [apply Rabs_triang|]. apply Rplus_le_compat_r. apply Rabs_triang.
  - nra.
Qed.

Theorem gluon_f2_limit sp z l : 0 < z < 1 -> 1 / 2 <= l < 1 ->
  Rabs (eval sp ik_heavy_f2_cc_Gluon_NLO_reg z [l] - eval sp ik_asy_f2_cc_AsyGluon_NLO_reg z [ln (l / (1 - l))])
  <= 2 * (1 - l) * (8 + / (1 - z) + 12 * (- ln (1 - z) - ln z) + 12 * (- ln (1 - l))).
Proof.
  intros Hz Hl. rewrite diff_explicit by lra. rewrite Rabs_mult, (Rabs_pos_eq 2) by lra.
  rewrite Rmult_assoc. apply Rmult_le_compat_l; [lra|]. apply Dhalf_bound; assumption.
Qed.

(* ---------------------------------------------------------------- FL *)
Definition DLhalf (z l : R) : R :=
  let p := (z^2 + (1 - z)^2) / 2 in
  (1 - l) * (p * (2 * ln (1 - z) - 2 * ln z - ln (1 - l) - ln l) - (8 * l + 2) * z * (1 - z)
             + (4 * l - 8 * l * l * z) * z * (ln (1 - l * z) - ln (1 - l) - ln z)).
Lemma diffL_explicit sp z l : 0 < z < 1 -> 0 < l < 1 ->
  eval sp ik_heavy_fl_cc_Gluon_NLO_reg z [l] - eval sp ik_asy_fl_cc_AsyGluon_NLO_reg z [ln (l / (1 - l))] = 2 * DLhalf z l.
Proof.
  intros Hz Hl. assert (Hlz : 0 < 1 - l * z) by nra.
  cbn [eval ik_heavy_fl_cc_Gluon_NLO_reg ik_asy_fl_cc_AsyGluon_NLO_reg cst_val nth]. unfold DLhalf.
  rewrite (ln_div ((1 - l * z) / (1 - l)) z) by (try lra; apply Rdiv_lt_0_compat; lra).
  rewrite (ln_div (1 - l * z) (1 - l)) by lra.
  unfold Rdiv. field; lra.
Qed.

(* the logarithms that occur, bounded once *)
Lemma log_facts z l : 0 < z < 1 -> 1 / 2 <= l < 1 ->
  (- 2 * (1 - l) <= ln l <= 0) /\ (ln (1 - z) <= ln (1 - l * z) <= 0) /\ ln (1 - l) < 0 /\ ln z < 0 /\ ln (1 - z) < 0
  /\ ln (1 - l) + ln z <= ln (1 - l * z) /\ - ((1 - l) * / (1 - z)) <= ln (1 - z) - ln (1 - l * z).
Proof.
  intros Hz Hl. assert (Hlz : 0 < 1 - l * z) by nra.
  repeat split.
  - pose proof (ln_le_minus_1 (/ l) ltac:(apply Rinv_0_lt_compat; lra)) as H. rewrite ln_Rinv in H by lra.
    assert (/ l - 1 <= 2 * (1 - l)).
    { apply Rmult_le_reg_l with l; [lra|]. replace (l * (/ l - 1)) with (1 - l) by (field; lra). nra. }
    lra.
  - rewrite <- ln_1. apply Rlt_le, ln_increasing; lra.
  - destruct (Req_dec (1 - z) (1 - l * z)) as [->|Hne]; [lra|]. apply Rlt_le, ln_increasing; nra.
  - rewrite <- ln_1. apply Rlt_le, ln_increasing; nra.
  - rewrite <- ln_1; apply ln_increasing; lra.
  - rewrite <- ln_1; apply ln_increasing; lra.
  - rewrite <- ln_1; apply ln_increasing; lra.
  - rewrite <- ln_mult by lra. destruct (Req_dec ((1 - l) * z) (1 - l * z)) as [->|Hne]; [lra|].
    apply Rlt_le, ln_increasing; nra.
  - (* ln((1-lz)/(1-z)) <= (1-lz)/(1-z) - 1 = z(1-l)/(1-z) <= (1-l)/(1-z) *)
    pose proof (ln_le_minus_1 ((1 - l * z) * / (1 - z)) ltac:(apply Rmult_lt_0_compat; [lra | apply Rinv_0_lt_compat; lra])) as H.
    rewrite ln_mult, ln_Rinv in H by (try lra; apply Rinv_0_lt_compat; lra).
    assert (E : (1 - l * z) * / (1 - z) - 1 = z * (1 - l) * / (1 - z)) by (field; lra).
    assert (z * (1 - l) * / (1 - z) <= (1 - l) * / (1 - z)).
    { assert (0 < / (1 - z)) by (apply Rinv_0_lt_compat; lra). nra. }
    lra.
Qed.

Lemma DLhalf_bound z l : 0 < z < 1 -> 1 / 2 <= l < 1 ->
  Rabs (DLhalf z l) <= (1 - l) * (3 + 9 * (- ln (1 - z) - ln z) + 9 * (- ln (1 - l))).
Proof.
  intros Hz Hl. unfold DLhalf. cbv zeta.
  destruct (log_facts z l Hz Hl) as (Ha & Hb & Hc & Hd & He & Hcd & _).
  set (a := ln l) in *. set (b := ln (1 - l * z)) in *. set (c := ln (1 - l)) in *. set (d := ln z) in *. set (e := ln (1 - z)) in *.
  set (p := (z ^ 2 + (1 - z) ^ 2) / 2).
  assert (Hp : 0 <= p <= 1 / 2).
  { unfold p. assert (0 <= z * z <= 1) by (split; nra). assert (0 <= (1 - z) * (1 - z) <= 1) by (split; nra). simpl. nra. }
  assert (Hzz : 0 <= z * (1 - z) <= 1 / 4).
  { pose proof (pow2_ge_0 (z - 1 / 2)) as Hq. simpl in Hq. split; nra. }
  rewrite Rabs_mult, (Rabs_pos_eq (1 - l)) by lra. apply Rmult_le_compat_l; [lra|].
  set (K1 := p * (2 * e - 2 * d - c - a)). set (K2 := (8 * l + 2) * z * (1 - z)). set (K3 := (4 * l - 8 * l * l * z) * z * (b - c - d)).
  assert (B1 : Rabs K1 <= - e - d - c / 2 + 1 / 2).
  { unfold K1. set (s := 2 * e - 2 * d - c - a). assert (Hs : Rabs s <= - 2 * e - 2 * d - c + 1) by (unfold s; apply Rabs_le; split; lra).
    rewrite Rabs_mult, (Rabs_pos_eq p) by lra. apply Rle_trans with (1 / 2 * Rabs s); [apply Rmult_le_compat_r; [apply Rabs_pos | lra] | lra]. }
  assert (B2 : Rabs K2 <= 5 / 2).
  { unfold K2. set (w := z * (1 - z)) in *. replace ((8 * l + 2) * z * (1 - z)) with ((8 * l + 2) * w) by (unfold w; ring). apply Rabs_le; split; nra. }
  assert (B3 : Rabs K3 <= 8 * (- e - d - c)).
  { unfold K3. set (k := 4 * l - 8 * l * l * z). assert (Hk : - 8 <= k <= 4) by (unfold k; split; nra).
    set (g := b - c - d). assert (Hg : 0 <= g <= - e - d - c) by (unfold g; split; lra).
    assert (Hkz : Rabs (k * z) <= 8) by (apply Rabs_le; split; nra).
    rewrite Rabs_mult, (Rabs_pos_eq g) by lra. apply Rle_trans with (8 * g); [apply Rmult_le_compat_r; lra | lra]. }
  change (Rabs (K1 - K2 + K3) <= 3 + 9 * (- e - d) + 9 * - c).
  apply Rle_trans with (Rabs K1 + Rabs K2 + Rabs K3).
  - eapply Rle_trans; [apply Rabs_triang|]. apply Rplus_le_compat_r. unfold Rminus. eapply Rle_trans; [apply Rabs_triang|]. rewrite Rabs_Ropp. lra.
  - lra.
Qed.
Theorem gluon_fl_limit sp z l : 0 < z < 1 -> 1 / 2 <= l < 1 ->
  Rabs (eval sp ik_heavy_fl_cc_Gluon_NLO_reg z [l] - eval sp ik_asy_fl_cc_AsyGluon_NLO_reg z [ln (l / (1 - l))])
  <= 2 * (1 - l) * (3 + 9 * (- ln (1 - z) - ln z) + 9 * (- ln (1 - l))).
Proof.
  intros Hz Hl. rewrite diffL_explicit by lra. rewrite Rabs_mult, (Rabs_pos_eq 2) by lra.
  rewrite Rmult_assoc. apply Rmult_le_compat_l; [lra|]. apply DLhalf_bound; assumption.
Qed.

(* ---------------------------------------------------------------- F3 *)
Definition D3 (z l : R) : R :=
  let p := (z^2 + (1 - z)^2) / 2 in
  4 * l * p * (ln (1 - z) - ln (1 - l * z)) - 2 * (1 - l) * p * (ln (1 - l) - ln l)
  + 2 * l * (1 - l) * (2 * z * (1 - z) + (- 2 * (1 - z) + 2 * l * z) * z * (ln (1 - l * z) - ln (1 - l) - ln z)).
Lemma diff3_explicit sp z l : 0 < z < 1 -> 0 < l < 1 ->
  eval sp ik_heavy_f3_cc_Gluon_NLO_reg z [l] - eval sp ik_asy_f3_cc_AsyGluon_NLO_reg z [ln (l / (1 - l))] = D3 z l.
Proof.
  intros Hz Hl. assert (Hlz : 0 < 1 - l * z) by nra.
  cbn [eval ik_heavy_f3_cc_Gluon_NLO_reg ik_asy_f3_cc_AsyGluon_NLO_reg cst_val nth]. unfold D3.
  rewrite (ln_div l (1 - l)) by lra.
  rewrite (ln_div ((1 - l * z) / (1 - l)) z) by (try lra; apply Rdiv_lt_0_compat; lra).
  rewrite (ln_div (1 - l * z) (1 - l)) by lra.
  unfold Rdiv. field; lra.
Qed.
Lemma D3_bound z l : 0 < z < 1 -> 1 / 2 <= l < 1 ->
  Rabs (D3 z l) <= (1 - l) * (2 * / (1 - z) + 2 + 4 * (- ln (1 - z) - ln z) + 5 * (- ln (1 - l))).
Proof.
  intros Hz Hl. unfold D3. cbv zeta.
  destruct (log_facts z l Hz Hl) as (Ha & Hb & Hc & Hd & He & Hcd & Heb).
  set (a := ln l) in *. set (b := ln (1 - l * z)) in *. set (c := ln (1 - l)) in *. set (d := ln z) in *. set (e := ln (1 - z)) in *.
  set (p := (z ^ 2 + (1 - z) ^ 2) / 2).
  assert (Hp : 0 <= p <= 1 / 2).
  { unfold p. assert (0 <= z * z <= 1) by (split; nra). assert (0 <= (1 - z) * (1 - z) <= 1) by (split; nra). simpl. nra. }
  assert (Hzz : 0 <= z * (1 - z) <= 1 / 4).
  { pose proof (pow2_ge_0 (z - 1 / 2)) as Hq. simpl in Hq. split; nra. }
  assert (Hiz : 0 < / (1 - z)) by (apply Rinv_0_lt_compat; lra).
  set (K1 := 4 * l * p * (e - b)). set (K2 := 2 * (1 - l) * p * (c - a)).
  set (K3 := 2 * l * (1 - l) * (2 * z * (1 - z) + (- 2 * (1 - z) + 2 * l * z) * z * (b - c - d))).
  assert (B1 : Rabs K1 <= (1 - l) * (2 * / (1 - z))).
  { unfold K1. assert (Hm : 0 <= (1 - l) * / (1 - z)) by nra.
    assert (Ht : Rabs (e - b) <= (1 - l) * / (1 - z)) by (apply Rabs_le; split; lra).
    replace (4 * l * p * (e - b)) with ((4 * l * p) * (e - b)) by ring. rewrite Rabs_mult, (Rabs_pos_eq (4 * l * p)) by nra.
    apply Rle_trans with (2 * Rabs (e - b)); [apply Rmult_le_compat_r; [apply Rabs_pos | nra] | lra]. }
  assert (B2 : Rabs K2 <= (1 - l) * (- c + 1)).
  { unfold K2. replace (2 * (1 - l) * p * (c - a)) with ((1 - l) * (2 * p * (c - a))) by ring.
    rewrite Rabs_mult, (Rabs_pos_eq (1 - l)) by lra. apply Rmult_le_compat_l; [lra|].
    assert (Hs : Rabs (c - a) <= - c + 1) by (apply Rabs_le; split; lra).
    replace (2 * p * (c - a)) with ((2 * p) * (c - a)) by ring. rewrite Rabs_mult, (Rabs_pos_eq (2 * p)) by lra.
    apply Rle_trans with (1 * Rabs (c - a)); [apply Rmult_le_compat_r; [apply Rabs_pos | lra] | lra]. }
  assert (B3 : Rabs K3 <= (1 - l) * (1 + 4 * (- e - d - c))).
  { unfold K3. set (k := - 2 * (1 - z) + 2 * l * z). assert (Hk : - 2 <= k <= 2) by (unfold k; split; nra).
    set (g := b - c - d). assert (Hg : 0 <= g <= - e - d - c) by (unfold g; split; lra).
    set (w := z * (1 - z)) in *.
    replace (2 * l * (1 - l) * (2 * z * (1 - z) + k * z * g)) with ((1 - l) * (2 * l * (2 * w + (k * z) * g))) by (unfold w; ring).
    rewrite Rabs_mult, (Rabs_pos_eq (1 - l)) by lra. apply Rmult_le_compat_l; [lra|].
    assert (Hkz : Rabs (k * z) <= 2) by (apply Rabs_le; split; nra).
    assert (Hq : Rabs ((k * z) * g) <= 2 * g).
    { rewrite Rabs_mult, (Rabs_pos_eq g) by lra. apply Rmult_le_compat_r; lra. }
    assert (Hi : Rabs (2 * w + k * z * g) <= 1 / 2 + 2 * g).
    { eapply Rle_trans; [apply Rabs_triang|]. rewrite (Rabs_pos_eq (2 * w)) by lra. lra. }
    rewrite Rabs_mult, (Rabs_pos_eq (2 * l)) by lra.
    apply Rle_trans with (2 * (1 / 2 + 2 * g)); [| lra].
    apply Rle_trans with (2 * Rabs (2 * w + k * z * g)); [apply Rmult_le_compat_r; [apply Rabs_pos | lra] | lra]. }
  change (Rabs (K1 - K2 + K3) <= (1 - l) * (2 * / (1 - z) + 2 + 4 * (- e - d) + 5 * - c)).
  apply Rle_trans with (Rabs K1 + Rabs K2 + Rabs K3).
  - eapply Rle_trans; [apply Rabs_triang|]. apply Rplus_le_compat_r. unfold Rminus. eapply Rle_trans; [apply Rabs_triang|]. rewrite Rabs_Ropp. lra.
  - nra.
Qed.
Theorem gluon_f3_limit sp z l : 0 < z < 1 -> 1 / 2 <= l < 1 ->
  Rabs (eval sp ik_heavy_f3_cc_Gluon_NLO_reg z [l] - eval sp ik_asy_f3_cc_AsyGluon_NLO_reg z [ln (l / (1 - l))])
  <= (1 - l) * (2 * / (1 - z) + 2 + 4 * (- ln (1 - z) - ln z) + 5 * (- ln (1 - l))).
Proof. intros Hz Hl. rewrite diff3_explicit by lra. apply D3_bound; assumption. Qed.
