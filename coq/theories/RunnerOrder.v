(* RunnerOrder.v — executable model of the evaluation plan of Runner.get_result for one observable (runner.py): the elements are
   evaluated in the order of a STABLE sort by Q2, the caches are dropped whenever Q2 changes and once at the end, and every
   result is stored in the slot of its own request.  Hand-written; tied by tools/corr/runnerorder.py on the real Runner. *)
From Coq Require Import ZArith List Bool QArith Qcanon Arith Lia Permutation.
From Yad Require Import Base.
Import ListNotations.

Inductive rop := Eval (idx : nat) | Drop.

(* stable insertion sort of (index, Q2) pairs by Q2 *)
Fixpoint insert (p : nat * Qc) (l : list (nat * Qc)) : list (nat * Qc) :=
  match l with
  | [] => [p]
  | q :: r => if Qc_leb (snd q) (snd p) then q :: insert p r else p :: q :: r      (* ties: the earlier request stays first *)
  end.
Definition sorted_requests (q2s : list Qc) : list (nat * Qc) :=
  fold_left (fun acc p => insert p acc) (combine (seq 0 (length q2s)) q2s) [].

Fixpoint emit (prev : option Qc) (l : list (nat * Qc)) : list rop :=
  match l with
  | [] => [Drop]
  | (i, q) :: r =>
    (match prev with Some q0 => if Qc_eqb q0 q then [] else [Drop] | None => [] end) ++ Eval i :: emit (Some q) r
  end.
Definition plan (q2s : list Qc) : list rop := emit None (sorted_requests q2s).

(* the slots after running the plan: slot idx holds the value computed for request idx *)
Fixpoint store {A} (l : list (option A)) (i : nat) (v : A) : list (option A) :=
  match l, i with
  | [], _ => []
  | _ :: r, O => Some v :: r
  | x :: r, S j => x :: store r j v
  end.
Definition run_plan {A} (vals : nat -> A) (n : nat) (ops : list rop) : list (option A) :=
  fold_left (fun slots op => match op with Eval i => store slots i (vals i) | Drop => slots end) ops (repeat None n).
Definition results {A} (vals : nat -> A) (q2s : list Qc) : list (option A) := run_plan vals (length q2s) (plan q2s).
Definition evals (ops : list rop) : list nat := flat_map (fun op => match op with Eval i => [i] | Drop => [] end) ops.
