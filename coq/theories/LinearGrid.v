(* LinearGrid.v — the Lebesgue-constant hypotheses of the whole-grid theorems, DISCHARGED for every increasing grid with linear interpolation
   (d = 1): on every area the block is the area itself, sum_j |l_j| = 1 and sum_j |l_j'| = 2 / (x_(i+1) - x_i).  Hence the error bounds of
   GlobalLipschitz hold on such grids from the smoothness of f and the spacing alone. *)
From Coq Require Import Reals List Lra Lia Arith Bool Psatz.
From Coquelicot Require Import Coquelicot.
From Yad Require Import Base Interp InterpTheorems InterpReal InterpDeriv GlobalInterp GlobalLipschitz GridExample Conv ConvGen ConvError.
Import ListNotations.
Open Scope R_scope.

Lemma block_d1 n i : (i + 1 < n)%nat -> block n 1 i = (i, (i + 1)%nat).
Proof.
  intros H. unfold block. cbn [Nat.even]. change (1 / 2)%nat with 0%nat. rewrite Nat.sub_0_r.
  destruct (Nat.leb_spec n (i + 1)) as [L|L]; [lia | reflexivity].
Qed.
Lemma firstn2_skipn (ns : list R) i : (i + 1 < length ns)%nat -> firstn 2 (skipn i ns) = [nth i ns 0; nth (S i) ns 0].
Proof.
  revert i. induction ns as [|a r IH]; intros i H; cbn [length] in H; [lia|].
  destruct i as [|i].
  - destruct r as [|b r']; cbn [length] in H; [lia | reflexivity].
  - cbn [skipn nth]. apply IH. lia.
Qed.
Lemma block_nodes_d1 (ns : list R) i : (i + 1 < length ns)%nat -> @block_nodes RFld ns 1 i = [nth i ns 0; nth (S i) ns 0].
Proof. intros H. unfold block_nodes. change (@F RFld) with R. rewrite (block_d1 _ _ H). cbn [fst]. apply (firstn2_skipn ns i H). Qed.

Theorem linear_grid_lebesgue ns i u : sorted ns -> (i + 1 < length ns)%nat -> nth i ns 0 <= u <= nth (S i) ns 0 ->
  lebesgue (@block_nodes RFld ns 1 i) u = 1 /\ lebesgue1 (@block_nodes RFld ns 1 i) u = 2 / (nth (S i) ns 0 - nth i ns 0).
Proof.
  intros Hs Hi Hu. rewrite (block_nodes_d1 ns i Hi).
  assert (Hab : nth i ns 0 < nth (S i) ns 0) by (apply Hs; lia).
  split; [apply two_node_lebesgue; assumption | apply two_node_lebesgue1; assumption].
Qed.

(* the whole-grid bounds without any Lebesgue hypothesis: linear interpolation on any increasing grid with spacings in [hmin, h] *)
Theorem linear_grid_error_sup ns f M h t : sorted ns -> (1 < length ns)%nat ->
  (forall w, nth 0 ns 0 <= w <= nth (length ns - 1) ns 0 -> forall k, (k <= 2)%nat -> ex_derive_n f k w) ->
  (forall w, nth 0 ns 0 < w < nth (length ns - 1) ns 0 -> Rabs (Derive_n f 2 w) <= M) ->
  (forall i, (i + 1 < length ns)%nat -> nth (S i) ns 0 - nth i ns 0 <= h) ->
  nth 0 ns 0 <= t <= nth (length ns - 1) ns 0 ->
  Rabs (Iglobal ns 1 f t - f t) <= M * h ^ 2.
Proof.
  intros Hs Hn Hd HM Hh Ht.
  pose proof (global_error_sup ns 1 f M 1 h t Hs ltac:(lia) Hn ltac:(lra) Hd HM) as G.
  assert (G' : Rabs (Iglobal ns 1 f t - f t) <= (1 + 1) * (M * h ^ 2 / INR (fact 2))).
  { apply G; [|exact Ht]. intros i Hi. rewrite (block_d1 _ _ Hi). cbn [fst snd]. replace (i + 1)%nat with (S i) by lia. split; [apply Hh, Hi|].
    intros w Hw. rewrite (proj1 (linear_grid_lebesgue ns i w Hs Hi Hw)). lra. }
  clear G. rename G' into G.
  change (INR (fact 2)) with (INR 2) in G. cbn [INR] in G. lra.
Qed.
Theorem linear_grid_error_lipschitz ns f M h hmin : sorted ns -> (1 < length ns)%nat -> 0 < hmin ->
  (forall w, nth 0 ns 0 <= w <= nth (length ns - 1) ns 0 -> forall k, (k <= 2)%nat -> ex_derive_n f k w) ->
  (forall w, nth 0 ns 0 < w < nth (length ns - 1) ns 0 -> Rabs (Derive_n f 2 w) <= M) ->
  (forall i, (i + 1 < length ns)%nat -> hmin <= nth (S i) ns 0 - nth i ns 0 <= h) ->
  forall u v, nth 0 ns 0 <= u <= nth (length ns - 1) ns 0 -> nth 0 ns 0 <= v <= nth (length ns - 1) ns 0 ->
  Rabs ((Iglobal ns 1 f u - f u) - (Iglobal ns 1 f v - f v)) <= (2 / hmin * (M * h ^ 2 / INR (fact 2)) + M * h ^ 1 / INR (fact 1)) * Rabs (u - v).
Proof.
  intros Hs Hn Hm Hd HM Hh.
  assert (L0 : 0 <= 2 / hmin) by (apply Rmult_le_pos; [lra | left; apply Rinv_0_lt_compat, Hm]).
  apply (global_error_lipschitz ns 1 f M (2 / hmin) h Hs ltac:(lia) Hn L0 Hd HM).
  intros i Hi. rewrite (block_d1 _ _ Hi). cbn [fst snd]. replace (i + 1)%nat with (S i) by lia. split; [apply Hh, Hi|].
  intros w Hw. rewrite (proj2 (linear_grid_lebesgue ns i w Hs Hi Hw)).
  destruct (Hh i Hi) as [Hlo _]. unfold Rdiv. apply Rmult_le_compat_l; [lra|]. apply Rinv_le_contravar; assumption.
Qed.
(* non-vacuity: the grid of GridExample, f = exp *)
Example linear_grid_example t : 1 / 4 <= t <= 1 -> Rabs (Iglobal gex 1 exp t - exp t) <= 3 * (1 / 2) ^ 2.
Proof.
  intros Ht. destruct grid_hypotheses_hold as (Hs & _ & Hn & _ & Hd & HM & Hb).
  apply (linear_grid_error_sup gex exp 3 (1 / 2) t Hs Hn).
  - intros w Hw. apply Hd. cbn [gex length Nat.sub nth] in Hw. cbn [gex nth]. lra.
  - intros w Hw. apply HM. cbn [gex length Nat.sub nth] in Hw. cbn [gex nth]. lra.
  - intros i Hi. destruct (Hb i Hi) as [Hh _]. rewrite (block_d1 _ _ Hi) in Hh. cbn [fst snd] in Hh. replace (i + 1)%nat with (S i) in Hh by lia. exact Hh.
  - cbn [gex length Nat.sub nth]. lra.
Qed.
(* the prediction itself: convolution of any kernel triple with the linear interpolant vs with f, no Lebesgue hypothesis left *)
Theorem prediction_error_linear_grid (k : rsl) ns f M h hmin x W Ws v w : sorted ns -> (1 < length ns)%nat -> 0 < hmin ->
  nth 0 ns 0 <= x -> 0 < x < 1 -> nth (length ns - 1) ns 0 = 1 ->
  (forall u, nth 0 ns 0 <= u <= 1 -> forall j, (j <= 2)%nat -> ex_derive_n f j u) ->
  (forall u, nth 0 ns 0 < u < 1 -> Rabs (Derive_n f 2 u) <= M) ->
  (forall i, (i + 1 < length ns)%nat -> hmin <= nth (S i) ns 0 - nth i ns 0 <= h) ->
  is_conv k (Iglobal ns 1 f) x v -> is_conv k f x w ->
  is_RInt_gen (fun z => Rabs (r_reg k z) / z) (at_point x) (at_left 1) W ->
  is_RInt_gen (fun z => Rabs (r_sing k z) * ((1 - z) / (z * z))) (at_point x) (at_left 1) Ws ->
  Rabs (v - w) <= (W + Rabs (r_loc k x)) * ((1 + 1) * (M * h ^ 2 / INR (fact 2)))
                  + Ws * ((2 / hmin * (M * h ^ 2 / INR (fact 2)) + M * h ^ 1 / INR (fact 1)) * x + (1 + 1) * (M * h ^ 2 / INR (fact 2))).
Proof.
  intros Hs Hn Hm Hx0 Hx Hlast Hd HM Hh Hv Hw HW HWs.
  assert (L0 : 0 <= 2 / hmin) by (apply Rmult_le_pos; [lra | left; apply Rinv_0_lt_compat, Hm]).
  apply (prediction_error_smooth_grid k ns 1 f M 1 (2 / hmin) h x W Ws v w Hs ltac:(lia) Hn ltac:(lra) L0 Hx0 Hx Hlast Hd HM); try assumption.
  intros i Hi. rewrite (block_d1 _ _ Hi). cbn [fst snd]. replace (i + 1)%nat with (S i) by lia. split; [apply Hh, Hi|].
  intros u Hu. destruct (linear_grid_lebesgue ns i u Hs Hi Hu) as [E1 E2]. rewrite E1, E2. split; [lra|].
  destruct (Hh i Hi) as [Hlo _]. unfold Rdiv. apply Rmult_le_compat_l; [lra|]. apply Rinv_le_contravar; assumption.
Qed.
(* refinement of linear grids converges uniformly, with an explicit mesh width: spacings <= min(1, eps/(M+1)) give a sup error <= eps *)
Theorem linear_grid_converges f M eps : 0 <= M -> 0 < eps -> exists delta, 0 < delta /\
  forall ns t, sorted ns -> (1 < length ns)%nat ->
  (forall w, nth 0 ns 0 <= w <= nth (length ns - 1) ns 0 -> forall k, (k <= 2)%nat -> ex_derive_n f k w) ->
  (forall w, nth 0 ns 0 < w < nth (length ns - 1) ns 0 -> Rabs (Derive_n f 2 w) <= M) ->
  (forall i, (i + 1 < length ns)%nat -> nth (S i) ns 0 - nth i ns 0 <= delta) ->
  nth 0 ns 0 <= t <= nth (length ns - 1) ns 0 -> Rabs (Iglobal ns 1 f t - f t) <= eps.
Proof.
  intros M0 He. set (q := eps / (M + 1)).
  assert (Hq : 0 < q) by (apply Rmult_lt_0_compat; [exact He | apply Rinv_0_lt_compat; lra]).
  assert (Eq : q * (M + 1) = eps) by (unfold q; field; lra).
  exists (Rmin 1 q). split; [apply Rmin_glb_lt; lra|].
  intros ns t Hs Hn Hd HM Hh Ht.
  eapply Rle_trans; [apply (linear_grid_error_sup ns f M (Rmin 1 q) t Hs Hn Hd HM Hh Ht)|].
  pose proof (Rmin_l 1 q) as L1. pose proof (Rmin_r 1 q) as L2.
  assert (P : 0 < Rmin 1 q) by (apply Rmin_glb_lt; lra).
  set (d := Rmin 1 q) in *. simpl pow. rewrite Rmult_1_r.
  assert (d * d <= q) by nra. nra.
Qed.
