(* Compat.v — executable model of input/compatibility.py::update on cards seen as insertion-ordered dictionaries:
   update_fns (through Thresholds.update_fns), update_scale_variations, update_target (through the regenerated target
   table), the alphaqed -> alphaem rename and QED -> order.  None models a raised exception (unknown scheme or target
   name, missing key).  Also a small heap model for "the caller's objects are not written to".
   Hand-written; tied by tools/corr/inputs.py. *)
From Coq Require Import ZArith List Bool String QArith.
From Yad Require Import Thresholds.
Import ListNotations.
Open Scope string_scope.

Inductive value :=
| VQ (q : Q) | VInf | VZ (z : Z) | VS (s : string) | VB (b : bool) | VNone
| VTarget (z a : Q)            (* {"Z": z, "A": a} *)
| VPair (a b : Z)              (* a tuple of two ints *)
| VOther (tag : Z).            (* anything else (lists, nested dicts): opaque, identified by a tag *)
Definition card := list (string * value).

Fixpoint aget (m : card) (k : string) : option value :=
  match m with [] => None | (k', v) :: r => if String.eqb k k' then Some v else aget r k end.
Fixpoint aset (m : card) (k : string) (v : value) : card :=
  match m with
  | [] => [(k, v)]
  | (k', v') :: r => if String.eqb k k' then (k, v) :: r else (k', v') :: aset r k v
  end.
Fixpoint apop (m : card) (k : string) : card :=
  match m with [] => [] | (k', v') :: r => if String.eqb k k' then r else (k', v') :: apop r k end.

Definition hq_names : list string := ["c"; "b"; "t"].
Definition kthr_value (a : kthr) (old : option value) : option value :=
  match a with KKeep => old | KZero => Some (VQ 0) | KInf => Some VInf end.

(* update_fns *)
Definition upd_fns (t : card) : option card :=
  match aget t "FNS", aget t "NfFF" with
  | Some (VS f), Some (VZ nf) =>
    match fns_of_string f with
    | None => None
    | Some fs =>
      let step (acc : card) (fa : string * (kthr * bool)) :=
        let '(fl, (a, zm)) := fa in
        let acc1 := match a with KKeep => acc | KZero => aset acc ("k" ++ fl ++ "Thr") (VQ 0) | KInf => aset acc ("k" ++ fl ++ "Thr") VInf end in
        aset acc1 ("ZM" ++ fl) (VB zm) in
      let t1 := fold_left step (combine hq_names (update_fns fs nf)) t in
      let t2 := match aget t1 "PTODIS" with
                | None | Some VNone => match aget t1 "PTO" with Some p => Some (aset t1 "PTODIS" p) | None => None end
                | _ => Some t1 end in
      match t2 with
      | None => None
      | Some t2 => Some (match aget t2 "FONLLParts" with None | Some VNone => aset t2 "FONLLParts" (VS "full") | _ => t2 end)
      end
    end
  | _, _ => None
  end.
Definition upd_sv (t : card) : card :=
  let t1 := match aget t "RenScaleVar" with None => aset t "RenScaleVar" (VB true) | _ => t end in
  match aget t1 "FactScaleVar" with None => aset t1 "FactScaleVar" (VB true) | _ => t1 end.
Definition upd_theory_tail (t : card) : option card :=
  let t1 := match aget t "alphaqed" with Some v => aset (apop t "alphaqed") "alphaem" v | None => t end in
  match aget t1 "QED" with
  | Some (VZ q) => match aget t1 "PTO" with Some (VZ p) => Some (aset (apop t1 "QED") "order" (VPair (p + 1) q)) | _ => None end
  | Some _ => None
  | None => Some t1
  end.
Definition update_theory (t : card) : option card :=
  match upd_fns t with None => None | Some t1 => upd_theory_tail (upd_sv t1) end.

(* update_target over a table name -> (Z, A) *)
Definition target_of (tbl : list (string * option Q * option Q)) (n : string) : option (Q * Q) :=
  match find (fun r => String.eqb (fst (fst r)) n) tbl with
  | Some (_, Some z, Some a) => Some (z, a)
  | _ => None
  end.
Definition update_obs (tbl : list (string * option Q * option Q)) (o : card) : option card :=
  match aget o "TargetDIS" with
  | Some (VS n) => match target_of tbl n with
                   | Some (z, a) => Some (aset (aset o "TargetDIS" (VTarget z a)) "TargetDISid" (VOther 0))
                   | None => None end
  | Some _ => Some o
  | None => None
  end.

(* ---------------------------------------------------------------- a heap of containers, for "inputs untouched" *)
(* a write: (address of the container written to, key) ; the caller owns a set of addresses *)
Definition heap := list (Z * card).
Fixpoint hget (h : heap) (a : Z) : option card :=
  match h with [] => None | (a', c) :: r => if (a =? a')%Z then Some c else hget r a end.
Fixpoint hset (h : heap) (a : Z) (c : card) : heap :=
  match h with [] => [(a, c)] | (a', c') :: r => if (a =? a')%Z then (a, c) :: r else (a', c') :: hset r a c end.
Inductive wop := WSet (a : Z) (k : string) (v : value) | WPop (a : Z) (k : string).
Definition waddr (w : wop) : Z := match w with WSet a _ _ | WPop a _ => a end.
Definition wapply (h : heap) (w : wop) : heap :=
  match w with
  | WSet a k v => match hget h a with Some c => hset h a (aset c k v) | None => hset h a [(k, v)] end
  | WPop a k => match hget h a with Some c => hset h a (apop c k) | None => h end
  end.
