(* CombTheorems.v — theorems about the Combiner model (C07, C12). *)
From Coq Require Import ZArith List Bool Field Lia String.
From Yad Require Import Base Couplings Weights Combiner.
Import ListNotations.

Section T.
  Context {fld : Fld}.
  Add Field FfC : Fth.
  Local Open Scope F_scope.

  (* ---------------------------------------------------------------- linear semantics *)
  (* A kernel contributes  partons[pid] * (convolution atoms of its class at its nf / heavy quark):
     the meaning of a kernel list is, per atom (sub-package, class, nf, heavy quark), the summed
     parton weight.  Two lists with the same meaning give the same operator (Assembly.v). *)
  Definition atom := (string * string * Z * Z)%type.
  Definition atom_of (k : kernel) : atom := (k_fam k, k_cls k, k_nf k, k_ihq k).
  Definition atom_eqb (a b : atom) : bool :=
    let '(f, c, n, h) := a in let '(f', c', n', h') := b in
    (String.eqb f f' && String.eqb c c' && (n =? n')%Z && (h =? h')%Z)%bool.
  Definition contrib (a : atom) (pid : Z) (k : kernel) : F :=
    if atom_eqb (atom_of k) a then pget (k_partons k) pid else f0.
  Definition sem (ks : list kernel) (a : atom) (pid : Z) : F := fsum (map (contrib a pid) ks).

  Lemma fsum_app l m : fsum (l ++ m) = fsum l + fsum m.
  Proof. induction l as [|x l IH]; cbn [fsum app]; [ring | rewrite IH; ring]. Qed.
  Lemma sem_app ks ks' a pid : sem (ks ++ ks') a pid = sem ks a pid + sem ks' a pid.
  Proof. unfold sem. rewrite map_app. apply fsum_app. Qed.
  Lemma sem_nil a pid : sem [] a pid = f0.
  Proof. reflexivity. Qed.

  Variable gw : Z -> ctype -> mask -> F.
  Variable gfl : Z -> Z -> ctype -> F.
  Variable prc : process.
  Variable rest : Z.
  Variable inv : inventory.
  Notation collect := (collect gw gfl prc rest inv).
  Notation collect_elems := (collect_elems gw gfl prc rest inv).
  Notation heavy_components := (heavy_components gw prc rest inv).
  Notation heavy_body := (heavy_body gw prc rest inv).
  Notation light_component := (light_component gw gfl prc rest inv).
  Notation heavylight_components := (heavylight_components gw gfl prc rest inv).

  Definition with_parts (c : ccfg) (p : fparts) : ccfg :=
    {| g_kind := g_kind c; g_family := g_family c; g_hq := g_hq c; g_nf := g_nf c;
       g_mc := g_mc c; g_mb := g_mb c; g_mt := g_mt c; g_parts := p; g_ffn0 := g_ffn0 c;
       g_pto := g_pto c; g_ptoe := g_ptoe c; g_Z := g_Z c; g_A := g_A c |}.
  Definition with_family (c : ccfg) (f : family) (hq : Z) : ccfg :=
    {| g_kind := g_kind c; g_family := f; g_hq := hq; g_nf := g_nf c;
       g_mc := g_mc c; g_mb := g_mb c; g_mt := g_mt c; g_parts := g_parts c; g_ffn0 := g_ffn0 c;
       g_pto := g_pto c; g_ptoe := g_ptoe c; g_Z := g_Z c; g_A := g_A c |}.

  (* ---------------------------------------------------------------- C07: FONLL parts *)
  Theorem fonll_parts_lists c kf :
    collect (with_parts c PFull) = Ok kf ->
    exists km kv, collect (with_parts c PMassless) = Ok km /\ collect (with_parts c PMassive) = Ok kv
                  /\ kf = (km ++ kv)%list.
  Proof.
    unfold Combiner.collect; cbn [with_parts g_parts g_family].
    change (light_component (with_parts c PFull)) with (light_component c).
    change (light_component (with_parts c PMassless)) with (light_component c).
    change (heavylight_components (with_parts c PFull)) with (heavylight_components c).
    change (heavylight_components (with_parts c PMassless)) with (heavylight_components c).
    change (heavy_components (with_parts c PFull)) with (heavy_components c).
    change (heavy_components (with_parts c PMassive)) with (heavy_components c).
    rewrite !andb_true_r, !andb_false_r.
    destruct (match g_family c with FamLight | FamTotal => true | FamHeavy => false end);
    destruct (match g_family c with FamHeavy => true | _ => false end);
    destruct (match g_family c with FamLight => false | _ => true end);
    cbn [obind];
    repeat match goal with
    | |- context [light_component c] => destruct (light_component c); cbn [obind]
    | |- context [heavylight_components c] => destruct (heavylight_components c); cbn [obind]
    | |- context [heavy_components c] => destruct (heavy_components c); cbn [obind]
    end; intros H; try discriminate H; injection H as <-;
    do 2 eexists; repeat split; cbn [app]; rewrite ?app_nil_r, ?app_assoc; reflexivity.
  Qed.

  Lemma apply_isospin_app z a l m : apply_isospin z a (l ++ m) = (apply_isospin z a l ++ apply_isospin z a m)%list.
  Proof. unfold apply_isospin. apply map_app. Qed.
  Lemma drop_empty_app l m : drop_empty (l ++ m) = (drop_empty l ++ drop_empty m)%list.
  Proof. unfold drop_empty. rewrite map_app, filter_app. reflexivity. Qed.

  Theorem fonll_parts c kf :
    collect_elems (with_parts c PFull) = Ok kf ->
    exists km kv, collect_elems (with_parts c PMassless) = Ok km /\ collect_elems (with_parts c PMassive) = Ok kv
                  /\ kf = (km ++ kv)%list
                  /\ forall a pid, sem kf a pid = sem km a pid + sem kv a pid.
  Proof.
    unfold Combiner.collect_elems. destruct (collect (with_parts c PFull)) as [k| |] eqn:E; cbn [obind]; intros H; try discriminate H.
    injection H as <-. destruct (fonll_parts_lists c k E) as (km & kv & -> & -> & ->). cbn [obind g_Z g_A with_parts].
    do 2 eexists; repeat split.
    - rewrite apply_isospin_app, drop_empty_app. reflexivity.
    - intros a pid. rewrite apply_isospin_app, drop_empty_app. apply sem_app.
  Qed.

  (* ---------------------------------------------------------------- C07: ZM-VFNS total = light *)
  Lemma concat_out_nil {A} (f : Z -> outcome (list A)) l :
    (forall x, In x l -> f x = Ok []) -> concat_out (map f l) = Ok [].
  Proof.
    induction l as [|x l IH]; cbn [map concat_out]; intros H; [reflexivity|].
    rewrite (H x (or_introl eq_refl)). cbn [obind]. rewrite IH; [reflexivity|].
    intros y Hy. apply H. right. exact Hy.
  Qed.
  Theorem zm_total_is_light c :
    g_mc c = false -> g_mb c = false -> g_mt c = false ->
    collect (with_family c FamTotal 0) = collect (with_family c FamLight 0).
  Proof.
    intros H4 H5 H6. unfold Combiner.collect; cbn [with_family g_family g_parts].
    assert (E : heavy_components (with_family c FamTotal 0) = Ok []).
    { unfold Combiner.heavy_components. apply concat_out_nil. intros x _.
      unfold heavy_sel, massive; cbn [with_family g_mc g_mb g_mt]. rewrite H4, H5, H6.
      destruct (x =? 4)%Z, (x =? 5)%Z, (x =? 6)%Z; rewrite ?andb_false_r; reflexivity. }
    change (light_component (with_family c FamTotal 0)) with (light_component (with_family c FamLight 0)).
    destruct (g_parts c); cbn [andb]; rewrite ?E; cbn [obind];
      destruct (light_component (with_family c FamLight 0)); cbn [obind app]; rewrite ?app_nil_r; reflexivity.
  Qed.

  (* ---------------------------------------------------------------- C07: fixed-flavour partition *)
  (* FFNS / FFN0 after update_fns: quarks above NfFF are massive, the others massless, nf = NfFF *)
  Definition ffns_cfg (c : ccfg) : Prop :=
    g_mc c = (g_nf c <? 4)%Z /\ g_mb c = (g_nf c <? 5)%Z /\ g_mt c = (g_nf c <? 6)%Z.
  Definition heavy_of (c : ccfg) (h : Z) : outcome (list kernel) :=
    if massive c h then collect (with_family c FamHeavy h) else Ok [].

  Theorem ffns_partition_lists c kt :
    (g_nf c = 3 \/ g_nf c = 4 \/ g_nf c = 5 \/ g_nf c = 6)%Z -> ffns_cfg c ->
    collect (with_family c FamTotal 0) = Ok kt ->
    exists kl k4 k5 k6,
      collect (with_family c FamLight 0) = Ok kl /\ heavy_of c 4 = Ok k4 /\ heavy_of c 5 = Ok k5 /\ heavy_of c 6 = Ok k6
      /\ kt = (kl ++ k4 ++ k5 ++ k6)%list.
  Proof.
    intros Hn (H4 & H5 & H6).
    unfold heavy_of, Combiner.collect, massive; cbn [with_family g_family g_parts g_hq].
    change (light_component (with_family c FamTotal 0)) with (light_component (with_family c FamLight 0)).
    unfold Combiner.heavylight_components, Combiner.heavy_components, heavy_sel, massive;
      cbn [with_family g_nf g_hq g_mc g_mb g_mt].
    rewrite H4, H5, H6.
    destruct (g_parts c); cbn [andb];
    destruct (light_component (with_family c FamLight 0)) as [kl| |]; cbn [obind];
    (destruct Hn as [-> | [-> | [-> | ->]]];
     [change (range_to_6 3) with [3;4;5;6]%Z | change (range_to_6 4) with [4;5;6]%Z
     | change (range_to_6 5) with [5;6]%Z | change (range_to_6 6) with [6]%Z];
     cbn [map in_masses Z.leb Z.ltb Z.eqb Z.compare Pos.compare Pos.compare_cont Pos.eqb andb orb negb concat_out obind];
     repeat match goal with |- context [heavy_body (with_family c ?f ?h) ?s] =>
       change (heavy_body (with_family c f h) s) with (heavy_body c s) end;
     repeat match goal with |- context [heavy_body c ?s] => destruct (heavy_body c s); cbn [obind concat_out app] end;
     intros H; try discriminate H; try (injection H as <-);
     do 4 eexists; repeat split; cbn [app]; rewrite ?app_nil_r; reflexivity).
  Qed.
End T.

(* ---------------------------------------------------------------- C12: isospin rotation *)
Section Iso.
  Context {fld : Fld}.
  Add Field FfI : Fth.
  Local Open Scope F_scope.

  Lemma pget_pset m k v k' : pget (pset m k v) k' = if (k' =? k)%Z then v else pget m k'.
  Proof.
    induction m as [|[a b] r IH]; cbn [pset pget].
    - destruct (k' =? k)%Z; reflexivity.
    - destruct (Z.eqb_spec k a) as [->|Hne]; cbn [pget].
      + destruct (k' =? a)%Z; reflexivity.
      + rewrite IH. destruct (Z.eqb_spec k' a) as [->|Hne'].
        * replace (a =? k)%Z with false by (symmetry; apply Z.eqb_neq; congruence). reflexivity.
        * reflexivity.
  Qed.

  (* contraction of a parton map with a PDF vector over the flavour basis *)
  Definition pids13 : list Z := [-6; -5; -4; -3; -2; -1; 21; 1; 2; 3; 4; 5; 6]%Z.
  Definition contract (m : pmap) (f : Z -> F) : F := fsum (map (fun p => pget m p * f p) pids13).
  (* the rotated PDF set: d -> (Z d + (A-Z) u)/A, u -> (Z u + (A-Z) d)/A, same for the antiquarks *)
  Definition rot (z a : F) (f : Z -> F) (p : Z) : F :=
    if (p =? 1)%Z then (z / a) * f 1%Z + ((a - z) / a) * f 2%Z
    else if (p =? 2)%Z then (z / a) * f 2%Z + ((a - z) / a) * f 1%Z
    else if (p =? -1)%Z then (z / a) * f (-1)%Z + ((a - z) / a) * f (-2)%Z
    else if (p =? -2)%Z then (z / a) * f (-2)%Z + ((a - z) / a) * f (-1)%Z
    else f p.

  Theorem isospin_contract z a m f : a <> f0 ->
    contract (iso_partons z a m) f = contract m (rot z a f).
  Proof.
    intros Ha. unfold contract, pids13, iso_partons, iso_pair, rot; cbn [map fsum].
    rewrite !pget_pset. cbn [Z.eqb Z.mul Pos.mul Pos.eqb Z.opp]. field. exact Ha.
  Qed.
  (* neutron: u and d exchanged *)
  Theorem neutron_is_swap m p : f1 <> f0 ->
    pget (iso_partons f0 f1 m) p =
      if (p =? 1)%Z then pget m 2 else if (p =? 2)%Z then pget m 1
      else if (p =? -1)%Z then pget m (-2) else if (p =? -2)%Z then pget m (-1) else pget m p.
  Proof.
    intros H1. unfold iso_partons, iso_pair. rewrite !pget_pset. cbn [Z.mul Pos.mul Z.opp].
    destruct (p =? 1)%Z eqn:E1; [apply Z.eqb_eq in E1; subst; cbn; field; exact H1|].
    destruct (p =? 2)%Z eqn:E2; [apply Z.eqb_eq in E2; subst; cbn; field; exact H1|].
    destruct (p =? -1)%Z eqn:E3; [apply Z.eqb_eq in E3; subst; cbn; field; exact H1|].
    destruct (p =? -2)%Z eqn:E4; [apply Z.eqb_eq in E4; subst; cbn; field; exact H1|].
    reflexivity.
  Qed.
  (* proton: nothing happens *)
  Theorem proton_is_identity m p : f1 <> f0 -> pget (iso_partons f1 f1 m) p = pget m p.
  Proof.
    intros H1. unfold iso_partons, iso_pair. rewrite !pget_pset. cbn [Z.mul Pos.mul Z.opp].
    destruct (p =? 1)%Z eqn:E1; [apply Z.eqb_eq in E1; subst; cbn; field; exact H1|].
    destruct (p =? 2)%Z eqn:E2; [apply Z.eqb_eq in E2; subst; cbn; field; exact H1|].
    destruct (p =? -1)%Z eqn:E3; [apply Z.eqb_eq in E3; subst; cbn; field; exact H1|].
    destruct (p =? -2)%Z eqn:E4; [apply Z.eqb_eq in E4; subst; cbn; field; exact H1|].
    reflexivity.
  Qed.
  (* every kernel of the list is rotated, and only its parton map changes *)
  Theorem apply_isospin_spec z a ks :
    map atom_of (apply_isospin z a ks) = map atom_of ks
    /\ map (@k_partons fld) (apply_isospin z a ks) = map (fun k => iso_partons z a (k_partons k)) ks.
  Proof.
    unfold apply_isospin. rewrite !map_map. split; apply map_ext; intros k; reflexivity.
  Qed.
End Iso.
