(* InterpTheorems.v — facts about the interpolation basis (C01, C02's Kronecker delta, C19). *)
From Coq Require Import ZArith List Bool Arith Lia Field.
From Yad Require Import Base Interp.
Import ListNotations.

(* every area lies inside its own block, and the block has d+1 nodes inside the grid (any n, d, i) *)
Theorem block_contains_area n d i : 1 <= d -> d < n -> i + 1 < n ->
  let '(a, b) := block n d i in a <= i /\ i + 1 <= b /\ b < n /\ b = a + d.
Proof.
  intros Hd Hn Hi. unfold block.
  assert (Hp : (if Nat.even d then d / 2 - 1 else d / 2) < d).
  { pose proof (Nat.div_lt d 2). destruct (Nat.even d); lia. }
  set (po2 := if Nat.even d then d / 2 - 1 else d / 2) in *.
  destruct (n <=? i - po2 + d) eqn:E.
  - apply Nat.leb_le in E. lia.
  - apply Nat.leb_gt in E. lia.
Qed.

Section T.
  Context {fld : Fld}.
  Add Field FfI : Fth.

  (* ---------------- Kronecker property, any number of pairwise distinct nodes *)
  Lemma lagv_self l vj j cur :
    (forall k, k < length l -> cur + k <> j -> (vj - nth k l f0)%F <> f0) -> lagv l vj j cur vj = f1.
  Proof.
    revert cur. induction l as [|v r IH]; intros cur H; cbn [lagv]; [reflexivity|].
    rewrite IH.
    - destruct (Nat.eqb cur j) eqn:E; [ring|].
      apply Nat.eqb_neq in E. specialize (H 0%nat). cbn [length nth] in H.
      field. apply H; lia.
    - intros k Hk Hne. specialize (H (S k)). cbn [length nth] in H. apply H; lia.
  Qed.
  Lemma lagv_other l vj j cur k : k < length l -> cur + k <> j -> lagv l vj j cur (nth k l f0) = f0.
  Proof.
    revert cur k. induction l as [|v r IH]; intros cur k Hk Hne; cbn [length] in Hk; [lia|].
    cbn [lagv]. destruct k as [|k'].
    - cbn [nth]. destruct (Nat.eqb cur j) eqn:E; [apply Nat.eqb_eq in E; lia|].
      rewrite (Fdiv_def Fth). ring.
    - cbn [nth]. rewrite (IH (S cur) k') by lia. ring.
  Qed.
  Lemma alldiff_nth vs : alldiff vs -> forall a b, a < length vs -> b < length vs -> a <> b -> (nth a vs f0 - nth b vs f0)%F <> f0.
  Proof.
    induction vs as [|v r IH]; intros H a b Ha Hb Hab; cbn [length] in *; [lia|].
    destruct H as [Hv Hr]. rewrite Forall_forall in Hv.
    destruct a as [|a'], b as [|b']; cbn [nth]; try lia.
    - apply (Hv (nth b' r f0)). apply nth_In. lia.
    - apply (Hv (nth a' r f0)). apply nth_In. lia.
    - apply IH; try assumption; lia.
  Qed.
  (* L_j(v_m) = delta_jm *)
  Theorem lagrange_kronecker vs j m : alldiff vs -> j < length vs -> m < length vs ->
    lagv vs (nth j vs f0) j 0 (nth m vs f0) = if Nat.eqb m j then f1 else f0.
  Proof.
    intros H Hj Hm. destruct (Nat.eqb m j) eqn:E.
    - apply Nat.eqb_eq in E. subst m. apply lagv_self. intros k Hk Hne. apply alldiff_nth; try assumption. lia.
    - apply Nat.eqb_neq in E. apply lagv_other; [assumption | lia].
  Qed.

  (* ---------------- reproduction of polynomials up to the degree, blocks of 2..5 nodes (interpolation degree 1..4) *)
  Ltac split_alldiff H :=
    cbn [alldiff] in H;
    repeat match goal with
           | H : _ /\ _ |- _ => destruct H
           | H : Forall _ (_ :: _) |- _ => inversion H; clear H; subst
           | H : Forall _ [] |- _ => clear H
           | H : True |- _ => clear H
           end.
  Theorem lagrange_reproduces vs k t : alldiff vs -> 2 <= length vs <= 5 -> k < length vs ->
    interp_pow vs k t = fpow t k.
  Proof.
    intros H Hl Hk.
    destruct vs as [|a [|b [|c [|e [|g [|h r]]]]]]; cbn [length] in Hl, Hk; try lia; split_alldiff H;
      do 5 (try destruct k as [|k]); try lia;
      cbv [interp_pow length seq map fsum nth lagv Nat.eqb fpow]; field; nz.
  Qed.
  (* k = 0: partition of unity *)
  Corollary lagrange_partition_of_unity vs t : alldiff vs -> 2 <= length vs <= 5 -> interp_pow vs 0 t = f1.
  Proof. intros H Hl. rewrite lagrange_reproduces by (try assumption; lia). reflexivity. Qed.

  (* ---------------- the same facts on the areas of a grid *)
  Lemma alldiff_tail v r : alldiff (v :: r) -> alldiff r.
  Proof. intros [_ H]. exact H. Qed.
  Lemma alldiff_skipn k vs : alldiff vs -> alldiff (skipn k vs).
  Proof. revert vs. induction k as [|k IH]; intros vs H; [exact H|]. destruct vs as [|v r]; [exact H|]. apply IH. exact (alldiff_tail _ _ H). Qed.
  Lemma Forall_firstn {A} (P : A -> Prop) k l : Forall P l -> Forall P (firstn k l).
  Proof. revert l. induction k as [|k IH]; intros l H; [constructor|]. destruct H; [constructor|]. cbn [firstn]. constructor; [assumption|apply IH; assumption]. Qed.
  Lemma alldiff_firstn k vs : alldiff vs -> alldiff (firstn k vs).
  Proof.
    revert vs. induction k as [|k IH]; intros vs H; [exact I|]. destruct vs as [|v r]; [exact I|].
    destruct H as [Hv Hr]. cbn [firstn alldiff]. split; [apply Forall_firstn; exact Hv | apply IH; exact Hr].
  Qed.
  Lemma block_nodes_alldiff ns d i : alldiff ns -> alldiff (block_nodes ns d i).
  Proof. intros H. unfold block_nodes. apply alldiff_firstn, alldiff_skipn, H. Qed.
  Lemma block_nodes_length ns d i : 1 <= d -> d < length ns -> i + 1 < length ns -> length (block_nodes ns d i) = S d.
  Proof.
    intros Hd Hn Hi. pose proof (block_contains_area (length ns) d i Hd Hn Hi) as B.
    unfold block_nodes. destruct (block (length ns) d i) as [a b]. cbn [fst]. rewrite firstn_length, skipn_length. lia.
  Qed.
  Lemma nth_firstn_lt {A} (l : list A) k i dflt : i < k -> nth i (firstn k l) dflt = nth i l dflt.
  Proof. revert k i. induction l as [|v r IH]; intros k i Hi; [destruct k, i; reflexivity|]. destruct k; [lia|]. destruct i; [reflexivity|]. cbn [firstn nth]. apply IH. lia. Qed.
  Lemma nth_skipn_add {A} (l : list A) k i dflt : nth i (skipn k l) dflt = nth (k + i) l dflt.
  Proof. revert l. induction k as [|k IH]; intros l; [reflexivity|]. destruct l as [|v r]; [destruct i; reflexivity|]. cbn [skipn Nat.add nth]. apply IH. Qed.
  Lemma block_nodes_nth ns d i m : 1 <= d -> d < length ns -> i + 1 < length ns ->
    fst (block (length ns) d i) <= m <= snd (block (length ns) d i) ->
    nth (m - fst (block (length ns) d i)) (block_nodes ns d i) f0 = nth m ns f0.
  Proof.
    intros Hd Hn Hi Hm. pose proof (block_contains_area (length ns) d i Hd Hn Hi) as B.
    unfold block_nodes. destruct (block (length ns) d i) as [a b]. cbn [fst snd] in *.
    rewrite nth_firstn_lt by lia. rewrite nth_skipn_add. f_equal. lia.
  Qed.
  (* on its own area, p_j is 1 at node j and 0 at every other node of the block; outside its blocks it is 0 *)
  Theorem area_poly_kronecker ns d i j m : alldiff ns -> 1 <= d -> d < length ns -> i + 1 < length ns ->
    in_block (length ns) d i m = true ->
    area_poly ns d i j (nth m ns f0) = if Nat.eqb m j then f1 else f0.
  Proof.
    intros H Hd Hn Hi Hm. pose proof (block_contains_area (length ns) d i Hd Hn Hi) as B.
    unfold area_poly. destruct (in_block (length ns) d i j) eqn:Hj.
    - unfold in_block in Hj, Hm. destruct (block (length ns) d i) as [a b] eqn:Eb.
      apply andb_true_iff in Hj, Hm. rewrite !Nat.leb_le in Hj, Hm.
      assert (Ea : fst (block (length ns) d i) = a) by (rewrite Eb; reflexivity).
      assert (Eb' : snd (block (length ns) d i) = b) by (rewrite Eb; reflexivity).
      rewrite <- (block_nodes_nth ns d i m) by (try assumption; rewrite Ea, Eb'; lia).
      rewrite Ea. rewrite lagrange_kronecker.
      + cbv beta iota in B. cbn [fst]. destruct (Nat.eqb_spec m j) as [E1|E1], (Nat.eqb_spec (m - a) (j - a)) as [E2|E2]; try reflexivity; lia.
      + apply block_nodes_alldiff, H.
      + cbv beta iota in B. cbn [fst]. rewrite block_nodes_length by assumption. lia.
      + cbv beta iota in B. cbn [fst]. rewrite block_nodes_length by assumption. lia.
    - destruct (Nat.eqb m j) eqn:E; [|reflexivity]. apply Nat.eqb_eq in E. subst. congruence.
  Qed.
  (* the two polynomials that meet at an inner node agree there: every basis function is continuous at the nodes,
     and p_j(x_m) = delta_jm whichever of the two areas is used *)
  Theorem basis_continuous_at_nodes ns d i j : alldiff ns -> 1 <= d -> d < length ns -> i + 2 < length ns ->
    area_poly ns d i j (nth (S i) ns f0) = area_poly ns d (S i) j (nth (S i) ns f0)
    /\ area_poly ns d i j (nth (S i) ns f0) = if Nat.eqb (S i) j then f1 else f0.
  Proof.
    intros H Hd Hn Hi.
    assert (A : in_block (length ns) d i (S i) = true).
    { pose proof (block_contains_area (length ns) d i Hd Hn ltac:(lia)) as B. unfold in_block.
      destruct (block (length ns) d i) as [a b]. apply andb_true_iff. rewrite !Nat.leb_le. lia. }
    assert (B : in_block (length ns) d (S i) (S i) = true).
    { pose proof (block_contains_area (length ns) d (S i) Hd Hn ltac:(lia)) as B. unfold in_block.
      destruct (block (length ns) d (S i)) as [a b]. apply andb_true_iff. rewrite !Nat.leb_le. lia. }
    rewrite (area_poly_kronecker ns d i j (S i)) by (try assumption; lia).
    rewrite (area_poly_kronecker ns d (S i) j (S i)) by (try assumption; lia).
    split; reflexivity.
  Qed.
  (* on every area the block reproduces the polynomials up to the interpolation degree (degree 1..4) *)
  Theorem area_reproduces ns d i k t : alldiff ns -> 1 <= d <= 4 -> d < length ns -> i + 1 < length ns -> k <= d ->
    interp_pow (block_nodes ns d i) k t = fpow t k.
  Proof.
    intros H Hd Hn Hi Hk. apply lagrange_reproduces.
    - apply block_nodes_alldiff, H.
    - rewrite block_nodes_length by (try assumption; lia). lia.
    - rewrite block_nodes_length by (try assumption; lia). lia.
  Qed.
End T.
