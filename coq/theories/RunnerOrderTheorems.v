(* RunnerOrderTheorems.v — the result list of Runner.get_result is in the order of the request, whatever the Q2 of the points
   (C14: independence of the listing order). *)
From Coq Require Import ZArith List Bool QArith Qcanon Arith Lia Permutation.
From Yad Require Import Base RunnerOrder.
Import ListNotations.
Local Open Scope nat_scope.

Lemma insert_perm p l : Permutation (insert p l) (p :: l).
Proof.
  induction l as [|q r IH]; cbn [insert]; [reflexivity|].
  destruct (Qc_leb (snd q) (snd p)); [|reflexivity].
  rewrite IH. apply perm_swap.
Qed.
Lemma fold_insert_perm ps acc : Permutation (fold_left (fun a p => insert p a) ps acc) (ps ++ acc).
Proof.
  revert acc. induction ps as [|p ps IH]; intros acc; cbn [fold_left app]; [reflexivity|].
  rewrite IH. rewrite (insert_perm p acc). symmetry. apply Permutation_middle.
Qed.
Lemma map_fst_combine' {A B} (l : list A) (m : list B) : length l = length m -> map fst (combine l m) = l.
Proof. revert m. induction l as [|a l IH]; intros [|b m] H; cbn [combine map fst length] in *; try reflexivity; try discriminate. rewrite IH by lia. reflexivity. Qed.
Lemma sorted_requests_perm q2s : Permutation (map fst (sorted_requests q2s)) (seq 0 (length q2s)).
Proof.
  unfold sorted_requests. rewrite fold_insert_perm, app_nil_r.
  rewrite map_fst_combine' by (rewrite seq_length; reflexivity). reflexivity.
Qed.
Lemma evals_emit prev l : evals (emit prev l) = map fst l.
Proof.
  revert prev. induction l as [|[i q] r IH]; intros prev; cbn [emit map fst evals flat_map]; [reflexivity|].
  unfold evals in *. rewrite flat_map_app. cbn [flat_map app]. rewrite IH.
  destruct prev as [q0|]; [destruct (Qc_eqb q0 q)|]; reflexivity.
Qed.
(* every request is evaluated exactly once *)
Theorem every_request_once q2s : Permutation (evals (plan q2s)) (seq 0 (length q2s)).
Proof. unfold plan. rewrite evals_emit. apply sorted_requests_perm. Qed.

(* storing at pairwise different slots commutes: only the set of evaluated indices matters *)
Lemma store_length {A} (l : list (option A)) i v : length (store l i v) = length l.
Proof. revert i. induction l as [|x r IH]; intros [|j]; cbn [store length]; try reflexivity. rewrite IH. reflexivity. Qed.
Lemma nth_store {A} (l : list (option A)) i j v : nth j (store l i v) None = if Nat.eqb i j then (if Nat.ltb i (length l) then Some v else None) else nth j l None.
Proof.
  revert i j. induction l as [|x r IH]; intros i j; cbn [store length].
  - destruct (Nat.eqb i j); destruct j; reflexivity.
  - destruct i as [|i'], j as [|j']; cbn [store nth Nat.eqb]; try reflexivity.
    rewrite IH. destruct (Nat.eqb i' j'); [|reflexivity].
    change (S i' <? S (length r)) with (i' <? length r). reflexivity.
Qed.
Lemma run_plan_nth {A} (vals : nat -> A) ops slots j : j < length slots ->
  nth j (fold_left (fun s op => match op with Eval i => store s i (vals i) | Drop => s end) ops slots) None
  = if existsb (Nat.eqb j) (evals ops) then Some (vals j) else nth j slots None.
Proof.
  revert slots. induction ops as [|op ops IH]; intros slots Hj; cbn [fold_left evals flat_map existsb]; [reflexivity|].
  destruct op as [i|]; cbn [app].
  - rewrite IH by (rewrite store_length; exact Hj). cbn [existsb]. fold (evals ops).
    destruct (existsb (Nat.eqb j) (evals ops)) eqn:E.
    + rewrite orb_true_r. reflexivity.
    + rewrite orb_false_r. rewrite nth_store. rewrite (Nat.eqb_sym j i).
      destruct (Nat.eqb i j) eqn:Eij; [|reflexivity]. apply Nat.eqb_eq in Eij. subst i.
      replace (j <? length slots) with true by (symmetry; apply Nat.ltb_lt; exact Hj). reflexivity.
  - fold (evals ops). apply IH. exact Hj.
Qed.
(* the output is in the order of the request: slot i holds the value of request i, for any Q2 values (ties, cycles, ...) *)
Theorem results_in_request_order {A} (vals : nat -> A) q2s :
  results vals q2s = map (fun i => Some (vals i)) (seq 0 (length q2s)).
Proof.
  apply nth_ext with (d := None) (d' := None).
  - unfold results, run_plan. rewrite map_length, seq_length.
    assert (H : forall ops (s : list (option A)), length (fold_left (fun s op => match op with Eval i => store s i (vals i) | Drop => s end) ops s) = length s).
    { induction ops as [|op ops IH]; intros s; cbn [fold_left]; [reflexivity|]. rewrite IH. destruct op; [apply store_length | reflexivity]. }
    rewrite H, repeat_length. reflexivity.
  - intros j Hj. unfold results, run_plan in *.
    assert (Hn : j < length q2s).
    { assert (H : forall ops (s : list (option A)), length (fold_left (fun s op => match op with Eval i => store s i (vals i) | Drop => s end) ops s) = length s).
      { induction ops as [|op ops IH]; intros s; cbn [fold_left]; [reflexivity|]. rewrite IH. destruct op; [apply store_length | reflexivity]. }
      rewrite H, repeat_length in Hj. exact Hj. }
    rewrite run_plan_nth by (rewrite repeat_length; exact Hn).
    assert (Hin : existsb (Nat.eqb j) (evals (plan q2s)) = true).
    { apply existsb_exists. exists j. split; [|apply Nat.eqb_refl].
      apply (Permutation_in j (Permutation_sym (every_request_once q2s))). apply in_seq. lia. }
    rewrite Hin. rewrite (nth_indep _ None (Some (vals 0))) by (rewrite map_length, seq_length; exact Hn).
    rewrite (map_nth (fun i => Some (vals i)) (seq 0 (length q2s)) 0 j). rewrite seq_nth by exact Hn. reflexivity.
Qed.
