(* KTactics.v — definitions and tactics the generated kernel obligations (gen/ob/*.v) are stated and closed with. *)
From Coq Require Import Reals List Lra ZArith Bool Psatz.
From Coquelicot Require Import Coquelicot.
From Interval Require Import Tactic.
From Yad Require Import Expr.
Import ListNotations.
Open Scope R_scope.

(* sum_k c_k L^k *)
Fixpoint polyL (c : list R) (L : R) : R := match c with [] => 0 | a :: r => a + L * polyL r L end.

(* |d_k| <= tol (1 + |q_k|) for every k *)
Fixpoint all_small (tol : R) (d q : list R) : Prop :=
  match d, q with
  | [], [] => True
  | x :: d', y :: q' => Rabs x <= tol * (1 + Rabs y) /\ all_small tol d' q'
  | _, _ => False
  end.

(* an expression that does not mention z denotes a constant function of z *)
Fixpoint no_z (e : expr) : bool :=
  match e with
  | Zv => false
  | Cst _ _ | Arg _ | Pi | Zeta3 => true
  | Add x y | Sub x y | Mul x y | Div x y => no_z x && no_z y
  | Neg x | PowN x _ | Ln x | Li2 x | Sqrt x | Snp _ _ x | SnpIm _ _ x => no_z x
  end.
Lemma no_z_constant sp e a x x' : no_z e = true -> eval sp e x a = eval sp e x' a.
Proof.
  induction e; cbn [no_z eval]; intros H; try reflexivity; try discriminate;
    try (apply andb_prop in H; destruct H as [H1 H2]; rewrite (IHe1 H1), (IHe2 H2); reflexivity);
    try (rewrite (IHe H); reflexivity).
Qed.

(* analytic properties of the special functions the obligations rely on: the (real part of the) dilogarithm,
   d/du Li2(u) = - ln|1-u| / u  for u <> 0, 1 (the code's li2 returns the real part for u > 1) *)
Record special_ok (sp : special) : Prop := {
  li2_derive : forall u, u <> 0 -> u <> 1 -> is_derive (sp_li2 sp) u (- ln (Rabs (1 - u)) / u);
}.

Lemma lnabs_eq_x t x : t = x -> 0 < x -> ln (Rabs t) = ln x.
Proof. intros -> H. rewrite Rabs_pos_eq by lra. reflexivity. Qed.
Lemma lnabs_eq_negratio t x : t = - (x * / (1 + - x)) -> 0 < x < 1 -> ln (Rabs t) = ln x + - ln (1 + - x).
Proof.
  intros -> H. rewrite Rabs_Ropp, Rabs_pos_eq.
  - rewrite ln_mult, ln_Rinv; try lra. apply Rinv_0_lt_compat. lra.
  - apply Rmult_le_pos; [lra | left; apply Rinv_0_lt_compat; lra].
Qed.
Lemma inv_gt_1 x : 0 < x < 1 -> 1 < / (1 + - x).
Proof. intros H. rewrite <- Rinv_1 at 1. apply Rinv_lt_contravar; lra. Qed.

(* ---------------------------------------------------------------- tactics *)
Ltac k_unfold e1 := cbn [eval e1 nth polyL].

(* eval sing = polyL q (ln(1-x)) / (1-x) *)
Ltac k_form se qc :=
  cbn [eval se cst_val]; unfold qc; cbn [polyL]; unfold Rminus, Rdiv; field; lra.

(* loc' = - sing + polyL d (ln(1-x))/(1-x) *)
Ltac k_derive_resid le se dc :=
  cbn [eval le se cst_val]; unfold dc; cbn [polyL]; auto_derive;
  [ repeat split; lra | unfold Rminus, Rdiv; field; lra ].

Ltac k_small H :=
  destruct H as [-> | [-> | [-> | ->]]]; cbn [all_small nth polyL]; repeat split; try exact I; interval.

(* rewrite every ln |t| whose argument is, on 0 < x < 1, x itself or -x/(1-x) *)
Ltac k_lnabs x Hx :=
  repeat match goal with
  | |- context [ln (Rabs ?t)] =>
      first [ rewrite (lnabs_eq_x t x) by (first [ring | field; lra | lra])
            | rewrite (lnabs_eq_negratio t x) by (first [field; lra | exact Hx]) ]
  end.

(* loc' = - sing exactly; dilogarithms are differentiated through the hypothesis *)
Ltac k_derive_exact sp Hsp le se :=
  cbn [eval le se cst_val];
  let inst := fresh "inst" in
  pose (inst := Build_UnaryDiff' (sp_li2 sp) (fun u => - ln (Rabs (1 - u)) / u) (fun u => u <> 0 /\ u <> 1)
                                 (fun u H => li2_derive sp Hsp u (proj1 H) (proj2 H)));
  match goal with Hx : 0 < ?x < 1 |- _ =>
    pose proof (inv_gt_1 x Hx);
    auto_derive;
    [ repeat split; lra
    | k_lnabs x Hx;
      repeat match goal with |- context [ln ?t] => progress ring_simplify t end;
      unfold Rminus, Rdiv; field; repeat split; lra ]
  end.

(* closures over instance state (tools/pyinst.py): args[0] = l in (0,1) (lambda = 1/(1+m2/Q2) of the heavy CC channels);
   the only dilogarithm is Li2(1 - (1-x) l/(1 - x l)) of r_integral *)
Ltac k_derive_inst sp Hsp le se l x Hl Hx :=
  cbn [eval le se cst_val nth];
  let inst := fresh "inst" in
  pose (inst := Build_UnaryDiff' (sp_li2 sp) (fun u => - ln (Rabs (1 - u)) / u) (fun u => u <> 0 /\ u <> 1)
                                 (fun u H => li2_derive sp Hsp u (proj1 H) (proj2 H)));
  let Hlx := fresh "Hlx" in let Hlx' := fresh "Hlx'" in let Hw := fresh "Hw" in
  assert (Hlx : 0 < 1 + - (x * l)) by nra;
  assert (Hlx' : 0 < 1 + - (l * x)) by nra;
  assert (Hw : 0 < (1 + - x) * l * / (1 + - (x * l)) < 1)
    by (split; [ apply Rmult_lt_0_compat; [nra | apply Rinv_0_lt_compat; exact Hlx]
               | apply Rmult_lt_reg_r with (1 + - (x * l)); [exact Hlx|]; rewrite Rmult_assoc, Rinv_l by lra; nra ]);
  auto_derive;
  [ repeat split; try lra; try (apply Rmult_integral_contrapositive_currified; lra)
  | try (replace (1 - (1 + - ((1 + - x) * l * / (1 + - (x * l))))) with ((1 + - x) * l * / (1 + - (x * l))) by ring;
         rewrite (Rabs_pos_eq _ (Rlt_le _ _ (proj1 Hw)));
         (rewrite ln_mult; [| apply Rmult_lt_0_compat; lra | apply Rinv_0_lt_compat; lra]);
         rewrite ln_mult by lra; rewrite ln_Rinv by lra);
    replace (1 - l * x) with (1 + - (x * l)) by ring; replace (1 - x) with (1 + - x) by ring;
    unfold Rminus, Rdiv; field; repeat split; try lra ].

(* ---------------------------------------------------------------- first moments (C04) *)
Ltac m_split re := cbn [eval re cst_val nth]; unfold Rminus, Rdiv; field.
Ltac m_split_upper re u :=
  cbn [eval re cst_val nth];
  repeat match goal with |- context [ln ?t] => progress ring_simplify t end;
  unfold Rminus, Rdiv; field.
Ltac m_loc0 le :=
  cbn [eval le cst_val nth];
  repeat match goal with |- context [ln ?t] => progress ring_simplify t end;
  rewrite ?ln_1; unfold Rminus, Rdiv; field.
Ltac m_enclose n :=
  match goal with |- context [RInt_gen ?f (at_right 0) (at_point (1 / 2))] =>
    let H := fresh "Henc" in
    integral_intro (RInt_gen f (at_right 0) (at_point (1 / 2))) with (i_relwidth 30) as H;
    let I := fresh "I" in set (I := RInt_gen f (at_right 0) (at_point (1 / 2))) in *
  end.
Ltac m_finish H := destruct H as [-> | [-> | [-> | ->]]]; apply Rabs_le; split; lra.

(* ---------------------------------------------------------------- closed forms (C04) *)
(* identity of a regenerated kernel with a hand-written closed form on 0 < z < 1 *)
Ltac k_closed ke :=
  cbn [eval ke cst_val];
  match goal with Hz : 0 < ?z < 1 |- _ =>
    repeat match goal with |- context [ln (?a / ?b)] => rewrite (ln_div a b) by lra end;
    unfold Rminus, Rdiv; field; repeat split; lra
  end.
