(* PDG.v — the specification the LO weights are compared with, written from the PDG review
   "Structure functions" (eqs. for F2^{gamma,gammaZ,Z}, xF3^{gammaZ,Z} and the e-/e+ combinations)
   and docs/source/theory/fact.rst; independent of the code's way of assembling them.       *)
From Coq Require Import ZArith List Bool.
From Yad Require Import Base.
Import ListNotations.

Section PDG.
  Context {fld : Fld}.
  Local Open Scope F_scope.

  (* quark quantum numbers: up-type (u c t = pid 2 4 6), down-type (d s b = pid 1 3 5) *)
  Definition up_type (q : Z) : bool := Z.even q.
  Definition e_q (q : Z) : F := if up_type q then two / three else - (f1 / three).
  Definition gA_q (q : Z) : F := if up_type q then f1 / two else - (f1 / two).
  Definition gV_q (s2w : F) (q : Z) : F := gA_q q - two * e_q q * s2w.
  (* charged lepton: gV = -1/2 + 2 sin^2, gA = -1/2 *)
  Definition gV_e (s2w : F) : F := - (f1 / two) + two * s2w.
  Definition gA_e : F := - (f1 / two).

  (* eta_gammaZ = Q2/(Q2+MZ2) / (4 sin^2 cos^2) / (1 - Delta),  eta_Z = eta_gammaZ^2 *)
  Definition eta_gZ (s2w MZ2 Q2 delta : F) : F :=
    Q2 / (Q2 + MZ2) / (four * s2w * (f1 - s2w)) / (f1 - delta).

  (* coefficient of x (q + qbar) in F2^NC for e^-(sgn = -1) / e^+ (sgn = +1), helicity lam *)
  Definition F2_coeff (s2w eta : F) (sgn lam : F) (q : Z) : F :=
    e_q q * e_q q
    - (gV_e s2w + sgn * lam * gA_e) * eta * (two * e_q q * gV_q s2w q)
    + (gV_e s2w * gV_e s2w + gA_e * gA_e + two * sgn * lam * gV_e s2w * gA_e) * (eta * eta)
      * (gV_q s2w q * gV_q s2w q + gA_q q * gA_q q).
  (* coefficient of x (q - qbar) in xF3^NC *)
  Definition F3_coeff (s2w eta : F) (sgn lam : F) (q : Z) : F :=
    - (gA_e + sgn * lam * gV_e s2w) * eta * (two * e_q q * gA_q q)
    + (two * gV_e s2w * gA_e + sgn * lam * (gV_e s2w * gV_e s2w + gA_e * gA_e)) * (eta * eta)
      * (two * gV_q s2w q * gA_q q).
  (* electromagnetic: only the photon term *)
  Definition F2_coeff_em (q : Z) : F := e_q q * e_q q.

  (* charged current: the CKM transition (i = up-type row u c t, j = down-type column d s b)
     belongs to the heaviest quark it involves, in the mass ordering d,u,s < c < b < t. *)
  Inductive hlabel := Hlight | Hc | Hb | Ht.
  Definition label_of (row col : nat) : hlabel :=
    match row, col with
    | 2%nat, _ => Ht          (* any transition with a top *)
    | _, 2%nat => Hb          (* u-b, c-b *)
    | 1%nat, _ => Hc          (* c-d, c-s *)
    | _, _ => Hlight          (* u-d, u-s *)
    end.
End PDG.
