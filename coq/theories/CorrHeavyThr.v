(* CorrHeavyThr.v — agreement predicates for tools/corr/thresholds_hq.py *)
From Coq Require Import ZArith QArith Bool List Qabs.
From Yad Require Import HeavyThr.
Import ListNotations.
Open Scope Q_scope.
Definition qclose (tol a b : Q) : bool := Qle_bool (Qabs (a - b)) (tol * (1 + Qabs b)).
(* neutral current: all channels/orders at (x, Q2, m2): is the RSL empty; closure values at some z: exactly zero?; xi; eta at those z *)
Record nccase := { n_Q2 : Q; n_m2 : Q; n_x : Q; n_all_empty : bool; n_none_empty : bool;
                   n_z : list (Q * bool (* value is exactly 0.0 *) * Q (* _eta(z) *)); n_xi : Q }.
Definition nccase_ok (c : nccase) : bool :=
  let b := is_below (n_Q2 c) (n_m2 c) (n_x c) in
  (if b then n_all_empty c else n_none_empty c)
  && Qeq_bool (xi (n_Q2 c) (n_m2 c)) (n_xi c)
  && forallb (fun t => let '(z, zero, e) := t in
                       (if is_below (n_Q2 c) (n_m2 c) z then zero else true) && qclose (1 # 1000000000000) (eta (n_Q2 c) (n_m2 c) z) e) (n_z c).
(* charged current: convolution point and the empty-domain rule of conv.convolution *)
Record cccase := { c_Q2 : Q; c_m2 : Q; c_x : Q; c_cp : Q; c_conv_zero : bool }.
Definition cccase_ok (c : cccase) : bool :=
  qclose (1 # 100000000000000) (cc_point (c_Q2 c) (c_m2 c) (c_x c)) (c_cp c)
  && Bool.eqb (conv_domain_empty (c_cp c)) (c_conv_zero c).
