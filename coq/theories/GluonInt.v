(* GluonInt.v — C08, the NLO gluon channel of CC F2, FL, F3 as a distribution: massive minus asymptotic coefficient function integrated against
   any bounded PDF over [x, 1) (improper integral: ln(1-z) terms), with the rate (1-l)(1 + |ln(1-l)|). *)
From Coq Require Import Reals List Lra ZArith Psatz.
From Coquelicot Require Import Coquelicot.
From Yad Require Import Expr GluonLimit Conv ConvTheorems ConvGen QuarkNLOLimit QuarkNLOInt.
From YadGen Require Import InstKernels.
Import ListNotations.
Open Scope R_scope.

(* two kernels without singular and local part whose regular parts differ pointwise by at most
   c0 + c1 (-ln(1-z)) + c4 /(1 - l z) + c5 (ln(1 - l z) - ln(1-z)) on (x, 1) *)
Lemma reg_only_distribution (k1 k2 : rsl) l x p G c0 c1 c4 c5 v w : 1 / 2 <= l < 1 -> 0 < x < 1 ->
  (forall z, r_sing k1 z = 0) -> (forall z, r_sing k2 z = 0) -> (forall z, r_loc k1 z = 0) -> (forall z, r_loc k2 z = 0) ->
  (forall z, x <= z < 1 -> Rabs (r_reg k1 z - r_reg k2 z) <= c0 + c1 * (- ln (1 - z)) + c4 * / (1 - l * z) + c5 * (ln (1 - l * z) - ln (1 - z))) ->
  (forall u, x <= u <= 1 -> Rabs (p u) <= G) ->
  is_conv k1 p x v -> is_conv k2 p x w ->
  Rabs (v - w) <= G / x * ((c0 * 1 - c0 * x) + c1 * (1 + Fex x) + c4 * (Gl l 1 - Gl l x) + c5 * int_L l x).
Proof.
  intros Hl Hx Hs1 Hs2 Hl1 Hl2 Hb Hg [lv [Hv ->]] [lw [Hw ->]].
  rewrite Hl1, Hl2. replace (lv + p x * 0 - (lw + p x * 0)) with (lv - lw) by ring.
  assert (G0 : 0 <= G) by (eapply Rle_trans; [apply Rabs_pos | apply (Hg x); lra]).
  assert (Hrange : filter_prod (at_point x) (at_left 1) (fun ab => fst ab = x /\ x < snd ab < 1)).
  { apply (Filter_prod _ _ _ (fun a => a = x) (fun b => x < b < 1)); [reflexivity | | intros a b Ha Hb'; cbn; split; assumption].
    exists (mkposreal (1 - x) ltac:(lra)). intros y Hy Hy1. unfold ball in Hy; cbn in Hy; unfold AbsRing_ball, abs, minus, plus, opp in Hy; cbn in Hy.
    apply Rabs_def2 in Hy. lra. }
  set (A := G / x). assert (A0 : 0 <= A) by (unfold A; apply Rmult_le_pos; [lra | left; apply Rinv_0_lt_compat; lra]).
  set (bf := fun z => A * (c0 + c1 * (- ln (1 - z)) + c4 * / (1 - l * z) + c5 * (ln (1 - l * z) - ln (1 - z)))).
  change (norm (V := R_NormedModule) (lv - lw) <= A * (c0 * 1 - c0 * x + c1 * (1 + Fex x) + c4 * (Gl l 1 - Gl l x) + c5 * int_L l x)).
  apply (RInt_gen_norm (V := R_CompleteNormedModule) (Fa := at_point x) (Fb := at_left 1)
           (fun z => minus (integrand k1 p x z) (integrand k2 p x z)) bf (lv - lw)).
  - apply (filter_imp (fun ab => fst ab = x /\ x < snd ab < 1)); [|exact Hrange]. intros [a b] [Ha Hb']; cbn in *; lra.
  - apply (filter_imp (fun ab => fst ab = x /\ x < snd ab < 1)); [|exact Hrange]. intros [a b] [Ha Hb'] z Hz; cbn [fst snd] in *. subst a.
    change (Rabs (integrand k1 p x z + - integrand k2 p x z) <= bf z). unfold integrand. rewrite Hs1, Hs2.
    replace (r_reg k1 z * (p (x / z) / z) + 0 * (p (x / z) / z - p x) + - (r_reg k2 z * (p (x / z) / z) + 0 * (p (x / z) / z - p x)))
      with ((r_reg k1 z - r_reg k2 z) * (p (x / z) / z)) by ring.
    assert (Hzi : 0 < / z <= / x) by (split; [apply Rinv_0_lt_compat; lra | apply Rinv_le_contravar; lra]).
    assert (Hu : x <= x / z <= 1).
    { split.
      - apply Rmult_le_reg_r with z; [lra|]. unfold Rdiv. rewrite Rmult_assoc, Rinv_l by lra. nra.
      - apply Rmult_le_reg_r with z; [lra|]. unfold Rdiv. rewrite Rmult_assoc, Rinv_l by lra. lra. }
    assert (P1 : Rabs (p (x / z) / z) <= A).
    { unfold Rdiv. rewrite Rabs_mult, (Rabs_pos_eq (/ z)) by lra. unfold A, Rdiv. apply Rmult_le_compat; try lra; [apply Rabs_pos | apply Hg, Hu]. }
    rewrite Rabs_mult. unfold bf. rewrite Rmult_comm. apply Rmult_le_compat; try apply Rabs_pos; [exact P1 | apply Hb; lra].
  - apply (is_RInt_gen_minus (V := R_NormedModule)); assumption.
  - unfold bf, int_L. evar_last.
    + apply (is_RInt_gen_scal (V := R_NormedModule) _ A).
      apply (is_RInt_gen_plus (V := R_NormedModule)); [apply (is_RInt_gen_plus (V := R_NormedModule)); [apply (is_RInt_gen_plus (V := R_NormedModule))|]|].
      * apply (int_const c0 x). lra.
      * apply (is_RInt_gen_scal (V := R_NormedModule) _ c1). apply (is_RInt_gen_opp (V := R_NormedModule)). apply (int_ln_1mz x Hx).
      * apply (is_RInt_gen_scal (V := R_NormedModule) _ c4). apply (int_inv_1mlz l x Hl Hx).
      * apply (is_RInt_gen_scal (V := R_NormedModule) _ c5).
        apply (is_RInt_gen_minus (V := R_NormedModule)); [apply (int_ln_1mlz l x Hl Hx) | apply (int_ln_1mz x Hx)].
    + unfold scal, plus, minus, opp; cbn. unfold mult; cbn. ring.
Qed.

(* ---------------- sharp pointwise bounds for the three gluon differences (integrable up to z = 1) *)
Lemma Dhalf_bound_sharp z l : 0 < z < 1 -> 1 / 2 <= l < 1 ->
  Rabs (Dhalf z l) <= (1 - l) * (8 + 12 * (- ln (1 - z) - ln z) + 12 * (- ln (1 - l))) + (1 - l) * / (1 - l * z).
Proof.
  intros Hz Hl. unfold Dhalf. cbv zeta.
  destruct (log_facts z l Hz Hl) as (Ha & Hb & Hc & Hd & He & Hcd & _).
  assert (Hlz : 0 < 1 - l * z) by nra.
  set (a := ln l) in *. set (b := ln (1 - l * z)) in *. set (c := ln (1 - l)) in *. set (d := ln z) in *. set (e := ln (1 - z)) in *.
  set (p := (z ^ 2 + (1 - z) ^ 2) / 2).
  assert (Hp : 0 <= p <= 1 / 2).
  { unfold p. assert (0 <= z * z <= 1) by (split; nra). assert (0 <= (1 - z) * (1 - z) <= 1) by (split; nra). simpl. nra. }
  set (T1 := - 2 * p * a). set (T2 := (12 * (1 - l) ^ 2 - 18 * (1 - l)) * z * (1 - z)).
  set (T3 := (1 - l) / (1 - l * z)). set (T4 := (6 * l - 12 * l * l * z) * (1 - l) * z * (b - c - d)).
  assert (B1 : Rabs T1 <= 2 * (1 - l)) by (unfold T1; apply Rabs_le; split; nra).
  assert (Hzz : 0 <= z * (1 - z) <= 1 / 4).
  { pose proof (pow2_ge_0 (z - 1 / 2)) as Hq. simpl in Hq. split; nra. }
  assert (B2 : Rabs T2 <= 6 * (1 - l)).
  { unfold T2. set (u := 1 - l). assert (Hu : 0 < u <= 1 / 2) by (unfold u; lra).
    set (q := 12 * u ^ 2 - 18 * u). assert (Hq : - 18 * u <= q <= 0) by (unfold q; simpl; split; nra).
    set (w := z * (1 - z)) in *. replace (q * z * (1 - z)) with (q * w) by (unfold w; ring).
    apply Rabs_le. split; nra. }
  assert (B3 : Rabs T3 <= (1 - l) * / (1 - l * z)).
  { unfold T3. rewrite Rabs_pos_eq by (apply Rlt_le, Rdiv_lt_0_compat; lra). unfold Rdiv. lra. }
  assert (B4 : Rabs T4 <= 12 * (1 - l) * (- e - d - c)).
  { unfold T4. set (k := 6 * l - 12 * l * l * z). assert (Hk : -12 <= k <= 6) by (unfold k; split; nra).
    set (g := b - c - d). assert (Hg : 0 <= g <= - e - d - c) by (unfold g; split; lra).
    replace (k * (1 - l) * z * g) with ((1 - l) * (k * z * g)) by ring.
    rewrite Rabs_mult, (Rabs_pos_eq (1 - l)) by lra.
    replace (12 * (1 - l) * (- e - d - c)) with ((1 - l) * (12 * (- e - d - c))) by ring.
    apply Rmult_le_compat_l; [lra|].
    assert (Hkz : Rabs (k * z) <= 12) by (apply Rabs_le; split; nra).
    replace (k * z * g) with ((k * z) * g) by ring. rewrite Rabs_mult, (Rabs_pos_eq g) by lra.
    apply Rle_trans with (12 * g); [apply Rmult_le_compat_r; lra | lra]. }
  change (Rabs (T1 + T2 + T3 + T4) <= (1 - l) * (8 + 12 * (- e - d) + 12 * - c) + (1 - l) * / (1 - l * z)).
  apply Rle_trans with (Rabs T1 + Rabs T2 + Rabs T3 + Rabs T4).
  - eapply Rle_trans; [apply Rabs_triang|]. apply Rplus_le_compat_r.
    eapply Rle_trans; [apply Rabs_triang|]. apply Rplus_le_compat_r. apply Rabs_triang.
  - nra.
Qed.
Lemma D3_bound_sharp z l : 0 < z < 1 -> 1 / 2 <= l < 1 ->
  Rabs (D3 z l) <= (1 - l) * (2 + 4 * (- ln (1 - z) - ln z) + 5 * (- ln (1 - l))) + 2 * (ln (1 - l * z) - ln (1 - z)).
Proof.
  intros Hz Hl. unfold D3. cbv zeta.
  destruct (log_facts z l Hz Hl) as (Ha & Hb & Hc & Hd & He & Hcd & Heb).
  set (a := ln l) in *. set (b := ln (1 - l * z)) in *. set (c := ln (1 - l)) in *. set (d := ln z) in *. set (e := ln (1 - z)) in *.
  set (p := (z ^ 2 + (1 - z) ^ 2) / 2).
  assert (Hp : 0 <= p <= 1 / 2).
  { unfold p. assert (0 <= z * z <= 1) by (split; nra). assert (0 <= (1 - z) * (1 - z) <= 1) by (split; nra). simpl. nra. }
  assert (Hzz : 0 <= z * (1 - z) <= 1 / 4).
  { pose proof (pow2_ge_0 (z - 1 / 2)) as Hq. simpl in Hq. split; nra. }
  set (K1 := 4 * l * p * (e - b)). set (K2 := 2 * (1 - l) * p * (c - a)).
  set (K3 := 2 * l * (1 - l) * (2 * z * (1 - z) + (- 2 * (1 - z) + 2 * l * z) * z * (b - c - d))).
  assert (B1 : Rabs K1 <= 2 * (b - e)).
  { unfold K1. replace (4 * l * p * (e - b)) with ((4 * l * p) * (e - b)) by ring. rewrite Rabs_mult, (Rabs_pos_eq (4 * l * p)) by nra.
    rewrite (Rabs_left1 (e - b)) by lra. apply Rle_trans with (2 * - (e - b)); [apply Rmult_le_compat_r; [lra | nra] | lra]. }
  assert (B2 : Rabs K2 <= (1 - l) * (- c + 1)).
  { unfold K2. replace (2 * (1 - l) * p * (c - a)) with ((1 - l) * (2 * p * (c - a))) by ring.
    rewrite Rabs_mult, (Rabs_pos_eq (1 - l)) by lra. apply Rmult_le_compat_l; [lra|].
    assert (Hs : Rabs (c - a) <= - c + 1) by (apply Rabs_le; split; lra).
    replace (2 * p * (c - a)) with ((2 * p) * (c - a)) by ring. rewrite Rabs_mult, (Rabs_pos_eq (2 * p)) by lra.
    apply Rle_trans with (1 * Rabs (c - a)); [apply Rmult_le_compat_r; [apply Rabs_pos | lra] | lra]. }
  assert (B3 : Rabs K3 <= (1 - l) * (1 + 4 * (- e - d - c))).
  { unfold K3. set (k := - 2 * (1 - z) + 2 * l * z). assert (Hk : - 2 <= k <= 2) by (unfold k; split; nra).
    set (g := b - c - d). assert (Hg : 0 <= g <= - e - d - c) by (unfold g; split; lra).
    set (w := z * (1 - z)) in *.
    replace (2 * l * (1 - l) * (2 * z * (1 - z) + k * z * g)) with ((1 - l) * (2 * l * (2 * w + (k * z) * g))) by (unfold w; ring).
    rewrite Rabs_mult, (Rabs_pos_eq (1 - l)) by lra. apply Rmult_le_compat_l; [lra|].
    assert (Hkz : Rabs (k * z) <= 2) by (apply Rabs_le; split; nra).
    assert (Hq : Rabs ((k * z) * g) <= 2 * g).
    { rewrite Rabs_mult, (Rabs_pos_eq g) by lra. apply Rmult_le_compat_r; lra. }
    assert (Hi : Rabs (2 * w + k * z * g) <= 1 / 2 + 2 * g).
    { eapply Rle_trans; [apply Rabs_triang|]. rewrite (Rabs_pos_eq (2 * w)) by lra. lra. }
    rewrite Rabs_mult, (Rabs_pos_eq (2 * l)) by lra.
    apply Rle_trans with (2 * (1 / 2 + 2 * g)); [| lra].
    apply Rle_trans with (2 * Rabs (2 * w + k * z * g)); [apply Rmult_le_compat_r; [apply Rabs_pos | lra] | lra]. }
  change (Rabs (K1 - K2 + K3) <= (1 - l) * (2 + 4 * (- e - d) + 5 * - c) + 2 * (b - e)).
  apply Rle_trans with (Rabs K1 + Rabs K2 + Rabs K3).
  - eapply Rle_trans; [apply Rabs_triang|]. apply Rplus_le_compat_r. unfold Rminus. eapply Rle_trans; [apply Rabs_triang|]. rewrite Rabs_Ropp. lra.
  - nra.
Qed.

(* ---------------- the kernels as the convolution model sees them (regular part only) *)
Definition reg_only (f : R -> R) : rsl := {| r_reg := f; r_sing := fun _ => 0; r_loc := fun _ => 0 |}.
Definition Lq (l : R) : R := ln (l / (1 - l)).    (* L = ln(Q2/m2) *)

Lemma one_plus_Fex x : 0 < x < 1 -> 0 <= 1 + Fex x <= 1 - ln (1 - x).
Proof.
  intros Hx. unfold Fex. assert (ln (1 - x) < 0) by (rewrite <- ln_1; apply ln_increasing; lra).
  replace (1 + (- (1 - x) * ln (1 - x) - x)) with ((1 - x) * (1 - ln (1 - x))) by ring. split; nra.
Qed.
Lemma neg_ln_mono x z : 0 < x <= z -> z < 1 -> 0 < - ln z <= - ln x.
Proof.
  intros Hx Hz. split.
  - assert (ln z < 0) by (rewrite <- ln_1; apply ln_increasing; lra). lra.
  - destruct (Req_dec x z) as [->|Hne]; [lra|]. assert (ln x < ln z) by (apply ln_increasing; lra). lra.
Qed.

(* common last step: G/x (c0 (1-x) + c1 (1 + Fex x) + c4 (Gl..) + c5 int_L) with c0 = e (a0 + a1 La), c1 = e b1, c4 = e b4 is at most e (1 + La) K *)
Lemma rate_step l x G a0 a1 b1 b4 c5 : 1 / 2 <= l < 1 -> 0 < x < 1 -> 0 <= G -> 0 <= a0 -> 0 <= a1 -> 0 <= b1 -> 0 <= b4 -> 0 <= c5 ->
  G / x * (((1 - l) * (a0 + a1 * - ln (1 - l)) * 1 - (1 - l) * (a0 + a1 * - ln (1 - l)) * x) + (1 - l) * b1 * (1 + Fex x)
           + b4 * ((1 - l) * (Gl l 1 - Gl l x)) + c5 * int_L l x)
  <= (1 - l) * (1 + - ln (1 - l)) * (G / x * (a0 + a1 + b1 * (1 - ln (1 - x)) + 2 * b4 + c5 * (7 - ln (1 - x)))).
Proof.
  intros Hl Hx G0 Ha0 Ha1 Hb1 Hb4 Hc5.
  set (e := 1 - l). assert (He : 0 < e <= 1 / 2) by (unfold e; lra).
  set (La := - ln e). assert (HLa : 0 < La) by (unfold La, e; assert (ln (1 - l) < 0) by (rewrite <- ln_1; apply ln_increasing; lra); lra).
  pose proof (int_L_bound l x Hl Hx) as HI. fold e La in HI. pose proof (gl_piece_bound l x Hl Hx) as HGl. fold e La in HGl.
  pose proof (one_plus_Fex x Hx) as HF.
  set (lx := - ln (1 - x)) in *. assert (Hlx : 0 < lx) by (unfold lx; assert (ln (1 - x) < 0) by (rewrite <- ln_1; apply ln_increasing; lra); lra).
  replace (1 - ln (1 - x)) with (1 + lx) in * by (unfold lx; ring). replace (7 - ln (1 - x)) with (7 + lx) by (unfold lx; ring).
  set (A := G / x). assert (A0 : 0 <= A) by (unfold A; apply Rmult_le_pos; [lra | left; apply Rinv_0_lt_compat; lra]).
  set (IL := int_L l x) in *. set (Gp := e * (Gl l 1 - Gl l x)) in *. set (F1 := 1 + Fex x) in *.
  assert (HI' : IL <= e * (2 * La + (1 + lx) + 4)) by (pose proof (Rle_abs IL); lra).
  replace (e * (1 + La) * (A * (a0 + a1 + b1 * (1 + lx) + 2 * b4 + c5 * (7 + lx)))) with (A * (e * (1 + La) * (a0 + a1 + b1 * (1 + lx) + 2 * b4 + c5 * (7 + lx)))) by ring.
  apply Rmult_le_compat_l; [exact A0|].
  assert (T0 : e * (a0 + a1 * La) * 1 - e * (a0 + a1 * La) * x <= e * (1 + La) * (a0 + a1)).
  { replace (e * (a0 + a1 * La) * 1 - e * (a0 + a1 * La) * x) with (e * ((a0 + a1 * La) * (1 - x))) by ring. rewrite Rmult_assoc.
    apply Rmult_le_compat_l; [lra|]. apply Rle_trans with ((a0 + a1 * La) * 1); [apply Rmult_le_compat_l; [nra | lra]|]. nra. }
  assert (T1 : e * b1 * F1 <= e * (1 + La) * (b1 * (1 + lx))).
  { replace (e * b1 * F1) with (e * (b1 * F1)) by ring. rewrite Rmult_assoc. apply Rmult_le_compat_l; [lra|].
    apply Rle_trans with (1 * (b1 * (1 + lx))); [rewrite Rmult_1_l; apply Rmult_le_compat_l; lra | apply Rmult_le_compat_r; [apply Rmult_le_pos; lra | lra]]. }
  assert (T4 : b4 * Gp <= e * (1 + La) * (2 * b4)).
  { apply Rle_trans with (b4 * (2 * e * La)); [apply Rmult_le_compat_l; lra|]. replace (e * (1 + La) * (2 * b4)) with (b4 * (2 * e * (1 + La))) by ring.
    apply Rmult_le_compat_l; [lra|]. nra. }
  assert (T5 : c5 * IL <= e * (1 + La) * (c5 * (7 + lx))).
  { apply Rle_trans with (c5 * (e * (2 * La + (1 + lx) + 4))); [apply Rmult_le_compat_l; lra|].
    assert (2 * La + (1 + lx) + 4 <= (1 + La) * (7 + lx)) by nra.
    replace (e * (1 + La) * (c5 * (7 + lx))) with (c5 * (e * ((1 + La) * (7 + lx)))) by ring.
    apply Rmult_le_compat_l; [lra|]. apply Rmult_le_compat_l; lra. }
  fold e La. lra.
Qed.

Theorem gluon_f2_any_pdf sp l x p G v w : 1 / 2 <= l < 1 -> 0 < x < 1 -> (forall u, x <= u <= 1 -> Rabs (p u) <= G) ->
  is_conv (reg_only (fun z => eval sp ik_heavy_f2_cc_Gluon_NLO_reg z [l])) p x v ->
  is_conv (reg_only (fun z => eval sp ik_asy_f2_cc_AsyGluon_NLO_reg z [Lq l])) p x w ->
  Rabs (v - w) <= (1 - l) * (1 + - ln (1 - l)) * (G / x * ((16 + 24 * - ln x) + 24 + 24 * (1 - ln (1 - x)) + 2 * 2 + 0 * (7 - ln (1 - x)))).
Proof.
  intros Hl Hx Hg Hv Hw.
  assert (G0 : 0 <= G) by (eapply Rle_trans; [apply Rabs_pos | apply (Hg x); lra]).
  assert (Hnx : 0 <= - ln x) by (assert (ln x < 0) by (rewrite <- ln_1; apply ln_increasing; lra); lra).
  eapply Rle_trans; [|apply (rate_step l x G (16 + 24 * - ln x) 24 24 2 0); try assumption; lra].
  eapply Rle_trans.
  - apply (reg_only_distribution (reg_only (fun z => eval sp ik_heavy_f2_cc_Gluon_NLO_reg z [l])) (reg_only (fun z => eval sp ik_asy_f2_cc_AsyGluon_NLO_reg z [Lq l])) l x p G ((1 - l) * ((16 + 24 * - ln x) + 24 * - ln (1 - l))) ((1 - l) * 24) (2 * (1 - l)) 0 v w Hl Hx); try (intros; reflexivity); try assumption.
    intros z Hz. cbn [r_reg reg_only]. unfold Lq. rewrite diff_explicit by lra. rewrite Rabs_mult, (Rabs_pos_eq 2) by lra.
    pose proof (Dhalf_bound_sharp z l ltac:(lra) Hl) as HB. pose proof (neg_ln_mono x z ltac:(lra) ltac:(lra)) as Hm.
    assert (Hlz : 0 < / (1 - l * z)) by (apply Rinv_0_lt_compat; nra).
    assert ((1 - l) * (- ln z) <= (1 - l) * (- ln x)) by (apply Rmult_le_compat_l; lra). nra.
  - apply Req_le. ring.
Qed.
Theorem gluon_fl_any_pdf sp l x p G v w : 1 / 2 <= l < 1 -> 0 < x < 1 -> (forall u, x <= u <= 1 -> Rabs (p u) <= G) ->
  is_conv (reg_only (fun z => eval sp ik_heavy_fl_cc_Gluon_NLO_reg z [l])) p x v ->
  is_conv (reg_only (fun z => eval sp ik_asy_fl_cc_AsyGluon_NLO_reg z [Lq l])) p x w ->
  Rabs (v - w) <= (1 - l) * (1 + - ln (1 - l)) * (G / x * ((6 + 18 * - ln x) + 18 + 18 * (1 - ln (1 - x)) + 2 * 0 + 0 * (7 - ln (1 - x)))).
Proof.
  intros Hl Hx Hg Hv Hw.
  assert (G0 : 0 <= G) by (eapply Rle_trans; [apply Rabs_pos | apply (Hg x); lra]).
  assert (Hnx : 0 <= - ln x) by (assert (ln x < 0) by (rewrite <- ln_1; apply ln_increasing; lra); lra).
  eapply Rle_trans; [|apply (rate_step l x G (6 + 18 * - ln x) 18 18 0 0); try assumption; lra].
  eapply Rle_trans.
  - apply (reg_only_distribution (reg_only (fun z => eval sp ik_heavy_fl_cc_Gluon_NLO_reg z [l])) (reg_only (fun z => eval sp ik_asy_fl_cc_AsyGluon_NLO_reg z [Lq l])) l x p G ((1 - l) * ((6 + 18 * - ln x) + 18 * - ln (1 - l))) ((1 - l) * 18) 0 0 v w Hl Hx); try (intros; reflexivity); try assumption.
    intros z Hz. cbn [r_reg reg_only]. unfold Lq.
    pose proof (gluon_fl_limit sp z l ltac:(lra) Hl) as HB. pose proof (neg_ln_mono x z ltac:(lra) ltac:(lra)) as Hm.
    assert ((1 - l) * (- ln z) <= (1 - l) * (- ln x)) by (apply Rmult_le_compat_l; lra). nra.
  - apply Req_le. ring.
Qed.
Theorem gluon_f3_any_pdf sp l x p G v w : 1 / 2 <= l < 1 -> 0 < x < 1 -> (forall u, x <= u <= 1 -> Rabs (p u) <= G) ->
  is_conv (reg_only (fun z => eval sp ik_heavy_f3_cc_Gluon_NLO_reg z [l])) p x v ->
  is_conv (reg_only (fun z => eval sp ik_asy_f3_cc_AsyGluon_NLO_reg z [Lq l])) p x w ->
  Rabs (v - w) <= (1 - l) * (1 + - ln (1 - l)) * (G / x * ((2 + 4 * - ln x) + 5 + 4 * (1 - ln (1 - x)) + 2 * 0 + 2 * (7 - ln (1 - x)))).
Proof.
  intros Hl Hx Hg Hv Hw.
  assert (G0 : 0 <= G) by (eapply Rle_trans; [apply Rabs_pos | apply (Hg x); lra]).
  assert (Hnx : 0 <= - ln x) by (assert (ln x < 0) by (rewrite <- ln_1; apply ln_increasing; lra); lra).
  eapply Rle_trans; [|apply (rate_step l x G (2 + 4 * - ln x) 5 4 0 2); try assumption; lra].
  eapply Rle_trans.
  - apply (reg_only_distribution (reg_only (fun z => eval sp ik_heavy_f3_cc_Gluon_NLO_reg z [l])) (reg_only (fun z => eval sp ik_asy_f3_cc_AsyGluon_NLO_reg z [Lq l])) l x p G ((1 - l) * ((2 + 4 * - ln x) + 5 * - ln (1 - l))) ((1 - l) * 4) 0 2 v w Hl Hx); try (intros; reflexivity); try assumption.
    intros z Hz. cbn [r_reg reg_only]. unfold Lq. rewrite diff3_explicit by lra.
    pose proof (D3_bound_sharp z l ltac:(lra) Hl) as HB. pose proof (neg_ln_mono x z ltac:(lra) ltac:(lra)) as Hm.
    assert ((1 - l) * (- ln z) <= (1 - l) * (- ln x)) by (apply Rmult_le_compat_l; lra). nra.
  - apply Req_le. ring.
Qed.
