(* Weights.v — executable model of the weight builders
     coefficient_functions/kernels.py            (cc_weights, cc_weights_even/odd,
                                                  generate_single_flavor_light)
     coefficient_functions/light/kernels.py      (generate, nc_weights, nc_fl11_weights)
     coefficient_functions/heavy/kernels.py      (generate, generate_missing, nc_weights)
     coefficient_functions/intrinsic/kernels.py  (generate)
     coefficient_functions/asy/kernels.py        (generate_*_asy)
   and of coefficient_functions/__init__.py (Combiner).
   Hand-written; tied to the code by tools/corr/combiner.py. *)
From Coq Require Import ZArith List Bool String.
From Yad Require Import Base Couplings.
Import ListNotations.
Open Scope string_scope.

Inductive kind := F2 | FL | F3 | G1 | GL | G4.
Definition is_pv (k : kind) := match k with F3 | GL | G4 => true | _ => false end.
Definition kind_lower (k : kind) : string :=
  match k with F2 => "f2" | FL => "fl" | F3 => "f3" | G1 => "g1" | GL => "gl" | G4 => "g4" end.
Definition proc_lower (p : process) : string :=
  match p with CC => "cc" | _ => "nc" end.
(* import_local: f"{kind}_{process}" *)
Definition modname (k : kind) (p : process) : string := kind_lower k ++ "_" ++ proc_lower p.

(* outcome of a computation that may fail inside the library *)
Inductive outcome (A : Type) :=
| Ok (a : A)
| Crash (what : string)      (* KeyError, IndexError, AttributeError, ModuleNotFoundError … *)
| Rejected (why : string).   (* an explicit raise ValueError / NotImplementedError of yadism *)
Arguments Ok {A} a. Arguments Crash {A} what. Arguments Rejected {A} why.
Definition obind {A B} (x : outcome A) (f : A -> outcome B) : outcome B :=
  match x with Ok a => f a | Crash w => Crash w | Rejected w => Rejected w end.
Notation "'do' x <- e ; k" := (obind e (fun x => k)) (at level 200, x name, e at level 100, k at level 200).

(* module / class inventory of the four sub-packages: (family, module, classes).
   Regenerated from the source tree by tools/tables.py (gen/Inventory.v). *)
Record cls_info := {
  c_name : string;
  c_empty : bool;          (* derives from EmptyPartonicChannel *)
  c_orders : list nat;     (* orders o for which the class (or a base) overrides LO/NLO/NNLO/N3LO *)
}.
Definition inventory := list (string * string * list cls_info).
Fixpoint inv_lookup (inv : inventory) (fam md : string) : option (list cls_info) :=
  match inv with
  | [] => None
  | (f, m, cs) :: r => if (String.eqb f fam && String.eqb m md)%bool then Some cs else inv_lookup r fam md
  end.
Fixpoint find_class (cs : list cls_info) (c : string) : option cls_info :=
  match cs with [] => None | x :: r => if String.eqb (c_name x) c then Some x else find_class r c end.

Fixpoint nstr (n : nat) : string := match n with O => "" | S k => "N" ++ nstr k end.

Section Weights.
  Context {fld : Fld}.
  Local Open Scope F_scope.

  (* python dict pid -> weight, insertion ordered *)
  Definition pmap := list (Z * F).
  Fixpoint pget (m : pmap) (k : Z) : F :=
    match m with [] => f0 | (k', v) :: r => if (k =? k')%Z then v else pget r k end.
  Fixpoint phas (m : pmap) (k : Z) : bool :=
    match m with [] => false | (k', _) :: r => (k =? k')%Z || phas r k end.
  Fixpoint pset (m : pmap) (k : Z) (v : F) : pmap :=
    match m with
    | [] => [(k, v)]
    | (k', v') :: r => if (k =? k')%Z then (k, v) :: r else (k', v') :: pset r k v
    end.
  Definition pkeys (m : pmap) : list Z := map fst m.
  Definition pmap_map (f : Z -> F -> F) (m : pmap) : pmap := map (fun kv => (fst kv, f (fst kv) (snd kv))) m.
  Definition pfilter (f : Z -> bool) (m : pmap) : pmap := filter (fun kv => f (fst kv)) m.

  Record kernel := {
    k_fam : string;      (* sub-package: light heavy intrinsic asy *)
    k_cls : string;      (* class of the partonic channel *)
    k_partons : pmap;
    k_nf : Z;            (* nf handed to the partonic channel constructor *)
    k_ihq : Z;           (* heavy quark whose mass is handed over (0: none) *)
    k_empty : bool;      (* the class is an EmptyPartonicChannel *)
    k_orders : list nat; (* orders the class defines *)
  }.

  Definition fsign (q : Z) : F := if (0 <? q)%Z then f1 else if (q <? 0)%Z then - f1 else f0.

  Definition pids_pm (nf : Z) : list Z :=
    let ps := quarks_upto (Z.to_nat nf) in (ps ++ map Z.opp ps)%list.

  Section WithConfig.
    (* the only ways the weight builders look at the electroweak set-up:
       gw pid ctype mask   = coupling_constants.get_weight(pid, Q2, ctype, cc_mask=mask)
       gfl pid nf ctype    = coupling_constants.get_fl11_weight(pid, Q2, nf, ctype)
       prc                 = esf.process
       rest                = 1 if projectilePID in [-11, 12] else 0                       *)
    Variable gw : Z -> ctype -> mask -> F.
    Variable gfl : Z -> Z -> ctype -> F.
    Variable prc : process.
    Variable rest : Z.
    Let nomask := mask_light 0.

    Definition w_pc_or_pv (pv : bool) (q : Z) : F :=
      if pv then gw q VA nomask + gw q AV nomask
      else gw q VV nomask + gw q AA nomask.

    (* light/kernels.py::nc_weights *)
    Record ncw := { nc_ns : pmap; nc_g : pmap; nc_s : pmap; nc_v : pmap }.
    Definition nc_weights (nf : Z) (pv skip : bool) : ncw :=
      let step (acc : pmap * F) (q : Z) :=
        if (skip && (q =? nf)%Z)%bool then acc else
        let w := w_pc_or_pv pv q in
        (pset (pset (fst acc) q w) (- q)%Z (if pv then - w else w), snd acc + w) in
      let '(ns, tot) := fold_left step (quarks_upto (Z.to_nat nf)) ([], f0) in
      let ch_av := tot / fz nf in
      if pv then {| nc_ns := ns; nc_g := []; nc_s := [];
                    nc_v := map (fun q => (q, fsign q * ch_av)) (pids_pm nf) |}
      else {| nc_ns := ns; nc_g := [(21%Z, ch_av)];
              nc_s := map (fun q => (q, ch_av)) (pids_pm nf); nc_v := [] |}.

    (* light/kernels.py::nc_fl11_weights (skip_heavylight is never set by a caller) *)
    Definition w_fl11 (nf q : Z) : F :=
      gfl q nf VV + gfl q nf AA.
    Definition nc_fl11_weights (nf : Z) : pmap * pmap :=
      let step (acc : pmap * F) (q : Z) :=
        let w := w_fl11 nf q in
        (pset (pset (fst acc) q w) (- q)%Z w, snd acc + w) in
      let '(qp, tot) := fold_left step (quarks_upto (Z.to_nat nf)) ([], f0) in
      (qp, [(21%Z, tot / fz nf)]).

    (* kernels.py::cc_weights* *)
    Definition cc_sign (q : Z) : Z := if (q mod 2 =? rest)%Z then 1%Z else (-1)%Z.
    Definition cc_range (nf : Z) : list Z := quarks_upto (Z.to_nat (Z.min (nf + 1) 6)).
    Definition pvsign (pv : bool) (s : Z) : F := if pv then fz s else f1.

    Record ccw := { cc_ns : pmap; cc_g : pmap; cc_s : option pmap; cc_v : option pmap }.

    Definition cc_weights (k : mask) (nf : Z) (pv : bool) : ccw :=
      let step (acc : pmap * F) (q : Z) :=
        let s := cc_sign q in
        let w := gw q VV k in
        ((if (q <=? nf)%Z then pset (fst acc) (s * q)%Z (if pv then fz s * w else w) else fst acc),
         snd acc + w) in
      let '(ns, tot0) := fold_left step (cc_range nf) ([], f0) in
      let tot := if ((rest =? 0)%Z && pv)%bool then tot0 * (- f1) else tot0 in
      let av := tot / fz (m_len k) / two in
      let s := fold_left (fun m q => pset (pset m q av) (- q)%Z av) (pkeys ns) [] in
      {| cc_ns := ns; cc_g := [(21%Z, av)]; cc_s := Some s; cc_v := None |}.

    Definition cc_weights_even (k : mask) (nf : Z) (pv : bool) : ccw :=
      let step (acc : pmap * F) (q : Z) :=
        let s := cc_sign q in
        let w := gw q VV k in
        ((if (q <=? nf)%Z then
            let v := w / two * pvsign pv s in
            pset (pset (fst acc) (s * q)%Z v) (- s * q)%Z v
          else fst acc),
         snd acc + w) in
      let '(ns, tot) := fold_left step (cc_range nf) ([], f0) in
      let av := tot / fz (m_len k) / two in
      {| cc_ns := ns; cc_g := [(21%Z, av)];
         cc_s := Some (fold_left (fun m q => pset (pset m q av) (- q)%Z av) (quarks_upto (Z.to_nat nf)) []);
         cc_v := None |}.

    Definition cc_weights_odd (k : mask) (nf : Z) (pv : bool) : ccw :=
      let step (acc : pmap * F) (q : Z) :=
        let s := cc_sign q in
        let w := gw q VV k in
        ((if (q <=? nf)%Z then
            pset (pset (fst acc) (s * q)%Z (w / two * pvsign pv s))
                 (- s * q)%Z (- w / two * pvsign pv s)
          else fst acc),
         snd acc + w) in
      let '(ns, tot) := fold_left step (cc_range nf) ([], f0) in
      let av := tot / fz (m_len k) / two in
      {| cc_ns := ns; cc_g := []; cc_s := None;
         cc_v := Some (fold_left (fun m q => pset (pset m q av) (- q)%Z (- av)) (quarks_upto (Z.to_nat nf)) []) |}.

    (* ---------------------------------------------------------------- *)
    (* kernel construction through the inventory *)
    Variable inv : inventory.
    Variable k : kind.

    Definition mk (fam cls : string) (p : pmap) (nf ihq : Z) : outcome kernel :=
      match inv_lookup inv fam (modname k prc) with
      | None => Rejected "NotImplementedError: no such kind/process module"   (* import_local *)
      | Some cs =>
        match find_class cs cls with
        | Some ci => Ok {| k_fam := fam; k_cls := cls; k_partons := p; k_nf := nf; k_ihq := ihq;
                           k_empty := c_empty ci; k_orders := c_orders ci |}
        | None => Crash "AttributeError"
        end
      end.
    (* import of the module alone (done before any class is touched) *)
    Definition imp (fam : string) : outcome unit :=
      match inv_lookup inv fam (modname k prc) with
      | None => Rejected "NotImplementedError: no such kind/process module" | Some _ => Ok tt end.

    Fixpoint oseq {A} (l : list (outcome A)) : outcome (list A) :=
      match l with
      | [] => Ok []
      | x :: r => do a <- x; do rs <- oseq r; Ok (a :: rs)
      end.

    Let pv := is_pv k.

    (* light/kernels.py::generate *)
    Definition light_generate (nf pto : Z) : outcome (list kernel) :=
      do _ <- imp "light";
      match prc with
      | CC =>
        let we := cc_weights_even (mask_light nf) nf pv in
        let wo := cc_weights_odd (mask_light nf) nf pv in
        if pv then
          oseq [mk "light" "NonSingletEven" (cc_ns we) nf 0; mk "light" "NonSingletOdd" (cc_ns wo) nf 0;
               match cc_v wo with Some v => mk "light" "Valence" v nf 0 | None => Crash "KeyError" end]
        else
          oseq [mk "light" "NonSingletEven" (cc_ns we) nf 0; mk "light" "Gluon" (cc_g we) nf 0;
               match cc_s we with Some s => mk "light" "Singlet" s nf 0 | None => Crash "KeyError" end;
               mk "light" "NonSingletOdd" (cc_ns wo) nf 0]
      | _ =>
        let w := nc_weights nf pv false in
        if pv then oseq [mk "light" "NonSinglet" (nc_ns w) nf 0; mk "light" "Valence" (nc_v w) nf 0]
        else
          do base <- oseq [mk "light" "NonSinglet" (nc_ns w) nf 0; mk "light" "Gluon" (nc_g w) nf 0;
                          mk "light" "Singlet" (nc_s w) nf 0];
          if (pto =? 3)%Z then
            let '(qp, gp) := nc_fl11_weights nf in
            (* the code instantiates GluonFL11 first, then QuarkFL11 *)
            do g <- mk "light" "GluonFL11" gp nf 0;
            do q <- mk "light" "QuarkFL11" qp nf 0;
            Ok (base ++ [q; g])%list
          else Ok base
      end.

    (* kernels.py::generate_single_flavor_light *)
    Definition single_flavor_light (nf ihq pto : Z) : outcome (list kernel) :=
      do _ <- imp "light";
      match prc with
      | CC =>
        let we := cc_weights_even (mask_single ihq) nf pv in
        let wo := cc_weights_odd (mask_single ihq) nf pv in
        do e <- mk "light" "NonSingletEven" (cc_ns we) nf 0;
        do od <- mk "light" "NonSingletOdd" (cc_ns wo) nf 0;
        if pv then
          (* w_odd["v"] divided by nf *)
          match cc_v wo with
          | None => Crash "KeyError"
          | Some s =>
            do v <- mk "light" "Valence" (pmap_map (fun _ c => c / fz nf) s) nf 0;
            Ok [e; od; v]
          end
        else
          do g <- mk "light" "Gluon" [(21%Z, pget (cc_g we) 21 / fz nf)] nf 0;
          do s <- match cc_s we with
                  | Some s => mk "light" "Singlet" (pmap_map (fun _ v => v / fz nf) s) nf 0
                  | None => Crash "KeyError" end;
          Ok [e; g; s; od]
      | _ =>
        let w := w_pc_or_pv pv ihq in
        let ns := pset (pset [] ihq w) (- ihq)%Z (if pv then - w else w) in
        let ch_av := w / fz nf in
        if pv then
          oseq [mk "light" "NonSinglet" ns nf 0;
               mk "light" "Valence" (map (fun q => (q, fsign q * ch_av)) (pids_pm nf)) nf 0]
        else
          do base <- oseq [mk "light" "NonSinglet" ns nf 0; mk "light" "Gluon" [(21%Z, ch_av)] nf 0;
                          mk "light" "Singlet" (map (fun q => (q, ch_av)) (pids_pm nf)) nf 0];
          if (pto =? 3)%Z then
            let w11 := w_fl11 nf ihq in
            do q <- mk "light" "QuarkFL11" (pset (pset [] ihq w11) (- ihq)%Z w11) nf 0;
            do g <- mk "light" "GluonFL11" [(21%Z, w11 / fz nf)] nf 0;
            Ok (base ++ [q; g])%list
          else Ok base
      end.

    (* heavy/kernels.py::generate_missing and asy/kernels.py::generate_missing_asy *)
    Definition missing (nf ihq : Z) : outcome (list kernel) :=
      match prc with
      | CC => Ok []
      | _ =>
        let w := nc_weights nf pv false in
        do _ <- imp "heavy";
        oseq [mk "heavy" "NonSinglet" (nc_ns w) nf ihq]
      end.
    Definition missing_asy (nf ihq pto_evol : Z) : outcome (list kernel) :=
      match prc with
      | CC => Ok []
      | _ =>
        let w := nc_weights nf pv false in      (* every light quark couples, as in the massive kernel (fix of C08) *)
        do _ <- imp "asy";
        oseq (map (fun r => mk "asy" ("Asy" ++ nstr r ++ "LLNonSinglet") (nc_ns w) nf ihq)
                 (List.seq 0 (S (Z.to_nat pto_evol))))
      end.

    (* heavy/kernels.py::nc_weights *)
    Definition heavy_nc_weights (nf ihq : Z) : pmap * pmap * pmap * pmap :=
      let wvv := gw ihq VV nomask in
      let waa := gw ihq AA nomask in
      let s (w : F) := fold_left (fun m q => pset (pset m q w) (- q)%Z w) (quarks_upto (Z.to_nat nf)) [] in
      ([(21%Z, wvv)], [(21%Z, waa)], s wvv, s waa).

    (* heavy/kernels.py::generate *)
    Definition heavy_generate (nf ihq : Z) : outcome (list kernel) :=
      do _ <- imp "heavy";
      match prc with
      | CC =>
        let w := cc_weights (mask_single ihq) nf pv in
        oseq [mk "heavy" "NonSinglet" (cc_ns w) nf ihq; mk "heavy" "Gluon" (cc_g w) nf ihq]
      | _ =>
        if pv then Ok [] else
        let '(gvv, gaa, svv, saa) := heavy_nc_weights nf ihq in
        oseq [mk "heavy" "GluonVV" gvv nf ihq; mk "heavy" "GluonAA" gaa nf ihq;
             mk "heavy" "SingletVV" svv nf ihq; mk "heavy" "SingletAA" saa nf ihq]
      end.

    (* asy/kernels.py::generate_heavy_asy *)
    Definition heavy_asy (nf pto_evol ihq : Z) : outcome (list kernel) :=
      do _ <- imp "asy";
      match prc with
      | CC =>
        let w := cc_weights (mask_single ihq) nf pv in
        oseq [mk "asy" "AsyQuark" (cc_ns w) nf ihq; mk "asy" "AsyGluon" (cc_g w) nf ihq]
      | _ =>
        if pv then Ok [] else
        let '(gvv, gaa, svv, saa) := heavy_nc_weights nf ihq in
        let chan (ch : string) (waa wvv : pmap) :=
          flat_map (fun r => [mk "asy" ("Asy" ++ nstr r ++ "LL" ++ ch) waa nf ihq;
                              mk "asy" ("Asy" ++ nstr r ++ "LL" ++ ch) wvv nf ihq])
                   (List.seq 0 (S (Z.to_nat pto_evol))) in
        oseq (chan "Gluon" gaa gvv ++ chan "Singlet" saa svv)%list
      end.

    (* intrinsic/kernels.py::generate *)
    Definition intrinsic_weights_cc (ihq : Z) : pmap :=
      let w := cc_weights (mask_single ihq) ihq pv in
      pfilter (fun q => (Z.abs q =? ihq)%Z) (cc_ns w).
    Definition intrinsic_generate (ihq : Z) : outcome (list kernel) :=
      do _ <- imp "intrinsic";
      match prc with
      | CC =>
        oseq [mk "intrinsic" (if pv then "Rplus" else "Splus") (intrinsic_weights_cc ihq) (ihq - 1) ihq]
      | _ =>
        let wa := gw ihq (if pv then VA else VV) nomask in
        let wb := gw ihq (if pv then AV else AA) nomask in
        let wp := wa + wb in let wm := wa - wb in
        let sg (x : F) := if pv then - x else x in
        oseq [mk "intrinsic" (if pv then "Rplus" else "Splus") [(ihq, wp); ((- ihq)%Z, sg wp)] (ihq - 1) ihq;
             mk "intrinsic" (if pv then "Rminus" else "Sminus") [(ihq, wm); ((- ihq)%Z, sg wm)] (ihq - 1) ihq]
      end.

    (* asy/kernels.py::generate_intrinsic_asy *)
    Definition intrinsic_asy (nf pto_evol ihq : Z) : outcome (list kernel) :=
      do _ <- imp "asy";
      let w := match prc with
               | CC => intrinsic_weights_cc ihq
               | _ => let wp := w_pc_or_pv pv ihq in [(ihq, wp); ((- ihq)%Z, if pv then - wp else wp)]
               end in
      do a <- mk "asy" "AsyLLIntrinsic" w nf ihq;
      if (0 <? pto_evol)%Z then
        do b <- mk "asy" "AsyNLLIntrinsicMatching" w nf ihq;
        do c <- mk "asy" "AsyNLLIntrinsicLight" w nf ihq;
        Ok [a; b; c]
      else Ok [a].
  End WithConfig.
End Weights.
