(* ConvGen.v — C01 for kernels that are NOT Riemann integrable up to z = 1.  Coefficient functions beyond LO carry ln^k(1-z):
   their regular part is unbounded near z = 1, so `ex_RInt (integrand k p x) x 1` (the hypothesis of ConvTheorems.conv_linear,
   contraction_with_pdf) cannot hold for them whenever the basis function does not vanish at x (upper limit z = 1).  The integral
   QUADPACK approximates there is the improper one; the same algebra is proved here for it: is_RInt_gen on (at_point x, at_left 1). *)
From Coq Require Import Reals List Lra.
From Coquelicot Require Import Coquelicot.
From Yad Require Import Conv ConvTheorems.
Import ListNotations.
Open Scope R_scope.

Section G.
  Variable k : rsl.
  (* the improper convolution integral has value l *)
  Definition conv_int (p : R -> R) (x l : R) : Prop := is_RInt_gen (integrand k p x) (at_point x) (at_left 1) l.
  (* value of the convolution: l + p(x) loc(x) *)
  Definition is_conv (p : R -> R) (x v : R) : Prop := exists l, conv_int p x l /\ v = l + p x * r_loc k x.

  Lemma is_conv_unique p x v w : is_conv p x v -> is_conv p x w -> v = w.
  Proof.
    intros [l [Hl ->]] [m [Hm ->]]. f_equal.
    rewrite <- (is_RInt_gen_unique (V := R_CompleteNormedModule) (integrand k p x) l Hl).
    apply (is_RInt_gen_unique (V := R_CompleteNormedModule) (integrand k p x) m Hm).
  Qed.

  (* linearity in the function convolved with *)
  Theorem conv_linear_gen p q c e x v w : is_conv p x v -> is_conv q x w ->
    is_conv (fun u => c * p u + e * q u) x (c * v + e * w).
  Proof.
    intros [l [Hl ->]] [m [Hm ->]]. exists (c * l + e * m). split; [|ring].
    unfold conv_int in *.
    apply (is_RInt_gen_ext (V := R_NormedModule) (fun z => plus (scal c (integrand k p x z)) (scal e (integrand k q x z)))).
    - apply filter_forall. intros [a b] z _. unfold integrand, plus, scal; cbn. unfold mult; cbn. unfold Rdiv. rring.
    - apply (is_RInt_gen_plus (V := R_NormedModule)); apply (is_RInt_gen_scal (V := R_NormedModule)); assumption.
  Qed.

  Lemma conv_zero_gen x : is_conv (fun _ => 0) x 0.
  Proof.
    exists 0. split; [|ring]. unfold conv_int.
    apply (is_RInt_gen_ext (V := R_NormedModule) (fun _ => 0)).
    - apply filter_forall. intros [a b] z _. unfold integrand, Rdiv. rring.
    - intros P HP. unfold filtermapi. apply filter_forall. intros [a b]. exists 0. split; [apply is_RInt_zero|].
      apply locally_singleton. exact HP.
  Qed.

  (* the operator contracted with the node values of f is the convolution with the interpolated f (any number of basis functions) *)
  Theorem contraction_with_pdf_gen (fs : list (R * (R -> R))) (vs : list R) x :
    List.Forall2 (fun cp v => is_conv (snd cp) x v) fs vs ->
    is_conv (span fs) x (fold_right (fun cv acc => fst (fst cv) * snd cv + acc) 0 (combine fs vs)).
  Proof.
    induction 1 as [|[c p] v fs' vs' Hp Hrest IH]; cbn [span combine fold_right fst snd].
    - apply conv_zero_gen.
    - cbn [snd] in Hp.
      replace (c * v + fold_right (fun cv acc => fst (fst cv) * snd cv + acc) 0 (combine fs' vs'))
        with (c * v + 1 * fold_right (fun cv acc => fst (fst cv) * snd cv + acc) 0 (combine fs' vs')) by ring.
      apply (conv_linear_gen p (span fs') c 1 x); assumption.
  Qed.

  (* a pure delta distribution (LO) *)
  Theorem delta_only_gen p x : (forall z, r_reg k z = 0) -> (forall z, r_sing k z = 0) -> is_conv p x (p x * r_loc k x).
  Proof.
    intros Hr Hs. exists 0. split; [|ring]. unfold conv_int.
    apply (is_RInt_gen_ext (V := R_NormedModule) (fun _ => 0)).
    - apply filter_forall. intros [a b] z _. unfold integrand. rewrite Hr, Hs. rring.
    - intros P HP. unfold filtermapi. apply filter_forall. intros [a b]. exists 0. split; [apply is_RInt_zero|].
      apply locally_singleton. exact HP.
  Qed.

  (* when the kernel IS Riemann integrable up to 1 and its integral is continuous in the upper limit, both notions agree *)
  Theorem proper_is_improper p x : x < 1 ->
    (forall b, x <= b <= 1 -> ex_RInt (integrand k p x) x b) ->
    continuity_pt (fun b => RInt (integrand k p x) x b) 1 ->
    is_conv p x (conv_spec k p x).
  Proof.
    intros Hx Hex Hc. exists (RInt (integrand k p x) x 1). split; [|reflexivity].
    unfold conv_int. intros P HP. unfold filtermapi.
    assert (HP' : at_left 1 (fun b => P (RInt (integrand k p x) x b))).
    { apply continuity_pt_filterlim in Hc. specialize (Hc P HP).
      destruct Hc as [d Hd]. exists d. intros y Hy _. apply Hd. exact Hy. }
    assert (Hl : at_left 1 (fun b => x <= b <= 1)).
    { exists (mkposreal (1 - x) ltac:(lra)). intros y Hy Hy1. unfold ball in Hy; cbn in Hy; unfold AbsRing_ball, abs, minus, plus, opp in Hy; cbn in Hy.
      apply Rabs_def2 in Hy. lra. }
    eapply (Filter_prod (at_point x) (at_left 1) _ (fun a => a = x) (fun b => P (RInt (integrand k p x) x b) /\ x <= b <= 1)).
    - reflexivity.
    - apply filter_and; assumption.
    - intros a b -> [Hb Hxb]. cbn [fst snd]. exists (RInt (integrand k p x) x b). split; [|exact Hb].
      apply (RInt_correct (V := R_CompleteNormedModule)). apply Hex. exact Hxb.
  Qed.
End G.

(* ---------------- non-vacuity for a kernel that is unbounded at z = 1: reg = ln(1-z), no singular / local part, convolved with
   p(u) = x/u at x = 1/2: the integrand is ln(1-z), its improper integral over [1/2, 1) is F(1-) - F(1/2), F = -(1-z) ln(1-z) - z *)
Lemma ln_le_minus_1' x : 0 < x -> ln x <= x - 1.
Proof.
  intros Hx. destruct (Req_dec x 1) as [->|Hne]; [rewrite ln_1; lra|].
  assert (Hy : ln x <> 0) by (intro E; apply Hne; rewrite <- (exp_ln x Hx), E; apply exp_0).
  pose proof (exp_ineq1 (ln x) Hy) as H. rewrite exp_ln in H by exact Hx. lra.
Qed.
Lemma t_ln_t_bound t : 0 < t <= 1 -> Rabs (t * ln t) <= 2 * sqrt t.
Proof.
  intros Ht. assert (Hs : 0 < sqrt t) by (apply sqrt_lt_R0; lra).
  assert (Hss : sqrt t * sqrt t = t) by (apply sqrt_sqrt; lra).
  assert (Hln : ln t = 2 * ln (sqrt t)) by (rewrite <- Hss at 1; rewrite ln_mult by assumption; ring).
  pose proof (ln_le_minus_1' (/ sqrt t) ltac:(apply Rinv_0_lt_compat; exact Hs)) as H. rewrite ln_Rinv in H by exact Hs.
  assert (Hle : ln t <= 0) by (rewrite <- ln_1; destruct (Req_dec t 1) as [->|Hne]; [lra | left; apply ln_increasing; lra]).
  rewrite Rabs_left1 by (apply Rmult_le_0_l; lra).
  assert (Hb : - ln t <= 2 * / sqrt t) by lra.
  replace (2 * sqrt t) with (t * (2 * / sqrt t)) by (rewrite <- Hss at 1; field; lra).
  replace (- (t * ln t)) with (t * - ln t) by ring. apply Rmult_le_compat_l; lra.
Qed.

Definition Fex (z : R) : R := - (1 - z) * ln (1 - z) - z.
Lemma Fex_derive z : z < 1 -> is_derive Fex z (ln (1 - z)).
Proof. intros Hz. unfold Fex. auto_derive; [lra|]. replace (1 + - z) with (1 - z) by ring. field. lra. Qed.
Lemma Fex_lim : filterlim Fex (at_left 1) (locally (-1)).
Proof.
  intros P [eps HP].
  set (d := Rmin 1 (Rmin ((eps / 3) * (eps / 3)) (eps / 3))).
  assert (He : 0 < eps) by apply cond_pos.
  assert (Hd : 0 < d) by (unfold d; repeat apply Rmin_glb_lt; try lra; apply Rmult_lt_0_compat; lra).
  exists (mkposreal d Hd). intros z Hz Hz1. apply HP.
  unfold ball in Hz |- *; cbn in Hz |- *; unfold AbsRing_ball, abs, minus, plus, opp in Hz |- *; cbn in Hz |- *.
  apply Rabs_def2 in Hz.
  set (t := 1 - z). assert (Ht : 0 < t < d) by (unfold t; lra).
  assert (Hd1 : d <= 1) by apply Rmin_l.
  assert (Hd2 : d <= (eps / 3) * (eps / 3)) by (unfold d; eapply Rle_trans; [apply Rmin_r | apply Rmin_l]).
  assert (Hd3 : d <= eps / 3) by (unfold d; eapply Rle_trans; [apply Rmin_r | apply Rmin_r]).
  replace (Fex z + - -1) with (- (t * ln t) + t) by (unfold Fex, t; ring).
  pose proof (t_ln_t_bound t ltac:(lra)) as Hb.
  assert (Hsq : sqrt t < eps / 3).
  { rewrite <- (sqrt_square (eps / 3)) by lra. apply sqrt_lt_1_alt. lra. }
  eapply Rle_lt_trans; [apply Rabs_triang|]. rewrite Rabs_Ropp, (Rabs_pos_eq t) by lra. lra.
Qed.

Example log_kernel_has_a_convolution :
  is_conv {| r_reg := fun z => ln (1 - z); r_sing := fun _ => 0; r_loc := fun _ => 0 |} (fun u => (1 / 2) / u) (1 / 2) (-1 - Fex (1 / 2)).
Proof.
  exists (-1 - Fex (1 / 2)). split; [|cbn; ring]. unfold conv_int.
  assert (Hl : at_left 1 (fun b => 1 / 2 < b < 1)).
  { exists (mkposreal (1 / 2) ltac:(lra)). intros y Hy Hy1. unfold ball in Hy; cbn in Hy; unfold AbsRing_ball, abs, minus, plus, opp in Hy; cbn in Hy.
    apply Rabs_def2 in Hy. lra. }
  assert (Hrange : filter_prod (at_point (1 / 2)) (at_left 1) (fun ab => fst ab = 1 / 2 /\ 1 / 2 < snd ab < 1)).
  { apply (Filter_prod _ _ _ (fun a => a = 1 / 2) (fun b => 1 / 2 < b < 1)); [reflexivity | exact Hl | intros a b Ha Hb; cbn; split; assumption]. }
  apply (is_RInt_gen_ext (V := R_NormedModule) (Derive Fex)).
  - apply (filter_imp (fun ab => fst ab = 1 / 2 /\ 1 / 2 < snd ab < 1)); [|exact Hrange].
    intros [a b] [Ha Hb] z Hz. cbn [fst snd] in *. subst a. rewrite Rmin_left, Rmax_right in Hz by lra.
    rewrite (is_derive_unique _ _ _ (Fex_derive z ltac:(lra))). unfold integrand; cbn. field. lra.
  - apply (is_RInt_gen_Derive Fex (Fex (1 / 2)) (-1)).
    + apply (filter_imp (fun ab => fst ab = 1 / 2 /\ 1 / 2 < snd ab < 1)); [|exact Hrange].
      intros [a b] [Ha Hb] z Hz. cbn [fst snd] in *. subst a. rewrite Rmin_left, Rmax_right in Hz by lra.
      exists (ln (1 - z)). apply Fex_derive. lra.
    + apply (filter_imp (fun ab => fst ab = 1 / 2 /\ 1 / 2 < snd ab < 1)); [|exact Hrange].
      intros [a b] [Ha Hb] z Hz. cbn [fst snd] in *. subst a. rewrite Rmin_left, Rmax_right in Hz by lra.
      apply (continuous_ext_loc _ (fun u => ln (1 - u))).
      * exists (mkposreal (1 - z) ltac:(lra)). intros y Hy. unfold ball in Hy; cbn in Hy; unfold AbsRing_ball, abs, minus, plus, opp in Hy; cbn in Hy.
        apply Rabs_def2 in Hy. symmetry. apply is_derive_unique, Fex_derive. lra.
      * apply (ex_derive_continuous (fun u => ln (1 - u))). auto_derive. lra.
    + intros P HP. unfold filtermap, at_point. apply locally_singleton. exact HP.
    + exact Fex_lim.
Qed.
