(* CorrTMC.v — agreement predicate for tools/corr/tmc.py (Qc instance) and the acceptance guard of a TMC request. *)
From Coq Require Import ZArith List Bool QArith Qcanon.
From Yad Require Import Base TMC.
Import ListNotations.

Definition tkind_eqb (a b : tkind) : bool :=
  match a, b with TF2, TF2 | TFL, TFL | TF3, TF3 | TG1, TG1 => true | _, _ => false end.
Definition tker_eqb (a b : tker) : bool :=
  match a, b with H2ker, H2ker | G2ker, G2ker | H3ker, H3ker | K2ker, K2ker => true | _, _ => false end.
Definition tterm_eqb (a b : tterm) : bool :=
  match a, b with
  | Shifted k, Shifted k' => tkind_eqb k k'
  | Integral k r, Integral k' r' => tkind_eqb k k' && tker_eqb r r'
  | _, _ => false
  end.

(* total coefficient of a term in a formal combination *)
Definition coeff_of (l : list (Qc * tterm)) (t : tterm) : Qc :=
  fold_left (fun acc ct => if tterm_eqb (snd ct) t then (acc + fst ct)%Qc else acc) l 0%Qc.

(* |m - o| <= tol |o| *)
Definition rclose (tol m o : Qc) : bool := Qc_leb (Qc_abs (m - o)%Qc) (tol * Qc_abs o)%Qc.

(* the acceptance guard: the requested point must be physical and the shifted x must lie inside the grid.
   None = rejected (ValueError) *)
Definition tmc_guard (xmin x q2 xi : Qc) : bool :=
  negb (Qc_leb x 0%Qc) && Qc_leb x 1%Qc && negb (Qc_leb q2 0%Qc) && Qc_leb xmin xi.
Definition tmc_run (xmin q2 : Qc) (k : tkind) (m : tmode) (p : @tkin QcFld) : option (list (Qc * tterm)) :=
  if tmc_guard xmin (t_x p) q2 (t_xi p) then Some (tmc_model k m p) else None.

Record tmc_case := {
  tc_kind : tkind; tc_mode : tmode; tc_xmin : Qc; tc_q2 : Qc; tc_kin : @tkin QcFld;
  tc_obs : option (list (Qc * tterm)) }.       (* what the code did: None = ValueError *)

Definition all_terms : list tterm :=
  flat_map (fun k => Shifted k :: map (Integral k) [H2ker; G2ker; H3ker; K2ker]) [TF2; TFL; TF3; TG1].

Definition tmc_ok (tol : Qc) (c : tmc_case) : bool :=
  match tmc_run (tc_xmin c) (tc_q2 c) (tc_kind c) (tc_mode c) (tc_kin c), tc_obs c with
  | None, None => true
  | Some m, Some o => forallb (fun t => rclose tol (coeff_of m t) (coeff_of o t)) all_terms
  | _, _ => false
  end.

(* the guard says what it should *)
Lemma tmc_rejects_below_grid xmin q2 k m p : (t_xi p < xmin)%Qc -> tmc_run xmin q2 k m p = None.
Proof.
  intros H. unfold tmc_run, tmc_guard.
  replace (Qc_leb xmin (t_xi p)) with false; [rewrite andb_false_r; reflexivity|].
  symmetry. unfold Qc_leb. destruct (Qle_bool xmin (t_xi p)) eqn:E; [|reflexivity].
  apply Qle_bool_iff in E. exfalso. apply (Qlt_not_le _ _ H E).
Qed.
Lemma tmc_accepts_inside xmin q2 k m p : (0 < t_x p)%Qc -> (t_x p <= 1)%Qc -> (0 < q2)%Qc -> (xmin <= t_xi p)%Qc ->
  tmc_run xmin q2 k m p = Some (tmc_model k m p).
Proof.
  intros Hx0 Hx1 Hq Hxi. unfold tmc_run, tmc_guard.
  assert (A : forall a, (0 < a)%Qc -> Qc_leb a 0%Qc = false).
  { intros a Ha. unfold Qc_leb. destruct (Qle_bool a 0%Qc) eqn:E; [|reflexivity].
    apply Qle_bool_iff in E. exfalso. apply (Qlt_not_le _ _ Ha E). }
  assert (B : forall a b, (a <= b)%Qc -> Qc_leb a b = true).
  { intros a b Hab. unfold Qc_leb. apply Qle_bool_iff. exact Hab. }
  rewrite (A _ Hx0), (A _ Hq), (B _ _ Hx1), (B _ _ Hxi). reflexivity.
Qed.

(* printers for the patrol (tools/props/C10.py): coefficients of the model and of the specification at a rational point *)
Definition show (l : list (Qc * tterm)) : list (Z * positive * tterm) :=
  map (fun ct => (Qnum (this (fst ct)), Qden (this (fst ct)), snd ct)) l.
Definition model_at (k : tkind) (m : tmode) (x mu rho xi lnxi : Qc) :=
  show (tmc_model k m {| t_x := x; t_mu := mu; t_rho := rho; t_xi := xi; t_lnxi := lnxi |}).
Definition spec_at (k : tkind) (m : tmode) (x M2 Q2 r xi lnxi : Qc) :=
  show (tmc_spec k m {| s_x := x; s_M2 := M2; s_Q2 := Q2; s_r := r; s_xi := xi; s_lnxi := lnxi |}).
