(* CorrCompat.v — agreement predicate for tools/corr/inputs.py *)
From Coq Require Import ZArith List Bool String QArith.
From Yad Require Import Thresholds Compat CompatTheorems.
Import ListNotations.
(* the same card before and after the real compatibility.update (None: it raised ValueError / KeyError) *)
Record ucase := { u_theory : card; u_obs : card; u_theory' : option card; u_obs' : option card }.
Definition ocard_eqb (a b : option card) : bool :=
  match a, b with Some x, Some y => card_eqb x y | None, None => true | _, _ => false end.
Definition ucase_ok (tbl : list (string * option Q * option Q)) (c : ucase) : bool :=
  match update_theory (u_theory c), update_obs tbl (u_obs c) with
  | Some t, Some o => ocard_eqb (Some t) (u_theory' c) && ocard_eqb (Some o) (u_obs' c)
  | _, _ => match u_theory' c with None => true | Some _ => false end      (* either part raising makes update raise *)
  end.
