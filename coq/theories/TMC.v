(* TMC.v — executable model of esf/tmc.py over the abstract field: a target-mass-corrected structure function as a formal
   linear combination of uncorrected structure functions at the Nachtmann variable xi and of integrals over them
   (_convolve_FX with the kernels h2_ker, g2_ker, h3_ker, k2_ker).  ln xi enters as a parameter.
   rho = sqrt(1 + 4 x^2 mu) and xi = 2x/(1+rho) enter through their defining equations.
   Hand-written; tied by tools/corr/tmc.py.  The specification (Schienbein et al. 0709.1775 eqs. for F2, FL, F3 with
   h2, g2, h3; Accardi-Melnitchouk 0808.2397 (D.26) for g1), in terms of M^2, Q^2 and r, is in the same file. *)
From Coq Require Import ZArith List Bool.
From Yad Require Import Base.
Import ListNotations.

Inductive tkind := TF2 | TFL | TF3 | TG1.
Inductive tmode := APFEL | Approx | Exact.          (* TMC = 1, 2, 3 *)
(* integration kernels: (ker (x) F)(xi) = int_xi^1 dz/z ker(z) F(xi/z) = int_xi^1 du/u ker(xi/u) F(u) *)
Inductive tker := H2ker    (* z / xi          : int du F(u)/u^2 *)
               | G2ker    (* 1 - z           : int du (u - xi) F(u)/u^2 *)
               | H3ker    (* 1               : int du F(u)/u *)
               | K2ker.   (* z ln(1/z) / xi  : int du ln(u/xi) F(u)/u^2 *)
Inductive tterm := Shifted (k : tkind) | Integral (k : tkind) (ker : tker).

Section TMC.
  Context {fld : Fld}.
  Local Open Scope F_scope.
  Definition sq (a : F) := a * a.
  Definition cube (a : F) := a * a * a.

  Record tkin := { t_x : F; t_mu : F; t_rho : F; t_xi : F; t_lnxi : F }.
  (* the code: a list of (coefficient, term) *)
  Definition tmc_model (k : tkind) (m : tmode) (p : tkin) : list (F * tterm) :=
    let x := t_x p in let mu := t_mu p in let rho := t_rho p in let xi := t_xi p in let lnxi := t_lnxi p in
    let six := fz 6 in let twelve := fz 12 in let eight := fz 8 in
    match k with
    | TF2 =>
      let fs := sq x / (sq xi * cube rho) in
      let fh := six * mu * cube x / (sq (sq rho)) in
      match m with
      | Approx => [(fs * (f1 + (six * mu * x * xi / rho) * sq (f1 - xi)), Shifted TF2)]
      | APFEL => [(fs, Shifted TF2); (fh, Integral TF2 H2ker)]
      | Exact => [(fs, Shifted TF2); (fh, Integral TF2 H2ker); (twelve * sq mu * sq (sq x) / (sq (sq rho) * rho), Integral TF2 G2ker)]
      end
    | TFL =>
      let fs := sq x / (sq xi * rho) in
      let fh := four * mu * cube x / sq rho in
      match m with
      | Approx => [(fs, Shifted TFL);
                   (fs * (four * mu * x * xi / rho * (f1 - xi) + eight * sq (mu * x * xi / rho) * (- lnxi - f1 + xi)), Shifted TF2)]
      | APFEL => [(fs, Shifted TFL); (fh, Integral TF2 H2ker)]
      | Exact => [(fs, Shifted TFL); (fh, Integral TF2 H2ker); (eight * sq mu * sq (sq x) / cube rho, Integral TF2 G2ker)]
      end
    | TF3 =>
      let fs := sq x / (sq xi * sq rho) in
      let fh := two * mu * cube x / cube rho in
      match m with
      | Approx => [(fs * (f1 - (mu * x * xi / rho) * ((f1 - xi) * lnxi)), Shifted TF3)]
      | _ => [(fs, Shifted TF3); (fh, Integral TF3 H3ker)]
      end
    | TG1 =>
      let fs := x / (xi * cube rho) / two / xi in
      let f12 := four * sq x * mu / sq (sq rho) in
      let fk1 := (x + xi) / xi / two in
      let fk2 := (sq rho - three) / (two * rho) / two in
      match m with
      | Approx => [(two * xi * (fs + f12 * (fk1 * ((f1 - xi) / xi) + fk2 * (f1 / xi - f1 + lnxi))), Shifted TG1)]
      | APFEL => [(two * xi * fs, Shifted TG1); (two * xi * (f12 * fk1), Integral TG1 H2ker)]
      | Exact => [(two * xi * fs, Shifted TG1); (two * xi * (f12 * fk1), Integral TG1 H2ker); (two * xi * (f12 * fk2), Integral TG1 K2ker)]
      end
    end.

  (* ---------------------------------------------------------------- specification (literature form) *)
  (* in terms of M2, Q2, r; structure functions normalised as in yadism: F3 stands for x F3, g1 for 2 x g1, so that
     h3 = int du F3(u)/u = int du [u F3(u)]/u^2  and  int du/u g1(u) = 1/2 int du [2 u g1(u)]/u^2 *)
  Record skin := { s_x : F; s_M2 : F; s_Q2 : F; s_r : F; s_xi : F; s_lnxi : F }.
  Definition tmc_spec (k : tkind) (m : tmode) (p : skin) : list (F * tterm) :=
    let x := s_x p in let M2 := s_M2 p in let Q2 := s_Q2 p in let r := s_r p in let xi := s_xi p in let lnxi := s_lnxi p in
    let r2 := r * r in let r3 := r2 * r in let r4 := r2 * r2 in let r5 := r4 * r in
    let x2 := x * x in let x3 := x2 * x in let x4 := x2 * x2 in
    match k with
    | TF2 =>
      match m with
      | Exact => [(x2 / (xi * xi * r3), Shifted TF2); (fz 6 * M2 * x3 / (Q2 * r4), Integral TF2 H2ker);
                  (fz 12 * (M2 * M2) * x4 / (Q2 * Q2 * r5), Integral TF2 G2ker)]
      | APFEL => [(x2 / (xi * xi * r3), Shifted TF2); (fz 6 * M2 * x3 / (Q2 * r4), Integral TF2 H2ker)]     (* g2 := 0 *)
      | Approx => [(x2 / (xi * xi * r3) * (f1 + fz 6 * (M2 / Q2) * x * xi / r * ((f1 - xi) * (f1 - xi))), Shifted TF2)]
      end
    | TFL =>
      match m with
      | Exact => [(x2 / (xi * xi * r), Shifted TFL); (four * M2 * x3 / (Q2 * r2), Integral TF2 H2ker);
                  (fz 8 * (M2 * M2) * x4 / (Q2 * Q2 * r3), Integral TF2 G2ker)]
      | APFEL => [(x2 / (xi * xi * r), Shifted TFL); (four * M2 * x3 / (Q2 * r2), Integral TF2 H2ker)]
      | Approx => [(x2 / (xi * xi * r), Shifted TFL);
                   (x2 / (xi * xi * r) * (four * (M2 / Q2) * x * xi / r * (f1 - xi)
                                          + fz 8 * ((M2 / Q2) * x * xi / r) * ((M2 / Q2) * x * xi / r) * (- lnxi - f1 + xi)), Shifted TF2)]
      end
    | TF3 =>
      match m with
      (* x F3^TMC = x^2/(xi^2 r^2) [xi F3(xi)] + 2 M2 x^3/(Q2 r^3) h3,  h3 = int du [u F3]/u^2 : the H2 kernel on x F3 *)
      | Approx => [(x2 / (xi * xi * r2) * (f1 - (M2 / Q2) * x * xi / r * ((f1 - xi) * lnxi)), Shifted TF3)]
      | _ => [(x2 / (xi * xi * r2), Shifted TF3); (two * M2 * x3 / (Q2 * r3), Integral TF3 H2ker)]
      end
    | TG1 =>
      (* 2x g1^TMC = 2x [ x/(xi r^3) g1(xi) + (r^2-1)/r^4 int du/u ((x+xi)/xi - (3-r^2)/(2r) ln(u/xi)) g1(u) ],  2 xi g1(xi) = G1(xi) *)
      let c := (r2 - f1) / r4 in
      match m with
      | Exact => [(two * x * (x / (xi * r3)) / (two * xi), Shifted TG1); (two * x * (c * ((x + xi) / xi)) / two, Integral TG1 H2ker);
                  (two * x * (c * (- (three - r2) / (two * r))) / two, Integral TG1 K2ker)]
      | APFEL => [(two * x * (x / (xi * r3)) / (two * xi), Shifted TG1); (two * x * (c * ((x + xi) / xi)) / two, Integral TG1 H2ker)]
      (* the integrals evaluated with G(u) ~ G(xi): int du/u^2 = (1-xi)/xi, int du ln(u/xi)/u^2 = 1/xi - 1 + ln xi *)
      | Approx => [(two * x * (x / (xi * r3) / (two * xi)
                               + c * ((x + xi) / xi * ((f1 - xi) / xi) / two - (three - r2) / (two * r) * (f1 / xi - f1 + lnxi) / two)), Shifted TG1)]
      end
    end.
End TMC.
