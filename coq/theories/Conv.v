(* Conv.v — the real-number meaning of esf/conv.py::convolution (idealised: exact quadrature, eps borders = 0)
   and of the operator entry built from it in esf/esf.py::compute_local. Hand-written; the structure (limits, break
   points, which parts enter, local term, factor) is tied by tools/corr/convplan.py on the real function. *)
From Coq Require Import Reals List.
From Coquelicot Require Import Coquelicot.
Import ListNotations.
Open Scope R_scope.

(* a kernel triple at fixed arguments; an absent part is the zero function *)
Record rsl := { r_reg : R -> R; r_sing : R -> R; r_loc : R -> R }.

(* quad_ker_reg_sing *)
Definition integrand (k : rsl) (p : R -> R) (x z : R) : R :=
  r_reg k z * (p (x / z) / z) + r_sing k z * (p (x / z) / z - p x).
(* the specification: the distribution reg + [sing]_+ + loc-term convolved with p at x *)
Definition conv_spec (k : rsl) (p : R -> R) (x : R) : R := RInt (integrand k p x) x 1 + p x * r_loc k x.
(* the code: integrates only up to zmax = min(x / a, 1), a = lower border of the support of p; 0 when the support of p
   ends at or below x *)
Definition conv_code (k : rsl) (p : R -> R) (a b x : R) : R :=
  if Rle_dec b x then 0 else RInt (integrand k p x) x (Rmin (x / a) 1) + p x * r_loc k x.
(* operator entry of one partonic channel: partons[pid] * cp * convolution(rsl, cp, p_j) *)
Definition entry (w : R) (k : rsl) (p : R -> R) (a b cp : R) : R := w * (cp * conv_code k p a b cp).
