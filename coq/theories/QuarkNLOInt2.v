(* QuarkNLOInt2.v — C08, the NLO quark channel of CC F3 and FL as distributions (F2 is in QuarkNLOInt.v): a generic lemma for two kernel triples
   whose regular parts, singular parts (times 1-z) and local parts differ by explicit integrable bounds, and its two instances. *)
From Coq Require Import Reals List Lra ZArith Psatz.
From Coquelicot Require Import Coquelicot.
From Yad Require Import Expr SpecNLO GluonLimit KTactics Conv ConvTheorems ConvGen QuarkNLOLimit QuarkNLOInt GluonInt.
From YadGen Require Import InstKernels.
Import ListNotations.
Open Scope R_scope.

Definition bnd (l c0 c1 c4 c5 z : R) : R := c0 + c1 * (- ln (1 - z)) + c4 * / (1 - l * z) + c5 * (ln (1 - l * z) - ln (1 - z)).
Definition ibnd (l x c0 c1 c4 c5 : R) : R := (c0 * 1 - c0 * x) + c1 * (1 + Fex x) + c4 * (Gl l 1 - Gl l x) + c5 * int_L l x.
Lemma int_bnd l x c0 c1 c4 c5 : 1 / 2 <= l < 1 -> 0 < x < 1 -> is_RInt_gen (bnd l c0 c1 c4 c5) (at_point x) (at_left 1) (ibnd l x c0 c1 c4 c5).
Proof.
  intros Hl Hx. unfold bnd, ibnd, int_L. evar_last.
  - apply (is_RInt_gen_plus (V := R_NormedModule)); [apply (is_RInt_gen_plus (V := R_NormedModule)); [apply (is_RInt_gen_plus (V := R_NormedModule))|]|].
    + apply (int_const c0 x). lra.
    + apply (is_RInt_gen_scal (V := R_NormedModule) _ c1). apply (is_RInt_gen_opp (V := R_NormedModule)). apply (int_ln_1mz x Hx).
    + apply (is_RInt_gen_scal (V := R_NormedModule) _ c4). apply (int_inv_1mlz l x Hl Hx).
    + apply (is_RInt_gen_scal (V := R_NormedModule) _ c5).
      apply (is_RInt_gen_minus (V := R_NormedModule)); [apply (int_ln_1mlz l x Hl Hx) | apply (int_ln_1mz x Hx)].
  - unfold scal, plus, minus, opp; cbn. unfold mult; cbn. ring.
Qed.

Lemma rsl_distribution (k1 k2 : rsl) l x p G Lp r0 r1 r4 r5 s0 s1 s4 s5 D v w : 1 / 2 <= l < 1 -> 0 < x < 1 -> 0 <= Lp ->
  (forall z, x <= z < 1 -> Rabs (r_reg k1 z - r_reg k2 z) <= bnd l r0 r1 r4 r5 z) ->
  (forall z, x <= z < 1 -> Rabs (r_sing k1 z - r_sing k2 z) * (1 - z) <= bnd l s0 s1 s4 s5 z) ->
  Rabs (r_loc k1 x - r_loc k2 x) <= D ->
  (forall u, x <= u <= 1 -> Rabs (p u) <= G) ->
  (forall u t, x <= u <= 1 -> x <= t <= 1 -> Rabs (p u - p t) <= Lp * Rabs (u - t)) ->
  is_conv k1 p x v -> is_conv k2 p x w ->
  Rabs (v - w) <= G / x * ibnd l x r0 r1 r4 r5 + (Lp * x + G) / (x * x) * ibnd l x s0 s1 s4 s5 + D * G.
Proof.
  intros Hl Hx HLp Hr Hs HD Hg HL [lv [Hv ->]] [lw [Hw ->]].
  assert (G0 : 0 <= G) by (eapply Rle_trans; [apply Rabs_pos | apply (Hg x); lra]).
  replace (lv + p x * r_loc k1 x - (lw + p x * r_loc k2 x)) with ((lv - lw) + p x * (r_loc k1 x - r_loc k2 x)) by ring.
  eapply Rle_trans; [apply Rabs_triang|]. apply Rplus_le_compat.
  - assert (Hrange : filter_prod (at_point x) (at_left 1) (fun ab => fst ab = x /\ x < snd ab < 1)).
    { apply (Filter_prod _ _ _ (fun a => a = x) (fun b => x < b < 1)); [reflexivity | | intros a b Ha Hb; cbn; split; assumption].
      exists (mkposreal (1 - x) ltac:(lra)). intros y Hy Hy1. unfold ball in Hy; cbn in Hy; unfold AbsRing_ball, abs, minus, plus, opp in Hy; cbn in Hy.
      apply Rabs_def2 in Hy. lra. }
    set (A := G / x). set (Bc := (Lp * x + G) / (x * x)).
    assert (A0 : 0 <= A) by (unfold A; apply Rmult_le_pos; [lra | left; apply Rinv_0_lt_compat; lra]).
    assert (B0 : 0 <= Bc) by (unfold Bc; apply Rmult_le_pos; [nra | left; apply Rinv_0_lt_compat; nra]).
    set (bf := fun z => plus (scal A (bnd l r0 r1 r4 r5 z)) (scal Bc (bnd l s0 s1 s4 s5 z))).
    change (norm (V := R_NormedModule) (lv - lw) <= A * ibnd l x r0 r1 r4 r5 + Bc * ibnd l x s0 s1 s4 s5).
    apply (RInt_gen_norm (V := R_CompleteNormedModule) (Fa := at_point x) (Fb := at_left 1)
             (fun z => minus (integrand k1 p x z) (integrand k2 p x z)) bf (lv - lw)).
    + apply (filter_imp (fun ab => fst ab = x /\ x < snd ab < 1)); [|exact Hrange]. intros [a b] [Ha Hb]; cbn in *; lra.
    + apply (filter_imp (fun ab => fst ab = x /\ x < snd ab < 1)); [|exact Hrange]. intros [a b] [Ha Hb] z Hz; cbn [fst snd] in *. subst a.
      assert (Hz01 : 0 < z < 1) by lra.
      change (Rabs (integrand k1 p x z + - integrand k2 p x z) <= A * bnd l r0 r1 r4 r5 z + Bc * bnd l s0 s1 s4 s5 z). unfold integrand.
      set (Dr := r_reg k1 z - r_reg k2 z). set (Ds := r_sing k1 z - r_sing k2 z).
      replace (r_reg k1 z * (p (x / z) / z) + r_sing k1 z * (p (x / z) / z - p x) + - (r_reg k2 z * (p (x / z) / z) + r_sing k2 z * (p (x / z) / z - p x)))
        with (Dr * (p (x / z) / z) + Ds * (p (x / z) / z - p x)) by (unfold Dr, Ds; ring).
      pose proof (Hr z ltac:(lra)) as HR. fold Dr in HR. pose proof (Hs z ltac:(lra)) as HS. fold Ds in HS.
      assert (Hzi : 0 < / z <= / x) by (split; [apply Rinv_0_lt_compat; lra | apply Rinv_le_contravar; lra]).
      assert (Hu : x <= x / z <= 1).
      { split.
        - apply Rmult_le_reg_r with z; [lra|]. unfold Rdiv. rewrite Rmult_assoc, Rinv_l by lra. nra.
        - apply Rmult_le_reg_r with z; [lra|]. unfold Rdiv. rewrite Rmult_assoc, Rinv_l by lra. lra. }
      assert (P1 : Rabs (p (x / z) / z) <= A).
      { unfold Rdiv. rewrite Rabs_mult, (Rabs_pos_eq (/ z)) by lra. unfold A, Rdiv. apply Rmult_le_compat; try lra; [apply Rabs_pos | apply Hg, Hu]. }
      assert (P2 : Rabs (p (x / z) / z - p x) <= Bc * (1 - z)).
      { replace (p (x / z) / z - p x) with ((p (x / z) - p x) * / z + p x * (/ z - 1)) by (unfold Rdiv; ring).
        eapply Rle_trans; [apply Rabs_triang|]. rewrite !Rabs_mult, (Rabs_pos_eq (/ z)) by lra.
        assert (Hz1 : 1 <= / z) by (rewrite <- Rinv_1; apply Rinv_le_contravar; lra). rewrite (Rabs_pos_eq (/ z - 1)) by lra.
        assert (D1 : Rabs (p (x / z) - p x) <= Lp * (x * (/ z - 1))).
        { eapply Rle_trans; [apply HL; [exact Hu | lra]|]. apply Rmult_le_compat_l; [exact HLp|].
          replace (x / z - x) with (x * (/ z - 1)) by (unfold Rdiv; ring). rewrite Rabs_pos_eq; [lra|]. apply Rmult_le_pos; lra. }
        assert (D2 : Rabs (p x) <= G) by (apply Hg; lra).
        assert (Q : / z - 1 = (1 - z) * / z) by (field; lra). rewrite Q in *.
        assert (Hxx : / z * / z <= / (x * x)). { rewrite <- Rinv_mult by lra. apply Rinv_le_contravar; nra. }
        assert (T1 : Rabs (p (x / z) - p x) * / z <= Lp * x * (1 - z) * (/ z * / z)).
        { apply Rle_trans with (Lp * (x * ((1 - z) * / z)) * / z); [apply Rmult_le_compat_r; lra | apply Req_le; ring]. }
        assert (T2 : Rabs (p x) * ((1 - z) * / z) <= G * (1 - z) * (/ z * / z)).
        { apply Rle_trans with (G * ((1 - z) * / z)); [apply Rmult_le_compat_r; [apply Rmult_le_pos; lra | exact D2]|].
          replace (G * (1 - z) * (/ z * / z)) with (G * ((1 - z) * / z) * / z) by ring.
          rewrite <- (Rmult_1_r (G * ((1 - z) * / z))) at 1. apply Rmult_le_compat_l; [apply Rmult_le_pos; [lra | apply Rmult_le_pos; lra] | exact Hz1]. }
        unfold Bc, Rdiv.
        apply Rle_trans with ((Lp * x + G) * (1 - z) * (/ z * / z)); [lra|].
        replace ((Lp * x + G) * / (x * x) * (1 - z)) with ((Lp * x + G) * (1 - z) * / (x * x)) by ring.
        apply Rmult_le_compat_l; [apply Rmult_le_pos; nra | exact Hxx]. }
      eapply Rle_trans; [apply Rabs_triang|]. rewrite !Rabs_mult.
      assert (S1 : Rabs Dr * Rabs (p (x / z) / z) <= bnd l r0 r1 r4 r5 z * A) by (apply Rmult_le_compat; try assumption; apply Rabs_pos).
      assert (S2 : Rabs Ds * Rabs (p (x / z) / z - p x) <= bnd l s0 s1 s4 s5 z * Bc).
      { apply Rle_trans with (Rabs Ds * (Bc * (1 - z))); [apply Rmult_le_compat_l; [apply Rabs_pos | exact P2]|].
        replace (Rabs Ds * (Bc * (1 - z))) with (Rabs Ds * (1 - z) * Bc) by ring. apply Rmult_le_compat_r; assumption. }
      lra.
    + apply (is_RInt_gen_minus (V := R_NormedModule)); assumption.
    + unfold bf. apply (is_RInt_gen_plus (V := R_NormedModule)); apply (is_RInt_gen_scal (V := R_NormedModule)); apply int_bnd; assumption.
  - rewrite Rabs_mult, Rmult_comm. apply Rmult_le_compat; try apply Rabs_pos; [exact HD | apply Hg; lra].
Qed.

(* an integrated bound whose coefficients carry the factor e = 1 - l (c5 excepted) is O(e (1 + |ln e|)) *)
Lemma ibnd_rate l x c0 c1 c4 c5 : 1 / 2 <= l < 1 -> 0 < x < 1 -> 0 <= c0 -> 0 <= c1 -> 0 <= c4 -> 0 <= c5 ->
  ibnd l x ((1 - l) * c0) ((1 - l) * c1) ((1 - l) * c4) c5
  <= (1 - l) * (1 + - ln (1 - l)) * (c0 + c1 * (1 - ln (1 - x)) + 2 * c4 + c5 * (7 - ln (1 - x))).
Proof.
  intros Hl Hx H0 H1 H4 H5. unfold ibnd.
  pose proof (rate_step l x x c0 0 c1 c4 c5 Hl Hx ltac:(lra) H0 ltac:(lra) H1 H4 H5) as R.
  replace (x / x) with 1 in R by (field; lra). rewrite !Rmult_1_l in R.
  replace ((1 - l) * (c0 + 0 * - ln (1 - l))) with ((1 - l) * c0) in R by ring.
  replace (c0 + 0 + c1 * (1 - ln (1 - x)) + 2 * c4 + c5 * (7 - ln (1 - x))) with (c0 + c1 * (1 - ln (1 - x)) + 2 * c4 + c5 * (7 - ln (1 - x))) in R by ring.
  eapply Rle_trans; [|exact R]. apply Req_le. ring.
Qed.

Lemma neg_ln_over z : 0 < z < 1 -> 0 < - ln z / (1 - z) <= / z.
Proof.
  intros Hz. assert (Hd : ln z < 0) by (rewrite <- ln_1; apply ln_increasing; lra).
  assert (Hi : 0 < / (1 - z)) by (apply Rinv_0_lt_compat; lra).
  split; [apply Rmult_lt_0_compat; lra|].
  pose proof (ln_le_minus_1 (/ z) ltac:(apply Rinv_0_lt_compat; lra)) as H. rewrite ln_Rinv in H by lra.
  apply Rmult_le_reg_r with (1 - z); [lra|]. unfold Rdiv. rewrite Rmult_assoc, Rinv_l by lra.
  replace (/ z * (1 - z)) with (/ z - 1) by (field; lra). lra.
Qed.
Lemma c3q1_reg_bound x z : 0 < x <= z -> z < 1 -> Rabs (c3q1_reg z) <= CF * (4 * (- ln (1 - z)) + 4 * (- ln x) + 4 / x + 14).
Proof.
  intros Hx Hz. unfold c3q1_reg, c2q1_reg, CF.
  assert (He : ln (1 - z) < 0) by (rewrite <- ln_1; apply ln_increasing; lra).
  pose proof (neg_ln_mono x z Hx Hz) as Hd. pose proof (neg_ln_over z ltac:(lra)) as Ho.
  assert (Hzx : / z <= / x) by (apply Rinv_le_contravar; lra).
  set (e := ln (1 - z)) in *. set (d := ln z) in *. set (o := - d / (1 - z)) in *.
  replace (4 * d / (1 - z)) with (- 4 * o) by (unfold o, Rdiv; ring).
  replace (4 / x) with (4 * / x) by (unfold Rdiv; ring).
  assert (P1 : Rabs (-2 * (1 + z) * (e - d)) <= 4 * (- e) + 4 * (- d)) by (apply Rabs_le; split; nra).
  apply Rabs_le. apply Rabs_le_between in P1. split; nra.
Qed.

(* ---------------------------------------------------------------- F3 *)
Definition k_massive3 (sp : special) (l : R) : rsl :=
  {| r_reg := fun z => eval sp ik_heavy_f3_cc_NonSinglet_NLO_reg z [l];
     r_sing := fun z => eval sp ik_heavy_f3_cc_NonSinglet_NLO_sing z [l];
     r_loc := fun z => eval sp ik_heavy_f3_cc_NonSinglet_NLO_loc z [l] |}.
Definition k_massless3 : rsl := {| r_reg := c3q1_reg; r_sing := c2q1_sing; r_loc := c2q1_loc |}.
Definition Kconst3 (x G Lp : R) : R :=
  G / x * ((8 * CF + CF * (4 * - ln x + 4 / x + 14)) + 4 * CF * (1 - ln (1 - x)) + 2 * (2 * CF) + 4 * CF * (7 - ln (1 - x)))
  + (Lp * x + G) / (x * x) * (11 * CF + 4 * CF * (1 - ln (1 - x)) + 2 * (2 * CF) + 4 * CF * (7 - ln (1 - x)))
  + (26 * CF + (A2sing x + Bsing x) * x) * G.

Lemma f3_reg_diff_sharp sp x z l : 0 < x <= z -> z < 1 -> 1 / 2 <= l < 1 ->
  Rabs (eval sp ik_heavy_f3_cc_NonSinglet_NLO_reg z [l] - c3q1_reg z)
  <= bnd l ((1 - l) * (8 * CF + CF * (4 * - ln x + 4 / x + 14))) ((1 - l) * (4 * CF)) ((1 - l) * (2 * CF)) (4 * CF) z.
Proof.
  intros Hx Hz Hl. rewrite f3_reg_diff by lra. unfold bnd.
  destruct (log_facts z l ltac:(lra) Hl) as (Ha & Hb & Hc & Hd & He & Hcd & Hf).
  assert (Hlz : 0 < 1 - l * z) by nra. assert (Hj : 0 < / (1 - l * z)) by (apply Rinv_0_lt_compat; lra).
  pose proof (c3q1_reg_bound x z Hx Hz) as HG.
  eapply Rle_trans; [apply Rabs_triang|]. rewrite Rabs_Ropp, (Rabs_mult (1 - l)), (Rabs_pos_eq (1 - l)) by lra.
  set (a := ln l) in *. set (L := ln (1 - l * z) - ln (1 - z)). assert (HL : 0 <= L) by (unfold L; lra).
  set (j := / (1 - l * z)) in *. replace ((1 - l) * z / (1 - l * z)) with ((1 - l) * z * j) by (unfold j, Rdiv; ring).
  assert (P : Rabs (2 * CF * (l * ((1 + z) * a + (1 + z) * L - (1 - l) * z * j))) <= 2 * CF * (4 * (1 - l) + 2 * L + (1 - l) * j)).
  { unfold CF. rewrite Rabs_mult, (Rabs_pos_eq (2 * (4 / 3))) by lra. apply Rmult_le_compat_l; [lra|].
    rewrite Rabs_mult, (Rabs_pos_eq l) by lra.
    apply Rle_trans with (1 * Rabs ((1 + z) * a + (1 + z) * L - (1 - l) * z * j)); [apply Rmult_le_compat_r; [apply Rabs_pos | lra]|]. rewrite Rmult_1_l.
    assert (0 <= (1 - l) * z * j <= (1 - l) * j) by (split; [apply Rmult_le_pos; nra | apply Rmult_le_compat_r; nra]).
    apply Rabs_le. split; nra. }
  assert (Q : (1 - l) * Rabs (c3q1_reg z) <= (1 - l) * (CF * (4 * - ln (1 - z) + 4 * - ln x + 4 / x + 14))) by (apply Rmult_le_compat_l; lra).
  unfold CF in *. fold L. lra.
Qed.
Lemma f3_sing_diff_sharp sp z l : 0 < z < 1 -> 1 / 2 <= l < 1 ->
  Rabs (eval sp ik_heavy_f3_cc_NonSinglet_NLO_sing z [l] - c2q1_sing z) * (1 - z)
  <= bnd l ((1 - l) * (11 * CF)) ((1 - l) * (4 * CF)) ((1 - l) * (2 * CF)) (4 * CF) z.
Proof.
  intros Hz Hl. rewrite f3_sing_is_lambda_f2 by lra. unfold bnd.
  pose proof (f2_sing_diff_sharp sp z l Hz Hl) as H2.
  set (h := eval sp ik_heavy_f2_cc_NonSinglet_NLO_sing z [l]) in *. set (s := c2q1_sing z) in *.
  replace (l * h - s) with (l * (h - s) - (1 - l) * s) by ring.
  assert (Hs : Rabs s * (1 - z) <= 3 * CF + 4 * CF * (- ln (1 - z))).
  { unfold s, c2q1_sing, cq1_D0, cq1_D1, CF. assert (He : ln (1 - z) < 0) by (rewrite <- ln_1; apply ln_increasing; lra).
    unfold Rdiv. rewrite Rabs_mult, (Rabs_pos_eq (/ (1 - z))) by (left; apply Rinv_0_lt_compat; lra).
    rewrite Rmult_assoc, Rinv_l, Rmult_1_r by lra. apply Rabs_le. split; lra. }
  eapply Rle_trans; [apply Rmult_le_compat_r; [lra | apply Rabs_triang]|]. rewrite Rabs_Ropp, !Rabs_mult, (Rabs_pos_eq l), (Rabs_pos_eq (1 - l)) by lra.
  assert (T1 : l * Rabs (h - s) * (1 - z) <= 2 * CF * (4 * (1 - l) + 2 * (ln (1 - l * z) - ln (1 - z)) + (1 - l) * / (1 - l * z))).
  { rewrite Rmult_assoc. rewrite <- (Rmult_1_l (2 * CF * _)). apply Rmult_le_compat; try lra. apply Rmult_le_pos; [apply Rabs_pos | lra]. }
  assert (T2 : (1 - l) * Rabs s * (1 - z) <= (1 - l) * (3 * CF + 4 * CF * - ln (1 - z))) by (rewrite Rmult_assoc; apply Rmult_le_compat_l; lra).
  unfold CF in *. lra.
Qed.

Theorem quark_f3_distribution_rate sp l x p G Lp v w : special_ok sp -> reflection sp l -> 1 / 2 <= l < 1 -> 0 < x < 1 -> 0 <= Lp ->
  (forall u, x <= u <= 1 -> Rabs (p u) <= G) ->
  (forall u t, x <= u <= 1 -> x <= t <= 1 -> Rabs (p u - p t) <= Lp * Rabs (u - t)) ->
  is_conv (k_massive3 sp l) p x v -> is_conv k_massless3 p x w ->
  Rabs (v - w) <= (1 - l) * (1 + - ln (1 - l)) * Kconst3 x G Lp.
Proof.
  intros Hsp Hrefl Hl Hx HLp Hg HL Hv Hw.
  assert (G0 : 0 <= G) by (eapply Rle_trans; [apply Rabs_pos | apply (Hg x); lra]).
  assert (Hnx : 0 < - ln x) by (assert (ln x < 0) by (rewrite <- ln_1; apply ln_increasing; lra); lra).
  assert (Hix : 0 < / x) by (apply Rinv_0_lt_compat; lra).
  set (e := 1 - l). assert (He : 0 < e <= 1 / 2) by (unfold e; lra).
  set (La := - ln e). assert (HLa : 0 < La) by (unfold La, e; assert (ln (1 - l) < 0) by (rewrite <- ln_1; apply ln_increasing; lra); lra).
  eapply Rle_trans.
  - apply (rsl_distribution (k_massive3 sp l) k_massless3 l x p G Lp
             (e * (8 * CF + CF * (4 * - ln x + 4 / x + 14))) (e * (4 * CF)) (e * (2 * CF)) (4 * CF)
             (e * (11 * CF)) (e * (4 * CF)) (e * (2 * CF)) (4 * CF)
             (e * (2 * CF * (13 + 4 * La) + (A2sing x + Bsing x) * x)) v w Hl Hx HLp); try assumption.
    + intros z Hz. cbn [r_reg k_massive3 k_massless3]. apply (f3_reg_diff_sharp sp x z l); lra.
    + intros z Hz. cbn [r_sing k_massive3 k_massless3]. apply (f3_sing_diff_sharp sp z l); lra.
    + cbn [r_loc k_massive3 k_massless3]. apply (quark_f3_loc_limit sp l x Hsp Hrefl Hl). lra.
  - unfold Kconst3.
    assert (A0 : 0 <= G / x) by (apply Rmult_le_pos; lra).
    assert (B0 : 0 <= (Lp * x + G) / (x * x)) by (apply Rmult_le_pos; [nra | left; apply Rinv_0_lt_compat; nra]).
    assert (HS : 0 <= (A2sing x + Bsing x) * x).
    { apply Rmult_le_pos; [|lra]. pose proof (A2sing_mono 0 x ltac:(lra) ltac:(lra)). pose proof (c2q1_sing_bound 0 x ltac:(lra) ltac:(lra)).
      assert (0 <= A2sing 0) by (unfold A2sing, CF; replace (1 - 0) with 1 by ring; simpl; lra). pose proof (Rabs_pos (c2q1_sing 0)). lra. }
    pose proof (ibnd_rate l x (8 * CF + CF * (4 * - ln x + 4 / x + 14)) (4 * CF) (2 * CF) (4 * CF) Hl Hx) as R1.
    pose proof (ibnd_rate l x (11 * CF) (4 * CF) (2 * CF) (4 * CF) Hl Hx) as R2.
    unfold CF in *. fold e La in R1, R2.
    assert (R1' := R1 ltac:(unfold Rdiv; nra) ltac:(lra) ltac:(lra) ltac:(lra)). assert (R2' := R2 ltac:(lra) ltac:(lra) ltac:(lra) ltac:(lra)). clear R1 R2.
    set (I1 := ibnd l x (e * (8 * (4 / 3) + 4 / 3 * (4 * - ln x + 4 / x + 14))) (e * (4 * (4 / 3))) (e * (2 * (4 / 3))) (4 * (4 / 3))) in *.
    set (I2 := ibnd l x (e * (11 * (4 / 3))) (e * (4 * (4 / 3))) (e * (2 * (4 / 3))) (4 * (4 / 3))) in *.
    set (K1 := 8 * (4 / 3) + 4 / 3 * (4 * - ln x + 4 / x + 14) + 4 * (4 / 3) * (1 - ln (1 - x)) + 2 * (2 * (4 / 3)) + 4 * (4 / 3) * (7 - ln (1 - x))) in *.
    set (K2 := 11 * (4 / 3) + 4 * (4 / 3) * (1 - ln (1 - x)) + 2 * (2 * (4 / 3)) + 4 * (4 / 3) * (7 - ln (1 - x))) in *.
    set (Sx := (A2sing x + Bsing x) * x) in *.
    assert (T1 : G / x * I1 <= e * (1 + La) * (G / x * K1)).
    { apply Rle_trans with (G / x * (e * (1 + La) * K1)); [apply Rmult_le_compat_l; assumption | apply Req_le; ring]. }
    assert (T2 : (Lp * x + G) / (x * x) * I2 <= e * (1 + La) * ((Lp * x + G) / (x * x) * K2)).
    { apply Rle_trans with ((Lp * x + G) / (x * x) * (e * (1 + La) * K2)); [apply Rmult_le_compat_l; assumption | apply Req_le; ring]. }
    assert (T3 : e * (2 * (4 / 3) * (13 + 4 * La) + Sx) * G <= e * (1 + La) * ((26 * (4 / 3) + Sx) * G)).
    { assert (2 * (4 / 3) * (13 + 4 * La) + Sx <= (1 + La) * (26 * (4 / 3) + Sx)) by nra.
      replace (e * (1 + La) * ((26 * (4 / 3) + Sx) * G)) with (e * ((1 + La) * (26 * (4 / 3) + Sx)) * G) by ring.
      apply Rmult_le_compat_r; [lra|]. apply Rmult_le_compat_l; lra. }
    lra.
Qed.

(* ---------------------------------------------------------------- FL (the massless quark coefficient has no plus distribution and no delta) *)
Definition k_massiveL (sp : special) (l : R) : rsl :=
  {| r_reg := fun z => eval sp ik_heavy_fl_cc_NonSinglet_NLO_reg z [l];
     r_sing := fun z => eval sp ik_heavy_fl_cc_NonSinglet_NLO_sing z [l];
     r_loc := fun z => eval sp ik_heavy_fl_cc_NonSinglet_NLO_loc z [l] |}.
Definition k_masslessL : rsl := {| r_reg := cLq1; r_sing := fun _ => 0; r_loc := fun _ => 0 |}.
Definition KconstL (x G Lp : R) : R :=
  G / x * (2 * CF * (5 + 2 / x) + 12 * CF * (1 - ln (1 - x)) + 2 * (4 * CF) + 0 * (7 - ln (1 - x)))
  + (Lp * x + G) / (x * x) * (7 * CF + 4 * CF * (1 - ln (1 - x)) + 2 * CF + 2 * CF * (7 - ln (1 - x)))
  + (26 * CF + (Bsing x + A2sing x / 2) * x) * G.

Lemma fl_reg_diff_sharp sp x z l : 0 < x <= z -> z < 1 -> 1 / 2 <= l < 1 ->
  Rabs (eval sp ik_heavy_fl_cc_NonSinglet_NLO_reg z [l] - cLq1 z)
  <= bnd l ((1 - l) * (2 * CF * (5 + 2 / x))) ((1 - l) * (12 * CF)) ((1 - l) * (4 * CF)) 0 z.
Proof.
  intros Hx Hz Hl. rewrite fl_reg_diff by lra. unfold bnd.
  destruct (log_facts z l ltac:(lra) Hl) as (Ha & Hb & Hc & Hd & He & Hcd & Hf).
  assert (Hlz : 0 < 1 - l * z) by nra. assert (Hj : 0 < / (1 - l * z)) by (apply Rinv_0_lt_compat; lra).
  pose proof (neg_ln_over z ltac:(lra)) as Ho. assert (Hzx : / z <= / x) by (apply Rinv_le_contravar; lra).
  unfold CF. rewrite Rabs_mult, (Rabs_pos_eq (2 * (4 / 3))) by lra. rewrite Rabs_mult, (Rabs_pos_eq (1 - l)) by lra.
  set (a := ln l) in *. set (b := ln (1 - l * z)) in *. set (e := ln (1 - z)) in *. set (d := ln z) in *. set (j := / (1 - l * z)) in *.
  set (o := - d / (1 - z)) in *.
  replace ((1 + z ^ 2) * d / (1 - z)) with (- (1 + z ^ 2) * o) by (unfold o, Rdiv; ring).
  replace (2 / (1 - l * z)) with (2 * j) by (unfold j, Rdiv; ring). replace (2 / x) with (2 * / x) by (unfold Rdiv; ring).
  assert (Hz2 : 1 <= 1 + z ^ 2 <= 2) by (simpl; split; nra).
  assert (Ho2 : 0 <= (1 + z ^ 2) * o <= 2 * / x) by (split; [apply Rmult_le_pos; lra | apply Rmult_le_compat; lra]).
  assert (R : Rabs ((1 + z) * a - - (1 + z ^ 2) * o - (1 + z) * (2 * e - b) + 3 - z - 2 * j) <= 5 + 2 * / x + 6 * - e + 2 * j).
  { apply Rabs_le. split; nra. }
  replace (2 * (4 / 3) * ((1 - l) * Rabs ((1 + z) * a - - (1 + z ^ 2) * o - (1 + z) * (2 * e - b) + 3 - z - 2 * j)))
    with ((1 - l) * (2 * (4 / 3)) * Rabs ((1 + z) * a - - (1 + z ^ 2) * o - (1 + z) * (2 * e - b) + 3 - z - 2 * j)) by ring.
  apply Rle_trans with ((1 - l) * (2 * (4 / 3)) * (5 + 2 * / x + 6 * - e + 2 * j)); [apply Rmult_le_compat_l; [lra | exact R]|].
  fold e. apply Req_le. ring.
Qed.
Lemma fl_sing_sharp sp z l : 0 < z < 1 -> 1 / 2 <= l < 1 ->
  Rabs (eval sp ik_heavy_fl_cc_NonSinglet_NLO_sing z [l] - 0) * (1 - z)
  <= bnd l ((1 - l) * (7 * CF)) ((1 - l) * (4 * CF)) ((1 - l) * CF) (2 * CF) z.
Proof.
  intros Hz Hl. rewrite Rminus_0_r, fl_sing_is_eps_f2 by lra. unfold bnd.
  pose proof (f2_sing_diff_sharp sp z l Hz Hl) as H2.
  destruct (log_facts z l Hz Hl) as (Ha & Hb & Hc & Hd & He & Hcd & Hf).
  assert (Hlz : 0 < 1 - l * z) by nra. assert (Hj : 0 < / (1 - l * z)) by (apply Rinv_0_lt_compat; lra).
  set (h := eval sp ik_heavy_f2_cc_NonSinglet_NLO_sing z [l]) in *. set (s := c2q1_sing z) in *.
  assert (Hs : Rabs s * (1 - z) <= 3 * CF + 4 * CF * (- ln (1 - z))).
  { unfold s, c2q1_sing, cq1_D0, cq1_D1, CF.
    unfold Rdiv. rewrite Rabs_mult, (Rabs_pos_eq (/ (1 - z))) by (left; apply Rinv_0_lt_compat; lra).
    rewrite Rmult_assoc, Rinv_l, Rmult_1_r by lra. apply Rabs_le. split; lra. }
  rewrite Rabs_mult, (Rabs_pos_eq (1 - l)) by lra.
  assert (Hh : Rabs h * (1 - z) <= Rabs (h - s) * (1 - z) + Rabs s * (1 - z)).
  { rewrite <- Rmult_plus_distr_r. apply Rmult_le_compat_r; [lra|]. replace h with ((h - s) + s) at 1 by ring. apply Rabs_triang. }
  set (L := ln (1 - l * z) - ln (1 - z)) in *. assert (HL : 0 <= L) by (unfold L; lra). set (j := / (1 - l * z)) in *.
  set (e := 1 - l) in *. assert (He' : 0 < e <= 1 / 2) by (unfold e; lra).
  set (X := Rabs (h - s) * (1 - z)) in *. set (Y := Rabs s * (1 - z)) in *.
  assert (X0 : 0 <= X) by (unfold X; apply Rmult_le_pos; [apply Rabs_pos | lra]).
  assert (Y0 : 0 <= Y) by (unfold Y; apply Rmult_le_pos; [apply Rabs_pos | lra]).
  rewrite Rmult_assoc. unfold CF in *.
  assert (E1 : e * X <= 4 * (4 / 3) * e + 2 * (4 / 3) * L + (4 / 3) * e * j).
  { apply Rle_trans with (e * (2 * (4 / 3) * (4 * e + 2 * L + e * j))); [apply Rmult_le_compat_l; lra|].
    assert (0 <= e * j) by (apply Rmult_le_pos; lra). nra. }
  assert (E2 : e * Y <= e * (3 * (4 / 3) + 4 * (4 / 3) * - ln (1 - z))) by (apply Rmult_le_compat_l; lra).
  assert (e * (Rabs h * (1 - z)) <= e * X + e * Y) by (rewrite <- Rmult_plus_distr_l; apply Rmult_le_compat_l; lra).
  lra.
Qed.

Theorem quark_fl_distribution_rate sp l x p G Lp v w : special_ok sp -> reflection sp l -> 1 / 2 <= l < 1 -> 0 < x < 1 -> 0 <= Lp ->
  (forall u, x <= u <= 1 -> Rabs (p u) <= G) ->
  (forall u t, x <= u <= 1 -> x <= t <= 1 -> Rabs (p u - p t) <= Lp * Rabs (u - t)) ->
  is_conv (k_massiveL sp l) p x v -> is_conv k_masslessL p x w ->
  Rabs (v - w) <= (1 - l) * (1 + - ln (1 - l)) * KconstL x G Lp.
Proof.
  intros Hsp Hrefl Hl Hx HLp Hg HL Hv Hw.
  assert (G0 : 0 <= G) by (eapply Rle_trans; [apply Rabs_pos | apply (Hg x); lra]).
  assert (Hix : 0 < / x) by (apply Rinv_0_lt_compat; lra).
  set (e := 1 - l). assert (He : 0 < e <= 1 / 2) by (unfold e; lra).
  set (La := - ln e). assert (HLa : 0 < La) by (unfold La, e; assert (ln (1 - l) < 0) by (rewrite <- ln_1; apply ln_increasing; lra); lra).
  eapply Rle_trans.
  - apply (rsl_distribution (k_massiveL sp l) k_masslessL l x p G Lp
             (e * (2 * CF * (5 + 2 / x))) (e * (12 * CF)) (e * (4 * CF)) 0
             (e * (7 * CF)) (e * (4 * CF)) (e * CF) (2 * CF)
             (e * (2 * CF * (13 + 6 * La) + (Bsing x + A2sing x / 2) * x)) v w Hl Hx HLp); try assumption.
    + intros z Hz. cbn [r_reg k_massiveL k_masslessL]. apply (fl_reg_diff_sharp sp x z l); lra.
    + intros z Hz. cbn [r_sing k_massiveL k_masslessL]. apply (fl_sing_sharp sp z l); lra.
    + cbn [r_loc k_massiveL k_masslessL]. rewrite Rminus_0_r. apply (quark_fl_loc_limit sp l x Hsp Hrefl Hl). lra.
  - unfold KconstL.
    assert (A0 : 0 <= G / x) by (apply Rmult_le_pos; lra).
    assert (B0 : 0 <= (Lp * x + G) / (x * x)) by (apply Rmult_le_pos; [nra | left; apply Rinv_0_lt_compat; nra]).
    assert (HS : 0 <= (Bsing x + A2sing x / 2) * x).
    { apply Rmult_le_pos; [|lra]. pose proof (A2sing_mono 0 x ltac:(lra) ltac:(lra)). pose proof (c2q1_sing_bound 0 x ltac:(lra) ltac:(lra)).
      assert (0 <= A2sing 0) by (unfold A2sing, CF; replace (1 - 0) with 1 by ring; simpl; lra). pose proof (Rabs_pos (c2q1_sing 0)). lra. }
    pose proof (ibnd_rate l x (2 * CF * (5 + 2 / x)) (12 * CF) (4 * CF) 0 Hl Hx) as R1.
    pose proof (ibnd_rate l x (7 * CF) (4 * CF) CF (2 * CF) Hl Hx) as R2.
    unfold CF in *. fold e La in R1, R2.
    assert (R1' := R1 ltac:(unfold Rdiv; nra) ltac:(lra) ltac:(lra) ltac:(lra)). assert (R2' := R2 ltac:(lra) ltac:(lra) ltac:(lra) ltac:(lra)). clear R1 R2.
    set (I1 := ibnd l x (e * (2 * (4 / 3) * (5 + 2 / x))) (e * (12 * (4 / 3))) (e * (4 * (4 / 3))) 0) in *.
    set (I2 := ibnd l x (e * (7 * (4 / 3))) (e * (4 * (4 / 3))) (e * (4 / 3)) (2 * (4 / 3))) in *.
    set (K1 := 2 * (4 / 3) * (5 + 2 / x) + 12 * (4 / 3) * (1 - ln (1 - x)) + 2 * (4 * (4 / 3)) + 0 * (7 - ln (1 - x))) in *.
    set (K2 := 7 * (4 / 3) + 4 * (4 / 3) * (1 - ln (1 - x)) + 2 * (4 / 3) + 2 * (4 / 3) * (7 - ln (1 - x))) in *.
    set (Sx := (Bsing x + A2sing x / 2) * x) in *.
    assert (T1 : G / x * I1 <= e * (1 + La) * (G / x * K1)).
    { apply Rle_trans with (G / x * (e * (1 + La) * K1)); [apply Rmult_le_compat_l; assumption | apply Req_le; ring]. }
    assert (T2 : (Lp * x + G) / (x * x) * I2 <= e * (1 + La) * ((Lp * x + G) / (x * x) * K2)).
    { apply Rle_trans with ((Lp * x + G) / (x * x) * (e * (1 + La) * K2)); [apply Rmult_le_compat_l; assumption | apply Req_le; ring]. }
    assert (T3 : e * (2 * (4 / 3) * (13 + 6 * La) + Sx) * G <= e * (1 + La) * ((26 * (4 / 3) + Sx) * G)).
    { assert (2 * (4 / 3) * (13 + 6 * La) + Sx <= (1 + La) * (26 * (4 / 3) + Sx)) by nra.
      replace (e * (1 + La) * ((26 * (4 / 3) + Sx) * G)) with (e * ((1 + La) * (26 * (4 / 3) + Sx)) * G) by ring.
      apply Rmult_le_compat_r; [lra|]. apply Rmult_le_compat_l; lra. }
    lra.
Qed.
