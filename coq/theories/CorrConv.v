(* CorrConv.v — executable plan of esf/conv.py::convolution over Qc (what is integrated from where to where, with which
   break points, and which endpoint terms enter), built on the basis model Interp.v; agreement predicates for
   tools/corr/interp.py and tools/corr/convplan.py. *)
From Coq Require Import ZArith List Bool QArith Qcanon.
From Yad Require Import Base Interp.
Import ListNotations.

Definition Qc_ltb (a b : Qc) : bool := negb (Qc_leb b a).
Definition Qc_min (a b : Qc) : Qc := if Qc_leb a b then a else b.
Definition Qc_maxl (l : list Qc) : Qc := fold_left (fun m v => if Qc_leb m v then v else m) l 0%Qc.

(* ---------------- basis values: eko's p_j(x) against the model *)
Record basis_case := { bc_nodes : list Qc; bc_deg : nat; bc_j : nat; bc_t : Qc; bc_val : Qc;
                       bc_support : option (Qc * Qc) }.
Definition opt_close (tol : Qc) (a b : option (Qc * Qc)) : bool :=
  match a, b with
  | None, None => true
  | Some (a1, a2), Some (b1, b2) => close tol a1 b1 && close tol a2 b2
  | _, _ => false
  end.
Definition basis_ok (tol : Qc) (c : basis_case) : bool :=
  close tol (@basis_eval QcFld Qc_ltb (bc_nodes c) (bc_deg c) (bc_j c) (bc_t c)) (bc_val c)
  && opt_close tol (@support QcFld (bc_nodes c) (bc_deg c) (bc_j c)) (bc_support c).

(* ---------------- the plan of one convolution *)
Record plan := { pl_quad : bool; pl_lo : Qc; pl_hi : Qc; pl_points : list Qc;
                 pl_px : Qc }.       (* p(x): subtracted in the singular integrand, multiplies loc(x) *)
Record conv_case := {
  cc_nodes : list Qc;          (* grid in the interpolation variable (ln x_k in log mode) *)
  cc_xs : list Qc;             (* the same nodes back in x-space, as the code computes them (exp of the above) *)
  cc_deg : nat; cc_j : nat;
  cc_x : Qc; cc_t : Qc;        (* convolution point and its image in the interpolation variable *)
  cc_eps : Qc;
  cc_has_reg : bool; cc_has_sing : bool;
  cc_obs : option plan }.       (* None: the code returned (0, 0) without integrating *)

(* borders of the areas of p_j (indices into the grid), unique and increasing *)
Definition border_indices (n d j : nat) : list nat :=
  let ar := areas_of n d j in
  nodup Nat.eq_dec (flat_map (fun i => [i; S i]) ar).
Definition conv_plan (c : conv_case) : option plan :=
  let n := length (cc_nodes c) in
  if Qc_leb (1 - cc_eps c)%Qc (cc_x c) then None
  else match @support QcFld (cc_nodes c) (cc_deg c) (cc_j c) with
       | None => None
       | Some (_, tmax) =>
         if Qc_leb tmax (cc_t c) then None          (* is_below_x *)
         else
           let brk := map (fun i => (cc_x c / nth i (cc_xs c) 1)%Qc) (border_indices n (cc_deg c) (cc_j c)) in
           let zmax := Qc_min (Qc_maxl brk) 1%Qc in
           Some {| pl_quad := cc_has_reg c || cc_has_sing c;
                   pl_lo := (cc_x c * (1 + cc_eps c))%Qc; pl_hi := (zmax * (1 - cc_eps c))%Qc;
                   pl_points := brk;
                   pl_px := @basis_eval QcFld Qc_ltb (cc_nodes c) (cc_deg c) (cc_j c) (cc_t c) |}
       end.
Fixpoint list_close (tol : Qc) (a b : list Qc) : bool :=
  match a, b with
  | [], [] => true
  | x :: r, y :: s => close tol x y && list_close tol r s
  | _, _ => false
  end.
Definition plan_ok (tol : Qc) (c : conv_case) : bool :=
  match conv_plan c, cc_obs c with
  | None, None => true
  | Some m, Some o =>
    Bool.eqb (pl_quad m) (pl_quad o) && close tol (pl_px m) (pl_px o)
    && (if pl_quad m then close tol (pl_lo m) (pl_lo o) && close tol (pl_hi m) (pl_hi o) && list_close tol (pl_points m) (pl_points o) else true)
  | _, _ => false
  end.
