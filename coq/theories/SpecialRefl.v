(* SpecialRefl.v — the two hypotheses the local-part limits of QuarkNLOLimit.v make about the dilogarithm (its derivative, and Euler's
   reflection identity Li2(l) + Li2(1-l) = pi^2/6 - ln l ln(1-l) on (0,1)) are jointly satisfiable: the interpretation of SpecialR.v
   shifted by the right constant meets both. *)
From Coq Require Import Reals Lra List.
From Coquelicot Require Import Coquelicot.
From Yad Require Import Expr KTactics SpecialR.
Open Scope R_scope.

Definition c_shift : R := (PI ^ 2 / 6 - ln (1 / 2) * ln (1 / 2)) / 2.
Definition special_R2 : special :=
  {| sp_li2 := fun u => Li2_R u + c_shift; sp_snp := fun _ _ _ => 0; sp_snpim := fun _ _ _ => 0; sp_zeta3 := sp_zeta3 special_R |}.

Theorem special_R2_ok : special_ok special_R2.
Proof.
  constructor. intros u H0 H1. cbn [sp_li2 special_R2].
  evar_last. apply (is_derive_plus (V := R_NormedModule) Li2_R (fun _ => c_shift)); [apply (Li2_R_derive u H0 H1) | apply (is_derive_const (V := R_NormedModule))].
  unfold plus, zero; cbn. unfold dli2. lra.
Qed.

Definition phi (l : R) : R := sp_li2 special_R2 l + sp_li2 special_R2 (1 - l) + ln l * ln (1 - l).
Lemma phi_derive l : 0 < l < 1 -> is_derive phi l 0.
Proof.
  intros Hl. unfold phi. cbn [sp_li2 special_R2].
  evar_last.
  - apply (is_derive_plus (V := R_NormedModule) (fun l => Li2_R l + c_shift + (Li2_R (1 - l) + c_shift)) (fun l => ln l * ln (1 - l))).
    + apply (is_derive_plus (V := R_NormedModule) (fun l => Li2_R l + c_shift) (fun l => Li2_R (1 - l) + c_shift)).
      * apply (is_derive_plus (V := R_NormedModule) Li2_R (fun _ => c_shift)); [apply (Li2_R_derive l); lra | apply (is_derive_const (V := R_NormedModule))].
      * apply (is_derive_plus (V := R_NormedModule) (fun l => Li2_R (1 - l)) (fun _ => c_shift)); [|apply (is_derive_const (V := R_NormedModule))].
        apply (is_derive_comp Li2_R (fun l => 1 - l)); [apply (Li2_R_derive (1 - l)); lra|]. auto_derive; [exact I | reflexivity].
    + auto_derive; [lra | reflexivity].
  - unfold plus, zero, scal, one; cbn. unfold mult; cbn. unfold dli2.
    replace (1 - (1 - l)) with l by ring. rewrite !Rabs_pos_eq by lra.
    replace (1 + - l) with (1 - l) by ring. field. lra.
Qed.
Theorem reflection_R2 l : 0 < l < 1 -> sp_li2 special_R2 l + sp_li2 special_R2 (1 - l) = PI ^ 2 / 6 - ln l * ln (1 - l).
Proof.
  intros Hl.
  assert (Hhalf : phi (1 / 2) = PI ^ 2 / 6).
  { unfold phi. cbn [sp_li2 special_R2]. replace (1 - 1 / 2) with (1 / 2) by lra.
    assert (E : Li2_R (1 / 2) = 0).
    { unfold Li2_R. destruct (Rlt_dec 1 (1 / 2)); [lra|]. destruct (Rlt_dec 0 (1 / 2)); [|lra]. apply (RInt_point (V := R_CompleteNormedModule)). }
    rewrite E. unfold c_shift. lra. }
  assert (Hc : phi l = phi (1 / 2)).
  { destruct (Req_dec l (1 / 2)) as [->|Hne]; [reflexivity|].
    destruct (MVT_gen phi (1 / 2) l (fun _ => 0)) as [c [_ E]].
    - intros t Ht. apply phi_derive. destruct (Rle_dec (1 / 2) l); [rewrite Rmin_left, Rmax_right in Ht by lra | rewrite Rmin_right, Rmax_left in Ht by lra]; lra.
    - intros t Ht. apply continuity_pt_filterlim. apply (ex_derive_continuous phi). exists 0. apply phi_derive.
      destruct (Rle_dec (1 / 2) l); [rewrite Rmin_left, Rmax_right in Ht by lra | rewrite Rmin_right, Rmax_left in Ht by lra]; lra.
    - lra. }
  unfold phi in Hc at 1. rewrite Hhalf in Hc. lra.
Qed.
