(* CorrRunnerOrder.v — agreement predicate for tools/corr/runnerorder.py *)
From Coq Require Import ZArith List Bool QArith Qcanon Arith.
From Yad Require Import Base RunnerOrder.
Import ListNotations.

Definition rop_eqb (a b : rop) : bool :=
  match a, b with Eval i, Eval j => Nat.eqb i j | Drop, Drop => true | _, _ => false end.
Fixpoint rops_eqb (a b : list rop) : bool :=
  match a, b with [] , [] => true | x :: r, y :: s => rop_eqb x y && rops_eqb r s | _, _ => false end.
Record ro_case := { ro_q2s : list Qc; ro_ops : list rop; ro_slots : list nat }.   (* slot k of the output holds the result of request ro_slots[k] *)
Definition ro_ok (c : ro_case) : bool :=
  rops_eqb (plan (ro_q2s c)) (ro_ops c)
  && forallb (fun kv => match nth (fst kv) (results (fun i => i) (ro_q2s c)) None with Some i => Nat.eqb i (snd kv) | None => false end)
             (combine (seq 0 (length (ro_slots c))) (ro_slots c))
  && Nat.eqb (length (ro_slots c)) (length (ro_q2s c)).
