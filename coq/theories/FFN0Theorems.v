(* FFN0Theorems.v — C08, structural half: the asymptotic (FFN0) kernels of a heavy quark are built with exactly the
   parton weights, the nf and the heavy-quark mass of their massive (FFNS) counterparts. On the Weights/Combiner model. *)
From Coq Require Import ZArith List Bool String Lia.
From Yad Require Import Base Couplings Weights Combiner.
Import ListNotations.

Section T.
  Context {fld : Fld}.
  Variable gw : Z -> ctype -> mask -> F.
  Variable prc : process.
  Variable rest : Z.
  Variable inv : inventory.
  Variable k : kind.

  (* what the physics of a kernel depends on besides its class: weights, nf, the heavy quark whose mass it gets *)
  Definition wsig (x : kernel) : pmap * Z * Z := (k_partons x, k_nf x, k_ihq x).

  Lemma mk_sig fam cls p nf ihq x : mk prc inv k fam cls p nf ihq = Ok x -> wsig x = (p, nf, ihq).
  Proof.
    unfold mk. destruct (inv_lookup inv fam (modname k prc)) as [cs|]; [|discriminate].
    destruct (find_class cs cls) as [ci|]; [|discriminate]. intros E. injection E as <-. reflexivity.
  Qed.
  Lemma oseq_sigs (l : list (outcome kernel)) (sigs : list (pmap * Z * Z)) ks :
    Forall2 (fun o s => forall x, o = Ok x -> wsig x = s) l sigs -> oseq l = Ok ks -> map wsig ks = sigs.
  Proof.
    intros H. revert ks. induction H as [|o s l' sigs' Ho Hr IH]; intros ks E; cbn [oseq] in E.
    - injection E as <-. reflexivity.
    - destruct o as [x| |]; cbn [obind] in E; try discriminate.
      destruct (oseq l') as [rs| |]; cbn [obind] in E; try discriminate.
      injection E as <-. cbn [map]. rewrite (Ho x eq_refl), (IH rs eq_refl). reflexivity.
  Qed.

  Lemma oseq_mk_sigs fam nf ihq (specs : list (string * pmap)) ks :
    oseq (map (fun cp => mk prc inv k fam (fst cp) (snd cp) nf ihq) specs) = Ok ks ->
    map wsig ks = map (fun cp => (snd cp, nf, ihq)) specs.
  Proof.
    intros E. refine (oseq_sigs _ (map (fun cp => (snd cp, nf, ihq)) specs) ks _ E). clear E.
    induction specs as [|[c p] r IH]; cbn [map]; constructor; [|exact IH].
    intros x Hx. cbn [fst snd] in *. exact (mk_sig _ _ _ _ _ _ Hx).
  Qed.

  (* ---- charged current: quark and gluon channels pair one to one *)
  Theorem heavy_pairing_cc nf pto ihq ks ks' : prc = CC ->
    heavy_generate gw prc rest inv k nf ihq = Ok ks -> heavy_asy gw prc rest inv k nf pto ihq = Ok ks' ->
    map wsig ks = map wsig ks'.
  Proof.
    intros Hp. unfold heavy_generate, heavy_asy. rewrite Hp.
    destruct (imp CC inv k "heavy") as [[]| |]; cbn [obind]; try discriminate.
    destruct (imp CC inv k "asy") as [[]| |]; cbn [obind]; try discriminate.
    intros E1 E2. rewrite <- Hp in E1, E2.
    set (w := cc_weights gw rest (mask_single ihq) nf (is_pv k)) in *.
    rewrite (oseq_mk_sigs "heavy" nf ihq [("NonSinglet", cc_ns w); ("Gluon", cc_g w)] ks E1).
    rewrite (oseq_mk_sigs "asy" nf ihq [("AsyQuark", cc_ns w); ("AsyGluon", cc_g w)] ks' E2).
    reflexivity.
  Qed.

  (* ---- neutral current, parity conserving: every asymptotic gluon / singlet kernel (one pair VV, AA per logarithmic
     order) carries the weights of the massive GluonVV/AA, SingletVV/AA kernels and the same quark; and conversely *)
  Lemma flat_map_mk fam nf ihq (f : nat -> list (string * pmap)) (rs : list nat) :
    flat_map (fun r => map (fun cp => mk prc inv k fam (fst cp) (snd cp) nf ihq) (f r)) rs
    = map (fun cp => mk prc inv k fam (fst cp) (snd cp) nf ihq) (flat_map f rs).
  Proof. induction rs as [|r rs IH]; cbn [flat_map]; [reflexivity|]. rewrite map_app, IH. reflexivity. Qed.
  Lemma nc_match {A} (a b : A) : prc <> CC -> match prc with CC => a | _ => b end = b.
  Proof. intros H. destruct prc; congruence. Qed.
  Lemma cc_match {A} (a b : A) : prc = CC -> match prc with CC => a | _ => b end = a.
  Proof. intros H. rewrite H. reflexivity. Qed.
  Theorem heavy_pairing_nc nf pto ihq ks ks' : prc <> CC -> is_pv k = false ->
    heavy_generate gw prc rest inv k nf ihq = Ok ks -> heavy_asy gw prc rest inv k nf pto ihq = Ok ks' ->
    forall s, In s (map wsig ks) <-> In s (map wsig ks').
  Proof.
    intros Hp Hpv. unfold heavy_generate, heavy_asy. rewrite Hpv.
    destruct (imp prc inv k "heavy") as [[]| |]; cbn [obind]; try discriminate.
    destruct (imp prc inv k "asy") as [[]| |]; cbn [obind]; try discriminate.
    rewrite !(nc_match _ _ Hp).
      (destruct (heavy_nc_weights gw nf ihq) as [[[gvv gaa] svv] saa]; intros E1 E2;
       rewrite (oseq_mk_sigs "heavy" nf ihq [("GluonVV", gvv); ("GluonAA", gaa); ("SingletVV", svv); ("SingletAA", saa)] ks E1);
       set (spec := fun (ch : string) (waa wvv : pmap) (r : nat) => [(("Asy" ++ nstr r ++ "LL" ++ ch)%string, waa); (("Asy" ++ nstr r ++ "LL" ++ ch)%string, wvv)]);
       change (oseq (flat_map (fun r => map (fun cp => mk prc inv k "asy" (fst cp) (snd cp) nf ihq) (spec "Gluon" gaa gvv r)) (seq 0 (S (Z.to_nat pto)))
                     ++ flat_map (fun r => map (fun cp => mk prc inv k "asy" (fst cp) (snd cp) nf ihq) (spec "Singlet" saa svv r)) (seq 0 (S (Z.to_nat pto)))) = Ok ks') in E2;
       rewrite !flat_map_mk, <- map_app in E2;
       rewrite (oseq_mk_sigs "asy" nf ihq _ ks' E2);
       intros s; split;
       [ intros H; cbn [map In snd] in H; destruct H as [H|[H|[H|[H|[]]]]]; subst s;
         rewrite map_app, in_app_iff, !in_map_iff; cbn [seq flat_map];
         [ left; exists (("Asy" ++ nstr 0 ++ "LL" ++ "Gluon")%string, gvv); split; [reflexivity| cbn [spec app In]; auto]
         | left; exists (("Asy" ++ nstr 0 ++ "LL" ++ "Gluon")%string, gaa); split; [reflexivity| cbn [spec app In]; auto]
         | right; exists (("Asy" ++ nstr 0 ++ "LL" ++ "Singlet")%string, svv); split; [reflexivity| cbn [spec app In]; auto]
         | right; exists (("Asy" ++ nstr 0 ++ "LL" ++ "Singlet")%string, saa); split; [reflexivity| cbn [spec app In]; auto] ]
       | intros H; rewrite map_app, in_app_iff, !in_map_iff in H; destruct H as [[cp [<- Hin]]|[cp [<- Hin]]];
         apply in_flat_map in Hin; destruct Hin as [r [_ [<-|[<-|[]]]]]; cbn [map In snd]; auto ]).
  Qed.

  (* ---- heavy-quark initiated (intrinsic) channels: every asymptotic kernel carries the weights of the massive S+/R+
     kernel (the S-/R- combination has no asymptotic counterpart) and the same quark *)
  Theorem intrinsic_pairing nf pto ihq ks ks' :
    intrinsic_generate gw prc rest inv k ihq = Ok ks -> intrinsic_asy gw prc rest inv k nf pto ihq = Ok ks' ->
    exists kp rest_ks, ks = kp :: rest_ks /\
      forall x, In x ks' -> k_partons x = k_partons kp /\ k_ihq x = k_ihq kp /\ k_ihq x = ihq.
  Proof.
    unfold intrinsic_generate, intrinsic_asy.
    destruct (imp prc inv k "intrinsic") as [[]| |]; cbn [obind]; try discriminate.
    destruct (imp prc inv k "asy") as [[]| |]; cbn [obind]; try discriminate.
    intros E1 E2.
    assert (A : forall w, (do a <- mk prc inv k "asy" "AsyLLIntrinsic" w nf ihq;
                           if (0 <? pto)%Z then
                             do b <- mk prc inv k "asy" "AsyNLLIntrinsicMatching" w nf ihq;
                             do c <- mk prc inv k "asy" "AsyNLLIntrinsicLight" w nf ihq; Ok [a; b; c]
                           else Ok [a]) = Ok ks' -> forall x, In x ks' -> k_partons x = w /\ k_ihq x = ihq).
    { intros w E x Hx.
      destruct (mk prc inv k "asy" "AsyLLIntrinsic" w nf ihq) as [a| |] eqn:Ea; cbn [obind] in E; try discriminate.
      pose proof (mk_sig _ _ _ _ _ _ Ea) as Sa.
      destruct (0 <? pto)%Z.
      - destruct (mk prc inv k "asy" "AsyNLLIntrinsicMatching" w nf ihq) as [b| |] eqn:Eb; cbn [obind] in E; try discriminate.
        destruct (mk prc inv k "asy" "AsyNLLIntrinsicLight" w nf ihq) as [c| |] eqn:Ec; cbn [obind] in E; try discriminate.
        pose proof (mk_sig _ _ _ _ _ _ Eb) as Sb. pose proof (mk_sig _ _ _ _ _ _ Ec) as Sc.
        injection E as <-. unfold wsig in *. destruct Hx as [<-|[<-|[<-|[]]]]; split; congruence.
      - injection E as <-. unfold wsig in *. destruct Hx as [<-|[]]; split; congruence. }
    assert (D : prc = CC \/ prc <> CC) by (destruct prc; [right|right|left]; congruence).
    destruct D as [Hc|Hn].
    - rewrite (cc_match _ _ Hc) in E1. rewrite (cc_match _ _ Hc) in E2.
      destruct (mk prc inv k "intrinsic" (if is_pv k then "Rplus" else "Splus") _ (ihq - 1) ihq) as [kp| |] eqn:Ep; cbn [oseq obind] in E1; try discriminate.
      injection E1 as <-. exists kp, []. split; [reflexivity|]. intros x Hx.
      pose proof (mk_sig _ _ _ _ _ _ Ep) as Sp. unfold wsig in Sp. injection Sp as P1 _ P3.
      destruct (A _ E2 x Hx) as [Q1 Q2]. rewrite Q1, Q2, P1, P3. auto.
    - rewrite (nc_match _ _ Hn) in E1. rewrite (nc_match _ _ Hn) in E2.
      destruct (mk prc inv k "intrinsic" (if is_pv k then "Rplus" else "Splus") _ (ihq - 1) ihq) as [kp| |] eqn:Ep; cbn [oseq obind] in E1; try discriminate.
      destruct (mk prc inv k "intrinsic" (if is_pv k then "Rminus" else "Sminus") _ (ihq - 1) ihq) as [km| |]; cbn [obind] in E1; try discriminate.
      injection E1 as <-. exists kp, [km]. split; [reflexivity|]. intros x Hx.
      pose proof (mk_sig _ _ _ _ _ _ Ep) as Sp. unfold wsig in Sp. injection Sp as P1 _ P3.
      destruct (A _ E2 x Hx) as [Q1 Q2]. rewrite Q1, Q2, P1, P3. unfold w_pc_or_pv. destruct (is_pv k); auto.
  Qed.

  (* ---- "missing" channel (light quark line, heavy-quark loop or pair): every asymptotic kernel carries the weights of
     the massive NonSinglet kernel — every light quark couples in both — the same nf and the same heavy quark *)
  Theorem missing_pairing nf pto ihq ks ks' :
    missing gw prc inv k nf ihq = Ok ks -> missing_asy gw prc inv k nf ihq pto = Ok ks' ->
    forall x, In x ks' -> exists y, In y ks /\ wsig x = wsig y.
  Proof.
    unfold missing, missing_asy.
    assert (D : prc = CC \/ prc <> CC) by (destruct prc; [right|right|left]; congruence).
    destruct D as [Hc|Hn].
    - rewrite !(cc_match _ _ Hc). intros _ E x Hx. injection E as <-. destruct Hx.
    - rewrite !(nc_match _ _ Hn).
      destruct (imp prc inv k "heavy") as [[]| |]; cbn [obind]; try discriminate.
      destruct (imp prc inv k "asy") as [[]| |]; cbn [obind]; try discriminate.
      intros E1 E2 x Hx.
      set (w := nc_ns (nc_weights gw nf (is_pv k) false)) in *.
      pose proof (oseq_mk_sigs "heavy" nf ihq [("NonSinglet", w)] ks E1) as S1.
      destruct ks as [|y [|y2 r]]; cbn [map fst snd] in S1; try discriminate.
      assert (Sy : wsig y = (w, nf, ihq)) by congruence.
      exists y. split; [left; reflexivity|]. rewrite Sy.
      assert (A : forall sp, oseq (map (fun r => mk prc inv k "asy" ("Asy" ++ nstr r ++ "LLNonSinglet") w nf ihq) sp) = Ok ks' ->
                             forall z, In z ks' -> wsig z = (w, nf, ihq)).
      { clear. intros sp. revert ks'. induction sp as [|r sp IH]; intros ks' E z Hz; cbn [map oseq] in E.
        - injection E as <-. destruct Hz.
        - destruct (mk prc inv k "asy" ("Asy" ++ nstr r ++ "LLNonSinglet") w nf ihq) as [a| |] eqn:Ea; cbn [obind] in E; try discriminate.
          destruct (oseq (map (fun r0 => mk prc inv k "asy" ("Asy" ++ nstr r0 ++ "LLNonSinglet") w nf ihq) sp)) as [rs| |] eqn:Er; cbn [obind] in E; try discriminate.
          injection E as <-. destruct Hz as [<-|Hz]; [exact (mk_sig _ _ _ _ _ _ Ea) | exact (IH rs eq_refl z Hz)]. }
      exact (A _ E2 x Hx).
  Qed.
End T.
