(* Thresholds.v — executable model of
     input/compatibility.py::update_fns, runner.py (matching scales = m^2 * k^2),
     eko.matchings.Atlas.walls / nf_default  (np.digitize(q, [0, w_c, w_b, w_t, inf]))
   over exact rationals extended by +infinity. Hand-written; tied by tools/corr/thresholds.py. *)
From Coq Require Import ZArith List Bool QArith Lia String.
Import ListNotations.

(* a wall: a non-negative rational or +infinity *)
Inductive wall := Fin (q : Q) | Inf.
Definition wall_leb (w : wall) (q : Q) : bool := match w with Fin x => Qle_bool x q | Inf => false end.

(* np.digitize(q, bins) for monotonically increasing bins, right=False: the number of bins b with b <= q *)
Fixpoint count_le (ws : list wall) (q : Q) : nat :=
  match ws with [] => O | w :: r => (if wall_leb w q then 1 else 0)%nat + count_le r q end.
Definition atlas_walls (wc wb wt : wall) : list wall := [Fin 0; wc; wb; wt; Inf].
Definition nf_default (q : Q) (wc wb wt : wall) : Z := 2 + Z.of_nat (count_le (atlas_walls wc wb wt) q).

(* the statement of C06: number of quarks whose matching scale squared is <= Q2 *)
Definition active_heavy (q : Q) (wc wb wt : wall) : nat :=
  ((if wall_leb wc q then 1 else 0) + (if wall_leb wb q then 1 else 0) + (if wall_leb wt q then 1 else 0))%nat.

(* ------------------------------------------------------------------ update_fns *)
Inductive fns := ZMVFNS | FFNS | FFN0 | FONLL_FFNS | FONLL_FFN0.
Definition fns_of_string (s : string) : option fns :=
  if String.eqb s "ZM-VFNS" then Some ZMVFNS else if String.eqb s "FFNS" then Some FFNS
  else if String.eqb s "FFN0" then Some FFN0 else if String.eqb s "FONLL-FFNS" then Some FONLL_FFNS
  else if String.eqb s "FONLL-FFN0" then Some FONLL_FFN0 else None.
(* what update_fns does to k{fl}Thr: leave it, set 0.0, set inf *)
Inductive kthr := KKeep | KZero | KInf.
(* per heavy quark k = 0,1,2 (c,b,t): (threshold action, ZM flag) *)
Definition update_fns_one (f : fns) (nf : Z) (k : Z) : kthr * bool :=
  match f with
  | ZMVFNS => (KKeep, true)
  | FONLL_FFNS | FONLL_FFN0 =>
      if (k + 4 <=? nf)%Z then (KZero, true)
      else if (nf + 1 <? k + 4)%Z then (KInf, true)
      else (KInf, false)
  | FFNS | FFN0 =>
      if (k + 4 <=? nf)%Z then (KZero, true) else (KInf, false)
  end.
Definition update_fns (f : fns) (nf : Z) : list (kthr * bool) := map (update_fns_one f nf) [0; 1; 2]%Z.

(* matching scale m^2 * k^2 after update_fns; m2k2 is the product the card gives (for KKeep) *)
Definition wall_after (a : kthr) (m2k2 : Q) : wall :=
  match a with KKeep => Fin m2k2 | KZero => Fin 0 | KInf => Inf end.

(* np.digitize raises ValueError when the bins are not monotone: the run is rejected *)
Definition wall_le (a b : wall) : bool :=
  match a, b with Fin x, Fin y => Qle_bool x y | _, Inf => true | Inf, Fin _ => false end.
Fixpoint sorted (ws : list wall) : bool :=
  match ws with a :: ((b :: _) as r) => wall_le a b && sorted r | _ => true end.
Definition nf_default_opt (q : Q) (wc wb wt : wall) : option Z :=
  if sorted (atlas_walls wc wb wt) then Some (nf_default q wc wb wt) else None.

(* ---- correspondence predicates (tools/corr/thresholds.py) ---- *)
Definition wall_eqb (a b : wall) : bool :=
  match a, b with Fin x, Fin y => Qeq_bool x y | Inf, Inf => true | _, _ => false end.
Definition kthr_eqb (a b : kthr) : bool :=
  match a, b with KKeep, KKeep | KZero, KZero | KInf, KInf => true | _, _ => false end.
(* observed: what update_fns did to the three (kThr, ZM) pairs; None = ValueError *)
Definition compat_ok (c : string * Z * option (list (kthr * bool))) : bool :=
  let '(s, nf, ob) := c in
  match fns_of_string s, ob with
  | None, None => true
  | Some f, Some l =>
      (fix eq (a b : list (kthr * bool)) := match a, b with
         | [], [] => true
         | (x, y) :: a', (x', y') :: b' => kthr_eqb x x' && Bool.eqb y y' && eq a' b'
         | _, _ => false end) (update_fns f nf) l
  | _, _ => false
  end.
(* observed: the three walls the runner's Atlas holds and nf_default at some q's (None = ValueError) *)
Record thr_case := {
  tc_fns : string; tc_nf : Z; tc_m2k2 : Q * Q * Q;
  tc_walls : wall * wall * wall; tc_q : list (Q * option Z) }.
Definition thr_ok (c : thr_case) : bool :=
  match fns_of_string (tc_fns c) with
  | None => false
  | Some f =>
    let '(a, b, d) := tc_m2k2 c in
    let '(wc, wb, wt) := tc_walls c in
    match update_fns f (tc_nf c) with
    | [(ka, _); (kb, _); (kc, _)] =>
        wall_eqb (wall_after ka a) wc && wall_eqb (wall_after kb b) wb && wall_eqb (wall_after kc d) wt
        && forallb (fun qn => match nf_default_opt (fst qn) wc wb wt, snd qn with
                              | Some n, Some n' => (n =? n')%Z | None, None => true | _, _ => false end) (tc_q c)
    | _ => false
    end
  end.
