(* Base.v — abstract field of characteristic 0 used by every hand-written model.
   Models are written once over [Fld]; they are executed on the instance [QcFld]
   (exact rationals, used by the correspondence checks) and the theorems hold for
   every instance (in particular the reals, see RFld in BaseR.v). *)
From Coq Require Import ZArith List Bool Field QArith Qabs Qcanon Lia.
Import ListNotations.

Set Primitive Projections.
Class Fld := {
  F : Type;
  f0 : F; f1 : F;
  fadd : F -> F -> F; fmul : F -> F -> F; fsub : F -> F -> F;
  fopp : F -> F; fdiv : F -> F -> F; finv : F -> F;
  Fth : field_theory f0 f1 fadd fmul fsub fopp fdiv finv (@eq F);
  (* characteristic 0: the image of every positive integer is non-zero.
     [fpos] is the binary embedding of positives. *)
  feqb : F -> F -> bool;
  feqb_spec : forall a b, feqb a b = true <-> a = b;
}.

Unset Primitive Projections.
Declare Scope F_scope.
Delimit Scope F_scope with F.
Notation "a + b" := (fadd a b) : F_scope.
Notation "a * b" := (fmul a b) : F_scope.
Notation "a - b" := (fsub a b) : F_scope.
Notation "a / b" := (fdiv a b) : F_scope.
Notation "- a" := (fopp a) : F_scope.

Section Numerals.
  Context {fld : Fld}.
  Local Open Scope F_scope.

  Fixpoint fpos (p : positive) : F :=
    match p with
    | xH => f1
    | xO q => (f1 + f1) * fpos q
    | xI q => f1 + (f1 + f1) * fpos q
    end.
  Definition fz (z : Z) : F :=
    match z with Z0 => f0 | Zpos p => fpos p | Zneg p => - fpos p end.
  (* the rational a/b *)
  Definition fq (a : Z) (b : positive) : F := fz a / fpos b.

  Definition two := f1 + f1.
  Definition three := two + f1.
  Definition four := two + two.

  (* sums over lists *)
  Fixpoint fsum (l : list F) : F :=
    match l with [] => f0 | x :: r => x + fsum r end.
End Numerals.

(* generic facts used to discharge the side conditions left by [field] *)
Section Facts.
  Context {fld : Fld}.
  Add Field FfBase : Fth.
  Local Open Scope F_scope.
  Lemma fmul_nz a b : a <> f0 -> b <> f0 -> a * b <> f0.
  Proof.
    intros Ha Hb E. apply Hb.
    transitivity ((f1 / a) * (a * b)); [field; exact Ha | rewrite E; ring].
  Qed.
  Lemma fopp_nz a : a <> f0 -> - a <> f0.
  Proof. intros Ha E. apply Ha. transitivity (- - a); [ring | rewrite E; ring]. Qed.
  Lemma f1_nz : f1 <> f0.
  Proof. intro E. symmetry in E. exact (F_1_neq_0 Fth (eq_sym E)). Qed.
End Facts.

(* characteristic-0 hypotheses, stated where needed *)
Definition Char0 (fld : Fld) : Prop := forall p : positive, @fpos fld p <> f0.

(* reduction that leaves the field operations alone *)
Ltac fcbv := cbv -[F f0 f1 fadd fmul fsub fopp fdiv finv].

(* ------------------------------------------------------------------ *)
(* The executable instance: canonical rationals.                      *)
Definition Qc_eqb (a b : Qc) : bool := Qeq_bool a b.
Lemma Qc_eqb_spec a b : Qc_eqb a b = true <-> a = b.
Proof.
  unfold Qc_eqb. split.
  - intros H. apply Qc_is_canon. apply Qeq_bool_eq. exact H.
  - intros ->. apply Qeq_eq_bool. reflexivity.
Qed.

Global Instance QcFld : Fld := {|
  F := Qc; f0 := 0%Qc; f1 := 1%Qc;
  fadd := Qcplus; fmul := Qcmult; fsub := Qcminus; fopp := Qcopp;
  fdiv := Qcdiv; finv := Qcinv;
  Fth := Qcft;
  feqb := Qc_eqb; feqb_spec := Qc_eqb_spec |}.

Definition qc (a : Z) (b : positive) : Qc := Q2Qc (a # b).

Lemma fpos_Qc (p : positive) : @fpos QcFld p = Q2Qc (Zpos p # 1).
Proof.
  induction p as [q IH|q IH|]; cbn [fpos].
  - rewrite IH. apply Qc_is_canon. cbn -[Qred Z.mul Z.add]. rewrite !Qred_correct.
    unfold Qeq; cbn -[Z.mul Z.add]. lia.
  - rewrite IH. apply Qc_is_canon. cbn -[Qred Z.mul Z.add]. rewrite !Qred_correct.
    unfold Qeq; cbn -[Z.mul Z.add]. lia.
  - apply Qc_is_canon. reflexivity.
Qed.

Lemma QcChar0 : Char0 QcFld.
Proof.
  intros p H. rewrite fpos_Qc in H.
  assert (E : (Qred (Zpos p # 1) == 0)%Q).
  { change (Qred (Zpos p # 1)) with (this (Q2Qc (Zpos p # 1))). rewrite H. reflexivity. }
  rewrite Qred_correct in E. unfold Qeq in E; cbn in E. lia.
Qed.

(* comparison helpers for the correspondence checks (Qc only) *)
Definition Qc_abs (a : Qc) : Qc := Q2Qc (Qabs a).
Definition Qc_leb (a b : Qc) : bool := Qle_bool a b.
(* |m - o| <= tol * max(1,|o|) *)
Definition close (tol m o : Qc) : bool :=
  let d := Qc_abs (m - o)%Qc in
  let s := if Qc_leb 1%Qc (Qc_abs o) then Qc_abs o else 1%Qc in
  Qc_leb d (tol * s)%Qc.

(* [nz]: close goals of the form  c1 <> f0 /\ ... /\ cn <> f0  from hypotheses of the same shape
   (up to ring equality) and products of such *)
Ltac nz1 :=
  match goal with
  | H : ?a <> f0 |- ?b <> f0 =>
      let E := fresh "E" in intro E; apply H; transitivity b; [ring | exact E]
  | |- fmul ?a ?b <> f0 => apply fmul_nz; nz1
  | |- fopp ?a <> f0 => apply fopp_nz; nz1
  | |- f1 <> f0 => exact f1_nz
  end.
Ltac nz := repeat split; nz1.
